package main

// The system under test: one real gonum container, reached only through its
// exported methods (graph.* interfaces), plus the code that applies one
// history step to the container and to the model and compares every query.

import (
	"fmt"
	"hash/fnv"
	"math"
	"strconv"

	"gonum.org/v1/gonum/graph"
	"gonum.org/v1/gonum/graph/multi"
	"gonum.org/v1/gonum/graph/simple"
	"gonum.org/v1/gonum/mat"
	"gonum.org/v1/gonum/verifx/vrt"
)

// Weighted simple graphs are built with these self / absent values.
const (
	wdSelf   = -3.0
	wdAbsent = 0.5
)

var (
	wuSelf   = math.Inf(-1)
	wuAbsent = math.NaN()
)

func denseNodes(n int) []graph.Node {
	// Deliberately out of order: New*MatrixFrom sorts them.
	nodes := make([]graph.Node, n)
	for i := range nodes {
		nodes[i] = N{id: int64((i + 1) % n), tag: 0}
	}
	return nodes
}

func (f *family) mk() any {
	switch f.name {
	case "simple.DirectedGraph":
		return simple.NewDirectedGraph()
	case "simple.UndirectedGraph":
		return simple.NewUndirectedGraph()
	case "simple.WeightedDirectedGraph":
		return simple.NewWeightedDirectedGraph(wdSelf, wdAbsent)
	case "simple.WeightedUndirectedGraph":
		return simple.NewWeightedUndirectedGraph(wuSelf, wuAbsent)
	case "multi.DirectedGraph":
		return multi.NewDirectedGraph()
	case "multi.UndirectedGraph":
		return multi.NewUndirectedGraph()
	case "multi.WeightedDirectedGraph":
		return multi.NewWeightedDirectedGraph()
	case "multi.WeightedUndirectedGraph":
		return multi.NewWeightedUndirectedGraph()
	case "simple.DirectedMatrix":
		if f.from {
			return simple.NewDirectedMatrixFrom(denseNodes(f.dim), f.init, f.self, f.absent)
		}
		return simple.NewDirectedMatrix(f.dim, f.init, f.self, f.absent)
	case "simple.UndirectedMatrix":
		if f.from {
			return simple.NewUndirectedMatrixFrom(denseNodes(f.dim), f.init, f.self, f.absent)
		}
		return simple.NewUndirectedMatrix(f.dim, f.init, f.self, f.absent)
	}
	panic("unknown family " + f.name)
}

func (f *family) selfAbsent() (self, absent float64) {
	switch {
	case f.dense:
		return f.self, f.absent
	case f.name == "simple.WeightedDirectedGraph":
		return wdSelf, wdAbsent
	case f.name == "simple.WeightedUndirectedGraph":
		return wuSelf, wuAbsent
	}
	return 0, 0
}

// label distinguishes the configurations of one type in evidence keys.
func (f *family) label() string {
	if !f.dense {
		return f.name
	}
	s := f.name
	if f.from {
		s += "From"
	}
	return fmt.Sprintf("%s(n=%d,init=%v,self=%v,absent=%v)", s, f.dim, f.init, f.self, f.absent)
}

type sut struct {
	fam *family
	g   any

	gr   graph.Graph
	dir  interface{ HasEdgeFromTo(u, v int64) bool }
	to   interface{ To(id int64) graph.Nodes }
	und  interface{ EdgeBetween(x, y int64) graph.Edge }
	wt   graph.Weighted
	wund interface {
		WeightedEdgeBetween(x, y int64) graph.WeightedEdge
	}
	mg  interface{ Lines(u, v int64) graph.Lines }
	wmg interface {
		WeightedLines(u, v int64) graph.WeightedLines
	}
	umg  interface{ LinesBetween(x, y int64) graph.Lines }
	wumg interface {
		WeightedLinesBetween(x, y int64) graph.WeightedLines
	}
	edges  interface{ Edges() graph.Edges }
	wedges interface{ WeightedEdges() graph.WeightedEdges }
	matrix interface{ Matrix() mat.Matrix }

	na  graph.NodeAdder
	nr  graph.NodeRemover
	nw  graph.NodeWithIDer
	ea  graph.EdgeAdder
	es  interface{ SetEdge(e graph.Edge) }
	wea graph.WeightedEdgeAdder
	wes interface{ SetWeightedEdge(e graph.WeightedEdge) }
	er  graph.EdgeRemover
	la  graph.LineAdder
	wla graph.WeightedLineAdder
	lr  graph.LineRemover
	inv interface{ VerifInvariants() error }
}

func newSut(f *family) *sut {
	g := f.mk()
	s := &sut{fam: f, g: g}
	s.gr = g.(graph.Graph)
	s.dir, _ = g.(interface{ HasEdgeFromTo(u, v int64) bool })
	s.to, _ = g.(interface{ To(id int64) graph.Nodes })
	s.und, _ = g.(interface{ EdgeBetween(x, y int64) graph.Edge })
	s.wt, _ = g.(graph.Weighted)
	s.wund, _ = g.(interface {
		WeightedEdgeBetween(x, y int64) graph.WeightedEdge
	})
	s.mg, _ = g.(interface{ Lines(u, v int64) graph.Lines })
	s.wmg, _ = g.(interface {
		WeightedLines(u, v int64) graph.WeightedLines
	})
	s.umg, _ = g.(interface{ LinesBetween(x, y int64) graph.Lines })
	s.wumg, _ = g.(interface {
		WeightedLinesBetween(x, y int64) graph.WeightedLines
	})
	s.edges, _ = g.(interface{ Edges() graph.Edges })
	s.wedges, _ = g.(interface{ WeightedEdges() graph.WeightedEdges })
	s.matrix, _ = g.(interface{ Matrix() mat.Matrix })
	s.na, _ = g.(graph.NodeAdder)
	s.nr, _ = g.(graph.NodeRemover)
	s.nw, _ = g.(graph.NodeWithIDer)
	s.ea, _ = g.(graph.EdgeAdder)
	s.es, _ = g.(interface{ SetEdge(e graph.Edge) })
	s.wea, _ = g.(graph.WeightedEdgeAdder)
	s.wes, _ = g.(interface{ SetWeightedEdge(e graph.WeightedEdge) })
	s.er, _ = g.(graph.EdgeRemover)
	s.la, _ = g.(graph.LineAdder)
	s.wla, _ = g.(graph.WeightedLineAdder)
	s.lr, _ = g.(graph.LineRemover)
	s.inv, _ = g.(interface{ VerifInvariants() error })
	// Sanity of the harness itself: the interface set must match the family.
	switch {
	case f.directed && (s.dir == nil || s.to == nil), !f.directed && s.und == nil && !f.multi,
		f.weighted && s.wt == nil, f.multi && s.mg == nil, f.multi && f.weighted && s.wmg == nil,
		s.edges == nil, f.weighted && s.wedges == nil, f.dense && s.matrix == nil:
		panic("harness: interface set of " + f.name + " is not what the monitor expects")
	}
	return s
}

// ---- operations ---------------------------------------------------------------

type opKind uint8

const (
	opAddNode opKind = iota
	opNewNodeAdd
	opRemoveNode
	opSet     // SetEdge / SetWeightedEdge / SetLine / SetWeightedLine with the monitor's own element types
	opSetCtor // element obtained from NewEdge / NewWeightedEdge / NewLine / NewWeightedLine
	opRemove  // RemoveEdge / RemoveLine
)

type op struct {
	kind     opKind
	u, v, id int64
	w        float64
	tag      int32
	unit     bool // dense: SetEdge (unit weight) instead of SetWeightedEdge
}

func (o op) name(f *family) string {
	switch o.kind {
	case opAddNode:
		return "AddNode"
	case opNewNodeAdd:
		return "NewNode+AddNode"
	case opRemoveNode:
		return "RemoveNode"
	case opSet:
		switch {
		case f.multi && f.weighted:
			return "SetWeightedLine"
		case f.multi:
			return "SetLine"
		case f.dense && o.unit:
			return "SetEdge"
		case f.weighted:
			return "SetWeightedEdge"
		}
		return "SetEdge"
	case opSetCtor:
		switch {
		case f.multi && f.weighted:
			return "NewWeightedLine+SetWeightedLine"
		case f.multi:
			return "NewLine+SetLine"
		case f.weighted:
			return "NewWeightedEdge+SetWeightedEdge"
		}
		return "NewEdge+SetEdge"
	case opRemove:
		if f.multi {
			return "RemoveLine"
		}
		return "RemoveEdge"
	}
	return "?"
}

func (o op) str(f *family) string {
	n := o.name(f)
	switch o.kind {
	case opAddNode, opRemoveNode, opNewNodeAdd:
		return fmt.Sprintf("%s(%d) tag=%d", n, o.u, o.tag)
	case opRemove:
		if f.multi {
			return fmt.Sprintf("%s(%d,%d,%d)", n, o.u, o.v, o.id)
		}
		return fmt.Sprintf("%s(%d,%d)", n, o.u, o.v)
	}
	s := fmt.Sprintf("%s(%d->%d", n, o.u, o.v)
	if f.multi {
		s += fmt.Sprintf(" id=%d", o.id)
	}
	if f.weighted && !o.unit {
		s += " w=" + string(wS(nil, o.w))
	}
	return s + fmt.Sprintf(") tag=%d", o.tag)
}

// class is the path class of an operation relative to the model state before
// it is applied (part of violation signatures and evidence keys).
func (o op) class(m *model) string {
	f := m.fam
	switch o.kind {
	case opAddNode:
		if m.hasNode(o.u) {
			return "id-collision"
		}
		return "fresh-id"
	case opNewNodeAdd:
		return "issued-id"
	case opRemoveNode:
		if !m.hasNode(o.u) {
			return "absent-node"
		}
		return "present-node"
	case opSet, opSetCtor:
		switch {
		case f.dense && o.u == o.v:
			return "self-loop"
		case f.dense && !m.inDense(o.u) && !m.inDense(o.v):
			return "both-ends-outside-matrix"
		case f.dense && !m.inDense(o.u):
			return "from-outside-matrix"
		case f.dense && !m.inDense(o.v):
			return "to-outside-matrix"
		case f.dense && sameW(o.w, f.absent) && !o.unit:
			return "weight-equals-absent"
		case o.u == o.v:
			return "self-loop"
		case f.multi && m.liveLine(o.u, o.v, o.id) && o.kind == opSet:
			return "replace-line"
		case m.arc(o.u, o.v):
			if f.multi {
				return "parallel-line"
			}
			return "replace-edge"
		case !m.hasNode(o.u) || !m.hasNode(o.v):
			return "adds-end-node"
		}
		return "new-edge"
	case opRemove:
		switch {
		case !m.hasNode(o.u) || !m.hasNode(o.v):
			return "absent-end-node"
		case f.multi && !m.lined[m.key(o.u, o.v)]:
			return "pair-never-had-a-line-id"
		case f.multi && m.liveLine(o.u, o.v, o.id):
			return "present-line"
		case f.multi:
			return "absent-line"
		case o.u == o.v:
			return "self-pair"
		case m.arc(o.u, o.v):
			return "present-edge"
		}
		return "absent-edge"
	}
	return "?"
}

// stepOutcome describes what applying an op did.
type stepOutcome struct {
	specPanic bool           // the model says a panic is specified
	realPanic *vrt.PanicInfo // the container panicked
	problem   string         // op-local failing clause ("" = none)
	// sharedLineID: NewLine issued an ID that a line between other end points
	// carries (admitted, only counted; see variants.json assumptions).
	sharedLineID bool
	detail       string
}

// apply performs o on the container and on the model. For the issued-ID ops
// (NewNode, NewLine) o is updated with the ID the container chose.
func (s *sut) apply(o *op, m *model) (out stepOutcome) {
	f := s.fam
	from, to := N{id: o.u, tag: o.tag}, N{id: o.v, tag: o.tag}
	r := rec{f: o.u, t: o.v, ftag: o.tag, ttag: o.tag, tag: o.tag, w: o.w, id: o.id}
	switch o.kind {
	case opAddNode:
		out.realPanic = vrt.Try(func() { s.na.AddNode(from) })
		out.specPanic = m.addNode(o.u, o.tag)

	case opNewNodeAdd:
		var n graph.Node
		if p := vrt.Try(func() { n = s.na.NewNode() }); p != nil {
			out.realPanic, out.problem, out.detail = p, "NewNode-panicked", p.Msg
			return out
		}
		if n == nil {
			out.problem = "NewNode-returned-nil"
			return out
		}
		o.u = n.ID()
		if m.hasNode(o.u) {
			out.problem, out.detail = "NewNode-returned-live-id", fmt.Sprintf("NewNode returned ID %d which is in the graph", o.u)
			return out
		}
		_, tag, _ := nodeTagOf(n)
		o.tag = tag
		out.realPanic = vrt.Try(func() { s.na.AddNode(n) })
		out.specPanic = m.addNode(o.u, tag)

	case opRemoveNode:
		out.realPanic = vrt.Try(func() { s.nr.RemoveNode(o.u) })
		m.removeNode(o.u)

	case opSet:
		switch {
		case f.multi && f.weighted:
			out.realPanic = vrt.Try(func() { s.wla.SetWeightedLine(WL{F: from, T: to, W: o.w, UID: o.id, tag: o.tag}) })
			m.setLine(r)
		case f.multi:
			out.realPanic = vrt.Try(func() { s.la.SetLine(L{F: from, T: to, UID: o.id, tag: o.tag}) })
			m.setLine(r)
		case f.dense && o.unit:
			r.w = 1
			out.realPanic = vrt.Try(func() { s.es.SetEdge(E{F: from, T: to, tag: o.tag}) })
			out.specPanic = m.setEdge(r)
		case f.weighted:
			out.realPanic = vrt.Try(func() { s.wes.SetWeightedEdge(WE{F: from, T: to, W: o.w, tag: o.tag}) })
			out.specPanic = m.setEdge(r)
		default:
			out.realPanic = vrt.Try(func() { s.es.SetEdge(E{F: from, T: to, tag: o.tag}) })
			out.specPanic = m.setEdge(r)
		}

	case opSetCtor:
		r.tag = tagForeign
		switch {
		case f.multi:
			var l graph.Line
			p := vrt.Try(func() {
				if f.weighted {
					l = s.wla.NewWeightedLine(from, to, o.w)
				} else {
					l = s.la.NewLine(from, to)
				}
			})
			if p != nil {
				out.realPanic, out.problem, out.detail = p, "NewLine-panicked", p.Msg
				return out
			}
			m.lined[m.key(o.u, o.v)] = true
			if l == nil || l.From() != graph.Node(from) || l.To() != graph.Node(to) {
				out.problem = "NewLine-wrong-ends"
				return out
			}
			if wl, ok := l.(graph.WeightedLine); f.weighted && (!ok || !sameW(wl.Weight(), o.w)) {
				out.problem = "NewWeightedLine-wrong-weight"
				return out
			}
			o.id = l.ID()
			r.id = o.id
			if m.liveLine(o.u, o.v, o.id) {
				out.problem = "NewLine-returned-live-id"
				out.detail = fmt.Sprintf("NewLine(%d,%d) returned ID %d which is the ID of a line between these nodes", o.u, o.v, o.id)
				return out
			}
			if m.liveLineAnywhere(o.id) {
				out.sharedLineID = true
			}
			out.realPanic = vrt.Try(func() {
				if f.weighted {
					s.wla.SetWeightedLine(l.(graph.WeightedLine))
				} else {
					s.la.SetLine(l)
				}
			})
			m.setLine(r)
		case f.weighted:
			var e graph.WeightedEdge
			if p := vrt.Try(func() { e = s.wea.NewWeightedEdge(from, to, o.w) }); p != nil {
				out.realPanic, out.problem, out.detail = p, "NewWeightedEdge-panicked", p.Msg
				return out
			}
			if e == nil || e.From() != graph.Node(from) || e.To() != graph.Node(to) || !sameW(e.Weight(), o.w) {
				out.problem = "NewWeightedEdge-wrong-ends-or-weight"
				return out
			}
			out.realPanic = vrt.Try(func() { s.wea.SetWeightedEdge(e) })
			out.specPanic = m.setEdge(r)
		default:
			var e graph.Edge
			if p := vrt.Try(func() { e = s.ea.NewEdge(from, to) }); p != nil {
				out.realPanic, out.problem, out.detail = p, "NewEdge-panicked", p.Msg
				return out
			}
			if e == nil || e.From() != graph.Node(from) || e.To() != graph.Node(to) {
				out.problem = "NewEdge-wrong-ends"
				return out
			}
			out.realPanic = vrt.Try(func() { s.ea.SetEdge(e) })
			out.specPanic = m.setEdge(r)
		}

	case opRemove:
		if f.multi {
			out.realPanic = vrt.Try(func() { s.lr.RemoveLine(o.u, o.v, o.id) })
			m.removeLine(o.u, o.v, o.id)
		} else {
			out.realPanic = vrt.Try(func() { s.er.RemoveEdge(o.u, o.v) })
			m.removeEdge(o.u, o.v)
		}
	}
	return out
}

// ---- query sweep ----------------------------------------------------------------

type mismatch struct {
	query     string
	x, y      int64
	got, want string
	clause    string
}

func (mm *mismatch) String() string {
	return fmt.Sprintf("%s(%d,%d): %s: got %s want %s", mm.query, mm.x, mm.y, mm.clause, mm.got, mm.want)
}

type hasher struct {
	h uint64
	n int64 // number of queries issued
}

func newHasher() *hasher {
	return &hasher{h: 14695981039346656037}
}

func (h *hasher) add(s string) {
	if h == nil {
		return
	}
	x := h.h
	for i := 0; i < len(s); i++ {
		x ^= uint64(s[i])
		x *= 1099511628211
	}
	x ^= 0xff
	x *= 1099511628211
	h.h = x
}

func (h *hasher) addBool(b bool) {
	if b {
		h.add("T")
	} else {
		h.add("F")
	}
}

type sweepOpts struct {
	rows     []int64 // IDs whose rows AND columns are queried (nil = every ordered pair of the universe)
	universe []int64
	global   bool // Nodes, Edges, WeightedEdges, NewNode, Matrix, invariants
	// newLine: probe NewLine/NewWeightedLine for the swept pairs; all = every
	// pair, otherwise only pairs that already own a line-ID set (so that the
	// probe does not mask an unallocated set).
	newLine, newLineAll bool
	dig                 *hasher
	// onIter receives iterator-protocol problems ("type|method|clause");
	// they do not stop the sweep.
	onIter func(problem, query, got string)
}

// sweep compares every query against the model and returns the first mismatch.
func (s *sut) sweep(m *model, o sweepOpts) (mm *mismatch, nq int64) {
	cur := "?"
	var cx, cy int64
	defer func() {
		if r := recover(); r != nil {
			if ab, ok := r.(*mismatch); ok {
				mm = ab
				return
			}
			mm = &mismatch{query: cur, x: cx, y: cy, clause: "query-panicked", got: fmt.Sprint(r), want: "no panic"}
		}
	}()
	f := s.fam
	self, absent := f.selfAbsent()
	cmp := func(got, want string) {
		nq++
		o.dig.add(got)
		if got != want {
			panic(&mismatch{query: cur, x: cx, y: cy, got: got, want: want, clause: "differs-from-model"})
		}
	}
	cmpB := func(got, want bool) {
		nq++
		o.dig.addBool(got)
		if got != want {
			panic(&mismatch{query: cur, x: cx, y: cy, got: strconv.FormatBool(got), want: strconv.FormatBool(want), clause: "differs-from-model"})
		}
	}
	itCheck := func(st *itStats, got string) {
		for _, p := range st.probs {
			o.onIter(p, cur, got)
		}
		st.probs = st.probs[:0]
	}
	nodesQ := func(name string, it graph.Nodes, want []string) {
		cur = name
		var st itStats
		got := joinReps(drainNodes(it, &st))
		itCheck(&st, got)
		cmp(got, joinReps(want))
	}
	pairQ := func(x, y int64) {
		cx, cy = x, y
		cur = "HasEdgeBetween"
		cmpB(s.gr.HasEdgeBetween(x, y), m.hasEdgeBetween(x, y))
		if s.dir != nil {
			cur = "HasEdgeFromTo"
			cmpB(s.dir.HasEdgeFromTo(x, y), m.arc(x, y))
		}
		want := m.edge(x, y)
		var st itStats
		cur = "Edge"
		got := realEdgeRep(s.gr.Edge(x, y), false, &st)
		itCheck(&st, got)
		cmp(got, want)
		if s.und != nil {
			cur = "EdgeBetween"
			got = realEdgeRep(s.und.EdgeBetween(x, y), false, &st)
			itCheck(&st, got)
			cmp(got, want)
		}
		if s.wt != nil {
			cur = "WeightedEdge"
			got = realEdgeRep(s.wt.WeightedEdge(x, y), false, &st)
			itCheck(&st, got)
			cmp(got, want)
			cur = "Weight"
			w, ok := s.wt.Weight(x, y)
			ww, wok := m.weightVal(x, y, self, absent)
			nq++
			if o.dig != nil {
				o.dig.add(weightRep(w, ok))
			}
			if !sameW(w, ww) || ok != wok {
				panic(&mismatch{query: cur, x: x, y: y, got: weightRep(w, ok), want: weightRep(ww, wok), clause: "differs-from-model"})
			}
		}
		if s.wund != nil {
			cur = "WeightedEdgeBetween"
			got = realEdgeRep(s.wund.WeightedEdgeBetween(x, y), false, &st)
			itCheck(&st, got)
			cmp(got, want)
		}
		if s.mg != nil {
			wantL := joinReps(m.lineReps(x, y, false))
			cur = "Lines"
			got = joinReps(drainLines(s.mg.Lines(x, y), false, &st))
			itCheck(&st, got)
			cmp(got, wantL)
			if s.umg != nil {
				cur = "LinesBetween"
				got = joinReps(drainLines(s.umg.LinesBetween(x, y), false, &st))
				itCheck(&st, got)
				cmp(got, wantL)
			}
			if s.wmg != nil {
				cur = "WeightedLines"
				got = joinReps(drainWeightedLines(s.wmg.WeightedLines(x, y), false, &st))
				itCheck(&st, got)
				cmp(got, wantL)
			}
			if s.wumg != nil {
				cur = "WeightedLinesBetween"
				got = joinReps(drainWeightedLines(s.wumg.WeightedLinesBetween(x, y), false, &st))
				itCheck(&st, got)
				cmp(got, wantL)
			}
			if o.newLine && (o.newLineAll || m.lined[m.key(x, y)]) {
				cur = "NewLine"
				fn, tn := N{id: x, tag: -5}, N{id: y, tag: -5}
				var l graph.Line
				if f.weighted {
					l = s.wla.NewWeightedLine(fn, tn, 7)
				} else {
					l = s.la.NewLine(fn, tn)
				}
				m.lined[m.key(x, y)] = true
				nq++
				if l == nil || l.From() != graph.Node(fn) || l.To() != graph.Node(tn) {
					panic(&mismatch{query: cur, x: x, y: y, got: realLineRep(l, false), want: "a line joining the given nodes", clause: "wrong-ends"})
				}
				if m.liveLine(x, y, l.ID()) {
					panic(&mismatch{query: cur, x: x, y: y, got: strconv.FormatInt(l.ID(), 10), want: "an ID not used by a line between these nodes", clause: "returned-live-id"})
				}
			}
		}
	}

	rows := o.rows
	full := rows == nil
	if full {
		rows = o.universe
	}
	for _, x := range rows {
		cx, cy = x, 0
		cur = "Node"
		cmp(nodeRep(s.gr.Node(x)), m.node(x))
		if s.nw != nil {
			cur = "NodeWithID"
			n, isNew := s.nw.NodeWithID(x)
			nq++
			switch {
			case n == nil || n.ID() != x:
				panic(&mismatch{query: cur, x: x, got: nodeRep(n), want: "a node with the requested ID", clause: "wrong-id"})
			case isNew == m.hasNode(x):
				panic(&mismatch{query: cur, x: x, got: strconv.FormatBool(isNew), want: strconv.FormatBool(!isNew), clause: "wrong-new-flag"})
			case !isNew && nodeRep(n) != m.node(x):
				panic(&mismatch{query: cur, x: x, got: nodeRep(n), want: m.node(x), clause: "differs-from-model"})
			}
		}
		nodesQ("From", s.gr.From(x), m.from(x, o.universe))
		if s.to != nil {
			nodesQ("To", s.to.To(x), m.to(x, o.universe))
		}
		for _, y := range o.universe {
			pairQ(x, y)
			if !full {
				pairQ(y, x)
			}
		}
	}

	if o.global {
		cx, cy = 0, 0
		nodesQ("Nodes", s.gr.Nodes(), m.allNodes())
		wantE := joinReps(m.allEdges())
		canon := !f.directed
		var st itStats
		cur = "Edges"
		got := joinReps(drainEdges(s.edges.Edges(), canon, &st))
		itCheck(&st, got)
		cmp(got, wantE)
		if s.wedges != nil {
			cur = "WeightedEdges"
			got = joinReps(drainWeightedEdges(s.wedges.WeightedEdges(), canon, &st))
			itCheck(&st, got)
			cmp(got, wantE)
		}
		if s.na != nil {
			cur = "NewNode"
			n := s.na.NewNode()
			nq++
			if n == nil {
				panic(&mismatch{query: cur, got: "nil", want: "a node", clause: "returned-nil"})
			}
			if m.hasNode(n.ID()) {
				panic(&mismatch{query: cur, x: n.ID(), got: strconv.FormatInt(n.ID(), 10), want: "an ID that is not in the graph", clause: "returned-live-id"})
			}
		}
		if s.matrix != nil {
			cur = "Matrix"
			mx := s.matrix.Matrix()
			nq++
			r, c := mx.Dims()
			want := m.matrix()
			if r != f.dim || c != f.dim {
				panic(&mismatch{query: cur, got: fmt.Sprintf("%dx%d", r, c), want: fmt.Sprintf("%dx%d", f.dim, f.dim), clause: "wrong-dims"})
			}
			for i := 0; i < r; i++ {
				for j := 0; j < c; j++ {
					if g, w := mx.At(i, j), want[i*c+j]; !sameW(g, w) {
						cl := "differs-from-model"
						if i == j {
							cl = "diagonal-differs-from-self"
						}
						panic(&mismatch{query: cur, x: int64(i), y: int64(j), got: fmt.Sprint(g), want: fmt.Sprint(w), clause: cl})
					}
				}
			}
		}
		if s.inv != nil {
			cur = "VerifInvariants"
			nq++
			if err := s.inv.VerifInvariants(); err != nil {
				panic(&mismatch{query: cur, got: err.Error(), want: "nil", clause: "invariant-broken"})
			}
		}
	}
	return nil, nq
}

// fnvString is used for digest case IDs.
func fnvString(s string) uint64 {
	h := fnv.New64a()
	h.Write([]byte(s))
	return h.Sum64()
}
