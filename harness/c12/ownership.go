package main

// "Values handed out by the container belong to the caller."
//
// graph.NodeSlicer / EdgeSlicer / LineSlicer / Weighted*Slicer document that
// "the holder of the iterator may arbitrarily change elements in the returned
// slice" (changes may show in other *iterators* sharing the slice, never in the
// graph). Two checks follow from it, for every accessor that yields a slice
// (directly through the *Slice fast path after a partial iteration, or through
// graph.NodesOf / EdgesOf / WeightedEdgesOf / LinesOf / WeightedLinesOf):
//
//	(a) the caller reverses the slice, overwrites an element with a foreign
//	    value and nils another; afterwards every query of the container must
//	    still equal the set model;
//	(b) a slice obtained before a mutation of the container must hold the same
//	    elements after it (it is the caller's copy, not a window into the
//	    container).
//
// For (b) the line iterators embedded in multi.Edge / multi.WeightedEdge
// elements are excluded: they are documented as valid only until the next
// mutation; only the end points of such elements are compared.

import (
	"strconv"

	"gonum.org/v1/gonum/graph"
	"gonum.org/v1/gonum/graph/multi"
)

type held struct {
	accessor string // accessor family, part of the signature
	where    string // concrete call, for the detail
	nodes    []graph.Node
	edges    []graph.Edge
	wedges   []graph.WeightedEdge
	lines    []graph.Line
	wlines   []graph.WeightedLine
	snap     []string
}

func shallowEdgeRep(e graph.Edge) string {
	switch e := e.(type) {
	case nil:
		return "nil"
	case multi.Edge:
		return nodeRep(e.F) + ">" + nodeRep(e.T) + " m"
	case multi.WeightedEdge:
		return nodeRep(e.F) + ">" + nodeRep(e.T) + " m"
	}
	return realEdgeRep(e, false, nil)
}

// reps returns the canonical form of the elements in their current order.
func (h *held) reps() []string {
	var out []string
	for _, n := range h.nodes {
		out = append(out, nodeRep(n))
	}
	for _, e := range h.edges {
		out = append(out, shallowEdgeRep(e))
	}
	for _, e := range h.wedges {
		if e == nil {
			out = append(out, "nil")
			continue
		}
		out = append(out, shallowEdgeRep(e))
	}
	for _, l := range h.lines {
		out = append(out, realLineRep(l, false))
	}
	for _, l := range h.wlines {
		if l == nil {
			out = append(out, "nil")
			continue
		}
		out = append(out, realLineRep(l, false))
	}
	return out
}

func (h *held) len() int {
	return len(h.nodes) + len(h.edges) + len(h.wedges) + len(h.lines) + len(h.wlines)
}

func scrambleSlice[T any](s []T, junk T) {
	for i, j := 0, len(s)-1; i < j; i, j = i+1, j-1 {
		s[i], s[j] = s[j], s[i]
	}
	if len(s) > 0 {
		s[0] = junk
	}
	if len(s) > 1 {
		var zero T
		s[len(s)-1] = zero
	}
}

// scramble is what a caller is allowed to do with its slice.
func (h *held) scramble() {
	jn := N{id: 1<<50 + 5, tag: -7}
	scrambleSlice[graph.Node](h.nodes, jn)
	scrambleSlice[graph.Edge](h.edges, E{F: jn, T: jn, tag: -7})
	scrambleSlice[graph.WeightedEdge](h.wedges, WE{F: jn, T: jn, W: -77, tag: -7})
	scrambleSlice[graph.Line](h.lines, L{F: jn, T: jn, UID: 1 << 40, tag: -7})
	scrambleSlice[graph.WeightedLine](h.wlines, WL{F: jn, T: jn, W: -77, UID: 1 << 40, tag: -7})
}

var ownershipGroups = []string{"Nodes", "From/To", "Edges", "Lines"}

// nodesVia obtains the caller's slice either with graph.NodesOf on the fresh
// iterator or (partial) with the NodeSlice fast path after one Next.
func nodesVia(it graph.Nodes, partial bool) []graph.Node {
	if partial {
		if s, ok := it.(graph.NodeSlicer); ok && it.Len() > 1 {
			it.Next()
			return s.NodeSlice()
		}
	}
	return graph.NodesOf(it)
}

func linesVia(it graph.Lines, partial bool) []graph.Line {
	if partial {
		if s, ok := it.(graph.LineSlicer); ok && it.Len() > 1 {
			it.Next()
			return s.LineSlice()
		}
	}
	return graph.LinesOf(it)
}

func wlinesVia(it graph.WeightedLines, partial bool) []graph.WeightedLine {
	if partial {
		if s, ok := it.(graph.WeightedLineSlicer); ok && it.Len() > 1 {
			it.Next()
			return s.WeightedLineSlice()
		}
	}
	return graph.WeightedLinesOf(it)
}

// handOut calls the accessors of one group for the given rows and returns the
// non-empty slices with a snapshot of their content.
func (r *runner) handOut(group string, rows []int64, partial bool) []*held {
	s := r.s
	var hs []*held
	add := func(h *held) {
		if h.len() == 0 {
			return
		}
		h.snap = h.reps()
		hs = append(hs, h)
	}
	switch group {
	case "Nodes":
		add(&held{accessor: "Nodes", where: "Nodes()", nodes: nodesVia(s.gr.Nodes(), partial)})
	case "From/To":
		for _, x := range rows {
			add(&held{accessor: "From", where: "From(" + itoa(x) + ")", nodes: nodesVia(s.gr.From(x), partial)})
			if s.to != nil {
				add(&held{accessor: "To", where: "To(" + itoa(x) + ")", nodes: nodesVia(s.to.To(x), partial)})
			}
		}
	case "Edges":
		it := s.edges.Edges()
		if sl, ok := it.(graph.EdgeSlicer); ok && partial && it.Len() > 1 {
			it.Next()
			add(&held{accessor: "Edges", where: "Edges() after one Next", edges: sl.EdgeSlice()})
		} else {
			add(&held{accessor: "Edges", where: "Edges()", edges: graph.EdgesOf(it)})
		}
		if s.wedges != nil {
			wit := s.wedges.WeightedEdges()
			if sl, ok := wit.(graph.WeightedEdgeSlicer); ok && partial && wit.Len() > 1 {
				wit.Next()
				add(&held{accessor: "WeightedEdges", where: "WeightedEdges() after one Next", wedges: sl.WeightedEdgeSlice()})
			} else {
				add(&held{accessor: "WeightedEdges", where: "WeightedEdges()", wedges: graph.WeightedEdgesOf(wit)})
			}
		}
	case "Lines":
		if s.mg == nil {
			return nil
		}
		for _, x := range rows {
			for _, y := range r.universe {
				for k, p := range [][2]int64{{x, y}, {y, x}} {
					if k == 1 && (x == y || inSet(rows, y)) {
						continue
					}
					if !r.m.arc(p[0], p[1]) {
						continue
					}
					at := "(" + itoa(p[0]) + "," + itoa(p[1]) + ")"
					add(&held{accessor: "Lines", where: "Lines" + at, lines: linesVia(s.mg.Lines(p[0], p[1]), partial)})
					if s.umg != nil {
						add(&held{accessor: "LinesBetween", where: "LinesBetween" + at, lines: linesVia(s.umg.LinesBetween(p[0], p[1]), partial)})
					}
					if s.wmg != nil {
						add(&held{accessor: "WeightedLines", where: "WeightedLines" + at, wlines: wlinesVia(s.wmg.WeightedLines(p[0], p[1]), partial)})
					}
					if s.wumg != nil {
						add(&held{accessor: "WeightedLinesBetween", where: "WeightedLinesBetween" + at, wlines: wlinesVia(s.wumg.WeightedLinesBetween(p[0], p[1]), partial)})
					}
					switch e := s.gr.Edge(p[0], p[1]).(type) {
					case multi.Edge:
						add(&held{accessor: "Edge.Lines", where: "Edge" + at + ".Lines", lines: linesVia(e.Lines, partial)})
					case multi.WeightedEdge:
						add(&held{accessor: "Edge.WeightedLines", where: "Edge" + at + ".WeightedLines", wlines: wlinesVia(e.WeightedLines, partial)})
					}
				}
			}
		}
	}
	return hs
}

func itoa(x int64) string { return strconv.FormatInt(x, 10) }

// handOutAll obtains the slices of every group.
func (r *runner) handOutAll(rows []int64, global, partial bool) []*held {
	var hs []*held
	for _, g := range ownershipGroups {
		if !global && (g == "Nodes" || g == "Edges") {
			continue
		}
		hs = append(hs, r.handOut(g, rows, partial)...)
	}
	return hs
}

// checkHeld is check (b): the slices obtained before the last operation still
// hold what they held.
func (r *runner) checkHeld(hs []*held) bool {
	ok := true
	for _, h := range hs {
		now := h.reps()
		if equalStrings(now, h.snap) {
			continue
		}
		ok = false
		last := r.hist[len(r.hist)-1]
		r.violate(r.f.name+"."+h.accessor+"|slice handed out before "+last.name(r.f)+"|changed-by-the-later-mutation",
			"the slice obtained from "+h.where+" held "+joinReps(h.snap)+" and holds "+joinReps(now)+" after the operation")
	}
	r.c.Count("ownership.slices_held_across_a_mutation", int64(len(hs)))
	return ok
}

// scrambleCheck is check (a), one accessor group at a time. It returns false
// when the container no longer equals the model.
func (r *runner) scrambleCheck(rows []int64, partial bool) bool {
	var sweepRows []int64
	if rows != nil {
		sweepRows = rows
	}
	all := rows
	if all == nil {
		all = r.universe
	}
	for _, g := range ownershipGroups {
		hs := r.handOut(g, all, partial)
		if len(hs) == 0 {
			continue
		}
		for _, h := range hs {
			h.scramble()
		}
		r.c.Count("ownership.slices_modified_by_the_caller", int64(len(hs)))
		if mm := r.sweep(sweepOpts{rows: sweepRows, global: true}); mm != nil {
			r.violate(r.f.name+"."+mm.query+"|after the caller modified slices from "+g+"|"+mm.clause, mm.String())
			return false
		}
	}
	return true
}
