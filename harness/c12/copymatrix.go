package main

// graph.Copy / graph.CopyWeighted: "copies nodes and edges ... from the source
// to the destination without first clearing the destination. Copy will panic
// if a node ID in the source graph matches a node ID in the destination. If
// the source is undirected and the destination is directed both directions
// will be present in the destination after the copy is complete."
//
// At the end of a random history the final container is the source; it is
// copied into every builder type (Copy: simple.DirectedGraph, UndirectedGraph
// from the unweighted simple sources; CopyWeighted: simple.Weighted*Graph from
// the weighted simple and the dense sources) with the destination
//
//	empty | non-empty and disjoint | non-empty with an ID collision on an
//	isolated source node | on a source node with out-edges | on a source node
//	with in-edges only.
//
// Without collision every query of the destination must equal the union of
// the destination's model and the source's model. With a collision the
// documented panic must occur, the colliding destination node must keep its
// value and the destination's invariants must hold (the docs do not promise
// that source nodes added before the collision are rolled back; whether the
// destination equals its previous state is only counted).

import (
	"gonum.org/v1/gonum/graph"
	"gonum.org/v1/gonum/verifx/vrt"
)

var (
	famDirected           = &family{name: "simple.DirectedGraph", directed: true}
	famUndirected         = &family{name: "simple.UndirectedGraph"}
	famWeightedDirected   = &family{name: "simple.WeightedDirectedGraph", directed: true, weighted: true}
	famWeightedUndirected = &family{name: "simple.WeightedUndirectedGraph", weighted: true}
)

// srcRec is the edge the source returns for Edge(u,v).
func srcRec(m *model, u, v int64) rec {
	if m.fam.dense {
		return rec{f: u, t: v, ftag: m.nodes[u], ttag: m.nodes[v], tag: tagForeign, w: m.w[u][v]}
	}
	r := m.edges[m.key(u, v)]
	if !m.fam.directed && r.f != u {
		r = r.reversed()
	}
	return r
}

func copyMatrix(c *vrt.Ctx, r *runner) {
	sf, sm := r.f, r.m
	if sf.multi {
		return
	}
	name, dsts := "graph.Copy", []*family{famDirected, famUndirected}
	if sf.weighted {
		name, dsts = "graph.CopyWeighted", []*family{famWeightedDirected, famWeightedUndirected}
	}
	// Source nodes for the collision cases.
	isolated, withOut, inOnly := int64(0), int64(0), int64(0)
	var hasIso, hasOut, hasIn bool
	for _, u := range sm.sortedNodeIDs() {
		out, in := false, false
		for _, v := range r.universe {
			out = out || sm.arc(u, v)
			in = in || sm.arc(v, u)
		}
		switch {
		case !out && !in && !hasIso:
			isolated, hasIso = u, true
		case out && !hasOut:
			withOut, hasOut = u, true
		case in && !out && !hasIn:
			inOnly, hasIn = u, true
		}
	}
	type scenario struct {
		label    string
		prefill  bool
		collide  bool
		collider int64
	}
	scen := []scenario{{"empty-destination", false, false, 0}, {"disjoint-destination", true, false, 0}}
	if hasIso {
		scen = append(scen, scenario{"collision-on-isolated-source-node", true, true, isolated})
	}
	if hasOut {
		scen = append(scen, scenario{"collision-on-source-node-with-out-edges", true, true, withOut})
	}
	if hasIn {
		scen = append(scen, scenario{"collision-on-source-node-with-in-edges-only", true, true, inOnly})
	}
	const d1, d2, d3 = int64(900001), int64(900002), int64(-900003)
	for _, df := range dsts {
		for _, sc := range scen {
			dst, dm := newSut(df), newModel(df)
			prefill := func(o op) { dst.apply(&o, dm) }
			if sc.prefill {
				prefill(op{kind: opSet, u: d1, v: d2, w: 4, tag: 501})
				prefill(op{kind: opSet, u: d2, v: d3, w: 5, tag: 502})
				prefill(op{kind: opAddNode, u: d3 - 1, tag: 503})
			}
			if sc.collide {
				prefill(op{kind: opAddNode, u: sc.collider, tag: 555})
				if df.directed {
					prefill(op{kind: opSet, u: d1, v: sc.collider, w: 6, tag: 555})
				}
			}
			universe := append(append([]int64{}, r.universe...), d1, d2, d3, d3-1)
			before := dm.clone()
			sig := name + "|" + sf.name + "->" + df.name + "|" + sc.label + "|"
			c.Eval(sig, len(sm.nodes) > 0)
			p := vrt.Try(func() {
				if sf.weighted {
					graph.CopyWeighted(dst.g.(graph.WeightedBuilder), r.s.g.(graph.Weighted))
				} else {
					graph.Copy(dst.g.(graph.Builder), r.s.g.(graph.Graph))
				}
			})
			if sc.collide {
				if p == nil {
					r.violate(sig+"documented-panic-missing", "a source node ID ("+itoa(sc.collider)+") matches a node ID of the destination; the call returned normally")
					continue
				}
				if got, want := nodeRep(dst.gr.Node(sc.collider)), before.node(sc.collider); got != want {
					r.violate(sig+"colliding-destination-node-replaced", "Node("+itoa(sc.collider)+") of the destination: got "+got+" want "+want)
					continue
				}
				if err := dst.inv.VerifInvariants(); err != nil {
					r.violate(sig+"destination-invariant-broken-after-panic", err.Error())
					continue
				}
				if mm, _ := dst.sweep(before, sweepOpts{universe: universe, global: true, onIter: func(string, string, string) {}}); mm != nil {
					c.Count("Copy.destination_partially_modified_after_collision_panic", 1)
				} else {
					c.Count("Copy.destination_unchanged_after_collision_panic", 1)
				}
				continue
			}
			if p != nil {
				r.violate(sig+"panic-not-specified", p.Msg+"\n"+p.Stack)
				continue
			}
			// Expected destination: the union, built by the documented procedure
			// on the model. A directed source with both u->v and v->u copied
			// into an undirected destination leaves one of the two (iteration
			// order); the model adopts the one the destination holds.
			for id, tag := range sm.nodes {
				dm.nodes[id] = tag
			}
			for _, u := range sm.sortedNodeIDs() {
				for _, v := range r.universe {
					if !sm.arc(u, v) {
						continue
					}
					e := srcRec(sm, u, v)
					if !df.directed && sf.directed && sm.arc(v, u) {
						alt := srcRec(sm, v, u)
						if got := realEdgeRep(dst.gr.Edge(v, u), false, nil); got == alt.edgeRep(df.weighted) {
							e = alt
						}
					}
					dm.setEdge(e)
				}
			}
			// Node payloads: set by AddNode and then by every SetEdge in
			// iteration order - not determined; adopt what the copy holds.
			for id := range sm.nodes {
				if n := dst.gr.Node(id); n != nil {
					if nid, tag, ok := nodeTagOf(n); ok && nid == id {
						dm.nodes[id] = tag
					}
				}
			}
			mm, nq := dst.sweep(dm, sweepOpts{universe: universe, global: true, onIter: r.onIter})
			r.queries += nq
			if mm != nil {
				r.violate(sig+df.name+"."+mm.query+"|"+mm.clause, "destination after the copy: "+mm.String())
			}
		}
	}
}
