// C12 — graph containers stay consistent with a set model under any mutation
// history. See variants.json for the rule and the assumptions.
package main

import (
	"flag"
	"math"
	"os"
	"runtime/debug"
	"runtime/pprof"
	"sort"
	"sync"

	"gonum.org/v1/gonum/verifx/vrt"
)

var (
	mode    = flag.String("mode", "full", "full | race (reduced workload for the -race/checkptr build)")
	part    = flag.String("part", "", "debug: run only 'bfs' or 'random'")
	cpuprof = flag.String("cpuprofile", "", "debug: write a CPU profile")
)

func main() { vrt.Main("C12", run) }

func run(c *vrt.Ctx) {
	if *cpuprof != "" {
		fh, _ := os.Create(*cpuprof)
		pprof.StartCPUProfile(fh)
		defer pprof.StopCPUProfile()
	}
	debug.SetGCPercent(400) // many short-lived strings, tiny live heap
	race := *mode == "race"
	digest := !race
	thorough := c.Thorough()

	// ---- (1) exhaustive BFS over abstract states -----------------------------
	type bfsJob struct {
		f        *family
		nodeIDs  []int64
		lineIDs  []int64
		maxTrans int
		ctor     bool // include the NewEdge/NewWeightedEdge constructor variants
		churn    bool // also issue every op after the remove-all/re-add-all detour
	}
	var jobs []bfsJob
	extreme := []int64{-1, 0, math.MaxInt64}
	full := thorough && !race
	for _, f := range mapFamilies() {
		switch {
		case f.multi:
			// 2 node IDs x line IDs {0,1}: exhaustive (265 / 73 states).
			jobs = append(jobs, bfsJob{f, []int64{0, 1}, []int64{0, 1}, 40_000, true, true})
			if !race {
				jobs = append(jobs, bfsJob{f, []int64{math.MaxInt64, -1}, []int64{0, math.MaxInt64}, 40_000, true, true})
			}
			if full {
				// 3 node IDs: 4^9 (directed) / 4^6 (undirected) line sets; breadth
				// first up to the transition cap.
				jobs = append(jobs, bfsJob{f, []int64{0, 1, 2}, []int64{0, 1}, 90_000, true, true})
			}
		default:
			// 3 IDs: exhaustive (80 / 40 states), with the NewEdge constructor ops.
			jobs = append(jobs, bfsJob{f, []int64{0, 1, 2}, nil, 40_000, true, true})
			if !race {
				jobs = append(jobs, bfsJob{f, extreme, nil, 40_000, true, true})
			}
			if full {
				// 4 IDs: exhaustive (4381 directed / 860 undirected states).
				jobs = append(jobs, bfsJob{f, []int64{0, 1, 2, 3}, nil, 400_000, false, false})
			}
		}
	}
	dim := 3
	if full {
		dim = 4
	}
	for _, f := range denseFamilies(dim, full) {
		ids := make([]int64, dim)
		for i := range ids {
			ids[i] = int64(i)
		}
		t := c.Pick(40_000, 120_000) // dim 3: exhaustive (64 / 8 states); dim 4 directed: 4096 states, capped
		if race {
			t = 3_000
		}
		jobs = append(jobs, bfsJob{f, ids, nil, t, true, !race})
	}
	if *part == "random" {
		jobs = nil
	}
	// The levels of one search are expanded in parallel; the searches also run
	// side by side because the early levels are narrow.
	var wg sync.WaitGroup
	sem := make(chan struct{}, 4)
	for _, j := range jobs {
		wg.Add(1)
		go func() {
			defer wg.Done()
			sem <- struct{}{}
			defer func() { <-sem }()
			runBFS(c, j.f, j.nodeIDs, j.lineIDs, j.maxTrans, j.ctor, j.churn && !race, digest)
		}()
	}
	wg.Wait()

	// ---- (2) random histories ---------------------------------------------------
	var plans []randomPlan
	var reps []int // histories per profile
	for _, f := range mapFamilies() {
		// small universe: every ordered pair after every step
		plans = append(plans, randomPlan{f: f, universeN: 12, steps: 250, fullEvery: 1})
		reps = append(reps, c.Pick(2, 10))
		// large universe: the touched rows/columns and the global iterators
		// after every step, every ordered pair every 100 steps and at the end
		plans = append(plans, randomPlan{f: f, universeN: 64, steps: 1000, fullEvery: 100})
		reps = append(reps, c.Pick(1, 4))
	}
	for _, f := range denseFamilies(10, thorough) {
		plans = append(plans, randomPlan{f: f, steps: 300, fullEvery: 1})
		reps = append(reps, c.Pick(1, 4))
	}
	type rjob struct{ plan, profile, idx int }
	var rjobs []rjob
	for pi, n := range reps {
		if race {
			n = 1
		}
		for p := range profiles {
			if race && p%2 == 1 {
				continue
			}
			// quick tier: a long history costs about a CPU second, so each
			// container gets half of the profiles there (rotating).
			if !thorough && plans[pi].universeN == 64 && (p+pi/2)%2 == 1 {
				continue
			}
			for i := 0; i < n; i++ {
				rjobs = append(rjobs, rjob{pi, p, i})
			}
		}
	}
	if *part == "bfs" {
		rjobs = nil
	}
	// Long histories first so that the parallel tail is short.
	sort.SliceStable(rjobs, func(a, b int) bool {
		pa, pb := plans[rjobs[a].plan], plans[rjobs[b].plan]
		return pa.steps*pa.universeN > pb.steps*pb.universeN
	})
	vrt.Parallel(len(rjobs), func(i int) {
		j := rjobs[i]
		plan := plans[j.plan]
		if race {
			plan.steps /= 4
		}
		runRandom(c, plan, j.profile, j.idx, digest)
	})
	flushViolationCounts(c)
	c.Note("universe_extreme_ids", extremeIDs)
	c.Note("profiles", func() []string {
		var s []string
		for _, p := range profiles {
			s = append(s, p.name)
		}
		return s
	}())
}
