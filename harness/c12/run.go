package main

// runner: one real container + one model + the history applied so far.

import (
	"fmt"
	"sync"
	"sync/atomic"

	"gonum.org/v1/gonum/verifx/vrt"
)

type runner struct {
	c     *vrt.Ctx
	f     *family
	s     *sut
	m     *model
	where string // workload label for the replay object

	universe []int64
	inUni    map[int64]bool
	hist     []op
	queries  int64
}

func newRunner(c *vrt.Ctx, f *family, universe []int64, where string) *runner {
	r := &runner{c: c, f: f, s: newSut(f), m: newModel(f), where: where, inUni: map[int64]bool{}}
	for _, id := range universe {
		r.addToUniverse(id)
	}
	return r
}

func (r *runner) addToUniverse(id int64) {
	if !r.inUni[id] {
		r.inUni[id] = true
		r.universe = append(r.universe, id)
	}
}

// seenSig counts the witnesses per signature. The first witness is recorded
// with its detail and replay, the next maxRecorded ones only bump the count;
// beyond that the occurrences are tallied here and reported as counters (the
// known defects fire millions of times).
var seenSig sync.Map

const maxRecorded = 1000

func (r *runner) violate(sig, detail string) {
	if v, dup := seenSig.LoadOrStore(sig, new(atomic.Int64)); dup {
		if n := v.(*atomic.Int64).Add(1); n < maxRecorded {
			r.c.Violation(sig, "", nil)
		}
		return
	}
	const keep = 400
	h := r.hist
	skipped := 0
	if len(h) > keep {
		skipped = len(h) - keep
		h = h[skipped:]
	}
	ops := make([]string, len(h))
	for i, o := range h {
		ops[i] = o.str(r.f)
	}
	replay := map[string]any{
		"container":         r.f.label(),
		"workload":          r.where,
		"history_len":       len(r.hist),
		"history_omitted":   skipped,
		"history_last_ops":  ops,
		"violation_at_step": len(r.hist),
	}
	last := "(none)"
	if len(r.hist) > 0 {
		last = r.hist[len(r.hist)-1].str(r.f)
	}
	r.c.Violation(sig, r.f.label()+" ["+r.where+"] after "+fmt.Sprint(len(r.hist))+" steps, last = "+last+": "+detail, replay)
}

// onIter records an iterator-protocol problem. The signature is the iterator's
// concrete type, the method and the failing clause; it does not depend on the
// container or the history.
func (r *runner) onIter(problem, query, got string) {
	r.violate(problem, "seen on the iterator returned by "+r.f.name+"."+query+" holding "+got)
}

// sweep compares the queries selected by sw against the model.
func (r *runner) sweep(sw sweepOpts) *mismatch {
	sw.universe = r.universe
	sw.onIter = r.onIter
	mm, nq := r.s.sweep(r.m, sw)
	r.queries += nq
	return mm
}

// replay applies ops without checking queries (they were checked when the
// prefix was first executed).
func (r *runner) replay(ops []op) {
	for _, o := range ops {
		r.s.apply(&o, r.m)
		r.hist = append(r.hist, o)
	}
}

// touched returns the IDs whose adjacency can change by o (computed before o
// is applied).
func (r *runner) touched(o op) []int64 {
	switch o.kind {
	case opAddNode, opNewNodeAdd:
		return []int64{o.u}
	case opRemoveNode:
		t := []int64{o.u}
		for _, v := range r.universe {
			if v != o.u && (r.m.arc(o.u, v) || r.m.arc(v, o.u)) {
				t = append(t, v)
			}
		}
		return t
	}
	if o.u == o.v {
		return []int64{o.u}
	}
	return []int64{o.u, o.v}
}

// step applies o and compares the queries selected by sw. It returns false
// when the history cannot be continued (container and model have diverged).
func (r *runner) step(o op, sw sweepOpts) bool {
	class := o.class(r.m)
	opn := o.name(r.f)
	var pre *model
	if r.f.dense && r.f.from {
		pre = r.m.clone()
	}
	out := r.s.apply(&o, r.m)
	r.hist = append(r.hist, o)
	r.c.Eval(r.f.label()+"."+opn+"|"+class, true)
	if o.kind == opNewNodeAdd {
		r.addToUniverse(o.u)
		if sw.rows != nil {
			sw.rows = append(sw.rows, o.u)
		}
	}
	base := r.f.name + "." + opn + "|" + class + "|"
	if o.kind == opSetCtor && r.f.multi {
		r.c.Count("NewLine.issued", 1)
		if out.sharedLineID {
			r.c.Count("NewLine.id_live_between_other_nodes", 1)
		}
	}

	if out.problem != "" {
		r.violate(base+out.problem, out.detail)
		return false
	}
	switch {
	case out.realPanic != nil && !out.specPanic:
		r.violate(base+"panic-not-specified", "the documentation specifies no panic here, got: "+out.realPanic.Msg+"\n"+out.realPanic.Stack)
		// The graph is still usable iff it equals the model; check everything.
		sw.rows = nil
		return r.sweep(sw) == nil
	case out.realPanic == nil && out.specPanic:
		r.violate(base+"documented-panic-missing", "the documentation specifies a panic here, the call returned normally")
		return false
	case out.specPanic:
		// Documented panic: every query must answer as before the call (the
		// model is unchanged and was equal before).
		sw.rows = nil
		mm := r.sweep(sw)
		if mm == nil {
			return true
		}
		r.violate(base+"graph-changed-after-panic", mm.String())
		// Known deviation (reported as a violation above): a From-initialised
		// dense matrix stores e.From() before it notices that e.To() is
		// outside the matrix. Adopt it so that the history can continue.
		if pre != nil && pre.inDense(o.u) && !pre.inDense(o.v) && o.u != o.v {
			r.m.nodes[o.u] = o.tag
			return r.sweep(sw) == nil
		}
		return false
	}
	mm := r.sweep(sw)
	if mm != nil {
		r.violate(r.f.name+"."+mm.query+"|after "+opn+"("+class+")|"+mm.clause, mm.String())
		// Known deviation (reported as a violation above): RemoveEdge(i,i) on a
		// dense matrix overwrites the diagonal entry (self) with absent, which
		// only Matrix() shows. Adopt it so that the history can continue.
		if r.f.dense && o.kind == opRemove && o.u == o.v && r.m.inDense(o.u) && mm.query == "Matrix" && mm.x == o.u && mm.y == o.u {
			r.m.w[o.u][o.u] = r.f.absent
			return r.sweep(sw) == nil
		}
		return false
	}
	return true
}

// flushViolationCounts reports the occurrences beyond maxRecorded.
func flushViolationCounts(c *vrt.Ctx) {
	seenSig.Range(func(k, v any) bool {
		if n := v.(*atomic.Int64).Load(); n >= maxRecorded {
			c.Count("witnesses_beyond_first_1000|"+k.(string), n-maxRecorded+1)
		}
		return true
	})
}
