package main

// Payload-carrying node / edge / line types handed to the containers, and the
// canonical string form ("rep") of everything a query can return. The model
// (model.go) produces the same strings from its plain maps; a query is
// correct iff the two strings are equal. Iterators are compared as sorted
// multisets of reps, so iteration order is never relied on while duplicates
// and omissions are still visible.

import (
	"fmt"
	"math"
	"sort"
	"strconv"
	"strings"

	"gonum.org/v1/gonum/graph"
	"gonum.org/v1/gonum/graph/multi"
	"gonum.org/v1/gonum/graph/simple"
)

// tagForeign marks values of gonum's own types (simple.Node, multi.Line, ...),
// which carry no payload.
const tagForeign = int32(-1)

// N is a node with a payload tag: two N with the same ID but different tags
// are distinguishable, which makes "the nodes are set to the nodes of the
// edge" observable.
type N struct {
	id  int64
	tag int32
}

func (n N) ID() int64 { return n.id }

// E is an unweighted edge with a payload tag.
type E struct {
	F, T graph.Node
	tag  int32
}

func (e E) From() graph.Node         { return e.F }
func (e E) To() graph.Node           { return e.T }
func (e E) ReversedEdge() graph.Edge { e.F, e.T = e.T, e.F; return e }

// WE is a weighted edge with a payload tag.
type WE struct {
	F, T graph.Node
	W    float64
	tag  int32
}

func (e WE) From() graph.Node         { return e.F }
func (e WE) To() graph.Node           { return e.T }
func (e WE) ReversedEdge() graph.Edge { e.F, e.T = e.T, e.F; return e }
func (e WE) Weight() float64          { return e.W }

// L is a multigraph line with a payload tag.
type L struct {
	F, T graph.Node
	UID  int64
	tag  int32
}

func (l L) From() graph.Node         { return l.F }
func (l L) To() graph.Node           { return l.T }
func (l L) ReversedLine() graph.Line { l.F, l.T = l.T, l.F; return l }
func (l L) ID() int64                { return l.UID }

// WL is a weighted multigraph line with a payload tag.
type WL struct {
	F, T graph.Node
	W    float64
	UID  int64
	tag  int32
}

func (l WL) From() graph.Node         { return l.F }
func (l WL) To() graph.Node           { return l.T }
func (l WL) ReversedLine() graph.Line { l.F, l.T = l.T, l.F; return l }
func (l WL) ID() int64                { return l.UID }
func (l WL) Weight() float64          { return l.W }

// ---- canonical strings ---------------------------------------------------

func tagS(b []byte, t int32) []byte {
	if t == tagForeign {
		return append(b, 'f')
	}
	return strconv.AppendInt(b, int64(t), 10)
}

func wS(b []byte, w float64) []byte {
	switch {
	case math.IsNaN(w):
		return append(b, "NaN"...)
	case w == 0:
		// +0 and -0 are the same weight.
		return append(b, '0')
	}
	return strconv.AppendFloat(b, w, 'g', -1, 64)
}

// appendNode is the model-side node rep: id#tag.
func appendNode(b []byte, id int64, tag int32) []byte {
	b = strconv.AppendInt(b, id, 10)
	b = append(b, '#')
	return tagS(b, tag)
}

func appendRealNode(b []byte, n graph.Node) []byte {
	switch n := n.(type) {
	case nil:
		return append(b, "nil"...)
	case N:
		return appendNode(b, n.id, n.tag)
	case simple.Node, multi.Node:
		return appendNode(b, n.ID(), tagForeign)
	default:
		b = strconv.AppendInt(b, n.ID(), 10)
		return append(b, "#?"...)
	}
}

func nodeRep(n graph.Node) string {
	if n == nil {
		return "nil"
	}
	return string(appendRealNode(make([]byte, 0, 24), n))
}

func modelNodeRep(id int64, tag int32) string {
	return string(appendNode(make([]byte, 0, 24), id, tag))
}

// rec is the model's record of one stored edge or line (as it was handed to
// SetEdge/SetLine): endpoints with the payload tags the nodes carried at that
// moment, the element's own tag, weight and line ID.
type rec struct {
	f, t       int64
	ftag, ttag int32
	tag        int32
	w          float64
	id         int64
}

func (r rec) reversed() rec {
	r.f, r.t = r.t, r.f
	r.ftag, r.ttag = r.ttag, r.ftag
	return r
}

// canon orients r so that f <= t (used where the orientation of an
// undirected element is not specified).
func (r rec) canon() rec {
	if r.f > r.t {
		return r.reversed()
	}
	return r
}

// edgeRep: "F>T e<tag>[ w<weight>]".
func (r rec) edgeRep(weighted bool) string {
	b := make([]byte, 0, 64)
	b = appendNode(b, r.f, r.ftag)
	b = append(b, '>')
	b = appendNode(b, r.t, r.ttag)
	b = append(b, " e"...)
	b = tagS(b, r.tag)
	if weighted {
		b = append(b, " w"...)
		b = wS(b, r.w)
	}
	return string(b)
}

// lineRep: "F>T i<id> l<tag>[ w<weight>]".
func (r rec) lineRep(weighted bool) string {
	b := make([]byte, 0, 64)
	b = appendNode(b, r.f, r.ftag)
	b = append(b, '>')
	b = appendNode(b, r.t, r.ttag)
	b = append(b, " i"...)
	b = strconv.AppendInt(b, r.id, 10)
	b = append(b, " l"...)
	b = tagS(b, r.tag)
	if weighted {
		b = append(b, " w"...)
		b = wS(b, r.w)
	}
	return string(b)
}

func nodeTagOf(n graph.Node) (int64, int32, bool) {
	switch n := n.(type) {
	case nil:
		return 0, 0, false
	case N:
		return n.id, n.tag, true
	case simple.Node, multi.Node:
		return n.ID(), tagForeign, true
	}
	return n.ID(), -9, true
}

// multiEdgeRep is the rep of a multi.Edge / multi.WeightedEdge: current end
// nodes, aggregate weight, and the sorted reps of its lines.
func multiEdgeRep(fid int64, ftag int32, tid int64, ttag int32, weighted bool, w float64, lines []string) string {
	b := make([]byte, 0, 64+32*len(lines))
	b = appendNode(b, fid, ftag)
	b = append(b, '>')
	b = appendNode(b, tid, ttag)
	b = append(b, " m"...)
	if weighted {
		b = append(b, " w"...)
		b = wS(b, w)
	}
	b = append(b, " ["...)
	for i, l := range lines {
		if i > 0 {
			b = append(b, ',')
		}
		b = append(b, l...)
	}
	b = append(b, ']')
	return string(b)
}

func recOfEnds(f, t graph.Node) (rec, bool) {
	var r rec
	var ok1, ok2 bool
	r.f, r.ftag, ok1 = nodeTagOf(f)
	r.t, r.ttag, ok2 = nodeTagOf(t)
	return r, ok1 && ok2
}

// realLineRep canonicalises a line returned by a container. canon orients it
// with the smaller ID first.
func realLineRep(l graph.Line, canon bool) string {
	if l == nil {
		return "nil"
	}
	r, ok := recOfEnds(l.From(), l.To())
	if !ok {
		return "line-with-nil-end"
	}
	r.id = l.ID()
	weighted := false
	switch l := l.(type) {
	case L:
		r.tag = l.tag
	case WL:
		r.tag, r.w, weighted = l.tag, l.W, true
	case multi.Line:
		r.tag = tagForeign
	case multi.WeightedLine:
		r.tag, r.w, weighted = tagForeign, l.W, true
	default:
		r.tag = -9
		if wl, ok := l.(graph.WeightedLine); ok {
			r.w, weighted = wl.Weight(), true
		}
	}
	if canon {
		r = r.canon()
	}
	return r.lineRep(weighted)
}

// itStats collects iterator-protocol problems found while canonicalising. A
// problem is "<iterator type>|<method>|<clause>"; problems do not stop the
// comparison of the iterator's content.
type itStats struct {
	probs []string
}

func (s *itStats) set(it any, p string) {
	t := strings.TrimPrefix(fmt.Sprintf("%T", it), "*")
	p = t + "|" + p
	for _, q := range s.probs {
		if q == p {
			return
		}
	}
	s.probs = append(s.probs, p)
}

// realEdgeRep canonicalises an edge returned by a container. canon: orient
// with the smaller ID first (undirected Edges() lists).
func realEdgeRep(e graph.Edge, canon bool, st *itStats) string {
	if e == nil {
		return "nil"
	}
	switch e := e.(type) {
	case multi.Edge:
		r, ok := recOfEnds(e.F, e.T)
		if !ok {
			return "edge-with-nil-end"
		}
		var lines []string
		switch {
		case e.Lines == nil:
		case st == nil:
			e.Lines.Reset()
			for e.Lines.Next() {
				lines = append(lines, realLineRep(e.Lines.Line(), canon))
			}
			e.Lines.Reset()
			sort.Strings(lines)
		default:
			lines = drainLines(e.Lines, canon, st)
		}
		if canon {
			r = r.canon()
		}
		return multiEdgeRep(r.f, r.ftag, r.t, r.ttag, false, 0, lines)
	case multi.WeightedEdge:
		r, ok := recOfEnds(e.F, e.T)
		if !ok {
			return "edge-with-nil-end"
		}
		w := e.Weight()
		var lines []string
		switch {
		case e.WeightedLines == nil:
		case st == nil:
			e.WeightedLines.Reset()
			for e.WeightedLines.Next() {
				lines = append(lines, realLineRep(e.WeightedLines.WeightedLine(), canon))
			}
			e.WeightedLines.Reset()
			sort.Strings(lines)
		default:
			lines = drainWeightedLines(e.WeightedLines, canon, st)
		}
		if canon {
			r = r.canon()
		}
		return multiEdgeRep(r.f, r.ftag, r.t, r.ttag, true, w, lines)
	}
	r, ok := recOfEnds(e.From(), e.To())
	if !ok {
		return "edge-with-nil-end"
	}
	weighted := false
	switch e := e.(type) {
	case E:
		r.tag = e.tag
	case WE:
		r.tag, r.w, weighted = e.tag, e.W, true
	case simple.Edge:
		r.tag = tagForeign
	case simple.WeightedEdge:
		r.tag, r.w, weighted = tagForeign, e.W, true
	default:
		r.tag = -9
		if we, ok := e.(graph.WeightedEdge); ok {
			r.w, weighted = we.Weight(), true
		}
	}
	if canon {
		r = r.canon()
	}
	return r.edgeRep(weighted)
}

// ---- iterator protocol -----------------------------------------------------

// drain runs the full iterator protocol on it and returns the sorted reps of
// its elements:
//
//	pass 1: Len() is checked before every Next(); the number of elements
//	        equals the initial Len(); after exhaustion Len()==0 and Next()
//	        stays false;
//	pass 2: Reset() restores the initial Len() and the same multiset;
//	pass 3: Reset(), advance half-way, then the Slicer fast path returns
//	        exactly the remaining elements and leaves the iterator empty;
//	pass 4: Reset(), Slicer on the fresh iterator returns everything.
//
// cur returns the rep of the current element (deep: also run the protocol on
// iterators nested in the element; only done in pass 1); slice (nil if the
// iterator has no Slicer fast path) returns the reps of the remaining elements.
func drain(it graph.Iterator, cur func(deep bool) string, slice func() []string, st *itStats) []string {
	n0 := it.Len()
	if n0 < 0 {
		st.set(it, "Len|negative")
		n0 = 0
	}
	items := make([]string, 0, n0)
	lens := make([]int, 0, n0+1)
	for i := 0; ; i++ {
		if i <= n0 {
			lens = append(lens, it.Len())
		}
		if !it.Next() {
			break
		}
		items = append(items, cur(true))
		if i > n0+4 {
			st.set(it, "Next|yields-more-than-Len")
			break
		}
	}
	exact, inclCurrent := true, len(lens) > 1
	for i, l := range lens {
		if l != n0-i {
			exact = false
		}
		if i > 0 && l != n0-i+1 {
			inclCurrent = false
		}
	}
	switch {
	case exact:
	case inclCurrent:
		// Next does not decrement Len the first time: Len counts the item
		// that has just been delivered as still remaining.
		st.set(it, "Len|counts-the-current-item-as-remaining")
	default:
		st.set(it, "Len|not-the-remaining-count")
	}
	if len(items) != n0 {
		st.set(it, "Next|item-count-differs-from-initial-Len")
	}
	if it.Len() != 0 {
		st.set(it, "Len|nonzero-when-exhausted")
	}
	if it.Next() {
		st.set(it, "Next|true-after-exhaustion")
	}
	unsorted := append([]string(nil), items...)
	sort.Strings(items)

	// pass 2
	it.Reset()
	if it.Len() != n0 {
		st.set(it, "Reset|Len-not-restored")
	}
	second := make([]string, 0, n0)
	for i := 0; it.Next(); i++ {
		second = append(second, cur(false))
		if i > n0+4 {
			break
		}
	}
	sort.Strings(second)
	if !equalStrings(items, second) {
		st.set(it, "Reset|different-elements-after-reset")
	}

	if slice != nil {
		// pass 3
		it.Reset()
		k := n0 / 2
		third := make([]string, 0, n0+1)
		for i := 0; i < k && it.Next(); i++ {
			third = append(third, cur(false))
		}
		rest := slice()
		all := append(append([]string(nil), third...), rest...)
		sort.Strings(all)
		switch {
		case len(rest) == n0-k && equalStrings(items, all):
		case k > 0 && len(third) == k && len(rest) == n0-k+1:
			// Does the slice start with the item Next delivered last?
			alt := append(append([]string(nil), third[:k-1]...), rest...)
			sort.Strings(alt)
			if equalStrings(items, alt) {
				st.set(it, "Slice|returns-the-current-item-again")
			} else {
				st.set(it, "Slice|not-the-remaining-items")
			}
		default:
			st.set(it, "Slice|not-the-remaining-items")
		}
		if it.Len() != 0 || it.Next() {
			st.set(it, "Slice|iterator-not-empty-afterwards")
		}
		// pass 4
		if k > 0 {
			it.Reset()
			all := slice()
			sort.Strings(all)
			if !equalStrings(items, all) {
				st.set(it, "Slice|fresh-iterator-not-all-items")
			}
		}
		it.Reset()
	}
	_ = unsorted
	return items
}

func equalStrings(a, b []string) bool {
	if len(a) != len(b) {
		return false
	}
	for i := range a {
		if a[i] != b[i] {
			return false
		}
	}
	return true
}

func drainNodes(it graph.Nodes, st *itStats) []string {
	if it == nil {
		st.set(it, "nil|nil-iterator")
		return nil
	}
	if it == graph.Empty {
		return nil
	}
	var slice func() []string
	if s, ok := it.(graph.NodeSlicer); ok {
		slice = func() []string {
			ns := s.NodeSlice()
			out := make([]string, len(ns))
			for i, n := range ns {
				out[i] = nodeRep(n)
			}
			return out
		}
	}
	return drain(it, func(bool) string { return nodeRep(it.Node()) }, slice, st)
}

func drainLines(it graph.Lines, canon bool, st *itStats) []string {
	if it == nil {
		st.set(it, "nil|nil-iterator")
		return nil
	}
	if it == graph.Empty {
		return nil
	}
	var slice func() []string
	if s, ok := it.(graph.LineSlicer); ok {
		slice = func() []string {
			ls := s.LineSlice()
			out := make([]string, len(ls))
			for i, l := range ls {
				out[i] = realLineRep(l, canon)
			}
			return out
		}
	}
	return drain(it, func(bool) string { return realLineRep(it.Line(), canon) }, slice, st)
}

func drainWeightedLines(it graph.WeightedLines, canon bool, st *itStats) []string {
	if it == nil {
		st.set(it, "nil|nil-iterator")
		return nil
	}
	if it == graph.Empty {
		return nil
	}
	var slice func() []string
	if s, ok := it.(graph.WeightedLineSlicer); ok {
		slice = func() []string {
			ls := s.WeightedLineSlice()
			out := make([]string, len(ls))
			for i, l := range ls {
				out[i] = realLineRep(l, canon)
			}
			return out
		}
	}
	return drain(it, func(bool) string { return realLineRep(it.WeightedLine(), canon) }, slice, st)
}

func drainEdges(it graph.Edges, canon bool, st *itStats) []string {
	if it == nil {
		st.set(it, "nil|nil-iterator")
		return nil
	}
	if it == graph.Empty {
		return nil
	}
	// The elements of a multigraph's Edges() hold live line iterators; they
	// are canonicalised (and their own protocol checked) on the first pass
	// only, later passes reuse a protocol-free rep.
	var slice func() []string
	if s, ok := it.(graph.EdgeSlicer); ok {
		slice = func() []string {
			es := s.EdgeSlice()
			out := make([]string, len(es))
			for i, e := range es {
				out[i] = realEdgeRep(e, canon, nil)
			}
			return out
		}
	}
	return drain(it, func(deep bool) string {
		if deep {
			return realEdgeRep(it.Edge(), canon, st)
		}
		return realEdgeRep(it.Edge(), canon, nil)
	}, slice, st)
}

func drainWeightedEdges(it graph.WeightedEdges, canon bool, st *itStats) []string {
	if it == nil {
		st.set(it, "nil|nil-iterator")
		return nil
	}
	if it == graph.Empty {
		return nil
	}
	var slice func() []string
	if s, ok := it.(graph.WeightedEdgeSlicer); ok {
		slice = func() []string {
			es := s.WeightedEdgeSlice()
			out := make([]string, len(es))
			for i, e := range es {
				out[i] = realEdgeRep(e, canon, nil)
			}
			return out
		}
	}
	return drain(it, func(deep bool) string {
		if deep {
			return realEdgeRep(it.WeightedEdge(), canon, st)
		}
		return realEdgeRep(it.WeightedEdge(), canon, nil)
	}, slice, st)
}

func joinReps(items []string) string {
	if len(items) == 0 {
		return "{}"
	}
	return "{" + strings.Join(items, " | ") + "}"
}
