package main

// Random mutation histories over a larger ID universe that includes the
// extreme IDs, with removal-heavy, re-add-heavy, churn-on-one-node and
// ID-pool profiles.

import (
	"fmt"
	"math"

	"gonum.org/v1/gonum/verifx/vrt"
)

type profile struct {
	name string
	// weights: AddNode, NewNode+AddNode, RemoveNode, Set, SetCtor, Remove
	w [6]int
	// probability that a removal targets something that exists
	hitExisting float64
	readd       bool // a removed node is re-added and re-connected at once
	churn       bool // most operations involve one hub node
	// deterministic: no operation whose outcome depends on the container's
	// choice of an unused ID; such histories are joined across builds.
	deterministic bool
}

var profiles = []profile{
	{name: "mixed", w: [6]int{10, 4, 6, 45, 10, 25}, hitExisting: 0.5},
	{name: "removal-heavy", w: [6]int{8, 3, 20, 30, 5, 34}, hitExisting: 0.85},
	{name: "readd-heavy", w: [6]int{10, 3, 17, 40, 5, 25}, hitExisting: 0.8, readd: true},
	{name: "churn-one-node", w: [6]int{8, 3, 12, 47, 8, 22}, hitExisting: 0.7, churn: true},
	{name: "id-pool", w: [6]int{12, 28, 28, 17, 5, 10}, hitExisting: 0.9},
	{name: "deterministic-mixed", w: [6]int{12, 0, 9, 49, 0, 30}, hitExisting: 0.6, deterministic: true},
}

var extremeIDs = []int64{0, -1, math.MinInt64, math.MaxInt64, math.MaxInt64 - 1}

// idUniverse returns n distinct IDs: the five extreme IDs, a run of small IDs
// and scattered large / negative ones.
func idUniverse(rng *vrt.Rand, n int) []int64 {
	ids := append([]int64{}, extremeIDs...)
	seen := map[int64]bool{}
	for _, id := range ids {
		seen[id] = true
	}
	for i := int64(1); len(ids) < n*2/3; i++ {
		if !seen[i] {
			seen[i] = true
			ids = append(ids, i)
		}
	}
	for len(ids) < n {
		var id int64
		switch rng.Intn(4) {
		case 0:
			id = int64(rng.Uint64()) // anywhere
		case 1:
			id = math.MaxInt64 - int64(rng.Intn(1000))
		case 2:
			id = math.MinInt64 + int64(rng.Intn(1000))
		default:
			id = int64(1)<<uint(20+rng.Intn(40)) + int64(rng.Intn(3)) - 1
		}
		if !seen[id] {
			seen[id] = true
			ids = append(ids, id)
		}
	}
	return ids
}

type gen struct {
	rng     *vrt.Rand
	f       *family
	p       *profile
	ids     []int64 // IDs operations draw from
	hot     []int64
	hub     int64
	pending []op
	n       int32
}

func newGen(rng *vrt.Rand, f *family, p *profile, ids []int64) *gen {
	g := &gen{rng: rng, f: f, p: p, ids: ids}
	// hot set: 8 IDs that most operations use; in half of the histories it
	// holds the extreme IDs.
	perm := rng.Perm(len(ids))
	if f.dense {
		for _, i := range perm[:min(6, len(perm))] {
			g.hot = append(g.hot, ids[i])
		}
	} else {
		if rng.Bool() {
			g.hot = append(g.hot, extremeIDs...)
		}
		for _, i := range perm {
			if len(g.hot) >= 8 {
				break
			}
			if !inSet(g.hot, ids[i]) {
				g.hot = append(g.hot, ids[i])
			}
		}
	}
	g.hub = g.hot[rng.Intn(len(g.hot))]
	return g
}

func (g *gen) pickID() int64 {
	if g.rng.Chance(0.65) {
		return g.hot[g.rng.Intn(len(g.hot))]
	}
	return g.ids[g.rng.Intn(len(g.ids))]
}

func (g *gen) pickWeight() float64 {
	switch u := g.rng.Intn(100); {
	case g.f.dense && u < 6:
		return g.f.absent
	case u < 9:
		return math.Inf(1)
	case u < 11:
		return math.NaN()
	case u < 13:
		return math.Inf(-1)
	}
	return float64(g.rng.Range(-4, 9))
}

func (g *gen) pickLineID() int64 {
	switch u := g.rng.Intn(100); {
	case u < 85:
		return int64(g.rng.Intn(3))
	case u < 95:
		return int64(g.rng.Range(3, 6))
	}
	return []int64{-1, math.MaxInt64, math.MinInt64, math.MaxInt64 - 1}[g.rng.Intn(4)]
}

// existingNode returns a random node of the model (ok=false if none).
func (g *gen) existingNode(m *model) (int64, bool) {
	ids := m.sortedNodeIDs()
	if len(ids) == 0 {
		return 0, false
	}
	return ids[g.rng.Intn(len(ids))], true
}

// existingArc returns a random (u,v[,line id]) that exists in the model.
func (g *gen) existingArc(m *model, universe []int64) (u, v, id int64, ok bool) {
	ids := m.sortedNodeIDs()
	if len(ids) == 0 {
		return
	}
	for try := 0; try < 4; try++ {
		u = ids[g.rng.Intn(len(ids))]
		var nb []int64
		for _, x := range ids {
			if m.arc(u, x) {
				nb = append(nb, x)
			}
		}
		if len(nb) == 0 {
			continue
		}
		v = nb[g.rng.Intn(len(nb))]
		if g.f.multi {
			var lids []int64
			for lid := range m.lines[m.key(u, v)] {
				lids = append(lids, lid)
			}
			sortInt64(lids)
			id = lids[g.rng.Intn(len(lids))]
		}
		if !g.f.directed && g.rng.Bool() {
			u, v = v, u
		}
		return u, v, id, true
	}
	return
}

func sortInt64(s []int64) {
	for i := 1; i < len(s); i++ {
		for j := i; j > 0 && s[j] < s[j-1]; j-- {
			s[j], s[j-1] = s[j-1], s[j]
		}
	}
}

func (g *gen) next(m *model, universe []int64) op {
	g.n++
	if len(g.pending) > 0 {
		o := g.pending[0]
		g.pending = g.pending[1:]
		o.tag = g.n
		return o
	}
	f := g.f
	o := op{tag: g.n, w: g.pickWeight(), id: g.pickLineID()}
	if f.dense {
		// Dense matrices: only edge operations; a few per cent use IDs outside
		// the matrix.
		o.u, o.v = g.pickID(), g.pickID()
		if o.u == o.v && g.rng.Chance(0.8) {
			o.v = g.pickID()
		}
		switch u := g.rng.Intn(100); {
		case u < 20:
			o.kind, o.unit = opSet, true
		case u < 62:
			o.kind = opSet
		default:
			o.kind = opRemove
			if g.rng.Chance(g.p.hitExisting) {
				if a, b, _, ok := g.existingArc(m, universe); ok {
					o.u, o.v = a, b
				}
			}
		}
		return o
	}

	total := 0
	for _, w := range g.p.w {
		total += w
	}
	k, x := 0, g.rng.Intn(total)
	for ; x >= g.p.w[k]; k++ {
		x -= g.p.w[k]
	}
	o.kind = opKind(k)
	o.u, o.v = g.pickID(), g.pickID()
	if g.p.churn && g.rng.Chance(0.75) {
		if g.rng.Bool() {
			o.u = g.hub
		} else {
			o.v = g.hub
		}
	}
	if o.u == o.v && (o.kind == opSet || o.kind == opSetCtor) && g.rng.Chance(0.7) {
		o.v = g.pickID()
	}
	switch o.kind {
	case opRemoveNode:
		if g.p.churn && g.rng.Chance(0.5) {
			o.u = g.hub
		} else if g.rng.Chance(g.p.hitExisting) {
			if id, ok := g.existingNode(m); ok {
				o.u = id
			}
		}
		if g.p.readd && m.hasNode(o.u) && g.rng.Chance(0.8) {
			// Re-add the node and re-connect some of its former neighbours.
			g.pending = append(g.pending, op{kind: opAddNode, u: o.u})
			for _, v := range universe {
				if v == o.u {
					continue
				}
				if m.arc(o.u, v) && g.rng.Chance(0.6) {
					g.pending = append(g.pending, op{kind: opSet, u: o.u, v: v, w: g.pickWeight(), id: g.pickLineID()})
				}
				if f.directed && m.arc(v, o.u) && g.rng.Chance(0.6) {
					g.pending = append(g.pending, op{kind: opSet, u: v, v: o.u, w: g.pickWeight(), id: g.pickLineID()})
				}
			}
		}
	case opAddNode:
		if g.p.churn && g.rng.Chance(0.5) {
			o.u = g.hub
		}
	case opRemove:
		if g.rng.Chance(g.p.hitExisting) {
			if a, b, id, ok := g.existingArc(m, universe); ok {
				o.u, o.v, o.id = a, b, id
			}
		}
	}
	return o
}

type randomPlan struct {
	f         *family
	universeN int // number of IDs operations draw from
	steps     int
	fullEvery int // every ordered pair is compared every fullEvery steps (1 = always)
}

func runRandom(c *vrt.Ctx, plan randomPlan, pi, idx int, digest bool) {
	f := plan.f
	p := &profiles[pi%len(profiles)]
	rng := c.RNG("random/"+f.label(), plan.universeN, pi, idx)
	var ids []int64
	if f.dense {
		for i := 0; i < f.dim; i++ {
			ids = append(ids, int64(i))
		}
	} else {
		ids = idUniverse(rng, plan.universeN)
	}
	universe := append([]int64{}, ids...)
	opIDs := ids
	if f.dense {
		outside := []int64{-1, int64(f.dim), int64(f.dim) + 3, math.MaxInt64, math.MinInt64, 1 << 33}
		universe = append(universe, outside...)
		// about 3% of the drawn IDs are outside the matrix
		opIDs = append([]int64{}, ids...)
		for len(opIDs) < 30*len(ids)/29+1 {
			opIDs = append(opIDs, outside[rng.Intn(len(outside))])
		}
	} else {
		universe = append(universe, 424242, -424242) // never added
	}
	where := fmt.Sprintf("random profile=%s universe=%d steps=%d index=%d", p.name, plan.universeN, plan.steps, idx)
	c.LastCase(f.label() + " " + where)
	r := newRunner(c, f, universe, where)
	g := newGen(rng, f, p, opIDs)
	if f.dense {
		g.hot = g.hot[:0]
		for _, i := range rng.Perm(len(ids))[:min(6, len(ids))] {
			g.hot = append(g.hot, ids[i])
		}
	}
	var dig *hasher
	if digest && p.deterministic {
		dig = newHasher()
	}
	alive := true
	steps := 0
	for ; steps < plan.steps && alive; steps++ {
		o := g.next(r.m, r.universe)
		sw := sweepOpts{global: true, dig: dig, newLine: f.multi}
		if plan.fullEvery > 1 && (steps+1)%plan.fullEvery != 0 {
			sw.rows = r.touched(o)
		}
		// Slices obtained before the operation are the caller's copies: the
		// rows the operation can touch every step, the global lists every 3rd.
		hs := r.handOutAll(r.touched(o), steps%3 == 0, steps%2 == 1)
		alive = r.step(o, sw)
		if alive {
			alive = r.checkHeld(hs)
		}
		// Every 25th step the caller modifies the slices it is handed.
		if alive && steps%25 == 24 {
			alive = r.scrambleCheck(sw.rows, steps%50 == 49)
		}
	}
	if alive {
		alive = r.scrambleCheck(nil, false) && r.scrambleCheck(nil, true)
	}
	if alive {
		// Final: every pair, and NewLine for every pair.
		sw := sweepOpts{global: true, dig: dig, newLine: f.multi, newLineAll: true}
		if mm := r.sweep(sw); mm != nil {
			alive = false
			r.violate(f.name+"."+mm.query+"|end of history|"+mm.clause, mm.String())
		}
	}
	if alive && !f.multi && !f.dense {
		copyRoundTrip(c, r)
	}
	if alive && !f.multi {
		copyMatrix(c, r)
	}
	if alive && f.directed {
		undirectView(c, r)
	}
	c.Count("random.histories", 1)
	c.Count("random.steps", int64(steps))
	c.Count("queries_compared", r.queries)
	if !alive {
		c.Count("random.histories_stopped_at_a_violation", 1)
	}
	if dig != nil && alive {
		c.Digest(fmt.Sprintf("%s|random|%s|%d|%d", f.label(), p.name, plan.universeN, idx), "exact", dig.h)
	}
	if c.WantSample() && idx == 0 && pi < 2 {
		n := min(12, len(r.hist))
		ops := make([]string, n)
		for i := range ops {
			ops[i] = r.hist[i].str(f)
		}
		c.Sample(map[string]any{"workload": where, "container": f.label(), "first_ops": ops,
			"final_nodes": len(r.m.nodes), "final_edges_or_line_pairs": len(r.m.edges) + len(r.m.lines), "universe": len(r.universe)})
	}
}
