package main

// Exhaustive exploration: breadth-first search over the abstract (structural)
// states of the model for a small ID universe. Out of every reached state
// every operation is issued once; each transition is executed on a fresh real
// container rebuilt by replaying the shortest history to the source state, and
// followed by the comparison of every query for every ordered ID pair.

import (
	"fmt"
	"math"
	"sort"
	"sync/atomic"

	"gonum.org/v1/gonum/verifx/vrt"
)

type bstate struct {
	hist []op
	key  string
}

type bsucc struct {
	o   op
	key string
}

// bfsOps enumerates the operation templates (tag and weight are filled in per
// transition).
func bfsOps(f *family, nodeIDs, lineIDs []int64, ctor bool) []op {
	var ops []op
	if f.dense {
		ids := append(append([]int64{}, nodeIDs...), -1, int64(f.dim))
		for _, u := range ids {
			for _, v := range ids {
				ops = append(ops,
					op{kind: opSet, u: u, v: v, unit: true},
					op{kind: opSet, u: u, v: v},
					op{kind: opSet, u: u, v: v, w: f.absent, id: -1}, // id<0 marks "weight = absent"
					op{kind: opRemove, u: u, v: v})
			}
		}
		return ops
	}
	for _, u := range nodeIDs {
		ops = append(ops, op{kind: opAddNode, u: u})
	}
	ops = append(ops, op{kind: opNewNodeAdd})
	for _, u := range nodeIDs {
		ops = append(ops, op{kind: opRemoveNode, u: u})
	}
	for _, u := range nodeIDs {
		for _, v := range nodeIDs {
			if f.multi {
				for _, id := range lineIDs {
					ops = append(ops, op{kind: opSet, u: u, v: v, id: id})
				}
				ops = append(ops, op{kind: opSetCtor, u: u, v: v})
				for _, id := range lineIDs {
					ops = append(ops, op{kind: opRemove, u: u, v: v, id: id})
				}
				ops = append(ops, op{kind: opRemove, u: u, v: v, id: 7}) // a line ID that is never used
			} else {
				ops = append(ops, op{kind: opSet, u: u, v: v}, op{kind: opRemove, u: u, v: v})
				if ctor {
					ops = append(ops, op{kind: opSetCtor, u: u, v: v})
				}
			}
		}
	}
	return ops
}

func inSet(ids []int64, id int64) bool {
	for _, x := range ids {
		if x == id {
			return true
		}
	}
	return false
}

// runBFS explores family f. It stops when no new state appears or after
// maxTransitions transitions (then the frontier is reported as not exhausted).
// churnPrelude returns a history that leads from the model state m back to the
// same abstract state through the implementation's hidden state: every node
// is removed (dense: every edge), then all nodes are added again and all
// edges / lines are set again (same orientation, weights and line IDs). After
// it the ID pools hold released-and-reused IDs, inner maps have been emptied
// and refilled and line-ID sets outlive their nodes. The abstract BFS never
// takes such a detour on its own because it deduplicates on model states.
func churnPrelude(m *model, tag int32) []op {
	var ops []op
	f := m.fam
	if f.dense {
		n := int64(f.dim)
		var sets []op
		for i := int64(0); i < n; i++ {
			for j := int64(0); j < n; j++ {
				if !m.arc(i, j) || (!f.directed && j < i) {
					continue
				}
				ops = append(ops, op{kind: opRemove, u: i, v: j})
				sets = append(sets, op{kind: opSet, u: i, v: j, w: m.w[i][j], tag: tag})
			}
		}
		return append(ops, sets...)
	}
	ids := m.sortedNodeIDs()
	for _, id := range ids {
		ops = append(ops, op{kind: opRemoveNode, u: id})
	}
	for _, id := range ids {
		ops = append(ops, op{kind: opAddNode, u: id, tag: tag})
	}
	var recs []rec
	for _, r := range m.edges {
		recs = append(recs, r)
	}
	for _, ls := range m.lines {
		for _, r := range ls {
			recs = append(recs, r)
		}
	}
	sort.Slice(recs, func(i, j int) bool {
		a, b := recs[i], recs[j]
		if a.f != b.f {
			return a.f < b.f
		}
		if a.t != b.t {
			return a.t < b.t
		}
		return a.id < b.id
	})
	for _, r := range recs {
		ops = append(ops, op{kind: opSet, u: r.f, v: r.t, id: r.id, w: r.w, tag: tag})
	}
	return ops
}

func runBFS(c *vrt.Ctx, f *family, nodeIDs, lineIDs []int64, maxTransitions int, ctor, churn, digest bool) {
	ops := bfsOps(f, nodeIDs, lineIDs, ctor)
	var universe []int64
	if f.dense {
		universe = append(append([]int64{}, nodeIDs...), -1, int64(f.dim))
	} else {
		universe = append(append([]int64{}, nodeIDs...), 99) // 99: an ID that is never added
	}
	start := newModel(f).abstractKey()
	seen := map[string]bool{start: true}
	level := []bstate{{key: start}}
	transitions, states, depth := 0, 0, 0
	exhausted := true
	var queries atomic.Int64
	for len(level) > 0 {
		n := len(level)
		nvar := 1
		if churn {
			nvar = 2
		}
		if room := (maxTransitions - transitions) / (len(ops) * nvar); room < n {
			n = room
			exhausted = false
			if n <= 0 {
				break
			}
		}
		results := make([][]bsucc, n)
		vrt.Parallel(n, func(i int) {
			results[i] = expand(c, f, level[i], ops, universe, nodeIDs, lineIDs, churn, digest, &queries)
		})
		transitions += n * len(ops) * nvar
		states += n
		var next []bstate
		for i := 0; i < n; i++ {
			for _, su := range results[i] {
				if seen[su.key] {
					continue
				}
				seen[su.key] = true
				h := make([]op, len(level[i].hist)+1)
				copy(h, level[i].hist)
				h[len(h)-1] = su.o
				next = append(next, bstate{hist: h, key: su.key})
			}
		}
		if n < len(level) {
			break
		}
		level = next
		depth++
	}
	lab := fmt.Sprintf("bfs.%s.ids=%v", f.label(), nodeIDs)
	c.Count(lab+".transitions", int64(transitions))
	c.Count(lab+".states_expanded", int64(states))
	c.Count(lab+".states_seen", int64(len(seen)))
	c.Count("bfs.transitions", int64(transitions))
	c.Count("queries_compared", queries.Load())
	c.Note(lab+".exhausted", exhausted)
	c.Note(lab+".depth", depth)
	if c.WantSample() {
		c.Sample(map[string]any{"workload": "bfs", "container": f.label(), "node_ids": nodeIDs, "line_ids": lineIDs,
			"ops_per_state": len(ops), "each_also_after_churn_prelude": churn, "states_expanded": states, "transitions": transitions, "exhausted": exhausted})
	}
}

func expand(c *vrt.Ctx, f *family, st bstate, ops []op, universe, nodeIDs, lineIDs []int64, churn, digest bool, queries *atomic.Int64) []bsucc {
	var out []bsucc
	var dig *hasher
	if digest {
		dig = newHasher()
	}
	c.LastCase("bfs " + f.label() + " state " + st.key)
	nvar := 1
	if churn {
		nvar = 2
	}
	// Once per state (and once more behind the churn detour): the caller
	// modifies every slice the accessors hand out, fresh and after a partial
	// iteration; the container must keep answering like the model.
	for v := 0; v < 2*nvar; v++ {
		where := "exhaustive-bfs, caller modifies handed-out slices"
		r := newRunner(c, f, universe, where)
		r.replay(st.hist)
		if v >= 2 {
			r.replay(churnPrelude(r.m, int32(1000+len(st.hist))))
		}
		if len(r.hist) == 0 && !f.dense {
			break
		}
		r.scrambleCheck(nil, v%2 == 1)
		queries.Add(r.queries)
	}
	for vi := 0; vi < len(ops)*nvar; vi++ {
		tmpl, viaChurn := ops[vi/nvar], vi%nvar == 1
		where := "exhaustive-bfs"
		if viaChurn {
			where = "exhaustive-bfs, source state re-entered through remove-all/re-add-all"
		}
		r := newRunner(c, f, universe, where)
		r.replay(st.hist)
		if viaChurn {
			r.replay(churnPrelude(r.m, int32(1000+len(st.hist))))
			if k := r.m.abstractKey(); k != st.key {
				panic("harness: churn prelude left the abstract state: " + st.key + " -> " + k)
			}
		}
		o := tmpl
		o.tag = int32(len(st.hist) + 1)
		switch {
		case f.dense && o.id == -1:
			o.id = 0 // weight stays f.absent
		case f.dense && o.unit:
			o.w = 1
		default:
			o.w = float64(len(st.hist) + 2)
		}
		sw := sweepOpts{global: true}
		// Transitions whose outcome depends on which unused ID the container
		// picks are checked but kept out of the cross-build digest.
		deterministic := o.kind != opNewNodeAdd && !(f.multi && o.kind == opSetCtor)
		if deterministic {
			sw.dig = dig
		}
		// Slices obtained before the operation are the caller's copies.
		hs := r.handOutAll(r.universe, true, vi%3 == 0)
		alive := r.step(o, sw)
		if alive {
			alive = r.checkHeld(hs)
		}
		if alive && f.multi {
			// NewLine for every pair: fresh ID, graph unchanged.
			sw.dig = nil
			sw.newLine, sw.newLineAll = true, true
			if mm := r.sweep(sw); mm != nil {
				alive = false
				r.violate(f.name+"."+mm.query+"|probe after "+o.name(f)+"|"+mm.clause, mm.String())
			}
		}
		queries.Add(r.queries)
		if !alive || !deterministic || viaChurn {
			continue
		}
		ok := true
		for id := range r.m.nodes {
			if !inSet(nodeIDs, id) {
				ok = false
			}
		}
		for _, ls := range r.m.lines {
			for id := range ls {
				if !inSet(lineIDs, id) {
					ok = false
				}
			}
		}
		if ok {
			out = append(out, bsucc{o: r.hist[len(r.hist)-1], key: r.m.abstractKey()})
		}
	}
	if dig != nil {
		c.Digest(fmt.Sprintf("%s|bfs|ids=%v|%016x", f.label(), nodeIDs, fnvString(st.key)), "exact", dig.h)
	}
	return out
}

// ---- family tables ------------------------------------------------------------

func mapFamilies() []*family {
	return []*family{
		{name: "simple.DirectedGraph", directed: true},
		{name: "simple.UndirectedGraph"},
		{name: "simple.WeightedDirectedGraph", directed: true, weighted: true},
		{name: "simple.WeightedUndirectedGraph", weighted: true},
		{name: "multi.DirectedGraph", multi: true, directed: true},
		{name: "multi.UndirectedGraph", multi: true},
		{name: "multi.WeightedDirectedGraph", multi: true, directed: true, weighted: true},
		{name: "multi.WeightedUndirectedGraph", multi: true, weighted: true},
	}
}

// denseFamilies returns the dense configurations for dimension n: plain and
// From-initialised, empty and complete initial graphs, absent in {0, +Inf, NaN}.
func denseFamilies(n int, all bool) []*family {
	inf, nan := math.Inf(1), math.NaN()
	var fs []*family
	for _, directed := range []bool{true, false} {
		name := "simple.UndirectedMatrix"
		if directed {
			name = "simple.DirectedMatrix"
		}
		fs = append(fs,
			&family{name: name, dense: true, directed: directed, weighted: true, dim: n, init: 0, self: -7, absent: 0},
			&family{name: name, dense: true, directed: directed, weighted: true, dim: n, from: true, init: 2, self: 5, absent: nan},
		)
		if all {
			fs = append(fs,
				&family{name: name, dense: true, directed: directed, weighted: true, dim: n, from: true, init: inf, self: 0, absent: inf},
				&family{name: name, dense: true, directed: directed, weighted: true, dim: n, init: nan, self: nan, absent: nan},
			)
		}
	}
	return fs
}
