package main

// The executable set model. It is deliberately naive: plain maps keyed by IDs,
// every query answered by lookups / scans over a caller supplied ID universe.
// It also decides, from the doc comments only, whether an operation is
// specified to panic:
//
//   AddNode            panics iff the ID is already in the graph
//   simple Set*Edge    panics iff From and To have the same ID; otherwise adds
//                      missing end nodes and *replaces* present ones by the
//                      edge's nodes
//   dense  Set*Edge    panics iff self loop or an end is outside [0,n)
//   Remove*            never panics; removing something absent is a no-op
//   multi  SetLine     never panics (self loops are allowed)

import (
	"math"
	"sort"
	"strconv"
)

type family struct {
	name     string // gonum type name (signature prefix)
	multi    bool
	directed bool
	weighted bool
	dense    bool
	// dense only
	from               bool // built with New*MatrixFrom (stores node values)
	dim                int
	init, self, absent float64
	// weighted simple only: self / absent as given to the constructor
}

type pair [2]int64

type model struct {
	fam   *family
	nodes map[int64]int32 // id -> payload tag of the node value currently stored

	edges map[pair]rec           // simple: (f,t); undirected key (min,max), rec keeps the stored orientation
	lines map[pair]map[int64]rec // multi: pair -> line id -> rec

	w [][]float64 // dense: weight matrix (diagonal = self)

	// ghost state (knowledge of the implementation, used ONLY to classify
	// violation signatures and to avoid masking; never part of an oracle):
	// pairs for which the implementation has allocated a line-ID set.
	lined map[pair]bool
}

func sameW(a, b float64) bool { return a == b || (math.IsNaN(a) && math.IsNaN(b)) }

func newModel(f *family) *model {
	m := &model{fam: f, nodes: map[int64]int32{}}
	switch {
	case f.dense:
		m.w = make([][]float64, f.dim)
		for i := range m.w {
			m.w[i] = make([]float64, f.dim)
			for j := range m.w[i] {
				m.w[i][j] = f.init
			}
			m.w[i][i] = f.self
			if f.from {
				m.nodes[int64(i)] = 0
			} else {
				m.nodes[int64(i)] = tagForeign
			}
		}
	case f.multi:
		m.lines = map[pair]map[int64]rec{}
		m.lined = map[pair]bool{}
	default:
		m.edges = map[pair]rec{}
	}
	return m
}

func (m *model) key(u, v int64) pair {
	if !m.fam.directed && v < u {
		return pair{v, u}
	}
	return pair{u, v}
}

func (m *model) inDense(id int64) bool { return 0 <= id && id < int64(m.fam.dim) }

// ---- mutations (return true when a panic is specified; then nothing changes)

func (m *model) addNode(id int64, tag int32) (panics bool) {
	if _, ok := m.nodes[id]; ok {
		return true
	}
	m.nodes[id] = tag
	return false
}

func (m *model) removeNode(id int64) {
	if _, ok := m.nodes[id]; !ok {
		return
	}
	delete(m.nodes, id)
	for k := range m.edges {
		if k[0] == id || k[1] == id {
			delete(m.edges, k)
		}
	}
	for k := range m.lines {
		if k[0] == id || k[1] == id {
			delete(m.lines, k)
		}
	}
}

// setEdge: r carries endpoints, tags, weight.
func (m *model) setEdge(r rec) (panics bool) {
	if m.fam.dense {
		if r.f == r.t || !m.inDense(r.f) || !m.inDense(r.t) {
			return true
		}
		if m.fam.from {
			m.nodes[r.f] = r.ftag
			m.nodes[r.t] = r.ttag
		}
		m.w[r.f][r.t] = r.w
		if !m.fam.directed {
			m.w[r.t][r.f] = r.w
		}
		return false
	}
	if r.f == r.t {
		return true
	}
	m.nodes[r.f] = r.ftag
	m.nodes[r.t] = r.ttag
	m.edges[m.key(r.f, r.t)] = r
	return false
}

func (m *model) removeEdge(u, v int64) {
	if m.fam.dense {
		if !m.inDense(u) || !m.inDense(v) || u == v {
			// A self edge never exists, so removing it is a no-op.
			return
		}
		m.w[u][v] = m.fam.absent
		if !m.fam.directed {
			m.w[v][u] = m.fam.absent
		}
		return
	}
	delete(m.edges, m.key(u, v))
}

func (m *model) setLine(r rec) {
	m.nodes[r.f] = r.ftag
	m.nodes[r.t] = r.ttag
	k := m.key(r.f, r.t)
	if m.lines[k] == nil {
		m.lines[k] = map[int64]rec{}
	}
	m.lines[k][r.id] = r
	m.lined[k] = true
}

func (m *model) removeLine(u, v, id int64) {
	k := m.key(u, v)
	if ls, ok := m.lines[k]; ok {
		delete(ls, id)
		if len(ls) == 0 {
			delete(m.lines, k)
		}
	}
}

// ---- queries ----------------------------------------------------------------

func (m *model) hasNode(id int64) bool { _, ok := m.nodes[id]; return ok }

func (m *model) node(id int64) string {
	t, ok := m.nodes[id]
	if !ok {
		return "nil"
	}
	return modelNodeRep(id, t)
}

// arc reports whether there is an edge (or at least one line) from u to v
// (between u and v for undirected families).
func (m *model) arc(u, v int64) bool {
	switch {
	case m.fam.dense:
		return u != v && m.inDense(u) && m.inDense(v) && !sameW(m.w[u][v], m.fam.absent)
	case m.fam.multi:
		return len(m.lines[m.key(u, v)]) > 0
	default:
		_, ok := m.edges[m.key(u, v)]
		return ok
	}
}

func (m *model) hasEdgeBetween(u, v int64) bool { return m.arc(u, v) || m.arc(v, u) }

func (m *model) sortedNodeIDs() []int64 {
	ids := make([]int64, 0, len(m.nodes))
	for id := range m.nodes {
		ids = append(ids, id)
	}
	sort.Slice(ids, func(i, j int) bool { return ids[i] < ids[j] })
	return ids
}

func (m *model) allNodes() []string {
	out := make([]string, 0, len(m.nodes))
	for id, t := range m.nodes {
		out = append(out, modelNodeRep(id, t))
	}
	sort.Strings(out)
	return out
}

// from: successors of u (neighbours when undirected), as current node values.
func (m *model) from(u int64, universe []int64) []string {
	var out []string
	for _, v := range universe {
		if m.arc(u, v) {
			out = append(out, modelNodeRep(v, m.nodes[v]))
		}
	}
	sort.Strings(out)
	return out
}

func (m *model) to(u int64, universe []int64) []string {
	var out []string
	for _, v := range universe {
		if m.arc(v, u) {
			out = append(out, modelNodeRep(v, m.nodes[v]))
		}
	}
	sort.Strings(out)
	return out
}

// lineReps: sorted reps of the lines from u to v, oriented from u for
// undirected families (or canonically when canon is set).
func (m *model) lineReps(u, v int64, canon bool) []string {
	ls := m.lines[m.key(u, v)]
	if len(ls) == 0 {
		return nil
	}
	out := make([]string, 0, len(ls))
	for _, r := range ls {
		if canon {
			r = r.canon()
		} else if !m.fam.directed && r.f != u {
			r = r.reversed()
		}
		out = append(out, r.lineRep(m.fam.weighted))
	}
	sort.Strings(out)
	return out
}

func (m *model) lineWeightSum(u, v int64) float64 {
	var s float64
	for _, r := range m.lines[m.key(u, v)] {
		s += r.w // weights are integers or +-Inf/NaN: the sum is order independent
	}
	return s
}

// edge: the answer of Edge / EdgeBetween / WeightedEdge (u,v).
func (m *model) edge(u, v int64) string {
	if !m.arc(u, v) {
		return "nil"
	}
	switch {
	case m.fam.dense:
		r := rec{f: u, t: v, ftag: m.nodes[u], ttag: m.nodes[v], tag: tagForeign, w: m.w[u][v]}
		return r.edgeRep(true)
	case m.fam.multi:
		return multiEdgeRep(u, m.nodes[u], v, m.nodes[v], m.fam.weighted, m.lineWeightSum(u, v), m.lineReps(u, v, false))
	default:
		r := m.edges[m.key(u, v)]
		if !m.fam.directed && r.f != u {
			r = r.reversed()
		}
		return r.edgeRep(m.fam.weighted)
	}
}

// weightVal: the answer of Weight(x,y).
func (m *model) weightVal(x, y int64, self, absent float64) (w float64, ok bool) {
	switch {
	case m.fam.multi:
		return m.lineWeightSum(x, y), m.arc(x, y)
	case x == y:
		return self, true
	case m.arc(x, y):
		if m.fam.dense {
			return m.w[x][y], true
		}
		return m.edges[m.key(x, y)].w, true
	}
	return absent, false
}

// weight: the answer of Weight(x,y) as "w,ok".
func (m *model) weight(x, y int64, self, absent float64) string {
	return weightRep(m.weightVal(x, y, self, absent))
}

func weightRep(w float64, ok bool) string {
	b := wS(make([]byte, 0, 24), w)
	b = append(b, ',')
	b = strconv.AppendBool(b, ok)
	return string(b)
}

// allEdges: the expected content of Edges()/WeightedEdges(). Undirected
// elements are oriented canonically (the orientation of an element of an
// undirected edge list is not specified).
func (m *model) allEdges() []string {
	var out []string
	canon := !m.fam.directed
	switch {
	case m.fam.dense:
		n := int64(m.fam.dim)
		for i := int64(0); i < n; i++ {
			for j := int64(0); j < n; j++ {
				if i == j || (canon && j < i) || !m.arc(i, j) {
					continue
				}
				r := rec{f: i, t: j, ftag: m.nodes[i], ttag: m.nodes[j], tag: tagForeign, w: m.w[i][j]}
				out = append(out, r.edgeRep(true))
			}
		}
	case m.fam.multi:
		for k, ls := range m.lines {
			if len(ls) == 0 {
				continue
			}
			out = append(out, multiEdgeRep(k[0], m.nodes[k[0]], k[1], m.nodes[k[1]], m.fam.weighted, m.lineWeightSum(k[0], k[1]), m.lineReps(k[0], k[1], canon)))
		}
	default:
		for _, r := range m.edges {
			if canon {
				r = r.canon()
			}
			out = append(out, r.edgeRep(m.fam.weighted))
		}
	}
	sort.Strings(out)
	return out
}

// liveLine reports whether a line with this id exists between u and v in the
// sense in which a new line (u,v,id) would overwrite it.
func (m *model) liveLine(u, v, id int64) bool {
	_, ok := m.lines[m.key(u, v)][id]
	return ok
}

// liveLineAnywhere reports whether any line in the graph has this id.
func (m *model) liveLineAnywhere(id int64) bool {
	for _, ls := range m.lines {
		if _, ok := ls[id]; ok {
			return true
		}
	}
	return false
}

// matrix: expected Matrix() of a dense family, row major.
func (m *model) matrix() []float64 {
	n := m.fam.dim
	out := make([]float64, 0, n*n)
	for i := 0; i < n; i++ {
		out = append(out, m.w[i]...)
	}
	return out
}

// key of the abstract (structural) state: node set, edge set with stored
// orientation, line IDs per pair. Payload tags and weights are not part of it.
func (m *model) abstractKey() string {
	b := make([]byte, 0, 128)
	if m.fam.dense {
		n := int64(m.fam.dim)
		for i := int64(0); i < n; i++ {
			for j := int64(0); j < n; j++ {
				if m.arc(i, j) {
					b = append(b, '1')
				} else {
					b = append(b, '0')
				}
			}
		}
		return string(b)
	}
	for _, id := range m.sortedNodeIDs() {
		b = strconv.AppendInt(b, id, 10)
		b = append(b, ' ')
	}
	b = append(b, '/')
	var es []string
	for _, r := range m.edges {
		es = append(es, strconv.FormatInt(r.f, 10)+">"+strconv.FormatInt(r.t, 10))
	}
	for k, ls := range m.lines {
		for id := range ls {
			es = append(es, strconv.FormatInt(k[0], 10)+">"+strconv.FormatInt(k[1], 10)+":"+strconv.FormatInt(id, 10))
		}
	}
	sort.Strings(es)
	for _, e := range es {
		b = append(b, e...)
		b = append(b, ' ')
	}
	return string(b)
}

func (m *model) clone() *model {
	c := &model{fam: m.fam, nodes: make(map[int64]int32, len(m.nodes))}
	for k, v := range m.nodes {
		c.nodes[k] = v
	}
	if m.edges != nil {
		c.edges = make(map[pair]rec, len(m.edges))
		for k, v := range m.edges {
			c.edges[k] = v
		}
	}
	if m.lines != nil {
		c.lines = make(map[pair]map[int64]rec, len(m.lines))
		for k, ls := range m.lines {
			cl := make(map[int64]rec, len(ls))
			for id, r := range ls {
				cl[id] = r
			}
			c.lines[k] = cl
		}
		c.lined = make(map[pair]bool, len(m.lined))
		for k, v := range m.lined {
			c.lined[k] = v
		}
	}
	if m.w != nil {
		c.w = make([][]float64, len(m.w))
		for i := range m.w {
			c.w[i] = append([]float64(nil), m.w[i]...)
		}
	}
	return c
}
