package main

// Round trips through graph.Copy / graph.CopyWeighted and the graph.Undirect /
// graph.UndirectWeighted views, run on the final state of random histories of
// the map-backed simple graphs.

import (
	"sort"

	"gonum.org/v1/gonum/graph"
	"gonum.org/v1/gonum/verifx/vrt"
)

// copyRoundTrip copies the container into a fresh container of the same type
// and compares every query of the copy with the model. Copy first adds the
// nodes and then sets every edge, and setting an edge replaces the end nodes by
// the edge's own (possibly older) node values in an unspecified order, so the
// payload of the node values of the copy is not determined; the model clone
// adopts whatever node values the copy holds for the right IDs. Everything
// else (node set, adjacency, edge values, weights, iterators, invariants) is
// compared exactly.
func copyRoundTrip(c *vrt.Ctx, r *runner) {
	f := r.f
	dst := newSut(f)
	p := vrt.Try(func() {
		if f.weighted {
			graph.CopyWeighted(dst.g.(graph.WeightedBuilder), r.s.g.(graph.Weighted))
		} else {
			graph.Copy(dst.g.(graph.Builder), r.s.g.(graph.Graph))
		}
	})
	name := "graph.Copy"
	if f.weighted {
		name = "graph.CopyWeighted"
	}
	c.Eval(name+"|"+f.name, len(r.m.edges) > 0)
	if p != nil {
		r.violate(name+"|"+f.name+"|panicked", p.Msg+"\n"+p.Stack)
		return
	}
	m := r.m.clone()
	for id := range m.nodes {
		if n := dst.gr.Node(id); n != nil {
			if nid, tag, ok := nodeTagOf(n); ok && nid == id {
				m.nodes[id] = tag
			}
		}
	}
	mm, nq := dst.sweep(m, sweepOpts{universe: r.universe, global: true, onIter: r.onIter})
	r.queries += nq
	if mm != nil {
		r.violate(name+"|"+f.name+"."+mm.query+"|"+mm.clause, "copy of the final graph: "+mm.String())
	}
}

// undirectView checks graph.Undirect / graph.UndirectWeighted over the final
// directed graph against the symmetric closure of the model: with the default
// Merge (arithmetic mean) and a non-default Absent, with an explicit
// commutative Merge that also looks at which of the two edges is nil, and once
// more after the caller has modified the slices obtained from the view.
func undirectView(c *vrt.Ctx, r *runner) {
	f, m := r.f, r.m
	self, absent := f.selfAbsent()
	type view struct {
		label      string
		g          graph.Undirected
		wg         graph.WeightedUndirected
		viewAbsent float64
		merge      func(x, y float64, xe, ye graph.Edge) float64
	}
	var views []view
	name := "graph.Undirect"
	if f.weighted {
		name = "graph.UndirectWeighted"
		wd := r.s.g.(graph.WeightedDirected)
		u1 := graph.UndirectWeighted{G: wd, Absent: -11}
		views = append(views, view{"Absent=-11,Merge=nil", u1, u1, -11, nil})
		u2 := graph.UndirectWeighted{G: wd, Absent: 3, Merge: mergePairs}
		views = append(views, view{"Absent=3,Merge=pairing-sensitive", u2, u2, 3, mergePairs})
		u3 := graph.UndirectWeighted{G: wd}
		views = append(views, view{"zero-value-options", u3, u3, 0, nil})
	} else {
		views = append(views, view{"", graph.Undirect{G: r.s.g.(graph.Directed)}, nil, 0, nil})
	}
	for _, v := range views {
		for pass := 0; pass < 2; pass++ {
			c.Eval(name+"|"+f.name+"|"+v.label, len(m.edges)+len(m.lines) > 0 || f.dense)
			var mm *mismatch
			p := vrt.Try(func() {
				mm = undirectSweep(v.g, v.wg, m, r.universe, self, absent, v.viewAbsent, v.merge, &r.queries)
			})
			if p != nil {
				if ab, ok := p.Value.(*mismatch); ok {
					mm = ab
				} else {
					r.violate(name+"|"+f.name+"|query-panicked", p.Msg+"\n"+p.Stack)
					return
				}
			}
			when := ""
			if pass == 1 {
				when = "|after the caller modified slices from the view"
			}
			if mm != nil {
				r.violate(name+"|"+f.name+"."+mm.query+when+"|"+mm.clause, "undirected view ("+v.label+") of the final graph: "+mm.String())
				return
			}
			if pass == 1 {
				break
			}
			// The caller modifies what the view hands out; neither the view nor
			// the wrapped graph may change.
			n := 0
			hs := []*held{{nodes: graph.NodesOf(v.g.Nodes())}}
			for _, x := range r.universe {
				hs = append(hs, &held{nodes: graph.NodesOf(v.g.From(x))})
			}
			for _, h := range hs {
				if h.len() > 0 {
					h.scramble()
					n++
				}
			}
			c.Count("ownership.slices_modified_by_the_caller", int64(n))
			if mm := r.sweep(sweepOpts{global: true}); mm != nil {
				r.violate(f.name+"."+mm.query+"|after the caller modified slices from "+name+"|"+mm.clause, mm.String())
				return
			}
		}
	}
}

// mergePairs is a Merge that is commutative in the (weight, edge) PAIRS, as the
// documentation allows ("the order of weight parameters passed to Merge is
// not defined"), but depends on which edge comes with which weight ("the
// edges corresponding to the two weights are also passed, in the same
// order"): a weight that comes with an edge counts 1000-fold, a weight that
// comes with nil counts once, and an edge whose own weight is not the weight
// it is passed with yields a sentinel.
func mergePairs(x, y float64, xe, ye graph.Edge) float64 {
	term := func(w float64, e graph.Edge) float64 {
		if e == nil {
			return w
		}
		if we, ok := e.(graph.WeightedEdge); ok && !sameW(we.Weight(), w) {
			return -987654321
		}
		return 1000 * w
	}
	return term(x, xe) + term(y, ye)
}

func undirectSweep(g graph.Undirected, wg graph.WeightedUndirected, m *model, universe []int64, self, absent, viewAbsent float64, merge func(x, y float64, xe, ye graph.Edge) float64, nq *int64) *mismatch {
	fail := func(q string, x, y int64, got, want, clause string) {
		panic(&mismatch{query: q, x: x, y: y, got: got, want: want, clause: clause})
	}
	var st itStats
	got := joinReps(drainNodes(g.Nodes(), &st))
	if want := joinReps(m.allNodes()); got != want {
		fail("Nodes", 0, 0, got, want, "differs-from-model")
	}
	for _, x := range universe {
		*nq++
		if got, want := nodeRep(g.Node(x)), m.node(x); got != want {
			fail("Node", x, 0, got, want, "differs-from-model")
		}
		var want []string
		for _, y := range universe {
			if m.arc(x, y) || m.arc(y, x) {
				want = append(want, modelNodeRep(y, m.nodes[y]))
			}
		}
		sort.Strings(want)
		st = itStats{}
		got := joinReps(drainNodes(g.From(x), &st))
		*nq++
		if len(st.probs) > 0 {
			fail("From", x, 0, got, "a well-behaved iterator", st.probs[0])
		}
		if w := joinReps(want); got != w {
			fail("From", x, 0, got, w, "differs-from-model")
		}
		for _, y := range universe {
			*nq += 3
			if got, want := g.HasEdgeBetween(x, y), m.hasEdgeBetween(x, y); got != want {
				fail("HasEdgeBetween", x, y, boolS(got), boolS(want), "differs-from-model")
			}
			fe, re := m.edge(x, y), m.edge(y, x)
			for qi, e := range []graph.Edge{g.EdgeBetween(x, y), g.Edge(x, y)} {
				q := []string{"EdgeBetween", "Edge"}[qi]
				if fe == "nil" && re == "nil" {
					if e != nil {
						fail(q, x, y, "non-nil", "nil", "differs-from-model")
					}
					continue
				}
				if e == nil {
					fail(q, x, y, "nil", "["+fe+" "+re+"]", "differs-from-model")
				}
				var pair graph.EdgePair
				switch e := e.(type) {
				case graph.EdgePair:
					pair = e
				case graph.WeightedEdgePair:
					pair = e.EdgePair
				default:
					fail(q, x, y, "unexpected edge type", "graph.EdgePair", "differs-from-model")
				}
				if g0, g1 := realEdgeRep(pair[0], false, &st), realEdgeRep(pair[1], false, &st); g0 != fe || g1 != re {
					fail(q, x, y, "["+g0+" "+g1+"]", "["+fe+" "+re+"]", "differs-from-model")
				}
			}
			if wg != nil {
				*nq += 2
				fw, fok := m.weightVal(x, y, self, absent)
				if !fok {
					fw = viewAbsent
				}
				rw, rok := m.weightVal(y, x, self, absent)
				if !rok {
					rw = viewAbsent
				}
				wantW, wantOK := (fw+rw)/2, fok || rok
				exists := fe != "nil" || re != "nil"
				if merge != nil {
					// The model's own evaluation of mergePairs: each weight is
					// paired with the edge of its own direction.
					term := func(w float64, exists bool) float64 {
						if exists {
							return 1000 * w
						}
						return w
					}
					wantW = term(fw, fe != "nil") + term(rw, re != "nil")
				}
				gw, gok := wg.Weight(x, y)
				// With an explicit Merge the weight of a pair without any edge
				// is not specified ("a merge is performed if at least one edge
				// exists"); only ok is compared there.
				if (!sameW(gw, wantW) && (merge == nil || exists)) || gok != wantOK {
					fail("Weight", x, y, weightRep(gw, gok), weightRep(wantW, wantOK), "differs-from-model")
				}
				we := wg.WeightedEdgeBetween(x, y)
				if (we != nil) != (fe != "nil" || re != "nil") {
					fail("WeightedEdgeBetween", x, y, boolS(we != nil), boolS(we == nil), "existence-differs-from-model")
				}
				if we != nil && !sameW(we.Weight(), wantW) {
					fail("WeightedEdgeBetween", x, y, weightRep(we.Weight(), true), weightRep(wantW, true), "weight-differs-from-model")
				}
			}
		}
	}
	return nil
}

func boolS(b bool) string {
	if b {
		return "true"
	}
	return "false"
}
