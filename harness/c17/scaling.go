package main

import (
	"fmt"
	"math"
	"math/bits"
	"strings"

	"gonum.org/v1/gonum/verifx/vrt"
)

// Extreme but legal magnitudes. Every transform and window is linear, so for
// data scaled by 2^+-900 (no overflow, no subnormal intermediate for the
// lengths used: the outputs stay within 2^+-(900+20)) the result must be the
// scaled result of the unscaled data to within the rounding band — here a
// flat relative 1e-8 of the output norm, five orders above the worst band of
// these lengths; on the pinned tree the scaled results are bit-identical. A
// magnitude-dependent branch, an intermediate square or hypot, or a
// normalisation by a data-dependent quantity shows up as Inf/NaN/0 or an O(1)
// difference.
const scalingRelTol = 1e-8

func checkScaling(c *vrt.Ctx) {
	cases := dirtyCases()
	lens := []int{1, 2, 3, 4, 5, 7, 8, 9, 16, 30, 49, 64, 77, 128}
	if c.Thorough() {
		lens = append(lens, 6, 10, 11, 12, 13, 25, 27, 100, 125, 200, 256, 343, 1000, 1024)
	}
	type task struct{ ci, n int }
	var tasks []task
	for ci, k := range cases {
		if strings.HasPrefix(k.name, "window.Values") || k.name == "window.NewValues" {
			continue // weights and data both come from raw: quadratic in the scale
		}
		for _, n := range lens {
			if n < k.minN || (k.pow == 2 && bits.OnesCount(uint(n)) != 1) ||
				(k.pow == 4 && (bits.OnesCount(uint(n)) != 1 || bits.TrailingZeros(uint(n))%2 != 0)) {
				continue
			}
			tasks = append(tasks, task{ci, n})
		}
	}
	vrt.Parallel(len(tasks), func(ti int) {
		k, n := cases[tasks[ti].ci], tasks[ti].n
		r := c.RNG("scaling."+k.name, n)
		raw := r.Floats(2*n+2, r.Norm)
		var base []uint64
		if p := vrt.Try(func() { base = k.run(&arena{}, n, raw) }); p != nil {
			return // reported by the dirty-buffer check
		}
		for _, e := range []int{900, -900} {
			s := math.Ldexp(1, e)
			sc := make([]float64, len(raw))
			for i, v := range raw {
				sc[i] = v * s
			}
			where := fmt.Sprintf("%s n=%d data*2^%d", k.name, n, e)
			c.LastCase("scaling " + where)
			var got []uint64
			p := vrt.Try(func() { got = k.run(&arena{}, n, sc) })
			c.Eval("scaling|"+k.name+fmt.Sprintf("|2^%d", e), n > 1)
			rep := map[string]any{"n": n, "scale_log2": e, "input_unscaled": trimF(raw[:min(len(raw), 2*n)])}
			if p != nil {
				rep["panic"] = p.Msg
				c.Violationf(k.name+"|extreme-magnitude|panic", rep, "%s panicked: %s", where, p.Msg)
				continue
			}
			if len(got) != len(base) {
				c.Violationf(k.name+"|extreme-magnitude|result-length", rep, "%s: %d result words, %d for unscaled data", where, len(got), len(base))
				continue
			}
			var num, den float64
			exact := true
			for i := range got {
				g := math.Float64frombits(got[i]) / s // exact: power of two, no subnormals
				b := math.Float64frombits(base[i])
				if g != b {
					exact = false
				}
				num += (g - b) * (g - b)
				den += b * b
			}
			if !exact {
				c.Count("scaling.not_bit_identical", 1)
			}
			if !(math.Sqrt(num) <= scalingRelTol*math.Sqrt(den)) { // also catches NaN/Inf
				rep["rel_diff"] = math.Sqrt(num) / math.Sqrt(den)
				c.Violationf(k.name+"|extreme-magnitude|not-homogeneous", rep,
					"%s: result/2^%d differs from the result for unscaled data by %.3g relative (linear routine; band %.0e)", where, e, math.Sqrt(num)/math.Sqrt(den), scalingRelTol)
			}
		}
	})
}
