// Intentionally empty: permits the body-less go:linkname declarations in link.go.
