package main

import (
	"fmt"

	"gonum.org/v1/gonum/dsp/fourier"
	"gonum.org/v1/gonum/dsp/transform"
	"gonum.org/v1/gonum/verifx/vrt"
)

// Rejected calls are part of an object's history. Every call the doc
// comments promise to reject with a panic (a sequence or non-nil destination
// of the wrong length; DCT.Reset with n <= 1) is made on a live object and
// recovered; afterwards the object must be what it was: Len() unchanged and
// every method, on the current length, bit-identical to a fresh object.
//
// Only rejections whose doc comment (read from the tree under test) contains
// a panic promise are used. Not used, because nothing is promised and the
// pinned code reconfigures the object before failing: Reset(n <= 0) of FFT,
// CmplxFFT, DST, QuarterWaveFFT (undocumented; FFT.Reset(0) dies inside
// rffti1 after resizing) and a Hilbert signal of the wrong length
// (the doc comment only promises a panic for dst).

type rejection struct {
	name string // e.g. "DCT.Reset(1)"
	file string // doc comment location
	decl string
	f    func()
}

func fourierFile(typ string) string {
	switch typ {
	case "FFT", "CmplxFFT":
		return "dsp/fourier/fourier.go"
	case "DCT", "DST":
		return "dsp/fourier/sincos.go"
	}
	return "dsp/fourier/quarter.go"
}

// wrongLens returns lengths different from n (and from avoid) that are >= 0.
func wrongLens(n int, avoid int) []int {
	var l []int
	for _, m := range []int{n - 1, n + 1, 0, 2*n + 1} {
		if m >= 0 && m != n && m != avoid {
			l = append(l, m)
		}
	}
	return l
}

func rejectionsFor(typ string, obj any, n int) []rejection {
	var rs []rejection
	file := fourierFile(typ)
	r2r := func(meth string, f func(dst, src []float64) []float64) {
		decl := fmt.Sprintf("func (t *%s) %s(", typ, meth)
		for _, m := range wrongLens(n, -1) {
			m := m
			rs = append(rs,
				rejection{fmt.Sprintf("%s.%s(src len n%+d)", typ, meth, m-n), file, decl, func() { f(nil, make([]float64, m)) }},
				rejection{fmt.Sprintf("%s.%s(dst len n%+d)", typ, meth, m-n), file, decl, func() { f(make([]float64, m), make([]float64, n)) }},
				rejection{fmt.Sprintf("%s.%s(dst=src len n%+d)", typ, meth, m-n), file, decl, func() { s := make([]float64, m); f(s, s) }})
		}
	}
	switch t := obj.(type) {
	case *fourier.FFT:
		for _, m := range wrongLens(n, -1) {
			m := m
			rs = append(rs, rejection{fmt.Sprintf("FFT.Coefficients(seq len n%+d)", m-n), file, "func (t *FFT) Coefficients(", func() { t.Coefficients(nil, make([]float64, m)) }})
		}
		for _, m := range wrongLens(n/2+1, -1) {
			m := m
			rs = append(rs,
				rejection{fmt.Sprintf("FFT.Coefficients(dst len %+d)", m-(n/2+1)), file, "func (t *FFT) Coefficients(", func() { t.Coefficients(make([]complex128, m), make([]float64, n)) }},
				rejection{fmt.Sprintf("FFT.Sequence(coeff len %+d)", m-(n/2+1)), file, "func (t *FFT) Sequence(", func() { t.Sequence(nil, make([]complex128, m)) }})
		}
		// the doc comment says dst must have "the length of coeff" (a slip for
		// t.Len()): use only lengths wrong under both readings
		for _, m := range wrongLens(n, n/2+1) {
			m := m
			rs = append(rs, rejection{fmt.Sprintf("FFT.Sequence(dst len n%+d)", m-n), file, "func (t *FFT) Sequence(", func() { t.Sequence(make([]float64, m), make([]complex128, n/2+1)) }})
		}
	case *fourier.CmplxFFT:
		for _, d := range []struct {
			meth string
			f    func(dst, src []complex128) []complex128
		}{{"Coefficients", t.Coefficients}, {"Sequence", t.Sequence}} {
			d := d
			decl := "func (t *CmplxFFT) " + d.meth + "("
			for _, m := range wrongLens(n, -1) {
				m := m
				rs = append(rs,
					rejection{fmt.Sprintf("CmplxFFT.%s(src len n%+d)", d.meth, m-n), file, decl, func() { d.f(nil, make([]complex128, m)) }},
					rejection{fmt.Sprintf("CmplxFFT.%s(dst len n%+d)", d.meth, m-n), file, decl, func() { d.f(make([]complex128, m), make([]complex128, n)) }},
					rejection{fmt.Sprintf("CmplxFFT.%s(dst=src len n%+d)", d.meth, m-n), file, decl, func() { s := make([]complex128, m); d.f(s, s) }})
			}
		}
	case *fourier.DCT:
		r2r("Transform", t.Transform)
		for _, m := range []int{1, 0, -1, -1000} {
			m := m
			rs = append(rs, rejection{fmt.Sprintf("DCT.Reset(%d)", m), file, "func (t *DCT) Reset(", func() { t.Reset(m) }})
		}
	case *fourier.DST:
		r2r("Transform", t.Transform)
	case *fourier.QuarterWaveFFT:
		r2r("CosCoefficients", t.CosCoefficients)
		r2r("CosSequence", t.CosSequence)
		r2r("SinCoefficients", t.SinCoefficients)
		r2r("SinSequence", t.SinSequence)
	case *transform.Hilbert:
		for _, m := range wrongLens(n, -1) {
			m := m
			rs = append(rs, rejection{fmt.Sprintf("Hilbert.AnalyticSignal(dst len n%+d)", m-n), "dsp/transform/hilbert.go", "func (h *Hilbert) AnalyticSignal(",
				func() { t.AnalyticSignal(make([]complex128, m), make([]float64, n)) }})
		}
	}
	return rs
}

// promised reports whether the doc comment of the rejection's routine in the
// tree under test promises a panic.
func (rj rejection) promised(c *vrt.Ctx) bool {
	says, known := docSays(rj.file, rj.decl, "panic")
	if !says || !known {
		c.Note("rejection_skipped."+rj.decl, "doc comment not readable or promises no panic")
	}
	return says && known
}

// hilbertType lets the Hilbert transformer (an FFT and a work slice behind
// one object, no Reset) share the history judgement.
var hilbertType = histType{
	name: "Hilbert", minN: 1,
	fresh:  func(n int) any { return transform.NewHilbert(n) },
	length: func(o any) int { return o.(*transform.Hilbert).Len() },
	methods: []histMethod{
		{"Hilbert.AnalyticSignal", false, func(obj any, n int, raw []float64, mode int) (res callResult) {
			src := cloneF(raw[:n])
			var dst []complex128
			if mode == dstFresh {
				dst = make([]complex128, n)
				taintC(dst)
			}
			var out []complex128
			if p := vrt.Try(func() { out = obj.(*transform.Hilbert).AnalyticSignal(dst, src) }); p != nil {
				res.panicMsg = p.Msg
				return
			}
			if len(out) != n {
				res.problems = append(res.problems, "result-length")
				return
			}
			if dst != nil && &out[0] != &dst[0] {
				res.problems = append(res.problems, "returned-slice-not-dst")
			}
			if sameBitsF(src, raw[:n]) != -1 {
				res.problems = append(res.problems, "src-modified")
			}
			if hasTaintC(out) {
				res.problems = append(res.problems, "dst-not-fully-written")
			}
			res.bits = bitsOfC(out)
			res.own(out, src)
			return
		}},
	},
}

// applyRejection makes the rejected call on obj (current length n) and
// judges the object afterwards. It returns false if the history cannot go on.
func applyRejection(c *vrt.Ctx, t histType, obj any, n int, rj rejection, r *vrt.Rand, trail string, led *ledger) bool {
	if !rj.promised(c) {
		return true
	}
	c.LastCase(fmt.Sprintf("history %s %s rejected %s", t.name, trail, rj.name))
	p := vrt.Try(rj.f)
	led.verify(c, t.name, trail+" [rejected "+rj.name+"]")
	c.Eval("history|"+t.name+"|rejected-call|"+rj.decl, true)
	rep := map[string]any{"trail": trail, "n": n, "rejected_call": rj.name}
	if p == nil {
		c.Violationf(rj.decl+"|documented-rejection|no-panic", rep, "%s (object length %d) after %s did not panic", rj.name, n, trail)
	}
	var got int
	if pl := vrt.Try(func() { got = t.length(obj) }); pl != nil || got != n {
		rep["len"] = got
		c.Violationf(t.name+".Len|after-rejected-call|changed", rep,
			"%s of length %d after %s: the recovered, documented panic of %s left Len() = %d", t.name, n, trail, rj.name, got)
		return false
	}
	tr := trail + " [rejected " + rj.name + "]"
	for _, m := range t.methods {
		mode := r.Intn(2)
		histCompare(c, t, m, obj, n, r.Floats(2*n+2, r.Norm), mode, tr, led)
	}
	return true
}

// checkRejectedCalls: every documented rejection of every type, on objects
// that are fresh, that were Reset down from a larger length, and that were
// already used, for a list of lengths.
func checkRejectedCalls(c *vrt.Ctx) {
	types := append(append([]histType(nil), histTypes...), hilbertType)
	lens := []int{1, 2, 3, 4, 5, 7, 8, 12, 16, 17, 30, 49, 64, 100}
	if c.Thorough() {
		lens = append(lens, 6, 9, 10, 11, 13, 27, 77, 128, 343, 1000, 2053)
	}
	type task struct{ ti, n, prep int }
	var tasks []task
	for ti := range types {
		for _, n := range lens {
			if n < types[ti].minN {
				continue
			}
			for prep := 0; prep < 3; prep++ {
				tasks = append(tasks, task{ti, n, prep})
			}
		}
	}
	vrt.Parallel(len(tasks), func(k int) {
		t, n, prep := types[tasks[k].ti], tasks[k].n, tasks[k].prep
		r := c.RNG("history.rejected."+t.name, n, prep)
		obj := t.fresh(n)
		trail := fmt.Sprintf("New(%d)", n)
		led := newLedger(r)
		switch {
		case prep == 1 && t.reset != nil:
			obj = t.fresh(3*n + 5)
			t.reset(obj, n)
			trail = fmt.Sprintf("New(%d) Reset(%d)", 3*n+5, n)
		case prep == 2:
			for _, m := range t.methods {
				histCompare(c, t, m, obj, n, r.Floats(2*n+2, r.Norm), dstNil, trail, led)
				trail += " " + m.name
			}
		}
		rjs := rejectionsFor(t.name, obj, n)
		for i := 0; i < len(rjs); i++ {
			if !applyRejection(c, t, obj, n, rjs[i], r, trail, led) {
				// continue with a new object so that the remaining rejections are still judged
				obj = t.fresh(n)
				rjs = rejectionsFor(t.name, obj, n)
			}
		}
	})
}
