package main

import (
	"fmt"
	"math"
	"math/bits"

	"gonum.org/v1/gonum/dsp/fourier"
	"gonum.org/v1/gonum/verifx/vrt"
)

// The radix-2 / radix-4 free functions compute their twiddles lazily "by
// successive multiplication, so numerical [in]accuracies can accumulate for
// large inputs" (doc comment): w is multiplied up to n/2 times by f within a
// stage. The twiddles do not depend on the data, and only the 17 (9) lengths
// 2^k <= 2^16 are in scope, so the growth is measured, not bounded a priori:
// the normwise error follows sqrt(n)*log2(n) (ratio 0.3 .. 0.8 from n = 4 to
// n = 65536). A wrong twiddle, stage order or (pair-)reversal permutation is
// an O(1) relative error.
const cRadix = 150.0 // worst observed ratio 0.8 against the defining sum (n = 4096), 1.2 against CmplxFFT (n = 16384)

func shapeRadix(n int) float64 { return math.Sqrt(float64(n))*(1+log2f(n)) + 2 }

func checkRadix(c *vrt.Ctx) {
	maxLog := c.Pick(12, 16)
	type rdx struct {
		name     string
		inverse  bool
		f        func([]complex128) []complex128
		ok       func(n int) bool
		nonPanic string
	}
	pow2 := func(n int) bool { return n > 0 && bits.OnesCount(uint(n)) == 1 }
	pow4 := func(n int) bool { return pow2(n) && bits.TrailingZeros(uint(n))%2 == 0 }
	kinds := []rdx{
		{"CoefficientsRadix2", false, fourier.CoefficientsRadix2, pow2, ""},
		{"SequenceRadix2", true, fourier.SequenceRadix2, pow2, ""},
		{"CoefficientsRadix4", false, fourier.CoefficientsRadix4, pow4, ""},
		{"SequenceRadix4", true, fourier.SequenceRadix4, pow4, ""},
	}
	type task struct {
		k   int
		lg  int
		rep int
	}
	var tasks []task
	for ki := range kinds {
		for lg := maxLog; lg >= 0; lg-- {
			if !kinds[ki].ok(1 << lg) {
				continue
			}
			reps := 1
			if lg <= 8 {
				reps = 4
			}
			for rep := 0; rep < reps; rep++ {
				tasks = append(tasks, task{ki, lg, rep})
			}
		}
	}
	vrt.Parallel(len(tasks), func(ti int) {
		k, n, rep := kinds[tasks[ti].k], 1<<tasks[ti].lg, tasks[ti].rep
		r := c.RNG("radix."+k.name, n, rep)
		z := randC(r, n)
		inName := "rand"
		switch rep {
		case 2: // impulse
			for i := range z {
				z[i] = 0
			}
			z[r.Intn(n)] = complex(1, -1)
			inName = "impulse"
		case 3: // tone
			b := r.Intn(n)
			for j := range z {
				cs, sn := cosSinPi(2*int64(b)*int64(j), int64(n))
				z[j] = complex(cs, sn)
			}
			inName = "tone"
		}
		where := fmt.Sprintf("%s n=%d in=%s", k.name, n, inName)
		c.LastCase(where)
		work := cloneC(z)
		var got []complex128
		p := vrt.Try(func() { got = k.f(work) })
		c.Eval(k.name+"|"+inName+fmt.Sprintf("|log2n=%d", tasks[ti].lg), n > 4)
		if p != nil {
			c.Violationf(k.name+"|pow|panic", map[string]any{"n": n, "panic": p.Msg, "stack": p.Stack}, "%s panicked: %s", where, p.Msg)
			return
		}
		if len(got) != n || (n > 0 && &got[0] != &work[0]) {
			c.Violationf(k.name+"|pow|not-in-place", map[string]any{"n": n}, "%s: result is not the argument slice", where)
			return
		}
		o := newOracle(n)
		sign := -1.0
		if k.inverse {
			sign = 1
		}
		idx := allIdx(n)
		if n > 4096 {
			idx = outIdx(r, n)
		}
		ref := o.dftCmplx(z, sign, idx)
		zn := norm2c(z)
		band := cRadix * shapeRadix(n) * u * math.Sqrt(float64(n)) * zn
		if err := errNormC(got, ref, idx); !within(calibName(k.name, n), err, band, where) {
			c.Violationf(k.name+"|pow|defining-sum", map[string]any{"n": n, "z": trimC(z), "got": trimC(got), "want_at_idx": trimC(ref)},
				"%s: ||got-sum||_2 = %.3g exceeds band %.3g", where, err, band)
		}
		c.Digest(fmt.Sprintf("%s|n=%d|%d", k.name, n, rep), "exact", bitsOfC(got)...)
		// fast path equals the general path (CmplxFFT), complete output
		var gen []complex128
		if k.inverse {
			gen = fourier.NewCmplxFFT(n).Sequence(nil, z)
		} else {
			gen = fourier.NewCmplxFFT(n).Coefficients(nil, z)
		}
		c.Eval("CmplxFFT|radix-compare", n > 1)
		if err := errNormC(got, gen, allIdx(n)); !within(k.name+"-vs-CmplxFFT", err, band+cCmplx*shapeC(n)*u*math.Sqrt(float64(n))*zn, where) {
			c.Violationf(k.name+"|pow|disagrees-with-CmplxFFT", map[string]any{"n": n, "z": trimC(z), "radix": trimC(got), "general": trimC(gen)},
				"%s: differs from CmplxFFT by %.3g", where, err)
		}
	})

	// domain: lengths that are not a power of 2 (4) must panic (documented);
	// 0 and 1 are returned unchanged.
	for _, k := range kinds {
		for n := 0; n <= 70; n++ {
			z := randC(c.RNG("radix.domain", n), n)
			keep := cloneC(z)
			var got []complex128
			p := vrt.Try(func() { got = k.f(z) })
			legal := n <= 1 || k.ok(n)
			c.Eval(k.name+"|domain|"+fmt.Sprint(legal), true)
			switch {
			case !legal && p == nil:
				c.Violationf(k.name+"|non-power-length|no-panic", map[string]any{"n": n}, "%s accepted length %d (documented: will panic)", k.name, n)
			case legal && p != nil:
				c.Violationf(k.name+"|pow|panic", map[string]any{"n": n, "panic": p.Msg}, "%s(n=%d) panicked: %s", k.name, n, p.Msg)
			case n <= 1 && sameBitsC(got, keep) != -1:
				c.Violationf(k.name+"|n<=1|modified", map[string]any{"n": n}, "%s changed a length-%d sequence", k.name, n)
			}
		}
	}
	checkPadTrim(c)
}

func checkPadTrim(c *vrt.Ctx) {
	maxLen := c.Pick(1100, 70000)
	for n := 0; n <= maxLen; n++ {
		if n > 1100 && !(bits.OnesCount(uint(n)) == 1 || bits.OnesCount(uint(n-1)) == 1 || bits.OnesCount(uint(n+1)) == 1 || n%977 == 0) {
			continue
		}
		x := make([]complex128, n, n+3)
		for i := range x {
			x[i] = complex(float64(i+1), -float64(i+1))
		}
		for _, radix := range []int{2, 4} {
			name := fmt.Sprintf("PadRadix%d", radix)
			var pad func([]complex128) []complex128 = fourier.PadRadix2
			var trim func([]complex128) ([]complex128, []complex128) = fourier.TrimRadix2
			if radix == 4 {
				pad, trim = fourier.PadRadix4, fourier.TrimRadix4
			}
			isPow := func(m int) bool {
				if m <= 0 || bits.OnesCount(uint(m)) != 1 {
					return false
				}
				return radix == 2 || bits.TrailingZeros(uint(m))%2 == 0
			}
			// Pad
			var p []complex128
			c.LastCase(fmt.Sprintf("%s len=%d", name, n))
			if pn := vrt.Try(func() { p = pad(x) }); pn != nil {
				c.Violationf(name+"|any|panic", map[string]any{"len": n, "panic": pn.Msg}, "%s(len %d) panicked: %s", name, n, pn.Msg)
			} else {
				c.Eval(name+"|"+fmt.Sprint(isPow(n)), n > 0)
				want := n
				if n > 0 && !isPow(n) {
					want = radix
					for want < n {
						want *= radix
					}
				}
				switch {
				case len(p) != want:
					c.Violationf(name+"|any|wrong-length", map[string]any{"len": n, "got": len(p), "want": want}, "%s(len %d) has length %d, want the next power %d", name, n, len(p), want)
				case (n == 0 || isPow(n)) && n > 0 && &p[0] != &x[0]:
					c.Violationf(name+"|power-length|not-returned-unaltered", map[string]any{"len": n}, "%s(len %d): a power-length argument must be returned itself", name, n)
				default:
					bad := false
					for i := range p {
						w := complex128(0)
						if i < n {
							w = x[i]
						}
						if p[i] != w {
							bad = true
						}
					}
					for i := range x {
						if x[i] != complex(float64(i+1), -float64(i+1)) {
							bad = true
						}
					}
					if bad {
						c.Violationf(name+"|any|wrong-content", map[string]any{"len": n}, "%s(len %d): result is not x followed by zeros (or x was modified)", name, n)
					}
				}
			}
			// Trim
			tname := fmt.Sprintf("TrimRadix%d", radix)
			var ev, rem []complex128
			if pn := vrt.Try(func() { ev, rem = trim(x) }); pn != nil {
				c.Violationf(tname+"|any|panic", map[string]any{"len": n, "panic": pn.Msg}, "%s(len %d) panicked: %s", tname, n, pn.Msg)
				continue
			}
			c.Eval(tname+"|"+fmt.Sprint(isPow(n)), n > 0)
			want := 0
			if n > 0 {
				want = 1
				for want*radix <= n {
					want *= radix
				}
			}
			switch {
			case len(ev) != want || len(rem) != n-want:
				c.Violationf(tname+"|any|wrong-split", map[string]any{"len": n, "even": len(ev), "remains": len(rem), "want": want},
					"%s(len %d) = (%d, %d), want the largest power %d and the rest", tname, n, len(ev), len(rem), want)
			case want > 0 && &ev[0] != &x[0], len(rem) > 0 && &rem[0] != &x[want]:
				c.Violationf(tname+"|any|not-slices-of-x", map[string]any{"len": n}, "%s(len %d): results are not sub-slices of x", tname, n)
			}
		}
	}
}
