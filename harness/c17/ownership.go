package main

import (
	"math"
	"unsafe"

	"gonum.org/v1/gonum/dsp/fourier"
	"gonum.org/v1/gonum/dsp/window"
	"gonum.org/v1/gonum/verifx/vrt"
)

// Ownership: a slice a method returns belongs to the caller (with dst == nil
// it is a new allocation, with a caller dst it is that dst), and the src the
// caller passed stays the caller's. The ledger lives for one object history:
//
//	(a) a returned slice that the caller keeps must stay bit-identical to its
//	    snapshot through every later call on the object — other methods, other
//	    data, Reset to any length, rejected calls;
//	(b) scribbling over a returned slice and over the src afterwards must not
//	    change what the object computes next (judged by the usual comparison
//	    with a fresh object);
//	(c) a newly returned slice must not share memory with a slice an earlier
//	    call returned (every call of the harness passes its own src/dst).
//
// Each result is either kept (a) or scribbled (b), by a seeded coin.
type ledger struct {
	r    *vrt.Rand
	kept []keptSlice
}

type keptSlice struct {
	f      []float64
	c      []complex128
	snap   []uint64
	method string
	dst    string
	lo, hi uintptr
}

const ledgerCap = 6

func newLedger(r *vrt.Rand) *ledger { return &ledger{r: r} }

func extentOf(f []float64, z []complex128) (lo, hi uintptr) {
	switch {
	case len(f) > 0:
		lo = uintptr(unsafe.Pointer(&f[0]))
		hi = lo + uintptr(len(f))*8
	case len(z) > 0:
		lo = uintptr(unsafe.Pointer(&z[0]))
		hi = lo + uintptr(len(z))*16
	}
	return
}

func (k keptSlice) bits() []uint64 {
	if k.f != nil {
		return vrt.Bits(k.f)
	}
	return bitsOfC(k.c)
}

// verify checks every kept slice against its snapshot.
func (l *ledger) verify(c *vrt.Ctx, typ, after string) {
	if l == nil {
		return
	}
	live := l.kept[:0]
	for _, k := range l.kept {
		now := k.bits()
		bad := -1
		for i := range now {
			if now[i] != k.snap[i] {
				bad = i
				break
			}
		}
		if bad >= 0 {
			c.Violationf(k.method+"|returned-slice|overwritten-by-later-call",
				map[string]any{"history": after, "dst": k.dst, "word": bad, "was": math.Float64frombits(k.snap[bad]), "now": math.Float64frombits(now[bad])},
				"a slice returned by %s (dst=%s) and kept by the caller changed at word %d after a later operation on the same %s object: %s", k.method, k.dst, bad, typ, after)
			continue
		}
		live = append(live, k)
	}
	l.kept = live
}

// shares reports a newly returned slice that overlaps a kept one (checked
// before verify, which drops kept slices that were overwritten).
func (l *ledger) shares(c *vrt.Ctx, method, dst, trail string, res *callResult) {
	if l == nil || res.panicMsg != "" {
		return
	}
	lo, hi := extentOf(res.outF, res.outC)
	if hi == lo {
		return
	}
	for _, k := range l.kept {
		if lo < k.hi && k.lo < hi {
			c.Violationf(method+"|returned-slice|shares-memory-with-earlier-result",
				map[string]any{"history": trail, "dst": dst, "earlier": k.method, "earlier_dst": k.dst},
				"the slice returned by %s (dst=%s) after %s overlaps the slice an earlier %s (dst=%s) call returned", method, dst, trail, k.method, k.dst)
			return
		}
	}
}

// admit takes the result of a call: keep it or scribble over it.
func (l *ledger) admit(c *vrt.Ctx, method, dst, trail string, res *callResult) {
	if l == nil || res.panicMsg != "" || (res.outF == nil && res.outC == nil) {
		return
	}
	lo, hi := extentOf(res.outF, res.outC)
	c.Eval("ownership|"+method+"|dst="+dst, true)
	if l.r.Bool() {
		k := keptSlice{f: res.outF, c: res.outC, method: method, dst: dst, lo: lo, hi: hi}
		k.snap = k.bits()
		if len(l.kept) >= ledgerCap {
			l.kept = l.kept[1:]
		}
		l.kept = append(l.kept, k)
		return
	}
	// (b) the caller overwrites what it owns
	for i := range res.outF {
		res.outF[i] = 1e9 + float64(i)
	}
	for i := range res.outC {
		res.outC[i] = complex(1e9+float64(i), -1e9)
	}
	for i := range res.srcF {
		res.srcF[i] = -3e9 - float64(i)
	}
	for i := range res.srcC {
		res.srcC[i] = complex(-3e9, 7e9+float64(i))
	}
}

// checkOwnershipStateless: the allocating free functions return fresh memory
// on every call: PadRadix2/4 of a non-power length (distinct from x and from
// each other, and later writes to one do not show in the other), NewValues.
func checkOwnershipStateless(c *vrt.Ctx) {
	for n := 1; n <= c.Pick(130, 600); n++ {
		x := randC(c.RNG("ownership.pad", n), n)
		for name, pad := range map[string]func([]complex128) []complex128{"PadRadix2": fourier.PadRadix2, "PadRadix4": fourier.PadRadix4} {
			var a, b []complex128
			if p := vrt.Try(func() { a = pad(x); b = pad(x) }); p != nil || len(a) == 0 || len(a) == len(x) {
				continue // power length: x itself is returned (documented)
			}
			c.EvalN("ownership|"+name, 2, true)
			keep := cloneC(a)
			for i := range b {
				b[i] = complex(5e9, float64(i))
			}
			x[0] = complex(-1, -1)
			if sameBitsC(a, keep) != -1 {
				c.Violationf(name+"|returned-slice|shares-memory-with-earlier-result", map[string]any{"len": n},
					"%s(len %d): writing to a second result or to x changed the first result", name, n)
			}
			x[0] = keep[0]
		}
		if n >= 2 {
			var a, b window.Values
			if p := vrt.Try(func() { a = window.NewValues(window.Hamming, n); b = window.NewValues(window.Hamming, n) }); p == nil {
				c.EvalN("ownership|window.NewValues", 2, true)
				keep := cloneF(a)
				for i := range b {
					b[i] = 5e9
				}
				b.Transform(make([]float64, n))
				if sameBitsF(a, keep) != -1 {
					c.Violationf("window.NewValues|returned-slice|shares-memory-with-earlier-result", map[string]any{"N": n},
						"window.NewValues(N=%d): writing to a second result changed the first", n)
				}
			}
		}
	}
}
