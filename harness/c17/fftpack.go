package main

import (
	"fmt"
	"math"

	"gonum.org/v1/gonum/dsp/fourier"
	"gonum.org/v1/gonum/verifx/vrt"
)

// The internal FFTPACK entry points are driven directly, with work arrays of
// exactly the documented minimum size, so that a work-array layout or
// initialisation error is seen at its source:
//
//   - the result on a work array that held garbage before X..i(n) must be
//     bit-identical to the result on a zeroed one (otherwise the routine reads
//     words its initialiser never wrote — the mechanism behind a transform
//     object whose answer depends on its Reset history);
//   - nothing beyond the documented extents n / 2n / 3n / 4n / ceil(2.5n) / 15
//     may be written (canaries in the slack capacity and in the tail of over-long
//     arguments);
//   - the output, read in the layout the doc comments define, must match the
//     defining sum, and the exported fourier API must be a pure re-packing of
//     it (bit-identical).

const canaryWords = 24

// guarded returns a slice of length n whose backing array continues with
// canaryWords taint NaNs (reachable only by re-slicing beyond len).
func guarded(n int, fill func(i int) float64) []float64 {
	b := make([]float64, n+canaryWords)
	for i := 0; i < n; i++ {
		b[i] = fill(i)
	}
	for i := n; i < len(b); i++ {
		b[i] = vrt.Taint(i)
	}
	return b[:n:len(b)]
}

func canaryIntact(s []float64) bool {
	b := s[:cap(s)]
	for i := len(s); i < len(b); i++ {
		if math.Float64bits(b[i]) != math.Float64bits(vrt.Taint(i)) {
			return false
		}
	}
	return true
}

type packKind struct {
	name    string // family, e.g. "Rfft"
	minN    int
	workLen func(n int) int
	xLen    func(n int) int
	init    func(n int, work []float64, ifac []int)
	// routines of the family: name, function, and the exported-API equivalent
	routines []packRoutine
}

type packRoutine struct {
	name string
	run  func(n int, x, work []float64, ifac []int)
	// api computes the same transform through the exported fourier API from
	// the same input words x (len xLen) and returns it in the same layout.
	api func(n int, x []float64) []float64
	// check compares the output words with the defining sum.
	check func(c *vrt.Ctx, n int, o *oracle, in, out []float64, where, cls string)
}

func halfComplexToC(n int, r []float64) []complex128 {
	z := make([]complex128, n/2+1)
	z[0] = complex(r[0], 0)
	for k := 1; k < (n+1)/2; k++ {
		z[k] = complex(r[2*k-1], r[2*k])
	}
	if n%2 == 0 && n > 1 {
		z[n/2] = complex(r[n-1], 0)
	}
	return z
}

func cToHalfComplex(n int, z []complex128) []float64 {
	r := make([]float64, n)
	r[0] = real(z[0])
	for k := 1; k < (n+1)/2; k++ {
		r[2*k-1], r[2*k] = real(z[k]), imag(z[k])
	}
	if n%2 == 0 && n > 1 {
		r[n-1] = real(z[n/2])
	}
	return r
}

func pairsToC(x []float64) []complex128 { return rawToC(x, len(x)/2) }

func cToPairs(z []complex128) []float64 {
	x := make([]float64, 2*len(z))
	for i, v := range z {
		x[2*i], x[2*i+1] = real(v), imag(v)
	}
	return x
}

func packSum(name string, shape func(n int) float64, cc, k float64,
	ref func(o *oracle, in []float64, n int) []float64) func(c *vrt.Ctx, n int, o *oracle, in, out []float64, where, cls string) {
	return func(c *vrt.Ctx, n int, o *oracle, in, out []float64, where, cls string) {
		want := ref(o, in, n)
		var e float64
		for i := range want {
			d := out[i] - want[i]
			e += d * d
		}
		e = math.Sqrt(e)
		band := cc * shape(n) * u * k * math.Sqrt(float64(n)) * norm2(in)
		if !within("fftpack."+name, e, band, where) {
			c.Violationf("fftpack."+name+"|"+cls+"|defining-sum", map[string]any{"n": n, "in": trimF(in), "out": trimF(out), "want": trimF(want)},
				"%s: ||out-sum||_2 = %.3g exceeds band %.3g", where, e, band)
		}
	}
}

func r2rShape(name string) func(n int) float64 {
	k := r2rByName(name)
	return k.shape
}

var packKinds = []packKind{
	{
		name: "Rfft", minN: 1,
		workLen: func(n int) int { return 2 * n },
		xLen:    func(n int) int { return n },
		init:    fpRffti,
		routines: []packRoutine{
			{"Rfftf", fpRfftf,
				func(n int, x []float64) []float64 { return cToHalfComplex(n, fourier.NewFFT(n).Coefficients(nil, x)) },
				packSum("Rfftf", shapeR, cReal, 1, func(o *oracle, in []float64, n int) []float64 {
					return cToHalfComplex(n, o.dftReal(in, allIdx(n/2+1)))
				})},
			{"Rfftb", fpRfftb,
				func(n int, x []float64) []float64 { return fourier.NewFFT(n).Sequence(nil, halfComplexToC(n, x)) },
				packSum("Rfftb", shapeR, cReal, 2, func(o *oracle, in []float64, n int) []float64 {
					return o.realSeq(halfComplexToC(n, in), allIdx(n))
				})},
		},
	},
	{
		name: "Cfft", minN: 1,
		workLen: func(n int) int { return 4 * n },
		xLen:    func(n int) int { return 2 * n },
		init:    fpCffti,
		routines: []packRoutine{
			{"Cfftf", fpCfftf,
				func(n int, x []float64) []float64 {
					return cToPairs(fourier.NewCmplxFFT(n).Coefficients(nil, pairsToC(x)))
				},
				packSum("Cfftf", shapeC, cCmplx, 1, func(o *oracle, in []float64, n int) []float64 {
					return cToPairs(o.dftCmplx(pairsToC(in), -1, allIdx(n)))
				})},
			{"Cfftb", fpCfftb,
				func(n int, x []float64) []float64 { return cToPairs(fourier.NewCmplxFFT(n).Sequence(nil, pairsToC(x))) },
				packSum("Cfftb", shapeC, cCmplx, 1, func(o *oracle, in []float64, n int) []float64 {
					return cToPairs(o.dftCmplx(pairsToC(in), +1, allIdx(n)))
				})},
		},
	},
	{
		name: "Cost", minN: 2,
		workLen: func(n int) int { return 3 * n },
		xLen:    func(n int) int { return n },
		init:    fpCosti,
		routines: []packRoutine{
			{"Cost", fpCost,
				func(n int, x []float64) []float64 { return fourier.NewDCT(n).Transform(nil, x) },
				packSum("Cost", r2rShape("DCT.Transform"), cCosSin, 2, func(o *oracle, in []float64, n int) []float64 { return o.dct1(in, allIdx(n)) })},
		},
	},
	{
		name: "Sint", minN: 1,
		workLen: func(n int) int { return 5 * (n + 1) / 2 },
		xLen:    func(n int) int { return n },
		init:    fpSinti,
		routines: []packRoutine{
			{"Sint", fpSint,
				func(n int, x []float64) []float64 { return fourier.NewDST(n).Transform(nil, x) },
				packSum("Sint", r2rShape("DST.Transform"), cCosSin, 2, func(o *oracle, in []float64, n int) []float64 { return o.dst1(in, allIdx(n)) })},
		},
	},
	{
		name: "Cosq", minN: 1,
		workLen: func(n int) int { return 3 * n },
		xLen:    func(n int) int { return n },
		init:    fpCosqi,
		routines: []packRoutine{
			{"Cosqf", fpCosqf,
				func(n int, x []float64) []float64 { return fourier.NewQuarterWaveFFT(n).CosCoefficients(nil, x) },
				packSum("Cosqf", shapeR, cQuarter, 2, func(o *oracle, in []float64, n int) []float64 { return o.cosqf(in, allIdx(n)) })},
			{"Cosqb", fpCosqb,
				func(n int, x []float64) []float64 { return fourier.NewQuarterWaveFFT(n).CosSequence(nil, x) },
				packSum("Cosqb", shapeR, cQuarter, 4, func(o *oracle, in []float64, n int) []float64 { return o.cosqb(in, allIdx(n)) })},
		},
	},
	{
		name: "Sinq", minN: 1,
		workLen: func(n int) int { return 3 * n },
		xLen:    func(n int) int { return n },
		init:    fpSinqi,
		routines: []packRoutine{
			{"Sinqf", fpSinqf,
				func(n int, x []float64) []float64 { return fourier.NewQuarterWaveFFT(n).SinCoefficients(nil, x) },
				packSum("Sinqf", shapeR, cQuarter, 2, func(o *oracle, in []float64, n int) []float64 { return o.sinqf(in, allIdx(n)) })},
			{"Sinqb", fpSinqb,
				func(n int, x []float64) []float64 { return fourier.NewQuarterWaveFFT(n).SinSequence(nil, x) },
				packSum("Sinqb", shapeR, cQuarter, 4, func(o *oracle, in []float64, n int) []float64 { return o.sinqb(in, allIdx(n)) })},
		},
	},
}

func checkFFTPack(c *vrt.Ctx) {
	maxN := c.Pick(160, 600)
	extra := []int{625, 729, 1001, 1024, 1331, 2048, 2187, 2310}
	type task struct {
		n  int
		ki int
	}
	var tasks []task
	for ki := range packKinds {
		for n := maxN; n >= 1; n-- {
			tasks = append(tasks, task{n, ki})
		}
		if c.Thorough() {
			for _, n := range extra {
				tasks = append(tasks, task{n, ki})
			}
		}
	}
	vrt.Parallel(len(tasks), func(ti int) {
		n, k := tasks[ti].n, packKinds[tasks[ti].ki]
		if n < k.minN {
			return
		}
		o := newOracle(n)
		r := c.RNG("fftpack."+k.name, n)
		garbage := r.Floats(k.workLen(n), func() float64 { return 1e3 * r.Norm() })

		// three initial states of the work array: zero, finite garbage, taint NaN
		mkWork := func(state int) []float64 {
			return guarded(k.workLen(n), func(i int) float64 {
				switch state {
				case 1:
					return garbage[i]
				case 2:
					return vrt.Taint(i)
				}
				return 0
			})
		}
		var works [3][]float64
		var ifacs [3][]int
		for st := 0; st < 3; st++ {
			works[st] = mkWork(st)
			ifacs[st] = make([]int, 15, 15+4)
			full := ifacs[st][:cap(ifacs[st])]
			for i := range full {
				full[i] = -7777 - st
			}
			c.LastCase(fmt.Sprintf("fftpack %si n=%d workstate=%d", k.name, n, st))
			if p := vrt.Try(func() { k.init(n, works[st], ifacs[st]) }); p != nil {
				c.Violationf("fftpack."+k.name+"i|"+pathClass(n)+"|panic", map[string]any{"n": n, "panic": p.Msg, "stack": p.Stack},
					"%si(n=%d) on a work array of the documented size %d panicked: %s", k.name, n, k.workLen(n), p.Msg)
				return
			}
			c.Eval("fftpack."+k.name+"i|"+factorize(n).class(), n > 1)
			if !canaryIntact(works[st]) {
				c.Violationf("fftpack."+k.name+"i|"+pathClass(n)+"|writes-beyond-work", map[string]any{"n": n}, "%si(n=%d) wrote beyond work[:%d]", k.name, n, k.workLen(n))
			}
			for i := 15; i < len(full); i++ {
				if full[i] != -7777-st {
					c.Violationf("fftpack."+k.name+"i|"+pathClass(n)+"|writes-beyond-ifac", map[string]any{"n": n}, "%si(n=%d) wrote beyond ifac[:15]", k.name, n)
				}
			}
		}
		for _, rt := range k.routines {
			cls := pathClass(n)
			where := fmt.Sprintf("fftpack.%s n=%d", rt.name, n)
			xl := k.xLen(n)
			in := r.Floats(xl, r.Norm)
			// (for Rfftb every half-complex word vector is a valid spectrum)
			var outs [3][]float64
			ok := true
			for st := 0; st < 3 && ok; st++ {
				// x is over-long by 3 words: they are not part of the sequence
				x := guarded(xl+3, func(i int) float64 {
					if i < xl {
						return in[i]
					}
					return vrt.Taint(1000 + i)
				})
				c.LastCase(fmt.Sprintf("%s workstate=%d", where, st))
				// work arrays are reused by the second routine of the family: that is the documented use
				if p := vrt.Try(func() { rt.run(n, x, works[st], ifacs[st]) }); p != nil {
					c.Violationf("fftpack."+rt.name+"|"+cls+"|panic", map[string]any{"n": n, "workstate": st, "panic": p.Msg, "stack": p.Stack},
						"%s (work initially state %d) panicked: %s", where, st, p.Msg)
					ok = false
					break
				}
				c.Eval("fftpack."+rt.name+"|"+factorize(n).class()+fmt.Sprintf("|work%d", st), n > 1)
				for i := xl; i < xl+3; i++ {
					if math.Float64bits(x[i]) != math.Float64bits(vrt.Taint(1000+i)) {
						c.Violationf("fftpack."+rt.name+"|"+cls+"|writes-beyond-sequence", map[string]any{"n": n}, "%s modified x[%d] of an over-long argument", where, i)
						break
					}
				}
				if !canaryIntact(x) || !canaryIntact(works[st]) {
					c.Violationf("fftpack."+rt.name+"|"+cls+"|writes-beyond-work", map[string]any{"n": n}, "%s wrote beyond the documented extent of x or work", where)
				}
				outs[st] = cloneF(x[:xl])
			}
			if !ok {
				continue
			}
			if i := sameBitsF(outs[1], outs[0]); i != -1 {
				c.Violationf("fftpack."+rt.name+"|"+cls+"|reads-uninitialised-work", map[string]any{"n": n, "in": trimF(in), "index": i},
					"%s: result word %d depends on what the work array held before %si (zero vs finite garbage)", where, i, k.name)
			} else if i := sameBitsF(outs[2], outs[0]); i != -1 {
				// NaN garbage changes the result but finite garbage does not:
				// an uninitialised word is read and multiplied by an exact zero.
				c.Count("fftpack.masked_uninitialised_reads."+rt.name, 1)
			}
			if hasNaNF(outs[0]) {
				c.Violationf("fftpack."+rt.name+"|"+cls+"|non-finite", map[string]any{"n": n, "in": trimF(in)}, "%s: non-finite output on finite input", where)
				continue
			}
			rt.check(c, n, o, in, outs[0], where, cls)
			// exported API = re-packing of this output
			var viaAPI []float64
			if p := vrt.Try(func() { viaAPI = rt.api(n, cloneF(in)) }); p == nil {
				c.Eval("fftpack."+rt.name+"|api-equivalence", n > 1)
				if i := sameBitsF(viaAPI, outs[0]); i != -1 {
					c.Violationf("fftpack."+rt.name+"|"+cls+"|api-repacking-differs", map[string]any{"n": n, "in": trimF(in), "index": i, "direct": trimF(outs[0]), "api": trimF(viaAPI)},
						"%s: the exported fourier API returns different bits at word %d than the direct call (packing error)", where, i)
				}
			}
			c.Digest(fmt.Sprintf("fftpack.%s|n=%d", rt.name, n), "exact", vrt.Bits(outs[0])...)
		}
		// factor table: ifac[0] = n, ifac[1] = nf, product of the factors = n
		// (Sint/Cost factor n+1 / n-1; small n return before factoring)
		fn := n
		switch k.name {
		case "Cost":
			fn = n - 1
			if n < 4 {
				fn = 0
			}
		case "Sint":
			fn = n + 1
			if n <= 1 {
				fn = 0
			}
		}
		if fn > 1 {
			f := ifacs[0]
			prod := 1
			okf := f[0] == fn && f[1] >= 1 && f[1] <= 13
			if okf {
				for i := 0; i < f[1]; i++ {
					prod *= f[2+i]
				}
			}
			if !okf || prod != fn {
				c.Violationf("fftpack."+k.name+"i|"+pathClass(fn)+"|bad-factor-table", map[string]any{"n": n, "ifac": f},
					"%si(n=%d): ifac = %v is not a factorisation of %d", k.name, n, f, fn)
			}
		}
	})
}
