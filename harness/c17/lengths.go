package main

import (
	"sort"

	"gonum.org/v1/gonum/verifx/vrt"
)

func isPrime(n int) bool {
	if n < 2 {
		return false
	}
	for p := 2; p*p <= n; p++ {
		if n%p == 0 {
			return false
		}
	}
	return true
}

// smoothUpTo returns all 2^a 3^b 5^c in [lo,hi].
func smoothUpTo(lo, hi int) []int {
	var out []int
	for a := 1; a <= hi; a *= 2 {
		for b := a; b <= hi; b *= 3 {
			for c := b; c <= hi; c *= 5 {
				if c >= lo {
					out = append(out, c)
				}
			}
		}
	}
	sort.Ints(out)
	return out
}

// lengthPlan is the list of lengths of one tier: every n in 1..exh, plus
// lengths sampled (seeded) from five pools that cover each factor pattern of
// the mixed-radix passes.
type lengthPlan struct {
	exh     int
	sampled []int
}

func (p lengthPlan) all() []int {
	l := make([]int, 0, p.exh+len(p.sampled))
	for n := 1; n <= p.exh; n++ {
		l = append(l, n)
	}
	return append(l, p.sampled...)
}

func planLengths(c *vrt.Ctx) lengthPlan {
	exh := c.Pick(128, 512)
	hi := c.Pick(4200, 10000)
	per := c.Pick(8, 30) // per sampled pool
	lo := exh + 1
	r := c.RNG("lengths")

	set := map[int]bool{}
	add := func(n int) {
		if n >= lo && n <= hi {
			set[n] = true
		}
	}
	// fixed: pure powers (radix-4/2, 3, 5 repeated) and a few landmarks
	for _, b := range []int{2, 3, 5, 7} {
		for n := b; n <= hi; n *= b {
			add(n)
		}
	}
	for _, n := range []int{1000, 1001, 2047, 2187, 4095, 4097, 9973, 10000} {
		add(n)
	}
	// large prime factors: the general-radix recurrences of the real
	// transform run over more than 1024 steps
	add(2053)
	if c.Thorough() {
		add(4099)
		add(2 * 2053)
		add(3 * 2053)
	}
	pick := func(pool []int, k int) {
		if len(pool) == 0 {
			return
		}
		for i := 0; i < k; i++ {
			add(pool[r.Intn(len(pool))])
		}
	}
	// pool A: primes (one general-radix pass of the full length)
	var primes, smallPrimes []int
	for n := 7; n <= hi; n++ {
		if isPrime(n) {
			if n >= lo {
				primes = append(primes, n)
			}
			if n <= 101 {
				smallPrimes = append(smallPrimes, n)
			}
		}
	}
	// large primes are expensive in gonum itself (O(n^2) pass): keep most
	// samples in the lower half
	var lowPrimes []int
	for _, p := range primes {
		if p <= hi/3 {
			lowPrimes = append(lowPrimes, p)
		}
	}
	pick(lowPrimes, per-2)
	pick(primes, 2)
	// pool B: 2^a 3^b 5^c
	sm := smoothUpTo(1, hi)
	var smBig []int
	for _, s := range sm {
		if s >= lo {
			smBig = append(smBig, s)
		}
	}
	pick(smBig, per)
	// pool C: smooth * one general prime
	var poolC, poolD []int
	for _, s := range sm {
		for _, p := range smallPrimes {
			if v := s * p; v >= lo && v <= hi {
				poolC = append(poolC, v)
			}
			for _, q := range smallPrimes {
				if q > 31 || p > 31 {
					continue
				}
				if v := s * p * q; v >= lo && v <= hi {
					poolD = append(poolD, v)
				}
			}
		}
	}
	pick(poolC, per)
	// pool D: smooth * p * q (two general passes, p == q included)
	pick(poolD, per)
	// pool E: odd smooth (no radix 2/4 pass) and 2*odd (a single radix-2 pass)
	var poolE []int
	for _, s := range sm {
		if s%2 == 1 && s >= lo {
			poolE = append(poolE, s)
		}
		if s%4 == 2 && s >= lo {
			poolE = append(poolE, s)
		}
	}
	pick(poolE, per/2)

	var out []int
	for n := range set {
		out = append(out, n)
	}
	sort.Ints(out)
	return lengthPlan{exh: exh, sampled: out}
}
