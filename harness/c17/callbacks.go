package main

import (
	"fmt"
	"math"

	"gonum.org/v1/gonum/dsp/window"
	"gonum.org/v1/gonum/verifx/vrt"
)

// window.NewValues is the only API of dsp/fourier, dsp/window and
// dsp/transform that takes a user function: "NewValues returns a Values of
// length n with weights corresponding to the provided window function", the
// parameter being any func([]float64) []float64. The weights are what the
// function RETURNS for a ones vector; nothing obliges it to work in place.
// Hostile but legal window functions are passed, and the Values must equal
// what the function returns when the harness calls it on its own ones
// vector, and every Values method must multiply by exactly those weights.

type userWindow struct {
	name string
	f    func([]float64) []float64
}

func userWindows() []userWindow {
	g := window.Gaussian{Sigma: 0.45}
	tk := window.Tukey{Alpha: 0.4}
	return []userWindow{
		{"in-place(Sine)", window.Sine},
		{"in-place-method-value(Gaussian)", g.Transform},
		{"in-place-method-value(Tukey)", tk.Transform},
		{"copies-first(Hann)", func(s []float64) []float64 {
			out := append([]float64(nil), s...)
			return window.Hann(out)
		}},
		// the periodic window of dsp/window/cmd/leakage: symmetric window of n+1 points, last dropped
		{"periodic-n+1(Hann)", func(s []float64) []float64 { return window.Hann(append(s, 1))[:len(s)] }},
		{"periodic-n+1(Blackman)", func(s []float64) []float64 { return window.Blackman(append(s, 1))[:len(s)] }},
		{"sub-slice-of-larger-array(Hamming)", func(s []float64) []float64 {
			big := make([]float64, len(s)+11)
			for i := range big {
				big[i] = -7e7 - float64(i)
			}
			w := big[4 : 4+len(s)]
			copy(w, s)
			return window.Hamming(w)
		}},
		{"in-place-then-scribbles-spare-capacity(Nuttall)", func(s []float64) []float64 {
			window.Nuttall(s)
			full := s[:cap(s)]
			for i := len(s); i < len(full); i++ {
				full[i] = 4e4
			}
			return s
		}},
		{"new-slice-ignoring-argument-storage(ramp)", func(s []float64) []float64 {
			out := make([]float64, len(s), 2*len(s)+3)
			for i := range out {
				out[i] = s[i] * (0.25 + float64(i)/float64(len(s)))
			}
			return out
		}},
		{"returns-new-slice-and-zeroes-argument(FlatTop)", func(s []float64) []float64 {
			out := window.FlatTop(append([]float64(nil), s...))
			for i := range s {
				s[i] = 0
			}
			return out
		}},
	}
}

func checkValuesCallbacks(c *vrt.Ctx) {
	uws := userWindows()
	maxN := c.Pick(64, 300)
	vrt.Parallel(len(uws)*(maxN-1), func(ti int) {
		uw, n := uws[ti%len(uws)], 2+ti/len(uws)
		r := c.RNG("window.callbacks", ti)
		where := fmt.Sprintf("window.NewValues(%s, %d)", uw.name, n)
		c.LastCase(where)
		ones := make([]float64, n)
		for i := range ones {
			ones[i] = 1
		}
		want := cloneF(uw.f(ones))
		var v window.Values
		if p := vrt.Try(func() { v = window.NewValues(uw.f, n) }); p != nil {
			c.Violationf("window.NewValues|user-function|panic", map[string]any{"N": n, "function": uw.name, "panic": p.Msg}, "%s panicked: %s", where, p.Msg)
			return
		}
		c.Eval("window.NewValues|user-function|"+uw.name, true)
		if len(v) != n {
			c.Violationf("window.NewValues|user-function|wrong-length", map[string]any{"N": n, "function": uw.name, "len": len(v)}, "%s has length %d", where, len(v))
			return
		}
		if i := sameBitsF(v, want); i != -1 {
			c.Violationf("window.NewValues|user-function|weights-not-the-returned-values", map[string]any{"N": n, "function": uw.name, "k": i, "got": v[i], "want": want[i], "values": trimF(v)},
				"%s: weight[%d] = %v, but the window function returns %v for a ones vector (NewValues must use what the function returns)", where, i, v[i], want[i])
			return
		}
		// every method multiplies by exactly these weights
		x := r.Floats(n, r.Norm)
		z := make([]complex128, n)
		for i := range z {
			z[i] = complex(x[i], r.Norm())
		}
		a := v.Transform(cloneF(x))
		b := make([]float64, n)
		v.TransformTo(b, x)
		zc := v.TransformComplex(cloneC(z))
		zd := make([]complex128, n)
		v.TransformComplexTo(zd, z)
		c.EvalN("window.Values|user-function|"+uw.name, 4, true)
		for k := 0; k < n; k++ {
			w := want[k]
			p := x[k] * w
			pc := complex(w*real(z[k]), w*imag(z[k]))
			eq := func(g, h float64) bool { return math.Float64bits(g) == math.Float64bits(h) || g == h }
			if !eq(a[k], p) || !eq(b[k], p) || !eq(real(zc[k]), real(pc)) || !eq(imag(zc[k]), imag(pc)) || !eq(real(zd[k]), real(pc)) || !eq(imag(zd[k]), imag(pc)) {
				c.Violationf("window.Values|user-function|not-product-with-weights", map[string]any{"N": n, "function": uw.name, "k": k, "w": w, "x": x[k]},
					"%s: a Values method does not return x[%d]*w[%d]", where, k, k)
				return
			}
		}
		if sameBitsF(v, want) != -1 {
			c.Violationf("window.Values|user-function|weights-modified-by-method", map[string]any{"N": n, "function": uw.name}, "%s: a Values method changed the weights", where)
		}
	})
}
