package main

import (
	"fmt"
	"math"
	"math/bits"

	"gonum.org/v1/gonum/dsp/fourier"
	"gonum.org/v1/gonum/dsp/transform"
	"gonum.org/v1/gonum/dsp/window"
	"gonum.org/v1/gonum/verifx/vrt"
)

// Dirty, over-capacity buffers. Every routine that returns or fills a slice
// is run twice on the same values: once on clean arguments (cap == len, fresh
// make) and once on arguments that are windows of larger arrays — len < cap,
// recognisable finite garbage in front of and behind the window, destination
// windows pre-filled with taint NaNs. The documented extent of an argument is
// its length: the result must be bit-identical to the clean call (nothing
// beyond len(src)/len(dst) may be read into it), and the words of the backing
// arrays outside the windows must be untouched (nothing beyond the extent may
// be written). The clean call itself is judged against the definitions by the
// other sub-checks; Pad/TrimRadix, whose result is defined in terms of the
// argument slice, are additionally judged on their full contents here
// (x followed by zeros, for any capacity and whatever the spare capacity holds).

const (
	dirtyPre = 5
)

// arena hands out argument slices for one call and verifies afterwards that
// the backing arrays were not touched outside the windows.
type arena struct {
	dirty bool
	post  func(n int) int // spare capacity behind a window of length n
	fs    []arenaF
	cs    []arenaC
}

type arenaF struct {
	back []float64
	off  int
	n    int
	salt int
}

type arenaC struct {
	back []complex128
	off  int
	n    int
	salt int
}

// garbage values are distinct per backing array (salt) and per word, so that
// a copy from one argument's spare capacity into another's is visible.
func garbageF(salt, i int) float64 { return 1e3*float64(i+1) + 0.625 + 1e7*float64(salt+1) }

func garbageC(salt, i int) complex128 {
	return complex(garbageF(salt, 2*i), -garbageF(salt, 2*i+1))
}

// srcF returns a slice holding vals.
func (a *arena) srcF(vals []float64) []float64 {
	if !a.dirty {
		return cloneF(vals)
	}
	n := len(vals)
	back := make([]float64, dirtyPre+n+a.post(n))
	salt := len(a.fs) + len(a.cs)
	for i := range back {
		back[i] = garbageF(salt, i)
	}
	copy(back[dirtyPre:], vals)
	a.fs = append(a.fs, arenaF{back, dirtyPre, n, salt})
	return back[dirtyPre : dirtyPre+n]
}

func (a *arena) srcC(vals []complex128) []complex128 {
	if !a.dirty {
		return cloneC(vals)
	}
	n := len(vals)
	back := make([]complex128, dirtyPre+n+a.post(n))
	salt := len(a.fs) + len(a.cs)
	for i := range back {
		back[i] = garbageC(salt, i)
	}
	copy(back[dirtyPre:], vals)
	a.cs = append(a.cs, arenaC{back, dirtyPre, n, salt})
	return back[dirtyPre : dirtyPre+n]
}

// dstF returns the destination argument: nil for the clean call, a
// taint-filled window of a garbage array for the dirty one.
func (a *arena) dstF(n int) []float64 {
	if !a.dirty {
		return nil
	}
	t := make([]float64, n)
	vrt.FillTaint(t)
	return a.srcF(t)
}

func (a *arena) dstC(n int) []complex128 {
	if !a.dirty {
		return nil
	}
	t := make([]complex128, n)
	taintC(t)
	return a.srcC(t)
}

// outside reports the first backing word outside a window that changed.
func (a *arena) outside() string {
	for k, f := range a.fs {
		for i, v := range f.back {
			if (i < f.off || i >= f.off+f.n) && math.Float64bits(v) != math.Float64bits(garbageF(f.salt, i)) {
				return fmt.Sprintf("float slice #%d: backing word %d (window [%d,%d))", k, i, f.off, f.off+f.n)
			}
		}
	}
	for k, f := range a.cs {
		for i, v := range f.back {
			if (i < f.off || i >= f.off+f.n) && v != garbageC(f.salt, i) {
				return fmt.Sprintf("complex slice #%d: backing element %d (window [%d,%d))", k, i, f.off, f.off+f.n)
			}
		}
	}
	return ""
}

type dirtyCase struct {
	name string
	minN int
	pow  int // 0: any n; 2 / 4: powers only
	// run performs the call with arguments from a and returns the bits of
	// everything the call returned or filled.
	run func(a *arena, n int, raw []float64) []uint64
}

func dirtyCases() []dirtyCase {
	var cs []dirtyCase
	cs = append(cs,
		dirtyCase{"FFT.Coefficients", 1, 0, func(a *arena, n int, raw []float64) []uint64 {
			return bitsOfC(fourier.NewFFT(n).Coefficients(a.dstC(n/2+1), a.srcF(raw[:n])))
		}},
		dirtyCase{"FFT.Sequence", 1, 0, func(a *arena, n int, raw []float64) []uint64 {
			co := rawToC(raw, n/2+1)
			co[0] = complex(real(co[0]), 0)
			if n%2 == 0 {
				co[n/2] = complex(real(co[n/2]), 0)
			}
			return vrt.Bits(fourier.NewFFT(n).Sequence(a.dstF(n), a.srcC(co)))
		}},
		dirtyCase{"Hilbert.AnalyticSignal", 1, 0, func(a *arena, n int, raw []float64) []uint64 {
			return bitsOfC(transform.NewHilbert(n).AnalyticSignal(a.dstC(n), a.srcF(raw[:n])))
		}},
	)
	for _, d := range []struct {
		name string
		f    func(t *fourier.CmplxFFT, dst, src []complex128) []complex128
	}{{"CmplxFFT.Coefficients", (*fourier.CmplxFFT).Coefficients}, {"CmplxFFT.Sequence", (*fourier.CmplxFFT).Sequence}} {
		d := d
		cs = append(cs,
			dirtyCase{d.name, 1, 0, func(a *arena, n int, raw []float64) []uint64 {
				return bitsOfC(d.f(fourier.NewCmplxFFT(n), a.dstC(n), a.srcC(rawToC(raw, n))))
			}},
			dirtyCase{d.name + "(dst=src)", 1, 0, func(a *arena, n int, raw []float64) []uint64 {
				s := a.srcC(rawToC(raw, n))
				return bitsOfC(d.f(fourier.NewCmplxFFT(n), s, s))
			}},
		)
	}
	for _, k := range r2rKinds {
		k := k
		cs = append(cs,
			dirtyCase{k.name, k.minN, 0, func(a *arena, n int, raw []float64) []uint64 {
				return vrt.Bits(k.call(n)(a.dstF(n), a.srcF(raw[:n])))
			}},
			dirtyCase{k.name + "(dst=src)", k.minN, 0, func(a *arena, n int, raw []float64) []uint64 {
				s := a.srcF(raw[:n])
				return vrt.Bits(k.call(n)(s, s))
			}},
		)
	}
	for _, d := range []struct {
		name string
		pow  int
		f    func([]complex128) []complex128
	}{
		{"CoefficientsRadix2", 2, fourier.CoefficientsRadix2}, {"SequenceRadix2", 2, fourier.SequenceRadix2},
		{"CoefficientsRadix4", 4, fourier.CoefficientsRadix4}, {"SequenceRadix4", 4, fourier.SequenceRadix4},
	} {
		d := d
		cs = append(cs, dirtyCase{d.name, 1, d.pow, func(a *arena, n int, raw []float64) []uint64 {
			return bitsOfC(d.f(a.srcC(rawToC(raw, n))))
		}})
	}
	wins := append([]winDef(nil), winDefs...)
	g, t := window.Gaussian{Sigma: 0.4}, window.Tukey{Alpha: 0.35}
	wins = append(wins,
		winDef{name: "Gaussian", real: g.Transform, cmplx: g.TransformComplex},
		winDef{name: "Tukey", real: t.Transform, cmplx: t.TransformComplex})
	for _, w := range wins {
		w := w
		cs = append(cs,
			dirtyCase{"window." + w.name, 2, 0, func(a *arena, n int, raw []float64) []uint64 {
				return vrt.Bits(w.real(a.srcF(raw[:n])))
			}},
			dirtyCase{"window." + w.name + "Complex", 2, 0, func(a *arena, n int, raw []float64) []uint64 {
				return bitsOfC(w.cmplx(a.srcC(rawToC(raw, n))))
			}},
		)
	}
	cs = append(cs,
		dirtyCase{"window.Values.Transform", 2, 0, func(a *arena, n int, raw []float64) []uint64 {
			v := window.Values(a.srcF(raw[n : 2*n]))
			return vrt.Bits(v.Transform(a.srcF(raw[:n])))
		}},
		dirtyCase{"window.Values.TransformTo", 2, 0, func(a *arena, n int, raw []float64) []uint64 {
			v := window.Values(a.srcF(raw[n : 2*n]))
			dst := a.dstF(n)
			if dst == nil {
				dst = make([]float64, n)
			}
			v.TransformTo(dst, a.srcF(raw[:n]))
			return vrt.Bits(dst)
		}},
		dirtyCase{"window.Values.TransformComplex", 2, 0, func(a *arena, n int, raw []float64) []uint64 {
			v := window.Values(a.srcF(raw[:n]))
			return bitsOfC(v.TransformComplex(a.srcC(rawToC(raw, n))))
		}},
		dirtyCase{"window.Values.TransformComplexTo", 2, 0, func(a *arena, n int, raw []float64) []uint64 {
			v := window.Values(a.srcF(raw[:n]))
			dst := a.dstC(n)
			if dst == nil {
				dst = make([]complex128, n)
			}
			v.TransformComplexTo(dst, a.srcC(rawToC(raw, n)))
			return bitsOfC(dst)
		}},
		dirtyCase{"window.NewValues", 2, 0, func(a *arena, n int, raw []float64) []uint64 {
			return vrt.Bits(window.NewValues(window.Hann, n))
		}},
	)
	return cs
}

func checkDirtyBuffers(c *vrt.Ctx) {
	cases := dirtyCases()
	maxN := c.Pick(70, 200)
	extra := []int{256, 343, 1000, 1024}
	if c.Thorough() {
		extra = append(extra, 2053, 4096)
	}
	type task struct{ ci, n int }
	var tasks []task
	for ci, k := range cases {
		var ns []int
		for n := 1; n <= maxN; n++ {
			ns = append(ns, n)
		}
		ns = append(ns, extra...)
		for _, n := range ns {
			if n < k.minN {
				continue
			}
			if k.pow == 2 && bits.OnesCount(uint(n)) != 1 {
				continue
			}
			if k.pow == 4 && (bits.OnesCount(uint(n)) != 1 || bits.TrailingZeros(uint(n))%2 != 0) {
				continue
			}
			tasks = append(tasks, task{ci, n})
		}
	}
	vrt.Parallel(len(tasks), func(ti int) {
		k, n := cases[tasks[ti].ci], tasks[ti].n
		r := c.RNG("dirty."+k.name, n)
		raw := r.Floats(2*n+2, r.Norm)
		where := fmt.Sprintf("%s n=%d", k.name, n)
		clean := &arena{}
		var want []uint64
		c.LastCase("dirty-buffers clean " + where)
		if p := vrt.Try(func() { want = k.run(clean, n, raw) }); p != nil {
			c.Violationf(k.name+"|clean-buffers|panic", map[string]any{"n": n, "panic": p.Msg, "stack": p.Stack}, "%s on clean buffers panicked: %s", where, p.Msg)
			return
		}
		// two capacity regimes: a few spare words, and room for more than
		// the next power of four
		for pi, post := range []func(int) int{func(int) int { return 7 }, func(m int) int { return 4*m + 9 }} {
			d := &arena{dirty: true, post: post}
			var got []uint64
			c.LastCase("dirty-buffers " + where)
			p := vrt.Try(func() { got = k.run(d, n, raw) })
			c.EvalN("dirty-buffers|"+k.name+fmt.Sprintf("|spare%d", pi), 2, n > 1)
			rep := map[string]any{"n": n, "spare_capacity": post(n), "input": trimF(raw[:min(len(raw), 2*n)])}
			if p != nil {
				rep["panic"], rep["stack"] = p.Msg, p.Stack
				c.Violationf(k.name+"|spare-capacity|panic", rep, "%s on sub-slices of larger arrays panicked: %s", where, p.Msg)
				continue
			}
			if w := d.outside(); w != "" {
				rep["where"] = w
				c.Violationf(k.name+"|spare-capacity|writes-beyond-len", rep, "%s wrote outside the length of an argument: %s", where, w)
			}
			if len(got) != len(want) {
				c.Violationf(k.name+"|spare-capacity|result-length-depends-on-capacity", rep, "%s: %d result words on sub-slices, %d on cap==len slices", where, len(got), len(want))
				continue
			}
			for i := range got {
				if got[i] != want[i] {
					rep["word"] = i
					rep["got"], rep["want"] = math.Float64frombits(got[i]), math.Float64frombits(want[i])
					c.Violationf(k.name+"|spare-capacity|result-depends-on-spare-capacity", rep,
						"%s: result word %d = %v on sub-slices of dirty arrays, %v on cap==len slices holding the same values", where, i, rep["got"], rep["want"])
					break
				}
			}
		}
	})
	checkPadTrimDirty(c)
}

// checkPadTrimDirty: PadRadix2/4 and TrimRadix2/4 on slices with every
// relevant capacity (cap == len, a few spare elements, spare capacity that
// reaches the next power of 2 but not of 4, and beyond the next power of 4)
// whose spare capacity holds non-zero data, judged on the full contents:
//
//	Pad:  len = next power, contents = x followed by zeros; x itself unchanged;
//	      a power-length x is returned itself; and the documented use
//	      Pad -> CoefficientsRadixN equals CmplxFFT of the zero-padded sequence.
//	Trim: even = x[:p], remains = x[p:], nothing written anywhere.
func checkPadTrimDirty(c *vrt.Ctx) {
	maxLen := c.Pick(300, 1100)
	vrt.Parallel(maxLen+1, func(n int) {
		r := c.RNG("dirty.padtrim", n)
		vals := randC(r, n)
		for _, radix := range []int{2, 4} {
			pad, trim := fourier.PadRadix2, fourier.TrimRadix2
			coef := fourier.CoefficientsRadix2
			if radix == 4 {
				pad, trim, coef = fourier.PadRadix4, fourier.TrimRadix4, fourier.CoefficientsRadix4
			}
			isPow := func(m int) bool {
				if m <= 0 || bits.OnesCount(uint(m)) != 1 {
					return false
				}
				return radix == 2 || bits.TrailingZeros(uint(m))%2 == 0
			}
			next := n
			if n > 0 && !isPow(n) {
				next = radix
				for next < n {
					next *= radix
				}
			}
			prev := 0
			if n > 0 {
				prev = 1
				for prev*radix <= n {
					prev *= radix
				}
			}
			np2 := 1
			for np2 < n {
				np2 *= 2
			}
			for _, spare := range []int{0, 1, np2 - n, np2 - n + 1, next - n, next - n + 3, 4*n + 9} {
				if spare < 0 {
					continue
				}
				pname, tname := fmt.Sprintf("PadRadix%d", radix), fmt.Sprintf("TrimRadix%d", radix)
				capClass := "cap=len"
				switch {
				case spare == 0:
				case n+spare >= next && next > n:
					capClass = "cap>=padded"
				default:
					capClass = "cap<padded"
				}
				// ---- Pad
				a := &arena{dirty: true, post: func(int) int { return spare }}
				x := a.srcC(vals)
				x = x[: n : n+spare]
				var p []complex128
				c.LastCase(fmt.Sprintf("%s len=%d cap=%d dirty", pname, n, n+spare))
				pn := vrt.Try(func() { p = pad(x) })
				c.Eval(pname+"|dirty-spare|"+capClass, n > 0)
				rep := map[string]any{"len": n, "cap": n + spare, "x": trimC(vals)}
				switch {
				case pn != nil:
					rep["panic"] = pn.Msg
					c.Violationf(pname+"|dirty-spare|panic", rep, "%s(len %d, cap %d) panicked: %s", pname, n, n+spare, pn.Msg)
				case len(p) != next:
					c.Violationf(pname+"|dirty-spare|wrong-length", rep, "%s(len %d, cap %d) has length %d, want %d", pname, n, n+spare, len(p), next)
				default:
					bad := -1
					for i := range p {
						w := complex128(0)
						if i < n {
							w = vals[i]
						}
						if p[i] != w && bad < 0 {
							bad = i
						}
					}
					if bad >= 0 {
						rep["index"], rep["got"] = bad, fmt.Sprint(p[bad])
						clause := "values-changed"
						if bad >= n {
							clause = "padding-not-zero"
						}
						c.Violationf(pname+"|dirty-spare|"+clause, rep,
							"%s(len %d, cap %d, spare capacity holding old data): result[%d] = %v, want x followed by zeros", pname, n, n+spare, bad, p[bad])
					}
					if sameBitsC(x, vals) != -1 {
						c.Violationf(pname+"|dirty-spare|argument-modified", rep, "%s(len %d, cap %d) modified x", pname, n, n+spare)
					}
					if n > 0 && isPow(n) && &p[0] != &x[0] {
						c.Violationf(pname+"|power-length|not-returned-unaltered", rep, "%s(len %d): a power-length argument must be returned itself", pname, n)
					}
					// documented work flow: pad, then the radix fast path = general path on the zero-padded data
					if bad < 0 && next >= 1 && next <= 4096 && n > 0 {
						zp := make([]complex128, next)
						copy(zp, vals)
						var fast, gen []complex128
						if pp := vrt.Try(func() { fast = coef(p); gen = fourier.NewCmplxFFT(next).Coefficients(nil, zp) }); pp == nil {
							c.EvalN(pname+"|then-CoefficientsRadix|"+capClass, 2, next > 4)
							zn := norm2c(zp)
							band := (cRadix*shapeRadix(next) + cCmplx*shapeC(next)) * u * math.Sqrt(float64(next)) * zn
							if err := errNormC(fast, gen, allIdx(next)); !within(pname+"-then-radix-vs-CmplxFFT", err, band, pname) {
								c.Violationf(pname+"|dirty-spare|pad-then-radix-differs-from-CmplxFFT", rep,
									"%s(len %d, cap %d) followed by CoefficientsRadix%d differs from CmplxFFT of the zero-padded sequence by %.3g (band %.3g)", pname, n, n+spare, radix, err, band)
							}
						}
					}
				}
				// ---- Trim (fresh arena: Pad may legitimately have been handed the spare capacity)
				b := &arena{dirty: true, post: func(int) int { return spare }}
				y := b.srcC(vals)
				y = y[: n : n+spare]
				var ev, rem []complex128
				c.LastCase(fmt.Sprintf("%s len=%d cap=%d dirty", tname, n, n+spare))
				tn := vrt.Try(func() { ev, rem = trim(y) })
				c.Eval(tname+"|dirty-spare|"+capClass, n > 0)
				switch {
				case tn != nil:
					rep["panic"] = tn.Msg
					c.Violationf(tname+"|dirty-spare|panic", rep, "%s(len %d, cap %d) panicked: %s", tname, n, n+spare, tn.Msg)
				case len(ev) != prev || len(rem) != n-prev:
					c.Violationf(tname+"|dirty-spare|wrong-split", rep, "%s(len %d, cap %d) = (%d, %d), want (%d, %d)", tname, n, n+spare, len(ev), len(rem), prev, n-prev)
				default:
					if sameBitsC(ev, vals[:prev]) != -1 || sameBitsC(rem, vals[prev:]) != -1 || (prev > 0 && &ev[0] != &y[0]) || (len(rem) > 0 && &rem[0] != &y[prev]) {
						c.Violationf(tname+"|dirty-spare|wrong-content", rep, "%s(len %d, cap %d): results are not x[:%d], x[%d:]", tname, n, n+spare, prev, prev)
					}
					if w := b.outside(); w != "" || sameBitsC(y, vals) != -1 {
						c.Violationf(tname+"|dirty-spare|writes", rep, "%s(len %d, cap %d) wrote to x or its backing array %s", tname, n, n+spare, w)
					}
				}
			}
		}
	})
}
