package main

import "gonum.org/v1/gonum/verifx/vrt"

// checkColumns feeds unit impulses at every position (the transform matrix
// column by column) and pure tones at every bin through every transform for
// all n <= 64 and compares with the defining sums. An index or sign error in
// a single butterfly that random data might average below the band shows up
// here as an O(1) error in one column.
func checkColumns(c *vrt.Ctx) {
	const maxN = 64
	type task struct{ n, what int }
	var tasks []task
	for n := maxN; n >= 1; n-- {
		for w := 0; w < 2+len(r2rKinds); w++ {
			tasks = append(tasks, task{n, w})
		}
	}
	vrt.Parallel(len(tasks), func(ti int) {
		n, what := tasks[ti].n, tasks[ti].what
		o := newOracle(n)
		r := c.RNG("columns.idx", n, what)
		// real inputs: impulses, cosine and sine tones at integer and
		// half-integer frequencies (the latter are the basis functions of
		// the quarter-wave and DCT/DST families)
		var reals []realInput
		if what != 1 {
			for j := 0; j < n; j++ {
				x := make([]float64, n)
				x[j] = 1
				reals = append(reals, realInput{"impulse", x})
			}
			for b := 0; b < 2*n; b++ {
				cs := make([]float64, n)
				sn := make([]float64, n)
				for j := range cs {
					cs[j], sn[j] = cosSinPi(int64(b)*int64(j), int64(n))
				}
				reals = append(reals, realInput{"tone-cos", cs})
				if b > 0 {
					reals = append(reals, realInput{"tone-sin", sn})
				}
			}
		}
		switch what {
		case 0:
			for _, in := range reals {
				checkFFTRealAt(c, n, o, in, r, false)
			}
			// columns of the synthesis: unit real / imaginary coefficient at every bin
			for k := 0; k <= n/2; k++ {
				for _, v := range []complex128{1, 1i} {
					if v == 1i && (k == 0 || (n%2 == 0 && k == n/2)) {
						continue
					}
					checkFFTSeqColumn(c, n, o, k, v)
				}
			}
		case 1:
			for j := 0; j < n; j++ {
				for _, v := range []complex128{1, 1i} {
					z := make([]complex128, n)
					z[j] = v
					checkCmplxAt(c, n, o, "impulse", z, r, false)
				}
			}
			for b := 0; b < n; b++ {
				z := make([]complex128, n)
				for j := range z {
					cs, sn := cosSinPi(2*int64(b)*int64(j), int64(n))
					z[j] = complex(cs, sn)
				}
				checkCmplxAt(c, n, o, "tone", z, r, false)
			}
		default:
			k := r2rKinds[what-2]
			if n < k.minN {
				return
			}
			idx := allIdx(n)
			for _, in := range reals {
				checkR2R(c, k, n, o, in, idx, false)
			}
		}
	})
}

func checkFFTSeqColumn(c *vrt.Ctx, n int, o *oracle, k int, v complex128) {
	coeff := make([]complex128, n/2+1)
	coeff[k] = v
	checkFFTSeqOn(c, n, o, "unit-coefficient", coeff, allIdx(n), false)
}
