package main

import (
	"fmt"

	"gonum.org/v1/gonum/dsp/fourier"
	"gonum.org/v1/gonum/verifx/vrt"
)

// History independence, bit for bit: a transform object that has been through
// an arbitrary sequence of Reset(n_i) and transform calls must, for the same
// (n, input), return exactly the bits a freshly constructed object returns;
// and the result must not depend on dst being nil, a fresh (garbage-filled)
// slice or — where the doc comment says it is safe — src itself.

const (
	dstNil = iota
	dstFresh
	dstSrc
)

var dstNames = []string{"nil", "fresh", "src"}

// callResult is what one transform call is reduced to.
type callResult struct {
	bits     []uint64
	problems []string // failing clauses other than the value
	panicMsg string
	// the slice the call returned and the src slice it was given (for the
	// ownership ledger)
	outF, srcF []float64
	outC, srcC []complex128
}

func (r *callResult) own(out, src any) {
	switch o := out.(type) {
	case []float64:
		r.outF = o
	case []complex128:
		r.outC = o
	}
	switch s := src.(type) {
	case []float64:
		r.srcF = s
	case []complex128:
		r.srcC = s
	}
}

type histMethod struct {
	name    string
	aliasOK bool
	// call runs the method on obj for length n with the input derived from
	// raw (len >= 2n+2) and the given dst mode.
	call func(obj any, n int, raw []float64, mode int) callResult
}

type histType struct {
	name    string
	minN    int
	fresh   func(n int) any
	zero    func() any
	reset   func(obj any, n int)
	length  func(obj any) int
	methods []histMethod
}

func r2rCall(f func(obj any) func(dst, src []float64) []float64) func(obj any, n int, raw []float64, mode int) callResult {
	return func(obj any, n int, raw []float64, mode int) (res callResult) {
		src := cloneF(raw[:n])
		var dst []float64
		switch mode {
		case dstFresh:
			dst = make([]float64, n)
			vrt.FillTaint(dst)
		case dstSrc:
			dst = src
		}
		var out []float64
		if p := vrt.Try(func() { out = f(obj)(dst, src) }); p != nil {
			res.panicMsg = p.Msg
			return
		}
		if len(out) != n {
			res.problems = append(res.problems, "result-length")
			return
		}
		if dst != nil && (len(out) == 0 || &out[0] != &dst[0]) {
			res.problems = append(res.problems, "returned-slice-not-dst")
		}
		if mode != dstSrc && sameBitsF(src, raw[:n]) != -1 {
			res.problems = append(res.problems, "src-modified")
		}
		for _, v := range out {
			if vrt.IsTaint(v) {
				res.problems = append(res.problems, "dst-not-fully-written")
				break
			}
		}
		res.bits = vrt.Bits(out)
		res.own(out, src)
		return
	}
}

func rawToC(raw []float64, m int) []complex128 {
	z := make([]complex128, m)
	for i := range z {
		z[i] = complex(raw[2*i], raw[2*i+1])
	}
	return z
}

func taintC(z []complex128) {
	for i := range z {
		z[i] = complex(vrt.Taint(2*i), vrt.Taint(2*i+1))
	}
}

func hasTaintC(z []complex128) bool {
	for _, v := range z {
		if vrt.IsTaint(real(v)) || vrt.IsTaint(imag(v)) {
			return true
		}
	}
	return false
}

func c2cCall(f func(t *fourier.CmplxFFT, dst, src []complex128) []complex128) func(obj any, n int, raw []float64, mode int) callResult {
	return func(obj any, n int, raw []float64, mode int) (res callResult) {
		orig := rawToC(raw, n)
		src := cloneC(orig)
		var dst []complex128
		switch mode {
		case dstFresh:
			dst = make([]complex128, n)
			taintC(dst)
		case dstSrc:
			dst = src
		}
		var out []complex128
		if p := vrt.Try(func() { out = f(obj.(*fourier.CmplxFFT), dst, src) }); p != nil {
			res.panicMsg = p.Msg
			return
		}
		if len(out) != n {
			res.problems = append(res.problems, "result-length")
			return
		}
		if dst != nil && &out[0] != &dst[0] {
			res.problems = append(res.problems, "returned-slice-not-dst")
		}
		if mode != dstSrc && sameBitsC(src, orig) != -1 {
			res.problems = append(res.problems, "src-modified")
		}
		if hasTaintC(out) {
			res.problems = append(res.problems, "dst-not-fully-written")
		}
		res.bits = bitsOfC(out)
		res.own(out, src)
		return
	}
}

var histTypes = []histType{
	{
		name: "FFT", minN: 1,
		fresh:  func(n int) any { return fourier.NewFFT(n) },
		zero:   func() any { return new(fourier.FFT) },
		reset:  func(o any, n int) { o.(*fourier.FFT).Reset(n) },
		length: func(o any) int { return o.(*fourier.FFT).Len() },
		methods: []histMethod{
			{"FFT.Coefficients", false, func(obj any, n int, raw []float64, mode int) (res callResult) {
				src := cloneF(raw[:n])
				var dst []complex128
				if mode == dstFresh {
					dst = make([]complex128, n/2+1)
					taintC(dst)
				}
				var out []complex128
				if p := vrt.Try(func() { out = obj.(*fourier.FFT).Coefficients(dst, src) }); p != nil {
					res.panicMsg = p.Msg
					return
				}
				if len(out) != n/2+1 {
					res.problems = append(res.problems, "result-length")
					return
				}
				if dst != nil && &out[0] != &dst[0] {
					res.problems = append(res.problems, "returned-slice-not-dst")
				}
				if sameBitsF(src, raw[:n]) != -1 {
					res.problems = append(res.problems, "src-modified")
				}
				if hasTaintC(out) {
					res.problems = append(res.problems, "dst-not-fully-written")
				}
				res.bits = bitsOfC(out)
				res.own(out, src)
				return
			}},
			{"FFT.Sequence", false, func(obj any, n int, raw []float64, mode int) (res callResult) {
				orig := rawToC(raw, n/2+1)
				orig[0] = complex(real(orig[0]), 0)
				if n%2 == 0 {
					orig[n/2] = complex(real(orig[n/2]), 0)
				}
				src := cloneC(orig)
				var dst []float64
				if mode == dstFresh {
					dst = make([]float64, n)
					vrt.FillTaint(dst)
				}
				var out []float64
				if p := vrt.Try(func() { out = obj.(*fourier.FFT).Sequence(dst, src) }); p != nil {
					res.panicMsg = p.Msg
					return
				}
				if len(out) != n {
					res.problems = append(res.problems, "result-length")
					return
				}
				if dst != nil && &out[0] != &dst[0] {
					res.problems = append(res.problems, "returned-slice-not-dst")
				}
				if sameBitsC(src, orig) != -1 {
					res.problems = append(res.problems, "src-modified")
				}
				for _, v := range out {
					if vrt.IsTaint(v) {
						res.problems = append(res.problems, "dst-not-fully-written")
						break
					}
				}
				res.bits = vrt.Bits(out)
				res.own(out, src)
				return
			}},
		},
	},
	{
		name: "CmplxFFT", minN: 1,
		fresh:  func(n int) any { return fourier.NewCmplxFFT(n) },
		zero:   func() any { return new(fourier.CmplxFFT) },
		reset:  func(o any, n int) { o.(*fourier.CmplxFFT).Reset(n) },
		length: func(o any) int { return o.(*fourier.CmplxFFT).Len() },
		methods: []histMethod{
			{"CmplxFFT.Coefficients", true, c2cCall((*fourier.CmplxFFT).Coefficients)},
			{"CmplxFFT.Sequence", true, c2cCall((*fourier.CmplxFFT).Sequence)},
		},
	},
	{
		name: "DCT", minN: 2,
		fresh:  func(n int) any { return fourier.NewDCT(n) },
		zero:   func() any { return new(fourier.DCT) },
		reset:  func(o any, n int) { o.(*fourier.DCT).Reset(n) },
		length: func(o any) int { return o.(*fourier.DCT).Len() },
		methods: []histMethod{
			{"DCT.Transform", true, r2rCall(func(o any) func(dst, src []float64) []float64 { return o.(*fourier.DCT).Transform })},
		},
	},
	{
		name: "DST", minN: 1,
		fresh:  func(n int) any { return fourier.NewDST(n) },
		zero:   func() any { return new(fourier.DST) },
		reset:  func(o any, n int) { o.(*fourier.DST).Reset(n) },
		length: func(o any) int { return o.(*fourier.DST).Len() },
		methods: []histMethod{
			{"DST.Transform", true, r2rCall(func(o any) func(dst, src []float64) []float64 { return o.(*fourier.DST).Transform })},
		},
	},
	{
		name: "QuarterWaveFFT", minN: 1,
		fresh:  func(n int) any { return fourier.NewQuarterWaveFFT(n) },
		zero:   func() any { return new(fourier.QuarterWaveFFT) },
		reset:  func(o any, n int) { o.(*fourier.QuarterWaveFFT).Reset(n) },
		length: func(o any) int { return o.(*fourier.QuarterWaveFFT).Len() },
		methods: []histMethod{
			{"QuarterWaveFFT.CosCoefficients", true, r2rCall(func(o any) func(dst, src []float64) []float64 { return o.(*fourier.QuarterWaveFFT).CosCoefficients })},
			{"QuarterWaveFFT.CosSequence", true, r2rCall(func(o any) func(dst, src []float64) []float64 { return o.(*fourier.QuarterWaveFFT).CosSequence })},
			{"QuarterWaveFFT.SinCoefficients", true, r2rCall(func(o any) func(dst, src []float64) []float64 { return o.(*fourier.QuarterWaveFFT).SinCoefficients })},
			{"QuarterWaveFFT.SinSequence", true, r2rCall(func(o any) func(dst, src []float64) []float64 { return o.(*fourier.QuarterWaveFFT).SinSequence })},
		},
	},
}

// histLen draws a length: mostly small (every factor pattern occurs below
// 130), sometimes large so that later Resets shrink into retained capacity.
func histLen(r *vrt.Rand, minN, big int) int {
	var n int
	switch r.Intn(10) {
	case 0:
		n = r.Range(1, 4)
	case 1, 2, 3, 4:
		n = r.Range(2, 40)
	case 5, 6, 7:
		n = r.Range(20, 130)
	case 8:
		n = r.PickInt(7, 11, 13, 17, 49, 77, 121, 143, 169, 8, 16, 32, 64, 128, 27, 81, 25, 125, 30, 60, 90, 120)
	default:
		n = r.Range(130, big)
	}
	if n < minN {
		n = minN
	}
	return n
}

func checkHistory(c *vrt.Ctx) {
	checkStructuredHistories(c)
	checkRejectedCalls(c)
	checkOwnershipStateless(c)
	perType := c.Pick(600, 6000)
	big := c.Pick(700, 2500)
	const maxOps = 12
	vrt.Parallel(len(histTypes)*perType, func(ti int) {
		t := histTypes[ti%len(histTypes)]
		h := ti / len(histTypes)
		r := c.RNG("history."+t.name, h)
		var obj any
		prev := 0
		if r.Chance(0.3) {
			obj = t.zero() // zero value, first use is Reset
		} else {
			prev = histLen(r, t.minN, big)
			obj = t.fresh(prev)
		}
		nops := r.Range(3, maxOps)
		trail := fmt.Sprintf("New(%d)", prev)
		led := newLedger(r)
		for op := 0; op < nops; op++ {
			if prev == 0 || r.Chance(0.45) {
				n := histLen(r, t.minN, big)
				if r.Chance(0.15) && prev >= t.minN {
					n = prev // Reset to the same length
				}
				c.LastCase(fmt.Sprintf("history %s %s Reset(%d)", t.name, trail, n))
				if p := vrt.Try(func() { t.reset(obj, n) }); p != nil {
					c.Violationf(t.name+".Reset|history|panic", map[string]any{"trail": trail, "n": n, "panic": p.Msg, "stack": p.Stack},
						"%s after %s: Reset(%d) panicked: %s", t.name, trail, n, p.Msg)
					return
				}
				rel := "first"
				switch {
				case prev == 0:
				case n > prev:
					rel = "grow"
				case n < prev:
					rel = "shrink"
				default:
					rel = "same"
				}
				c.Eval("history|"+t.name+".Reset|"+rel, true)
				if got := t.length(obj); got != n {
					c.Violationf(t.name+".Len|history|wrong-length", map[string]any{"trail": trail, "n": n, "len": got},
						"%s after %s, Reset(%d): Len() = %d", t.name, trail, n, got)
					return
				}
				trail += fmt.Sprintf(" Reset(%d)", n)
				led.verify(c, t.name, trail)
				prev = n
				continue
			}
			n := prev
			if r.Chance(0.2) {
				// a documented rejection, recovered, in the middle of the history
				rjs := rejectionsFor(t.name, obj, n)
				rj := rjs[r.Intn(len(rjs))]
				if !applyRejection(c, t, obj, n, rj, r, trail, led) {
					return
				}
				trail += " [rejected " + rj.name + "]"
				continue
			}
			m := t.methods[r.Intn(len(t.methods))]
			mode := r.Intn(3)
			if mode == dstSrc && !m.aliasOK {
				mode = dstFresh
			}
			raw := r.Floats(2*n+2, r.Norm)
			histCompare(c, t, m, obj, n, raw, mode, trail, led)
			trail += " " + m.name
			if op == nops-1 && h < 3 && c.WantSample() {
				c.Sample(map[string]any{"check": "history", "type": t.name, "history": trail, "last_dst": dstNames[mode]})
			}
			if len(trail) > 600 {
				trail = "..." + trail[len(trail)-500:]
			}
		}
	})
}

// histCompare runs method m on obj (which has a history, described by trail)
// and on a fresh object of the same length, and demands identical bits.
func histCompare(c *vrt.Ctx, t histType, m histMethod, obj any, n int, raw []float64, mode int, trail string, led *ledger) {
	c.LastCase(fmt.Sprintf("history %s %s %s(dst=%s)", t.name, trail, m.name, dstNames[mode]))
	got := m.call(obj, n, raw, mode)
	led.shares(c, m.name, dstNames[mode], trail, &got)
	led.verify(c, t.name, trail+" "+m.name)
	led.admit(c, m.name, dstNames[mode], trail, &got)
	want := m.call(t.fresh(n), n, raw, dstNil)
	c.EvalN("history|"+m.name+"|dst="+dstNames[mode]+"|"+pathClass(n), 2, n > 1)
	rep := map[string]any{"trail": trail, "n": n, "dst": dstNames[mode], "input": trimF(raw[:min(len(raw), 2*n)])}
	switch {
	case want.panicMsg != "" || len(want.problems) > 0:
		c.Violationf(m.name+"|fresh-object|"+firstNonEmpty(want.panicMsg, want.problems), rep,
			"%s on a fresh object of length %d: %s %v", m.name, n, want.panicMsg, want.problems)
	case got.panicMsg != "":
		rep["panic"] = got.panicMsg
		c.Violationf(m.name+"|history|panic", rep, "%s after %s (dst=%s) panicked: %s", m.name, trail, dstNames[mode], got.panicMsg)
	default:
		for _, pr := range got.problems {
			c.Violationf(m.name+"|dst="+dstNames[mode]+"|"+pr, rep, "%s after %s (dst=%s): %s", m.name, trail, dstNames[mode], pr)
		}
		if len(got.bits) == len(want.bits) {
			for i := range got.bits {
				if got.bits[i] != want.bits[i] {
					rep["index"] = i
					// distinguish: does a history-free object with the same dst mode already differ?
					alone := m.call(t.fresh(n), n, raw, mode)
					clause := "result-depends-on-history"
					if len(alone.bits) == len(want.bits) {
						for j := range alone.bits {
							if alone.bits[j] != want.bits[j] {
								clause = "result-depends-on-dst"
								break
							}
						}
					}
					c.Violationf(m.name+"|dst="+dstNames[mode]+"|"+clause, rep,
						"%s n=%d after %s (dst=%s): word %d differs from a fresh object's dst=nil result (bitwise)", m.name, n, trail, dstNames[mode], i)
					break
				}
			}
		}
	}
}

// checkStructuredHistories: for every transform type and every n in a list,
// the return trips n -> 1 -> n (n -> 2 -> n for the DCT, whose minimum is 2)
// and n -> m -> n through a smaller, a larger (retained capacity vs
// reallocation) and a coprime length on one object, every method called at
// every stop.
func checkStructuredHistories(c *vrt.Ctx) {
	var lens []int
	for n := 1; n <= c.Pick(64, 160); n++ {
		lens = append(lens, n)
	}
	lens = append(lens, 210, 343, 1000, 1024)
	if c.Thorough() {
		lens = append(lens, 2053, 4099, 4106)
	}
	type task struct{ ti, n int }
	var tasks []task
	for ti := range histTypes {
		for _, n := range lens {
			if n >= histTypes[ti].minN {
				tasks = append(tasks, task{ti, n})
			}
		}
	}
	vrt.Parallel(len(tasks), func(k int) {
		t, n := histTypes[tasks[k].ti], tasks[k].n
		r := c.RNG("history.structured."+t.name, n)
		for _, m := range []int{1, 2, n / 2, n - 1, n + 1, 2*n + 1, 7, 12} {
			if m < t.minN {
				continue
			}
			obj := t.fresh(n)
			trail := fmt.Sprintf("New(%d)", n)
			led := newLedger(r)
			stop := func(len_ int) bool {
				for _, meth := range t.methods {
					mode := r.Intn(3)
					if mode == dstSrc && !meth.aliasOK {
						mode = dstNil
					}
					histCompare(c, t, meth, obj, len_, r.Floats(2*len_+2, r.Norm), mode, trail, led)
					trail += " " + meth.name
				}
				return true
			}
			stop(n)
			for _, next := range []int{m, n} {
				if p := vrt.Try(func() { t.reset(obj, next) }); p != nil {
					c.Violationf(t.name+".Reset|history|panic", map[string]any{"trail": trail, "n": next, "panic": p.Msg, "stack": p.Stack},
						"%s after %s: Reset(%d) panicked: %s", t.name, trail, next, p.Msg)
					return
				}
				c.Eval("history|"+t.name+".Reset|return-trip", true)
				trail += fmt.Sprintf(" Reset(%d)", next)
				led.verify(c, t.name, trail)
				if got := t.length(obj); got != next {
					c.Violationf(t.name+".Len|history|wrong-length", map[string]any{"trail": trail, "n": next, "len": got},
						"%s after %s: Len() = %d", t.name, trail, got)
					return
				}
				stop(next)
			}
		}
	})
}

func firstNonEmpty(s string, l []string) string {
	if s != "" {
		return "panic"
	}
	if len(l) > 0 {
		return l[0]
	}
	return "?"
}
