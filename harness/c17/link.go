package main

// gonum.org/v1/gonum/dsp/fourier/internal/fftpack cannot be imported from the
// harness module (Go's internal rule admits only importers below
// gonum.org/v1/gonum/dsp/fourier), so its entry points are bound by
// //go:linkname to the very symbols the fourier package links against. The
// package is part of every build of this monitor because dsp/fourier imports
// it. The empty file link.s allows the body-less declarations.

import _ "unsafe" // for go:linkname

//go:linkname fpRffti gonum.org/v1/gonum/dsp/fourier/internal/fftpack.Rffti
func fpRffti(n int, work []float64, ifac []int)

//go:linkname fpCffti gonum.org/v1/gonum/dsp/fourier/internal/fftpack.Cffti
func fpCffti(n int, work []float64, ifac []int)

//go:linkname fpCosti gonum.org/v1/gonum/dsp/fourier/internal/fftpack.Costi
func fpCosti(n int, work []float64, ifac []int)

//go:linkname fpSinti gonum.org/v1/gonum/dsp/fourier/internal/fftpack.Sinti
func fpSinti(n int, work []float64, ifac []int)

//go:linkname fpCosqi gonum.org/v1/gonum/dsp/fourier/internal/fftpack.Cosqi
func fpCosqi(n int, work []float64, ifac []int)

//go:linkname fpSinqi gonum.org/v1/gonum/dsp/fourier/internal/fftpack.Sinqi
func fpSinqi(n int, work []float64, ifac []int)

//go:linkname fpRfftf gonum.org/v1/gonum/dsp/fourier/internal/fftpack.Rfftf
func fpRfftf(n int, x, work []float64, ifac []int)

//go:linkname fpRfftb gonum.org/v1/gonum/dsp/fourier/internal/fftpack.Rfftb
func fpRfftb(n int, x, work []float64, ifac []int)

//go:linkname fpCfftf gonum.org/v1/gonum/dsp/fourier/internal/fftpack.Cfftf
func fpCfftf(n int, x, work []float64, ifac []int)

//go:linkname fpCfftb gonum.org/v1/gonum/dsp/fourier/internal/fftpack.Cfftb
func fpCfftb(n int, x, work []float64, ifac []int)

//go:linkname fpCost gonum.org/v1/gonum/dsp/fourier/internal/fftpack.Cost
func fpCost(n int, x, work []float64, ifac []int)

//go:linkname fpSint gonum.org/v1/gonum/dsp/fourier/internal/fftpack.Sint
func fpSint(n int, x, work []float64, ifac []int)

//go:linkname fpCosqf gonum.org/v1/gonum/dsp/fourier/internal/fftpack.Cosqf
func fpCosqf(n int, x, work []float64, ifac []int)

//go:linkname fpCosqb gonum.org/v1/gonum/dsp/fourier/internal/fftpack.Cosqb
func fpCosqb(n int, x, work []float64, ifac []int)

//go:linkname fpSinqf gonum.org/v1/gonum/dsp/fourier/internal/fftpack.Sinqf
func fpSinqf(n int, x, work []float64, ifac []int)

//go:linkname fpSinqb gonum.org/v1/gonum/dsp/fourier/internal/fftpack.Sinqb
func fpSinqb(n int, x, work []float64, ifac []int)
