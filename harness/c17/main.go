// Command c17 is the runtime monitor of property C17: the Fourier-family
// transforms of gonum/dsp equal their defining O(n^2) sums for every length,
// invert with the documented scale, do not depend on the history of the
// transform object or on dst aliasing, and the helpers (Freq/ShiftIdx, radix
// 2/4 free functions, Hilbert, windows) match their definitions.
package main

import (
	"flag"
	"fmt"
	"math"
	"sort"
	"strings"
	"sync"

	"gonum.org/v1/gonum/verifx/vrt"
)

var (
	flagSub        = flag.String("sub", "", "run only the sub-checks whose name contains one of these comma separated strings")
	flagCalibClass = flag.Bool("calibclass", false, "calibration: split the recorded ratios by factor class and size")
	flagCalib      = flag.Bool("calib", false, "calibration: never report band violations, only record worst ratios")
)

const u = vrt.Eps64

func main() { vrt.Main("C17", run) }

type subCheck struct {
	name string
	f    func(c *vrt.Ctx)
}

func run(c *vrt.Ctx) {
	subs := []subCheck{
		{"sums", checkDefiningSums},
		{"columns", checkColumns},
		{"history", checkHistory},
		{"fftpack", checkFFTPack},
		{"radix", checkRadix},
		{"hilbert", checkHilbert},
		{"index", checkIndexHelpers},
		{"window", checkWindows},
		{"domain", checkDomain},
		{"dirty", checkDirtyBuffers},
		{"scaling", checkScaling},
	}
	for _, s := range subs {
		if *flagSub != "" {
			ok := false
			for _, w := range strings.Split(*flagSub, ",") {
				if strings.Contains(s.name, w) {
					ok = true
				}
			}
			if !ok {
				continue
			}
		}
		s.f(c)
	}
	ratios.flush(c)
}

// ---- worst-ratio bookkeeping ------------------------------------------------

// ratioBook records, per band name, the largest observed error as a
// fraction of the allowed band (so 0.01 means a 100x margin). It is written
// to the evidence notes: the calibration of every tolerance is measured on
// each run.
type ratioBook struct {
	mu    sync.Mutex
	worst map[string]float64
	at    map[string]string
}

var ratios = &ratioBook{worst: map[string]float64{}, at: map[string]string{}}

func (b *ratioBook) record(name string, frac float64, where string) {
	b.mu.Lock()
	if _, ok := b.at[name]; !ok || frac > b.worst[name] {
		b.worst[name] = frac
		b.at[name] = where
	}
	b.mu.Unlock()
}

func (b *ratioBook) flush(c *vrt.Ctx) {
	b.mu.Lock()
	defer b.mu.Unlock()
	names := make([]string, 0, len(b.worst))
	for k := range b.worst {
		names = append(names, k)
	}
	sort.Strings(names)
	m := map[string]any{}
	for _, k := range names {
		m[k] = fmt.Sprintf("%.3g of band at %s", b.worst[k], b.at[k])
	}
	c.Note("worst_error_fraction_of_band", m)
}

// within checks err <= band, records the fraction, and returns whether the
// check passed. A NaN error never passes.
func within(name string, err, band float64, where string) bool {
	if math.IsNaN(err) || math.IsInf(err, 0) {
		ratios.record(name, math.Inf(1), where)
		return false
	}
	frac := 0.0
	if band > 0 {
		frac = err / band
	} else if err > 0 {
		frac = math.Inf(1)
	}
	ratios.record(name, frac, where)
	if *flagCalib {
		return true
	}
	return err <= band
}

// ---- small helpers ------------------------------------------------------------

func log2f(n int) float64 {
	if n < 2 {
		return 0
	}
	return math.Log2(float64(n))
}

func bitsOfC(x []complex128) []uint64 {
	b := make([]uint64, 2*len(x))
	for i, v := range x {
		b[2*i] = math.Float64bits(real(v))
		b[2*i+1] = math.Float64bits(imag(v))
	}
	return b
}

func sameBitsF(a, b []float64) int {
	if len(a) != len(b) {
		return 0
	}
	for i := range a {
		if math.Float64bits(a[i]) != math.Float64bits(b[i]) {
			return i
		}
	}
	return -1
}

func sameBitsC(a, b []complex128) int {
	if len(a) != len(b) {
		return 0
	}
	for i := range a {
		if math.Float64bits(real(a[i])) != math.Float64bits(real(b[i])) ||
			math.Float64bits(imag(a[i])) != math.Float64bits(imag(b[i])) {
			return i
		}
	}
	return -1
}

func cloneF(x []float64) []float64       { return append([]float64(nil), x...) }
func cloneC(x []complex128) []complex128 { return append([]complex128(nil), x...) }

func toC(x []float64) []complex128 {
	z := make([]complex128, len(x))
	for i, v := range x {
		z[i] = complex(v, 0)
	}
	return z
}

func hasNaNF(x []float64) bool {
	for _, v := range x {
		if math.IsNaN(v) || math.IsInf(v, 0) {
			return true
		}
	}
	return false
}

func hasNaNC(x []complex128) bool {
	for _, v := range x {
		if math.IsNaN(real(v)) || math.IsNaN(imag(v)) || math.IsInf(real(v), 0) || math.IsInf(imag(v), 0) {
			return true
		}
	}
	return false
}

func maxErrF(got, ref []float64, idx []int) float64 {
	m := 0.0
	for a, i := range idx {
		d := math.Abs(got[i] - ref[a])
		if math.IsNaN(d) {
			return math.NaN()
		}
		if d > m {
			m = d
		}
	}
	return m
}

func maxErrC(got, ref []complex128, idx []int) float64 {
	m := 0.0
	for a, i := range idx {
		d := math.Max(math.Abs(real(got[i])-real(ref[a])), math.Abs(imag(got[i])-imag(ref[a])))
		if math.IsNaN(d) {
			return math.NaN()
		}
		if d > m {
			m = d
		}
	}
	return m
}

// errNormF returns the Euclidean norm of got[idx]-ref.
func errNormF(got, ref []float64, idx []int) float64 {
	var s float64
	for a, i := range idx {
		d := got[i] - ref[a]
		s += d * d
	}
	return math.Sqrt(s)
}

func errNormC(got, ref []complex128, idx []int) float64 {
	var s float64
	for a, i := range idx {
		dr, di := real(got[i])-real(ref[a]), imag(got[i])-imag(ref[a])
		s += dr*dr + di*di
	}
	return math.Sqrt(s)
}

// scaledDiffF returns || back - s*x ||_2.
func scaledDiffF(back, x []float64, s float64) float64 {
	var e float64
	for i := range back {
		d := back[i] - s*x[i]
		e += d * d
	}
	return math.Sqrt(e)
}

// calibName is the band name under which ratios are recorded; in
// calibration mode it is split by factor class and size so that the shape of
// the band can be inspected.
func calibName(name string, m int) string {
	if !*flagCalibClass {
		return name
	}
	f := factorize(m)
	b := 0
	for v := m; v > 1; v >>= 2 {
		b += 2
	}
	g := "g0"
	switch {
	case f.gen > 1000:
		g = "g>1000"
	case f.gen > 100:
		g = "g>100"
	case f.gen > 30:
		g = "g>30"
	case f.gen > 0:
		g = "g>5"
	}
	return fmt.Sprintf("%s@%s,2^%02d", name, g, b)
}

// trim shortens a vector for replay objects.
func trimF(x []float64) []float64 {
	if len(x) > 40 {
		return x[:40]
	}
	return x
}

func trimC(x []complex128) []string {
	n := len(x)
	if n > 24 {
		n = 24
	}
	s := make([]string, n)
	for i := 0; i < n; i++ {
		s[i] = fmt.Sprintf("(%.17g%+.17gi)", real(x[i]), imag(x[i]))
	}
	return s
}
