package main

import (
	"os"
	"path/filepath"
	"strings"
	"sync"
)

// The "documented" scale / formula clauses are checked against the doc
// comments of the tree under test, not against a transcript: the comment
// block above a declaration is read from $VERIF_REPO (vctl sets it; /repo by
// default). If the text a clause was written against is no longer there
// (a documentation fix), the clause is skipped and noted instead of firing
// on stale knowledge.

var (
	docMu    sync.Mutex
	docCache = map[string]string{}
)

func repoRoot() string {
	if r := os.Getenv("VERIF_REPO"); r != "" {
		return r
	}
	return "/repo"
}

// docComment returns the comment block immediately above the first line of
// file (relative to the gonum root) that starts with decl; ok is false if
// the file or the declaration cannot be found.
func docComment(file, decl string) (text string, ok bool) {
	key := file + "\x00" + decl
	docMu.Lock()
	defer docMu.Unlock()
	if t, hit := docCache[key]; hit {
		return t, t != "\x00"
	}
	docCache[key] = "\x00"
	b, err := os.ReadFile(filepath.Join(repoRoot(), file))
	if err != nil {
		return "", false
	}
	lines := strings.Split(string(b), "\n")
	for i, l := range lines {
		if !strings.HasPrefix(l, decl) {
			continue
		}
		var blk []string
		for j := i - 1; j >= 0 && strings.HasPrefix(lines[j], "//"); j-- {
			blk = append([]string{lines[j]}, blk...)
		}
		t := strings.Join(blk, "\n")
		docCache[key] = t
		return t, true
	}
	return "", false
}

// docSays reports whether the doc comment of decl contains needle (spaces
// ignored). known is false when the comment could not be read.
func docSays(file, decl, needle string) (says, known bool) {
	t, ok := docComment(file, decl)
	if !ok {
		return false, false
	}
	squash := func(s string) string { return strings.Join(strings.Fields(s), "") }
	return strings.Contains(squash(t), squash(needle)), true
}
