package main

import (
	"fmt"
	"math"

	"gonum.org/v1/gonum/dsp/transform"
	"gonum.org/v1/gonum/verifx/vrt"
)

// Analytic signal z of a real x of length n (the definition the doc comment
// of (*Hilbert).AnalyticSignal describes step by step): with X = DFT(x),
//
//	H[0] = X[0];  H[k] = 2 X[k], 0 < k < n/2;  H[n/2] = X[n/2] (n even);  H[k] = 0, k > n/2
//	z = IDFT(H) / n.
//
// Consequences checked independently of that reference: Re z = x, and the
// DFT of z has no negative-frequency content.
const cHilbert = 300.0 // worst observed ratio 1.9 (n = 733, constant input): two complex transforms back to back

func checkHilbert(c *vrt.Ctx) {
	plan := planLengths(c)
	lens := plan.all()
	vrt.Parallel(len(lens), func(li int) {
		n := lens[len(lens)-1-li]
		if n > 4200 {
			return
		}
		o := newOracle(n)
		r := c.RNG("hilbert", n)
		var h *transform.Hilbert
		if p := vrt.Try(func() { h = transform.NewHilbert(n) }); p != nil {
			c.Violationf("NewHilbert|"+pathClass(n)+"|panic", map[string]any{"n": n, "panic": p.Msg}, "NewHilbert(%d) panicked: %s", n, p.Msg)
			return
		}
		if h.Len() != n {
			c.Violationf("Hilbert.Len|any|wrong-length", map[string]any{"n": n, "len": h.Len()}, "NewHilbert(%d).Len() = %d", n, h.Len())
		}
		inputs := realInputs(c, "hilbert.in", n, n <= 128)
		for ii, in := range inputs {
			if n > 1024 && ii > 0 {
				break
			}
			x := in.x
			where := fmt.Sprintf("Hilbert.AnalyticSignal n=%d in=%s", n, in.name)
			c.LastCase(where)
			// the object h is reused across inputs (history), dst alternates nil / garbage
			var dst []complex128
			if ii%2 == 1 {
				dst = make([]complex128, n)
				taintC(dst)
			}
			src := cloneF(x)
			var got []complex128
			p := vrt.Try(func() { got = h.AnalyticSignal(dst, src) })
			c.Eval("Hilbert.AnalyticSignal|"+factorize(n).class()+"|"+in.name, n > 1)
			cls := pathClass(n)
			if p != nil {
				c.Violationf("Hilbert.AnalyticSignal|"+cls+"|panic", map[string]any{"n": n, "panic": p.Msg, "stack": p.Stack}, "%s panicked: %s", where, p.Msg)
				return
			}
			if len(got) != n || (dst != nil && &got[0] != &dst[0]) {
				c.Violationf("Hilbert.AnalyticSignal|"+cls+"|result-slice", map[string]any{"n": n}, "%s: wrong length or not dst", where)
				return
			}
			if sameBitsF(src, x) != -1 {
				c.Violationf("Hilbert.AnalyticSignal|"+cls+"|src-modified", map[string]any{"n": n}, "%s: signal modified", where)
			}
			if hasNaNC(got) {
				c.Violationf("Hilbert.AnalyticSignal|"+cls+"|non-finite", map[string]any{"n": n, "x": trimF(x)}, "%s: non-finite output", where)
				continue
			}
			xn := norm2(x)
			band := cHilbert * 2 * shapeC(n) * u * xn // ||z - ref||_2; ||z||_2 <= 2||x||_2... the 1/n is applied by the routine
			// real part is the input
			e := 0.0
			for i := range got {
				d := real(got[i]) - x[i]
				e += d * d
			}
			if e = math.Sqrt(e); !within("Hilbert.real-part", e, band, where) {
				c.Violationf("Hilbert.AnalyticSignal|"+cls+"|real-part-not-input", map[string]any{"n": n, "x": trimF(x), "got": trimC(got)},
					"%s: ||Re z - x||_2 = %.3g (band %.3g)", where, e, band)
			}
			// reference analytic signal and negative-frequency content
			idx := outIdx(r, n)
			X := o.dftReal(x, allIdx(n/2+1))
			H := make([]complex128, n)
			for k := 0; k <= n/2; k++ {
				switch {
				case k == 0, n%2 == 0 && k == n/2:
					H[k] = X[k]
				default:
					H[k] = 2 * X[k]
				}
			}
			ref := o.dftCmplx(H, +1, idx)
			for i := range ref {
				ref[i] /= complex(float64(n), 0)
			}
			if err := errNormC(got, ref, idx); !within("Hilbert.AnalyticSignal", err, band, where) {
				c.Violationf("Hilbert.AnalyticSignal|"+cls+"|defining-sum", map[string]any{"n": n, "x": trimF(x), "got": trimC(got), "want_at_idx": trimC(ref)},
					"%s: ||z - ref||_2 = %.3g (band %.3g)", where, err, band)
			}
			if n <= 1024 {
				var neg []int
				for k := n/2 + 1; k < n; k++ {
					neg = append(neg, k)
				}
				Z := o.dftCmplx(got, -1, neg)
				zero := make([]complex128, len(neg))
				// DFT of z is scaled by n relative to z: compare with n*band
				if err := errNormC(Z, zero, allIdx(len(neg))); !within("Hilbert.negative-frequencies", err, band*math.Sqrt(float64(n)), where) {
					c.Violationf("Hilbert.AnalyticSignal|"+cls+"|negative-frequency-content", map[string]any{"n": n, "x": trimF(x)},
						"%s: spectrum of the analytic signal has negative-frequency content %.3g (band %.3g)", where, err, band*math.Sqrt(float64(n)))
				}
			}
			// history / dst independence, bitwise
			var fresh []complex128
			if p := vrt.Try(func() { fresh = transform.NewHilbert(n).AnalyticSignal(nil, cloneF(x)) }); p == nil {
				c.Eval("Hilbert.AnalyticSignal|fresh-compare", n > 1)
				if i := sameBitsC(got, fresh); i != -1 {
					c.Violationf("Hilbert.AnalyticSignal|"+cls+"|result-depends-on-history", map[string]any{"n": n, "x": trimF(x), "index": i},
						"%s: reused object / dst differs bitwise from a fresh object at %d", where, i)
				}
			}
			c.Digest(fmt.Sprintf("Hilbert.AnalyticSignal|n=%d|%s", n, in.name), "exact", bitsOfC(got)...)
		}
	})
}
