package main

import (
	"fmt"
	"math"

	"gonum.org/v1/gonum/dsp/window"
	"gonum.org/v1/gonum/verifx/vrt"
)

// Window functions against the closed forms of their doc comments, evaluated
// with exactly reduced trigonometric arguments: w[k], k = 0..N-1, N >= 2 (for
// N = 1 every formula except Rectangular is 0/0).
//
// Where a doc-comment formula, read literally, is not the function that is
// implemented (and the implementation is the window the cited references
// define), the monitor keeps two oracles: the reference ("intended") closed
// form, which must hold, and the literal doc formula, whose mismatch is
// reported under the separate clause "doc-formula" — a defect of the
// documentation, see the final report.

// cWindow: |w_got - w_closed| <= cWindow * u * (sum of |coefficients|). The
// implementation evaluates cos(j*x) with x = 2*pi*k/(N-1) rounded, so its
// argument error reaches ~ 4*2*pi*u for the fourth harmonic. Worst observed
// ratio over N <= 3000, all windows and parameters, 5 seeds: 9.5 (FlatTop).
const cWindow = 2000.0

type winDef struct {
	name     string
	real     func([]float64) []float64
	cmplx    func([]complex128) []complex128
	closed   func(k, n int) float64 // reference closed form
	doc      func(k, n int) float64 // literal doc formula when it differs (nil otherwise)
	docMsg   string
	mag      float64 // sum of |coefficients|
	zeroEnds bool    // w[0] = w[N-1] = 0
	maxN     int     // 0: the tier maximum; otherwise lengths 2..maxN only (parameter sweeps)
}

func cosHarm(a []float64) func(k, n int) float64 {
	return func(k, n int) float64 {
		var s acc
		sign := 1.0
		for j, aj := range a {
			cj, _ := cosSinPi(2*int64(j)*int64(k), int64(n-1))
			s.addProd(sign*aj, cj)
			sign = -sign
		}
		return s.sum()
	}
}

var winDefs = []winDef{
	{name: "Rectangular", real: window.Rectangular, cmplx: window.RectangularComplex,
		closed: func(k, n int) float64 { return 1 }, mag: 1},
	{name: "Sine", real: window.Sine, cmplx: window.SineComplex,
		closed: func(k, n int) float64 { _, s := cosSinPi(int64(k), int64(n-1)); return s }, mag: 1, zeroEnds: true},
	{name: "Lanczos", real: window.Lanczos, cmplx: window.LanczosComplex,
		closed: func(k, n int) float64 {
			// sinc(2k/(N-1) - 1) = sin(pi t)/(pi t), t = (2k-(N-1))/(N-1)
			num := int64(2*k - (n - 1))
			if num == 0 {
				return 1
			}
			_, s := cosSinPi(absI(num), int64(n-1))
			return s / (math.Pi * float64(absI(num)) / float64(n-1))
		}, mag: 1, zeroEnds: true},
	{name: "Triangular", real: window.Triangular, cmplx: window.TriangularComplex,
		closed: func(k, n int) float64 { return 1 - math.Abs(float64(2*k-(n-1)))/float64(n-1) }, mag: 1, zeroEnds: true},
	{name: "Hann", real: window.Hann, cmplx: window.HannComplex,
		closed: cosHarm([]float64{0.5, 0.5}), mag: 1, zeroEnds: true},
	{name: "BartlettHann", real: window.BartlettHann, cmplx: window.BartlettHannComplex,
		closed: func(k, n int) float64 {
			c1, _ := cosSinPi(2*int64(k), int64(n-1))
			return 0.62 - 0.48*math.Abs(float64(k)/float64(n-1)-0.5) - 0.38*c1
		}, mag: 1.48, zeroEnds: true},
	{name: "Hamming", real: window.Hamming, cmplx: window.HammingComplex,
		closed: cosHarm([]float64{0.54, 0.46}),
		doc:    cosHarm([]float64{25.0 / 46, 21.0 / 46}),
		docMsg: "doc comment: w[k] = 25/46 - 21/46*cos(2*pi*k/(N-1)); implemented: 0.54 - 0.46*cos(...)",
		mag:    1},
	{name: "Blackman", real: window.Blackman, cmplx: window.BlackmanComplex,
		closed: cosHarm([]float64{0.42, 0.5, 0.08}), mag: 1, zeroEnds: true},
	{name: "BlackmanHarris", real: window.BlackmanHarris, cmplx: window.BlackmanHarrisComplex,
		closed: cosHarm([]float64{0.35875, 0.48829, 0.14128, 0.01168}), mag: 1},
	{name: "Nuttall", real: window.Nuttall, cmplx: window.NuttallComplex,
		closed: cosHarm([]float64{0.355768, 0.487396, 0.144232, 0.012604}), mag: 1},
	{name: "BlackmanNuttall", real: window.BlackmanNuttall, cmplx: window.BlackmanNuttallComplex,
		closed: cosHarm([]float64{0.3635819, 0.4891775, 0.1365995, 0.0106411}), mag: 1},
	{name: "FlatTop", real: window.FlatTop, cmplx: window.FlatTopComplex,
		closed: cosHarm([]float64{0.21557895, 0.41663158, 0.277263158, 0.083578947, 0.006947368}),
		doc: func(k, n int) float64 {
			// literal: the last term is written cos(4*pi*k/(N-1))
			c1, _ := cosSinPi(2*int64(k), int64(n-1))
			c2, _ := cosSinPi(4*int64(k), int64(n-1))
			c3, _ := cosSinPi(6*int64(k), int64(n-1))
			return 0.21557895 - 0.41663158*c1 + 0.277263158*c2 - 0.083578947*c3 + 0.006947368*c2
		},
		docMsg: "doc comment: last term 0.006947368*cos(4*pi*k/(N-1)); implemented (and the flat top window): cos(8*pi*k/(N-1))",
		mag:    1},
}

func absI(x int64) int64 {
	if x < 0 {
		return -x
	}
	return x
}

// tukeyRef is the Tukey (tapered cosine) window of the cited references:
// taper fraction alpha, L = N-1:
//
//	w[k] = 0.5*(1 - cos(2 pi k/(alpha L))),  0 <= k < alpha L/2;  1 in the middle;  w[L-k] = w[k].
func tukeyRef(alpha float64) func(k, n int) float64 {
	return func(k, n int) float64 {
		if alpha <= 0 {
			return 1
		}
		if alpha >= 1 {
			return cosHarm([]float64{0.5, 0.5})(k, n)
		}
		L := float64(n - 1)
		kk := float64(min(k, n-1-k))
		if kk >= alpha*L/2 {
			return 1
		}
		return 0.5 * (1 - math.Cos(2*math.Pi*kk/(alpha*L)))
	}
}

// tukeyDoc is the formula of the Tukey doc comment read literally:
//
//	w[k] = 0.5*(1 + cos(pi*(|k-M| - alpha*M)/((1-alpha)*M))), |k-M| >= alpha*M;  1 otherwise;  M = (N-1)/2
//
// which is the Tukey window with taper fraction 1-alpha.
func tukeyDoc(alpha float64) func(k, n int) float64 {
	return func(k, n int) float64 {
		M := float64(n-1) / 2
		d := math.Abs(float64(k) - M)
		if d < alpha*M {
			return 1
		}
		return 0.5 * (1 + math.Cos(math.Pi*(d-alpha*M)/((1-alpha)*M)))
	}
}

func gaussRef(sigma float64) func(k, n int) float64 {
	return func(k, n int) float64 {
		M := float64(n-1) / 2
		t := (float64(k) - M) / (sigma * M)
		return math.Exp(-0.5 * t * t)
	}
}

func checkWindows(c *vrt.Ctx) {
	checkValuesCallbacks(c)
	maxN := c.Pick(400, 3000)
	defs := append([]winDef(nil), winDefs...)
	for _, s := range []float64{0.05, 0.3, 0.5, 1.2, 7, 1e3} {
		g := window.Gaussian{Sigma: s}
		defs = append(defs, winDef{name: fmt.Sprintf("Gaussian{%g}", s), real: g.Transform, cmplx: g.TransformComplex, closed: gaussRef(s), mag: 1})
	}
	for _, a := range []float64{-1, 0, 1e-9, 0.1, 0.3, 0.5, 0.7, 0.999, 1, 2.5} {
		t := window.Tukey{Alpha: a}
		d := winDef{name: fmt.Sprintf("Tukey{%g}", a), real: t.Transform, cmplx: t.TransformComplex, closed: tukeyRef(a), mag: 1,
			zeroEnds: a > 0}
		if a > 0 && a < 1 && a != 0.5 {
			d.doc = tukeyDoc(a)
			d.docMsg = "doc comment formula is the Tukey window with flat fraction alpha (taper 1-alpha); implemented (and cited references): taper fraction alpha"
		}
		defs = append(defs, d)
	}
	// parameter sweeps over N = 2..64: the Tukey alpha grid 0, 1/steps, .., 1
	// plus seeded irregular values, and a Gaussian sigma grid
	rs := c.RNG("window.sweep")
	steps := c.Pick(40, 200)
	for i := 0; i <= steps+20; i++ {
		a := float64(i) / float64(steps)
		if i > steps {
			a = rs.Float64()
		}
		t := window.Tukey{Alpha: a}
		d := winDef{name: fmt.Sprintf("Tukey{sweep %.6g}", a), real: t.Transform, cmplx: t.TransformComplex, closed: tukeyRef(a), mag: 1, zeroEnds: a > 0, maxN: 64}
		if a > 0 && a < 1 {
			d.doc = tukeyDoc(a)
			d.docMsg = "doc comment formula is the Tukey window with flat fraction alpha (taper 1-alpha); implemented (and cited references): taper fraction alpha"
		}
		defs = append(defs, d)
	}
	for i := 1; i <= c.Pick(30, 120); i++ {
		sg := 0.05 * float64(i)
		if i%4 == 3 {
			sg = 0.02 + 4*rs.Float64()
		}
		g := window.Gaussian{Sigma: sg}
		defs = append(defs, winDef{name: fmt.Sprintf("Gaussian{sweep %.6g}", sg), real: g.Transform, cmplx: g.TransformComplex, closed: gaussRef(sg), mag: 1, maxN: 64})
	}
	type task struct{ d, n int }
	var tasks []task
	for di := range defs {
		top := maxN
		if defs[di].maxN > 0 {
			top = defs[di].maxN
		}
		for n := top; n >= 2; n-- {
			if n > 300 && n%7 != 3 && n&(n-1) != 0 {
				continue
			}
			tasks = append(tasks, task{di, n})
		}
	}
	vrt.Parallel(len(tasks), func(ti int) {
		d, n := defs[tasks[ti].d], tasks[ti].n
		fam := d.name
		if i := indexByte(fam, '{'); i >= 0 {
			fam = fam[:i]
		}
		key := d.name
		if d.maxN > 0 {
			key = fam + "{sweep}"
		}
		r := c.RNG("window."+d.name, n)
		where := fmt.Sprintf("window.%s N=%d", d.name, n)
		c.LastCase(where)
		tol := cWindow * u * d.mag

		// 1. weights: the window applied to all-ones
		ones := make([]float64, n)
		for i := range ones {
			ones[i] = 1
		}
		var w []float64
		if p := vrt.Try(func() { w = d.real(ones) }); p != nil {
			c.Violationf("window."+fam+"|real|panic", map[string]any{"N": n, "panic": p.Msg}, "%s panicked: %s", where, p.Msg)
			return
		}
		c.Eval("window."+key+"|real|ones", true)
		if len(w) != n || &w[0] != &ones[0] {
			c.Violationf("window."+fam+"|real|not-in-place", map[string]any{"N": n}, "%s: result is not the argument slice", where)
			return
		}
		w = cloneF(w)
		worst, worstDoc, at := 0.0, 0.0, 0
		for k := 0; k < n; k++ {
			e := math.Abs(w[k] - d.closed(k, n))
			if math.IsNaN(e) {
				e = math.Inf(1)
			}
			if e > worst {
				worst, at = e, k
			}
			if d.doc != nil {
				worstDoc = math.Max(worstDoc, math.Abs(w[k]-d.doc(k, n)))
			}
		}
		if !within("window."+fam, worst, tol, where) {
			c.Violationf("window."+fam+"|real|closed-form", map[string]any{"N": n, "k": at, "got": w[at], "want": d.closed(at, n), "w": trimF(w)},
				"%s: w[%d] = %.17g, closed form %.17g (|diff| %.3g > %.3g)", where, at, w[at], d.closed(at, n), worst, tol)
		} else if d.doc != nil && worstDoc > tol && n >= 8 && docFormulaPresent(c, fam) {
			c.Violationf("window."+fam+"|doc-formula|differs-from-implementation", map[string]any{"N": n, "max_abs_diff": worstDoc, "note": d.docMsg},
				"%s: implementation matches the reference closed form but differs from the literal doc-comment formula by %.3g. %s", where, worstDoc, d.docMsg)
		}
		// symmetry, end points, coherent gain
		for k := 0; k < n/2; k++ {
			if math.Abs(w[k]-w[n-1-k]) > 2*tol {
				c.Violationf("window."+fam+"|real|asymmetric", map[string]any{"N": n, "k": k, "w_k": w[k], "w_mirror": w[n-1-k]},
					"%s: w[%d] = %.17g but w[%d] = %.17g", where, k, w[k], n-1-k, w[n-1-k])
				break
			}
		}
		if d.zeroEnds && (math.Abs(w[0]) > tol || math.Abs(w[n-1]) > tol) {
			c.Violationf("window."+fam+"|real|end-points", map[string]any{"N": n, "w0": w[0], "wlast": w[n-1]}, "%s: end points %.3g, %.3g, want 0", where, w[0], w[n-1])
		}
		var gGot, gRef acc
		for k := 0; k < n; k++ {
			gGot.add(w[k])
			gRef.add(d.closed(k, n))
		}
		if math.Abs(gGot.sum()-gRef.sum())/float64(n) > tol {
			c.Violationf("window."+fam+"|real|coherent-gain", map[string]any{"N": n, "got": gGot.sum() / float64(n), "want": gRef.sum() / float64(n)},
				"%s: coherent gain %.17g, closed form %.17g", where, gGot.sum()/float64(n), gRef.sum()/float64(n))
		}

		// 2. in-place semantics on a non-symmetric random sequence: seq[k] *= w[k]
		x := r.Floats(n, r.Norm)
		y := cloneF(x)
		if p := vrt.Try(func() { d.real(y) }); p != nil {
			c.Violationf("window."+fam+"|real|panic", map[string]any{"N": n, "panic": p.Msg}, "%s panicked: %s", where, p.Msg)
			return
		}
		c.Eval("window."+key+"|real|rand", true)
		for k := range y {
			want := x[k] * w[k]
			if math.Abs(y[k]-want) > 2*u*math.Abs(want)+1e-300 {
				c.Violationf("window."+fam+"|real|not-elementwise-product", map[string]any{"N": n, "k": k, "x": x[k], "w": w[k], "got": y[k]},
					"%s: seq[%d] = %.17g after windowing, want x*w = %.17g", where, k, y[k], want)
				break
			}
		}
		// 3. complex variant: same real weights on both parts
		z := make([]complex128, n)
		for k := range z {
			z[k] = complex(x[k], r.Norm())
		}
		zc := cloneC(z)
		var zr []complex128
		if p := vrt.Try(func() { zr = d.cmplx(zc) }); p != nil {
			c.Violationf("window."+fam+"Complex|complex|panic", map[string]any{"N": n, "panic": p.Msg}, "%s complex panicked: %s", where, p.Msg)
			return
		}
		c.Eval("window."+key+"|complex|rand", true)
		if len(zr) != n || &zr[0] != &zc[0] {
			c.Violationf("window."+fam+"Complex|complex|not-in-place", map[string]any{"N": n}, "%s complex: result is not the argument slice", where)
			return
		}
		for k := range zr {
			wr, wi := real(z[k])*w[k], imag(z[k])*w[k]
			if math.Abs(real(zr[k])-wr) > 2*u*math.Abs(wr)+1e-300 || math.Abs(imag(zr[k])-wi) > 2*u*math.Abs(wi)+1e-300 {
				clause := "differs-from-real-variant"
				// the specific failure of writing the windowed head over the tail
				if k > n-1-k && zr[k] == zr[n-1-k] && zr[k] != 0 {
					clause = "tail-overwritten-with-mirrored-head"
				}
				c.Violationf("window."+fam+"Complex|complex|"+clause, map[string]any{"N": n, "k": k, "z": fmt.Sprint(z[k]), "w": w[k], "got": fmt.Sprint(zr[k]), "mirror": fmt.Sprint(zr[n-1-k])},
					"%s complex: seq[%d] = %v after windowing, want z*w = (%.17g%+.17gi) with the real variant's weight %.17g", where, k, zr[k], wr, wi, w[k])
				break
			}
		}
		c.Digest(fmt.Sprintf("window.%s|N=%d", d.name, n), "exact", vrt.Bits(y)...)
	})

	// Values: NewValues(window, n) holds the weights; Transform / TransformTo /
	// TransformComplex / TransformComplexTo multiply by them; nil is a no-op.
	for n := 2; n <= 64; n++ {
		r := c.RNG("window.values", n)
		v := window.NewValues(window.Hann, n)
		ref := cosHarm([]float64{0.5, 0.5})
		x := r.Floats(n, r.Norm)
		a := window.Values(nil).Transform(cloneF(x))
		b := v.Transform(cloneF(x))
		dst := make([]float64, n)
		v.TransformTo(dst, x)
		z := toC(x)
		zc := v.TransformComplex(cloneC(z))
		zd := make([]complex128, n)
		v.TransformComplexTo(zd, z)
		c.EvalN("window.Values|all-methods", 5, true)
		for k := 0; k < n; k++ {
			want := x[k] * v[k]
			if math.Abs(v[k]-ref(k, n)) > cWindow*u || a[k] != x[k] || b[k] != want || dst[k] != want || real(zc[k]) != want || real(zd[k]) != want || imag(zc[k]) != 0*v[k] || imag(zd[k]) != 0*v[k] {
				c.Violationf("window.Values|any|wrong-product", map[string]any{"N": n, "k": k}, "window.Values N=%d k=%d: weights or products wrong", n, k)
				break
			}
		}
	}
}

func indexByte(s string, b byte) int {
	for i := 0; i < len(s); i++ {
		if s[i] == b {
			return i
		}
	}
	return -1
}

// docFormulaPresent reports whether the doc comment of the window family in
// the tree under test still carries the formula the literal-doc oracle was
// transcribed from.
func docFormulaPresent(c *vrt.Ctx, fam string) bool {
	var says, known bool
	switch fam {
	case "Hamming":
		says, known = docSays("dsp/window/window.go", "func Hamming(", "w[k] = 25/46 - 21/46 * cos(2*π*k/(N-1))")
	case "FlatTop":
		says, known = docSays("dsp/window/window.go", "func FlatTop(", "0.006947368*cos(4*π*k/(N-1))")
	case "Tukey":
		says, known = docSays("dsp/window/window_parametric.go", "type Tukey struct", "w[k] = 0.5 * (1 + cos(π*(|k - M| - αM)/((1-α) * M))), |k - M| ≥ αM")
	}
	if !known || !says {
		c.Note("doc_formula_clause_skipped."+fam, "doc comment not readable or no longer carries the transcribed formula")
	}
	return says && known
}
