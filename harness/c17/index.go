package main

import (
	"math"

	"gonum.org/v1/gonum/dsp/fourier"
	"gonum.org/v1/gonum/verifx/vrt"
)

// Freq, ShiftIdx, UnshiftIdx for every n <= maxN and every index.
//
//   - FFT.Freq(i) = i/n (relative frequency of half-complex coefficient i).
//   - CmplxFFT.Freq(i) = i/n for i < n/2, (i-n)/n for i > n/2; the Nyquist
//     bin of an even n is +-1/2 (either sign is a relative frequency centre
//     of that bin; gonum and numpy use -1/2).
//   - ShiftIdx is a permutation, UnshiftIdx its inverse, and reading the
//     coefficients through ShiftIdx gives strictly increasing frequencies
//     (which puts the zero frequency in the centre).
//   - out-of-range indices panic (documented).
func checkIndexHelpers(c *vrt.Ctx) {
	maxN := c.Pick(600, 3000)
	vrt.Parallel(maxN, func(k int) {
		n := k + 1
		rf := fourier.NewFFT(n)
		cf := fourier.NewCmplxFFT(n)
		tol := func(w float64) float64 { return 4 * u * math.Abs(w) }
		perm := make([]int, n)
		seen := make([]bool, n)
		prev := math.Inf(-1)
		for i := 0; i < n; i++ {
			c.LastCase("index helpers")
			var f1, f2 float64
			var s, us int
			p := vrt.Try(func() {
				f1 = rf.Freq(i)
				f2 = cf.Freq(i)
				s = cf.ShiftIdx(i)
				us = cf.UnshiftIdx(i)
			})
			if p != nil {
				c.Violationf("index-helpers|in-range|panic", map[string]any{"n": n, "i": i, "panic": p.Msg}, "n=%d i=%d: %s", n, i, p.Msg)
				return
			}
			w := float64(i) / float64(n)
			if math.Abs(f1-w) > tol(w) {
				c.Violationf("FFT.Freq|any|not-i/n", map[string]any{"n": n, "i": i, "got": f1}, "FFT(%d).Freq(%d) = %g, want %g", n, i, f1, w)
			}
			w2 := w
			if 2*i > n {
				w2 = float64(i-n) / float64(n)
			}
			okf := math.Abs(f2-w2) <= tol(w2)
			if 2*i == n && !okf {
				okf = math.Abs(f2+0.5) <= tol(0.5)
			}
			if !okf {
				c.Violationf("CmplxFFT.Freq|any|not-signed-i/n", map[string]any{"n": n, "i": i, "got": f2}, "CmplxFFT(%d).Freq(%d) = %g, want %g", n, i, f2, w2)
			}
			if s < 0 || s >= n || us < 0 || us >= n {
				c.Violationf("CmplxFFT.ShiftIdx|any|out-of-range", map[string]any{"n": n, "i": i, "shift": s, "unshift": us}, "n=%d i=%d: ShiftIdx=%d UnshiftIdx=%d", n, i, s, us)
				return
			}
			if seen[s] {
				c.Violationf("CmplxFFT.ShiftIdx|any|not-a-permutation", map[string]any{"n": n, "i": i, "shift": s}, "n=%d: ShiftIdx hits %d twice", n, s)
			}
			seen[s] = true
			perm[i] = s
			var back, back2 int
			vrt.Try(func() { back = cf.UnshiftIdx(s); back2 = cf.ShiftIdx(us) })
			if back != i || back2 != i {
				c.Violationf("CmplxFFT.UnshiftIdx|any|not-inverse-of-ShiftIdx", map[string]any{"n": n, "i": i, "shift": s, "unshift_of_shift": back, "shift_of_unshift": back2},
					"n=%d i=%d: UnshiftIdx(ShiftIdx(i)) = %d, ShiftIdx(UnshiftIdx(i)) = %d", n, i, back, back2)
			}
			var fs float64
			vrt.Try(func() { fs = cf.Freq(s) })
			if !(fs > prev) {
				c.Violationf("CmplxFFT.ShiftIdx|any|frequencies-not-increasing", map[string]any{"n": n, "i": i, "shift": s, "freq": fs, "prev": prev},
					"n=%d: Freq(ShiftIdx(%d)) = %g is not above the previous %g", n, i, fs, prev)
			}
			prev = fs
		}
		c.EvalN("index-helpers|Freq,ShiftIdx,UnshiftIdx", 4*n, n > 1)
		// out of range
		for _, i := range []int{-1, n, n + 1} {
			for name, f := range map[string]func(){
				"FFT.Freq":            func() { rf.Freq(i) },
				"CmplxFFT.Freq":       func() { cf.Freq(i) },
				"CmplxFFT.ShiftIdx":   func() { cf.ShiftIdx(i) },
				"CmplxFFT.UnshiftIdx": func() { cf.UnshiftIdx(i) },
			} {
				c.Eval(name+"|out-of-range", true)
				if vrt.Try(f) == nil {
					c.Violationf(name+"|out-of-range|no-panic", map[string]any{"n": n, "i": i}, "%s(%d) on length %d did not panic", name, i, n)
				}
			}
		}
	})
}
