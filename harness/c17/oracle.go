package main

// Reference model for C17: the O(n^2) defining sums of the Fourier-family
// transforms, evaluated with twiddles from math.Sincos on exactly reduced
// arguments and compensated (two-product + Neumaier) accumulation. Nothing in
// this file calls gonum.
//
// Definitions (0-based, transcribed from the FFTPACK documentation of rfftf,
// rfftb, cfftf, cfftb, cost, sint, cosqf, cosqb, sinqf, sinqb; the gonum
// fftpack doc comments carry the same text, partly re-indexed):
//
//	DFT     X[k] = sum_j x[j] exp(-2 pi i jk/n)
//	IDFT    x[j] = sum_k X[k] exp(+2 pi i jk/n)            (unnormalised)
//	DCT-I   y[i] = x[0] + (-1)^i x[n-1] + sum_{k=1}^{n-2} 2 x[k] cos(pi k i/(n-1))
//	DST-I   y[i] = sum_{k=0}^{n-1} 2 x[k] sin(pi (k+1)(i+1)/(n+1))
//	cosqf   y[i] = x[0] + sum_{k=1}^{n-1} 2 x[k] cos(pi (2i+1) k/(2n))
//	cosqb   y[i] = sum_{k=0}^{n-1} 4 x[k] cos(pi (2k+1) i/(2n))
//	sinqf   y[i] = (-1)^i x[n-1] + sum_{k=0}^{n-2} 2 x[k] sin(pi (2i+1)(k+1)/(2n))
//	sinqb   y[i] = sum_{k=0}^{n-1} 4 x[k] sin(pi (2k+1)(i+1)/(2n))

import "math"

// cosSinPi returns cos(pi*p/q), sin(pi*p/q) for integers p >= 0, q > 0. The
// argument is reduced exactly in integer arithmetic to [0, pi/4] before the
// single call of math.Sincos, so the result carries about one rounding error
// independent of the size of p.
func cosSinPi(p, q int64) (c, s float64) {
	r := p % (2 * q)
	if r < 0 {
		r += 2 * q
	}
	neg := false
	if r >= q { // theta -> theta - pi
		r -= q
		neg = true
	}
	// r in [0,q): theta in [0,pi)
	negc := false
	if 2*r > q { // theta -> pi - theta
		r = q - r
		negc = true
	}
	// theta in [0, pi/2]
	switch {
	case r == 0:
		c, s = 1, 0
	case 2*r == q:
		c, s = 0, 1
	case 4*r == q:
		c, s = math.Sqrt2/2, math.Sqrt2/2
	case 6*r == q:
		c, s = math.Sqrt(3)/2, 0.5
	case 3*r == q:
		c, s = 0.5, math.Sqrt(3)/2
	case 4*r < q:
		s, c = math.Sincos(math.Pi * float64(r) / float64(q))
	default: // pi/4 < theta < pi/2 : use the complement
		c, s = math.Sincos(math.Pi * float64(q-2*r) / float64(2*q))
	}
	if negc {
		c = -c
	}
	if neg {
		c, s = -c, -s
	}
	return c, s
}

// trigTab holds cos and sin of 2*pi*r/m for r in [0,m).
type trigTab struct {
	m    int
	c, s []float64
}

func newTrigTab(m int) *trigTab {
	t := &trigTab{m: m, c: make([]float64, m), s: make([]float64, m)}
	for r := 0; r < m; r++ {
		t.c[r], t.s[r] = cosSinPi(2*int64(r), int64(m))
	}
	return t
}

// acc is a compensated accumulator of products: every product is split into
// its rounded value and its exact rounding error with a fused multiply-add,
// and the running sum is Neumaier-compensated.
type acc struct{ s, c float64 }

func (a *acc) add(x float64) {
	t := a.s + x
	if math.Abs(a.s) >= math.Abs(x) {
		a.c += (a.s - t) + x
	} else {
		a.c += (x - t) + a.s
	}
	a.s = t
}

func (a *acc) addProd(x, y float64) {
	p := x * y
	e := math.FMA(x, y, -p)
	a.add(p)
	a.c += e
}

func (a *acc) sum() float64 { return a.s + a.c }

// allIdx returns 0..n-1.
func allIdx(n int) []int {
	ix := make([]int, n)
	for i := range ix {
		ix[i] = i
	}
	return ix
}

// oracle bundles the trig tables for one length n.
type oracle struct {
	n   int
	dft *trigTab // 2 pi r / n
	dct *trigTab // pi r / (n-1)   = 2 pi r / (2(n-1))   (n >= 2)
	dst *trigTab // pi r / (n+1)   = 2 pi r / (2(n+1))
	qw  *trigTab // pi r / (2n)    = 2 pi r / (4n)
}

func newOracle(n int) *oracle { return &oracle{n: n} }

func (o *oracle) tDFT() *trigTab {
	if o.dft == nil {
		o.dft = newTrigTab(o.n)
	}
	return o.dft
}
func (o *oracle) tDCT() *trigTab {
	if o.dct == nil {
		o.dct = newTrigTab(2 * (o.n - 1))
	}
	return o.dct
}
func (o *oracle) tDST() *trigTab {
	if o.dst == nil {
		o.dst = newTrigTab(2 * (o.n + 1))
	}
	return o.dst
}
func (o *oracle) tQW() *trigTab {
	if o.qw == nil {
		o.qw = newTrigTab(4 * o.n)
	}
	return o.qw
}

// dftReal returns X[k] for k in ks of the real sequence x.
func (o *oracle) dftReal(x []float64, ks []int) []complex128 {
	n, t := o.n, o.tDFT()
	out := make([]complex128, len(ks))
	for a, k := range ks {
		var re, im acc
		idx := 0
		for j := 0; j < n; j++ {
			re.addProd(x[j], t.c[idx])
			im.addProd(x[j], -t.s[idx])
			idx += k
			if idx >= n {
				idx -= n
			}
		}
		out[a] = complex(re.sum(), im.sum())
	}
	return out
}

// dftCmplx returns sum_j x[j] exp(sign * 2 pi i jk/n) for k in ks.
func (o *oracle) dftCmplx(x []complex128, sign float64, ks []int) []complex128 {
	n, t := o.n, o.tDFT()
	out := make([]complex128, len(ks))
	for a, k := range ks {
		var re, im acc
		idx := 0
		for j := 0; j < n; j++ {
			c, s := t.c[idx], sign*t.s[idx]
			xr, xi := real(x[j]), imag(x[j])
			// (xr + i xi)(c + i s)
			re.addProd(xr, c)
			re.addProd(xi, -s)
			im.addProd(xr, s)
			im.addProd(xi, c)
			idx += k
			if idx >= n {
				idx -= n
			}
		}
		out[a] = complex(re.sum(), im.sum())
	}
	return out
}

// realSeq returns the real sequence of the half-complex spectrum coeff
// (len n/2+1) at positions js: the unnormalised inverse DFT of its Hermitian
// extension. The imaginary parts of coeff[0] and (n even) coeff[n/2] do not
// enter (they are zero for any spectrum of a real sequence).
func (o *oracle) realSeq(coeff []complex128, js []int) []float64 {
	n, t := o.n, o.tDFT()
	out := make([]float64, len(js))
	for a, j := range js {
		var s acc
		s.add(real(coeff[0]))
		if n%2 == 0 && n > 1 {
			v := real(coeff[n/2])
			if j%2 == 1 {
				v = -v
			}
			s.add(v)
		}
		idx := 0
		for k := 1; k < (n+1)/2; k++ {
			idx += j
			if idx >= n {
				idx -= n
			}
			s.addProd(2*real(coeff[k]), t.c[idx])
			s.addProd(-2*imag(coeff[k]), t.s[idx])
		}
		out[a] = s.sum()
	}
	return out
}

func (o *oracle) dct1(x []float64, is []int) []float64 {
	n, t := o.n, o.tDCT()
	m := 2 * (n - 1)
	out := make([]float64, len(is))
	for a, i := range is {
		var s acc
		s.add(x[0])
		if i%2 == 1 {
			s.add(-x[n-1])
		} else {
			s.add(x[n-1])
		}
		idx := 0
		for k := 1; k < n-1; k++ {
			idx += i
			if idx >= m {
				idx -= m
			}
			s.addProd(2*x[k], t.c[idx])
		}
		out[a] = s.sum()
	}
	return out
}

func (o *oracle) dst1(x []float64, is []int) []float64 {
	n, t := o.n, o.tDST()
	m := 2 * (n + 1)
	out := make([]float64, len(is))
	for a, i := range is {
		var s acc
		idx := 0
		for k := 0; k < n; k++ {
			idx += i + 1
			for idx >= m {
				idx -= m
			}
			s.addProd(2*x[k], t.s[idx])
		}
		out[a] = s.sum()
	}
	return out
}

func (o *oracle) cosqf(x []float64, is []int) []float64 {
	n, t := o.n, o.tQW()
	m := 4 * n
	out := make([]float64, len(is))
	for a, i := range is {
		var s acc
		s.add(x[0])
		idx := 0
		for k := 1; k < n; k++ {
			idx += 2*i + 1
			for idx >= m {
				idx -= m
			}
			s.addProd(2*x[k], t.c[idx])
		}
		out[a] = s.sum()
	}
	return out
}

func (o *oracle) cosqb(x []float64, is []int) []float64 {
	n, t := o.n, o.tQW()
	m := 4 * n
	out := make([]float64, len(is))
	for a, i := range is {
		var s acc
		idx := i % m // (2k+1) i for k = 0
		for k := 0; k < n; k++ {
			s.addProd(4*x[k], t.c[idx])
			idx += 2 * i
			for idx >= m {
				idx -= m
			}
		}
		out[a] = s.sum()
	}
	return out
}

func (o *oracle) sinqf(x []float64, is []int) []float64 {
	n, t := o.n, o.tQW()
	m := 4 * n
	out := make([]float64, len(is))
	for a, i := range is {
		var s acc
		if i%2 == 1 {
			s.add(-x[n-1])
		} else {
			s.add(x[n-1])
		}
		idx := 0
		for k := 0; k < n-1; k++ {
			idx += 2*i + 1
			for idx >= m {
				idx -= m
			}
			s.addProd(2*x[k], t.s[idx])
		}
		out[a] = s.sum()
	}
	return out
}

func (o *oracle) sinqb(x []float64, is []int) []float64 {
	n, t := o.n, o.tQW()
	m := 4 * n
	out := make([]float64, len(is))
	for a, i := range is {
		var s acc
		idx := (i + 1) % m // (2k+1)(i+1) for k = 0
		for k := 0; k < n; k++ {
			s.addProd(4*x[k], t.s[idx])
			idx += 2 * (i + 1)
			for idx >= m {
				idx -= m
			}
		}
		out[a] = s.sum()
	}
	return out
}

// norm2 returns the Euclidean norm of x.
func norm2(x []float64) float64 {
	var scale, ssq float64 = 0, 1
	for _, v := range x {
		if v == 0 {
			continue
		}
		a := math.Abs(v)
		if scale < a {
			ssq = 1 + ssq*(scale/a)*(scale/a)
			scale = a
		} else {
			ssq += (a / scale) * (a / scale)
		}
	}
	return scale * math.Sqrt(ssq)
}

func norm2c(x []complex128) float64 {
	f := make([]float64, 2*len(x))
	for i, v := range x {
		f[2*i], f[2*i+1] = real(v), imag(v)
	}
	return norm2(f)
}

// factorInfo describes the FFTPACK factorisation of m: the radices used
// (4, 2, 3, 5 tried first, then odd numbers 7, 9, 11, ... — so a general
// radix is always a prime > 5) and the largest general radix.
type factorInfo struct {
	has  [6]bool // has[2..5]
	gen  int     // largest general radix (0 if none)
	ngen int     // number of general-radix passes
	nf   int
}

func factorize(m int) factorInfo {
	var f factorInfo
	if m < 2 {
		return f
	}
	nl := m
	for _, p := range []int{4, 2, 3, 5} {
		for nl%p == 0 {
			f.has[p] = true
			nl /= p
			f.nf++
		}
	}
	for p := 7; nl > 1; p += 2 {
		for nl%p == 0 {
			if p > f.gen {
				f.gen = p
			}
			f.ngen++
			nl /= p
			f.nf++
		}
	}
	return f
}

// class is the factor-pattern class used in evaluation keys.
func (f factorInfo) class() string {
	s := "r{"
	for _, p := range []int{4, 2, 3, 5} {
		if f.has[p] {
			s += string(rune('0' + p))
		}
	}
	switch {
	case f.ngen == 1:
		s += "g"
	case f.ngen > 1:
		s += "gg"
	}
	if f.nf == 0 {
		s += "-"
	}
	return s + "}"
}
