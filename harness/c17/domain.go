package main

import (
	"fmt"

	"gonum.org/v1/gonum/dsp/fourier"
	"gonum.org/v1/gonum/dsp/transform"
	"gonum.org/v1/gonum/dsp/window"
	"gonum.org/v1/gonum/verifx/vrt"
)

// Documented rejections: every transform method panics when the sequence or
// a non-nil destination has the wrong length, NewDCT/Reset panic for n <= 1,
// window.Values panics on a length mismatch. A call that is accepted instead
// would read or write a slice of the wrong size with stale tables.
func checkDomain(c *vrt.Ctx) {
	must := func(name, what string, n int, f func()) {
		c.Eval(name+"|rejects|"+what, true)
		c.LastCase(fmt.Sprintf("domain %s %s n=%d", name, what, n))
		if p := vrt.Try(f); p == nil {
			c.Violationf(name+"|wrong-length-"+what+"|no-panic", map[string]any{"n": n}, "%s (object length %d) accepted a %s of the wrong length (documented: will panic)", name, n, what)
		}
	}
	for _, n := range []int{1, 2, 3, 4, 5, 8, 9, 16, 17, 30} {
		for _, d := range []int{-1, 1} {
			m := n + d
			if m < 0 {
				continue
			}
			fr := fourier.NewFFT(n)
			must("FFT.Coefficients", "seq", n, func() { fr.Coefficients(nil, make([]float64, m)) })
			must("FFT.Coefficients", "dst", n, func() { fr.Coefficients(make([]complex128, n/2+1+d), make([]float64, n)) })
			must("FFT.Sequence", "coeff", n, func() { fr.Sequence(nil, make([]complex128, n/2+1+d)) })
			if m != n/2+1 { // the doc comment says dst must have "the length of coeff" (a slip for t.Len()): do not demand a panic there
				must("FFT.Sequence", "dst", n, func() { fr.Sequence(make([]float64, m), make([]complex128, n/2+1)) })
			}
			fc := fourier.NewCmplxFFT(n)
			must("CmplxFFT.Coefficients", "seq", n, func() { fc.Coefficients(nil, make([]complex128, m)) })
			must("CmplxFFT.Coefficients", "dst", n, func() { fc.Coefficients(make([]complex128, m), make([]complex128, n)) })
			must("CmplxFFT.Sequence", "coeff", n, func() { fc.Sequence(nil, make([]complex128, m)) })
			must("CmplxFFT.Sequence", "dst", n, func() { fc.Sequence(make([]complex128, m), make([]complex128, n)) })
			for _, k := range r2rKinds {
				if n < k.minN {
					continue
				}
				f := k.call(n)
				must(k.name, "src", n, func() { f(nil, make([]float64, m)) })
				if m > 0 {
					must(k.name, "dst", n, func() { f(make([]float64, m), make([]float64, n)) })
				}
			}
			h := transform.NewHilbert(n)
			must("Hilbert.AnalyticSignal", "signal", n, func() { h.AnalyticSignal(nil, make([]float64, m)) })
			if m > 0 {
				must("Hilbert.AnalyticSignal", "dst", n, func() { h.AnalyticSignal(make([]complex128, m), make([]float64, n)) })
			}
			v := window.NewValues(window.Hann, n+1)
			must("window.Values.Transform", "seq", n+1, func() { v.Transform(make([]float64, m+1)) })
			must("window.Values.TransformTo", "src", n+1, func() { v.TransformTo(make([]float64, n+1), make([]float64, m+1)) })
			must("window.Values.TransformTo", "dst", n+1, func() { v.TransformTo(make([]float64, m+1), make([]float64, n+1)) })
			must("window.Values.TransformComplex", "seq", n+1, func() { v.TransformComplex(make([]complex128, m+1)) })
			must("window.Values.TransformComplexTo", "src", n+1, func() { v.TransformComplexTo(make([]complex128, n+1), make([]complex128, m+1)) })
			must("window.Values.TransformComplexTo", "dst", n+1, func() { v.TransformComplexTo(make([]complex128, m+1), make([]complex128, n+1)) })
		}
	}
	for _, n := range []int{-3, 0, 1} {
		must("NewDCT", "n<=1", n, func() { fourier.NewDCT(n) })
		must("DCT.Reset", "n<=1", n, func() { fourier.NewDCT(5).Reset(n) })
	}
	// nil Values are no-ops
	x := []float64{1, 2, 3}
	var nv window.Values
	nv.TransformTo(make([]float64, 1), x)
	nv.TransformComplexTo(make([]complex128, 1), toC(x))
	if y := nv.TransformComplex(toC(x)); len(y) != 3 || real(y[2]) != 3 {
		c.Violation("window.Values|nil|not-a-no-op", "nil Values changed the sequence", nil)
	}
	c.EvalN("window.Values|nil|no-op", 3, false)
}
