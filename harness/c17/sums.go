package main

import (
	"fmt"
	"math"
	"sort"

	"gonum.org/v1/gonum/dsp/fourier"
	"gonum.org/v1/gonum/verifx/vrt"
)

// ---- tolerance bands ----------------------------------------------------------
//
// Every band is normwise:
//
//	|| got - sum ||_2  <=  C * shape(n) * u * K * sqrt(n) * ||x||_2
//
// over the compared outputs (K = the coefficient of the defining sum: 1 DFT, 2
// DCT/DST/forward quarter-wave and real synthesis, 4 backward quarter-wave;
// K*sqrt(n)*||x|| bounds the norm of the exact output). A per-element band
// relative to ||x|| alone is wrong for concentrated spectra (constant,
// alternating, tones), whose one large coefficient legitimately carries an
// error of u*log n*|X_k| ~ u*log n*sqrt(n)*||x||.
//
// The shape is the measured one (DESIGN C17): complex passes ~ log2 n; the
// real transform's general-radix passes radfg/radbg run trigonometric
// recurrences whose error grows like p^2/8 for a prime factor p > 5 (the
// ratio err/band is flat, 0.5 .. 1.3, from n = 7 to n = 9973 with this shape).
// The constants C are the worst ratio observed on the pinned tree over seeds
// 1,2,3,7,42 in both tiers times >= 100; every run re-measures the margin
// and writes it to the evidence (note worst_error_fraction_of_band).

// shapeC is the band shape of the complex transform of length n.
func shapeC(n int) float64 { return 1 + log2f(n) }

// shapeR is the band shape of anything built on the real transform of
// length m: general radix p contributes p^2/8.
func shapeR(m int) float64 {
	f := factorize(m)
	g := float64(f.gen)
	return 1 + log2f(m) + g*g/8
}

// Worst observed ratio err/(shape*u*K*sqrt(n)*||x||) on the pinned tree,
// seeds 1,2,3,7,42, quick and thorough tiers (columns, sums and direct
// fftpack calls together); every constant is >= 100x that ratio.
const (
	cCmplx    = 300.0 // worst 2.41 (CmplxFFT, n = 379 prime, constant input)
	cReal     = 200.0 // worst 1.46 (FFT.Coefficients n = 3 sine tone; FFT.Sequence 1.34)
	cCosSin   = 400.0 // worst 2.53 (DST n = 2: FFTPACK's 15-digit sqrt(3); DCT 0.93)
	cQuarter  = 200.0 // worst 1.68 (QuarterWaveFFT.*Sequence n = 3 tone)
	cRound    = 300.0 // worst 2.76 (DST n = 2 round trip), others <= 2.1
	cRealCplx = 150.0 // worst 1.13 (FFT vs CmplxFFT, n = 361)
)

// pathClass is the coarse factor-pattern class used in violation signatures.
func pathClass(m int) string {
	f := factorize(m)
	switch {
	case m <= 1:
		return "n=1"
	case f.gen > 0:
		return "general-radix"
	case f.has[3] || f.has[5]:
		return "radix-2345"
	default:
		return "radix-24"
	}
}

// ---- inputs -------------------------------------------------------------------

type realInput struct {
	name string
	x    []float64
}

func realInputs(c *vrt.Ctx, stream string, n int, rich bool) []realInput {
	r := c.RNG(stream, n)
	in := []realInput{{"rand", r.Floats(n, r.Norm)}}
	if rich {
		in = append(in, realInput{"rand-sparse", r.Floats(n, r.SmallFinite)})
		w := make([]float64, n)
		for i := range w {
			w[i] = r.Norm() * math.Ldexp(1, r.Range(-30, 30))
		}
		in = append(in, realInput{"rand-wide", w})
	}
	cst := make([]float64, n)
	alt := make([]float64, n)
	for i := range cst {
		cst[i] = 1.5
		alt[i] = 0.75
		if i%2 == 1 {
			alt[i] = -0.75
		}
	}
	in = append(in, realInput{"const", cst}, realInput{"alt", alt})
	return in
}

func randC(r *vrt.Rand, n int) []complex128 {
	z := make([]complex128, n)
	for i := range z {
		z[i] = complex(r.Norm(), r.Norm())
	}
	return z
}

// outIdx returns the output indices compared against the O(n^2) sum: all of
// them up to fullOutputs, a fixed set of edge indices plus 160 seeded ones
// beyond (the complete output is still cross-checked by the round-trip and
// real-vs-complex comparisons).
const fullOutputs = 1024

func outIdx(r *vrt.Rand, m int) []int {
	if m <= fullOutputs {
		return allIdx(m)
	}
	set := map[int]bool{}
	for _, i := range []int{0, 1, 2, 3, m/4 - 1, m / 4, m/3 + 1, m/2 - 1, m / 2, m/2 + 1, m - 3, m - 2, m - 1} {
		if i >= 0 && i < m {
			set[i] = true
		}
	}
	for len(set) < 173 {
		set[r.Intn(m)] = true
	}
	ix := make([]int, 0, len(set))
	for i := range set {
		ix = append(ix, i)
	}
	sort.Ints(ix)
	return ix
}

// ---- real <-> real transforms ----------------------------------------------------

type r2r struct {
	name   string // gonum routine
	minN   int
	call   func(n int) func(dst, src []float64) []float64 // method value of a fresh object
	ref    func(o *oracle, x []float64, is []int) []float64
	under  func(n int) int // length of the underlying real FFT
	k      float64
	c      float64
	inv    string              // name of the inverse routine
	scale  func(n int) float64 // true scale of inv(this(x)) implied by the defining sums
	docScl func(n int) float64 // scale stated in the gonum doc comment
	spec   func(n int) bool    // n handled by a special-case branch
	recur  bool                // post-processing by running sums (cost, sint)
}

var r2rKinds = []*r2r{
	{
		name: "DCT.Transform", minN: 2,
		call:  func(n int) func(dst, src []float64) []float64 { return fourier.NewDCT(n).Transform },
		ref:   (*oracle).dct1,
		under: func(n int) int { return n - 1 }, k: 2, c: cCosSin,
		inv:    "DCT.Transform",
		scale:  func(n int) float64 { return 2 * float64(n-1) },
		docScl: func(n int) float64 { return 2 * float64(n-1) },
		spec:   func(n int) bool { return n <= 3 }, recur: true,
	},
	{
		name: "DST.Transform", minN: 1,
		call:  func(n int) func(dst, src []float64) []float64 { return fourier.NewDST(n).Transform },
		ref:   (*oracle).dst1,
		under: func(n int) int { return n + 1 }, k: 2, c: cCosSin,
		inv:   "DST.Transform",
		scale: func(n int) float64 { return 2 * float64(n+1) },
		// The doc comment of (*DST).Transform says 2*(n-1).
		docScl: func(n int) float64 { return 2 * float64(n-1) },
		spec:   func(n int) bool { return n <= 2 }, recur: true,
	},
	{
		name: "QuarterWaveFFT.CosCoefficients", minN: 1,
		call:  func(n int) func(dst, src []float64) []float64 { return fourier.NewQuarterWaveFFT(n).CosCoefficients },
		ref:   (*oracle).cosqf,
		under: func(n int) int { return n }, k: 2, c: cQuarter,
		inv:    "QuarterWaveFFT.CosSequence",
		scale:  func(n int) float64 { return 4 * float64(n) },
		docScl: func(n int) float64 { return 4 * float64(n) },
		spec:   func(n int) bool { return n <= 2 },
	},
	{
		name: "QuarterWaveFFT.CosSequence", minN: 1,
		call:  func(n int) func(dst, src []float64) []float64 { return fourier.NewQuarterWaveFFT(n).CosSequence },
		ref:   (*oracle).cosqb,
		under: func(n int) int { return n }, k: 4, c: cQuarter,
		inv:    "QuarterWaveFFT.CosCoefficients",
		scale:  func(n int) float64 { return 4 * float64(n) },
		docScl: func(n int) float64 { return 4 * float64(n) },
		spec:   func(n int) bool { return n <= 2 },
	},
	{
		name: "QuarterWaveFFT.SinCoefficients", minN: 1,
		call:  func(n int) func(dst, src []float64) []float64 { return fourier.NewQuarterWaveFFT(n).SinCoefficients },
		ref:   (*oracle).sinqf,
		under: func(n int) int { return n }, k: 2, c: cQuarter,
		inv:    "QuarterWaveFFT.SinSequence",
		scale:  func(n int) float64 { return 4 * float64(n) },
		docScl: func(n int) float64 { return 4 * float64(n) },
		spec:   func(n int) bool { return n <= 2 },
	},
	{
		name: "QuarterWaveFFT.SinSequence", minN: 1,
		call:  func(n int) func(dst, src []float64) []float64 { return fourier.NewQuarterWaveFFT(n).SinSequence },
		ref:   (*oracle).sinqb,
		under: func(n int) int { return n }, k: 4, c: cQuarter,
		inv:    "QuarterWaveFFT.SinCoefficients",
		scale:  func(n int) float64 { return 4 * float64(n) },
		docScl: func(n int) float64 { return 4 * float64(n) },
		spec:   func(n int) bool { return n <= 2 },
	},
}

func r2rByName(name string) *r2r {
	for _, k := range r2rKinds {
		if k.name == name {
			return k
		}
	}
	panic("no kind " + name)
}

// docStillSays reports whether the doc comment of the routine in the tree
// under test still states the scale docScl (only the DST differs from the
// defining-sum scale: its comment says 2*(n-1)).
func (k *r2r) docStillSays() bool {
	if k.name != "DST.Transform" {
		return true
	}
	says, known := docSays("dsp/fourier/sincos.go", "func (t *DST) Transform(", "multiply the input sequence by 2*(n-1)")
	return says && known
}

func (k *r2r) class(n int) string {
	if k.spec(n) {
		return "special-n"
	}
	return pathClass(k.under(n))
}

// shape is the band shape of routine k at length n. The cosine and sine
// transforms post-process the real FFT with a running-sum recurrence
// (x[i] = x[i-2] -+ x[i-1]) that carries the absolute error of a dominant
// coefficient into every later output: for concentrated spectra (constant,
// alternating, tones) the measured normwise error grows like sqrt(n) log n.
func (k *r2r) shape(n int) float64 {
	s := shapeR(k.under(n))
	if k.recur {
		s += math.Sqrt(float64(n)) * (1 + log2f(n))
	}
	return s
}

func (k *r2r) band(n int, xnorm float64) float64 {
	return k.c * k.shape(n) * u * k.k * math.Sqrt(float64(n)) * xnorm
}

// checkR2R checks one real-to-real routine at length n on input x against
// its defining sum, and the round trip through its inverse.
func checkR2R(c *vrt.Ctx, k *r2r, n int, o *oracle, in realInput, idx []int, digest bool) {
	x := in.x
	cls := k.class(n)
	where := fmt.Sprintf("%s n=%d in=%s", k.name, n, in.name)
	c.LastCase(where)
	var got []float64
	src := cloneF(x)
	p := vrt.Try(func() { got = k.call(n)(nil, src) })
	c.Eval(k.name+"|"+factorize(k.under(n)).class()+"|"+in.name, !k.spec(n))
	if p != nil {
		c.Violationf(k.name+"|"+cls+"|panic", map[string]any{"n": n, "x": trimF(x), "panic": p.Msg, "stack": p.Stack},
			"%s panicked: %s", where, p.Msg)
		return
	}
	if len(got) != n {
		c.Violationf(k.name+"|"+cls+"|result-length", map[string]any{"n": n, "len": len(got)}, "%s: returned %d elements", where, len(got))
		return
	}
	if sameBitsF(src, x) != -1 {
		c.Violationf(k.name+"|"+cls+"|src-modified", map[string]any{"n": n, "x": trimF(x)}, "%s: src modified although dst was nil", where)
	}
	xn := norm2(x)
	ref := k.ref(o, x, idx)
	err := errNormF(got, ref, idx)
	if !within(calibName(k.name, k.under(n)), err, k.band(n, xn), where) {
		c.Violationf(k.name+"|"+cls+"|defining-sum", map[string]any{"n": n, "input": in.name, "x": trimF(x), "got": trimF(got), "want_at_idx": trimF(ref), "idx": idx[:min(len(idx), 40)]},
			"%s: ||got-sum||_2 = %.3g exceeds band %.3g (= %g*shape %.4g*u*%g*sqrt(n)*||x|| %.3g)", where, err, k.band(n, xn), k.c, k.shape(n), k.k, xn)
	}
	if digest {
		c.Digest(fmt.Sprintf("%s|n=%d|%s", k.name, n, in.name), "exact", vrt.Bits(got)...)
	}

	// round trip through the inverse routine
	inv := r2rByName(k.inv)
	var back []float64
	p = vrt.Try(func() { back = inv.call(n)(nil, got) })
	c.Eval(inv.name+"|"+factorize(k.under(n)).class()+"|roundtrip", !k.spec(n))
	if p != nil {
		c.Violationf(inv.name+"|"+cls+"|panic", map[string]any{"n": n, "panic": p.Msg, "stack": p.Stack}, "%s round trip panicked: %s", where, p.Msg)
		return
	}
	sc := k.scale(n)
	e := scaledDiffF(back, x, sc)
	// ||inv(fwd(x)) - s x||_2 <= (forward band * ||inv|| + inverse band on ||fwd x||), both ~ shape*u*s*||x||
	rb := cRound * (k.shape(n) + inv.shape(n)) * u * sc * xn
	if !within("roundtrip:"+k.name, e, rb, where) {
		c.Violationf(k.name+"|"+cls+"|roundtrip-scale", map[string]any{"n": n, "input": in.name, "x": trimF(x), "back": trimF(back), "scale": sc},
			"%s: %s(%s(x)) differs from %g*x by %.3g (band %.3g)", where, inv.name, k.name, sc, e, rb)
	} else if ds := k.docScl(n); ds != sc && xn > 0 && k.docStillSays() {
		// the implementation inverts with the scale of the defining sums, but
		// the public doc comment states another one
		c.Violationf(k.name+"|roundtrip|documented-scale", map[string]any{"n": n, "documented": ds, "observed": sc, "x": trimF(x), "back": trimF(back)},
			"%s: doc comment says two calls multiply the input by 2*(n-1) = %g; observed (and defining-sum) factor is %g", where, ds, sc)
	}
}

// ---- real and complex DFT ---------------------------------------------------------

func checkFFTRealAt(c *vrt.Ctx, n int, o *oracle, in realInput, r *vrt.Rand, digest bool) {
	x := in.x
	cls := pathClass(n)
	fcls := factorize(n).class()
	where := fmt.Sprintf("FFT n=%d in=%s", n, in.name)
	c.LastCase(where)
	xn := norm2(x)
	nontriv := n > 1

	var got []complex128
	src := cloneF(x)
	p := vrt.Try(func() { got = fourier.NewFFT(n).Coefficients(nil, src) })
	c.Eval("FFT.Coefficients|"+fcls+"|"+in.name, nontriv)
	if p != nil {
		c.Violationf("FFT.Coefficients|"+cls+"|panic", map[string]any{"n": n, "panic": p.Msg, "stack": p.Stack}, "%s panicked: %s", where, p.Msg)
		return
	}
	if len(got) != n/2+1 {
		c.Violationf("FFT.Coefficients|"+cls+"|result-length", map[string]any{"n": n, "len": len(got)}, "%s: %d coefficients, want n/2+1", where, len(got))
		return
	}
	if sameBitsF(src, x) != -1 {
		c.Violationf("FFT.Coefficients|"+cls+"|src-modified", map[string]any{"n": n}, "%s: seq modified", where)
	}
	idx := outIdx(r, n/2+1)
	ref := o.dftReal(x, idx)
	band := cReal * shapeR(n) * u * math.Sqrt(float64(n)) * xn
	if err := errNormC(got, ref, idx); !within(calibName("FFT.Coefficients", n), err, band, where) {
		c.Violationf("FFT.Coefficients|"+cls+"|defining-sum", map[string]any{"n": n, "input": in.name, "x": trimF(x), "got": trimC(got), "want_at_idx": trimC(ref), "idx": idx[:min(len(idx), 24)]},
			"%s: ||got-sum||_2 = %.3g exceeds band %.3g", where, err, band)
	}
	if digest {
		c.Digest(fmt.Sprintf("FFT.Coefficients|n=%d|%s", n, in.name), "exact", bitsOfC(got)...)
	}

	// inverse of the computed spectrum: n * x
	var back []float64
	spec := cloneC(got)
	p = vrt.Try(func() { back = fourier.NewFFT(n).Sequence(nil, spec) })
	c.Eval("FFT.Sequence|"+fcls+"|roundtrip", nontriv)
	if p != nil {
		c.Violationf("FFT.Sequence|"+cls+"|panic", map[string]any{"n": n, "panic": p.Msg, "stack": p.Stack}, "%s Sequence panicked: %s", where, p.Msg)
		return
	}
	if len(back) != n {
		c.Violationf("FFT.Sequence|"+cls+"|result-length", map[string]any{"n": n, "len": len(back)}, "%s: Sequence returned %d", where, len(back))
		return
	}
	if sameBitsC(spec, got) != -1 {
		c.Violationf("FFT.Sequence|"+cls+"|src-modified", map[string]any{"n": n}, "%s: coeff modified", where)
	}
	e := scaledDiffF(back, x, float64(n))
	rb := cRound * 2 * shapeR(n) * u * float64(n) * xn
	if !within("roundtrip:FFT", e, rb, where) {
		c.Violationf("FFT.Coefficients|"+cls+"|roundtrip-scale", map[string]any{"n": n, "x": trimF(x), "back": trimF(back)},
			"%s: Sequence(Coefficients(x)) differs from n*x by %.3g (band %.3g)", where, e, rb)
	}

	// real and complex transforms agree on real input (complete output)
	var cg []complex128
	p = vrt.Try(func() { cg = fourier.NewCmplxFFT(n).Coefficients(nil, toC(x)) })
	c.Eval("CmplxFFT.Coefficients|"+fcls+"|real-input", nontriv)
	if p != nil {
		c.Violationf("CmplxFFT.Coefficients|"+cls+"|panic", map[string]any{"n": n, "panic": p.Msg, "stack": p.Stack}, "%s CmplxFFT panicked: %s", where, p.Msg)
		return
	}
	e = 0.0
	for k2 := 0; k2 < n; k2++ {
		var w complex128
		if k2 <= n/2 {
			w = got[k2]
		} else {
			w = complex(real(got[n-k2]), -imag(got[n-k2]))
		}
		dr, di := real(cg[k2])-real(w), imag(cg[k2])-imag(w)
		e += dr*dr + di*di
	}
	e = math.Sqrt(e)
	ab := cRealCplx * (shapeR(n) + shapeC(n)) * u * math.Sqrt(float64(n)) * xn
	if !within("real-vs-complex", e, ab, where) {
		c.Violationf("FFT.Coefficients|"+cls+"|disagrees-with-CmplxFFT", map[string]any{"n": n, "x": trimF(x), "real": trimC(got), "complex": trimC(cg)},
			"%s: FFT and CmplxFFT (Hermitian-extended) differ by %.3g on real input (band %.3g)", where, e, ab)
	}
}

// checkFFTSeqAt checks FFT.Sequence on a random Hermitian-consistent
// half-complex spectrum against the synthesis sum.
func checkFFTSeqAt(c *vrt.Ctx, n int, o *oracle, r *vrt.Rand, digest bool) {
	coeff := randC(r, n/2+1)
	coeff[0] = complex(real(coeff[0]), 0)
	if n%2 == 0 {
		coeff[n/2] = complex(real(coeff[n/2]), 0)
	}
	checkFFTSeqOn(c, n, o, "rand-spectrum", coeff, outIdx(r, n), digest)
}

func checkFFTSeqOn(c *vrt.Ctx, n int, o *oracle, name string, coeff []complex128, idx []int, digest bool) {
	cls := pathClass(n)
	where := fmt.Sprintf("FFT.Sequence n=%d in=%s", n, name)
	c.LastCase(where)
	src := cloneC(coeff)
	var got []float64
	p := vrt.Try(func() { got = fourier.NewFFT(n).Sequence(nil, src) })
	c.Eval("FFT.Sequence|"+factorize(n).class()+"|"+name, n > 1)
	if p != nil {
		c.Violationf("FFT.Sequence|"+cls+"|panic", map[string]any{"n": n, "panic": p.Msg, "stack": p.Stack}, "%s panicked: %s", where, p.Msg)
		return
	}
	if len(got) != n {
		c.Violationf("FFT.Sequence|"+cls+"|result-length", map[string]any{"n": n, "len": len(got)}, "%s: returned %d", where, len(got))
		return
	}
	if sameBitsC(src, coeff) != -1 {
		c.Violationf("FFT.Sequence|"+cls+"|src-modified", map[string]any{"n": n}, "%s: coeff modified", where)
	}
	ref := o.realSeq(coeff, idx)
	cn := 2 * norm2c(coeff)
	band := cReal * shapeR(n) * u * math.Sqrt(float64(n)) * cn
	if err := errNormF(got, ref, idx); !within(calibName("FFT.Sequence", n), err, band, where) {
		c.Violationf("FFT.Sequence|"+cls+"|defining-sum", map[string]any{"n": n, "coeff": trimC(coeff), "got": trimF(got), "want_at_idx": trimF(ref), "idx": idx[:min(len(idx), 40)]},
			"%s: ||got-sum||_2 = %.3g exceeds band %.3g", where, err, band)
	}
	if digest {
		c.Digest(fmt.Sprintf("FFT.Sequence|n=%d|%s", n, name), "exact", vrt.Bits(got)...)
	}
}

func checkCmplxAt(c *vrt.Ctx, n int, o *oracle, name string, z []complex128, r *vrt.Rand, digest bool) {
	cls := pathClass(n)
	fcls := factorize(n).class()
	zn := norm2c(z)
	idx := outIdx(r, n)
	band := cCmplx * shapeC(n) * u * math.Sqrt(float64(n)) * zn
	for _, dir := range []struct {
		name string
		sign float64
		call func(t *fourier.CmplxFFT, dst, src []complex128) []complex128
	}{
		{"CmplxFFT.Coefficients", -1, (*fourier.CmplxFFT).Coefficients},
		{"CmplxFFT.Sequence", +1, (*fourier.CmplxFFT).Sequence},
	} {
		where := fmt.Sprintf("%s n=%d in=%s", dir.name, n, name)
		c.LastCase(where)
		src := cloneC(z)
		var got []complex128
		p := vrt.Try(func() { got = dir.call(fourier.NewCmplxFFT(n), nil, src) })
		c.Eval(dir.name+"|"+fcls+"|"+name, n > 1)
		if p != nil {
			c.Violationf(dir.name+"|"+cls+"|panic", map[string]any{"n": n, "panic": p.Msg, "stack": p.Stack}, "%s panicked: %s", where, p.Msg)
			continue
		}
		if len(got) != n {
			c.Violationf(dir.name+"|"+cls+"|result-length", map[string]any{"n": n, "len": len(got)}, "%s: returned %d", where, len(got))
			continue
		}
		if sameBitsC(src, z) != -1 {
			c.Violationf(dir.name+"|"+cls+"|src-modified", map[string]any{"n": n}, "%s: src modified although dst was nil", where)
		}
		ref := o.dftCmplx(z, dir.sign, idx)
		if err := errNormC(got, ref, idx); !within(calibName(dir.name, n), err, band, where) {
			c.Violationf(dir.name+"|"+cls+"|defining-sum", map[string]any{"n": n, "input": name, "z": trimC(z), "got": trimC(got), "want_at_idx": trimC(ref), "idx": idx[:min(len(idx), 24)]},
				"%s: ||got-sum||_2 = %.3g exceeds band %.3g", where, err, band)
		}
		if digest {
			c.Digest(fmt.Sprintf("%s|n=%d|%s", dir.name, n, name), "exact", bitsOfC(got)...)
		}
		// in place: identical bits (documented safe)
		alias := cloneC(z)
		var got2 []complex128
		p = vrt.Try(func() { got2 = dir.call(fourier.NewCmplxFFT(n), alias, alias) })
		c.Eval(dir.name+"|"+fcls+"|dst=src", n > 1)
		if p != nil {
			c.Violationf(dir.name+"|"+cls+"|panic", map[string]any{"n": n, "panic": p.Msg, "stack": p.Stack}, "%s dst=src panicked: %s", where, p.Msg)
		} else if i := sameBitsC(got2, got); i != -1 {
			c.Violationf(dir.name+"|"+cls+"|dst-alias-changes-result", map[string]any{"n": n, "z": trimC(z), "index": i},
				"%s: dst=src result differs from dst=nil at %d", where, i)
		}
		if dir.sign < 0 {
			// round trip
			var back []complex128
			p = vrt.Try(func() { back = fourier.NewCmplxFFT(n).Sequence(nil, got) })
			c.Eval("CmplxFFT.Sequence|"+fcls+"|roundtrip", n > 1)
			if p != nil {
				continue
			}
			e := 0.0
			for i := range back {
				dr, di := real(back[i])-float64(n)*real(z[i]), imag(back[i])-float64(n)*imag(z[i])
				e += dr*dr + di*di
			}
			e = math.Sqrt(e)
			rb := cRound * 2 * shapeC(n) * u * float64(n) * zn
			if !within("roundtrip:CmplxFFT", e, rb, where) {
				c.Violationf("CmplxFFT.Coefficients|"+cls+"|roundtrip-scale", map[string]any{"n": n, "z": trimC(z), "back": trimC(back)},
					"%s: Sequence(Coefficients(z)) differs from n*z by %.3g (band %.3g)", where, e, rb)
			}
		}
	}
}

// ---- driver --------------------------------------------------------------------------

type sumTask struct {
	n    int
	what int // 0 FFT real, 1 complex, 2.. r2r kind index+2
	cost float64
}

func checkDefiningSums(c *vrt.Ctx) {
	plan := planLengths(c)
	c.Note("lengths_exhaustive_upto", plan.exh)
	c.Note("lengths_sampled", plan.sampled)
	var tasks []sumTask
	costOf := func(n int) float64 {
		m := float64(min(n, fullOutputs))
		g := float64(factorize(n).gen)
		return m*float64(n) + g*float64(n)
	}
	for _, L := range plan.all() {
		tasks = append(tasks, sumTask{L, 0, 4 * costOf(L)}, sumTask{L, 1, 8 * costOf(L)})
		for ki, k := range r2rKinds {
			n := L
			if L > plan.exh {
				// sampled lengths describe the underlying real FFT
				switch k.name {
				case "DCT.Transform":
					n = L + 1
				case "DST.Transform":
					n = L - 1
				}
			}
			if n < k.minN {
				continue
			}
			tasks = append(tasks, sumTask{n, ki + 2, 3 * costOf(n)})
		}
	}
	sort.SliceStable(tasks, func(i, j int) bool { return tasks[i].cost > tasks[j].cost })
	vrt.Parallel(len(tasks), func(ti int) {
		t := tasks[ti]
		n := t.n
		rich := n <= plan.exh
		o := newOracle(n)
		r := c.RNG("sums.idx", n, t.what)
		switch t.what {
		case 0:
			for ii, in := range realInputs(c, "sums.real", n, rich) {
				if n > 2048 && ii > 0 && in.name != "alt" {
					continue
				}
				checkFFTRealAt(c, n, o, in, r, true)
				if c.WantSample() && n > 8 && n < 40 && in.name == "rand" {
					c.Sample(map[string]any{"routine": "FFT.Coefficients", "n": n, "factors": factorize(n).class(), "x": in.x})
				}
			}
			checkFFTSeqAt(c, n, o, r, true)
		case 1:
			rz := c.RNG("sums.cmplx", n)
			checkCmplxAt(c, n, o, "rand", randC(rz, n), r, true)
			if rich {
				z := make([]complex128, n)
				for i := range z {
					z[i] = complex(rz.SmallFinite(), rz.SmallFinite())
				}
				checkCmplxAt(c, n, o, "rand-sparse", z, r, true)
				for i := range z {
					z[i] = complex(1.5, -0.5)
				}
				checkCmplxAt(c, n, o, "const", z, r, true)
			}
		default:
			k := r2rKinds[t.what-2]
			idx := outIdx(r, n)
			for ii, in := range realInputs(c, "sums."+k.name, n, rich) {
				if n > 2048 && ii > 0 {
					continue
				}
				checkR2R(c, k, n, o, in, idx, true)
			}
		}
	})
}
