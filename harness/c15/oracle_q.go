package main

import "math"

// qSys is the monitor's own evaluation of modularity, written as the literal
// double sums of the doc comments of community.Q and community.QMultiplex:
//
//	undirected  Q = 1/2m \sum_{ij} [ A_ij - (\gamma k_i k_j)/2m ] \delta(c_i,c_j)
//	directed    Q = 1/m  \sum_{ij} [ A_ij - (\gamma k_i^in k_j^out)/m ] \delta(c_i,c_j)
//	multiplex   Q_layer = w_layer \sum_{ij} [ A_layer*_ij - (\gamma_layer k_i k_j)/2m_layer ] \delta(c_i,c_j)
//	            (directed: k_i^in k_j^out / m_layer), "not scaled by the total layer edge weight"
//
// with k_i = \sum_j A_ij, 2m = \sum_i k_i (undirected), k_i^out = \sum_j A_ij,
// k_j^in = \sum_i A_ij, m = \sum_ij A_ij (directed). A_ii is the weight the
// graph reports for (i,i): 0 for the input graphs of this monitor, the
// internal weight of the community for a reduced graph. For a layer with a
// negative layer weight A* = -A (all edge weights of such a layer are <= 0:
// "will panic if g has any edge with edge weight that does not sign-match
// the layer weight"), otherwise A* = A.
type qSys struct {
	n         int
	dir       bool
	multiplex bool          // false: one layer, Q normalised by 2m (m)
	a         [][][]float64 // a[l][i][j] = A*_l
	w         []float64     // layer weights (1 for the single-layer case)
	gam       []float64     // per-layer resolution
	// derived
	kout, kin [][]float64 // per layer (undirected: kout == kin == k)
	tot       []float64   // 2m (undirected) or m (directed) per layer
}

func newQSys(n int, dir, multiplex bool, layers int) *qSys {
	s := &qSys{n: n, dir: dir, multiplex: multiplex, a: make([][][]float64, layers), w: make([]float64, layers), gam: make([]float64, layers)}
	for l := range s.a {
		s.a[l] = make([][]float64, n)
		for i := range s.a[l] {
			s.a[l][i] = make([]float64, n)
		}
		s.w[l], s.gam[l] = 1, 1
	}
	return s
}

func (s *qSys) prep() {
	L := len(s.a)
	s.kout = make([][]float64, L)
	s.kin = make([][]float64, L)
	s.tot = make([]float64, L)
	for l := 0; l < L; l++ {
		s.kout[l] = make([]float64, s.n)
		s.kin[l] = make([]float64, s.n)
		for i := 0; i < s.n; i++ {
			for j := 0; j < s.n; j++ {
				s.kout[l][i] += s.a[l][i][j]
				s.kin[l][j] += s.a[l][i][j]
				s.tot[l] += s.a[l][i][j]
			}
		}
	}
}

// active reports whether layer l contributes (non-zero layer weight and
// non-zero total edge weight).
func (s *qSys) active(l int) bool { return s.w[l] != 0 && s.tot[l] != 0 }

// b is the bracket of the double sum for the ordered pair (i,j) of layer l.
func (s *qSys) b(l, i, j int) float64 {
	if s.dir {
		return s.a[l][i][j] - s.gam[l]*s.kin[l][i]*s.kout[l][j]/s.tot[l]
	}
	return s.a[l][i][j] - s.gam[l]*s.kout[l][i]*s.kout[l][j]/s.tot[l]
}

// norm is the factor in front of the double sum of layer l.
func (s *qSys) norm(l int) float64 {
	if s.multiplex {
		return s.w[l]
	}
	return 1 / s.tot[l]
}

// Q evaluates the double sum for the membership vector memb. Layers that are
// not active contribute 0 (their bracket is 0/0; gonum's local mover skips
// them explicitly and QMultiplex skips zero-weighted layers).
func (s *qSys) Q(memb []int) (total float64, perLayer []float64) {
	perLayer = make([]float64, len(s.a))
	for l := range s.a {
		if !s.active(l) {
			continue
		}
		var q float64
		for i := 0; i < s.n; i++ {
			for j := 0; j < s.n; j++ {
				if memb[i] == memb[j] {
					q += s.b(l, i, j)
				}
			}
		}
		perLayer[l] = s.norm(l) * q
		total += perLayer[l]
	}
	return total, perLayer
}

// scale is the magnitude against which rounding in Q is judged: 1 for the
// normalised single-layer Q, \sum_l |w_l| m_l (1+gamma_l) for multiplex Q.
func (s *qSys) scale() float64 {
	if !s.multiplex {
		return 1 + math.Abs(s.gam[0])
	}
	var sc float64
	for l := range s.a {
		if s.active(l) {
			sc += math.Abs(s.w[l]) * math.Abs(s.tot[l]) * (1 + math.Abs(s.gam[l]))
		}
	}
	return sc
}

// delta returns Q(memb with node a moved to community beta) - Q(memb),
// evaluated from the double sum: only the pairs (a,j) and (j,a) change.
func (s *qSys) delta(memb []int, a, beta int) float64 {
	alpha := memb[a]
	if alpha == beta {
		return 0
	}
	var d float64
	for l := range s.a {
		if !s.active(l) {
			continue
		}
		var add, rem float64
		for j := 0; j < s.n; j++ {
			if j == a {
				continue
			}
			switch memb[j] {
			case beta:
				add += s.b(l, a, j) + s.b(l, j, a)
			case alpha:
				rem += s.b(l, a, j) + s.b(l, j, a)
			}
		}
		d += s.norm(l) * (add - rem)
	}
	return d
}

// connected reports whether node a has an edge of non-zero weight, in an
// active layer, to a member of community beta.
func (s *qSys) connected(memb []int, a, beta int) bool {
	for l := range s.a {
		if !s.active(l) {
			continue
		}
		for j := 0; j < s.n; j++ {
			if j != a && memb[j] == beta && (s.a[l][a][j] != 0 || s.a[l][j][a] != 0) {
				return true
			}
		}
	}
	return false
}

// aggregate returns the system of the graph whose node c is block c of the
// original nodes: A_agg(c,d) = \sum_{i in c, j in d} A(i,j), including c == d.
func (s *qSys) aggregate(blocks [][]int) *qSys {
	t := newQSys(len(blocks), s.dir, s.multiplex, len(s.a))
	copy(t.w, s.w)
	copy(t.gam, s.gam)
	for l := range s.a {
		for c, bc := range blocks {
			for d, bd := range blocks {
				var x float64
				for _, i := range bc {
					for _, j := range bd {
						x += s.a[l][i][j]
					}
				}
				t.a[l][c][d] = x
			}
		}
	}
	t.prep()
	return t
}
