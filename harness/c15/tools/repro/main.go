// Command repro prints minimal reproducers of the gonum defects found by the
// C15 monitor. Run from /verif/harness:  go run ./c15/tools/repro [hits]
package main

import (
	"fmt"
	"math/rand/v2"
	"os"
	"time"

	"gonum.org/v1/gonum/graph"
	"gonum.org/v1/gonum/graph/community"
	"gonum.org/v1/gonum/graph/network"
	"gonum.org/v1/gonum/graph/simple"
	"gonum.org/v1/gonum/graph/spectral"
	"gonum.org/v1/gonum/mat"
)

func try(name string, f func()) {
	defer func() {
		if r := recover(); r != nil {
			fmt.Printf("%s: PANIC %v\n", name, r)
		}
	}()
	f()
}

// two triangles joined by an edge, on the given IDs
func twoTriangles(ids [6]int64) *simple.UndirectedGraph {
	g := simple.NewUndirectedGraph()
	for _, e := range [][2]int{{0, 1}, {1, 2}, {0, 2}, {3, 4}, {4, 5}, {3, 5}, {2, 3}} {
		g.SetEdge(simple.Edge{F: simple.Node(ids[e[0]]), T: simple.Node(ids[e[1]])})
	}
	return g
}

func directed(u *simple.UndirectedGraph) *simple.DirectedGraph {
	d := simple.NewDirectedGraph()
	es := u.Edges()
	for es.Next() {
		e := es.Edge()
		d.SetEdge(simple.Edge{F: e.From(), T: e.To()})
		d.SetEdge(simple.Edge{F: e.To(), T: e.From()})
	}
	return d
}

func ids(c [][]graph.Node) (o [][]int64) {
	for _, s := range c {
		var l []int64
		for _, n := range s {
			l = append(l, n.ID())
		}
		o = append(o, l)
	}
	return o
}

func main() {
	src := rand.NewPCG(1, 2)
	std := [6]int64{0, 1, 2, 3, 4, 5}

	fmt.Println("D2: Modularize on a directed graph without edges")
	try("  Modularize(1 node, no edges)", func() {
		d := simple.NewDirectedGraph()
		d.AddNode(simple.Node(0))
		community.Modularize(d, 1, src)
		fmt.Println("  ok")
	})

	fmt.Println("D3: ModularizeMultiplex, weights == nil, two layers")
	try("  undirected", func() {
		l, _ := community.NewUndirectedLayers(twoTriangles(std), twoTriangles(std))
		community.ModularizeMultiplex(l, nil, nil, true, src)
		fmt.Println("  ok")
	})
	try("  directed", func() {
		l, _ := community.NewDirectedLayers(directed(twoTriangles(std)), directed(twoTriangles(std)))
		community.ModularizeMultiplex(l, nil, nil, true, src)
		fmt.Println("  ok")
	})

	fmt.Println("D4: ModularizeMultiplex, layer 0 zero-weighted / edgeless")
	try("  undirected weights {0,1}", func() {
		l, _ := community.NewUndirectedLayers(twoTriangles(std), twoTriangles(std))
		community.ModularizeMultiplex(l, []float64{0, 1}, nil, true, src)
		fmt.Println("  ok")
	})
	try("  directed, layer 0 edgeless, weights {1,1}", func() {
		e := simple.NewDirectedGraph()
		for _, id := range std {
			e.AddNode(simple.Node(id))
		}
		l, _ := community.NewDirectedLayers(e, directed(twoTriangles(std)))
		community.ModularizeMultiplex(l, []float64{1, 1}, nil, true, src)
		fmt.Println("  ok")
	})

	fmt.Println("D5: NewRandomWalkLaplacian vs its doc comment (I-D^(-1)A), path 0-1-2, damp 0")
	p := simple.NewUndirectedGraph()
	p.SetEdge(simple.Edge{F: simple.Node(0), T: simple.Node(1)})
	p.SetEdge(simple.Edge{F: simple.Node(1), T: simple.Node(2)})
	l := spectral.NewRandomWalkLaplacian(p, 0)
	fmt.Printf("  nodes %v\n  %v\n  (I-D^(-1)A has rows summing to 0: row of node 1 would be [-0.5 1 -0.5])\n", ids([][]graph.Node{l.Nodes})[0], mat.Formatted(l.Matrix, mat.Prefix("  ")))

	fmt.Println("D6/D7: Structure at the lowest level; Expanded() == nil")
	r := community.Modularize(twoTriangles([6]int64{10, 20, 30, 40, 50, 60}), 1, src)
	base := r.Expanded()
	fmt.Println("  lowest level Structure():  ", ids(base.Structure()))
	fmt.Println("  lowest level Communities():", ids(base.Communities()))
	fmt.Println("  base.Expanded() == nil:", base.Expanded() == nil, " (documented: nil at the lowest level)")
	try("  base.Expanded().Structure()", func() { base.Expanded().Structure() })

	if len(os.Args) > 1 {
		fmt.Println("D1: HITS on two nodes without edges")
		done := make(chan bool)
		go func() {
			d := simple.NewDirectedGraph()
			d.AddNode(simple.Node(0))
			d.AddNode(simple.Node(1))
			fmt.Println(network.HITS(d, 1e-8))
			done <- true
		}()
		select {
		case <-done:
		case <-time.After(3 * time.Second):
			fmt.Println("  no return after 3 s")
		}
	}
}
