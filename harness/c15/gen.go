package main

import "gonum.org/v1/gonum/verifx/vrt"

// Weight schemes. Every weight is a dyadic rational of bounded size, so all
// path weights are exact in float64 (see oracle_paths.go).
const (
	wUnit   = iota // all 1 (but handed to gonum as a weighted graph)
	wSmall         // {1,2,3}: a direct edge of weight 2 ties with two hops of weight 1
	wHalves        // {0.5,1,1.5,2,2.5}
	wFine          // k/1024, k in [1,4096]: ties are rare, paths mostly unique
	wZero          // {0,1,2}: includes zero-weight edges
	numWSchemes
)

var wSchemeNames = [...]string{"unit", "small-int", "halves", "fine", "with-zero"}

func drawWeight(r *vrt.Rand, scheme int) float64 {
	switch scheme {
	case wUnit:
		return 1
	case wSmall:
		return float64(1 + r.Intn(3))
	case wHalves:
		return 0.5 * float64(1+r.Intn(5))
	case wFine:
		return float64(1+r.Intn(4096)) / 1024
	default:
		return float64(r.Intn(3))
	}
}

// shape generators fill the adjacency of a fresh model.

func genGNP(n int, dir bool, p float64, r *vrt.Rand) [][2]int {
	var e [][2]int
	for i := 0; i < n; i++ {
		for j := 0; j < n; j++ {
			if i == j || (!dir && j < i) {
				continue
			}
			if r.Chance(p) {
				e = append(e, [2]int{i, j})
			}
		}
	}
	return e
}

func genGrid(a, b int) (n int, e [][2]int) {
	id := func(i, j int) int { return i*b + j }
	for i := 0; i < a; i++ {
		for j := 0; j < b; j++ {
			if i+1 < a {
				e = append(e, [2]int{id(i, j), id(i+1, j)})
			}
			if j+1 < b {
				e = append(e, [2]int{id(i, j), id(i, j+1)})
			}
		}
	}
	return a * b, e
}

func genBipartite(a, b int) (n int, e [][2]int) {
	for i := 0; i < a; i++ {
		for j := 0; j < b; j++ {
			e = append(e, [2]int{i, a + j})
		}
	}
	return a + b, e
}

// genLayered: consecutive layers fully connected (forward arcs).
func genLayered(layers, width int) (n int, e [][2]int) {
	for l := 0; l+1 < layers; l++ {
		for i := 0; i < width; i++ {
			for j := 0; j < width; j++ {
				e = append(e, [2]int{l*width + i, (l+1)*width + j})
			}
		}
	}
	return layers * width, e
}

func genRingChords(n, chords int, r *vrt.Rand) (e [][2]int) {
	for i := 0; i < n; i++ {
		if n > 2 || i == 0 {
			if (i+1)%n != i {
				e = append(e, [2]int{i, (i + 1) % n})
			}
		}
	}
	for c := 0; c < chords && n > 3; c++ {
		i, j := r.Intn(n), r.Intn(n)
		if i != j {
			e = append(e, [2]int{i, j})
		}
	}
	return e
}

// genPlanted: k blocks, dense inside, sparse between. Returns the planted
// membership.
func genPlanted(n, k int, dir bool, pin, pout float64, r *vrt.Rand) (e [][2]int, memb []int) {
	memb = make([]int, n)
	for i := range memb {
		memb[i] = i * k / n
	}
	for i := 0; i < n; i++ {
		for j := 0; j < n; j++ {
			if i == j || (!dir && j < i) {
				continue
			}
			p := pout
			if memb[i] == memb[j] {
				p = pin
			}
			if r.Chance(p) {
				e = append(e, [2]int{i, j})
			}
		}
	}
	return e, memb
}

// genBlocks: several components, each a G(n_i,p).
func genBlocks(n int, dir bool, r *vrt.Rand) (e [][2]int) {
	start := 0
	for start < n {
		sz := 1 + r.Intn(1+n/2)
		if start+sz > n {
			sz = n - start
		}
		p := r.PickFloat(0.3, 0.6, 1)
		for i := 0; i < sz; i++ {
			for j := 0; j < sz; j++ {
				if i == j || (!dir && j < i) {
					continue
				}
				if r.Chance(p) {
					e = append(e, [2]int{start + i, start + j})
				}
			}
		}
		start += sz
	}
	return e
}

// randomModel draws a model graph. maxN bounds the node count; the shape and
// the weight scheme are drawn from r. hostile features (dangling nodes,
// isolated nodes, several components, tie-rich shapes) are frequent.
func randomModel(r *vrt.Rand, dir, weighted bool, scheme, maxN int) *G {
	n := 0
	var edges [][2]int
	kind := ""
	pickN := func() int {
		switch r.Intn(4) {
		case 0:
			return 1 + r.Intn(min(6, maxN))
		case 1:
			return 1 + r.Intn(min(14, maxN))
		default:
			return 1 + r.Intn(maxN)
		}
	}
	switch s := r.Intn(10); s {
	case 0, 1:
		n = pickN()
		p := r.PickFloat(0.05, 0.1, 0.2, 0.35, 0.5, 0.8, 1)
		edges = genGNP(n, dir, p, r)
		kind = "gnp"
	case 2:
		a := 1 + r.Intn(7)
		b := 1 + r.Intn(7)
		for a*b > maxN {
			if a > b {
				a--
			} else {
				b--
			}
		}
		n, edges = genGrid(a, b)
		kind = "grid"
	case 3:
		a := 1 + r.Intn(min(10, maxN/2+1))
		b := 1 + r.Intn(min(10, maxN/2+1))
		for a+b > maxN {
			if a > b {
				a--
			} else {
				b--
			}
		}
		if a+b < 2 {
			a, b = 1, 1
		}
		n, edges = genBipartite(a, b)
		kind = "bipartite"
	case 4:
		l := 2 + r.Intn(4)
		w := 1 + r.Intn(5)
		for l*w > maxN && w > 1 {
			w--
		}
		for l*w > maxN && l > 2 {
			l--
		}
		n, edges = genLayered(l, w)
		kind = "layered"
	case 5:
		n = pickN()
		edges = genRingChords(n, r.Intn(n+1), r)
		kind = "ring-chords"
	case 6:
		n = pickN()
		edges = genBlocks(n, dir, r)
		kind = "blocks"
	case 7:
		n = 2 + r.Intn(maxN-1)
		k := 1 + r.Intn(min(5, n))
		edges, _ = genPlanted(n, k, dir, r.PickFloat(0.5, 0.8, 1), r.PickFloat(0, 0.02, 0.1), r)
		kind = "planted"
	default:
		// sparse with forced sinks / isolated nodes
		n = pickN()
		edges = genGNP(n, dir, r.PickFloat(0.1, 0.3), r)
		kind = "sparse-sinks"
	}
	if n > maxN {
		panic("c15: generator exceeded maxN")
	}
	g := newG(n, dir, weighted)
	g.Kind = kind
	if weighted {
		g.Kind += "/" + wSchemeNames[scheme]
	}
	for _, e := range edges {
		i, j := e[0], e[1]
		if dir && kind != "layered" && kind != "gnp" && kind != "planted" && kind != "blocks" && kind != "sparse-sinks" {
			// undirected shapes used for a directed model: orient randomly or both ways
			switch r.Intn(3) {
			case 0:
				i, j = j, i
			case 1:
				g.Set(j, i, drawWeight(r, scheme))
			}
		}
		g.Set(i, j, drawWeight(r, scheme))
	}
	// hostile post-processing
	if n >= 3 && r.Chance(0.4) {
		// make some nodes sinks (no out-arcs) or isolated
		for t := 1 + r.Intn(2); t > 0; t-- {
			v := r.Intn(n)
			iso := r.Chance(0.4)
			for j := 0; j < n; j++ {
				if dir {
					g.Has[v][j], g.W[v][j] = false, 0
					if iso {
						g.Has[j][v], g.W[j][v] = false, 0
					}
				} else if iso {
					g.Has[v][j], g.W[v][j] = false, 0
					g.Has[j][v], g.W[j][v] = false, 0
				}
			}
		}
	}
	return g
}

// setPartitions enumerates all set partitions of {0..n-1} as restricted
// growth strings.
func setPartitions(n int) [][]int {
	var out [][]int
	cur := make([]int, n)
	var rec func(i, maxUsed int)
	rec = func(i, maxUsed int) {
		if i == n {
			out = append(out, append([]int(nil), cur...))
			return
		}
		for c := 0; c <= maxUsed+1; c++ {
			cur[i] = c
			nm := maxUsed
			if c > maxUsed {
				nm = c
			}
			rec(i+1, nm)
		}
	}
	if n == 0 {
		return [][]int{{}}
	}
	rec(0, -1)
	return out
}

// randomPartitions returns the named partitions used for Q on a graph of n
// nodes: nil (documented as the unclustered score = singletons), explicit
// singletons, all-in-one, random blocks, and the planted one when given.
func randomPartitions(n int, planted []int, r *vrt.Rand) map[string][]int {
	parts := map[string][]int{}
	single := make([]int, n)
	one := make([]int, n)
	for i := range single {
		single[i] = i
	}
	parts["nil"] = single
	parts["singletons"] = single
	parts["all-in-one"] = one
	for t := 0; t < 2; t++ {
		k := 1 + r.Intn(min(n, 6))
		p := make([]int, n)
		for i := range p {
			p[i] = r.Intn(k)
		}
		parts[[]string{"random-a", "random-b"}[t]] = p
	}
	if planted != nil {
		parts["planted"] = planted
	}
	return parts
}

var gammas = []float64{0.5, 1, 2, 4}

// genCliqueRing: k cliques of size sz joined in a ring by single edges; pairs
// of neighbouring cliques are joined by extra edges so that Louvain finds at
// least two rounds of merges (cliques, then groups of cliques).
func genCliqueRing(k, sz int, dir bool, r *vrt.Rand) (n int, e [][2]int) {
	add := func(i, j int) {
		e = append(e, [2]int{i, j})
		if dir && r.Chance(0.8) {
			e = append(e, [2]int{j, i})
		}
	}
	for c := 0; c < k; c++ {
		for i := 0; i < sz; i++ {
			for j := i + 1; j < sz; j++ {
				add(c*sz+i, c*sz+j)
			}
		}
		if k > 1 {
			d := (c + 1) % k
			if d != c && !(k == 2 && c == 1) {
				add(c*sz, d*sz+sz-1)
				if c%2 == 0 && sz > 1 {
					add(c*sz+1, d*sz)
				}
			}
		}
	}
	return k * sz, e
}
