package main

import (
	"fmt"
	"sort"

	"gonum.org/v1/gonum/graph"
	"gonum.org/v1/gonum/graph/community"
	"gonum.org/v1/gonum/graph/simple"
	"gonum.org/v1/gonum/verifx/vrt"
)

// The values returned by Modularize / ModularizeMultiplex are objects with a
// history: their levels are queried repeatedly and in any order, callers sort
// the slices Communities returns (gonum's own tests do), and a reduced graph
// may be modularized further. None of that may change an answer: every answer
// must equal the answer of a fresh single top-down walk of an identically
// produced result (same deterministic-order graph value, identically seeded
// source, dyadic weights: the run is a deterministic function of the source;
// see the reproducibility check in checkModularize).
//
// Only Communities results are mutated: Structure documents "The returned
// value should not be mutated".

// sameSets compares two families of ID sets position by position (position c
// of Communities corresponds to position c of Structure and to node c of the
// level above; the order inside a community is not significant).
func sameSets(a, b [][]int64) bool {
	if len(a) != len(b) {
		return false
	}
	for i := range a {
		if len(a[i]) != len(b[i]) {
			return false
		}
		m := make(map[int64]int, len(a[i]))
		for _, id := range a[i] {
			m[id]++
		}
		for _, id := range b[i] {
			if m[id] == 0 {
				return false
			}
			m[id]--
		}
	}
	return true
}

// mutateCommunities does to a returned [][]graph.Node what a caller may do:
// reorder it (reverse, or the canonical sort of gonum's tests) and/or
// overwrite its contents.
func mutateCommunities(q [][]graph.Node, r *vrt.Rand) {
	switch r.Intn(3) {
	case 0:
		for i, j := 0, len(q)-1; i < j; i, j = i+1, j-1 {
			q[i], q[j] = q[j], q[i]
		}
		for _, c := range q {
			for i, j := 0, len(c)-1; i < j; i, j = i+1, j-1 {
				c[i], c[j] = c[j], c[i]
			}
		}
	case 1:
		for _, c := range q {
			sort.Slice(c, func(i, j int) bool { return c[i].ID() < c[j].ID() })
		}
		sort.Slice(q, func(i, j int) bool {
			if len(q[i]) == 0 || len(q[j]) == 0 {
				return len(q[i]) < len(q[j])
			}
			return q[i][0].ID() < q[j][0].ID()
		})
	default:
		r.Shuffle(len(q), func(i, j int) { q[i], q[j] = q[j], q[i] })
	}
	if r.Bool() {
		for i, c := range q {
			for j := range c {
				c[j] = simple.Node(-31337)
			}
			if r.Chance(0.3) {
				q[i] = nil
			}
		}
	}
}

// chainOf returns the level objects of a result, top first, using Expanded
// only.
func chainOf(top any) []reduced {
	var out []reduced
	for cur := top.(reduced); cur != nil; cur, _ = expandedOf(cur) {
		out = append(out, cur)
	}
	return out
}

// checkLouvainHistory exercises one result object through a history of
// queries, caller-side mutations and a further modularization.
func checkLouvainHistory(k *K, cc *cmCase, r *vrt.Rand) {
	if cc.n() == 0 {
		return
	}
	name := "Modularize"
	if cc.multiplex {
		name = "ModularizeMultiplex"
	}
	shape := cc.shape()
	sig := shape + "|history"
	kk := k.with(cc.layers[0], "ord")
	single, mux := cc.gonumGraphs(RepOrd, r)
	seed, seed2 := r.Uint64(), r.Uint64()

	// the coarser second stage: every resolution divided by 4
	cc2 := *cc
	if !cc.multiplex {
		cc2.res = []float64{cc.res[0] / 4}
	} else {
		cc2.res = make([]float64, len(cc.layers))
		for l := range cc2.res {
			cc2.res[l] = cc.gamma(l) / 4
		}
	}
	run := func() any {
		if !cc.multiplex {
			return community.Modularize(single, cc.res[0], vrt.NewRand(seed))
		}
		return community.ModularizeMultiplex(mux, cc.weights, cc.res, cc.all, vrt.NewRand(seed))
	}
	remod := func(top any) any {
		if !cc.multiplex {
			return community.Modularize(top.(graph.Graph), cc2.res[0], vrt.NewRand(seed2))
		}
		return community.ModularizeMultiplex(top.(community.Multiplex), cc2.weights, cc2.res, cc2.all, vrt.NewRand(seed2))
	}

	kk.mark(name + "/history")
	kk.c.LastCase(fmt.Sprintf("%s %s %s history weights=%v res=%v all=%v layers=%v", kk.wl, kk.caseID, name, cc.weights, cc.res, cc.all, cc.layers))
	var refPre, refPost []lvl
	if p := vrt.Try(func() {
		// fresh single walks: the references
		refPre, _ = collectLevels(cc, run())
		refPost, _ = collectLevels(&cc2, remod(run()))
	}); p != nil {
		kk.viol(name+"|"+sig+"|"+panicClass(p), map[string]any{"case": cc.desc(), "panic": p.Msg}, "%s: fresh run / further modularization of the result panicked: %s\n%s", name, p.Msg, p.Stack)
		return
	}
	kk.eval(name, fmt.Sprintf("%s|reference|levels=%d", sig, len(refPre)), len(refPre) > 1)
	kk.eval(name, fmt.Sprintf("%s|reference-remodularized|levels=%d->%d", sig, len(refPre), len(refPost)), len(refPost) > len(refPre))
	kk.count(fmt.Sprintf("history.levels.%d", min(len(refPre), 5)), 1)
	if len(refPost) > len(refPre) {
		kk.count("history.remodularize-added-levels", 1)
	}

	bad := false
	fail := func(clause string, extra map[string]any, format string, args ...any) {
		bad = true
		m := map[string]any{"case": cc.desc(), "source_seed": seed, "second_seed": seed2}
		for k, v := range extra {
			m[k] = v
		}
		kk.viol(name+"|"+sig+"|"+clause, m, "%s(weights=%v, resolutions=%v, all=%v): %s", name, cc.weights, cc.res, cc.all, fmt.Sprintf(format, args...))
	}
	// query runs the accessors of chain[pos] (top first) and compares with ref
	// (top first); Communities results are mutated after the comparison.
	query := func(stage string, chain []reduced, ref []lvl, pos int) {
		g := chain[pos]
		for t := 0; t < 2 && !bad; t++ {
			q := g.Communities()
			if got := idsOfAll(q); !sameSets(got, ref[pos].communities) {
				fail("Communities-differs-from-fresh-walk", map[string]any{"stage": stage, "level_from_top": pos, "got": got, "fresh": ref[pos].communities},
					"%s: Communities() of level %d (from the top) is %v; a fresh top-down walk of an identical result gives %v: the answer depends on earlier queries or on what the caller did to slices returned earlier", stage, pos, got, ref[pos].communities)
				return
			}
			mutateCommunities(q, r)
		}
		if got := idsOfAll(g.Structure()); !sameSets(got, ref[pos].structure) {
			fail("Structure-differs-from-fresh-walk", map[string]any{"stage": stage, "level_from_top": pos, "got": got, "fresh": ref[pos].structure},
				"%s: Structure() of level %d (from the top) is %v; a fresh top-down walk of an identical result gives %v", stage, pos, got, ref[pos].structure)
			return
		}
		if got := idsOf(graph.NodesOf(g.Nodes())); len(got) != len(ref[pos].nodeIDs) {
			fail("level-nodes-differ-from-fresh-walk", map[string]any{"stage": stage, "level_from_top": pos, "got": got, "fresh": ref[pos].nodeIDs},
				"%s: level %d (from the top) has %d nodes, %d in a fresh walk", stage, pos, len(got), len(ref[pos].nodeIDs))
		}
	}
	visit := func(stage string, top any, ref []lvl, mode int) []reduced {
		chain := chainOf(top)
		if again := chainOf(top); len(again) != len(chain) || len(chain) != len(ref) {
			fail("level-count-differs-from-fresh-walk", map[string]any{"stage": stage, "got": len(chain), "again": len(again), "fresh": len(ref)},
				"%s: Expanded() yields %d levels, %d on a second walk, %d in a fresh identical result", stage, len(chain), len(again), len(ref))
			return nil
		}
		L := len(chain)
		var order []int
		switch mode {
		case 0: // bottom-up
			for i := L - 1; i >= 0; i-- {
				order = append(order, i)
			}
		case 1: // interleaved from both ends, lowest first
			for lo, hi := L-1, 0; lo >= hi; lo, hi = lo-1, hi+1 {
				order = append(order, lo)
				if hi != lo {
					order = append(order, hi)
				}
			}
		default:
			order = r.Perm(L)
		}
		for _, pos := range order {
			if bad {
				return nil
			}
			query(stage+"/first-pass", chain, ref, pos)
		}
		// second pass, top down, over a chain obtained again
		chain = chainOf(top)
		for pos := 0; pos < len(chain) && pos < len(ref) && !bad; pos++ {
			query(stage+"/second-pass", chain, ref, pos)
		}
		return chain
	}

	var topA, topA2 any
	mode := r.Intn(3)
	if p := vrt.Try(func() {
		topA = run()
		if visit("after-Modularize", topA, refPre, mode) == nil {
			return
		}
		// continue the modularization of the (already queried) result
		topA2 = remod(topA)
		visit("after-further-Modularize", topA2, refPost, (mode+1+r.Intn(2))%3)
	}); p != nil {
		kk.viol(name+"|"+sig+"|"+panicClass(p), map[string]any{"case": cc.desc(), "panic": p.Msg}, "%s: the query history panicked: %s\n%s", name, p.Msg, p.Stack)
		return
	}
	kk.eval(name, fmt.Sprintf("%s|queried|mode=%d|levels=%d", sig, mode, len(refPre)), len(refPre) > 1)
	kk.eval(name, fmt.Sprintf("%s|queried-remodularized|levels=%d->%d", sig, len(refPre), len(refPost)), len(refPost) > len(refPre))
	if bad || topA2 == nil {
		return
	}
	// the continued hierarchy must itself be consistent with the input graph
	// (partition, Structure/Communities/reduced weights/Q agree). Optimality is
	// not judged: its levels were produced at two different resolutions.
	var after []lvl
	if p := vrt.Try(func() { after, _ = collectLevels(&cc2, topA2) }); p != nil {
		kk.viol(name+"|"+sig+"|"+panicClass(p), map[string]any{"case": cc.desc(), "panic": p.Msg}, "%s: walking the continued hierarchy panicked: %s", name, p.Msg)
		return
	}
	judgeLevels(kk, name, shape, shape+"|remodularized", &cc2, cc2.sys(), single, mux, after, false)
}
