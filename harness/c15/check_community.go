package main

import (
	"fmt"
	"math"
	"reflect"
	"sort"
	"strings"

	"gonum.org/v1/gonum/graph"
	"gonum.org/v1/gonum/graph/community"
	"gonum.org/v1/gonum/graph/simple"
	"gonum.org/v1/gonum/verifx/vrt"
)

// qRel bounds |gonum Q - double sum| relative to qSys.scale(). Both sides add
// at most n^2 terms of magnitude <= scale in different orders. Calibrated
// worst deviation on the pinned tree: 4.3e-14 relative (4.3e-3 of the band).
const qRel = 1e-11

// locRel is the allowance, relative to qSys.scale(), for the gain of a single
// node move at a level the local mover has left: gonum stops when its own
// evaluation of the gain is <= 1e-15, the monitor evaluates the same gain from
// the double sum with different rounding. Calibrated worst gain observed at a
// finished level: 3e-17 relative (3e-6 of the band).
const locRel = 1e-11

// cmCase is one modularity case: one layer (Q / Modularize) or several
// (QMultiplex / ModularizeMultiplex) over a common node set.
type cmCase struct {
	layers    []*G
	weights   []float64 // as passed to gonum (nil allowed); multiplex only
	res       []float64 // multiplex: as passed (nil, one element, per layer); single: {gamma}
	multiplex bool
	all       bool
}

func (cc *cmCase) n() int       { return cc.layers[0].N }
func (cc *cmCase) dir() bool    { return cc.layers[0].Dir }
func (cc *cmCase) ids() []int64 { return cc.layers[0].IDs }

func (cc *cmCase) layerWeight(l int) float64 {
	if !cc.multiplex || cc.weights == nil {
		return 1
	}
	return cc.weights[l]
}

func (cc *cmCase) gamma(l int) float64 {
	switch {
	case !cc.multiplex:
		return cc.res[0]
	case cc.res == nil:
		return 1 // "If resolutions is nil, a resolution of 1.0 is used for all layers"
	case len(cc.res) == 1:
		return cc.res[0] // "a single element slice may be used to specify a global resolution"
	}
	return cc.res[l]
}

// sign is -1 for a negatively weighted layer (whose edge weights are <= 0).
func (cc *cmCase) sign(l int) float64 {
	if cc.layerWeight(l) < 0 {
		return -1
	}
	return 1
}

func (cc *cmCase) sys() *qSys {
	n := cc.n()
	s := newQSys(n, cc.dir(), cc.multiplex, len(cc.layers))
	for l, m := range cc.layers {
		s.w[l] = cc.layerWeight(l)
		s.gam[l] = cc.gamma(l)
		for i := 0; i < n; i++ {
			for j := 0; j < n; j++ {
				if m.Has[i][j] {
					// A* : the weight made non-negative (unweighted edges count 1)
					s.a[l][i][j] = math.Abs(m.W[i][j])
				}
			}
		}
	}
	s.prep()
	return s
}

func (cc *cmCase) shape() string {
	if cc.dir() {
		return "directed"
	}
	return "undirected"
}

// wclass is the path class of a multiplex call as far as layer weights go.
func (cc *cmCase) wclass() string {
	if !cc.multiplex {
		return "single"
	}
	// layer 0 does not enter Q: zero layer weight or zero total edge weight
	var tot0 float64
	for _, e := range cc.layers[0].Edges() {
		tot0 += math.Abs(cc.layers[0].W[e[0]][e[1]])
	}
	firstInactive := tot0 == 0 || (cc.weights != nil && cc.weights[0] == 0)
	switch {
	case cc.weights == nil && len(cc.layers) > 1:
		return "nil-weights-depth>1"
	case firstInactive && len(cc.layers) > 1:
		return "first-layer-inactive"
	}
	neg := false
	for l := range cc.layers {
		if cc.layerWeight(l) < 0 {
			neg = true
		}
	}
	if neg {
		return "negative-layer"
	}
	return "regular"
}

func (cc *cmCase) desc() map[string]any {
	var ls []any
	for _, m := range cc.layers {
		ls = append(ls, m.Desc())
	}
	return map[string]any{"layers": ls, "weights": cc.weights, "resolutions": cc.res, "multiplex": cc.multiplex, "all": cc.all}
}

// gonumGraphs builds the graph values handed to gonum.
func (cc *cmCase) gonumGraphs(rep Rep, r *vrt.Rand) (single graph.Graph, mux community.Multiplex) {
	if !cc.multiplex {
		return build(cc.layers[0], rep, r), nil
	}
	if cc.dir() {
		var ls []graph.Directed
		for _, m := range cc.layers {
			ls = append(ls, build(m, rep, r).(graph.Directed))
		}
		dl, err := community.NewDirectedLayers(ls...)
		if err != nil {
			panic("c15: " + err.Error())
		}
		return nil, dl
	}
	var ls []graph.Undirected
	for _, m := range cc.layers {
		ls = append(ls, build(m, rep, r).(graph.Undirected))
	}
	ul, err := community.NewUndirectedLayers(ls...)
	if err != nil {
		panic("c15: " + err.Error())
	}
	return nil, ul
}

func nodesOfIDs(ids []int64) []graph.Node {
	out := make([]graph.Node, len(ids))
	for i, id := range ids {
		out[i] = simple.Node(id)
	}
	return out
}

// commNodes converts a membership vector into the [][]graph.Node argument of
// Q, with shuffled community order and member order.
func commNodes(ids []int64, memb []int, r *vrt.Rand) [][]graph.Node {
	by := map[int][]graph.Node{}
	var keys []int
	for i, c := range memb {
		if _, ok := by[c]; !ok {
			keys = append(keys, c)
		}
		by[c] = append(by[c], simple.Node(ids[i]))
	}
	sort.Ints(keys)
	out := make([][]graph.Node, 0, len(keys))
	for _, c := range keys {
		l := by[c]
		if r != nil {
			r.Shuffle(len(l), func(a, b int) { l[a], l[b] = l[b], l[a] })
		}
		out = append(out, l)
	}
	if r != nil {
		r.Shuffle(len(out), func(a, b int) { out[a], out[b] = out[b], out[a] })
	}
	return out
}

// gonumQ calls community.Q or community.QMultiplex on the input graph.
func (cc *cmCase) gonumQ(single graph.Graph, mux community.Multiplex, comm [][]graph.Node) []float64 {
	if !cc.multiplex {
		return []float64{community.Q(single, comm, cc.res[0])}
	}
	return community.QMultiplex(mux, comm, cc.weights, cc.res)
}

func (cc *cmCase) qName() string {
	if cc.multiplex {
		return "QMultiplex"
	}
	return "Q"
}

// qComparable reports whether gonum's Q is defined for the system: every
// layer that enters it has a non-zero total edge weight (otherwise the
// bracket is 0/0 and gonum returns NaN, which no formula contradicts).
func qComparable(s *qSys) bool {
	for l := range s.a {
		if s.w[l] != 0 && s.tot[l] == 0 {
			return false
		}
	}
	return true
}

func sameQ(got []float64, want []float64, scale float64) (bool, float64) {
	if len(got) != len(want) {
		return false, math.Inf(1)
	}
	worst := 0.0
	for l := range got {
		d := math.Abs(got[l] - want[l])
		if math.IsNaN(d) {
			return false, math.Inf(1)
		}
		worst = math.Max(worst, d)
	}
	return worst <= qRel*scale, worst / (qRel * scale)
}

// checkQ compares Q / QMultiplex with the double sum for a list of partitions.
func checkQ(k *K, cc *cmCase, parts map[string][]int, r *vrt.Rand, rep Rep) {
	if cc.n() == 0 {
		return
	}
	s := cc.sys()
	kk := k.with(cc.layers[0], rep.String())
	name := cc.qName()
	sig := cc.shape()
	if cc.wclass() == "negative-layer" {
		sig += "|negative-layer"
	}
	if !qComparable(s) {
		kk.count("skipped."+name+".edgeless-layer", 1)
		return
	}
	single, mux := cc.gonumGraphs(rep, r)
	resClass := "res=nil"
	if cc.res != nil {
		resClass = fmt.Sprintf("res-len=%d", len(cc.res))
		if len(cc.res) == 1 {
			resClass += fmt.Sprintf(":%g", cc.res[0])
		}
	}
	names := make([]string, 0, len(parts))
	for pn := range parts {
		names = append(names, pn)
	}
	sort.Strings(names)
	for _, pn := range names {
		memb := parts[pn]
		var comm [][]graph.Node
		if pn != "nil" {
			comm = commNodes(cc.ids(), memb, r)
		}
		var got []float64
		commBefore := idsOfAll(comm)
		wBefore, rBefore := append([]float64(nil), cc.weights...), append([]float64(nil), cc.res...)
		if !kk.try(name, sig, func() { got = cc.gonumQ(single, mux, comm) }) {
			continue
		}
		// user-supplied arguments must come back as they were passed
		if !reflect.DeepEqual(commBefore, idsOfAll(comm)) {
			kk.viol(name+"|"+sig+"|communities-argument-modified", map[string]any{"before": commBefore, "after": idsOfAll(comm)}, "%s modified the communities argument", name)
		}
		if !reflect.DeepEqual(wBefore, append([]float64(nil), cc.weights...)) || !reflect.DeepEqual(rBefore, append([]float64(nil), cc.res...)) {
			kk.viol(name+"|"+sig+"|weights-or-resolutions-argument-modified", map[string]any{"weights": cc.weights, "resolutions": cc.res}, "%s modified its weights or resolutions argument", name)
		}
		kk.eval(name, fmt.Sprintf("%s|%s|part=%s|%s|layers=%d", sig, cc.wclass(), pn, resClass, len(cc.layers)), true)
		_, want := s.Q(memb)
		ok, ratio := sameQ(got, want, s.scale())
		calib(name+".err/band", ratio)
		if !ok {
			kk.viol(name+"|"+sig+"|differs-from-double-sum", map[string]any{"case": cc.desc(), "partition": memb, "got": got, "want": want},
				"%s (partition %s, weights %v, resolutions %v): got %v, the documented double sum gives %v", name, pn, cc.weights, cc.res, got, want)
		}
	}
}

// ---------------------------------------------------------------------------
// Louvain hierarchy

func isNilValue(x any) bool {
	if x == nil {
		return true
	}
	v := reflect.ValueOf(x)
	return v.Kind() == reflect.Ptr && v.IsNil()
}

// lvl is a uniform view of one level of a ReducedGraph / ReducedMultiplex.
type lvl struct {
	obj         reduced
	nodeIDs     []int64
	structure   [][]int64
	communities [][]int64
	layer       func(l int) graph.Graph
	qStructure  func() []float64 // gonum Q of (this level's graph, Structure())
	qNil        func() []float64 // gonum Q of (this level's graph, nil)
}

// structureDocSaysOriginalNodes reads the doc comment of ReducedGraph.Structure
// from the tree under test: does it promise that the lowest level holds
// "nodes from the original input graph"?
// (multiplex selects the ReducedMultiplex interface, the second declaration
// of Structure in louvain_common.go.)
func structureDocSaysOriginalNodes(multiplex bool) bool {
	nth := 0
	if multiplex {
		nth = 1
	}
	d := docCommentN("graph/community/louvain_common.go", `^\s*Structure\(\) \[\]\[\]graph\.Node`, nth)
	return strings.Contains(d, "bycontainingnodesfromtheoriginalinputgraph")
}

// expandedDocSaysNil reads the doc comment of Expanded: does it promise nil
// at the lowest level?
func expandedDocSaysNil(multiplex bool) bool {
	decl := `^\s*Expanded\(\) ReducedGraph`
	if multiplex {
		decl = `^\s*Expanded\(\) ReducedMultiplex`
	}
	d := docComment("graph/community/louvain_common.go", decl)
	return strings.Contains(d, "ornilifatthelowestlevel")
}

func partitionOf(sets [][]int64, universe map[int64]bool) (ok bool, why string) {
	seen := map[int64]bool{}
	for _, s := range sets {
		if len(s) == 0 {
			return false, "an empty community"
		}
		for _, id := range s {
			if !universe[id] {
				return false, fmt.Sprintf("member %d is not a node", id)
			}
			if seen[id] {
				return false, fmt.Sprintf("node %d occurs twice", id)
			}
			seen[id] = true
		}
	}
	if len(seen) != len(universe) {
		return false, fmt.Sprintf("%d of %d nodes covered", len(seen), len(universe))
	}
	return true, ""
}

// reduced is what ReducedGraph and ReducedMultiplex have in common.
type reduced interface {
	Nodes() graph.Nodes
	Communities() [][]graph.Node
	Structure() [][]graph.Node
}

// expandedOf returns the next lower level of a ReducedGraph/ReducedMultiplex
// value, or nil at the lowest level (typed reports a non-nil interface that
// wraps a nil pointer).
func expandedOf(g reduced) (next reduced, typed bool) {
	var e any
	switch gg := g.(type) {
	case community.ReducedGraph:
		e = gg.Expanded()
	case community.ReducedMultiplex:
		e = gg.Expanded()
	}
	if e == nil {
		return nil, false
	}
	if isNilValue(e) {
		return nil, true
	}
	return e.(reduced), false
}

// lvlOf builds the uniform view of one level with a single query of each
// accessor.
func lvlOf(cc *cmCase, g reduced) lvl {
	lv := lvl{
		obj:         g,
		nodeIDs:     idsOf(graph.NodesOf(g.Nodes())),
		structure:   idsOfAll(g.Structure()),
		communities: idsOfAll(g.Communities()),
	}
	switch gg := g.(type) {
	case community.ReducedGraph:
		gamma := cc.res[0]
		lv.layer = func(int) graph.Graph { return gg }
		lv.qStructure = func() []float64 { return []float64{community.Q(gg, gg.Structure(), gamma)} }
		lv.qNil = func() []float64 { return []float64{community.Q(gg, nil, gamma)} }
	case community.ReducedMultiplex:
		switch ml := g.(type) {
		case community.UndirectedMultiplex:
			lv.layer = func(l int) graph.Graph { return ml.Layer(l) }
		case community.DirectedMultiplex:
			lv.layer = func(l int) graph.Graph { return ml.Layer(l) }
		}
		lv.qStructure = func() []float64 { return community.QMultiplex(gg, gg.Structure(), cc.weights, cc.res) }
		lv.qNil = func() []float64 { return community.QMultiplex(gg, nil, cc.weights, cc.res) }
	}
	return lv
}

// collectLevels walks a result once, top down (top is a ReducedGraph or a
// ReducedMultiplex), querying every accessor of every level exactly once.
func collectLevels(cc *cmCase, top any) (levels []lvl, typedNil bool) {
	for cur := top.(reduced); cur != nil; {
		levels = append(levels, lvlOf(cc, cur))
		cur, typedNil = expandedOf(cur)
	}
	return levels, typedNil
}

// checkModularize runs Modularize / ModularizeMultiplex and judges every level.
func checkModularize(k *K, cc *cmCase, r *vrt.Rand, rep Rep) {
	n := cc.n()
	if n == 0 {
		return
	}
	name := "Modularize"
	if cc.multiplex {
		name = "ModularizeMultiplex"
	}
	shape := cc.shape()
	wclass := cc.wclass()
	s := cc.sys()
	sig := shape
	if cc.multiplex {
		sig = shape + "|" + wclass
	} else if s.tot[0] == 0 {
		sig = shape + "|zero-total-weight"
	}
	kk := k.with(cc.layers[0], rep.String())
	single, mux := cc.gonumGraphs(rep, r)
	srcSeed := r.Uint64()
	src := vrt.NewRand(srcSeed)

	var levels []lvl // top first while collecting
	typedNil := false
	kk.mark(name)
	kk.c.LastCase(fmt.Sprintf("%s %s %s weights=%v res=%v all=%v layers=%v", kk.wl, kk.caseID, name, cc.weights, cc.res, cc.all, cc.layers))
	wBefore, rBefore := append([]float64(nil), cc.weights...), append([]float64(nil), cc.res...)
	defer func() {
		if !reflect.DeepEqual(wBefore, append([]float64(nil), cc.weights...)) || !reflect.DeepEqual(rBefore, append([]float64(nil), cc.res...)) {
			kk.viol(name+"|"+shape+"|weights-or-resolutions-argument-modified", map[string]any{"weights": cc.weights, "resolutions": cc.res}, "%s modified its weights or resolutions argument", name)
		}
	}()
	p := vrt.Try(func() {
		var top any
		if !cc.multiplex {
			top = community.Modularize(single, cc.res[0], src)
		} else {
			top = community.ModularizeMultiplex(mux, cc.weights, cc.res, cc.all, src)
		}
		levels, typedNil = collectLevels(cc, top)
	})
	evalClass := fmt.Sprintf("%s|layers=%d|res=%v|all=%v|levels=%d", sig, len(cc.layers), cc.res, cc.all, len(levels))
	if p != nil {
		kk.eval(name, evalClass+"|panicked", true)
		kk.viol(name+"|"+sig+"|"+panicClass(p), map[string]any{"case": cc.desc(), "panic": p.Msg},
			"%s(weights=%v, resolutions=%v, all=%v) panicked: %s\n%s", name, cc.weights, cc.res, cc.all, p.Msg, p.Stack)
		return
	}
	kk.eval(name, evalClass, len(levels) > 1)
	kk.count("louvain.levels", int64(len(levels)))
	if typedNil && expandedDocSaysNil(cc.multiplex) {
		kk.viol(name+"|"+shape+"|Expanded-at-lowest-level-is-a-non-nil-interface", nil,
			"%s: Expanded() is documented to return nil at the lowest level, but `r.Expanded() == nil` is false there: the interface value wraps a nil pointer, and calling a method on it dereferences nil", name)
	}
	// The same graph value (deterministic iteration order) and an identically
	// seeded source must reproduce the result: "If src is nil, rand.IntN is used
	// as the random generator", i.e. a non-nil src is the only source of
	// randomness. All model weights are dyadic, and the order of every sum is
	// fixed by the ord graph, so the run is a deterministic function of src.
	if rep == RepOrd && srcSeed%4 == 0 {
		var again [][]int64
		if p2 := vrt.Try(func() {
			src2 := vrt.NewRand(srcSeed)
			if !cc.multiplex {
				again = idsOfAll(community.Modularize(single, cc.res[0], src2).Communities())
			} else {
				again = idsOfAll(community.ModularizeMultiplex(mux, cc.weights, cc.res, cc.all, src2).Communities())
			}
		}); p2 == nil {
			kk.eval(name, evalClass+"|repeat", len(levels) > 1)
			if !reflect.DeepEqual(again, levels[0].communities) {
				kk.viol(name+"|"+sig+"|not-reproducible-with-same-source", map[string]any{"case": cc.desc(), "first": levels[0].communities, "second": again},
					"%s: two runs on the same graph value with identically seeded sources gave different communities %v and %v", name, levels[0].communities, again)
			}
		}
	}
	judgeLevels(kk, name, shape, sig, cc, s, single, mux, levels, true)
}

// judgeLevels judges a hierarchy (given top first) against the model: every
// level a partition, Structure/Communities/reduced weights/Q mutually
// consistent; with optim also Q monotone across levels, >= singletons, and
// local optimality of every level (only meaningful when every level was
// produced at the resolution of cc).
func judgeLevels(kk *K, name, shape, sig string, cc *cmCase, s *qSys, single graph.Graph, mux community.Multiplex, levels []lvl, optim bool) {
	n := cc.n()
	wclass := cc.wclass()
	levels = append([]lvl(nil), levels...)
	// base first
	for i, j := 0, len(levels)-1; i < j; i, j = i+1, j-1 {
		levels[i], levels[j] = levels[j], levels[i]
	}

	ids := cc.ids()
	idx := cc.layers[0].Index()
	universe := map[int64]bool{}
	for _, id := range ids {
		universe[id] = true
	}
	sorted := append([]int64(nil), ids...)
	sort.Slice(sorted, func(a, b int) bool { return sorted[a] < sorted[b] })
	// blocks[j] = model indices represented by node j of the current level
	blocks := make([][]int, n)
	for j, id := range sorted {
		blocks[j] = []int{idx[id]}
	}
	rp := func(extra map[string]any) map[string]any {
		m := map[string]any{"case": cc.desc()}
		var ls []any
		for _, lv := range levels {
			ls = append(ls, map[string]any{"nodes": lv.nodeIDs, "structure": lv.structure, "communities": lv.communities})
		}
		m["levels_base_first"] = ls
		for k, v := range extra {
			m[k] = v
		}
		return m
	}
	fail := func(clause string, extra map[string]any, format string, args ...any) {
		kk.viol(name+"|"+sig+"|"+clause, rp(extra), "%s(weights=%v, resolutions=%v, all=%v): %s", name, cc.weights, cc.res, cc.all, fmt.Sprintf(format, args...))
	}
	singles := make([]int, n)
	for i := range singles {
		singles[i] = i
	}
	qSingle, _ := s.Q(singles)
	qPrev := qSingle
	scale := s.scale()
	haveQ := qComparable(s) && scale > 0
	allActive := haveQ
	inputQ := func(comm [][]int64) []float64 {
		var cn [][]graph.Node
		for _, c := range comm {
			cn = append(cn, nodesOfIDs(c))
		}
		return cc.gonumQ(single, mux, cn)
	}

	for li, lv := range levels {
		K := len(blocks)
		// level node set
		nodeSet := map[int64]bool{}
		for _, id := range lv.nodeIDs {
			nodeSet[id] = true
		}
		okNodes := len(lv.nodeIDs) == K && len(nodeSet) == K
		for j := 0; j < K && okNodes; j++ {
			okNodes = nodeSet[int64(j)]
		}
		if !okNodes {
			fail("level-node-count-differs-from-communities-below", map[string]any{"level": li}, "level %d has nodes %v but the level below defines %d communities", li, lv.nodeIDs, K)
			return
		}
		if ok, why := partitionOf(lv.structure, nodeSet); !ok {
			fail("Structure-not-a-partition-of-level-nodes", map[string]any{"level": li}, "level %d: Structure() is not a partition of the level's nodes: %s", li, why)
			return
		}
		if ok, why := partitionOf(lv.communities, universe); !ok {
			fail("Communities-not-a-partition-of-input-nodes", map[string]any{"level": li}, "level %d: Communities() is not a partition of the input nodes: %s", li, why)
			return
		}
		if li == 0 && structureDocSaysOriginalNodes(cc.multiplex) {
			// documented: at the lowest level Structure() contains nodes of the input graph
			asInput := true
			for c, st := range lv.structure {
				if len(st) != len(lv.communities[c]) {
					asInput = false
					break
				}
				want := map[int64]bool{}
				for _, id := range lv.communities[c] {
					want[id] = true
				}
				for _, id := range st {
					if !want[id] {
						asInput = false
					}
				}
			}
			if !asInput {
				kk.viol(name+"|"+shape+"|lowest-level-Structure-holds-indices-not-input-nodes", rp(nil),
					"%s: Structure() of the lowest level (Expanded() nil) is documented to contain nodes from the original input graph, but it contains the positions of the nodes in ID order (e.g. %v for communities %v)", name, lv.structure, lv.communities)
			}
		}
		if len(lv.structure) != len(lv.communities) {
			fail("Communities-inconsistent-with-Structure", map[string]any{"level": li}, "level %d: %d structure entries, %d communities", li, len(lv.structure), len(lv.communities))
			return
		}
		next := make([][]int, len(lv.structure))
		memb := make([]int, K) // membership of the level's nodes
		for c, st := range lv.structure {
			want := map[int64]bool{}
			for _, j := range st {
				memb[j] = c
				for _, i := range blocks[j] {
					next[c] = append(next[c], i)
					want[ids[i]] = true
				}
			}
			same := len(want) == len(lv.communities[c])
			for _, id := range lv.communities[c] {
				if !want[id] {
					same = false
				}
			}
			if !same {
				fail("Communities-inconsistent-with-Structure", map[string]any{"level": li, "community": c},
					"level %d: Communities()[%d] = %v is not the expansion of Structure()[%d] = %v through the levels below", li, c, lv.communities[c], c, st)
				return
			}
		}
		// reduced graph weights and adjacency
		agg := s.aggregate(blocks)
		for l := range cc.layers {
			if cc.multiplex && cc.layerWeight(l) == 0 {
				continue // a zero-weighted layer does not enter Q; gonum leaves it empty in reduced graphs
			}
			lg := lv.layer(l)
			wg, isW := lg.(graph.Weighted)
			if !isW {
				fail("reduced-graph-not-weighted", nil, "level %d layer %d is not a graph.Weighted", li, l)
				return
			}
			m := cc.layers[l]
			sgn := cc.sign(l)
			if msg := reducedNodeQueries(lg, K); msg != "" {
				fail("reduced-graph-query-methods", map[string]any{"level": li, "layer": l}, "level %d layer %d: %s", li, l, msg)
				return
			}
			for a := 0; a < K; a++ {
				wantFrom := map[int64]bool{}
				wantTo := map[int64]bool{}
				for b := 0; b < K; b++ {
					exists, existsRev := false, false
					for _, i := range blocks[a] {
						for _, j := range blocks[b] {
							if i != j && m.Has[i][j] {
								exists = true
							}
							if i != j && m.Has[j][i] {
								existsRev = true
							}
						}
					}
					want := sgn * agg.a[l][a][b]
					got, ok := wg.Weight(int64(a), int64(b))
					band := 1e-12 * (math.Abs(want) + 1e-3*math.Abs(agg.tot[l]))
					if a == b {
						if li == 0 {
							want = 0
						}
						if !ok || !(math.Abs(got-want) <= band) {
							fail("reduced-self-weight", map[string]any{"level": li, "layer": l, "node": a, "got": got, "want": want},
								"level %d layer %d: Weight(%d,%d) = %v,%v; the weight inside the community is %v (sum over ordered member pairs, as Q's A_ii)", li, l, a, a, got, ok, want)
							return
						}
						if msg := reducedPairQueries(lg, a, a, false, false, 0, band); msg != "" {
							fail("reduced-graph-query-methods", map[string]any{"level": li, "layer": l, "node": a}, "level %d layer %d: %s", li, l, msg)
							return
						}
						continue
					}
					if msg := reducedPairQueries(lg, a, b, exists, existsRev, want, band); msg != "" {
						fail("reduced-graph-query-methods", map[string]any{"level": li, "layer": l, "from": a, "to": b}, "level %d layer %d: %s", li, l, msg)
						return
					}
					if ok != exists || (exists && !(math.Abs(got-want) <= band)) {
						fail("reduced-edge-weight", map[string]any{"level": li, "layer": l, "from": a, "to": b, "got": got, "ok": ok, "want": want},
							"level %d layer %d: Weight(%d,%d) = %v,%v; the input has edges between the two communities: %v, of total weight %v", li, l, a, b, got, ok, exists, want)
						return
					}
					if exists {
						wantFrom[int64(b)] = true
					}
					if existsRev {
						wantTo[int64(b)] = true
					}
				}
				gotFrom := idsOf(graph.NodesOf(lg.From(int64(a))))
				if !sameIDSet(gotFrom, wantFrom) {
					fail("reduced-adjacency", map[string]any{"level": li, "layer": l, "node": a, "got": gotFrom},
						"level %d layer %d: From(%d) = %v, the communities joined to it by input edges are %v", li, l, a, gotFrom, keysOf(wantFrom))
					return
				}
				if dg, ok := lg.(graph.Directed); ok {
					gotTo := idsOf(graph.NodesOf(dg.To(int64(a))))
					if !sameIDSet(gotTo, wantTo) {
						fail("reduced-adjacency", map[string]any{"level": li, "layer": l, "node": a, "got": gotTo},
							"level %d layer %d: To(%d) = %v, the communities with input edges into it are %v", li, l, a, gotTo, keysOf(wantTo))
						return
					}
				}
			}
		}
		// Q at this level
		origMemb := make([]int, n)
		for c, b := range next {
			for _, i := range b {
				origMemb[i] = c
			}
		}
		qr, qrL := s.Q(origMemb)
		if qa, _ := agg.Q(memb); math.Abs(qa-qr) > 1e-9*scale {
			kk.viol("oracle|self-check|aggregation-invariance", nil, "monitor defect: Q of the aggregated system %v differs from Q of the partition %v", qa, qr)
		}
		if haveQ {
			var q1, q2, q3 []float64
			if !kk.try(cc.qName(), cc.shape(), func() {
				q1 = inputQ(lv.communities)
				q2 = lv.qStructure()
				if li+1 < len(levels) {
					q3 = levels[li+1].qNil()
				}
			}) {
				return
			}
			kk.eval(cc.qName(), "on-louvain-levels|input|"+sig, true)
			kk.eval(cc.qName(), "on-louvain-levels|level-structure|"+sig, true)
			if q3 != nil {
				kk.eval(cc.qName(), "on-louvain-levels|next-level-nil|"+sig, true)
			}
			if ok, _ := sameQ(q1, qrL, scale); !ok {
				qs := cc.shape()
				if wclass == "negative-layer" {
					qs += "|negative-layer"
				}
				kk.viol(cc.qName()+"|"+qs+"|differs-from-double-sum", rp(map[string]any{"level": li, "got": q1, "want": qrL}),
					"%s(input, Communities() of level %d) = %v, the documented double sum gives %v", cc.qName(), li, q1, qrL)
			}
			if ok, _ := sameQ(q2, q1, scale); !ok && allActive {
				fail("Q(level,Structure)-differs-from-Q(input,Communities)", map[string]any{"level": li, "q_level": q2, "q_input": q1},
					"level %d: Q(level graph, Structure()) = %v but Q(input graph, Communities()) = %v", li, q2, q1)
			}
			if q3 != nil {
				if ok, _ := sameQ(q3, q1, scale); !ok && allActive {
					fail("Q(next-level,nil)-differs-from-Q(input,Communities)", map[string]any{"level": li, "q_next": q3, "q_input": q1},
						"level %d: Q(level %d graph, nil) = %v but Q(input graph, Communities() of level %d) = %v", li, li+1, q3, li, q1)
				}
			}
		}
		if scale > 0 && optim {
			if qr < qPrev-qRel*scale {
				if li == 0 {
					fail("Q-below-singletons", map[string]any{"level": li, "q": qr, "q_singletons": qSingle},
						"level 0: Q = %.17g is below Q of the singleton partition %.17g at the resolution passed by the caller", qr, qSingle)
				} else {
					fail("Q-decreases-between-levels", map[string]any{"level": li, "q": qr, "q_below": qPrev},
						"level %d: Q = %.17g is below Q = %.17g of the level under it", li, qr, qPrev)
				}
			}
			qPrev = qr
			// local optimality of (level graph, Structure())
			comms := len(lv.structure)
		loc:
			for a := 0; a < K; a++ {
				for beta := 0; beta < comms; beta++ {
					if beta == memb[a] || !agg.connected(memb, a, beta) {
						continue
					}
					d := agg.delta(memb, a, beta)
					calib(name+".localgain/band", d/(locRel*scale))
					if d > 1e-15+locRel*scale {
						fail("not-locally-optimal", map[string]any{"level": li, "node": a, "to": beta, "gain": d},
							"level %d: moving node %d of the level graph from community %d to the connected community %d raises Q by %.3g; the local moving heuristic stops only when no such move gains", li, a, memb[a], beta, d)
						break loc
					}
				}
			}
		}
		blocks = next
	}
	if optim && scale > 0 && qPrev < qSingle-qRel*scale {
		fail("final-Q-below-singletons", map[string]any{"q": qPrev, "q_singletons": qSingle}, "final Q = %.17g is below Q of the singleton partition %.17g", qPrev, qSingle)
	}
}

func sameIDSet(got []int64, want map[int64]bool) bool {
	if len(got) != len(want) {
		return false
	}
	seen := map[int64]bool{}
	for _, id := range got {
		if !want[id] || seen[id] {
			return false
		}
		seen[id] = true
	}
	return true
}

func keysOf(m map[int64]bool) []int64 {
	out := make([]int64, 0, len(m))
	for k := range m {
		out = append(out, k)
	}
	sort.Slice(out, func(a, b int) bool { return out[a] < out[b] })
	return out
}

// checkNegativeWeightPanics observes the documented panics: Q and Modularize
// "will panic if g has any edge with negative edge weight"; QMultiplex /
// ModularizeMultiplex panic on an edge weight that does not sign-match the
// layer weight.
func checkNegativeWeightPanics(k *K, r *vrt.Rand) {
	for _, dir := range []bool{false, true} {
		m := newG(4, dir, true)
		m.Set(0, 1, 1)
		m.Set(1, 2, -1)
		m.Set(2, 3, 2)
		shape := "undirected"
		if dir {
			shape = "directed"
		}
		kk := k.with(m, "simple")
		g := build(m, RepSimple, r)
		comm := [][]graph.Node{nodesOfIDs([]int64{0, 1}), nodesOfIDs([]int64{2, 3})}
		expectPanic := func(name string, f func()) {
			p := vrt.TryFast(f)
			kk.eval(name, shape+"|sign-mismatch", true)
			switch {
			case p == nil:
				kk.viol(name+"|"+shape+"|sign-mismatch|no-panic", nil, "%s: documented to panic on an edge weight of the wrong sign but returned", name)
			case p.Runtime:
				kk.viol(name+"|"+shape+"|sign-mismatch|runtime-panic", p.Msg, "%s: runtime error instead of the documented panic: %s", name, p.Msg)
			}
		}
		expectPanic("Q", func() { community.Q(g, comm, 1) })
		expectPanic("Modularize", func() { community.Modularize(g, 1, vrt.NewRand(r.Uint64())) })
		var mux community.Multiplex
		if dir {
			mux, _ = community.NewDirectedLayers(g.(graph.Directed))
		} else {
			mux, _ = community.NewUndirectedLayers(g.(graph.Undirected))
		}
		expectPanic("QMultiplex", func() { community.QMultiplex(mux, comm, []float64{1}, nil) })
		expectPanic("QMultiplex", func() { community.QMultiplex(mux, comm, []float64{-1}, nil) })
		expectPanic("ModularizeMultiplex", func() { community.ModularizeMultiplex(mux, []float64{-1}, nil, true, vrt.NewRand(r.Uint64())) })
	}
}

// The reduced graphs are graph containers in their own right
// (graph.WeightedUndirected / graph.WeightedDirected): every query method must
// agree with the others and with the sums of input edge weights between the
// two communities. reducedPairQueries asks all pair queries for the ordered
// pair (a,b); exists / existsRev say whether the input has an edge from a
// member of a to a member of b / the other way round; want is the total weight
// a->b. For a == b all edge queries must report "no edge" (From never lists
// the node itself, and Edge documents "The node v must be directly reachable
// from u as defined by the From method"). It returns "" or a description of
// the first disagreement; a panic inside a query is a disagreement.
func reducedPairQueries(lg graph.Graph, a, b int, exists, existsRev bool, want, band float64) (msg string) {
	defer func() {
		if r := recover(); r != nil {
			msg = fmt.Sprintf("a query method panicked for the pair (%d,%d): %v", a, b, r)
		}
	}()
	x, y := int64(a), int64(b)
	_, directed := lg.(graph.Directed)
	if !directed {
		exists = exists || existsRev
		existsRev = exists
	}
	if a == b {
		exists, existsRev = false, false
	}
	endsOK := func(e graph.Edge) bool {
		f, t := e.From().ID(), e.To().ID()
		if directed {
			return f == x && t == y
		}
		return (f == x && t == y) || (f == y && t == x)
	}
	if got := lg.HasEdgeBetween(x, y); got != (exists || existsRev) {
		return fmt.Sprintf("HasEdgeBetween(%d,%d) = %v, input edges between the communities exist: %v", a, b, got, exists || existsRev)
	}
	if dg, ok := lg.(graph.Directed); ok {
		if got := dg.HasEdgeFromTo(x, y); got != exists {
			return fmt.Sprintf("HasEdgeFromTo(%d,%d) = %v, input edges from the first to the second community exist: %v", a, b, got, exists)
		}
	}
	judge := func(method string, e graph.Edge) string {
		if (e != nil && !isNilValue(e)) != exists {
			return fmt.Sprintf("%s(%d,%d) non-nil: %v, but input edges in that direction exist: %v", method, a, b, e != nil, exists)
		}
		if e == nil || isNilValue(e) {
			if e != nil {
				return fmt.Sprintf("%s(%d,%d) returned a non-nil interface holding a nil value", method, a, b)
			}
			return ""
		}
		if !endsOK(e) {
			return fmt.Sprintf("%s(%d,%d) returned the edge %d->%d", method, a, b, e.From().ID(), e.To().ID())
		}
		if we, ok := e.(graph.WeightedEdge); ok {
			if !(math.Abs(we.Weight()-want) <= band) {
				return fmt.Sprintf("%s(%d,%d).Weight() = %v, the input edges from the first to the second community weigh %v", method, a, b, we.Weight(), want)
			}
		}
		return ""
	}
	if m := judge("Edge", lg.Edge(x, y)); m != "" {
		return m
	}
	if wg, ok := lg.(graph.Weighted); ok {
		var e graph.Edge
		if we := wg.WeightedEdge(x, y); we != nil {
			e = we
		}
		if m := judge("WeightedEdge", e); m != "" {
			return m
		}
	}
	if ug, ok := lg.(graph.Undirected); ok {
		if m := judge("EdgeBetween", ug.EdgeBetween(x, y)); m != "" {
			return m
		}
	}
	if wu, ok := lg.(graph.WeightedUndirected); ok {
		var e graph.Edge
		if we := wu.WeightedEdgeBetween(x, y); we != nil {
			e = we
		}
		if m := judge("WeightedEdgeBetween", e); m != "" {
			return m
		}
	}
	return ""
}

// reducedNodeQueries checks Node for every node of the level and the pair
// queries for IDs that are not nodes of the level (no node, no edge).
func reducedNodeQueries(lg graph.Graph, K int) (msg string) {
	defer func() {
		if r := recover(); r != nil {
			msg = fmt.Sprintf("a query method panicked: %v", r)
		}
	}()
	for a := 0; a < K; a++ {
		if nd := lg.Node(int64(a)); nd == nil || isNilValue(nd) || nd.ID() != int64(a) {
			return fmt.Sprintf("Node(%d) does not return the node %d", a, a)
		}
	}
	for _, x := range []int64{-1, int64(K), int64(K) + 3} {
		if nd := lg.Node(x); nd != nil && !isNilValue(nd) {
			return fmt.Sprintf("Node(%d) is non-nil for an ID that is not a node of the level (%d nodes)", x, K)
		}
		if K == 0 {
			continue
		}
		for _, y := range []int64{0, int64(K - 1)} {
			for _, pr := range [][2]int64{{x, y}, {y, x}} {
				if lg.HasEdgeBetween(pr[0], pr[1]) || lg.Edge(pr[0], pr[1]) != nil {
					return fmt.Sprintf("an edge is reported between %d and %d although %d is not a node of the level", pr[0], pr[1], x)
				}
				if dg, ok := lg.(graph.Directed); ok && dg.HasEdgeFromTo(pr[0], pr[1]) {
					return fmt.Sprintf("HasEdgeFromTo(%d,%d) is true although %d is not a node of the level", pr[0], pr[1], x)
				}
				if wg, ok := lg.(graph.Weighted); ok {
					if _, ok := wg.Weight(pr[0], pr[1]); ok {
						return fmt.Sprintf("Weight(%d,%d) reports an edge although %d is not a node of the level", pr[0], pr[1], x)
					}
					if wg.WeightedEdge(pr[0], pr[1]) != nil {
						return fmt.Sprintf("WeightedEdge(%d,%d) is non-nil although %d is not a node of the level", pr[0], pr[1], x)
					}
				}
			}
		}
	}
	return ""
}
