package main

import (
	"fmt"
	"strings"

	"gonum.org/v1/gonum/verifx/vrt"
)

// K carries the identity of the case being judged so that every violation
// has the concrete graph and call attached.
type K struct {
	c      *vrt.Ctx
	wl     string // workload name
	caseID string // stream/index triple of the case
	g      *G
	rep    string // gonum representation handed to the code under test
	ids    string // ID scheme
	acc    *acc   // per-case accumulator of Eval / Count calls (flushed by done)
}

// acc batches the per-call bookkeeping of one case so that the worker
// goroutines do not serialise on the Ctx mutex for every gonum call. Every
// real call is still counted exactly once (flushed through EvalN / Count).
type acc struct {
	evals  map[string]*[2]int // key -> {nontrivial calls, trivial calls}
	counts map[string]int64
	last   string
}

func newK(c *vrt.Ctx, wl, caseID string) *K {
	return &K{c: c, wl: wl, caseID: caseID, ids: "contig", acc: &acc{evals: map[string]*[2]int{}, counts: map[string]int64{}}}
}

// done flushes the batched bookkeeping of the case.
func (k *K) done() {
	for key, n := range k.acc.evals {
		if n[0] > 0 {
			k.c.EvalN(key, n[0], true)
		}
		if n[1] > 0 {
			k.c.EvalN(key, n[1], false)
		}
	}
	for name, n := range k.acc.counts {
		k.c.Count(name, n)
	}
	k.acc.evals = map[string]*[2]int{}
	k.acc.counts = map[string]int64{}
}

func (k *K) with(g *G, rep string) *K {
	k2 := *k
	k2.g = g
	k2.rep = rep
	return &k2
}

// viol records a violation. sig is routine|path class|failing clause.
func (k *K) viol(sig string, observed any, format string, args ...any) {
	rp := map[string]any{
		"workload": k.wl, "case": k.caseID, "seed": k.c.Seed, "tier": k.c.Tier,
		"rep": k.rep, "id_scheme": k.ids, "observed": observed,
	}
	if k.g != nil {
		rp["graph"] = k.g.Desc()
	}
	detail := fmt.Sprintf(format, args...)
	if k.g != nil {
		detail += " :: " + k.g.String()
	}
	if len(detail) > 1800 {
		detail = detail[:1800] + "..."
	}
	k.c.Violation(sig, detail, rp)
}

// mark records the case about to run for crash / hang forensics.
func (k *K) mark(routine string) {
	if k.acc == nil {
		return
	}
	id := k.caseID + "/" + k.rep + "/" + routine
	if k.acc.last != id {
		k.acc.last = id
		gs := ""
		if k.g != nil {
			gs = k.g.String()
			if len(gs) > 3500 {
				gs = gs[:3500]
			}
		}
		k.c.LastCase(fmt.Sprintf("%s %s rep=%s routine=%s %s", k.wl, k.caseID, k.rep, routine, gs))
	}
}

// try runs f (a call into gonum); a panic is itself a violation
// routine|class|panic... . class names the path class of the call.
func (k *K) try(routine, class string, f func()) bool {
	k.mark(routine)
	if p := vrt.Try(f); p != nil {
		k.viol(routine+"|"+class+"|"+panicClass(p), p.Msg, "%s panicked: %s\n%s", routine, p.Msg, p.Stack)
		return false
	}
	return true
}

func (k *K) eval(routine, class string, nontrivial bool) {
	n := 0
	if k.g != nil {
		n = k.g.N
	}
	key := routine + "|" + k.wl + "|" + k.rep + "|" + k.ids + "|" + sizeClass(n) + "|" + class
	e := k.acc.evals[key]
	if e == nil {
		e = new([2]int)
		k.acc.evals[key] = e
	}
	if nontrivial {
		e[0]++
	} else {
		e[1]++
	}
	k.acc.counts["calls."+routine]++
}

// count adds to a named evidence counter (batched per case).
func (k *K) count(name string, n int64) { k.acc.counts[name] += n }

// panicClass normalises a recovered panic into a value-free signature part.
func panicClass(p *vrt.PanicInfo) string {
	if !p.Runtime {
		return "panic"
	}
	switch {
	case strings.Contains(p.Msg, "nil pointer"):
		return "runtime-panic:nil-dereference"
	case strings.Contains(p.Msg, "index out of range"):
		return "runtime-panic:index-out-of-range"
	case strings.Contains(p.Msg, "slice bounds"):
		return "runtime-panic:slice-bounds"
	case strings.Contains(p.Msg, "nil map"):
		return "runtime-panic:nil-map"
	}
	return "runtime-panic:other"
}
