package main

import (
	"fmt"
	"math"
	"os"
	"path/filepath"
	"regexp"
	"strings"
	"sync"

	"gonum.org/v1/gonum/graph"
	"gonum.org/v1/gonum/graph/network"
	"gonum.org/v1/gonum/graph/spectral"
	"gonum.org/v1/gonum/verifx/ref"
	"gonum.org/v1/gonum/verifx/vrt"
)

// ---------------------------------------------------------------------------
// doc comments read from the tree under test

func repoRoot() string {
	if r := os.Getenv("VERIF_REPO"); r != "" {
		return r
	}
	return "/repo"
}

var docCache sync.Map

// docComment returns the comment block that immediately precedes the line
// matching declRE in file (relative to the gonum root), with comment markers
// and all white space removed; "" if not found.
func docComment(file, declRE string) string { return docCommentN(file, declRE, 0) }

// docCommentN is docComment for the nth (0-based) line matching declRE.
func docCommentN(file, declRE string, nth int) string {
	key := fmt.Sprintf("%s\x00%s\x00%d", file, declRE, nth)
	if v, ok := docCache.Load(key); ok {
		return v.(string)
	}
	out := ""
	if b, err := os.ReadFile(filepath.Join(repoRoot(), file)); err == nil {
		lines := strings.Split(string(b), "\n")
		re := regexp.MustCompile(declRE)
		for i, l := range lines {
			if !re.MatchString(l) {
				continue
			}
			if nth > 0 {
				nth--
				continue
			}
			var parts []string
			for j := i - 1; j >= 0 && strings.HasPrefix(strings.TrimSpace(lines[j]), "//"); j-- {
				parts = append([]string{strings.TrimPrefix(strings.TrimSpace(lines[j]), "//")}, parts...)
			}
			out = strings.Join(strings.Fields(strings.Join(parts, " ")), "")
			break
		}
	}
	docCache.Store(key, out)
	return out
}

// rwDocForm says which matrix the doc comment of NewRandomWalkLaplacian
// defines: "row" for I-D^(-1)A (rows sum to zero), "column" for I-AD^(-1) /
// I-A^TD^(-1) (columns sum to zero), "" when the comment cannot be read.
func rwDocForm() string {
	d := docComment("graph/spectral/laplacian.go", `^func NewRandomWalkLaplacian\(`)
	switch {
	case d == "":
		return ""
	case strings.Contains(d, "AD^(-1)") || strings.Contains(d, "A^TD^(-1)") || strings.Contains(d, "AᵀD^(-1)") || strings.Contains(d, "A'D^(-1)"):
		return "column"
	case strings.Contains(d, "I-D^(-1)A"):
		return "row"
	}
	return ""
}

// ---------------------------------------------------------------------------
// Laplacian entries

// lapEps is the band for entries of the normalised Laplacians (a division and
// up to two square roots). Calibrated worst deviation: 1.1e-16.
const lapEps = 1e-13

func lapStructure(kk *K, name string, m *G, l spectral.Laplacian) (idx []int, ok bool) {
	n := m.N
	r, c := l.Dims()
	if r != n || c != n || len(l.Nodes) != n || len(l.Index) != n {
		kk.viol(name+"|any|shape", nil, "%s: dims %dx%d, %d nodes, %d index entries for a graph of %d nodes", name, r, c, len(l.Nodes), len(l.Index), n)
		return nil, false
	}
	idx = make([]int, n) // model index -> matrix index
	seen := make([]bool, n)
	for i, id := range m.IDs {
		j, found := l.Index[id]
		if !found || j < 0 || j >= n || seen[j] || l.Nodes[j] == nil || l.Nodes[j].ID() != id {
			kk.viol(name+"|any|index-nodes-inconsistent", map[string]any{"index": l.Index, "nodes": idsOf(l.Nodes)}, "%s: Index and Nodes do not describe a bijection onto the node IDs (node %d)", name, id)
			return nil, false
		}
		seen[j] = true
		idx[i] = j
	}
	return idx, true
}

func regClass(m *G) string {
	// the row and column forms of the random-walk Laplacian coincide iff
	// A_ij/deg_i == A_ji/deg_j for all pairs
	for i := 0; i < m.N; i++ {
		for j := 0; j < m.N; j++ {
			var a, b float64
			if m.Has[i][j] {
				a = 1 / float64(m.OutDeg(i))
			}
			if m.Has[j][i] {
				b = 1 / float64(m.OutDeg(j))
			}
			if a != b {
				return "forms-differ"
			}
		}
	}
	return "forms-coincide"
}

// checkLaplacians judges the three constructors of graph/spectral on the
// unweighted model m (NewLaplacian and NewSymNormLaplacian take undirected
// graphs only).
func checkLaplacians(k *K, m *G, r *vrt.Rand, reps []Rep) {
	// A weighted model is handed over as a weighted graph type; the
	// constructors take graph.Undirected / graph.Graph, which carry no weights:
	// D holds "the degree of each node" and A is the adjacency matrix, so the
	// expected entries are those of the link structure.
	if m.N == 0 {
		return
	}
	n := m.N
	iso := "no-isolated"
	pend := false
	for i := 0; i < n; i++ {
		switch m.OutDeg(i) {
		case 0:
			iso = "isolated"
		case 1:
			pend = true
		}
	}
	if pend {
		iso += "+pendant"
	}
	if m.Weighted {
		iso += "+weighted-type"
	}
	for _, rep := range reps {
		kk := k.with(m, rep.String())
		g := build(m, rep, r)
		if !m.Dir {
			ug := g.(graph.Undirected)
			var l spectral.Laplacian
			if kk.try("NewLaplacian", "any", func() { l = spectral.NewLaplacian(ug) }) {
				kk.eval("NewLaplacian", iso, m.M() > 0)
				if idx, ok := lapStructure(kk, "NewLaplacian", m, l); ok {
				outer:
					for i := 0; i < n; i++ {
						for j := 0; j < n; j++ {
							want := 0.0
							switch {
							case i == j:
								want = float64(m.OutDeg(i))
							case m.Has[i][j]:
								want = -1
							}
							if got := l.At(idx[i], idx[j]); got != want {
								kk.viol("NewLaplacian|any|entry", matOut(l), "NewLaplacian: L[%d,%d] = %g, D-A gives %g", m.IDs[i], m.IDs[j], got, want)
								break outer
							}
						}
					}
				}
			}
			if kk.try("NewSymNormLaplacian", "any", func() { l = spectral.NewSymNormLaplacian(ug) }) {
				kk.eval("NewSymNormLaplacian", iso, m.M() > 0)
				if idx, ok := lapStructure(kk, "NewSymNormLaplacian", m, l); ok {
				outer2:
					for i := 0; i < n; i++ {
						for j := 0; j < n; j++ {
							got := l.At(idx[i], idx[j])
							if i == j && m.OutDeg(i) == 0 {
								// D^(-1/2) does not exist for an isolated node. The normalised
								// Laplacian is D^(-1/2)(D-A)D^(-1/2) (= I-D^(-1/2)AD^(-1/2) wherever the
								// degrees are non-zero); the row and column of an isolated node of D-A
								// are zero, so the entry is 0 under any finite convention for
								// D^(-1/2)(v,v) (Chung, Spectral Graph Theory: L(u,u) = 1 only if
								// d_u != 0). This is also what keeps the multiplicity of the eigenvalue
								// 0 equal to the number of components and what the other two
								// constructors do (zero row and column).
								if got != 0 {
									kk.viol("NewSymNormLaplacian|isolated|entry", matOut(l), "NewSymNormLaplacian: diagonal of isolated node %d is %g; D^(-1/2)(D-A)D^(-1/2) has a zero row and column for a node without edges (heat on it would otherwise decay although it has nowhere to go)", m.IDs[i], got)
									break outer2
								}
								continue
							}
							want := 0.0
							switch {
							case i == j:
								want = 1
							case m.Has[i][j]:
								want = -1 / math.Sqrt(float64(m.OutDeg(i))*float64(m.OutDeg(j)))
							}
							calib("NewSymNormLaplacian.dev/eps", math.Abs(got-want)/lapEps)
							if math.Abs(got-want) > lapEps {
								kk.viol("NewSymNormLaplacian|any|entry", matOut(l), "NewSymNormLaplacian: L[%d,%d] = %.17g, I-D^(-1/2)AD^(-1/2) gives %.17g", m.IDs[i], m.IDs[j], got, want)
								break outer2
							}
						}
					}
				}
			}
		}
		// random-walk Laplacian: directed and undirected
		for _, damp := range []float64{0, 0.5, 0.85} {
			var l spectral.Laplacian
			rc := regClass(m)
			if !kk.try("NewRandomWalkLaplacian", rc, func() { l = spectral.NewRandomWalkLaplacian(g, damp) }) {
				continue
			}
			kk.eval("NewRandomWalkLaplacian", fmt.Sprintf("%s|%s|%s|damp=%g", shapeClass(m), iso, rc, damp), m.M() > 0)
			idx, ok := lapStructure(kk, "NewRandomWalkLaplacian", m, l)
			if !ok {
				continue
			}
			// s*(I - A^T D^-1) (column form) and s*(I - D^-1 A) (row form), s = 1-damp.
			// The doc only says "damp-scaled"; the factor 1-damp is the one gonum's
			// own TestRandomWalkLaplacian data uses (0.15 for damp 0.85).
			s := 1 - damp
			isCol, isRow := true, true
			for i := 0; i < n; i++ {
				for j := 0; j < n; j++ {
					got := l.At(idx[i], idx[j])
					var col, row float64
					if i == j {
						if m.OutDeg(i) > 0 {
							col, row = s, s
						}
					} else {
						if m.Has[j][i] {
							col = -s / float64(m.OutDeg(j))
						}
						if m.Has[i][j] {
							row = -s / float64(m.OutDeg(i))
						}
					}
					if math.Abs(got-col) > lapEps {
						isCol = false
					}
					if math.Abs(got-row) > lapEps {
						isRow = false
					}
				}
			}
			switch form := rwDocForm(); {
			case !isCol && !isRow:
				kk.viol("NewRandomWalkLaplacian|"+rc+"|entry", matOut(l), "NewRandomWalkLaplacian(damp=%g): entries are neither (1-damp)(I-D^(-1)A) nor its transpose", damp)
			case form == "row" && !isRow:
				kk.viol("NewRandomWalkLaplacian|"+rc+"|transpose-of-documented-matrix", matOut(l),
					"NewRandomWalkLaplacian(damp=%g): the doc comment defines the matrix as I-D^(-1)A (rows sum to zero) but the result is its transpose I-A^T D^(-1) (columns sum to zero)", damp)
			case form == "column" && !isCol:
				kk.viol("NewRandomWalkLaplacian|"+rc+"|transpose-of-documented-matrix", matOut(l),
					"NewRandomWalkLaplacian(damp=%g): the doc comment defines the column form but the result is the row form I-D^(-1)A", damp)
			}
		}
	}
}

// checkSelfEdgePanics observes the documented "If g contains self edges, ...
// will panic" of the three constructors on a graph whose From(u) yields u.
func checkSelfEdgePanics(k *K, r *vrt.Rand) {
	m := newG(3, false, false)
	m.Set(0, 1, 1)
	m.Set(1, 2, 1)
	o := newOrd(m, r)
	o.selfLoop = r.Intn(3)
	kk := k.with(m, "ord-selfloop")
	for name, f := range map[string]func(){
		"NewLaplacian":           func() { spectral.NewLaplacian(ordUndirected{o}) },
		"NewSymNormLaplacian":    func() { spectral.NewSymNormLaplacian(ordUndirected{o}) },
		"NewRandomWalkLaplacian": func() { spectral.NewRandomWalkLaplacian(ordUndirected{o}, 0.5) },
	} {
		p := vrt.TryFast(f)
		kk.eval(name, "self-edge", true)
		if p == nil {
			kk.viol(name+"|self-edge|no-panic", nil, "%s: documented to panic on a self edge but returned", name)
		} else if p.Runtime {
			kk.viol(name+"|self-edge|runtime-panic", p.Msg, "%s: runtime error instead of the documented panic: %s", name, p.Msg)
		}
	}
}

func matOut(l spectral.Laplacian) any {
	r, c := l.Dims()
	if r > 12 {
		return "matrix too large to print"
	}
	rows := make([][]float64, r)
	for i := range rows {
		rows[i] = make([]float64, c)
		for j := range rows[i] {
			rows[i][j] = l.At(i, j)
		}
	}
	return map[string]any{"nodes": idsOf(l.Nodes), "matrix": rows}
}

// ---------------------------------------------------------------------------
// diffusion

// expm returns exp(a) by scaling and squaring with a Taylor series summed to
// convergence (own implementation, independent of mat.Dense.Exp).
func expm(a *ref.M) *ref.M {
	n := a.R
	norm := a.NormInf()
	s := 0
	for norm > 0.25 {
		norm /= 2
		s++
	}
	b := ref.Scale(math.Ldexp(1, -s), a)
	sum := ref.Eye(n)
	term := ref.Eye(n)
	for k := 1; k <= 40; k++ {
		term = ref.Scale(1/float64(k), ref.Mul(term, b))
		sum = ref.Add(sum, term)
		if term.MaxAbs() <= 1e-20*sum.MaxAbs() {
			break
		}
	}
	for i := 0; i < s; i++ {
		sum = ref.Mul(sum, sum)
	}
	return sum
}

// diffuseRel bounds |Diffuse - exp(-Lt)h| relative to max|h| * n. Calibrated
// worst deviation on the pinned tree: 1.4e-14 relative, i.e. 1.4e-5 of the band
// (Padé vs Taylor, ||Lt|| up to ~400).
const diffuseRel = 1e-9

// eqRel bounds the difference between DiffuseToEquilibrium and the monitor's
// own run of h <- h - L h, relative to the largest iterate magnitude.
// Calibrated worst deviation: 4.1e-13 relative (4.1e-3 of the band, 3000 updates).
const eqRel = 1e-10

func lapToRef(l spectral.Laplacian) *ref.M {
	n, _ := l.Dims()
	return ref.FromFunc(n, n, func(i, j int) float64 { return l.At(i, j) })
}

// checkDiffusion judges Diffuse and DiffuseToEquilibrium with Laplacians built
// by gonum for the undirected model m (their entries are judged separately by
// checkLaplacians; here the matrix actually returned is taken as L).
func checkDiffusion(k *K, m *G, r *vrt.Rand, rep Rep) {
	if m.N == 0 || m.Weighted {
		return
	}
	n := m.N
	kk := k.with(m, rep.String())
	g := build(m, rep, r)
	type lap struct {
		name string
		l    spectral.Laplacian
	}
	var laps []lap
	kk.mark("Laplacians-for-diffusion")
	if p := vrt.Try(func() {
		if ug, ok := g.(graph.Undirected); ok {
			laps = append(laps, lap{"laplacian", spectral.NewLaplacian(ug)}, lap{"symnorm", spectral.NewSymNormLaplacian(ug)})
		}
		laps = append(laps, lap{"randomwalk", spectral.NewRandomWalkLaplacian(g, r.PickFloat(0.1, 0.5, 0.85))})
	}); p != nil {
		return // reported by checkLaplacians
	}
	// heat: some nodes without entry, some entries without node
	mkHeat := func() (h map[int64]float64, extra []int64) {
		h = map[int64]float64{}
		for _, id := range m.IDs {
			if r.Chance(0.8) {
				h[id] = math.Round(r.Uniform(-4, 8)*16) / 16
			}
		}
		for t := r.Intn(3); t > 0; t-- {
			id := int64(5000 + r.Intn(1000))
			h[id] = float64(1 + r.Intn(9))
			extra = append(extra, id)
		}
		return h, extra
	}
	for _, lp := range laps {
		L := lapToRef(lp.l)
		idx := lp.l.Index
		// ---- Diffuse
		if !m.Dir {
			t := r.PickFloat(0, 0.125, 1, 5)
			h, extra := mkHeat()
			hv := ref.New(n, 1)
			hmax := 0.0
			for id, i := range idx {
				hv.D[i] = h[id]
				hmax = math.Max(hmax, math.Abs(h[id]))
			}
			want := ref.Mul(expm(ref.Scale(-t, L)), hv)
			var dst map[int64]float64
			sentinel := int64(-777777)
			dstMode := r.Intn(3)
			switch dstMode {
			case 1:
				dst = map[int64]float64{sentinel: 42}
			case 2:
				dst = map[int64]float64{sentinel: 42}
				for _, id := range m.IDs {
					dst[id] = -1e9
				}
			}
			hCopy := copyMap(h)
			var got map[int64]float64
			class := lp.name
			if kk.try("Diffuse", class, func() { got = network.Diffuse(dst, h, lp.l, t) }) {
				if ref.MaxDiff(L, lapToRef(lp.l)) != 0 {
					kk.viol("Diffuse|"+class+"|laplacian-argument-modified", matOut(lp.l), "Diffuse modified the Laplacian it was given")
				}
				kk.eval("Diffuse", fmt.Sprintf("%s|t=%g|dst=%d", class, t, dstMode), m.M() > 0 && t > 0)
				checkDiffuseMaps(kk, "Diffuse", class, m, dst, got, h, hCopy, extra, sentinel)
				worst := 0.0
				for id, i := range idx {
					x, ok := got[id]
					if !ok || math.IsNaN(x) {
						worst = math.Inf(1)
						break
					}
					worst = math.Max(worst, math.Abs(x-want.D[i]))
				}
				band := diffuseRel * float64(n) * math.Max(hmax, 1e-300)
				// a node without edges exchanges heat with nobody: whatever Laplacian
				// of the graph is used, its heat stays what it was
				for i, id := range m.IDs {
					if m.OutDeg(i) == 0 && m.InDeg(i) == 0 {
						if x, ok := got[id]; ok && !(math.Abs(x-h[id]) <= band) {
							kk.viol("Diffuse|"+class+"|isolated-node-heat-changed", map[string]any{"t": t, "h": h, "got": got},
								"Diffuse(t=%g, %s Laplacian): the heat of the isolated node %d changed from %g to %g", t, lp.name, id, h[id], x)
							break
						}
					}
				}
				calib("Diffuse.err/band", worst/band)
				if !(worst <= band) {
					kk.viol("Diffuse|"+class+"|not-exp(-Lt)h", map[string]any{"t": t, "h": h, "got": got, "want": want.D, "index": idx},
						"Diffuse(t=%g, %s Laplacian): max deviation from exp(-Lt)h is %.3g (band %.3g)", t, lp.name, worst, band)
				}
			}
		}
		// ---- DiffuseToEquilibrium
		{
			tol := r.PickFloat(1e-3, 1e-8, 0.5)
			iters := r.PickInt(0, 1, 2, 7, 100, 3000)
			if lp.name == "laplacian" && iters > 7 {
				// h - Lh diverges for the unnormalised Laplacian (|1-lambda| up to 2*deg-1)
				// and every step cancels heavily: rounding differences between two correct
				// evaluations grow without a useful bound, so only short runs are judged
				iters = 7
			}
			h, extra := mkHeat()
			cur := make([]float64, n)
			for id, i := range idx {
				cur[i] = h[id]
			}
			// own run of the documented update h_{n+1} = h_n - L h_n
			wantOK, ambiguous := false, false
			scale := 0.0
			for _, x := range cur {
				scale = math.Max(scale, math.Abs(x))
			}
			steps := 0
			for steps < iters {
				next := make([]float64, n)
				var d2 float64
				for i := 0; i < n; i++ {
					var s float64
					for j := 0; j < n; j++ {
						s += L.At(i, j) * cur[j]
					}
					next[i] = cur[i] - s
					d2 += s * s
					scale = math.Max(scale, math.Abs(next[i]))
				}
				cur = next
				steps++
				diff := math.Sqrt(d2)
				if math.Abs(diff-tol) <= 1e-9*tol+1e-12*scale {
					ambiguous = true
					break
				}
				if diff < tol {
					wantOK = true
					break
				}
			}
			if math.IsInf(scale, 0) || math.IsNaN(scale) || scale > 1e200 {
				ambiguous = true
			}
			var dst map[int64]float64
			sentinel := int64(-777777)
			dstMode := r.Intn(2)
			if dstMode == 1 {
				dst = map[int64]float64{sentinel: 42}
			}
			hCopy := copyMap(h)
			var got map[int64]float64
			var gotOK bool
			class := lp.name
			if kk.try("DiffuseToEquilibrium", class, func() { got, gotOK = network.DiffuseToEquilibrium(dst, h, lp.l, tol, iters) }) {
				if ref.MaxDiff(L, lapToRef(lp.l)) != 0 {
					kk.viol("DiffuseToEquilibrium|"+class+"|laplacian-argument-modified", matOut(lp.l), "DiffuseToEquilibrium modified the Laplacian it was given")
				}
				kk.eval("DiffuseToEquilibrium", fmt.Sprintf("%s|%s|tol=%g|iters=%d|conv=%v", shapeClass(m), class, tol, iters, gotOK), iters > 0)
				checkDiffuseMaps(kk, "DiffuseToEquilibrium", class, m, dst, got, h, hCopy, extra, sentinel)
				if ambiguous {
					kk.count("skipped.DiffuseToEquilibrium.borderline", 1)
				} else {
					if gotOK != wantOK {
						kk.viol("DiffuseToEquilibrium|"+class+"|convergence-flag", map[string]any{"tol": tol, "iters": iters, "h": h, "got": got, "ok": gotOK},
							"DiffuseToEquilibrium(tol=%g, iters=%d): reported ok=%v; the documented update reaches a 2-norm step below tol within iters updates: %v (after %d updates)", tol, iters, gotOK, wantOK, steps)
					} else {
						worst := 0.0
						for id, i := range idx {
							x, ok := got[id]
							if !ok || math.IsNaN(x) {
								worst = math.Inf(1)
								break
							}
							worst = math.Max(worst, math.Abs(x-cur[i]))
						}
						band := eqRel * math.Max(scale, 1e-300)
						calib("DiffuseToEquilibrium.err/band", worst/band)
						if !(worst <= band) {
							kk.viol("DiffuseToEquilibrium|"+class+"|not-the-documented-iterate", map[string]any{"tol": tol, "iters": iters, "h": h, "got": got, "want": cur, "index": idx},
								"DiffuseToEquilibrium(tol=%g, iters=%d, ok=%v): result differs from iterate %d of h <- h - Lh by %.3g (band %.3g)", tol, iters, gotOK, steps, worst, band)
						}
					}
				}
			}
		}
	}
}

func copyMap(m map[int64]float64) map[int64]float64 {
	c := make(map[int64]float64, len(m))
	for k, v := range m {
		c[k] = v
	}
	return c
}

// checkDiffuseMaps checks the documented map handling: "written into the map
// dst and returned ... If dst is nil, a new map is created. Nodes without
// corresponding entries in h are given an initial heat of zero, and entries in
// h without a corresponding node in the original graph are not altered when
// written to dst."
func checkDiffuseMaps(kk *K, name, class string, m *G, dst, got, h, hBefore map[int64]float64, extra []int64, sentinel int64) {
	if got == nil {
		kk.viol(name+"|"+class+"|nil-result", nil, "%s returned a nil map", name)
		return
	}
	if dst != nil {
		// same map: a write through one is visible through the other
		dst[sentinel+1] = 7
		_, same := got[sentinel+1]
		delete(dst, sentinel+1)
		if !same {
			kk.viol(name+"|"+class+"|dst-not-returned", nil, "%s: the returned map is not the dst argument", name)
			return
		}
		if v, ok := got[sentinel]; !ok || v != 42 {
			kk.viol(name+"|"+class+"|foreign-dst-entry-altered", got, "%s: an entry of dst that is not a node of the graph was altered or removed", name)
		}
	}
	for _, id := range m.IDs {
		if _, ok := got[id]; !ok {
			kk.viol(name+"|"+class+"|missing-node", got, "%s: no result for node %d", name, id)
			return
		}
	}
	for _, id := range extra {
		if _, ok := got[id]; ok && dst == nil {
			kk.viol(name+"|"+class+"|non-node-written", got, "%s: wrote an entry for ID %d which is not a node of the graph", name, id)
		}
	}
	if len(h) != len(hBefore) {
		kk.viol(name+"|"+class+"|input-h-modified", h, "%s modified its input map h", name)
		return
	}
	for id, v := range hBefore {
		if w, ok := h[id]; !ok || w != v {
			kk.viol(name+"|"+class+"|input-h-modified", h, "%s modified its input map h", name)
			return
		}
	}
}
