package main

import (
	"fmt"

	"gonum.org/v1/gonum/graph"
	"gonum.org/v1/gonum/graph/community"
	"gonum.org/v1/gonum/graph/simple"
	"gonum.org/v1/gonum/verifx/vrt"
)

// Constructors and validators that document an error or a panic on
// inconsistent input are given both sides of the condition, with the
// inconsistency at every position.

// layerGraph builds a graph of the wanted kind on the given IDs (ring edges).
func layerGraph(dir bool, ids []int64, r *vrt.Rand) graph.Graph {
	if dir {
		g := simple.NewDirectedGraph()
		for _, i := range r.Perm(len(ids)) {
			g.AddNode(simple.Node(ids[i]))
		}
		for i := range ids {
			if j := (i + 1) % len(ids); j != i && r.Chance(0.8) {
				g.SetEdge(simple.Edge{F: simple.Node(ids[i]), T: simple.Node(ids[j])})
			}
		}
		return g
	}
	g := simple.NewUndirectedGraph()
	for _, i := range r.Perm(len(ids)) {
		g.AddNode(simple.Node(ids[i]))
	}
	for i := range ids {
		if j := (i + 1) % len(ids); j != i && r.Chance(0.8) {
			g.SetEdge(simple.Edge{F: simple.Node(ids[i]), T: simple.Node(ids[j])})
		}
	}
	return g
}

var hostileKinds = []string{"none", "missing-one", "missing-several", "extra-one", "one-replaced", "empty"}

// checkLayerConstructors: NewUndirectedLayers / NewDirectedLayers document
// "ensuring there is a match between IDs for each layer" (Multiplex.Nodes:
// "All layers must refer to the same set of nodes"): an error exactly when the
// ID sets of the layers are not all equal (compared here as sets), a usable
// value otherwise. 1..5 layers, exactly one hostile layer at every position.
func checkLayerConstructors(k *K, r *vrt.Rand) {
	for _, dir := range []bool{false, true} {
		name := "NewUndirectedLayers"
		if dir {
			name = "NewDirectedLayers"
		}
		for depth := 1; depth <= 5; depth++ {
			for pos := 0; pos < depth; pos++ {
				for _, kind := range hostileKinds {
					n := 3 + r.Intn(6)
					ids := make([]int64, n)
					base := int64(r.Range(-20, 20))
					for i := range ids {
						ids[i] = base + int64(2*i)
					}
					sets := make([][]int64, depth)
					for l := range sets {
						sets[l] = append([]int64(nil), ids...)
					}
					switch kind {
					case "missing-one":
						d := r.Intn(n)
						sets[pos] = append(append([]int64(nil), ids[:d]...), ids[d+1:]...)
					case "missing-several":
						sets[pos] = append([]int64(nil), ids[:1+r.Intn(n-2)]...)
					case "extra-one":
						sets[pos] = append(sets[pos], base+1)
					case "one-replaced":
						sets[pos][r.Intn(n)] = base + 1
					case "empty":
						sets[pos] = nil
					}
					// model: are all ID sets equal?
					wantErr := false
					for l := 1; l < depth; l++ {
						if !equalIDSets(sets[0], sets[l]) {
							wantErr = true
						}
					}
					m := newG(0, dir, false)
					kk := k.with(m, "simple")
					class := fmt.Sprintf("depth=%d|pos=%d|%s", depth, pos, kind)
					sig := kind
					if kind != "none" {
						switch {
						case pos == 0:
							sig += "@first"
						case pos == 1:
							sig += "@second"
						default:
							sig += "@later"
						}
					}
					var mux community.Multiplex
					var err error
					var depthGot int
					var nodesGot []int64
					layerOK := true
					if !kk.try(name, sig, func() {
						if dir {
							ls := make([]graph.Directed, depth)
							for l := range ls {
								ls[l] = layerGraph(true, sets[l], r).(graph.Directed)
							}
							v, e := community.NewDirectedLayers(ls...)
							err = e
							if e == nil {
								mux, depthGot = v, v.Depth()
								nodesGot = idsOf(graph.NodesOf(v.Nodes()))
								for l := range ls {
									if v.Layer(l) != ls[l] {
										layerOK = false
									}
								}
							}
						} else {
							ls := make([]graph.Undirected, depth)
							for l := range ls {
								ls[l] = layerGraph(false, sets[l], r).(graph.Undirected)
							}
							v, e := community.NewUndirectedLayers(ls...)
							err = e
							if e == nil {
								mux, depthGot = v, v.Depth()
								nodesGot = idsOf(graph.NodesOf(v.Nodes()))
								for l := range ls {
									if v.Layer(l) != ls[l] {
										layerOK = false
									}
								}
							}
						}
					}) {
						continue
					}
					kk.eval(name, class, true)
					rp := map[string]any{"layer_id_sets": sets, "error": fmt.Sprint(err)}
					switch {
					case wantErr && err == nil:
						kk.viol(name+"|"+sig+"|mismatched-layer-IDs-accepted", rp, "%s: %d layers, layer %d is %s (ID sets %v): documented to ensure a match between the IDs of the layers, but no error was returned", name, depth, pos, kind, sets)
					case !wantErr && err != nil:
						kk.viol(name+"|"+sig+"|matching-layers-rejected", rp, "%s: %d layers with identical ID sets were rejected: %v", name, depth, err)
					case !wantErr:
						if depthGot != depth || !layerOK || !equalIDSets(nodesGot, sets[0]) {
							kk.viol(name+"|"+sig+"|value-not-the-given-layers", rp, "%s: Depth() = %d for %d layers, layers returned unchanged: %v, Nodes() = %v for IDs %v", name, depthGot, depth, layerOK, nodesGot, sets[0])
						}
						_ = mux
					}
				}
			}
		}
	}
}

func equalIDSets(a, b []int64) bool {
	if len(a) != len(b) {
		return false
	}
	m := make(map[int64]bool, len(a))
	for _, x := range a {
		m[x] = true
	}
	if len(m) != len(a) {
		return false
	}
	for _, x := range b {
		if !m[x] {
			return false
		}
	}
	return true
}

// graphOnly hides every interface but graph.Graph.
type graphOnly struct{ graph.Graph }

// checkArgumentValidation: the documented panics of QMultiplex /
// ModularizeMultiplex on weights / resolutions of the wrong length ("the
// length of weights must equal the number of layers"; resolutions nil, one
// element or one per layer) and of Q / Modularize on a graph that is neither
// Undirected nor Directed; and no panic for every admissible length.
func checkArgumentValidation(k *K, r *vrt.Rand) {
	for _, dir := range []bool{false, true} {
		for depth := 1; depth <= 4; depth++ {
			ids := []int64{0, 1, 2, 3, 4}
			var mux community.Multiplex
			if dir {
				ls := make([]graph.Directed, depth)
				for l := range ls {
					ls[l] = layerGraph(true, ids, r).(graph.Directed)
				}
				mux, _ = community.NewDirectedLayers(ls...)
			} else {
				ls := make([]graph.Undirected, depth)
				for l := range ls {
					ls[l] = layerGraph(false, ids, r).(graph.Undirected)
				}
				mux, _ = community.NewUndirectedLayers(ls...)
			}
			m := newG(0, dir, false)
			kk := k.with(m, "simple")
			ones := func(n int) []float64 {
				if n < 0 {
					return nil
				}
				s := make([]float64, n)
				for i := range s {
					s[i] = 1
				}
				return s
			}
			for wl := -1; wl <= depth+1; wl++ { // -1 stands for nil
				for rl := -1; rl <= depth+1; rl++ {
					w, res := ones(wl), ones(rl)
					wantPanic := (w != nil && len(w) != depth) || (res != nil && len(res) != 1 && len(res) != depth)
					for _, fn := range []string{"QMultiplex", "ModularizeMultiplex"} {
						p := vrt.TryFast(func() {
							if fn == "QMultiplex" {
								community.QMultiplex(mux, nil, w, res)
							} else {
								community.ModularizeMultiplex(mux, w, res, true, vrt.NewRand(r.Uint64()))
							}
						})
						kk.eval(fn, fmt.Sprintf("arg-lengths|depth=%d|w=%d|res=%d", depth, wl, rl), true)
						sig := shapeClass(m) + "|argument-lengths"
						switch {
						case wantPanic && p == nil:
							kk.viol(fn+"|"+sig+"|wrong-length-accepted", map[string]any{"depth": depth, "weights": w, "resolutions": res}, "%s: %d layers, weights %v, resolutions %v: documented length requirement violated but no panic", fn, depth, w, res)
						case wantPanic && p.Runtime:
							kk.viol(fn+"|"+sig+"|runtime-panic-instead-of-documented-panic", p.Msg, "%s: %d layers, weights %v, resolutions %v: %s", fn, depth, w, res, p.Msg)
						case !wantPanic && p != nil:
							kk.viol(fn+"|"+sig+"|admissible-lengths-panic", p.Msg, "%s: %d layers, weights %v, resolutions %v are admissible but the call panicked: %s", fn, depth, w, res, p.Msg)
						}
					}
				}
			}
		}
	}
	// neither Undirected nor Directed
	m := newG(0, false, false)
	kk := k.with(m, "graph-only")
	g := graphOnly{layerGraph(false, []int64{0, 1, 2}, r)}
	for name, f := range map[string]func(){
		"Q":          func() { community.Q(g, nil, 1) },
		"Modularize": func() { community.Modularize(g, 1, vrt.NewRand(1)) },
	} {
		p := vrt.TryFast(f)
		kk.eval(name, "invalid-graph-type", true)
		if p == nil || p.Runtime {
			kk.viol(name+"|graph-only|no-documented-panic", nil, "%s on a graph that is neither Undirected nor Directed must panic with 'invalid graph type'", name)
		}
	}
}
