package main

import (
	"fmt"
	"math"
	"strings"

	"gonum.org/v1/gonum/graph"
	"gonum.org/v1/gonum/graph/iterator"
	"gonum.org/v1/gonum/graph/simple"
	"gonum.org/v1/gonum/verifx/vrt"
)

// G is the monitor's own model of a simple graph (no self loops, no parallel
// edges) on N nodes. Node i has ID IDs[i]. Has[i][j] says whether the arc
// i->j exists (kept symmetric when !Dir); W[i][j] is its weight (1 when the
// model is unweighted). It is the ground truth of every oracle; the gonum
// graph values handed to the code under test are built from it.
type G struct {
	N        int
	IDs      []int64
	Dir      bool
	Weighted bool
	Has      [][]bool
	W        [][]float64
	// Kind is a short generator label used in evidence keys.
	Kind string
}

func newG(n int, dir, weighted bool) *G {
	g := &G{N: n, IDs: make([]int64, n), Dir: dir, Weighted: weighted, Has: make([][]bool, n), W: make([][]float64, n)}
	for i := range g.IDs {
		g.IDs[i] = int64(i)
		g.Has[i] = make([]bool, n)
		g.W[i] = make([]float64, n)
	}
	return g
}

// Set adds the arc/edge (i,j) with weight w (ignored, 1, when unweighted).
func (g *G) Set(i, j int, w float64) {
	if i == j {
		panic("c15: self loop in model")
	}
	if !g.Weighted {
		w = 1
	}
	g.Has[i][j], g.W[i][j] = true, w
	if !g.Dir {
		g.Has[j][i], g.W[j][i] = true, w
	}
}

// A returns the weight of arc (i,j) or 0 when absent.
func (g *G) A(i, j int) float64 {
	if g.Has[i][j] {
		return g.W[i][j]
	}
	return 0
}

// M is the number of arcs (directed) or edges (undirected).
func (g *G) M() int {
	m := 0
	for i := 0; i < g.N; i++ {
		for j := 0; j < g.N; j++ {
			if g.Has[i][j] && (g.Dir || i < j) {
				m++
			}
		}
	}
	return m
}

// Edges lists arcs (i,j), or edges with i<j for an undirected graph.
func (g *G) Edges() [][2]int {
	var e [][2]int
	for i := 0; i < g.N; i++ {
		for j := 0; j < g.N; j++ {
			if g.Has[i][j] && (g.Dir || i < j) {
				e = append(e, [2]int{i, j})
			}
		}
	}
	return e
}

func (g *G) OutDeg(i int) int {
	d := 0
	for j := 0; j < g.N; j++ {
		if g.Has[i][j] {
			d++
		}
	}
	return d
}

func (g *G) InDeg(i int) int {
	d := 0
	for j := 0; j < g.N; j++ {
		if g.Has[j][i] {
			d++
		}
	}
	return d
}

func (g *G) Index() map[int64]int {
	m := make(map[int64]int, g.N)
	for i, id := range g.IDs {
		m[id] = i
	}
	return m
}

// HasNegWeight reports whether some edge has a negative weight.
func (g *G) HasNegWeight() bool {
	for _, e := range g.Edges() {
		if g.W[e[0]][e[1]] < 0 {
			return true
		}
	}
	return false
}

// HasZeroWeight reports whether some edge has weight exactly zero.
func (g *G) HasZeroWeight() bool {
	for _, e := range g.Edges() {
		if g.W[e[0]][e[1]] == 0 {
			return true
		}
	}
	return false
}

// Clone returns a deep copy.
func (g *G) Clone() *G {
	h := newG(g.N, g.Dir, g.Weighted)
	copy(h.IDs, g.IDs)
	h.Kind = g.Kind
	for i := 0; i < g.N; i++ {
		copy(h.Has[i], g.Has[i])
		copy(h.W[i], g.W[i])
	}
	return h
}

// Desc is the literal description stored in samples and replay objects.
func (g *G) Desc() map[string]any {
	es := [][2]int64{}
	ws := []float64{}
	for _, e := range g.Edges() {
		es = append(es, [2]int64{g.IDs[e[0]], g.IDs[e[1]]})
		ws = append(ws, g.W[e[0]][e[1]])
	}
	d := map[string]any{"directed": g.Dir, "weighted": g.Weighted, "ids": append([]int64(nil), g.IDs...), "edges": es, "kind": g.Kind}
	if g.Weighted {
		d["weights"] = ws
	}
	return d
}

func (g *G) String() string {
	var b strings.Builder
	if g.Dir {
		b.WriteString("digraph ")
	} else {
		b.WriteString("graph ")
	}
	fmt.Fprintf(&b, "ids=%v edges=", g.IDs)
	for _, e := range g.Edges() {
		if g.Weighted {
			fmt.Fprintf(&b, "(%d,%d:%g)", g.IDs[e[0]], g.IDs[e[1]], g.W[e[0]][e[1]])
		} else {
			fmt.Fprintf(&b, "(%d,%d)", g.IDs[e[0]], g.IDs[e[1]])
		}
	}
	return b.String()
}

// ---------------------------------------------------------------------------
// ID schemes

// assignIDs relabels g with one of several ID schemes. scheme 0 keeps 0..n-1.
func assignIDs(g *G, r *vrt.Rand, scheme int) string {
	n := g.N
	switch scheme {
	case 0:
		return "contig"
	case 1: // shifted contiguous block, negative start
		base := int64(-r.Range(1, 2*n+3))
		for i := range g.IDs {
			g.IDs[i] = base + int64(i)
		}
		return "shifted-neg"
	case 2: // sparse random in [-1000,1000], random order w.r.t. index
		seen := map[int64]bool{}
		for i := range g.IDs {
			for {
				id := int64(r.Range(-1000, 1000))
				if !seen[id] {
					seen[id] = true
					g.IDs[i] = id
					break
				}
			}
		}
		return "sparse"
	default: // permuted 0..n-1 (index order != ID order)
		p := r.Perm(n)
		for i := range g.IDs {
			g.IDs[i] = int64(p[i])
		}
		return "permuted"
	}
}

// ---------------------------------------------------------------------------
// gonum representations of a model graph

// ordGraph is a read-only graph with a fully determined iteration order for
// Nodes, From and To, so that a case is replayable (gonum's own simple graphs
// iterate in Go map order). The four wrapper types below add exactly the
// methods that make gonum see it as (weighted) directed / undirected.
type ordGraph struct {
	m     *G
	idx   map[int64]int
	nodes []graph.Node   // in iteration order
	from  [][]graph.Node // per index, in iteration order
	to    [][]graph.Node
	// selfLoop, when >= 0, makes From(IDs[selfLoop]) also yield the node
	// itself (used only to observe the documented self-edge panics).
	selfLoop int
}

func newOrd(m *G, r *vrt.Rand) *ordGraph {
	o := &ordGraph{m: m, idx: m.Index(), selfLoop: -1}
	n := m.N
	var perm []int
	mode := 0
	if r != nil {
		mode = r.Intn(4)
	}
	switch mode {
	case 0:
		perm = make([]int, n)
		for i := range perm {
			perm[i] = i
		}
	case 1:
		perm = make([]int, n)
		for i := range perm {
			perm[i] = n - 1 - i
		}
	default:
		perm = r.Perm(n)
	}
	o.nodes = make([]graph.Node, n)
	for k, i := range perm {
		o.nodes[k] = simple.Node(m.IDs[i])
	}
	o.from = make([][]graph.Node, n)
	o.to = make([][]graph.Node, n)
	for i := 0; i < n; i++ {
		for _, j := range perm {
			if m.Has[i][j] {
				o.from[i] = append(o.from[i], simple.Node(m.IDs[j]))
			}
			if m.Has[j][i] {
				o.to[i] = append(o.to[i], simple.Node(m.IDs[j]))
			}
		}
		if r != nil && mode == 3 {
			l := o.from[i]
			r.Shuffle(len(l), func(a, b int) { l[a], l[b] = l[b], l[a] })
			l = o.to[i]
			r.Shuffle(len(l), func(a, b int) { l[a], l[b] = l[b], l[a] })
		}
	}
	return o
}

func nodesIter(l []graph.Node) graph.Nodes {
	if len(l) == 0 {
		return graph.Empty
	}
	return iterator.NewOrderedNodes(append([]graph.Node(nil), l...))
}

func (o *ordGraph) Node(id int64) graph.Node {
	if _, ok := o.idx[id]; !ok {
		return nil
	}
	return simple.Node(id)
}
func (o *ordGraph) Nodes() graph.Nodes { return nodesIter(o.nodes) }
func (o *ordGraph) From(id int64) graph.Nodes {
	i, ok := o.idx[id]
	if !ok {
		return graph.Empty
	}
	if i == o.selfLoop {
		return nodesIter(append(append([]graph.Node(nil), o.from[i]...), simple.Node(id)))
	}
	return nodesIter(o.from[i])
}
func (o *ordGraph) to_(id int64) graph.Nodes {
	i, ok := o.idx[id]
	if !ok {
		return graph.Empty
	}
	return nodesIter(o.to[i])
}
func (o *ordGraph) has(u, v int64) bool {
	i, ok := o.idx[u]
	if !ok {
		return false
	}
	j, ok := o.idx[v]
	if !ok {
		return false
	}
	return o.m.Has[i][j]
}
func (o *ordGraph) HasEdgeBetween(x, y int64) bool { return o.has(x, y) || o.has(y, x) }
func (o *ordGraph) Edge(u, v int64) graph.Edge {
	if !o.has(u, v) {
		return nil
	}
	if o.m.Weighted {
		return simple.WeightedEdge{F: simple.Node(u), T: simple.Node(v), W: o.m.W[o.idx[u]][o.idx[v]]}
	}
	return simple.Edge{F: simple.Node(u), T: simple.Node(v)}
}
func (o *ordGraph) weightedEdge(u, v int64) graph.WeightedEdge {
	if !o.has(u, v) {
		return nil
	}
	return simple.WeightedEdge{F: simple.Node(u), T: simple.Node(v), W: o.m.W[o.idx[u]][o.idx[v]]}
}
func (o *ordGraph) weight(x, y int64) (float64, bool) {
	if x == y {
		if _, ok := o.idx[x]; ok {
			return 0, true
		}
		return math.Inf(1), false
	}
	if !o.has(x, y) {
		return math.Inf(1), false
	}
	return o.m.W[o.idx[x]][o.idx[y]], true
}

type ordDirected struct{ *ordGraph }

func (o ordDirected) HasEdgeFromTo(u, v int64) bool { return o.has(u, v) }
func (o ordDirected) To(id int64) graph.Nodes       { return o.to_(id) }

type ordWeightedDirected struct{ ordDirected }

func (o ordWeightedDirected) WeightedEdge(u, v int64) graph.WeightedEdge { return o.weightedEdge(u, v) }
func (o ordWeightedDirected) Weight(x, y int64) (float64, bool)          { return o.weight(x, y) }

type ordUndirected struct{ *ordGraph }

func (o ordUndirected) EdgeBetween(x, y int64) graph.Edge { return o.Edge(x, y) }

type ordWeightedUndirected struct{ ordUndirected }

func (o ordWeightedUndirected) WeightedEdge(u, v int64) graph.WeightedEdge {
	return o.weightedEdge(u, v)
}
func (o ordWeightedUndirected) WeightedEdgeBetween(x, y int64) graph.WeightedEdge {
	return o.weightedEdge(x, y)
}
func (o ordWeightedUndirected) Weight(x, y int64) (float64, bool) { return o.weight(x, y) }

var (
	_ graph.Directed           = ordDirected{}
	_ graph.WeightedDirected   = ordWeightedDirected{}
	_ graph.Undirected         = ordUndirected{}
	_ graph.WeightedUndirected = ordWeightedUndirected{}
)

// Rep names one gonum representation of a model graph.
type Rep int

const (
	RepSimple Rep = iota
	RepOrd
	numReps
)

func (r Rep) String() string { return [...]string{"simple", "ord"}[r] }

// build returns a gonum graph for m: an unweighted model gives a value that
// does not implement graph.Weighted, a weighted model one that does.
func build(m *G, rep Rep, r *vrt.Rand) graph.Graph {
	if rep == RepOrd {
		o := newOrd(m, r)
		switch {
		case m.Dir && m.Weighted:
			return ordWeightedDirected{ordDirected{o}}
		case m.Dir:
			return ordDirected{o}
		case m.Weighted:
			return ordWeightedUndirected{ordUndirected{o}}
		default:
			return ordUndirected{o}
		}
	}
	perm := r.Perm(m.N)
	edges := m.Edges()
	r.Shuffle(len(edges), func(a, b int) { edges[a], edges[b] = edges[b], edges[a] })
	switch {
	case m.Dir && m.Weighted:
		g := simple.NewWeightedDirectedGraph(0, math.Inf(1))
		for _, i := range perm {
			g.AddNode(simple.Node(m.IDs[i]))
		}
		for _, e := range edges {
			g.SetWeightedEdge(simple.WeightedEdge{F: simple.Node(m.IDs[e[0]]), T: simple.Node(m.IDs[e[1]]), W: m.W[e[0]][e[1]]})
		}
		return g
	case m.Dir:
		g := simple.NewDirectedGraph()
		for _, i := range perm {
			g.AddNode(simple.Node(m.IDs[i]))
		}
		for _, e := range edges {
			g.SetEdge(simple.Edge{F: simple.Node(m.IDs[e[0]]), T: simple.Node(m.IDs[e[1]])})
		}
		return g
	case m.Weighted:
		g := simple.NewWeightedUndirectedGraph(0, math.Inf(1))
		for _, i := range perm {
			g.AddNode(simple.Node(m.IDs[i]))
		}
		for _, e := range edges {
			a, b := e[0], e[1]
			if r.Bool() {
				a, b = b, a
			}
			g.SetWeightedEdge(simple.WeightedEdge{F: simple.Node(m.IDs[a]), T: simple.Node(m.IDs[b]), W: m.W[a][b]})
		}
		return g
	default:
		g := simple.NewUndirectedGraph()
		for _, i := range perm {
			g.AddNode(simple.Node(m.IDs[i]))
		}
		for _, e := range edges {
			a, b := e[0], e[1]
			if r.Bool() {
				a, b = b, a
			}
			g.SetEdge(simple.Edge{F: simple.Node(m.IDs[a]), T: simple.Node(m.IDs[b])})
		}
		return g
	}
}

// asWeighted returns a weighted copy of the unweighted model (all weights 1).
func asWeighted(m *G) *G {
	h := m.Clone()
	h.Weighted = true
	return h
}

func sizeClass(n int) string {
	switch {
	case n <= 1:
		return "n<=1"
	case n <= 5:
		return "n<=5"
	case n <= 12:
		return "n<=12"
	case n <= 30:
		return "n<=30"
	default:
		return "n>30"
	}
}

func idsOf(nodes []graph.Node) []int64 {
	out := make([]int64, len(nodes))
	for i, n := range nodes {
		if n == nil {
			out[i] = math.MinInt64 + 7
			continue
		}
		out[i] = n.ID()
	}
	return out
}

func idsOfAll(sets [][]graph.Node) [][]int64 {
	out := make([][]int64, len(sets))
	for i, s := range sets {
		out[i] = idsOf(s)
	}
	return out
}
