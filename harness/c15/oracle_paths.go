package main

import "math"

// Reference shortest-path data, computed on the model only. Two independent
// evaluations exist:
//
//   - refEnumerate: literal enumeration of every simple path s->t (DFS), keeping
//     the paths of minimal weight. "Shortest paths" are the simple paths of
//     minimal weight, which is what path.AllShortest.AllBetween documents
//     ("Paths containing zero-weight cycles are not returned"), so zero-weight
//     edges are handled.
//   - refCount: Dijkstra with sigma counting (requires strictly positive
//     weights), and sigma_st(v) = sigma_sv*sigma_vt when d_sv+d_vt == d_st.
//
// All model weights are dyadic rationals of bounded size, so every path
// weight is computed exactly in float64 and tie decisions do not depend on
// the order of summation.

type spRef struct {
	n     int
	d     [][]float64 // +Inf when unreachable; d[i][i] = 0
	sigma [][]float64 // number of shortest simple paths; sigma[i][i] = 1
	// cbNode[v] = sum over ordered pairs s != t (v interior) of sigma_st(v)/sigma_st.
	// cbEdge[u][v] = sum over ordered pairs s != t of sigma_st(arc u->v)/sigma_st.
	cbNode []float64
	cbEdge [][]float64
}

func newSPRef(n int) *spRef {
	r := &spRef{n: n, d: make([][]float64, n), sigma: make([][]float64, n), cbNode: make([]float64, n), cbEdge: make([][]float64, n)}
	for s := 0; s < n; s++ {
		r.d[s] = make([]float64, n)
		r.sigma[s] = make([]float64, n)
		r.cbEdge[s] = make([]float64, n)
		for t := 0; t < n; t++ {
			r.d[s][t] = math.Inf(1)
		}
		r.d[s][s] = 0
		r.sigma[s][s] = 1
	}
	return r
}

// refEnumerate enumerates all simple paths and evaluates the betweenness
// formulas
//
//	C_B(v) = \sum_{s != v != t in V} sigma_st(v) / sigma_st
//	C_B(e) = \sum_{s != t in V} sigma_st(e) / sigma_st
//
// literally over ORDERED pairs (s,t): the doc formulas have no factor 1/2 and
// no s<t restriction, and the source comment in BetweennessWeighted states
// "For undirected graphs we double count passage though nodes", so for an
// undirected graph every unordered pair contributes twice. It gives up
// (ok=false) after budget DFS steps.
func refEnumerate(g *G, budget int) (ref *spRef, ok bool) {
	n := g.N
	ref = newSPRef(n)
	steps := 0
	pathBuf := make([]int, 0, n)
	onPath := make([]bool, n)
	node := make([][]float64, n) // node[t][v] for the current s
	edge := make([][]float64, n) // edge[t][u*n+v] for the current s
	for t := range node {
		node[t] = make([]float64, n)
		edge[t] = make([]float64, n*n)
	}
	var dfs func(s, u int, length float64) bool
	dfs = func(s, u int, length float64) bool {
		steps++
		if steps > budget {
			return false
		}
		if u != s {
			t := u
			switch {
			case length < ref.d[s][t]:
				ref.d[s][t] = length
				ref.sigma[s][t] = 0
				clear(node[t])
				clear(edge[t])
				fallthrough
			case length == ref.d[s][t]:
				ref.sigma[s][t]++
				for k := 1; k < len(pathBuf)-1; k++ {
					node[t][pathBuf[k]]++
				}
				for k := 0; k+1 < len(pathBuf); k++ {
					edge[t][pathBuf[k]*n+pathBuf[k+1]]++
				}
			}
		}
		for v := 0; v < n; v++ {
			if !g.Has[u][v] || onPath[v] {
				continue
			}
			onPath[v] = true
			pathBuf = append(pathBuf, v)
			if !dfs(s, v, length+g.W[u][v]) {
				return false
			}
			pathBuf = pathBuf[:len(pathBuf)-1]
			onPath[v] = false
		}
		return true
	}
	for s := 0; s < n; s++ {
		clear(onPath)
		for t := range node {
			clear(node[t])
			clear(edge[t])
		}
		onPath[s] = true
		pathBuf = append(pathBuf[:0], s)
		if !dfs(s, s, 0) {
			return nil, false
		}
		for t := 0; t < n; t++ {
			if t == s || ref.sigma[s][t] == 0 {
				continue
			}
			for v := 0; v < n; v++ {
				if c := node[t][v]; c != 0 {
					ref.cbNode[v] += c / ref.sigma[s][t]
				}
			}
			for e, c := range edge[t] {
				if c != 0 {
					ref.cbEdge[e/n][e%n] += c / ref.sigma[s][t]
				}
			}
		}
	}
	return ref, true
}

// refCount computes the same data by Dijkstra sigma counting and the identity
// sigma_st(v) = sigma_sv*sigma_vt iff d_sv+d_vt == d_st (else 0), likewise
// sigma_st(u->v) = sigma_su*sigma_vt iff d_su+w_uv+d_vt == d_st. All weights
// must be strictly positive.
func refCount(g *G) *spRef {
	n := g.N
	ref := newSPRef(n)
	for s := 0; s < n; s++ {
		d := ref.d[s]
		sg := ref.sigma[s]
		done := make([]bool, n)
		for {
			u := -1
			for i := 0; i < n; i++ {
				if !done[i] && !math.IsInf(d[i], 1) && (u < 0 || d[i] < d[u]) {
					u = i
				}
			}
			if u < 0 {
				break
			}
			done[u] = true
			for v := 0; v < n; v++ {
				if !g.Has[u][v] || done[v] {
					continue
				}
				nd := d[u] + g.W[u][v]
				switch {
				case nd < d[v]:
					d[v] = nd
					sg[v] = sg[u]
				case nd == d[v]:
					sg[v] += sg[u]
				}
			}
		}
	}
	for s := 0; s < n; s++ {
		for t := 0; t < n; t++ {
			if s == t || math.IsInf(ref.d[s][t], 1) {
				continue
			}
			for v := 0; v < n; v++ {
				if v == s || v == t {
					continue
				}
				if ref.d[s][v]+ref.d[v][t] == ref.d[s][t] {
					ref.cbNode[v] += ref.sigma[s][v] * ref.sigma[v][t] / ref.sigma[s][t]
				}
			}
			for u := 0; u < n; u++ {
				if math.IsInf(ref.d[s][u], 1) {
					continue
				}
				for v := 0; v < n; v++ {
					if !g.Has[u][v] || math.IsInf(ref.d[v][t], 1) {
						continue
					}
					if ref.d[s][u]+g.W[u][v]+ref.d[v][t] == ref.d[s][t] {
						ref.cbEdge[u][v] += ref.sigma[s][u] * ref.sigma[v][t] / ref.sigma[s][t]
					}
				}
			}
		}
	}
	return ref
}

// refDistances computes only distances (Floyd-Warshall on the model; any
// non-negative weights). Used where path counts are not needed.
func refDistances(g *G) [][]float64 {
	n := g.N
	d := make([][]float64, n)
	for i := range d {
		d[i] = make([]float64, n)
		for j := range d[i] {
			switch {
			case i == j:
				d[i][j] = 0
			case g.Has[i][j]:
				d[i][j] = g.W[i][j]
			default:
				d[i][j] = math.Inf(1)
			}
		}
	}
	for k := 0; k < n; k++ {
		for i := 0; i < n; i++ {
			if math.IsInf(d[i][k], 1) {
				continue
			}
			for j := 0; j < n; j++ {
				if nd := d[i][k] + d[k][j]; nd < d[i][j] {
					d[i][j] = nd
				}
			}
		}
	}
	return d
}

// maxSigma returns the largest shortest-path multiplicity.
func (r *spRef) maxSigma() float64 {
	m := 0.0
	for s := range r.sigma {
		for t := range r.sigma[s] {
			if s != t && r.sigma[s][t] > m {
				m = r.sigma[s][t]
			}
		}
	}
	return m
}

// sameRef compares two references (self-check of the oracle). The
// aggregated betweenness values are sums of exact fractions added in a
// different order, so they are compared with a relative band.
func sameRef(a, b *spRef) bool {
	for s := 0; s < a.n; s++ {
		for t := 0; t < a.n; t++ {
			if a.d[s][t] != b.d[s][t] {
				return false
			}
			if a.sigma[s][t] != b.sigma[s][t] && !math.IsInf(a.d[s][t], 1) {
				return false
			}
		}
	}
	for v := range a.cbNode {
		if !closeRel(a.cbNode[v], b.cbNode[v], 1e-12) {
			return false
		}
		for u := range a.cbEdge {
			if !closeRel(a.cbEdge[u][v], b.cbEdge[u][v], 1e-12) {
				return false
			}
		}
	}
	return true
}

func closeRel(x, y, rel float64) bool {
	if x == y {
		return true
	}
	if math.IsNaN(x) || math.IsNaN(y) || math.IsInf(x, 0) || math.IsInf(y, 0) {
		return false
	}
	return math.Abs(x-y) <= rel*math.Max(math.Abs(x), math.Abs(y))
}
