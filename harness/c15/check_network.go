package main

import (
	"fmt"
	"math"
	"sort"

	"gonum.org/v1/gonum/graph"
	"gonum.org/v1/gonum/graph/network"
	"gonum.org/v1/gonum/graph/path"
	"gonum.org/v1/gonum/verifx/ref"
	"gonum.org/v1/gonum/verifx/vrt"
)

// ---------------------------------------------------------------------------
// PageRank

// prSlack is the absolute 1-norm allowance added to the tolerance-derived
// PageRank error bound. The power iteration starts from a vector of standard
// normals divided by their sum (global math/rand/v2, not seedable); when that
// sum happens to be tiny the start vector is huge and its rounding error
// (u*||x0||_1) is carried to the fixed point. P(||x0||_1 > 1e9) is about 3e-9
// per call, i.e. the slack is exceeded with probability < 1e-3 per run.
// Calibration on the pinned tree (thorough): the pure bound was never
// exceeded and |sum-1| stayed below 8e-12 (8e-6 of the slack). Real breaks
// move mass of order 1/n >= 0.016.
const prSlack = 1e-6

var (
	prDamps = []float64{0.1, 0.5, 0.85, 0.99}
	prTols  = []float64{1e-3, 1e-8}
)

// pageRankRef solves (I - d*M) r = (1-d)/n * 1 for the column-stochastic M of
// the walk: column j holds w(j,i)/sum_i w(j,i); a node without out-going
// weight (dangling or isolated) jumps uniformly (column 1/n), which is the
// treatment described in the article cited by page.go ("How Google Finds Your
// Needle in the Web's Haystack": S = H + A, A = 1/n in dangling columns).
func pageRankRef(m *G, d float64) ([]float64, bool) {
	n := m.N
	a := ref.New(n, n)
	for j := 0; j < n; j++ {
		var z float64
		for i := 0; i < n; i++ {
			z += m.A(j, i)
		}
		for i := 0; i < n; i++ {
			var p float64
			if z != 0 {
				p = m.A(j, i) / z
			} else {
				p = 1 / float64(n)
			}
			v := -d * p
			if i == j {
				v += 1
			}
			a.Set(i, j, v)
		}
	}
	b := ref.New(n, 1)
	for i := 0; i < n; i++ {
		b.Set(i, 0, (1-d)/float64(n))
	}
	x, ok := ref.Solve(a, b)
	if !ok {
		return nil, false
	}
	return x.D, true
}

func prGraphClass(m *G) string {
	dangling, isolated := false, false
	for i := 0; i < m.N; i++ {
		var z float64
		for j := 0; j < m.N; j++ {
			z += m.A(i, j)
		}
		if z == 0 {
			if m.InDeg(i) == 0 && m.OutDeg(i) == 0 {
				isolated = true
			} else {
				dangling = true
			}
		}
	}
	s := "w"
	if !m.Weighted {
		s = "u"
	}
	if dangling {
		s += "+dangling"
	}
	if isolated {
		s += "+isolated"
	}
	return s
}

type prCombo struct{ d, tol float64 }

// checkPageRank runs the four PageRank entry points on the directed model m.
func checkPageRank(k *K, m *G, r *vrt.Rand, combos []prCombo, reps []Rep) {
	if m.N == 0 || !m.Dir {
		return
	}
	n := m.N
	class := prGraphClass(m)
	refs := map[float64][]float64{}
	for _, cb := range combos {
		if _, ok := refs[cb.d]; !ok {
			x, ok := pageRankRef(m, cb.d)
			if !ok {
				k.c.Inconclusive("PageRank reference", "singular reference system")
				return
			}
			refs[cb.d] = x
		}
	}
	for _, rep := range reps {
		g := build(m, rep, r).(graph.Directed)
		kk := k.with(m, rep.String())
		for _, cb := range combos {
			want := refs[cb.d]
			bound := math.Sqrt(float64(n))*cb.tol*cb.d/(1-cb.d) + prSlack
			for v := 0; v < 2; v++ {
				name := "PageRank"
				if v == 1 {
					name = "PageRankSparse"
				}
				if m.Weighted {
					name = "EdgeWeighted" + name
				}
				pclass := fmt.Sprintf("%s|d=%g|tol=%g", class, cb.d, cb.tol)
				var got map[int64]float64
				if !kk.try(name, class, func() {
					if v == 0 {
						got = network.PageRank(g, cb.d, cb.tol)
					} else {
						got = network.PageRankSparse(g, cb.d, cb.tol)
					}
				}) {
					continue
				}
				kk.eval(name, pclass, true)
				if len(got) != n {
					kk.viol(name+"|"+class+"|key-set", got, "%s(d=%g,tol=%g): %d entries for %d nodes", name, cb.d, cb.tol, len(got), n)
					continue
				}
				var sum, err1 float64
				bad := false
				for i, id := range m.IDs {
					x, ok := got[id]
					if !ok || math.IsNaN(x) || math.IsInf(x, 0) {
						bad = true
						break
					}
					sum += x
					err1 += math.Abs(x - want[i])
				}
				if bad {
					kk.viol(name+"|"+class+"|key-set", got, "%s(d=%g,tol=%g): missing or non-finite entry", name, cb.d, cb.tol)
					continue
				}
				calib("PageRank.|sum-1|/slack", math.Abs(sum-1)/prSlack)
				calib("PageRank.(err-purebound)/slack", (err1-(bound-prSlack))/prSlack)
				if math.Abs(sum-1) > prSlack {
					kk.viol(name+"|"+class+"|sum-not-one", got, "%s(d=%g,tol=%g): ranks sum to %.12g, want 1", name, cb.d, cb.tol, sum)
				}
				if err1 > bound {
					kk.viol(name+"|"+class+"|not-stationary-within-tol", map[string]any{"got": got, "want": want, "damp": cb.d, "tol": cb.tol},
						"%s(d=%g,tol=%g): ||r-r*||_1 = %.3g exceeds sqrt(n)*tol*d/(1-d)+slack = %.3g", name, cb.d, cb.tol, err1, bound)
				}
			}
		}
	}
}

// ---------------------------------------------------------------------------
// HITS

// hitsEps is the rounding allowance of the HITS identities (unit norms, hub =
// normalised A*auth). Calibrated worst deviation on the pinned tree: 1.1e-15
// (1.1e-3 of the allowance).
const hitsEps = 1e-12

// checkHITS judges network.HITS on a directed model with at least one arc.
//
// With A the adjacency matrix (A[u][v]=1 for u->v) the scores are the limit of
// auth <- normalise(A^T hub), hub <- normalise(A auth) from hub = 1, i.e. the
// principal right/left singular vectors of A. The routine stops when both
// updates moved by less than tol in the 2-norm. What follows from that, and
// is checked, is:
//
//	(1) both vectors are non-negative with unit 2-norm;
//	(2) hub = normalise(A auth) to rounding (hub is computed from the final auth);
//	(3) auth is a fixed point of one more sweep within 2*sigma_1*tol/||A^T hub||
//	    (since ||hub - hub_prev|| < tol and x -> x/||x|| is 2/max(||x||,||y||)-Lipschitz);
//	(4) the component of auth in the principal eigenspace of A^T A is at least
//	    1/sqrt(n): it is >= 1/sqrt(n) for the start A^T 1 (Perron vector v >= 0,
//	    <A^T 1, v> = ||A v||_1 >= sigma_1, ||A^T 1|| <= sigma_1 sqrt(n)) and power
//	    iteration never decreases it.
//
// (3) and (4) together bound the distance to the principal eigenspace by
// delta/(1-lambda_2/mu); no more than the routine's own tolerance is demanded.
func checkHITS(k *K, m *G, r *vrt.Rand, tols []float64, reps []Rep) {
	if !m.Dir || m.M() == 0 {
		return
	}
	n := m.N
	at := ref.New(n, n) // A^T A
	for i := 0; i < n; i++ {
		for j := 0; j < n; j++ {
			var s float64
			for u := 0; u < n; u++ {
				if m.Has[u][i] && m.Has[u][j] {
					s++
				}
			}
			at.Set(i, j, s)
		}
	}
	w, v := ref.SymEig(at)
	lam1 := w[n-1]
	sigma1 := math.Sqrt(lam1)
	class := "generic"
	if n >= 2 && w[n-2] >= lam1*(1-1e-9) {
		class = "repeated-principal"
	}
	for _, rep := range reps {
		g := build(m, rep, r).(graph.Directed)
		kk := k.with(m, rep.String())
		for _, tol := range tols {
			var got map[int64]network.HubAuthority
			if !kk.try("HITS", class, func() { got = network.HITS(g, tol) }) {
				continue
			}
			kk.eval("HITS", fmt.Sprintf("%s|tol=%g", class, tol), true)
			if len(got) != n {
				kk.viol("HITS|"+class+"|key-set", got, "HITS: %d entries for %d nodes", len(got), n)
				continue
			}
			a := make([]float64, n)
			h := make([]float64, n)
			bad := false
			for i, id := range m.IDs {
				ha, ok := got[id]
				if !ok || math.IsNaN(ha.Hub) || math.IsNaN(ha.Authority) || math.IsInf(ha.Hub, 0) || math.IsInf(ha.Authority, 0) {
					bad = true
					break
				}
				a[i], h[i] = ha.Authority, ha.Hub
			}
			if bad {
				kk.viol("HITS|"+class+"|key-set", got, "HITS(tol=%g): missing or non-finite entry", tol)
				continue
			}
			rp := map[string]any{"tol": tol, "auth": a, "hub": h}
			if math.Abs(norm2(a)-1) > hitsEps || math.Abs(norm2(h)-1) > hitsEps || minOf(a) < 0 || minOf(h) < 0 {
				kk.viol("HITS|"+class+"|not-unit-nonnegative", rp, "HITS(tol=%g): ||auth||=%.15g ||hub||=%.15g min=%g,%g", tol, norm2(a), norm2(h), minOf(a), minOf(h))
				continue
			}
			// (2) hub = normalise(A auth)
			aa := make([]float64, n)
			for u := 0; u < n; u++ {
				for vv := 0; vv < n; vv++ {
					if m.Has[u][vv] {
						aa[u] += a[vv]
					}
				}
			}
			na := norm2(aa)
			dev := 0.0
			for u := range aa {
				dev = math.Max(dev, math.Abs(aa[u]/na-h[u]))
			}
			calib("HITS.hub-dev/eps", dev/hitsEps)
			calib("HITS.unit-dev/eps", math.Max(math.Abs(norm2(a)-1), math.Abs(norm2(h)-1))/hitsEps)
			if !(dev <= hitsEps) {
				kk.viol("HITS|"+class+"|hub-not-normalised-A-auth", rp, "HITS(tol=%g): max |hub - A auth/||A auth||| = %.3g", tol, dev)
			}
			// (3) fixed point of one more sweep
			y := make([]float64, n)
			for u := 0; u < n; u++ {
				for vv := 0; vv < n; vv++ {
					if m.Has[u][vv] {
						y[vv] += h[u]
					}
				}
			}
			ny := norm2(y)
			var d2 float64
			for i := range y {
				e := y[i]/ny - a[i]
				d2 += e * e
			}
			delta := math.Sqrt(d2)
			bound := 2*sigma1*tol/ny + hitsEps
			calib("HITS.fixedpoint-delta/bound", delta/bound)
			if !(delta <= bound) {
				kk.viol("HITS|"+class+"|not-fixed-point-within-tol", rp, "HITS(tol=%g): ||normalise(A^T hub) - auth|| = %.3g exceeds 2*sigma1*tol/||A^T hub|| = %.3g", tol, delta, bound)
			}
			// (4) principal component
			var p1 float64
			for c := n - 1; c >= 0 && w[c] >= lam1*(1-1e-9); c-- {
				var dot float64
				for i := 0; i < n; i++ {
					dot += v.At(i, c) * a[i]
				}
				p1 += dot * dot
			}
			p1 = math.Sqrt(p1)
			if !(p1 >= 1/math.Sqrt(float64(n))-1e-9) {
				kk.viol("HITS|"+class+"|not-principal", rp, "HITS(tol=%g): component of auth in the principal eigenspace of A^T A is %.3g < 1/sqrt(n)", tol, p1)
			}
		}
	}
}

// relDev is the relative deviation used only for calibration notes.
func relDev(x, y float64) float64 {
	if x == y || math.IsInf(x, 0) || math.IsInf(y, 0) || math.IsNaN(x) || math.IsNaN(y) {
		return 0
	}
	return math.Abs(x-y) / math.Max(math.Abs(x), math.Abs(y))
}

func norm2(x []float64) float64 {
	var s float64
	for _, v := range x {
		s += v * v
	}
	return math.Sqrt(s)
}

func minOf(x []float64) float64 {
	m := math.Inf(1)
	for _, v := range x {
		if v < m {
			m = v
		}
	}
	return m
}

// ---------------------------------------------------------------------------
// betweenness

// cbRel is the relative band for betweenness values: both sides are sums of
// at most n^2 exact fractions added in different orders. Calibrated worst
// relative deviation on the pinned tree: 3.4e-14 (3.4e-4 of the band).
const cbRel = 1e-10

// enumBudget bounds the DFS steps of the literal path enumeration.
const enumBudget = 400000

// spReference picks the reference evaluation: literal enumeration for small
// graphs (mandatory when a zero weight is present), sigma counting otherwise.
// ok=false means the case cannot be judged (zero weights on a large graph).
func spReference(k *K, m *G) (*spRef, string, bool) {
	// zero or negative weights (the callers guarantee: no negative cycle, hence
	// shortest walks are simple paths) rule out Dijkstra sigma counting
	zero := m.Weighted && (m.HasZeroWeight() || m.HasNegWeight())
	if m.N <= 8 {
		if ref, ok := refEnumerate(m, enumBudget); ok {
			if !zero && m.N >= 2 {
				// self-check of the two oracle evaluations against each other
				if !sameRef(ref, refCount(m)) {
					k.viol("oracle|self-check|enumeration-vs-sigma-count", nil, "the two reference evaluations of shortest-path counts disagree (monitor defect)")
				}
				k.count("oracle.selfcheck", 1)
			}
			return ref, "enum", true
		}
	}
	if zero {
		return nil, "", false
	}
	return refCount(m), "count", true
}

func tieClass(ref *spRef) string {
	switch s := ref.maxSigma(); {
	case s <= 1:
		return "unique"
	case s <= 4:
		return "ties<=4"
	default:
		return "ties>4"
	}
}

func shapeClass(m *G) string {
	s := "undirected"
	if m.Dir {
		s = "directed"
	}
	return s
}

func connClass(d [][]float64) string {
	for i := range d {
		for j := range d[i] {
			if math.IsInf(d[i][j], 1) {
				return "disconnected"
			}
		}
	}
	return "connected"
}

// nodeMags, when set by the caller for the duration of one compareNodeMap
// call through compareNodeMapMag, holds per node the sum of the magnitudes of
// the terms of a signed sum: the band is then rel*max(|want|, mag) (a sum of
// signed terms is only accurate relative to the sum of their magnitudes).
func compareNodeMapMag(kk *K, name, class string, m *G, got map[int64]float64, want, mag []float64, rel float64, extra any) {
	adj := make(map[int64]float64, len(got))
	for i, id := range m.IDs {
		x, ok := got[id]
		if !ok {
			continue
		}
		// inside the magnitude band the value counts as the expected one
		if !math.IsNaN(x) && !math.IsInf(x, 0) && !math.IsInf(want[i], 0) && math.Abs(x-want[i]) <= rel*math.Max(math.Abs(want[i]), mag[i]) {
			x = want[i]
		}
		adj[id] = x
	}
	for id, x := range got {
		if _, ok := adj[id]; !ok {
			adj[id] = x
		}
	}
	compareNodeMap(kk, name, class, m, adj, want, false, rel, extra)
}

func compareNodeMap(kk *K, name, class string, m *G, got map[int64]float64, want []float64, nonZeroOnly bool, rel float64, extra any) {
	idx := m.Index()
	for id, x := range got {
		i, ok := idx[id]
		if !ok {
			kk.viol(name+"|"+class+"|key-set", got, "%s: key %d is not a node", name, id)
			return
		}
		if nonZeroOnly && x == 0 {
			kk.viol(name+"|"+class+"|zero-entry-present", got, "%s: documented to return the non-zero values, but holds an explicit 0 for node %d", name, id)
			return
		}
		_ = i
	}
	for i, id := range m.IDs {
		x, ok := got[id]
		if !ok {
			if nonZeroOnly {
				x = 0
			} else {
				kk.viol(name+"|"+class+"|key-set", got, "%s: no entry for node %d", name, id)
				return
			}
		}
		calib(name+".reldev/band", relDev(x, want[i])/rel)
		if !closeRel(x, want[i], rel) {
			kk.viol(name+"|"+class+"|value", map[string]any{"got": got, "want": want, "extra": extra}, "%s: node %d: got %.17g, formula gives %.17g", name, id, x, want[i])
			return
		}
	}
}

func compareEdgeMap(kk *K, name, class string, m *G, got map[[2]int64]float64, ref *spRef) {
	idx := m.Index()
	want := map[[2]int64]float64{}
	for u := 0; u < m.N; u++ {
		for v := 0; v < m.N; v++ {
			c := ref.cbEdge[u][v]
			if c == 0 {
				continue
			}
			a, b := m.IDs[u], m.IDs[v]
			if !m.Dir && b < a {
				a, b = b, a
			}
			want[[2]int64{a, b}] += c
		}
	}
	for key, x := range got {
		i, ok1 := idx[key[0]]
		j, ok2 := idx[key[1]]
		if !ok1 || !ok2 || !m.Has[i][j] {
			kk.viol(name+"|"+class+"|key-not-an-edge", edgeMapOut(got), "%s: key %v is not an edge of the graph", name, key)
			return
		}
		if !m.Dir && key[0] > key[1] {
			kk.viol(name+"|"+class+"|key-orientation", edgeMapOut(got), "%s: undirected key %v is not stored with u.ID < v.ID", name, key)
			return
		}
		if x == 0 {
			kk.viol(name+"|"+class+"|zero-entry-present", edgeMapOut(got), "%s: documented to return the non-zero values, but holds an explicit 0 for %v", name, key)
			return
		}
		calib(name+".reldev/band", relDev(x, want[key])/cbRel)
		if !closeRel(x, want[key], cbRel) {
			kk.viol(name+"|"+class+"|value", map[string]any{"got": edgeMapOut(got), "want": edgeMapOut(want)}, "%s: edge %v: got %.17g, formula gives %.17g", name, key, x, want[key])
			return
		}
	}
	for key, x := range want {
		if _, ok := got[key]; !ok {
			kk.viol(name+"|"+class+"|value", map[string]any{"got": edgeMapOut(got), "want": edgeMapOut(want)}, "%s: edge %v missing, formula gives %.17g", name, key, x)
			return
		}
	}
}

func edgeMapOut(m map[[2]int64]float64) []string {
	out := make([]string, 0, len(m))
	for k, v := range m {
		out = append(out, fmt.Sprintf("%d,%d:%.17g", k[0], k[1], v))
	}
	sort.Strings(out)
	return out
}

// allShortest returns gonum's AllShortest for g by one of the three
// constructors (the network functions take it as an argument; the doc says
// "the graph g used to construct the given shortest paths").
func allShortest(kk *K, g graph.Graph, which int) (p path.AllShortest, name string, ok bool) {
	if which%3 == 0 && kk.g != nil && kk.g.Weighted && kk.g.HasNegWeight() {
		which = 1 + (which/3)%2 // "DijkstraAllPaths will panic if g has a negative edge weight"
	}
	switch which % 3 {
	case 0:
		name = "DijkstraAllPaths"
		ok = kk.try("path."+name, "for-network", func() { p = path.DijkstraAllPaths(g) })
	case 1:
		name = "FloydWarshall"
		ok = kk.try("path."+name, "for-network", func() { p, _ = path.FloydWarshall(g) })
	default:
		name = "JohnsonAllPaths"
		ok = kk.try("path."+name, "for-network", func() { p, _ = path.JohnsonAllPaths(g) })
	}
	return p, name, ok
}

// checkBetweenness runs the four betweenness routines on model m.
func checkBetweenness(k *K, m *G, r *vrt.Rand, reps []Rep) {
	if m.N == 0 {
		return
	}
	sref, how, ok := spReference(k, m)
	if !ok {
		k.count("skipped.betweenness.zero-weight-large", 1)
		return
	}
	class := shapeClass(m) + "|" + tieClass(sref) + "|" + connClass(sref.d)
	sig := shapeClass(m)
	if m.Weighted && m.HasZeroWeight() {
		sig += "+zero-weight"
		class += "|zero-weight"
	}
	if m.Weighted && m.HasNegWeight() {
		sig += "+negative-weight"
		class += "|negative-weight"
	}
	class += "|ref=" + how
	for _, rep := range reps {
		kk := k.with(m, rep.String())
		g := build(m, rep, r)
		if !m.Weighted {
			var nb map[int64]float64
			if kk.try("Betweenness", sig, func() { nb = network.Betweenness(g) }) {
				kk.eval("Betweenness", class, m.M() > 0)
				compareNodeMap(kk, "Betweenness", sig, m, nb, sref.cbNode, true, cbRel, nil)
			}
			var eb map[[2]int64]float64
			if kk.try("EdgeBetweenness", sig, func() { eb = network.EdgeBetweenness(g) }) {
				kk.eval("EdgeBetweenness", class, m.M() > 0)
				compareEdgeMap(kk, "EdgeBetweenness", sig, m, eb, sref)
			}
			continue
		}
		wg := g.(graph.Weighted)
		p, pname, ok := allShortest(kk, g, r.Intn(3))
		if !ok {
			continue
		}
		var nb map[int64]float64
		if kk.try("BetweennessWeighted", sig, func() { nb = network.BetweennessWeighted(wg, p) }) {
			kk.eval("BetweennessWeighted", class+"|"+pname, m.M() > 0)
			compareNodeMap(kk, "BetweennessWeighted", sig, m, nb, sref.cbNode, true, cbRel, pname)
		}
		var eb map[[2]int64]float64
		if kk.try("EdgeBetweennessWeighted", sig, func() { eb = network.EdgeBetweennessWeighted(wg, p) }) {
			kk.eval("EdgeBetweennessWeighted", class+"|"+pname, m.M() > 0)
			compareEdgeMap(kk, "EdgeBetweennessWeighted", sig, m, eb, sref)
		}
	}
}

// ---------------------------------------------------------------------------
// distance-based centralities

// distRel is the relative band for sums of at most n exact terms (1/d and
// 2^-d are correctly rounded). Calibrated worst deviation: 1.3e-15 (1.3e-3
// of the band; Closeness, Farness and Eccentricity are exact).
const distRel = 1e-12

// checkDistance judges Closeness, Farness, Harmonic, Residual and
// Eccentricity against their doc formulas:
//
//	Closeness    C(v) = 1 / \sum_u d(u,v)
//	Farness      F(v) = \sum_u d(u,v)
//	Harmonic     H(v) = \sum_{u != v} 1 / d(u,v)
//	Residual     C(v) = \sum_{u != v} 1 / 2^d(u,v)
//	Eccentricity E(v) = \max_u d(u,v)
//
// each with "For directed graphs the incoming paths are used. Infinite
// distances are not considered." A node that no other node reaches therefore
// has F = 0, E = 0, H = 0 and C = 1/0 = +Inf by the formula.
func checkDistance(k *K, m *G, r *vrt.Rand, reps []Rep) {
	if m.N == 0 {
		return
	}
	n := m.N
	d := refDistances(m)
	far := make([]float64, n)
	clo := make([]float64, n)
	har := make([]float64, n)
	res := make([]float64, n)
	ecc := make([]float64, n)
	farMag := make([]float64, n)
	harMag := make([]float64, n)
	for v := 0; v < n; v++ {
		for u := 0; u < n; u++ {
			x := d[u][v]
			if math.IsInf(x, 1) {
				continue
			}
			farMag[v] += math.Abs(x)
			if u != v && x != 0 {
				harMag[v] += math.Abs(1 / x)
			}
			far[v] += x
			if x > ecc[v] {
				ecc[v] = x
			}
			if u != v {
				har[v] += 1 / x
				res[v] += math.Exp2(-x)
			}
		}
		clo[v] = 1 / far[v]
	}
	sig := shapeClass(m)
	class := sig + "|" + connClass(d)
	if m.Weighted {
		class += "|weighted"
		if m.HasZeroWeight() {
			class += "|zero-weight"
			sig += "+zero-weight"
		}
		if m.HasNegWeight() {
			class += "|negative-weight"
			sig += "+negative-weight"
		}
	}
	for _, rep := range reps {
		kk := k.with(m, rep.String())
		g := build(m, rep, r)
		p, pname, ok := allShortest(kk, g, r.Intn(3))
		if !ok {
			continue
		}
		type meas struct {
			name string
			f    func(graph.Graph, path.AllShortest) map[int64]float64
			want []float64
		}
		// the same AllShortest value serves all measures, in a drawn order; the
		// first measure is asked once more after the others (answers must not
		// depend on what was computed from p before)
		list := []meas{
			{"Closeness", network.Closeness, clo},
			{"Farness", network.Farness, far},
			{"Harmonic", network.Harmonic, har},
			{"Residual", network.Residual, res},
			{"Eccentricity", network.Eccentricity, ecc},
		}
		r.Shuffle(len(list), func(a, b int) { list[a], list[b] = list[b], list[a] })
		list = append(list, list[0])
		results := map[string]map[int64]float64{}
		defer func() { closenessIsInverseFarness(kk, sig, m, results["Closeness"], results["Farness"]) }()
		for _, ms := range list {
			var got map[int64]float64
			if !kk.try(ms.name, sig, func() { got = ms.f(g, p) }) {
				continue
			}
			results[ms.name] = got
			kk.eval(ms.name, class+"|"+pname, n > 1)
			if len(got) != n {
				kk.viol(ms.name+"|"+sig+"|key-set", got, "%s: %d entries for %d nodes", ms.name, len(got), n)
				continue
			}
			switch ms.name {
			case "Harmonic":
				compareNodeMapMag(kk, ms.name, sig, m, got, ms.want, harMag, distRel, pname)
			case "Farness":
				compareNodeMapMag(kk, ms.name, sig, m, got, ms.want, farMag, distRel, pname)
			default:
				compareNodeMap(kk, ms.name, sig, m, got, ms.want, false, distRel, pname)
			}
		}
	}
}

// closenessIsInverseFarness checks the relation the two doc formulas state:
// C(v) = 1 / \sum_u d(u,v) and F(v) = \sum_u d(u,v) over the same distances
// with the same exclusion of infinite distances, hence C(v) = 1/F(v) (1/0 =
// +Inf) whatever the distances are.
func closenessIsInverseFarness(kk *K, sig string, m *G, clo, far map[int64]float64) {
	if clo == nil || far == nil {
		return
	}
	for _, id := range m.IDs {
		c, ok1 := clo[id]
		f, ok2 := far[id]
		if !ok1 || !ok2 {
			continue
		}
		if math.IsNaN(f) && math.IsNaN(c) {
			continue
		}
		if !closeRel(c, 1/f, distRel) {
			kk.viol("Closeness|"+sig+"|not-inverse-of-Farness", map[string]any{"closeness": clo, "farness": far},
				"node %d: Closeness %.17g is not 1/Farness = 1/%.17g although both are defined from the same sum of non-infinite incoming distances", id, c, f)
			return
		}
	}
}
