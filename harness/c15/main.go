// Command c15 is the monitor for property C15: network measures and community
// detection equal their defining formulas. See variants.json for the
// case-generation rule and the oracle assumptions.
package main

import (
	"flag"
	"fmt"
	"math"
	"sync"
	"syscall"
	"time"

	"gonum.org/v1/gonum/graph"
	"gonum.org/v1/gonum/graph/community"
	"gonum.org/v1/gonum/graph/network"
	"gonum.org/v1/gonum/graph/simple"
	"gonum.org/v1/gonum/verifx/vrt"
)

var mode = flag.String("mode", "all", "all | comma list of workloads (exh-d, exh-u, rnd-pr, rnd-bc, rnd-spec, rnd-q, rnd-mux, rnd-hist, rnd-neg, fixed, hits-edgeless)")

func main() { vrt.Main("C15", run) }

// calibration: the worst observed ratio value/band of every banded check is
// reported as a note (never used by an oracle).
var (
	calibMu sync.Mutex
	calibs  = map[string]float64{}
)

func calib(name string, ratio float64) {
	if math.IsNaN(ratio) {
		return
	}
	calibMu.Lock()
	if ratio > calibs[name] {
		calibs[name] = ratio
	}
	calibMu.Unlock()
}

func run(c *vrt.Ctx) {
	c.Note("mode", *mode)
	want := func(name string) bool {
		if *mode == "all" {
			return true
		}
		for _, w := range splitComma(*mode) {
			if w == name {
				return true
			}
		}
		return false
	}
	timed := func(name string, f func()) {
		if !want(name) {
			return
		}
		t0 := time.Now()
		f()
		c.Note("wall_s."+name, time.Since(t0).Seconds())
	}
	c.Note("doc.NewRandomWalkLaplacian.form", rwDocForm())
	c.Note("doc.ReducedGraph.Structure.says-original-nodes", structureDocSaysOriginalNodes(false))
	c.Note("doc.ReducedMultiplex.Structure.says-original-nodes", structureDocSaysOriginalNodes(true))
	c.Note("doc.ReducedGraph.Expanded.says-nil-at-lowest", expandedDocSaysNil(false))
	c.Note("doc.ReducedMultiplex.Expanded.says-nil-at-lowest", expandedDocSaysNil(true))
	timed("fixed", func() { fixedWorkload(c) })
	timed("exh-d", func() { exhDirected(c) })
	timed("exh-u", func() { exhUndirected(c) })
	timed("rnd-pr", func() { rndPageRank(c) })
	timed("rnd-bc", func() { rndBetweenness(c) })
	timed("rnd-spec", func() { rndSpectral(c) })
	timed("rnd-q", func() { rndCommunity(c) })
	timed("rnd-mux", func() { rndMultiplex(c) })
	timed("rnd-hist", func() { rndHistory(c) })
	timed("rnd-neg", func() { rndSigned(c) })
	calibMu.Lock()
	for k, v := range calibs {
		c.Note("calib."+k, v)
	}
	calibMu.Unlock()
	// last: the call may never return (see hitsEdgeless)
	timed("hits-edgeless", func() { hitsEdgeless(c) })
}

func splitComma(s string) []string {
	var out []string
	cur := ""
	for _, ch := range s {
		if ch == ',' {
			out = append(out, cur)
			cur = ""
			continue
		}
		cur += string(ch)
	}
	return append(out, cur)
}

var allCombos = func() []prCombo {
	var cs []prCombo
	for _, d := range prDamps {
		for _, t := range prTols {
			cs = append(cs, prCombo{d, t})
		}
	}
	return cs
}()

func modelFromCode(n int, dir bool, code uint64) *G {
	g := newG(n, dir, false)
	bit := uint(0)
	for i := 0; i < n; i++ {
		for j := 0; j < n; j++ {
			if i == j || (!dir && j < i) {
				continue
			}
			if code>>bit&1 == 1 {
				g.Set(i, j, 1)
			}
			bit++
		}
	}
	g.Kind = "exhaustive"
	return g
}

// reweight returns a weighted copy of the unweighted model with weights drawn
// from scheme.
func reweight(m *G, r *vrt.Rand, scheme int) *G {
	h := newG(m.N, m.Dir, true)
	copy(h.IDs, m.IDs)
	h.Kind = m.Kind + "/" + wSchemeNames[scheme]
	for _, e := range m.Edges() {
		h.Set(e[0], e[1], drawWeight(r, scheme))
	}
	return h
}

func pickRep(i int) Rep { return Rep(i % int(numReps)) }

// ---------------------------------------------------------------------------
// exhaustive directed: every digraph on 1..4 labelled nodes

func exhDirected(c *vrt.Ctx) {
	for n := 1; n <= 4; n++ {
		n := n
		total := 1 << uint(n*(n-1))
		wl := fmt.Sprintf("exh-d%d", n)
		parts := setPartitions(n)
		vrt.Parallel(total, func(i int) {
			r := c.RNG(wl, i)
			m := modelFromCode(n, true, uint64(i))
			k := newK(c, wl, fmt.Sprintf("%s/%d", wl, i))
			if i%3 == 1 {
				k.ids = assignIDs(m, r, 1+r.Intn(3))
			}
			if c.WantSample() && m.M() >= 3 {
				c.Sample(map[string]any{"workload": wl, "case": k.caseID, "graph": m.Desc()})
			}
			reps := []Rep{pickRep(i)}
			scheme := 1 + r.Intn(numWSchemes-1)
			mw := reweight(m, r, scheme)
			checkPageRank(k, m, r, allCombos, reps)
			checkPageRank(k, mw, r, allCombos, []Rep{pickRep(i + 1)})
			if i%4 == 0 {
				checkPageRank(k, asWeighted(m), r, allCombos[4:6], reps)
			}
			checkHITS(k, m, r, prTols, reps)
			checkBetweenness(k, m, r, reps)
			checkBetweenness(k, mw, r, reps)
			checkDistance(k, m, r, reps)
			checkDistance(k, mw, r, reps)
			if mp := reweight(m, r, 1+r.Intn(3)); mp.M() > 0 {
				shifted, cyclic := signedModels(mp, r)
				if shifted.HasNegWeight() {
					checkBetweenness(k, shifted, r, reps)
					checkDistance(k, shifted, r, reps)
				}
				if cyclic != nil {
					checkMeasuresOnOwnPaths(k, cyclic, r, pickRep(i))
				}
			}
			checkLaplacians(k, m, r, reps)
			checkDiffusion(k, m, r, pickRep(i))
			// Q over every set partition, Modularize at every resolution
			for gi, gamma := range gammas {
				if n == 4 && gi != i%4 && gi != (i/4)%4 {
					continue
				}
				mm := m
				if (i+gi)%2 == 1 {
					mm = mw
				}
				cc := &cmCase{layers: []*G{mm}, res: []float64{gamma}}
				ps := map[string][]int{"nil": parts[len(parts)-1]}
				for pi, p := range parts {
					ps[fmt.Sprintf("rgs%02d", pi)] = p
				}
				checkQ(k, cc, ps, r, pickRep(i+gi))
				checkModularize(k, cc, r, pickRep(i+gi+1))
				if (i+gi)%4 == 0 {
					checkLouvainHistory(k, cc, r)
				}
			}
			k.done()
		})
		c.Count("graphs."+wl, int64(total))
	}
}

// ---------------------------------------------------------------------------
// exhaustive undirected: every graph on 1..5 labelled nodes

func exhUndirected(c *vrt.Ctx) {
	// thorough adds every graph on 6 labelled nodes (32768) with a reduced suite
	for n := 1; n <= c.Pick(5, 6); n++ {
		n := n
		total := 1 << uint(n*(n-1)/2)
		wl := fmt.Sprintf("exh-u%d", n)
		parts := setPartitions(n)
		vrt.Parallel(total, func(i int) {
			r := c.RNG(wl, i)
			m := modelFromCode(n, false, uint64(i))
			k := newK(c, wl, fmt.Sprintf("%s/%d", wl, i))
			if i%3 == 1 {
				k.ids = assignIDs(m, r, 1+r.Intn(3))
			}
			reps := []Rep{pickRep(i)}
			scheme := 1 + r.Intn(numWSchemes-1)
			mw := reweight(m, r, scheme)
			checkBetweenness(k, m, r, []Rep{RepSimple, RepOrd})
			checkBetweenness(k, mw, r, reps)
			checkDistance(k, m, r, reps)
			checkDistance(k, mw, r, reps)
			checkLaplacians(k, m, r, reps)
			if i%2 == 0 {
				checkLaplacians(k, mw, r, []Rep{pickRep(i + 1)})
			}
			if n == 6 {
				gamma := gammas[i%4]
				mm := m
				if (i/4)%2 == 1 {
					mm = mw
				}
				cc := &cmCase{layers: []*G{mm}, res: []float64{gamma}}
				checkQ(k, cc, randomPartitions(n, nil, r), r, pickRep(i/8))
				checkModularize(k, cc, r, pickRep(i/16))
				k.done()
				return
			}
			checkDiffusion(k, m, r, pickRep(i+1))
			for gi, gamma := range gammas {
				if n == 5 && gi != i%4 && gi != (i/4)%4 {
					continue
				}
				mm := m
				if (i+gi)%2 == 1 {
					mm = mw
				}
				cc := &cmCase{layers: []*G{mm}, res: []float64{gamma}}
				ps := map[string][]int{"nil": parts[len(parts)-1]}
				for pi, p := range parts {
					ps[fmt.Sprintf("rgs%02d", pi)] = p
				}
				checkQ(k, cc, ps, r, pickRep(i+gi))
				checkModularize(k, cc, r, pickRep(i+gi+1))
				if (i+gi)%4 == 0 {
					checkLouvainHistory(k, cc, r)
				}
			}
			k.done()
		})
		c.Count("graphs."+wl, int64(total))
	}
}

// ---------------------------------------------------------------------------
// random workloads

func rndPageRank(c *vrt.Ctx) {
	total := c.Pick(1500, 18000)
	wl := "rnd-pr"
	vrt.Parallel(total, func(i int) {
		r := c.RNG(wl, i)
		weighted := i%2 == 1
		m := randomModel(r, true, weighted, r.Intn(numWSchemes), 60)
		k := newK(c, wl, fmt.Sprintf("%s/%d", wl, i))
		k.ids = assignIDs(m, r, r.Intn(4))
		if c.WantSample() && m.M() >= 3 && m.N >= 6 {
			c.Sample(map[string]any{"workload": wl, "case": k.caseID, "graph": m.Desc()})
		}
		// three (damping, tolerance) pairs per graph, cycling through all eight
		combos := []prCombo{allCombos[i%8], allCombos[(i/8+3)%8], allCombos[(i/64+5)%8]}
		checkPageRank(k, m, r, combos, []Rep{pickRep(i)})
		if i%5 == 0 {
			checkPageRank(k, m, r, combos[:1], []Rep{pickRep(i + 1)})
		}
		if !weighted || i%4 == 1 {
			// HITS takes a graph.Directed; handed a weighted type it must give the
			// scores of the link structure (its doc does not mention weights)
			checkHITS(k, m, r, prTols, []Rep{pickRep(i / 2)})
		}
		if weighted && i%6 == 1 && m.M() > 0 {
			// extreme but legal magnitudes: the walk only depends on weight ratios
			ms := m.Clone()
			ms.Kind += "/scaled"
			sc := math.Ldexp(1, 300)
			if i%12 == 1 {
				sc = math.Ldexp(1, -300)
			}
			for _, e := range ms.Edges() {
				ms.W[e[0]][e[1]] *= sc
			}
			checkPageRank(k, ms, r, combos[:1], []Rep{pickRep(i)})
		}
		k.done()
	})
	c.Count("graphs."+wl, int64(total))
}

func rndBetweenness(c *vrt.Ctx) {
	total := c.Pick(1800, 20000)
	wl := "rnd-bc"
	vrt.Parallel(total, func(i int) {
		r := c.RNG(wl, i)
		dir := i%2 == 0
		weighted := (i/2)%2 == 1
		scheme := r.Intn(numWSchemes)
		maxN := 60
		if weighted {
			maxN = 40
		}
		m := randomModel(r, dir, weighted, scheme, maxN)
		k := newK(c, wl, fmt.Sprintf("%s/%d", wl, i))
		k.ids = assignIDs(m, r, r.Intn(4))
		reps := []Rep{pickRep(i / 4)}
		if weighted {
			// AllBetween enumerates every tied path explicitly: keep the
			// multiplicities of the weighted cases moderate
			if sref, _, ok := spReference(k, m); ok && sref.maxSigma() > 3000 {
				k.count("skipped.betweenness-weighted.too-many-tied-paths", 1)
			} else {
				checkBetweenness(k, m, r, reps)
			}
		} else {
			checkBetweenness(k, m, r, reps)
		}
		checkDistance(k, m, r, reps)
		k.done()
	})
	c.Count("graphs."+wl, int64(total))
}

func rndSpectral(c *vrt.Ctx) {
	total := c.Pick(900, 10000)
	wl := "rnd-spec"
	vrt.Parallel(total, func(i int) {
		r := c.RNG(wl, i)
		dir := i%3 == 0
		m := randomModel(r, dir, false, 0, 40)
		k := newK(c, wl, fmt.Sprintf("%s/%d", wl, i))
		k.ids = assignIDs(m, r, r.Intn(4))
		checkLaplacians(k, m, r, []Rep{pickRep(i)})
		if i%3 == 1 {
			checkLaplacians(k, reweight(m, r, 1+r.Intn(3)), r, []Rep{pickRep(i + 1)})
		}
		checkDiffusion(k, m, r, pickRep(i+1))
		k.done()
	})
	c.Count("graphs."+wl, int64(total))
}

func rndCommunity(c *vrt.Ctx) {
	total := c.Pick(1200, 14000)
	wl := "rnd-q"
	vrt.Parallel(total, func(i int) {
		r := c.RNG(wl, i)
		dir := i%2 == 0
		weighted := (i/2)%2 == 1
		scheme := r.Intn(numWSchemes)
		var m *G
		var planted []int
		if i%3 == 0 {
			n := 4 + r.Intn(57)
			kq := 2 + r.Intn(4)
			m = newG(n, dir, weighted)
			m.Kind = "planted"
			var es [][2]int
			es, planted = genPlanted(n, kq, dir, r.PickFloat(0.4, 0.7, 1), r.PickFloat(0.01, 0.05, 0.15), r)
			for _, e := range es {
				m.Set(e[0], e[1], drawWeight(r, scheme))
			}
		} else {
			m = randomModel(r, dir, weighted, scheme, 60)
		}
		k := newK(c, wl, fmt.Sprintf("%s/%d", wl, i))
		k.ids = assignIDs(m, r, r.Intn(4))
		if c.WantSample() && m.N >= 8 && m.M() > 8 {
			c.Sample(map[string]any{"workload": wl, "case": k.caseID, "graph": m.Desc()})
		}
		gamma := gammas[(i/4)%4]
		cc := &cmCase{layers: []*G{m}, res: []float64{gamma}}
		checkQ(k, cc, randomPartitions(m.N, planted, r), r, pickRep(i))
		checkModularize(k, cc, r, pickRep(i/2))
		// a second resolution on the same graph
		cc2 := &cmCase{layers: []*G{m}, res: []float64{gammas[(i/4+1+r.Intn(3))%4]}}
		checkModularize(k, cc2, r, pickRep(i/2+1))
		k.done()
	})
	c.Count("graphs."+wl, int64(total))
}

// multiplexCase draws a multiplex case: 1..3 layers on a common node set,
// layer weights nil / positive / mixed sign / containing zero, resolutions
// nil / one element / per layer from {0.5,1,2,4}.
func multiplexCase(r *vrt.Rand, i int) (*cmCase, []int) {
	dir := i%2 == 0
	depth := 1 + (i/2)%5
	n := 2 + r.Intn(39)
	var planted []int
	layers := make([]*G, depth)
	ids := newG(n, dir, false)
	assignIDs(ids, r, r.Intn(4))
	// weights
	var weights []float64
	wmode := (i / 6) % 6
	switch wmode {
	case 0:
		weights = nil
	case 1:
		weights = make([]float64, depth)
		for l := range weights {
			weights[l] = 1
		}
	case 2:
		weights = make([]float64, depth)
		for l := range weights {
			weights[l] = r.PickFloat(0.5, 1, 2, 3)
		}
	case 3: // a negative layer
		weights = make([]float64, depth)
		for l := range weights {
			weights[l] = r.PickFloat(0.5, 1, 2)
		}
		weights[r.Intn(depth)] = -r.PickFloat(0.25, 0.5, 1)
		if depth > 1 && weights[0] < 0 && r.Bool() {
			weights[0], weights[1] = weights[1], weights[0]
		}
	case 4: // a zero weight (first layer when depth allows, else anywhere)
		weights = make([]float64, depth)
		for l := range weights {
			weights[l] = r.PickFloat(1, 2)
		}
		if depth > 1 {
			weights[r.Intn(depth)] = 0
		}
	default: // all negative is meaningless; mix of two negatives and positives
		weights = make([]float64, depth)
		for l := range weights {
			weights[l] = r.PickFloat(1, 2)
			if l > 0 && r.Chance(0.4) {
				weights[l] = -r.PickFloat(0.25, 0.5)
			}
		}
	}
	kq := 2 + r.Intn(3)
	for l := 0; l < depth; l++ {
		weighted := r.Chance(0.6)
		m := newG(n, dir, weighted)
		copy(m.IDs, ids.IDs)
		var es [][2]int
		switch r.Intn(4) {
		case 0:
			es = genGNP(n, dir, r.PickFloat(0.05, 0.2, 0.5), r)
			m.Kind = "gnp"
		case 1:
			// an edgeless layer (never layer 0 with nil weights: see wclass)
			if l > 0 || (weights != nil && depth > 1) {
				m.Kind = "edgeless"
				break
			}
			fallthrough
		default:
			es, planted = genPlanted(n, kq, dir, r.PickFloat(0.4, 0.7, 1), r.PickFloat(0.01, 0.05, 0.15), r)
			m.Kind = "planted"
		}
		scheme := r.Intn(numWSchemes)
		neg := weights != nil && weights[l] < 0
		for _, e := range es {
			w := drawWeight(r, scheme)
			if neg {
				w = -w
			}
			m.Set(e[0], e[1], w)
		}
		layers[l] = m
	}
	if weights == nil && depth > 1 {
		// keep the path classes disjoint: nil weights with depth > 1 is its own
		// class and must not also have a first layer of zero total weight
		layers[0].Set(0, 1, 1)
	}
	var res []float64
	switch (i / 36) % 3 {
	case 0:
		res = nil
	case 1:
		res = []float64{gammas[r.Intn(4)]}
	default:
		res = make([]float64, depth)
		for l := range res {
			res[l] = gammas[r.Intn(4)]
		}
	}
	return &cmCase{layers: layers, weights: weights, res: res, multiplex: true, all: (i/3)%2 == 0}, planted
}

func rndMultiplex(c *vrt.Ctx) {
	total := c.Pick(1620, 19440)
	wl := "rnd-mux"
	vrt.Parallel(total, func(i int) {
		r := c.RNG(wl, i)
		cc, planted := multiplexCase(r, i)
		k := newK(c, wl, fmt.Sprintf("%s/%d", wl, i))
		k.ids = "mixed"
		checkQ(k, cc, randomPartitions(cc.n(), planted, r), r, pickRep(i))
		checkModularize(k, cc, r, pickRep(i/2))
		k.done()
	})
	c.Count("cases."+wl, int64(total))
}

// historyCase draws a case for the result-object history check: all four
// variants in rotation, shapes that give hierarchies of three and more levels
// (rings of cliques, planted partitions) next to the general random shapes.
func historyCase(r *vrt.Rand, i int) *cmCase {
	dir := i%2 == 1
	multiplex := (i/2)%2 == 1
	depth := 1
	if multiplex {
		depth = 1 + r.Intn(3)
	}
	var base *G
	scheme := r.Intn(numWSchemes - 1) // no zero weights: keep hierarchies deep
	weighted := r.Bool()
	switch r.Intn(4) {
	case 0, 1:
		sz := 3 + r.Intn(3)
		kq := 4 + r.Intn(9)
		for kq*sz > 60 {
			kq--
		}
		n, es := genCliqueRing(kq, sz, dir, r)
		base = newG(n, dir, weighted)
		base.Kind = "clique-ring"
		for _, e := range es {
			base.Set(e[0], e[1], drawWeight(r, scheme))
		}
	case 2:
		n := 12 + r.Intn(49)
		es, _ := genPlanted(n, 3+r.Intn(6), dir, r.PickFloat(0.6, 0.9, 1), r.PickFloat(0.01, 0.04), r)
		base = newG(n, dir, weighted)
		base.Kind = "planted"
		for _, e := range es {
			base.Set(e[0], e[1], drawWeight(r, scheme))
		}
	default:
		base = randomModel(r, dir, weighted, scheme, 40)
	}
	assignIDs(base, r, r.Intn(4))
	layers := []*G{base}
	var weights []float64
	if multiplex {
		switch r.Intn(3) {
		case 0:
			weights = nil
		default:
			weights = make([]float64, depth)
			for l := range weights {
				weights[l] = r.PickFloat(0.5, 1, 2)
			}
		}
		for l := 1; l < depth; l++ {
			// the same structure with some edges dropped and weights redrawn
			m := newG(base.N, dir, r.Bool())
			copy(m.IDs, base.IDs)
			m.Kind = base.Kind + "/thinned"
			neg := weights != nil && r.Chance(0.25)
			if neg {
				weights[l] = -r.PickFloat(0.25, 0.5)
			}
			for _, e := range base.Edges() {
				if r.Chance(0.75) {
					w := drawWeight(r, scheme)
					if neg {
						w = -w
					}
					m.Set(e[0], e[1], w)
				}
			}
			layers = append(layers, m)
		}
	}
	cc := &cmCase{layers: layers, weights: weights, multiplex: multiplex, all: r.Bool()}
	if !multiplex {
		cc.res = []float64{gammas[r.Intn(4)]}
	} else {
		switch r.Intn(3) {
		case 0:
			cc.res = nil
		case 1:
			cc.res = []float64{gammas[r.Intn(4)]}
		default:
			cc.res = make([]float64, depth)
			for l := range cc.res {
				cc.res[l] = gammas[r.Intn(4)]
			}
		}
	}
	return cc
}

func rndHistory(c *vrt.Ctx) {
	total := c.Pick(2000, 24000)
	wl := "rnd-hist"
	vrt.Parallel(total, func(i int) {
		r := c.RNG(wl, i)
		cc := historyCase(r, i)
		k := newK(c, wl, fmt.Sprintf("%s/%d", wl, i))
		k.ids = "mixed"
		checkLouvainHistory(k, cc, r)
		k.done()
	})
	c.Count("cases."+wl, int64(total))
}

// ---------------------------------------------------------------------------
// fixed cases: documented panics

func fixedWorkload(c *vrt.Ctx) {
	k := newK(c, "fixed", "fixed/0")
	r := c.RNG("fixed", 0)
	for t := 0; t < 3; t++ {
		checkSelfEdgePanics(k, r)
	}
	checkNegativeWeightPanics(k, r)
	checkEmptyGraph(k, r)
	for t := 0; t < 3; t++ {
		checkLayerConstructors(k, r)
	}
	checkArgumentValidation(k, r)
	k.done()
}

// checkEmptyGraph: the routines that accept a graph without nodes must return
// empty results (PageRank and the Laplacian constructors are excluded: they
// panic with mat.ErrZeroLength, and neither a rank vector summing to one nor a
// 0x0 matrix exists).
func checkEmptyGraph(k *K, r *vrt.Rand) {
	for _, dir := range []bool{true, false} {
		m := newG(0, dir, false)
		for _, rep := range []Rep{RepSimple, RepOrd} {
			kk := k.with(m, rep.String())
			g := build(m, rep, r)
			sig := shapeClass(m) + "+empty"
			empty := func(name string, n int) {
				kk.eval(name, "empty-graph", false)
				if n != 0 {
					kk.viol(name+"|"+sig+"|non-empty-result", n, "%s on a graph without nodes returned %d entries", name, n)
				}
			}
			kk.try("Betweenness", sig, func() { empty("Betweenness", len(network.Betweenness(g))) })
			kk.try("EdgeBetweenness", sig, func() { empty("EdgeBetweenness", len(network.EdgeBetweenness(g))) })
			if dg, ok := g.(graph.Directed); ok {
				kk.try("HITS", sig, func() { empty("HITS", len(network.HITS(dg, 1e-8))) })
			}
			for which := 0; which < 2; which++ {
				p, _, ok := allShortest(kk, g, which)
				if !ok {
					continue
				}
				kk.try("Closeness", sig, func() { empty("Closeness", len(network.Closeness(g, p))) })
				kk.try("Farness", sig, func() { empty("Farness", len(network.Farness(g, p))) })
				kk.try("Harmonic", sig, func() { empty("Harmonic", len(network.Harmonic(g, p))) })
				kk.try("Residual", sig, func() { empty("Residual", len(network.Residual(g, p))) })
				kk.try("Eccentricity", sig, func() { empty("Eccentricity", len(network.Eccentricity(g, p))) })
			}
			kk.try("Modularize", sig, func() {
				empty("Modularize", len(community.Modularize(g, 1, vrt.NewRand(1)).Communities()))
			})
		}
	}
}

// ---------------------------------------------------------------------------
// HITS on a graph without edges

// cpuSeconds returns the CPU time consumed by this process.
func cpuSeconds() float64 {
	var ru syscall.Rusage
	if syscall.Getrusage(syscall.RUSAGE_SELF, &ru) != nil {
		return 0
	}
	return float64(ru.Utime.Sec+ru.Stime.Sec) + float64(ru.Utime.Usec+ru.Stime.Usec)/1e6
}

// hitsEdgelessCPU is the CPU time after which a HITS call on a two-node graph
// is declared not to return (a returning implementation needs microseconds).
const hitsEdgelessCPU = 4.0

// hitsEdgeless calls HITS on directed graphs that have nodes but no arcs. The
// doc comment places no restriction on g. It runs last and in its own
// goroutine because a non-returning call cannot be cancelled; the verdict is
// taken from the process CPU clock, not from wall time.
func hitsEdgeless(c *vrt.Ctx) {
	k := newK(c, "hits-edgeless", "hits-edgeless/0")
	defer k.done()
	for _, n := range []int{1, 2, 5} {
		g := simple.NewDirectedGraph()
		for i := 0; i < n; i++ {
			g.AddNode(simple.Node(i))
		}
		m := newG(n, true, false)
		kk := k.with(m, "simple")
		done := make(chan *vrt.PanicInfo, 1)
		var got map[int64]network.HubAuthority
		start := cpuSeconds()
		go func() {
			done <- vrt.Try(func() { got = network.HITS(g, 1e-8) })
		}()
		returned := false
		var p *vrt.PanicInfo
	wait:
		for {
			select {
			case p = <-done:
				returned = true
				break wait
			case <-time.After(50 * time.Millisecond):
				if cpuSeconds()-start > hitsEdgelessCPU {
					break wait
				}
			}
		}
		kk.eval("HITS", "edgeless", true)
		if !returned {
			kk.viol("HITS|edgeless|does-not-return", nil,
				"HITS on a graph with %d node(s) and no edges did not return within %g s of CPU time: the first normalisation divides by a zero norm, every score becomes NaN and `norm(delta) < tol` is never true", n, hitsEdgelessCPU)
			return // the goroutine keeps spinning; nothing else may run after it
		}
		if p != nil {
			kk.viol("HITS|edgeless|"+panicClass(p), p.Msg, "HITS on an edgeless graph panicked: %s", p.Msg)
			continue
		}
		for id, ha := range got {
			if math.IsNaN(ha.Hub) || math.IsNaN(ha.Authority) {
				kk.viol("HITS|edgeless|NaN-score", got, "HITS on an edgeless graph returned NaN for node %d", id)
				break
			}
		}
	}
}
