package main

import (
	"fmt"
	"math"
	"strings"

	"gonum.org/v1/gonum/graph"
	"gonum.org/v1/gonum/graph/network"
	"gonum.org/v1/gonum/graph/path"
	"gonum.org/v1/gonum/verifx/vrt"
)

// Signed weights. Two input classes beyond the non-negative ones:
//
//   - negative edges without a negative cycle: weights w(u,v)+pi(u)-pi(v) with
//     w > 0 and a drawn potential pi (every cycle keeps its positive weight, all
//     values stay dyadic). These graphs go through checkDistance and
//     checkBetweenness like any other (own Floyd-Warshall / path enumeration as
//     reference; AllShortest from FloydWarshall or JohnsonAllPaths).
//   - a negative cycle that reaches some nodes: FloydWarshall returns ok=false
//     and documents "the returned paths will be valid and edge weights on the
//     negative cycle will be set to -Inf". (JohnsonAllPaths documents that its
//     paths are NOT valid then, so it is not used.) The measures are judged
//     against their doc formulas evaluated by the monitor on the distances the
//     same AllShortest reports: "Infinite distances are not considered" covers
//     both signs.

// shiftByPotential turns a positively weighted directed model into one with
// negative edges and unchanged cycle weights.
func shiftByPotential(m *G, r *vrt.Rand) {
	pi := make([]float64, m.N)
	for i := range pi {
		pi[i] = float64(r.Intn(17)-8) / 2
	}
	for _, e := range m.Edges() {
		m.W[e[0]][e[1]] += pi[e[0]] - pi[e[1]]
	}
}

// plantNegativeCycle makes the cycle through the given nodes negative.
func plantNegativeCycle(m *G, nodes []int, r *vrt.Rand) {
	for i := range nodes {
		u, v := nodes[i], nodes[(i+1)%len(nodes)]
		if u == v {
			continue
		}
		m.Has[u][v] = true
		m.W[u][v] = float64(r.Intn(3)) / 2
	}
	u, v := nodes[0], nodes[1%len(nodes)]
	m.W[u][v] = -float64(len(nodes)) - float64(r.Intn(4))/2
	if !m.Dir {
		for i := range nodes {
			u, v := nodes[i], nodes[(i+1)%len(nodes)]
			m.Has[v][u], m.W[v][u] = true, m.W[u][v]
		}
	}
}

// docDropsInfinite reports whether the doc comment of the measure (read from
// the tree under test) states that infinite distances are not considered.
func docDropsInfinite(name string) bool {
	d := docComment("graph/network/distance.go", `^func `+name+`\(`)
	return strings.Contains(d, "Infinitedistancesarenotconsidered")
}

// checkMeasuresOnOwnPaths judges the five distance measures against their doc
// formulas evaluated on the distances reported by the AllShortest they were
// given, and requires the betweenness routines to return without panicking.
// It is meant for path sets with -Inf distances (negative cycles).
func checkMeasuresOnOwnPaths(k *K, m *G, r *vrt.Rand, rep Rep) {
	n := m.N
	if n == 0 || !m.Weighted {
		return
	}
	kk := k.with(m, rep.String())
	g := build(m, rep, r)
	var p path.AllShortest
	var fwOK bool
	if !kk.try("path.FloydWarshall", "for-network", func() { p, fwOK = path.FloydWarshall(g) }) {
		return
	}
	d := make([][]float64, n)
	negInf, posInf, nan := 0, 0, false
	for u := range d {
		d[u] = make([]float64, n)
		for v := range d[u] {
			x := p.Weight(m.IDs[u], m.IDs[v])
			d[u][v] = x
			switch {
			case math.IsNaN(x):
				nan = true
			case math.IsInf(x, -1):
				negInf++
			case math.IsInf(x, 1):
				posInf++
			}
		}
	}
	sig := shapeClass(m) + "+negative-cycle"
	if fwOK {
		sig = shapeClass(m) + "+negative-weight"
	}
	reach := "none"
	switch {
	case negInf == n*n:
		reach = "all-pairs"
	case negInf > 0:
		reach = "some-pairs"
	}
	class := fmt.Sprintf("%s|-Inf:%s|+Inf:%v|fw-ok=%v", sig, reach, posInf > 0, fwOK)
	if nan {
		kk.count("skipped.own-paths.NaN-distance", 1)
		return
	}
	type meas struct {
		name string
		f    func(graph.Graph, path.AllShortest) map[int64]float64
		term func(u, v int, x float64, acc float64) float64
	}
	list := []meas{
		{"Farness", network.Farness, func(u, v int, x, acc float64) float64 { return acc + x }},
		{"Closeness", network.Closeness, func(u, v int, x, acc float64) float64 { return acc + x }},
		{"Harmonic", network.Harmonic, func(u, v int, x, acc float64) float64 {
			if u == v {
				return acc
			}
			return acc + 1/x
		}},
		{"Residual", network.Residual, func(u, v int, x, acc float64) float64 {
			if u == v {
				return acc
			}
			return acc + math.Exp2(-x)
		}},
		{"Eccentricity", network.Eccentricity, func(u, v int, x, acc float64) float64 { return math.Max(acc, x) }},
	}
	r.Shuffle(len(list), func(a, b int) { list[a], list[b] = list[b], list[a] })
	results := map[string]map[int64]float64{}
	for _, ms := range list {
		var got map[int64]float64
		if !kk.try(ms.name, sig, func() { got = ms.f(g, p) }) {
			continue
		}
		kk.eval(ms.name, class, n > 1)
		results[ms.name] = got
		if len(got) != n {
			kk.viol(ms.name+"|"+sig+"|key-set", got, "%s: %d entries for %d nodes", ms.name, len(got), n)
			continue
		}
		drops := docDropsInfinite(ms.name)
		for v := 0; v < n; v++ {
			judged := true
			var acc, mag float64
			for u := 0; u < n; u++ {
				x := d[u][v]
				if math.IsInf(x, 1) {
					continue // unreachable: excluded by every reading of the doc
				}
				if math.IsInf(x, -1) {
					if !drops {
						judged = false // the doc does not say what -Inf contributes
					}
					continue
				}
				next := ms.term(u, v, x, acc)
				if ms.name != "Eccentricity" && !math.IsInf(next, 0) {
					mag += math.Abs(next - acc)
				}
				acc = next
			}
			if ms.name == "Eccentricity" && d[v][v] != 0 {
				// max over an incoming set that lacks d(v,v) = 0: whether the empty /
				// all-negative maximum is 0 is not defined by the doc
				judged = false
			}
			if !judged {
				kk.count("unjudged.own-paths."+ms.name, 1)
				continue
			}
			want := acc
			if ms.name == "Closeness" {
				want = 1 / acc
			}
			x, ok := got[m.IDs[v]]
			// signed sums are accurate relative to the sum of the magnitudes of their terms;
			// Closeness inherits the relative accuracy of the sum it inverts
			inBand := closeRel(x, want, 1e-9)
			if !inBand && ms.name != "Closeness" && !math.IsNaN(x) && !math.IsInf(x, 0) && !math.IsInf(want, 0) {
				inBand = math.Abs(x-want) <= 1e-9*mag
			}
			if ms.name == "Closeness" && !inBand && x != 0 && !math.IsInf(x, 0) {
				inBand = math.Abs(1/x-acc) <= 1e-9*mag
			}
			if !ok || !inBand {
				kk.viol(ms.name+"|"+sig+"|value-on-given-distances", map[string]any{"got": got, "node": m.IDs[v], "want": want, "distances_into_node": column(d, v)},
					"%s: node %d: got %.17g; the doc formula on the distances of the given AllShortest (infinite distances of either sign not considered) gives %.17g", ms.name, m.IDs[v], x, want)
				break
			}
		}
	}
	closenessIsInverseFarness(kk, sig, m, results["Closeness"], results["Farness"])
	// betweenness with a negative cycle is not defined by the docs (sigma of
	// pairs joined through the cycle): the calls must return, keys must be nodes
	// / edges, values must not be NaN
	wg := g.(graph.Weighted)
	idx := m.Index()
	var nb map[int64]float64
	if kk.try("BetweennessWeighted", sig, func() { nb = network.BetweennessWeighted(wg, p) }) {
		kk.eval("BetweennessWeighted", class, true)
		for id, x := range nb {
			if _, ok := idx[id]; !ok || math.IsNaN(x) || x < 0 {
				kk.viol("BetweennessWeighted|"+sig+"|key-or-value-domain", nb, "BetweennessWeighted: entry %d:%v is not a node with a non-negative value", id, x)
				break
			}
		}
	}
	var eb map[[2]int64]float64
	if kk.try("EdgeBetweennessWeighted", sig, func() { eb = network.EdgeBetweennessWeighted(wg, p) }) {
		kk.eval("EdgeBetweennessWeighted", class, true)
		for key, x := range eb {
			i, ok1 := idx[key[0]]
			j, ok2 := idx[key[1]]
			if !ok1 || !ok2 || !m.Has[i][j] || math.IsNaN(x) || x < 0 {
				kk.viol("EdgeBetweennessWeighted|"+sig+"|key-or-value-domain", edgeMapOut(eb), "EdgeBetweennessWeighted: entry %v:%v is not an edge with a non-negative value", key, x)
				break
			}
		}
	}
}

func column(d [][]float64, v int) []float64 {
	out := make([]float64, len(d))
	for u := range d {
		out[u] = d[u][v]
	}
	return out
}

// signedModels derives from a positively weighted model: (a) the potential
// shifted one (negative edges, no negative cycle) and (b) one with a planted
// negative cycle on a few nodes (nil when the graph is too small).
func signedModels(base *G, r *vrt.Rand) (shifted, cyclic *G) {
	if base.Dir {
		shifted = base.Clone()
		shifted.Kind += "/potential-shift"
		shiftByPotential(shifted, r)
	}
	if base.N >= 2 {
		cyclic = base.Clone()
		cyclic.Kind += "/negative-cycle"
		if base.Dir && r.Bool() {
			shiftByPotential(cyclic, r)
		}
		klen := 2 + r.Intn(min(3, base.N-1))
		if !base.Dir {
			klen = 2 // an undirected negative edge is a negative cycle
		}
		nodes := r.Perm(base.N)[:klen]
		plantNegativeCycle(cyclic, nodes, r)
	}
	return shifted, cyclic
}

func rndSigned(c *vrt.Ctx) {
	total := c.Pick(1200, 14000)
	wl := "rnd-neg"
	vrt.Parallel(total, func(i int) {
		r := c.RNG(wl, i)
		dir := i%4 != 3
		scheme := []int{wSmall, wHalves, wFine, wUnit}[r.Intn(4)]
		maxN := 30
		if i%2 == 0 {
			maxN = 8 // small enough for the path-enumeration reference of betweenness
		}
		base := randomModel(r, dir, true, scheme, maxN)
		k := newK(c, wl, fmt.Sprintf("%s/%d", wl, i))
		k.ids = assignIDs(base, r, r.Intn(4))
		shifted, cyclic := signedModels(base, r)
		rep := pickRep(i / 4)
		if shifted != nil && shifted.HasNegWeight() {
			if shifted.N <= 8 {
				checkBetweenness(k, shifted, r, []Rep{rep})
			}
			checkDistance(k, shifted, r, []Rep{rep})
			checkMeasuresOnOwnPaths(k, shifted, r, rep)
		}
		if cyclic != nil {
			checkMeasuresOnOwnPaths(k, cyclic, r, rep)
			if c.WantSample() && cyclic.N >= 5 {
				c.Sample(map[string]any{"workload": wl, "case": k.caseID, "graph": cyclic.Desc()})
			}
		}
		k.done()
	})
	c.Count("graphs."+wl, int64(total))
}
