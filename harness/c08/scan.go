package main

import (
	"fmt"
	"math"
	"unsafe"

	"gonum.org/v1/gonum/internal/asm/c128"
	"gonum.org/v1/gonum/internal/asm/c64"
	"gonum.org/v1/gonum/internal/asm/f64"
	"gonum.org/v1/gonum/verifx/vrt"
)

// Sequential scans: dst[0] = s[0]; dst[i] = dst[i-1] op s[i].
//
// The documented loop is sequential, so its float result is unique; a
// kernel that reproduces it bit for bit is accepted at once. A kernel that
// re-associates (SIMD prefix sums) would still be correct to the statement,
// so a mismatch is only an alarm when it leaves the rounding band
// (i+scanSlack)·u·Σ|s_k| (sum) resp. (i+scanSlack)·u·|prefix product|.

const scanSlack = 4

type scanKernel[T num] struct {
	name string
	prod bool
	call func(dst, s []T) []T
}

func scanKernels() (k64 []*scanKernel[float64], k128 []*scanKernel[complex128], k64c []*scanKernel[complex64]) {
	k64 = []*scanKernel[float64]{
		{name: "f64.CumSum", call: f64.CumSum},
		{name: "f64.CumProd", prod: true, call: f64.CumProd},
	}
	k128 = []*scanKernel[complex128]{
		{name: "c128.CumSum", call: c128.CumSum},
		{name: "c128.CumProd", prod: true, call: c128.CumProd},
	}
	k64c = []*scanKernel[complex64]{
		{name: "c64.CumSum", call: c64.CumSum},
		{name: "c64.CumProd", prod: true, call: c64.CumProd},
	}
	return
}

func addScan[T num](c *vrt.Ctx, ts *[]task, ks []*scanKernel[T]) {
	short, long := lengths(c)
	for _, k := range ks {
		k := k
		for _, n := range short {
			n := n
			*ts = append(*ts, task{k.name, n + 1, func() { runScan(c, k, n, false) }})
		}
		for _, n := range long {
			n := n
			*ts = append(*ts, task{k.name, n/4 + 1, func() { runScan(c, k, n, true) }})
		}
	}
}

func runScan[T num](c *vrt.Ctx, k *scanKernel[T], n int, reduced bool) {
	t := newTally(c)
	defer t.flush()
	r := c.RNG("scan|"+k.name, n)
	classes := []vclass{vcUniform, vcInt, vcZero, vcSubnormal, vcHugeTiny, vcNaN, vcInf, vcMix}
	pls := placements(n)
	mixCtr := n * 13
	if reduced {
		classes = []vclass{vcUniform, vcInt}
		pls = []placement{pls[0], pls[5], pls[8], pls[9]}
	}
	dg := newDigester()
	defer dg.flush(c)
	for _, vc := range classes {
		if k.prod && (vc == vcHugeTiny || vc == vcSubnormal) {
			continue // prefix products leave the representable range at once
		}
		for pi, pl := range casePlacements(c, pls, vc, n, 0) {
			for alias := 0; alias < 2; alias++ {
				if alias == 1 && pi%3 != 0 && vc == vcUniform {
					continue
				}
				mixCtr++
				bits, ok := runScanCase(c, t, r, k, n, vc, pl, alias == 1, mixCtr)
				if vc == vcInt {
					dg.add(fmt.Sprintf("%s|n=%d", k.name, n), bits, ok)
				}
			}
		}
	}
	// (small-integer class: every association is exact, so builds must agree bit for bit)
}

func runScanCase[T num](c *vrt.Ctx, t *tally, r *vrt.Rand, k *scanKernel[T], n int, vc vclass, pl placement, alias bool, mixIdx int) ([]uint64, bool) {
	var sv []T
	if k.prod && vc == vcInt {
		// products of 0, ±1, ±2 are exact at every length
		sv = make([]T, n)
		for i := range sv {
			re := []float64{1, -1, 2, -2, 1, -1, 0.5, -0.5}[r.Intn(8)]
			if r.Intn(40) == 0 {
				re = 0
			}
			sv[i] = fromParts[T](re, 0)
			if isComplex[T]() && r.Bool() {
				sv[i] = fromParts[T](0, re)
			}
		}
	} else if vc == vcMix {
		sv = gen[T](r, vcUniform, n, 0)
		applyMix(sv, nil, mixIdx)
	} else {
		sv = gen[T](r, vc, n, 280)
	}
	dv := gen[T](r, vcUniform, n, 0)
	s := newBuf(sv, pl.offX, 1, pl.mode)
	defer s.release()
	d := s
	if !alias {
		d = newBuf(dv, pl.offD, 1, pl.mode)
		defer d.release()
	}
	path := "unit"
	if alias {
		path = "unit+dst=s"
	}
	key := k.name + "|" + path + "|" + pl.mode.String() + "|" + className(vc) + "|" + nClass(n)
	mk := func(idx int, got, want any) *replay {
		return &replay{Routine: k.name, N: n, Off: []int{pl.offD, pl.offX}, Place: pl.mode.String(), Class: className(vc), Alias: path, X: sv, Index: idx, Got: got, Want: want}
	}
	c.LastCase(key + fmt.Sprintf(" n=%d", n))
	var ret []T
	dstView := d.unit()
	p := vrt.Try(func() { ret = k.call(dstView, s.unit()) })
	t.eval(key, n > 0)
	if p != nil {
		clause := "panic"
		if p.Fault {
			clause = "memory-fault-outside-operand"
		} else if p.Runtime {
			clause = "runtime-panic"
		}
		c.Violationf(k.name+"|"+path+"|"+clause, mk(-1, nil, nil), "%s n=%d %s %s: %s\n%s", k.name, n, pl.mode, vc, p.Msg, p.Stack)
		return nil, false
	}
	if len(ret) != n || (n > 0 && unsafe.Pointer(&ret[0]) != unsafe.Pointer(&dstView[0])) {
		c.Violationf(k.name+"|"+path+"|returned-slice-is-not-dst", mk(-1, len(ret), n), "%s n=%d: returned slice is not dst", k.name, n)
		return nil, false
	}
	if pos := d.firstTouched(true); pos >= 0 {
		c.Violationf(k.name+"|"+path+"|wrote-outside-destination", mk(pos, d.arr[pos], d.snap[pos]), "%s n=%d %s: array position %d changed", k.name, n, pl.mode, pos)
		return nil, false
	}
	if !alias {
		if pos := s.firstTouched(false); pos >= 0 {
			c.Violationf(k.name+"|"+path+"|modified-source", mk(pos, s.arr[pos], s.snap[pos]), "%s n=%d %s: source position %d changed", k.name, n, pl.mode, pos)
			return nil, false
		}
	}
	u := unitRoundoff[T]()
	var run T
	var ar, ai acc
	dig := make([]uint64, 0, 2*n)
	seqOK := true
	for i := 0; i < n; i++ {
		v := sv[i]
		if i == 0 {
			run = v
		} else if k.prod {
			run = run * v
		} else {
			run = run + v
		}
		vr, vi := parts(v)
		ar.add(vr)
		ai.add(vi)
		got := d.get(i)
		gr, gi := parts(got)
		dig = append(dig, canonBits(gr), canonBits(gi))
		if same(got, run) {
			continue
		}
		seqOK = false
		ok := false
		if vc != vcInt {
			rr, ri := parts(run)
			if k.prod {
				m := math.Abs(rr) + math.Abs(ri)
				if finiteF(m) && m > 0x1p-900 && m < 0x1p900 {
					tol := 2 * float64(i+scanSlack) * u * m
					ok = bandF(gr, rr, tol) && bandF(gi, ri, tol)
				}
			} else {
				okr, _, _ := ar.check(gr, u, 0, false)
				oki, _, _ := ai.check(gi, u, 0, false)
				ok = okr && oki
			}
		}
		if !ok {
			c.Violationf(k.name+"|"+path+"|wrong-value", mk(i, got, run),
				"%s n=%d off=%d/%d %s %s: element %d = %s, sequential definition gives %s", k.name, n, pl.offD, pl.offX, pl.mode, vc, i, fmtv(got), fmtv(run))
			return nil, false
		}
	}
	if !seqOK {
		c.Count("scan.reassociated_but_in_band."+k.name, 1)
	}
	return dig, true
}
