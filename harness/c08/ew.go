package main

import (
	"fmt"
	"math"

	"gonum.org/v1/gonum/verifx/vrt"
)

// ---------------------------------------------------------------------------
// element-wise family engine
//
//	dst[k] = op(alpha, olddst[k], x[k], y[k])     k = 0..n-1
//
// every operand with its own start offset / increment / placement.
// ---------------------------------------------------------------------------

// cand is the set of admissible results of one element.
type cand[T num] struct {
	v   [3]T       // exactly admissible values (v[0] is the plain scalar expression)
	n   int        // how many of v are valid
	tol [2]float64 // > 0: additionally anything within tol of v[0] (per component: re, im)
}

type ewArgs[T num] struct {
	n     int
	alpha T
	dst   *buf[T]
	x, y  *buf[T]
	ret   []T // slice returned by the call (kernels with returnsDst)
}

type ewKernel[T num] struct {
	name     string
	exact    bool // single rounding per element: bit-identical, joined across builds in every class
	strided  bool
	negInc   bool
	nsrc     int  // number of source vectors besides dst (0, 1: x, 2: x and y)
	readsDst bool // old dst value is an operand
	scalar   bool
	maxExp   int
	aliasX   bool
	aliasY   bool
	skip     map[vclass]bool
	retDst   bool // the call returns a slice that must be dst itself
	call     func(a *ewArgs[T])
	ref      func(alpha, d, x, y T) cand[T]
}

type incTriple struct{ d, x, y int }

var quickIncs = []incTriple{
	{1, 1, 1}, {2, 2, 2}, {1, 2, 3}, {2, 1, 4}, {3, 3, 1}, {3, 5, 2}, {4, 1, 5}, {5, 4, 1}, {1, 5, 4}, {4, 3, 3}, {5, 2, 5}, {2, 4, 2},
}
var quickNegIncs = []incTriple{{-1, 1, -2}, {1, -1, 1}, {-2, -3, -1}, {-1, -1, -1}, {3, -2, 2}}

func incList(c *vrt.Ctx, k int, neg bool) []incTriple {
	var l []incTriple
	if !c.Thorough() {
		l = append(l, quickIncs...)
		if neg {
			l = append(l, quickNegIncs...)
		}
		return l
	}
	// thorough: every pair of increments 1..5 on (d,x), y cycling.
	for d := 1; d <= 5; d++ {
		for x := 1; x <= 5; x++ {
			l = append(l, incTriple{d, x, 1 + (d+2*x)%5})
		}
	}
	if neg {
		for d := -3; d <= 3; d++ {
			for x := -3; x <= 3; x++ {
				if d == 0 || x == 0 || (d > 0 && x > 0) {
					continue
				}
				y := -1 - (absInt(d)+absInt(x))%3
				if (d+x)%2 == 0 {
					y = -y
				}
				l = append(l, incTriple{d, x, y})
			}
		}
	}
	return l
}

type placement struct {
	mode             placeMode
	offD, offX, offY int
	useBase          bool
}

// casePlacements selects the placements of one (increment, class)
// combination. Thorough: all ten. Quick: all ten (start offsets 0..7 plus both
// guard placements) for the uniform class, and for the other value classes
// one rotating start offset plus one guard placement (value class and
// alignment are independent dimensions of the kernels).
func casePlacements(c *vrt.Ctx, all []placement, vc vclass, n, incIdx int) []placement {
	if c.Thorough() || vc == vcUniform || vc == vcInfHead || vc == vcMix || len(all) < 10 {
		return all
	}
	return []placement{all[(n+3*int(vc)+incIdx)&7], all[8+(n+int(vc)+incIdx)&1]}
}

func placements(n int) []placement {
	var l []placement
	for o := 0; o < 8; o++ {
		l = append(l, placement{pmHeap, o, (3*o + 1) & 7, (5*o + 2) & 7, o&1 == 1})
	}
	l = append(l, placement{pmTail, n % 3, (n + 1) % 4, (n + 2) % 5, n&1 == 1})
	l = append(l, placement{pmHead, 0, 0, 0, false})
	return l
}

func (k *ewKernel[T]) pathClass(it incTriple, alias int) string {
	s := "unit"
	if k.strided {
		s = "strided"
		if it.d < 0 || (k.nsrc >= 1 && it.x < 0) || (k.nsrc >= 2 && it.y < 0) {
			s = "strided-neg"
		}
	}
	switch alias {
	case 1:
		s += "+dst=x"
	case 2:
		s += "+dst=y"
	}
	return s
}

// runEW runs every case of kernel k for length n.
func runEW[T num](c *vrt.Ctx, k *ewKernel[T], n int, reduced bool) {
	t := newTally(c)
	defer t.flush()
	r := c.RNG("ew|"+k.name, n)
	dg := newDigester()
	defer dg.flush(c)
	incs := []incTriple{{1, 1, 1}}
	if k.strided {
		incs = incList(c, 0, k.negInc)
	}
	pls := placements(n)
	classes := []vclass{vcUniform, vcInt, vcZero, vcSubnormal, vcHugeTiny, vcNaN, vcInf}
	if reduced {
		// long vectors: fewer combinations
		if len(incs) > 3 {
			incs = []incTriple{{1, 1, 1}, {2, 3, 1}, {3, 1, 2}}
		}
		pls = []placement{pls[0], pls[5], pls[8], pls[9]}
		classes = []vclass{vcUniform, vcInt, vcHugeTiny}
	}
	aliases := []int{0}
	if k.aliasX && k.nsrc >= 1 {
		aliases = append(aliases, 1)
	}
	if k.aliasY && k.nsrc >= 2 {
		aliases = append(aliases, 2)
	}
	for ii, it := range incs {
		for _, vc := range classes {
			if k.skip[vc] {
				continue
			}
			for pi, pl := range casePlacements(c, pls, vc, n, ii) {
				for _, alias := range aliases {
					if alias != 0 && pi%3 != 0 && vc == vcUniform {
						continue
					}
					dig, ok := runEWCase(c, t, r, k, n, it, vc, pl, alias)
					if k.exact || vc == vcInt {
						dg.add(fmt.Sprintf("%s|%s|n=%d", k.name, k.pathClass(it, alias), n), dig, ok)
					}
				}
			}
		}
	}
}

func runEWCase[T num](c *vrt.Ctx, t *tally, r *vrt.Rand, k *ewKernel[T], n int, it incTriple, vc vclass, pl placement, alias int) ([]uint64, bool) {
	a := &ewArgs[T]{n: n}
	if k.scalar {
		a.alpha = genScalar[T](r, vc, k.maxExp)
	}
	dvals := gen[T](r, vc, n, k.maxExp)
	a.dst = newBuf(dvals, pl.offD, it.d, pl.mode)
	defer a.dst.release()
	if k.nsrc >= 1 {
		xv := gen[T](r, vc, n, k.maxExp)
		if alias == 1 {
			a.x = a.dst
		} else {
			a.x = newBuf(xv, pl.offX, it.x, pl.mode)
			defer a.x.release()
		}
	}
	if k.nsrc >= 2 {
		yv := gen[T](r, vc, n, k.maxExp)
		if alias == 2 {
			a.y = a.dst
		} else {
			a.y = newBuf(yv, pl.offY, it.y, pl.mode)
			defer a.y.release()
		}
	}
	if pl.useBase && k.strided {
		for _, b := range []*buf[T]{a.dst, a.x, a.y} {
			if b != nil {
				b.base = b.off
			}
		}
	}
	path := k.pathClass(it, alias)
	key := k.name + "|" + path + "|" + pl.mode.String() + "|" + vc.String() + "|" + nClass(n)
	mk := func(idx int, note string, got, want any) *replay {
		rp := &replay{Routine: k.name, N: n, Inc: []int{it.d, it.x, it.y}, Off: []int{pl.offD, pl.offX, pl.offY},
			Place: pl.mode.String(), Class: vc.String(), Alias: path, Alpha: a.alpha, Index: idx, Note: note, Got: got, Want: want}
		rp.D = append([]T(nil), dvals...)
		if a.x != nil {
			rp.X = logicalOld(a.x)
		}
		if a.y != nil {
			rp.Y = logicalOld(a.y)
		}
		return rp
	}
	if c.WantSample() && n > 2 && n < 8 && vc == vcUniform {
		c.Sample(mk(-1, "sample input", nil, nil))
	}
	c.LastCase(key + fmt.Sprintf(" n=%d inc=%v", n, it))
	p := vrt.Try(func() { k.call(a) })
	t.eval(key, n > 0)
	if p != nil {
		clause := "panic"
		if p.Fault {
			clause = "memory-fault-outside-operand"
		} else if p.Runtime {
			clause = "runtime-panic"
		}
		// a fault / panic is reported per routine and stride class, whatever the aliasing
		c.Violationf(k.name+"|"+k.pathClass(it, 0)+"|"+clause, mk(-1, p.Msg, nil, nil), "%s n=%d inc=%v %s %s %s: %s\n%s", k.name, n, it, path, pl.mode, vc, p.Msg, p.Stack)
		return nil, false
	}
	if k.retDst {
		if len(a.ret) != n || (n > 0 && &a.ret[0] != &a.dst.unit()[0]) {
			c.Violationf(k.name+"|"+path+"|returned-slice-is-not-dst", mk(-1, "", len(a.ret), n), "%s n=%d: returned slice is not dst", k.name, n)
			return nil, false
		}
	}
	// storage that must not change
	seen := map[*buf[T]]bool{}
	for i, b := range []*buf[T]{a.dst, a.x, a.y} {
		if b == nil || seen[b] {
			continue
		}
		seen[b] = true
		isDst := b == a.dst
		if pos := b.firstTouched(isDst); pos >= 0 {
			clause := "wrote-outside-destination"
			if !isDst {
				clause = "modified-source"
			}
			c.Violationf(k.name+"|"+path+"|"+clause, mk(pos, "operand "+[]string{"dst", "x", "y"}[i], b.arr[pos], b.snap[pos]),
				"%s n=%d inc=%v %s %s: array position %d of operand %d changed from %s to %s", k.name, n, it, pl.mode, vc, pos, i, fmtv(b.snap[pos]), fmtv(b.arr[pos]))
			return nil, false
		}
	}
	dig := make([]uint64, 0, 2*n)
	var zero T
	for j := 0; j < n; j++ {
		got := a.dst.get(j)
		d := a.dst.old(j)
		x, y := zero, zero
		if a.x != nil {
			x = a.x.old(j)
		}
		if a.y != nil {
			y = a.y.old(j)
		}
		cd := k.ref(a.alpha, d, x, y)
		ok := false
		for q := 0; q < cd.n; q++ {
			if same(got, cd.v[q]) {
				ok = true
				break
			}
		}
		if !ok && (cd.tol[0] > 0 || cd.tol[1] > 0) && !k.exact && vc != vcInt {
			// componentwise: a finite component is held to the band, a
			// non-finite one to its class
			gr, gi := parts(got)
			wr, wi := parts(cd.v[0])
			ok = bandF(gr, wr, cd.tol[0]) && bandF(gi, wi, cd.tol[1])
		}
		if !ok {
			clause := "wrong-value"
			gr, gi := parts(got)
			wr, wi := parts(cd.v[0])
			switch {
			case gr == wr && gi == wi:
				// numerically equal, so only the sign of a zero differs
				clause = "wrong-sign-of-zero"
			case (gr != gr && wr == wr) || (gi != gi && wi == wi):
				clause = "nan-where-definition-has-a-number"
			}
			sigPath := path
			if clause != "wrong-value" {
				// value-class deviations are not aliasing effects: one
				// signature per routine, whatever the aliasing
				sigPath = k.pathClass(it, 0)
			}
			c.Violationf(k.name+"|"+sigPath+"|"+clause, mk(j, "", got, cd.v[0]),
				"%s n=%d inc=%v off=%d/%d/%d %s %s: element %d = %s, scalar definition gives %s (alpha=%s d=%s x=%s y=%s)",
				k.name, n, it, pl.offD, pl.offX, pl.offY, pl.mode, vc, j, fmtv(got), fmtv(cd.v[0]), fmtv(a.alpha), fmtv(d), fmtv(x), fmtv(y))
			return nil, false
		}
		gr, gi := parts(got)
		dig = append(dig, canonBits(gr), canonBits(gi))
	}
	return dig, true
}

func logicalOld[T num](b *buf[T]) []T {
	s := make([]T, b.n)
	for k := range s {
		s[k] = b.old(k)
	}
	return s
}

// ---------------------------------------------------------------------------
// scalar definitions (written from the documented formulas)
// ---------------------------------------------------------------------------

func c1[T num](v T) cand[T] { return cand[T]{v: [3]T{v}, n: 1} }

func fabs(x float64) float64 { return math.Abs(x) }

// real: alpha*x + y, fused or not.
func refAxpyR[F fnum](alpha, x, y F) cand[F] {
	p := F(alpha * x)
	unf := F(p + y)
	fz := F(math.FMA(float64(alpha), float64(x), float64(y)))
	cd := cand[F]{v: [3]F{unf, fz}, n: 2}
	if isSingle[F]() {
		// float32(FMA in float64) is not always the correctly rounded
		// float32 fused result (double rounding): fall back to the band.
		cd.tol[0] = 2*vrt.Eps32*(fabs(float64(alpha)*float64(x))+fabs(float64(y))) + 0x1p-149
	}
	return cd
}

// cmulMag returns the magnitudes |ar·br|+|ai·bi| and |ar·bi|+|ai·br| of the
// two components of a·b.
func cmulMag[C cnum](a, b C) (float64, float64) {
	ar, ai := parts(a)
	br, bi := parts(b)
	return fabs(ar*br) + fabs(ai*bi), fabs(ar*bi) + fabs(ai*br)
}

// complex: alpha*x + y with Go's complex arithmetic as the scalar
// definition; other evaluation orders / fused forms / float32 instead of
// Go's float64 intermediate products stay inside the band
// cmulSlack·u·(|products| + |y|) per component (two products, their
// difference and the addition of y: at most 5 roundings between a float32
// SIMD evaluation and Go's scalar one).
func refAxpyC[C cnum](alpha, x, y C) cand[C] {
	u := unitRoundoff[C]()
	mr, mi := cmulMag(alpha, x)
	yr, yi := parts(y)
	t := 8 * tinyOf[C]()
	return cand[C]{v: [3]C{alpha*x + y}, n: 1, tol: [2]float64{cmulSlack*u*(mr+fabs(yr)) + t, cmulSlack*u*(mi+fabs(yi)) + t}}
}

const cmulSlack = 6

func refMulC[C cnum](a, b C) cand[C] {
	u := unitRoundoff[C]()
	mr, mi := cmulMag(a, b)
	t := 8 * tinyOf[C]()
	return cand[C]{v: [3]C{a * b}, n: 1, tol: [2]float64{cmulSlack*u*mr + t, cmulSlack*u*mi + t}}
}
