package main

import (
	"fmt"
	"math"
	"math/cmplx"

	"gonum.org/v1/gonum/cmplxs"
	"gonum.org/v1/gonum/verifx/vrt"
)

func conjC(z complex128) complex128 { return complex(real(z), -imag(z)) }

func cmplxsEWKernels() []*ewKernel[complex128] {
	type A = ewArgs[complex128]
	type C = complex128
	one := func(v C) cand[C] { return c1(v) }
	rs := func(f float64, z C) C { return complex(f*real(z), f*imag(z)) }
	return []*ewKernel[C]{
		{name: "cmplxs.Add", exact: true, nsrc: 1, readsDst: true, maxExp: 300,
			call: func(a *A) { cmplxs.Add(a.dst.unit(), a.x.unit()) },
			ref:  func(al, d, x, y C) cand[C] { return one(d + x) }},
		{name: "cmplxs.AddTo", exact: true, nsrc: 2, maxExp: 300, aliasX: true, aliasY: true, retDst: true,
			call: func(a *A) { a.ret = cmplxs.AddTo(a.dst.unit(), a.x.unit(), a.y.unit()) },
			ref:  func(al, d, x, y C) cand[C] { return one(x + y) }},
		{name: "cmplxs.AddConst", exact: true, readsDst: true, scalar: true, maxExp: 300,
			call: func(a *A) { cmplxs.AddConst(a.alpha, a.dst.unit()) },
			ref:  func(al, d, x, y C) cand[C] { return one(d + al) }},
		{name: "cmplxs.AddScaled", nsrc: 1, readsDst: true, scalar: true, maxExp: 70,
			call: func(a *A) { cmplxs.AddScaled(a.dst.unit(), a.alpha, a.x.unit()) },
			ref:  func(al, d, x, y C) cand[C] { return refAxpyC(al, x, d) }},
		{name: "cmplxs.AddScaledTo", nsrc: 2, scalar: true, maxExp: 70, aliasX: true, aliasY: true, retDst: true,
			call: func(a *A) { a.ret = cmplxs.AddScaledTo(a.dst.unit(), a.y.unit(), a.alpha, a.x.unit()) },
			ref:  func(al, d, x, y C) cand[C] { return refAxpyC(al, x, y) }},
		{name: "cmplxs.Div", exact: true, nsrc: 1, readsDst: true, maxExp: 70,
			call: func(a *A) { cmplxs.Div(a.dst.unit(), a.x.unit()) },
			ref:  func(al, d, x, y C) cand[C] { return one(d / x) }},
		{name: "cmplxs.DivTo", exact: true, nsrc: 2, maxExp: 70, aliasX: true, aliasY: true, retDst: true,
			call: func(a *A) { a.ret = cmplxs.DivTo(a.dst.unit(), a.x.unit(), a.y.unit()) },
			ref:  func(al, d, x, y C) cand[C] { return one(x / y) }},
		{name: "cmplxs.Mul", nsrc: 1, readsDst: true, maxExp: 70,
			call: func(a *A) { cmplxs.Mul(a.dst.unit(), a.x.unit()) },
			ref:  func(al, d, x, y C) cand[C] { return refMulC(d, x) }},
		{name: "cmplxs.MulTo", nsrc: 2, maxExp: 70, aliasX: true, aliasY: true, retDst: true,
			call: func(a *A) { a.ret = cmplxs.MulTo(a.dst.unit(), a.x.unit(), a.y.unit()) },
			ref:  func(al, d, x, y C) cand[C] { return refMulC(y, x) }},
		{name: "cmplxs.MulConj", nsrc: 1, readsDst: true, maxExp: 70,
			call: func(a *A) { cmplxs.MulConj(a.dst.unit(), a.x.unit()) },
			ref:  func(al, d, x, y C) cand[C] { return refMulC(d, conjC(x)) }},
		{name: "cmplxs.MulConjTo", nsrc: 2, maxExp: 70, aliasX: true, aliasY: true, retDst: true,
			call: func(a *A) { a.ret = cmplxs.MulConjTo(a.dst.unit(), a.x.unit(), a.y.unit()) },
			ref:  func(al, d, x, y C) cand[C] { return refMulC(conjC(y), x) }},
		{name: "cmplxs.Scale", readsDst: true, scalar: true, maxExp: 70,
			call: func(a *A) { cmplxs.Scale(a.alpha, a.dst.unit()) },
			ref:  func(al, d, x, y C) cand[C] { return refMulC(d, al) }},
		{name: "cmplxs.ScaleTo", nsrc: 1, scalar: true, maxExp: 70, aliasX: true, retDst: true,
			call: func(a *A) { a.ret = cmplxs.ScaleTo(a.dst.unit(), a.alpha, a.x.unit()) },
			ref:  func(al, d, x, y C) cand[C] { return refMulC(al, x) }},
		{name: "cmplxs.ScaleReal", exact: true, readsDst: true, scalar: true, maxExp: 300,
			call: func(a *A) { cmplxs.ScaleReal(real(a.alpha), a.dst.unit()) },
			ref:  func(al, d, x, y C) cand[C] { return one(rs(real(al), d)) }},
		{name: "cmplxs.ScaleRealTo", exact: true, nsrc: 1, scalar: true, maxExp: 300, aliasX: true, retDst: true,
			call: func(a *A) { a.ret = cmplxs.ScaleRealTo(a.dst.unit(), real(a.alpha), a.x.unit()) },
			ref:  func(al, d, x, y C) cand[C] { return one(rs(real(al), x)) }},
		{name: "cmplxs.Sub", exact: true, nsrc: 1, readsDst: true, maxExp: 300,
			call: func(a *A) { cmplxs.Sub(a.dst.unit(), a.x.unit()) },
			ref:  func(al, d, x, y C) cand[C] { return one(d - x) }},
		{name: "cmplxs.SubTo", exact: true, nsrc: 2, maxExp: 300, aliasX: true, aliasY: true, retDst: true,
			call: func(a *A) { a.ret = cmplxs.SubTo(a.dst.unit(), a.x.unit(), a.y.unit()) },
			ref:  func(al, d, x, y C) cand[C] { return one(x - y) }},
	}
}

// moduli of the elements (or of the rounded element differences)
func moduli(x, y []complex128, dist bool) []float64 {
	out := make([]float64, len(x))
	for i := range x {
		v := x[i]
		if dist {
			v = y[i] - x[i]
		}
		out[i] = math.Hypot(real(v), imag(v))
	}
	return out
}

func checkCNorm(p float64, dist bool) func(n int, x, y []complex128, gr, gi float64, exact bool) (bool, float64, float64, string) {
	return func(n int, x, y []complex128, gr, gi float64, exact bool) (bool, float64, float64, string) {
		m := moduli(x, y, dist)
		switch {
		case math.IsInf(p, 1):
			want := 0.0
			for _, v := range m {
				if dist {
					if v > want {
						want = v
					}
				} else {
					want = math.Max(want, v)
				}
			}
			return sameF(gr, want), want, 0, "not-the-maximum"
		case p == 1:
			var a acc
			for _, v := range m {
				a.add(v)
			}
			a.n += len(m) // one extra rounding per modulus
			ok, w, cl := a.check(gr, vrt.Eps64, 0x1p-1074, false)
			return ok, w, 0, cl
		}
		var a acc
		for _, v := range m {
			a.add(math.Pow(v, p))
		}
		s, fin := a.value()
		want := math.Pow(s, 1/p)
		if !fin || !finiteF(want) {
			return sameF(gr, want), want, 0, "non-finite-class"
		}
		return bandF(gr, want, pNormTol(2*n, want)), want, 0, "outside-rounding-band"
	}
}

func checkCProd(n int, x, y []complex128, gr, gi float64, exact bool) (bool, float64, float64, string) {
	p := complex(1, 0)
	mn, mx := 1.0, 1.0
	for _, v := range x {
		p *= v
		a := math.Abs(real(p)) + math.Abs(imag(p))
		if a < mn {
			mn = a
		} else if a > mx {
			mx = a
		}
	}
	if sameF(gr, real(p)) && sameF(gi, imag(p)) {
		return true, real(p), imag(p), ""
	}
	if exact || !finiteF(real(p)) || !finiteF(imag(p)) || mn < 0x1p-900 || mx > 0x1p900 {
		return false, real(p), imag(p), "wrong-value"
	}
	tol := 4 * float64(n+4) * vrt.Eps64 * cmplx.Abs(p)
	return bandF(gr, real(p), tol) && bandF(gi, imag(p), tol), real(p), imag(p), "outside-rounding-band"
}

func cmplxsRedKernels() []*redKernel[complex128] {
	type A = redArgs[complex128]
	u := vrt.Eps64
	inf := math.Inf(1)
	prodSkip := map[vclass]bool{vcHugeTiny: true, vcSubnormal: true}
	norm := func(name string, p float64, dist bool, maxExp int) *redKernel[complex128] {
		k := &redKernel[complex128]{name: name, nsrc: 1, maxExp: maxExp, check: checkCNorm(p, dist)}
		if dist {
			k.nsrc = 2
			k.call = func(a *A) (float64, float64) { return cmplxs.Distance(a.x.unit(), a.y.unit(), p), 0 }
		} else {
			k.call = func(a *A) (float64, float64) { return cmplxs.Norm(a.x.unit(), p), 0 }
		}
		return k
	}
	return []*redKernel[complex128]{
		{name: "cmplxs.Sum", nsrc: 1, maxExp: 300, intExact: true,
			call: func(a *A) (float64, float64) { s := cmplxs.Sum(a.x.unit()); return real(s), imag(s) }, check: checkSum[complex128](u)},
		{name: "cmplxs.Dot", nsrc: 2, maxExp: 70, intExact: true,
			call:  func(a *A) (float64, float64) { s := cmplxs.Dot(a.x.unit(), a.y.unit()); return real(s), imag(s) },
			check: checkDotC[complex128](true)},
		{name: "cmplxs.Prod", nsrc: 1, maxExp: 4, skip: prodSkip,
			call: func(a *A) (float64, float64) { s := cmplxs.Prod(a.x.unit()); return real(s), imag(s) }, check: checkCProd},
		norm("cmplxs.Norm(1)", 1, false, 300),
		{name: "cmplxs.Norm(2)", nsrc: 1, maxExp: 300, l2: true,
			call: func(a *A) (float64, float64) { return cmplxs.Norm(a.x.unit(), 2), 0 }, check: checkL2[complex128]()},
		norm("cmplxs.Norm(Inf)", inf, false, 300),
		norm("cmplxs.Norm(3)", 3, false, 90),
		norm("cmplxs.Norm(1.5)", 1.5, false, 150),
		norm("cmplxs.Distance(4)", 4, true, 70),
		norm("cmplxs.Distance(1)", 1, true, 300),
		{name: "cmplxs.Distance(2)", nsrc: 2, maxExp: 300, l2: true,
			call: func(a *A) (float64, float64) { return cmplxs.Distance(a.x.unit(), a.y.unit(), 2), 0 }, check: checkL2Dist[complex128]()},
		norm("cmplxs.Distance(Inf)", inf, true, 300),
		norm("cmplxs.Distance(3)", 3, true, 90),
	}
}

func cmplxsScanKernels() []*scanKernel[complex128] {
	return []*scanKernel[complex128]{
		{name: "cmplxs.CumSum", call: cmplxs.CumSum},
		{name: "cmplxs.CumProd", prod: true, call: cmplxs.CumProd},
	}
}

// ---------------------------------------------------------------------------
// mixed-type element-wise functions: Abs, Real, Imag (complex -> real) and
// Complex (two reals -> complex)
// ---------------------------------------------------------------------------

func addCmplxsMixed(c *vrt.Ctx, ts *[]task) {
	short, long := lengths(c)
	for _, n := range append(append([]int{}, short...), long[:2]...) {
		n := n
		*ts = append(*ts, task{"cmplxs.mixed", n + 1, func() { runCmplxsMixed(c, n) }})
	}
}

func runCmplxsMixed(c *vrt.Ctx, n int) {
	t := newTally(c)
	defer t.flush()
	r := c.RNG("cmplxs.mixed", n)
	names := []string{"cmplxs.Abs", "cmplxs.Real", "cmplxs.Imag", "cmplxs.Complex"}
	digest := make([][]uint64, len(names))
	for _, vc := range []vclass{vcUniform, vcInt, vcZero, vcSubnormal, vcHugeTiny, vcNaN, vcInf} {
		for _, pl := range placements(n) {
			for op, name := range names {
				zv := gen[complex128](r, vc, n, 300)
				f1 := gen[float64](r, vc, n, 300)
				f2 := gen[float64](r, vc, n, 300)
				zb := newBuf(zv, pl.offX, 1, pl.mode)
				b1 := newBuf(f1, pl.offD, 1, pl.mode)
				b2 := newBuf(f2, pl.offY, 1, pl.mode)
				key := name + "|unit|" + pl.mode.String() + "|" + vc.String() + "|" + nClass(n)
				c.LastCase(key)
				var retF []float64
				var retC []complex128
				p := vrt.Try(func() {
					switch op {
					case 0:
						cmplxs.Abs(b1.unit(), zb.unit())
					case 1:
						retF = cmplxs.Real(b1.unit(), zb.unit())
					case 2:
						retF = cmplxs.Imag(b1.unit(), zb.unit())
					case 3:
						retC = cmplxs.Complex(zb.unit(), b1.unit(), b2.unit())
					}
				})
				t.eval(key, n > 0)
				bad := func(clause, format string, args ...any) {
					c.Violationf(name+"|unit|"+clause, &replay{Routine: name, N: n, Off: []int{pl.offD, pl.offX, pl.offY}, Place: pl.mode.String(), Class: vc.String(), X: zv, D: f1, Y: f2},
						"%s n=%d %s %s: %s", name, n, pl.mode, vc, fmt.Sprintf(format, args...))
				}
				func() {
					defer zb.release()
					defer b1.release()
					defer b2.release()
					if p != nil {
						clause := "panic"
						if p.Fault {
							clause = "memory-fault-outside-operand"
						}
						bad(clause, "%s", p.Msg)
						return
					}
					if op < 3 {
						if zb.firstTouched(false) >= 0 || b1.firstTouched(true) >= 0 {
							bad("wrote-outside-destination", "storage outside dst changed")
							return
						}
						if (op == 1 || op == 2) && (len(retF) != n || (n > 0 && &retF[0] != &b1.unit()[0])) {
							bad("returned-slice-is-not-dst", "returned slice is not dst")
							return
						}
						for i := 0; i < n; i++ {
							var want float64
							switch op {
							case 0:
								want = math.Hypot(real(zv[i]), imag(zv[i]))
							case 1:
								want = real(zv[i])
							case 2:
								want = imag(zv[i])
							}
							got := b1.get(i)
							if !sameF(got, want) {
								bad("wrong-value", "element %d = %s, want %s (z=%v)", i, fmtf(got), fmtf(want), zv[i])
								return
							}
							digest[op] = append(digest[op], canonBits(got))
						}
						return
					}
					if b1.firstTouched(false) >= 0 || b2.firstTouched(false) >= 0 || zb.firstTouched(true) >= 0 {
						bad("wrote-outside-destination", "storage outside dst changed")
						return
					}
					if len(retC) != n || (n > 0 && &retC[0] != &zb.unit()[0]) {
						bad("returned-slice-is-not-dst", "returned slice is not dst")
						return
					}
					for i := 0; i < n; i++ {
						got := zb.get(i)
						if !sameF(real(got), f1[i]) || !sameF(imag(got), f2[i]) {
							bad("wrong-value", "element %d = %v, want (%v,%v)", i, got, f1[i], f2[i])
							return
						}
						digest[op] = append(digest[op], canonBits(real(got)), canonBits(imag(got)))
					}
				}()
			}
		}
	}
	for op, name := range names {
		c.Digest(fmt.Sprintf("%s|n=%d", name, n), "exact", digest[op]...)
	}
}
