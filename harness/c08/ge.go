package main

import (
	"fmt"
	"math"

	"gonum.org/v1/gonum/internal/asm/f32"
	"gonum.org/v1/gonum/internal/asm/f64"
	"gonum.org/v1/gonum/verifx/vrt"
)

// Level-2 kernels behind Dger/Dgemv/Sger/Sgemv:
//
//	Ger   A += alpha·x·yᵀ
//	GemvN y = alpha·A·x + beta·y
//	GemvT y = alpha·Aᵀ·x + beta·y
//
// (beta == 0 overwrites y without reading it). Negative increments follow the
// BLAS convention (element i of a vector with inc < 0 is v[(len-1-i)·|inc|]).

type geFuncs[F fnum] struct {
	pkg   string
	ger   func(m, n uintptr, alpha F, x []F, incX uintptr, y []F, incY uintptr, a []F, lda uintptr)
	gemvN func(m, n uintptr, alpha F, a []F, lda uintptr, x []F, incX uintptr, beta F, y []F, incY uintptr)
	gemvT func(m, n uintptr, alpha F, a []F, lda uintptr, x []F, incX uintptr, beta F, y []F, incY uintptr)
}

func addGe(c *vrt.Ctx, ts *[]task) {
	g64 := geFuncs[float64]{"f64", f64.Ger, f64.GemvN, f64.GemvT}
	g32 := geFuncs[float32]{"f32", f32.Ger, f32.GemvN, f32.GemvT}
	maxDim := c.Pick(13, 26)
	dims := []int{}
	// m == 0 or n == 0 never reaches these kernels (Dgemv/Dger return first,
	// like the reference BLAS) and their documentation does not define it:
	// the assembly returns at once, the Go twin still scales y by beta.
	for d := 1; d <= maxDim; d++ {
		dims = append(dims, d)
	}
	dims = append(dims, 31, 33, 40)
	if c.Thorough() {
		dims = append(dims, 63, 64, 65, 70)
	}
	for _, m := range dims {
		m := m
		*ts = append(*ts, task{"f64.Ge", 3 * (m + 1), func() {
			for _, n := range dims {
				runGe(c, g64, m, n)
			}
		}})
		*ts = append(*ts, task{"f32.Ge", 3 * (m + 1), func() {
			for _, n := range dims {
				runGe(c, g32, m, n)
			}
		}})
	}
}

// vecFrom returns the slice handed to a Ge kernel: exactly the addressed
// span (so that it ends flush against the guard page in guard-tail mode).
func vecFrom[T num](b *buf[T]) []T { return b.arr[b.off:] }

func runGe[F fnum](c *vrt.Ctx, g geFuncs[F], m, n int) {
	t := newTally(c)
	defer t.flush()
	r := c.RNG("ge|"+g.pkg, m, n)
	u := unitRoundoff[F]()
	tiny := tinyOf[F]()
	incs := [][2]int{{1, 1}, {1, 2}, {2, 1}, {3, 2}, {-1, 1}, {1, -1}, {-2, -3}, {2, 3}}
	if !c.Thorough() {
		incs = [][2]int{incs[0], incs[(m+n)%3+1], incs[(m+2*n)%4+4]}
	}
	classes := []vclass{vcUniform, vcInt, vcZero, vcHugeTiny}
	modes := []placeMode{pmHeap, pmTail, pmHead}
	dg := newDigester()
	defer dg.flush(c)
	for op := 0; op < 3; op++ {
		opName := g.pkg + "." + [...]string{"Ger", "GemvN", "GemvT"}[op]
		for _, inc := range incs {
			for ci, vc := range classes {
				mode := modes[(ci+op+m+n)%3]
				off := (m + 3*n + ci) & 7
				lda := n + []int{0, 1, 5}[(m+n+ci)%3]
				if lda < 1 {
					lda = 1
				}
				// vector lengths: Ger x:m y:n ; GemvN x:n y:m ; GemvT x:m y:n
				lx, ly := m, n
				if op == 1 {
					lx, ly = n, m
				}
				alpha := genScalar[F](r, vc, 60)
				beta := genScalar[F](r, vc, 60)
				xv := gen[F](r, vc, lx, 60)
				yv := gen[F](r, vc, ly, 60)
				asz := 0
				if m > 0 {
					asz = (m-1)*lda + n
				}
				flat := make([]F, asz)
				for i := range flat {
					flat[i] = taintOf[F](i + 100)
				}
				av := gen[F](r, vc, m*n, 60)
				for i := 0; i < m; i++ {
					for j := 0; j < n; j++ {
						flat[i*lda+j] = av[i*n+j]
					}
				}
				if op != 0 && float64(beta) == 0 {
					// y is output only: garbage in must not leak out
					for i := range yv {
						yv[i] = F(math.NaN())
					}
				}
				xb := newBuf(xv, off, inc[0], mode)
				yb := newBuf(yv, (off+3)&7, inc[1], mode)
				ab := newBuf(flat, (off+5)&7, 1, mode)
				path := "inc>0"
				if inc[0] < 0 || inc[1] < 0 {
					path = "inc<0"
				} else if inc[0] == 1 && inc[1] == 1 {
					path = "unit"
				}
				key := fmt.Sprintf("%s|%s|%s|%s|m%s|n%s", opName, path, mode, vc, nClass(m), nClass(n))
				c.LastCase(key + fmt.Sprintf(" m=%d n=%d lda=%d inc=%v", m, n, lda, inc))
				mk := func(note string, got, want any) *replay {
					return &replay{Routine: opName, N: m*1000 + n, Inc: inc[:], Off: []int{off, lda}, Place: mode.String(), Class: vc.String(),
						Alpha: []F{alpha, beta}, X: xv, Y: yv, D: av, Note: note, Got: got, Want: want}
				}
				p := vrt.Try(func() {
					switch op {
					case 0:
						g.ger(uintptr(m), uintptr(n), alpha, vecFrom(xb), uintptr(inc[0]), vecFrom(yb), uintptr(inc[1]), vecFrom(ab), uintptr(lda))
					case 1:
						g.gemvN(uintptr(m), uintptr(n), alpha, vecFrom(ab), uintptr(lda), vecFrom(xb), uintptr(inc[0]), beta, vecFrom(yb), uintptr(inc[1]))
					case 2:
						g.gemvT(uintptr(m), uintptr(n), alpha, vecFrom(ab), uintptr(lda), vecFrom(xb), uintptr(inc[0]), beta, vecFrom(yb), uintptr(inc[1]))
					}
				})
				t.eval(key, m > 0 && n > 0)
				var digest []uint64
				caseOK := true
				fail := func(clause, format string, args ...any) {
					caseOK = false
					c.Violationf(opName+"|"+path+"|"+clause, mk(fmt.Sprintf(format, args...), nil, nil),
						"%s m=%d n=%d lda=%d inc=%v %s %s alpha=%v beta=%v: %s", opName, m, n, lda, inc, mode, vc, alpha, beta, fmt.Sprintf(format, args...))
				}
				func() {
					defer xb.release()
					defer yb.release()
					defer ab.release()
					if p != nil {
						clause := "panic"
						if p.Fault {
							clause = "memory-fault-outside-operand"
						} else if p.Runtime {
							clause = "runtime-panic"
						}
						fail(clause, "%s\n%s", p.Msg, p.Stack)
						return
					}
					if pos := xb.firstTouched(false); pos >= 0 {
						fail("modified-source", "x position %d changed", pos)
						return
					}
					if pos := yb.firstTouched(op != 0); pos >= 0 {
						fail("wrote-outside-destination", "y position %d changed", pos)
						return
					}
					// matrix: gaps between rows and everything outside must be untouched
					for pos := range ab.arr {
						q := pos - ab.off
						isElem := q >= 0 && q < asz && q%lda < n
						if op == 0 && isElem {
							continue
						}
						gr, _ := parts(ab.arr[pos])
						sr, _ := parts(ab.snap[pos])
						if math.Float64bits(gr) != math.Float64bits(sr) {
							if op == 0 {
								fail("wrote-outside-destination", "a position %d (row gap or padding) changed", pos)
							} else {
								fail("modified-source", "a position %d changed", pos)
							}
							return
						}
					}
					exact := vc == vcInt
					if op == 0 {
						for i := 0; i < m; i++ {
							for j := 0; j < n; j++ {
								got := float64(ab.arr[ab.off+i*lda+j])
								a0 := av[i*n+j]
								tx := F(alpha * xv[i])
								unf := float64(F(F(tx*yv[j]) + a0))
								fz := math.FMA(float64(tx), float64(yv[j]), float64(a0))
								ex := float64(alpha)*float64(xv[i])*float64(yv[j]) + float64(a0)
								tol := 4*u*(math.Abs(float64(alpha)*float64(xv[i])*float64(yv[j]))+math.Abs(float64(a0))) + 4*tiny
								ok := sameF(got, unf) || (!isSingle[F]() && sameF(got, fz))
								if !ok && !exact {
									ok = bandF(got, ex, tol)
								}
								if !ok {
									fail("wrong-value", "A[%d,%d] = %s, scalar definition gives %s", i, j, fmtf(got), fmtf(unf))
									return
								}
								if exact {
									digest = append(digest, canonBits(got+0))
								}
							}
						}
						return
					}
					// gemv
					for i := 0; i < ly; i++ {
						var d acc
						for j := 0; j < lx; j++ {
							var aij F
							if op == 2 {
								aij = av[j*n+i]
							} else {
								aij = av[i*n+j]
							}
							d.addProd(float64(aij), float64(xv[j]))
						}
						dot, _ := d.value()
						want := float64(alpha) * dot
						mag := math.Abs(float64(alpha)) * d.abs
						if float64(beta) != 0 {
							want += float64(beta) * float64(yv[i])
							mag += math.Abs(float64(beta) * float64(yv[i]))
						}
						got := float64(yb.get(i))
						tol := float64(lx+8)*u*mag + float64(lx+4)*tiny
						ok := false
						if exact {
							ok = got == want
						} else {
							ok = bandF(got, want, tol)
						}
						if !ok {
							fail("outside-rounding-band", "y[%d] = %s, reference %s (tol %g)", i, fmtf(got), fmtf(want), tol)
							return
						}
						if exact {
							digest = append(digest, canonBits(got+0))
						}
					}
				}()
				if vc == vcInt {
					dg.add(fmt.Sprintf("%s|%s|m=%d|n=%d", opName, path, m, n), digest, caseOK)
				}
			}
		}
	}
}
