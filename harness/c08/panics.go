package main

import (
	"gonum.org/v1/gonum/cmplxs"
	"gonum.org/v1/gonum/floats"
	"gonum.org/v1/gonum/verifx/vrt"
)

// "It panics if the argument lengths do not match": every documented length
// precondition, with each operand in turn one element short or long, must
// panic and must leave the destination untouched.

func addPanics(c *vrt.Ctx, ts *[]task) {
	*ts = append(*ts, task{"panics", 30, func() {
		x := &idxCtx{c, newTally(c)}
		defer x.t.flush()
		runPanics(x)
	}})
}

func runPanics(x *idxCtx) {
	r := x.c.RNG("panics")
	for _, n := range []int{0, 1, 2, 3, 4, 7, 8, 9, 16, 17, 33} {
		for _, delta := range []int{-1, 1, 2} {
			m := n + delta
			if m < 0 {
				continue
			}
			f := func(k int) []float64 { return gen[float64](r, vcUniform, k, 0) }
			z := func(k int) []complex128 { return gen[complex128](r, vcUniform, k, 0) }
			type tc struct {
				name string
				dst  any
				call func()
			}
			var cases []tc
			// floats: dst is always listed so that its content can be compared
			{
				d, s, t := f(n), f(m), f(n)
				cases = append(cases,
					tc{"floats.Add", d, func() { floats.Add(d, s) }},
					tc{"floats.AddTo|dst", d, func() { floats.AddTo(d, s, f(m)) }},
					tc{"floats.AddTo|src", d, func() { floats.AddTo(d, t, s) }},
					tc{"floats.AddScaled", d, func() { floats.AddScaled(d, 2, s) }},
					tc{"floats.AddScaledTo|dst", d, func() { floats.AddScaledTo(d, s, 2, f(m)) }},
					tc{"floats.AddScaledTo|src", d, func() { floats.AddScaledTo(d, t, 2, s) }},
					tc{"floats.CumProd", d, func() { floats.CumProd(d, s) }},
					tc{"floats.CumSum", d, func() { floats.CumSum(d, s) }},
					tc{"floats.Distance", d, func() { floats.Distance(d, s, 2) }},
					tc{"floats.Div", d, func() { floats.Div(d, s) }},
					tc{"floats.DivTo|dst", d, func() { floats.DivTo(d, s, f(m)) }},
					tc{"floats.DivTo|src", d, func() { floats.DivTo(d, t, s) }},
					tc{"floats.Dot", d, func() { floats.Dot(d, s) }},
					tc{"floats.Mul", d, func() { floats.Mul(d, s) }},
					tc{"floats.MulTo|dst", d, func() { floats.MulTo(d, s, f(m)) }},
					tc{"floats.MulTo|src", d, func() { floats.MulTo(d, t, s) }},
					tc{"floats.ScaleTo", d, func() { floats.ScaleTo(d, 2, s) }},
					tc{"floats.Sub", d, func() { floats.Sub(d, s) }},
					tc{"floats.SubTo|dst", d, func() { floats.SubTo(d, s, f(m)) }},
					tc{"floats.SubTo|src", d, func() { floats.SubTo(d, t, s) }},
				)
			}
			{
				d, s, t := z(n), z(m), z(n)
				fd := f(n)
				cases = append(cases,
					tc{"cmplxs.Abs", fd, func() { cmplxs.Abs(fd, s) }},
					tc{"cmplxs.Real", fd, func() { cmplxs.Real(fd, s) }},
					tc{"cmplxs.Imag", fd, func() { cmplxs.Imag(fd, s) }},
					tc{"cmplxs.Complex|dst", d, func() { cmplxs.Complex(d, f(m), f(m)) }},
					tc{"cmplxs.Complex|src", d, func() { cmplxs.Complex(d, f(n), f(m)) }},
					tc{"cmplxs.Add", d, func() { cmplxs.Add(d, s) }},
					tc{"cmplxs.AddTo|dst", d, func() { cmplxs.AddTo(d, s, z(m)) }},
					tc{"cmplxs.AddTo|src", d, func() { cmplxs.AddTo(d, t, s) }},
					tc{"cmplxs.AddScaled", d, func() { cmplxs.AddScaled(d, 2, s) }},
					tc{"cmplxs.AddScaledTo|dst", d, func() { cmplxs.AddScaledTo(d, s, 2, z(m)) }},
					tc{"cmplxs.AddScaledTo|src", d, func() { cmplxs.AddScaledTo(d, t, 2, s) }},
					tc{"cmplxs.CumProd", d, func() { cmplxs.CumProd(d, s) }},
					tc{"cmplxs.CumSum", d, func() { cmplxs.CumSum(d, s) }},
					tc{"cmplxs.Distance", d, func() { cmplxs.Distance(d, s, 2) }},
					tc{"cmplxs.Div", d, func() { cmplxs.Div(d, s) }},
					tc{"cmplxs.DivTo|dst", d, func() { cmplxs.DivTo(d, s, z(m)) }},
					tc{"cmplxs.DivTo|src", d, func() { cmplxs.DivTo(d, t, s) }},
					tc{"cmplxs.Dot", d, func() { cmplxs.Dot(d, s) }},
					tc{"cmplxs.Mul", d, func() { cmplxs.Mul(d, s) }},
					tc{"cmplxs.MulTo|dst", d, func() { cmplxs.MulTo(d, s, z(m)) }},
					tc{"cmplxs.MulTo|src", d, func() { cmplxs.MulTo(d, t, s) }},
					tc{"cmplxs.MulConj", d, func() { cmplxs.MulConj(d, s) }},
					tc{"cmplxs.MulConjTo|dst", d, func() { cmplxs.MulConjTo(d, s, z(m)) }},
					tc{"cmplxs.MulConjTo|src", d, func() { cmplxs.MulConjTo(d, t, s) }},
					tc{"cmplxs.ScaleTo", d, func() { cmplxs.ScaleTo(d, 2, s) }},
					tc{"cmplxs.ScaleRealTo", d, func() { cmplxs.ScaleRealTo(d, 2, s) }},
					tc{"cmplxs.Sub", d, func() { cmplxs.Sub(d, s) }},
					tc{"cmplxs.SubTo|dst", d, func() { cmplxs.SubTo(d, s, z(m)) }},
					tc{"cmplxs.SubTo|src", d, func() { cmplxs.SubTo(d, t, s) }},
				)
			}
			for _, k := range cases {
				var before []uint64
				switch d := k.dst.(type) {
				case []float64:
					before = vrt.Bits(d)
				case []complex128:
					for _, v := range d {
						before = append(before, canonBits(real(v)), canonBits(imag(v)))
					}
				}
				p := vrt.Try(k.call)
				x.t.eval(k.name+"|length-mismatch", true)
				if p == nil {
					x.bad(k.name, "length-mismatch", "no-panic", map[string]any{"n": n, "other": m}, "lengths %d and %d accepted", n, m)
					continue
				}
				if p.Runtime {
					x.bad(k.name, "length-mismatch", "runtime-error-instead-of-length-panic", map[string]any{"n": n, "other": m}, "%s", p.Msg)
				}
				var after []uint64
				switch d := k.dst.(type) {
				case []float64:
					after = vrt.Bits(d)
				case []complex128:
					for _, v := range d {
						after = append(after, canonBits(real(v)), canonBits(imag(v)))
					}
				}
				for i := range before {
					if before[i] != after[i] {
						x.bad(k.name, "length-mismatch", "destination-written-before-panic", map[string]any{"n": n, "other": m}, "element %d changed", i/2)
						break
					}
				}
			}
		}
	}
	// empty-slice preconditions
	for name, f := range map[string]func(){
		"floats.LogSumExp": func() { floats.LogSumExp(nil) },
		"floats.Max":       func() { floats.Max(nil) },
		"floats.Min":       func() { floats.Min([]float64{}) },
		"cmplxs.MaxAbs":    func() { cmplxs.MaxAbs(nil) },
		"cmplxs.MinAbs":    func() { cmplxs.MinAbs(nil) },
	} {
		if p := vrt.Try(f); p == nil {
			x.bad(name, "empty", "no-panic-on-empty-slice", nil, "")
		}
		x.t.eval(name+"|empty", true)
	}
}
