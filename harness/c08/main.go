// Command c08 is the runtime monitor for property C08: slice primitives
// equal their scalar definitions in every build configuration.
package main

import (
	"flag"
	"os"
	"runtime/debug"
	"runtime/pprof"
	"sort"
	"strings"

	"gonum.org/v1/gonum/verifx/vrt"
)

var onlySub = flag.String("sub", "", "comma separated sub-checks to run (default all): kern,scan,ge,floats,cmplxs,scalar,index,spatial")

func main() { vrt.Main("C08", run) }

type task struct {
	name string
	cost int
	f    func()
}

func want(sub string) bool {
	if *onlySub == "" {
		return true
	}
	for _, s := range strings.Split(*onlySub, ",") {
		if s == sub {
			return true
		}
	}
	return false
}

// lengths returns the exhaustive range 0..70 and the sampled long lengths.
func lengths(c *vrt.Ctx) (short, long []int) {
	for n := 0; n <= 70; n++ {
		short = append(short, n)
	}
	long = []int{97, 128, 255, 1000, 4099, 10000}
	if c.Thorough() {
		long = []int{71, 72, 96, 97, 127, 128, 129, 255, 256, 257, 511, 1000, 1023, 1024, 1025, 2049, 4099, 8191, 10000}
	}
	return
}

func addEW[T num](c *vrt.Ctx, ts *[]task, ks []*ewKernel[T]) {
	short, long := lengths(c)
	for _, k := range ks {
		k := k
		for _, n := range short {
			n := n
			*ts = append(*ts, task{k.name, n + 1, func() { runEW(c, k, n, false) }})
		}
		for _, n := range long {
			n := n
			*ts = append(*ts, task{k.name, n/4 + 1, func() { runEW(c, k, n, true) }})
		}
	}
}

func addRed[T num](c *vrt.Ctx, ts *[]task, ks []*redKernel[T]) {
	short, long := lengths(c)
	for _, k := range ks {
		k := k
		for _, n := range short {
			n := n
			*ts = append(*ts, task{k.name, n + 1, func() { runRed(c, k, n, false) }})
		}
		for _, n := range long {
			n := n
			*ts = append(*ts, task{k.name, n/4 + 1, func() { runRed(c, k, n, true) }})
		}
	}
}

func run(c *vrt.Ctx) {
	if pf := os.Getenv("C08_PROF"); pf != "" {
		f, _ := os.Create(pf)
		pprof.StartCPUProfile(f)
		defer pprof.StopCPUProfile()
	}
	var ts []task
	if want("kern") {
		addEW(c, &ts, f64EWKernels())
		addEW(c, &ts, f32EWKernels())
		addEW(c, &ts, c128EWKernels())
		addEW(c, &ts, c64EWKernels())
		addRed(c, &ts, f64RedKernels())
		addRed(c, &ts, f32RedKernels())
		addRed(c, &ts, c128RedKernels())
		addRed(c, &ts, c64RedKernels())
	}
	addMore(c, &ts)
	// biggest first for load balance; order does not influence any result
	// (every task has its own RNG stream).
	if f := os.Getenv("C08_ONLY"); f != "" {
		var keep []task
		for _, t := range ts {
			if strings.HasPrefix(t.name, f) {
				keep = append(keep, t)
			}
		}
		ts = keep
	}
	sort.SliceStable(ts, func(i, j int) bool { return ts[i].cost > ts[j].cost })
	vrt.Parallel(len(ts), func(i int) {
		// per-goroutine setting: a guard-page hit inside assembly becomes a
		// recoverable panic (vrt.Main sets it for the main goroutine only).
		debug.SetPanicOnFault(true)
		ts[i].f()
	})
	c.Note("tasks", len(ts))
	c.Note("l2_worst_ratio_of_band", l2WorstRatio.ratio)
}
