package main

import (
	"gonum.org/v1/gonum/internal/asm/c128"
	"gonum.org/v1/gonum/internal/asm/c64"
	"gonum.org/v1/gonum/internal/asm/f32"
	"gonum.org/v1/gonum/internal/asm/f64"
	"gonum.org/v1/gonum/verifx/vrt"
)

var noNonFinite = map[vclass]bool{vcNaN: true, vcInf: true}

func f64RedKernels() []*redKernel[float64] {
	u := vrt.Eps64
	return []*redKernel[float64]{
		{name: "f64.Sum", nsrc: 1, maxExp: 300, intExact: true,
			call:  func(a *redArgs[float64]) (float64, float64) { return f64.Sum(a.x.unit()), 0 },
			check: checkSum[float64](u)},
		{name: "f64.L1Norm", nsrc: 1, maxExp: 300, intExact: true,
			call:  func(a *redArgs[float64]) (float64, float64) { return f64.L1Norm(a.x.unit()), 0 },
			check: checkAbsSum[float64](u)},
		{name: "f64.L1NormInc", nsrc: 1, maxExp: 300, intExact: true, strided: true,
			call:  func(a *redArgs[float64]) (float64, float64) { return f64.L1NormInc(a.x.from(), a.n, a.x.inc), 0 },
			check: checkAbsSum[float64](u)},
		{name: "f64.DotUnitary", nsrc: 2, maxExp: 140, intExact: true,
			call:  func(a *redArgs[float64]) (float64, float64) { return f64.DotUnitary(a.x.unit(), a.y.unit()), 0 },
			check: checkDotR[float64](u, 0x1p-1074)},
		{name: "f64.DotInc", nsrc: 2, maxExp: 140, intExact: true, strided: true, negInc: true,
			call: func(a *redArgs[float64]) (float64, float64) {
				xs, ix := a.x.view()
				ys, iy := a.y.view()
				return f64.DotInc(xs, ys, uintptr(a.n), a.x.uinc(), a.y.uinc(), ix, iy), 0
			},
			check: checkDotR[float64](u, 0x1p-1074)},
		{name: "f64.L1Dist", nsrc: 2, maxExp: 300, intExact: true,
			call:  func(a *redArgs[float64]) (float64, float64) { return f64.L1Dist(a.x.unit(), a.y.unit()), 0 },
			check: checkL1Dist},
		// LinfDist: maximum of the rounded |t-s|: order independent, exact.
		// NaN / Inf-Inf inputs are left out: the documented loop and SSE
		// MAXPD treat a NaN operand differently and no caller defines which
		// one is meant (the kernel has no user inside gonum).
		{name: "f64.LinfDist", nsrc: 2, maxExp: 300, intExact: true, skip: noNonFinite,
			call:  func(a *redArgs[float64]) (float64, float64) { return f64.LinfDist(a.x.unit(), a.y.unit()), 0 },
			check: checkLinfDist},
		{name: "f64.L2NormUnitary", nsrc: 1, maxExp: 300, l2: true,
			call:  func(a *redArgs[float64]) (float64, float64) { return f64.L2NormUnitary(a.x.unit()), 0 },
			check: checkL2[float64]()},
		{name: "f64.L2NormInc", nsrc: 1, maxExp: 300, l2: true, strided: true,
			call: func(a *redArgs[float64]) (float64, float64) {
				return f64.L2NormInc(a.x.from(), uintptr(a.n), a.x.uinc()), 0
			},
			check: checkL2[float64]()},
		{name: "f64.L2DistanceUnitary", nsrc: 2, maxExp: 300, l2: true,
			call:  func(a *redArgs[float64]) (float64, float64) { return f64.L2DistanceUnitary(a.x.unit(), a.y.unit()), 0 },
			check: checkL2Dist[float64]()},
	}
}

func f32RedKernels() []*redKernel[float32] {
	u := vrt.Eps32
	return []*redKernel[float32]{
		{name: "f32.Sum", nsrc: 1, maxExp: 300, intExact: true,
			call:  func(a *redArgs[float32]) (float64, float64) { return float64(f32.Sum(a.x.unit())), 0 },
			check: checkSum[float32](u)},
		{name: "f32.DotUnitary", nsrc: 2, maxExp: 140, intExact: true,
			call: func(a *redArgs[float32]) (float64, float64) {
				return float64(f32.DotUnitary(a.x.unit(), a.y.unit())), 0
			},
			check: checkDotR[float32](u, 0x1p-149)},
		{name: "f32.DotInc", nsrc: 2, maxExp: 140, intExact: true, strided: true, negInc: true,
			call: func(a *redArgs[float32]) (float64, float64) {
				xs, ix := a.x.view()
				ys, iy := a.y.view()
				return float64(f32.DotInc(xs, ys, uintptr(a.n), a.x.uinc(), a.y.uinc(), ix, iy)), 0
			},
			check: checkDotR[float32](u, 0x1p-149)},
		// Ddot: float32 inputs, float64 products and accumulation.
		{name: "f32.DdotUnitary", nsrc: 2, maxExp: 140, intExact: true,
			call:  func(a *redArgs[float32]) (float64, float64) { return f32.DdotUnitary(a.x.unit(), a.y.unit()), 0 },
			check: checkDotR[float32](vrt.Eps64, 0)},
		{name: "f32.DdotInc", nsrc: 2, maxExp: 140, intExact: true, strided: true, negInc: true,
			call: func(a *redArgs[float32]) (float64, float64) {
				xs, ix := a.x.view()
				ys, iy := a.y.view()
				return f32.DdotInc(xs, ys, uintptr(a.n), a.x.uinc(), a.y.uinc(), ix, iy), 0
			},
			check: checkDotR[float32](vrt.Eps64, 0)},
		{name: "f32.L2NormUnitary", nsrc: 1, maxExp: 300, l2: true,
			call:  func(a *redArgs[float32]) (float64, float64) { return float64(f32.L2NormUnitary(a.x.unit())), 0 },
			check: checkL2[float32]()},
		{name: "f32.L2NormInc", nsrc: 1, maxExp: 300, l2: true, strided: true,
			call: func(a *redArgs[float32]) (float64, float64) {
				return float64(f32.L2NormInc(a.x.from(), uintptr(a.n), a.x.uinc())), 0
			},
			check: checkL2[float32]()},
		{name: "f32.L2DistanceUnitary", nsrc: 2, maxExp: 300, l2: true,
			call: func(a *redArgs[float32]) (float64, float64) {
				return float64(f32.L2DistanceUnitary(a.x.unit(), a.y.unit())), 0
			},
			check: checkL2Dist[float32]()},
	}
}

type cmplxRed[C cnum] struct {
	pkg                      string
	dotUnitary               func(x, y []C) C
	dotcUnitary, dotuUnitary func(x, y []C) C
	dotcInc, dotuInc         func(x, y []C, n, incX, incY, ix, iy uintptr) C
	sum                      func(x []C) C
	l2norm                   func(x []C) float64
	l2dist                   func(x, y []C) float64
}

func cmplxRedKernels[C cnum](f cmplxRed[C]) []*redKernel[C] {
	p := f.pkg + "."
	u := unitRoundoff[C]()
	incCall := func(fn func(x, y []C, n, incX, incY, ix, iy uintptr) C) func(a *redArgs[C]) (float64, float64) {
		return func(a *redArgs[C]) (float64, float64) {
			xs, ix := a.x.view()
			ys, iy := a.y.view()
			return parts(fn(xs, ys, uintptr(a.n), a.x.uinc(), a.y.uinc(), ix, iy))
		}
	}
	uniCall := func(fn func(x, y []C) C) func(a *redArgs[C]) (float64, float64) {
		return func(a *redArgs[C]) (float64, float64) { return parts(fn(a.x.unit(), a.y.unit())) }
	}
	return []*redKernel[C]{
		{name: p + "Sum", nsrc: 1, maxExp: 300, intExact: true,
			call:  func(a *redArgs[C]) (float64, float64) { return parts(f.sum(a.x.unit())) },
			check: checkSum[C](u)},
		{name: p + "DotUnitary", nsrc: 2, maxExp: 70, intExact: true, call: uniCall(f.dotUnitary), check: checkDotC[C](true)},
		{name: p + "DotcUnitary", nsrc: 2, maxExp: 70, intExact: true, call: uniCall(f.dotcUnitary), check: checkDotC[C](true)},
		{name: p + "DotuUnitary", nsrc: 2, maxExp: 70, intExact: true, call: uniCall(f.dotuUnitary), check: checkDotC[C](false)},
		{name: p + "DotcInc", nsrc: 2, maxExp: 70, intExact: true, strided: true, negInc: true, call: incCall(f.dotcInc), check: checkDotC[C](true)},
		{name: p + "DotuInc", nsrc: 2, maxExp: 70, intExact: true, strided: true, negInc: true, call: incCall(f.dotuInc), check: checkDotC[C](false)},
		{name: p + "L2NormUnitary", nsrc: 1, maxExp: 300, l2: true,
			call:  func(a *redArgs[C]) (float64, float64) { return f.l2norm(a.x.unit()), 0 },
			check: checkL2[C]()},
		{name: p + "L2DistanceUnitary", nsrc: 2, maxExp: 300, l2: true,
			call:  func(a *redArgs[C]) (float64, float64) { return f.l2dist(a.x.unit(), a.y.unit()), 0 },
			check: checkL2Dist[C]()},
	}
}

func c128RedKernels() []*redKernel[complex128] {
	return cmplxRedKernels(cmplxRed[complex128]{pkg: "c128", dotUnitary: c128.DotUnitary, dotcUnitary: c128.DotcUnitary,
		dotuUnitary: c128.DotuUnitary, dotcInc: c128.DotcInc, dotuInc: c128.DotuInc, sum: c128.Sum,
		l2norm: c128.L2NormUnitary, l2dist: c128.L2DistanceUnitary})
}

func c64RedKernels() []*redKernel[complex64] {
	return cmplxRedKernels(cmplxRed[complex64]{pkg: "c64", dotUnitary: c64.DotUnitary, dotcUnitary: c64.DotcUnitary,
		dotuUnitary: c64.DotuUnitary, dotcInc: c64.DotcInc, dotuInc: c64.DotuInc, sum: c64.Sum,
		l2norm: func(x []complex64) float64 { return float64(c64.L2NormUnitary(x)) },
		l2dist: func(x, y []complex64) float64 { return float64(c64.L2DistanceUnitary(x, y)) }})
}
