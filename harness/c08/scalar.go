package main

import (
	"fmt"
	"math"
	"math/big"
	"math/cmplx"
	"strconv"

	"gonum.org/v1/gonum/cmplxs/cscalar"
	"gonum.org/v1/gonum/floats/scalar"
	"gonum.org/v1/gonum/internal/cmplx64"
	"gonum.org/v1/gonum/internal/math32"
	"gonum.org/v1/gonum/verifx/vrt"
)

// Scalar helper packages: floats/scalar, cmplxs/cscalar, internal/math32,
// internal/cmplx64 against transcriptions of their documented rules.

func addScalar(c *vrt.Ctx, ts *[]task) {
	parts := c.Pick(16, 64)
	for p := 0; p < parts; p++ {
		p := p
		*ts = append(*ts, task{"scalar", 60, func() {
			x := &idxCtx{c, newTally(c)}
			defer x.t.flush()
			runScalar(x, p)
			runMath32(x, p)
			runCmplx64(x, p)
		}})
	}
}

// interesting float64 values
func pickF64(r *vrt.Rand) float64 {
	switch r.Intn(16) {
	case 0:
		return 0
	case 1:
		return math.Copysign(0, -1)
	case 2:
		return math.Inf(1)
	case 3:
		return math.Inf(-1)
	case 4:
		return math.NaN()
	case 5:
		return math.Copysign(float64(r.Uint64()>>12|1)*0x1p-1074, r.Sym())
	case 6:
		return math.Copysign(math.MaxFloat64, r.Sym())
	case 7:
		return float64(r.Range(-1000, 1000))
	case 8:
		return float64(r.Range(-100000, 100000)) / 1000
	case 9:
		return float64(r.Range(-1000, 1000)) + 0.5
	case 10, 11:
		return genReal(r, vcHugeTiny, 1, 300, false)[0]
	}
	return r.Norm() * 10
}

// orderedKey maps a non-NaN float64 to an integer that increases with the
// value and steps by one per representable number (+0 and -0 both map to 0).
func orderedKey(f float64) *big.Int {
	b := math.Float64bits(f)
	k := new(big.Int).SetUint64(b &^ (1 << 63))
	if b>>63 == 1 {
		k.Neg(k)
	}
	return k
}

// refRound: exact decimal rounding of x to prec digits (half away from zero
// or half to even), then correctly rounded back to float64. Also reports the
// distance of x·10^prec from the nearest half-integer (relative).
func refRound(x float64, prec int, even bool) (want float64, nearHalf bool) {
	r := new(big.Rat).SetFloat64(x)
	p10 := new(big.Rat).SetInt(new(big.Int).Exp(big.NewInt(10), big.NewInt(int64(absInt(prec))), nil))
	t := new(big.Rat)
	if prec >= 0 {
		t.Mul(r, p10)
	} else {
		t.Quo(r, p10)
	}
	// floor and fraction
	fl := new(big.Int).Div(t.Num(), t.Denom()) // Euclidean: floor for positive denominators
	frac := new(big.Rat).Sub(t, new(big.Rat).SetInt(fl))
	half := big.NewRat(1, 2)
	d := new(big.Rat).Sub(frac, half)
	df, _ := d.Float64()
	tf, _ := t.Float64()
	// (only meaningful while x·10^prec is a finite float: beyond that there
	// is no float product whose rounding could be ambiguous)
	nearHalf = finiteF(tf) && math.Abs(tf) < 0x1p900 && math.Abs(df) <= 1e-9*(1+math.Abs(tf))
	if fi := x * math.Pow10(prec); finiteF(fi) && new(big.Rat).SetFloat64(fi).Cmp(t) == 0 {
		// the float product x·10^prec is exact: the rule decides on the true
		// value and a half-integer is a genuine tie, not a rounding accident
		nearHalf = false
	}
	n := new(big.Int).Set(fl)
	switch frac.Cmp(half) {
	case 1:
		n.Add(n, big.NewInt(1))
	case 0:
		if even {
			if n.Bit(0) == 1 {
				n.Add(n, big.NewInt(1))
			}
		} else if t.Sign() > 0 {
			n.Add(n, big.NewInt(1)) // away from zero
		}
	}
	res := new(big.Rat).SetInt(n)
	if prec >= 0 {
		res.Quo(res, p10)
	} else {
		res.Mul(res, p10)
	}
	want, _ = res.Float64()
	return want, nearHalf
}

func runScalar(x *idxCtx, part int) {
	c := x.c
	r := c.RNG("scalar", part)
	iters := c.Pick(400, 1200)
	for it := 0; it < iters; it++ {
		a, b := pickF64(r), pickF64(r)
		if r.Intn(3) == 0 {
			// close pair
			ulps := int64(r.Intn(20))
			bb := math.Float64bits(a)
			if a == a && !math.IsInf(a, 0) {
				b = math.Float64frombits(bb + uint64(ulps))
				if r.Bool() && bb > uint64(ulps) {
					b = math.Float64frombits(bb - uint64(ulps))
				}
			}
		}
		rp := map[string]any{"a": a, "b": b}

		// --- EqualWithinULP: true iff the number of representable values
		// between a and b is <= ulp (NaN never equal; a == b always).
		for _, ulp := range []uint{0, 1, 2, 5, 10, 1 << 20} {
			got := scalar.EqualWithinULP(a, b, ulp)
			x.t.eval("scalar.EqualWithinULP|"+ulpClass(a, b), true)
			want := false
			if a == b {
				want = true
			} else if a == a && b == b {
				d := new(big.Int).Sub(orderedKey(a), orderedKey(b))
				d.Abs(d)
				want = d.Cmp(new(big.Int).SetUint64(uint64(ulp))) <= 0
			}
			if got != want {
				x.bad("scalar.EqualWithinULP", ulpClass(a, b), "wrong-answer", rp, "a=%s b=%s ulp=%d got %v want %v", fmtf(a), fmtf(b), ulp, got, want)
			}
		}

		// --- EqualWithinAbs / Rel / AbsOrRel, away from the boundary of the rule
		tol := []float64{0, 1e-12, 1e-6, 0.1, 3}[r.Intn(5)]
		if a == a && b == b {
			wantAbs := a == b || math.Abs(a-b) <= tol
			if got := scalar.EqualWithinAbs(a, b, tol); got != wantAbs {
				x.bad("scalar.EqualWithinAbs", "any", "wrong-answer", rp, "a=%v b=%v tol=%v got %v", a, b, tol, got)
			}
			x.t.eval("scalar.EqualWithinAbs|any", true)
			if finiteF(a) && finiteF(b) {
				delta := math.Abs(a - b)
				mx := math.Max(math.Abs(a), math.Abs(b))
				// documented: |a-b| <= tol·max(|a|,|b|); differences at or below
				// the smallest normal are judged against tol·minNormal instead
				// (implementation comment) — keep away from both borders.
				// (and delta/max must not underflow: the implementation divides)
				if a == b || (delta > 0x1p-1000 && finiteF(delta) && delta/mx > 0x1p-1000 && math.Abs(delta-tol*mx) > 1e-9*delta) {
					wantRel := a == b || delta <= tol*mx
					if got := scalar.EqualWithinRel(a, b, tol); got != wantRel {
						x.bad("scalar.EqualWithinRel", "finite", "wrong-answer", rp, "a=%v b=%v tol=%v got %v want %v", a, b, tol, got, wantRel)
					}
					x.t.eval("scalar.EqualWithinRel|finite", true)
					if got := scalar.EqualWithinAbsOrRel(a, b, tol, tol); got != (wantAbs || wantRel) {
						x.bad("scalar.EqualWithinAbsOrRel", "finite", "wrong-answer", rp, "a=%v b=%v tol=%v got %v", a, b, tol, got)
					}
					x.t.eval("scalar.EqualWithinAbsOrRel|finite", true)
				}
			}
		}

		// --- Same
		if got, want := scalar.Same(a, b), a == b || (a != a && b != b); got != want {
			x.bad("scalar.Same", "any", "wrong-answer", rp, "a=%v b=%v got %v", a, b, got)
		}
		x.t.eval("scalar.Same|any", true)

		// --- NaNWith / NaNPayload
		pl := r.Uint64()
		nan := scalar.NaNWith(pl)
		gp, ok := scalar.NaNPayload(nan)
		x.t.eval("scalar.NaNWith|any", true)
		if nan == nan || !ok || gp != pl&(1<<51-1) {
			x.bad("scalar.NaNWith", "any", "payload-roundtrip", rp, "payload %#x -> %#x ok=%v nan=%v", pl, gp, ok, nan)
		}
		if it == 0 {
			if math.Float64bits(scalar.NaNWith(1)) != math.Float64bits(math.NaN()) {
				x.bad("scalar.NaNWith", "any", "NaNWith(1)-is-not-math.NaN", rp, "")
			}
		}
		if a == a {
			if p, ok := scalar.NaNPayload(a); ok || p != 0 {
				x.bad("scalar.NaNPayload", "non-NaN", "not-zero-false", rp, "a=%v -> %v %v", a, p, ok)
			}
			x.t.eval("scalar.NaNPayload|non-NaN", true)
		}
		// a signalling NaN (quiet bit clear) is "other than quiet-NaN"
		snan := math.Float64frombits(0x7ff0000000000000 | (pl&(1<<51-1) | 1))
		if p, ok := scalar.NaNPayload(snan); ok || p != 0 {
			x.bad("scalar.NaNPayload", "signalling-NaN", "not-zero-false", rp, "bits %#x -> %v %v", math.Float64bits(snan), p, ok)
		}
		x.t.eval("scalar.NaNPayload|signalling-NaN", true)

		// --- Round / RoundEven
		prec := r.Range(-4, 8)
		for _, even := range []bool{false, true} {
			name, f := "scalar.Round", scalar.Round
			if even {
				name, f = "scalar.RoundEven", scalar.RoundEven
			}
			got := f(a, prec)
			cls := "finite"
			switch {
			case a != a:
				cls = "NaN"
			case math.IsInf(a, 0):
				cls = "Inf"
			case a == 0:
				cls = "zero"
			}
			x.t.eval(name+"|"+cls, true)
			switch cls {
			case "NaN":
				if got == got {
					x.bad(name, cls, "special-case", rp, "Round(NaN)=%v", got)
				}
			case "Inf":
				if got != a {
					x.bad(name, cls, "special-case", rp, "Round(%v)=%v", a, got)
				}
			case "zero":
				if got != 0 || math.Signbit(got) {
					x.bad(name, cls, "special-case", rp, "Round(%s)=%s (must be +0)", fmtf(a), fmtf(got))
				}
			default:
				if math.Abs(a) > 1e290 || (math.Abs(a) < 1e-290) {
					continue // x·10^prec leaves the float64 range: outside the useful domain
				}
				want, nearHalf := refRound(a, prec, even)
				if got == want || vrt.ULPDiff(got, want) <= 1 {
					continue
				}
				if nearHalf {
					// x·10^prec is (within float rounding) a half-integer: the
					// float product may land on either side; both neighbours
					// at this precision are admissible.
					step := math.Pow10(-prec)
					if math.Abs(math.Abs(got-want)-step) <= 4*vrt.Eps64*(math.Abs(want)+step) {
						continue
					}
				}
				x.bad(name, cls, "not-the-rounded-value", rp, "%s(%v, %d) = %v, exact decimal rounding gives %v", name, a, prec, got, want)
			}
		}

		// --- ParseWithNA
		str := strconv.FormatFloat(a, 'g', -1, 64)
		v, w, err := scalar.ParseWithNA(str, "NA")
		x.t.eval("scalar.ParseWithNA|number", true)
		if err != nil || w != 1 || !sameF(v, a) {
			x.bad("scalar.ParseWithNA", "number", "wrong-value-or-weight", rp, "%q -> %v %v %v", str, v, w, err)
		}
		v, w, err = scalar.ParseWithNA(str, str)
		x.t.eval("scalar.ParseWithNA|missing", true)
		if err != nil || w != 0 || v != 0 {
			x.bad("scalar.ParseWithNA", "missing", "wrong-value-or-weight", rp, "%q -> %v %v %v", str, v, w, err)
		}
		v, w, err = scalar.ParseWithNA("x"+str, "NA")
		x.t.eval("scalar.ParseWithNA|garbage", true)
		if err == nil || w != 0 {
			x.bad("scalar.ParseWithNA", "garbage", "no-error-or-nonzero-weight", rp, "-> %v %v %v", v, w, err)
		}

		// --- cscalar
		z1, z2 := complex(a, pickF64(r)), complex(b, pickF64(r))
		if got, want := cscalar.Same(z1, z2), z1 == z2 || (cmplx.IsNaN(z1) && cmplx.IsNaN(z2)); got != want {
			x.bad("cscalar.Same", "any", "wrong-answer", rp, "%v %v got %v", z1, z2, got)
		}
		x.t.eval("cscalar.Same|any", true)
		if finite(z1) && finite(z2) {
			d := cmplx.Abs(z1 - z2)
			mx := math.Max(cmplx.Abs(z1), cmplx.Abs(z2))
			if finiteF(d) && finiteF(mx) && math.Abs(d-tol) > 1e-9*d {
				wantAbs := z1 == z2 || d <= tol
				if got := cscalar.EqualWithinAbs(z1, z2, tol); got != wantAbs {
					x.bad("cscalar.EqualWithinAbs", "finite", "wrong-answer", rp, "%v %v tol=%v got %v", z1, z2, tol, got)
				}
				x.t.eval("cscalar.EqualWithinAbs|finite", true)
				if z1 == z2 || (d > 0x1p-1000 && d/mx > 0x1p-1000 && math.Abs(d-tol*mx) > 1e-9*d) {
					wantRel := z1 == z2 || d <= tol*mx
					if got := cscalar.EqualWithinRel(z1, z2, tol); got != wantRel {
						x.bad("cscalar.EqualWithinRel", "finite", "wrong-answer", rp, "%v %v tol=%v got %v", z1, z2, tol, got)
					}
					if got := cscalar.EqualWithinAbsOrRel(z1, z2, tol, tol); got != (wantAbs || wantRel) {
						x.bad("cscalar.EqualWithinAbsOrRel", "finite", "wrong-answer", rp, "%v %v tol=%v got %v", z1, z2, tol, got)
					}
					x.t.eval("cscalar.EqualWithinRel|finite", true)
					x.t.eval("cscalar.EqualWithinAbsOrRel|finite", true)
				}
			}
		}
		for _, even := range []bool{false, true} {
			name, f, fr := "cscalar.Round", cscalar.Round, scalar.Round
			if even {
				name, f, fr = "cscalar.RoundEven", cscalar.RoundEven, scalar.RoundEven
			}
			got := f(z1, prec)
			x.t.eval(name+"|any", true)
			want := complex(fr(real(z1), prec), fr(imag(z1), prec))
			if z1 == 0 {
				want = 0
			}
			if !same(got, want) {
				x.bad(name, "any", "not-componentwise-Round", rp, "%v -> %v want %v", z1, got, want)
			}
		}
		if finite(z1) {
			zs := fmt.Sprint(z1)
			v, w, err := cscalar.ParseWithNA(zs, "NA")
			x.t.eval("cscalar.ParseWithNA|number", true)
			if err != nil || w != 1 || v != z1 {
				x.bad("cscalar.ParseWithNA", "number", "wrong-value-or-weight", rp, "%q -> %v %v %v", zs, v, w, err)
			}
			v, w, err = cscalar.ParseWithNA(zs, zs)
			if err != nil || w != 0 || v != 0 {
				x.bad("cscalar.ParseWithNA", "missing", "wrong-value-or-weight", rp, "%q -> %v %v %v", zs, v, w, err)
			}
			x.t.eval("cscalar.ParseWithNA|missing", true)
		}
	}
}

func ulpClass(a, b float64) string {
	switch {
	case a != a || b != b:
		return "NaN"
	case math.IsInf(a, 0) || math.IsInf(b, 0):
		return "Inf"
	case math.Signbit(a) != math.Signbit(b):
		return "opposite-signs"
	}
	return "same-sign"
}

// ---- internal/math32 --------------------------------------------------------

func pickF32(r *vrt.Rand) float32 {
	switch r.Intn(14) {
	case 0:
		return 0
	case 1:
		return float32(math.Copysign(0, -1))
	case 2:
		return float32(math.Inf(1))
	case 3:
		return float32(math.Inf(-1))
	case 4:
		return float32(math.NaN())
	case 5:
		return float32(math.Copysign(float64(r.Range(1, 1<<23-1))*0x1p-149, r.Sym()))
	case 6:
		return float32(math.Copysign(math.MaxFloat32, r.Sym()))
	case 7:
		return float32(r.Range(-100, 100))
	case 8, 9:
		return float32(genReal(r, vcHugeTiny, 1, 300, true)[0])
	}
	return float32(r.Norm() * 10)
}

func same32(a, b float32) bool { return sameF(float64(a), float64(b)) }

func runMath32(x *idxCtx, part int) {
	c := x.c
	r := c.RNG("math32", part)
	iters := c.Pick(600, 3000)
	bad := func(fn, clause string, format string, args ...any) {
		x.bad("math32."+fn, "any", clause, nil, format, args...)
	}
	for it := 0; it < iters; it++ {
		a, b := pickF32(r), pickF32(r)
		fa, fb := float64(a), float64(b)
		if got := math32.Abs(a); !same32(got, float32(math.Abs(fa))) {
			bad("Abs", "wrong-value", "Abs(%s)=%s", fmtf(fa), fmtf(float64(got)))
		}
		if got := math32.Copysign(a, b); math.Float32bits(got) != math.Float32bits(a)&^(1<<31)|math.Float32bits(b)&(1<<31) {
			bad("Copysign", "wrong-value", "Copysign(%v,%v)=%v", a, b, got)
		}
		if got := math32.Signbit(a); got != math.Signbit(fa) {
			bad("Signbit", "wrong-value", "Signbit(%s)=%v", fmtf(fa), got)
		}
		if got := math32.IsNaN(a); got != (fa != fa) {
			bad("IsNaN", "wrong-value", "IsNaN(%v)=%v", a, got)
		}
		for _, sgn := range []int{-1, 0, 1} {
			if got := math32.IsInf(a, sgn); got != math.IsInf(fa, sgn) {
				bad("IsInf", "wrong-value", "IsInf(%v,%d)=%v", a, sgn, got)
			}
			if got := math32.Inf(sgn); !math.IsInf(float64(got), 0) || (sgn < 0) != (got < 0) {
				bad("Inf", "wrong-value", "Inf(%d)=%v", sgn, got)
			}
		}
		if got := math32.NaN(); got == got {
			bad("NaN", "wrong-value", "NaN()=%v", got)
		}
		// Max / Min: documented special cases = those of math.Max / math.Min
		if got, want := math32.Max(a, b), float32(math.Max(fa, fb)); !same32(got, want) {
			bad("Max", "wrong-value", "Max(%s,%s)=%s want %s", fmtf(fa), fmtf(fb), fmtf(float64(got)), fmtf(float64(want)))
		}
		if got, want := math32.Min(a, b), float32(math.Min(fa, fb)); !same32(got, want) {
			bad("Min", "wrong-value", "Min(%s,%s)=%s want %s", fmtf(fa), fmtf(fb), fmtf(float64(got)), fmtf(float64(want)))
		}
		// Sqrt: correctly rounded (float64 sqrt of a float32 rounds to the same float32)
		if got, want := math32.Sqrt(a), float32(math.Sqrt(fa)); !same32(got, want) {
			bad("Sqrt", "not-correctly-rounded", "Sqrt(%s)=%s want %s", fmtf(fa), fmtf(float64(got)), fmtf(float64(want)))
		}
		// Hypot: special cases exactly; otherwise within hypot32Slack ulp of the float64 value
		got := float64(math32.Hypot(a, b))
		want := math.Hypot(fa, fb)
		switch {
		case !finiteF(want):
			if !sameF(got, want) {
				bad("Hypot", "special-case", "Hypot(%v,%v)=%v want %v", a, b, got, want)
			}
		default:
			tol := hypot32Slack*vrt.Eps32*want + 0x1p-149
			ok := math.Abs(got-want) <= tol
			if math.IsInf(got, 1) {
				// overflow is right when the true value (within the band) is beyond MaxFloat32
				ok = want+tol > math.MaxFloat32
			}
			if !ok {
				bad("Hypot", "outside-rounding-band", "Hypot(%v,%v)=%v want %v", a, b, got, want)
			}
		}
	}
	x.c.EvalN("math32|all-functions", 14*iters, true)
}

// hypot32Slack: p·sqrt(1+q²) in float32: q, q², 1+q², sqrt, product -> < 4 ulp.
const hypot32Slack = 8

// ---- internal/cmplx64 -------------------------------------------------------

// sqrt64Slack: cephes-style complex square root evaluated in float32:
// relative error of a few ulp of |result| (normwise).
const sqrt64Slack = 16

func runCmplx64(x *idxCtx, part int) {
	c := x.c
	r := c.RNG("cmplx64", part)
	iters := c.Pick(600, 3000)
	bad := func(fn, clause string, format string, args ...any) {
		x.bad("cmplx64."+fn, "any", clause, nil, format, args...)
	}
	for it := 0; it < iters; it++ {
		z := complex(pickF32(r), pickF32(r))
		if it%4 == 0 {
			z = complex(float32(r.Norm()), float32(r.Norm()))
		}
		zr, zi := float64(real(z)), float64(imag(z))
		if got, want := float64(cmplx64.Abs(z)), float64(math32.Hypot(real(z), imag(z))); !sameF(got, want) {
			bad("Abs", "not-Hypot", "Abs(%v)=%v", z, got)
		}
		if got := cmplx64.Conj(z); !same32(real(got), real(z)) || !same32(imag(got), -imag(z)) {
			bad("Conj", "wrong-value", "Conj(%v)=%v", z, got)
		}
		anyInf := math.IsInf(zr, 0) || math.IsInf(zi, 0)
		if got := cmplx64.IsInf(z); got != anyInf {
			bad("IsInf", "wrong-value", "IsInf(%v)=%v", z, got)
		}
		if got := cmplx64.IsNaN(z); got != (!anyInf && (zr != zr || zi != zi)) {
			bad("IsNaN", "wrong-value", "IsNaN(%v)=%v", z, got)
		}
		if !cmplx64.IsInf(cmplx64.Inf()) || !cmplx64.IsNaN(cmplx64.NaN()) {
			bad("Inf", "wrong-value", "Inf()/NaN() not recognised")
		}
		// Sqrt: finite inputs: right half plane, sign of imag follows imag(x), and w² ≈ z
		if finiteF(zr) && finiteF(zi) {
			if zi == 0 {
				// "imag(r) has the same sign as imag(x)": the port treats
				// imag(x) = -0 like +0 (as math/cmplx did when it was
				// ported); the sign of a zero is left out of the oracle.
				zi = 0
			}
			w := cmplx64.Sqrt(z)
			wr, wi := float64(real(w)), float64(imag(w))
			ref := cmplx.Sqrt(complex(zr, zi))
			tol := sqrt64Slack*vrt.Eps32*cmplx.Abs(ref) + 0x1p-149
			if ar := cmplx.Abs(ref); ar > 0 {
				// a subnormal input is halved / scaled with an absolute error of
				// one float32 subnormal step; d√z = dz / (2√z)
				tol += 4 * 0x1p-149 / (2 * ar)
			}
			if !(math.Abs(wr-real(ref)) <= tol && math.Abs(wi-imag(ref)) <= tol) {
				bad("Sqrt", "outside-rounding-band", "Sqrt(%v)=%v want %v", z, w, ref)
			}
			if wr < 0 || (wi != 0 && zi != 0 && math.Signbit(wi) != math.Signbit(zi)) {
				bad("Sqrt", "wrong-branch", "Sqrt(%v)=%v", z, w)
			}
		}
	}
	x.c.EvalN("cmplx64|all-functions", 7*iters, true)
}
