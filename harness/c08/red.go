package main

import (
	"fmt"
	"math"

	"gonum.org/v1/gonum/verifx/vrt"
)

// ---------------------------------------------------------------------------
// higher-precision reference accumulation
// ---------------------------------------------------------------------------

// acc sums terms in double-double (error-free transformations) and tracks
// the non-finite classes, so the expected value of a reduction does not
// depend on the summation order:
//
//	any NaN term, or +Inf and -Inf terms together -> NaN
//	only +Inf / only -Inf terms                  -> that infinity
//	otherwise                                     -> the exact sum (to ~1e-32 relative to Σ|t|)
type acc struct {
	hi, lo          float64
	abs             float64
	nan, pinf, ninf bool
	n               int
}

func twoSum(a, b float64) (s, e float64) {
	s = a + b
	bb := s - a
	e = (a - (s - bb)) + (b - bb)
	return
}

func (a *acc) class(t float64) {
	switch {
	case math.IsNaN(t):
		a.nan = true
	case t > 0:
		a.pinf = true
	default:
		a.ninf = true
	}
}

func (a *acc) add(t float64) {
	a.n++
	if !finiteF(t) {
		a.class(t)
		return
	}
	a.abs += math.Abs(t)
	s, e := twoSum(a.hi, t)
	a.hi = s
	a.lo += e
}

func (a *acc) addProd(x, y float64) {
	p := x * y
	if !finiteF(p) {
		a.n++
		a.class(p)
		return
	}
	e := math.FMA(x, y, -p)
	a.add(p)
	a.lo += e
}

// value returns the expected result and whether it is finite.
func (a *acc) value() (float64, bool) {
	switch {
	case a.nan || (a.pinf && a.ninf):
		return math.NaN(), false
	case a.pinf:
		return math.Inf(1), false
	case a.ninf:
		return math.Inf(-1), false
	}
	return a.hi + a.lo, true
}

// redSlack is the constant c in the (n+c)·u·Σ|terms| reduction band. The
// first-order bound for any summation order is (n-1)·u·Σ|t| plus one
// rounding per product; c = 4 leaves room for the second-order terms.
const redSlack = 4

// checkSum compares got against the accumulated reference within
// (terms+redSlack)·u·Σ|terms| + terms·tiny. exact demands equality (small
// integer class, where every order of evaluation is exact).
func (a *acc) check(got, u, tiny float64, exact bool) (bool, float64, string) {
	want, fin := a.value()
	if !fin {
		return sameF(got, want), want, "non-finite-class"
	}
	if !finiteF(got) {
		return false, want, "non-finite-class"
	}
	if exact {
		return got == want, want, "inexact-on-small-integers"
	}
	tol := float64(a.n+redSlack)*u*a.abs + float64(a.n+1)*tiny
	return math.Abs(got-want) <= tol, want, "outside-rounding-band"
}

func worse(c1, c2 string, ok1, ok2 bool) string {
	if !ok1 {
		return c1
	}
	return c2
}

// l2Slack / l2Factor: the scaled one-pass norm performs about four roundings
// per element inside the running sum of squares (s = a/scale, s*s, the
// multiply-add) whose effect on the result is halved by the square root, plus
// hypot for complex elements:  |err| <= (l2Factor·n + l2Slack)·u·norm.
// Largest ratio seen on the pinned tree over seeds {1,2,3,7,42}: see
// notes "l2_worst_ratio" in the evidence (well below 1% of this bound).
const (
	l2Factor = 2
	l2Slack  = 16
)

// l2ref returns sqrt(Σ v²) computed with exact scaling by a power of two and
// a double-double sum of squares; class handling: any NaN -> NaN, else any
// Inf -> +Inf.
func l2ref(v []float64) (want float64, finite bool) {
	hasInf := false
	mx := 0.0
	for _, x := range v {
		if math.IsNaN(x) {
			return math.NaN(), false
		}
		if math.IsInf(x, 0) {
			hasInf = true
		}
		if ax := math.Abs(x); ax > mx {
			mx = ax
		}
	}
	if hasInf {
		return math.Inf(1), false
	}
	if mx == 0 {
		return 0, true
	}
	_, e := math.Frexp(mx) // mx = f·2^e, f in [0.5,1)
	var a acc
	for _, x := range v {
		s := math.Ldexp(x, -e) // exact unless x is so far below mx that it cannot matter... keep exactness check
		if math.Ldexp(s, e) != x {
			// scaled value lost bits (x subnormal relative to mx): its square is < 2^-2000 of the sum.
			continue
		}
		a.addProd(s, s)
	}
	ss := a.hi + a.lo
	r := math.Sqrt(ss)
	// one Newton correction using the low part
	if r > 0 {
		res := math.FMA(-r, r, a.hi) + a.lo
		r += res / (2 * r)
	}
	return math.Ldexp(r, e), true
}

func l2check(got float64, v []float64, n int, u, tiny float64) (ok bool, want float64, clause string, ratio float64) {
	want, fin := l2ref(v)
	if !fin {
		return sameF(got, want), want, "non-finite-class", 0
	}
	if !finiteF(got) || (got == 0 && want > 4*tiny) {
		return false, want, "overflow-or-underflow", 0
	}
	tol := float64(l2Factor*n+l2Slack)*u*want + 4*tiny
	d := math.Abs(got - want)
	if tol > 0 {
		ratio = d / tol
	}
	return d <= tol, want, "outside-rounding-band", ratio
}

// ---------------------------------------------------------------------------
// reduction family engine
// ---------------------------------------------------------------------------

type redArgs[T num] struct {
	n    int
	x, y *buf[T]
}

type redKernel[T num] struct {
	name     string
	nsrc     int
	strided  bool
	negInc   bool
	maxExp   int
	l2       bool // 2-norm: add the extreme-scale classes
	cancel   bool // compensated sum: add the ill-conditioned class
	skip     map[vclass]bool
	intExact bool
	call     func(a *redArgs[T]) (re, im float64)
	// check returns ok, the reference and the failing clause.
	check func(n int, x, y []T, gr, gi float64, exact bool) (ok bool, wr, wi float64, clause string)
}

// extra value classes of the reduction engine
const (
	// vcRange (2-norm kernels only): all elements scaled to 1e±150 … 1e±300
	vcRange vclass = numVClass
	// vcInfHead: finite values with a single +Inf (real part) in the first
	// element of the last operand — the element that takes the
	// alignment-peeling path of the SIMD kernels; run at every start offset.
	vcInfHead vclass = numVClass + 1
	// vcCancel (compensated sums only): large values 2^20..2^40 in pairs
	// (a, -a) shuffled among O(1) values: the sum is ill conditioned
	// (Σ|x| ≫ |Σx|), which separates compensated from plain summation.
	vcCancel vclass = numVClass + 2
	// vcMix: finite values with two or three non-finite elements of
	// DIFFERENT kinds at controlled positions and in a controlled order
	// (+Inf then NaN, NaN then +Inf, +Inf then -Inf, -Inf then NaN, two Inf
	// then NaN, ...), the positions drawn from the alignment-peel prefix
	// (0, 1), the unrolled body (3, 4, 7, 8, n/2) and the tail (n-5, n-2,
	// n-1); for two-operand routines the two specials go to the same operand
	// or one to each, for complex types to the real or imaginary component
	// (or both components of one element). The expected class (NaN / +Inf /
	// -Inf) follows from the scalar definition and does not depend on the
	// order; an implementation that stops at the first special it meets
	// does.
	vcMix vclass = numVClass + 3
)

// className names the engine-specific classes too.
func className(vc vclass) string {
	switch vc {
	case vcRange:
		return "extreme-scale"
	case vcInfHead:
		return "Inf-first-element"
	case vcCancel:
		return "cancelling-pairs"
	case vcMix:
		return "mixed-non-finite"
	}
	if int(vc) < len(vclassNames) {
		return vclassNames[vc]
	}
	return "class?"
}

var mixKinds = [...][3]float64{
	{math.Inf(1), math.NaN(), 0},
	{math.NaN(), math.Inf(1), 0},
	{math.Inf(1), math.Inf(-1), 0},
	{math.Inf(-1), math.Inf(1), 0},
	{math.Inf(-1), math.NaN(), 0},
	{math.NaN(), math.Inf(-1), 0},
	{math.Inf(1), math.NaN(), 1}, // with a further +Inf between the two
	{math.NaN(), math.Inf(1), 1}, // with a further +Inf between the two
}

// applyMix plants pattern number m into x (and y). It returns a description.
func applyMix[T num](x, y []T, m int) string {
	n := len(x)
	if n == 0 {
		return "empty"
	}
	// candidate positions, ascending and distinct
	var pos []int
	for _, p := range []int{0, 1, 3, 4, 7, 8, n / 2, n - 5, n - 2, n - 1} {
		if p < 0 || p >= n {
			continue
		}
		dup := false
		for _, q := range pos {
			dup = dup || q == p
		}
		if !dup {
			pos = append(pos, p)
		}
	}
	for i := 1; i < len(pos); i++ {
		for j := i; j > 0 && pos[j] < pos[j-1]; j-- {
			pos[j], pos[j-1] = pos[j-1], pos[j]
		}
	}
	kind := mixKinds[m%len(mixKinds)]
	split := (m / 3) % 4
	if y == nil {
		split = 0
	}
	imag := isComplex[T]() && (m/5)%2 == 1
	set := func(first bool, idx int, v float64) {
		// which operand: split 0: last operand, 1: x, 2: first->x second->last, 3: first->last second->x
		dst := x
		if y != nil {
			switch split {
			case 0:
				dst = y
			case 2:
				if !first {
					dst = y
				}
			case 3:
				if first {
					dst = y
				}
			}
		}
		re, im := parts(dst[idx])
		if imag {
			im = v
		} else {
			re = v
		}
		dst[idx] = fromParts[T](re, im)
	}
	if len(pos) == 1 {
		if isComplex[T]() {
			// both specials in the two components of the only element
			dst := x
			if y != nil && split != 1 {
				dst = y
			}
			dst[0] = fromParts[T](kind[0], kind[1])
			return fmt.Sprintf("one element (%v,%v)", kind[0], kind[1])
		}
		set(true, 0, kind[m/8%2])
		return fmt.Sprintf("single %v", kind[m/8%2])
	}
	// ordered pair i < j
	np := len(pos) * (len(pos) - 1) / 2
	pi := (m/len(mixKinds) + m*5) % np
	i, j := 0, 1
	for c := 0; ; c++ {
		if c == pi {
			break
		}
		j++
		if j == len(pos) {
			i++
			j = i + 1
		}
	}
	set(true, pos[i], kind[0])
	set(false, pos[j], kind[1])
	desc := fmt.Sprintf("%v@%d then %v@%d split=%d imag=%v", kind[0], pos[i], kind[1], pos[j], split, imag)
	if kind[2] == 1 && pos[j]-pos[i] > 1 {
		mid := (pos[i] + pos[j]) / 2
		set(true, mid, math.Inf(1))
		desc += fmt.Sprintf(" +Inf@%d", mid)
	}
	return desc
}

// nfCode maps a result component to its non-finite class (0 = finite): the
// cross-build join of reductions on non-finite inputs compares classes, not
// rounded finite values.
func nfCode(bits uint64) uint64 {
	if finiteF(math.Float64frombits(bits)) {
		return 0
	}
	return bits
}

func genCancel[T num](r *vrt.Rand, n int) []T {
	v := make([]float64, n)
	for i := range v {
		v[i] = r.Sym()
	}
	for i := 0; i+1 < n-n/3; i += 2 {
		a := math.Ldexp(1+r.Float64(), r.Range(20, 40))
		v[i], v[i+1] = a, -a
	}
	r.Shuffle(n, func(i, j int) { v[i], v[j] = v[j], v[i] })
	out := make([]T, n)
	for i := range out {
		out[i] = fromParts[T](v[i], 0)
	}
	return out
}

func genRange[T num](r *vrt.Rand, n int, idx int) []T {
	exps := []float64{150, -150, 200, -200, 250, -250, 300, -300}
	if isSingle[T]() {
		exps = []float64{18, -18, 25, -25, 30, -30, 37, -37}
	}
	sc := math.Pow(10, exps[idx%len(exps)])
	if n > 64 && sc > 1 {
		// keep sqrt(n)·scale representable for the long vectors
		sc /= math.Sqrt(float64(n)) / 8
	}
	out := make([]T, n)
	for i := range out {
		re := r.Sym() * sc
		im := 0.0
		if isComplex[T]() {
			im = r.Sym() * sc
		}
		out[i] = fromParts[T](re, im)
	}
	return out
}

var l2WorstRatio struct {
	mu    chan struct{}
	ratio float64
}

func init() { l2WorstRatio.mu = make(chan struct{}, 1) }

func noteRatio(r float64) {
	l2WorstRatio.mu <- struct{}{}
	if r > l2WorstRatio.ratio {
		l2WorstRatio.ratio = r
	}
	<-l2WorstRatio.mu
}

func runRed[T num](c *vrt.Ctx, k *redKernel[T], n int, reduced bool) {
	t := newTally(c)
	defer t.flush()
	r := c.RNG("red|"+k.name, n)
	dg := newDigester()
	defer dg.flush(c)
	incs := []incTriple{{1, 1, 1}}
	if k.strided {
		incs = incList(c, 0, k.negInc)
		// only (x,y) matter here: use the d/x columns as x/y
	}
	pls := placements(n)
	classes := []vclass{vcUniform, vcInt, vcZero, vcSubnormal, vcHugeTiny, vcNaN, vcInf}
	if !k.skip[vcInf] {
		classes = append(classes, vcInfHead)
	}
	if !k.skip[vcInf] && !k.skip[vcNaN] {
		classes = append(classes, vcMix)
	}
	if k.l2 {
		classes = append(classes, vcRange)
	}
	if k.cancel {
		classes = append(classes, vcCancel)
	}
	maxExp := k.maxExp
	mixCtr := n * 13
	if reduced {
		if len(incs) > 3 {
			incs = []incTriple{{1, 1, 1}, {2, 3, 1}, {3, 1, 2}}
		}
		pls = []placement{pls[0], pls[5], pls[8], pls[9]}
		classes = []vclass{vcUniform, vcInt, vcHugeTiny}
		if k.l2 {
			classes = append(classes, vcRange)
		}
		maxExp -= 40
	}
	for ii, it := range incs {
		for _, vc := range classes {
			if k.skip[vc] {
				continue
			}
			reps := 1
			switch vc {
			case vcRange:
				reps = 8
				if len(incs) > 1 {
					reps = 2
				}
			case vcMix:
				// unit-stride routines have a single increment tuple: more patterns per placement
				reps = c.Pick(4, 12)
				if len(incs) > 1 {
					reps = c.Pick(1, 3)
				}
			}
			for rep := 0; rep < reps; rep++ {
				for _, pl := range casePlacements(c, pls, vc, n, ii+rep) {
					arg := rep + n
					if vc == vcMix {
						arg = mixCtr
						mixCtr++
					}
					dig, ok := runRedCase(c, t, r, k, n, it, vc, pl, maxExp, arg)
					path := "unit"
					if k.strided {
						path = "strided"
						if it.d < 0 || (k.nsrc >= 2 && it.x < 0) {
							path = "strided-neg"
						}
					}
					switch {
					case vc == vcInt && k.intExact:
						dg.add(fmt.Sprintf("%s|%s|n=%d", k.name, path, n), dig, ok)
					case vc == vcNaN || vc == vcInf || vc == vcInfHead || vc == vcMix:
						// the class (finite / NaN / +Inf / -Inf) of a reduction over
						// non-finite input is defined by the scalar loop: builds must agree
						var cl []uint64
						for _, b := range dig {
							cl = append(cl, nfCode(b))
						}
						dg.add(fmt.Sprintf("%s|%s|n=%d|non-finite-class", k.name, path, n), cl, ok)
					}
				}
			}
		}
	}
}

func runRedCase[T num](c *vrt.Ctx, t *tally, r *vrt.Rand, k *redKernel[T], n int, it incTriple, vc vclass, pl placement, maxExp, rep int) ([]uint64, bool) {
	a := &redArgs[T]{n: n}
	mkvals := func(last bool) []T {
		switch vc {
		case vcRange:
			return genRange[T](r, n, rep)
		case vcCancel:
			return genCancel[T](r, n)
		case vcInfHead:
			v := gen[T](r, vcUniform, n, maxExp)
			if last && n > 0 {
				_, im := parts(v[0])
				v[0] = fromParts[T](math.Inf(1), im)
			}
			return v
		}
		return gen[T](r, vc, n, maxExp)
	}
	mixNote := ""
	var xv, yv []T
	if vc == vcMix {
		xv = gen[T](r, vcUniform, n, maxExp)
		if k.nsrc >= 2 {
			yv = gen[T](r, vcUniform, n, maxExp)
		}
		mixNote = applyMix(xv, yv, rep)
	} else {
		xv = mkvals(k.nsrc < 2)
		if k.nsrc >= 2 {
			yv = mkvals(true)
		}
	}
	a.x = newBuf(xv, pl.offD, it.d, pl.mode)
	defer a.x.release()
	if k.nsrc >= 2 {
		a.y = newBuf(yv, pl.offX, it.x, pl.mode)
		defer a.y.release()
	}
	if pl.useBase && k.strided {
		a.x.base = a.x.off
		if a.y != nil {
			a.y.base = a.y.off
		}
	}
	path := "unit"
	if k.strided {
		path = "strided"
		if it.d < 0 || (k.nsrc >= 2 && it.x < 0) {
			path = "strided-neg"
		}
	}
	vcName := className(vc)
	key := k.name + "|" + path + "|" + pl.mode.String() + "|" + vcName + "|" + nClass(n)
	mk := func(note string, got, want any) *replay {
		return &replay{Routine: k.name, N: n, Inc: []int{it.d, it.x}, Off: []int{pl.offD, pl.offX}, Place: pl.mode.String(),
			Class: vcName, X: xv, Y: yv, Note: note + mixNote, Got: got, Want: want}
	}
	if c.WantSample() && n > 2 && n < 8 && vc == vcHugeTiny {
		c.Sample(mk("sample input", nil, nil))
	}
	c.LastCase(key + fmt.Sprintf(" n=%d inc=%v", n, it))
	var gr, gi float64
	p := vrt.Try(func() { gr, gi = k.call(a) })
	t.eval(key, n > 0)
	if p != nil {
		clause := "panic"
		if p.Fault {
			clause = "memory-fault-outside-operand"
		} else if p.Runtime {
			clause = "runtime-panic"
		}
		c.Violationf(k.name+"|"+path+"|"+clause, mk(p.Msg, nil, nil), "%s n=%d inc=%v %s %s: %s\n%s", k.name, n, it, pl.mode, vcName, p.Msg, p.Stack)
		return nil, false
	}
	for i, b := range []*buf[T]{a.x, a.y} {
		if b == nil {
			continue
		}
		if pos := b.firstTouched(false); pos >= 0 {
			c.Violationf(k.name+"|"+path+"|modified-source", mk("", b.arr[pos], b.snap[pos]),
				"%s n=%d inc=%v %s: array position %d of operand %d changed", k.name, n, it, pl.mode, pos, i)
			return nil, false
		}
	}
	ok, wr, wi, clause := k.check(n, xv, yv, gr, gi, vc == vcInt && k.intExact)
	if !ok {
		c.Violationf(k.name+"|"+path+"|"+clause, mk("", []float64{gr, gi}, []float64{wr, wi}),
			"%s n=%d inc=%v off=%d/%d %s %s %s: got (%s,%s), reference (%s,%s)", k.name, n, it, pl.offD, pl.offX, pl.mode, vcName, mixNote, fmtf(gr), fmtf(gi), fmtf(wr), fmtf(wi))
		return nil, false
	}
	return []uint64{canonBits(gr + 0), canonBits(gi + 0)}, true
}

// ---------------------------------------------------------------------------
// checks
// ---------------------------------------------------------------------------

func reals[T num](x []T) []float64 {
	out := make([]float64, 0, 2*len(x))
	cx := isComplex[T]()
	for _, v := range x {
		r, i := parts(v)
		out = append(out, r)
		if cx {
			out = append(out, i)
		}
	}
	return out
}

// hypotClass folds the modulus rule of complex elements into the component
// list used by l2ref: |z| is +Inf when either component is infinite (even
// if the other is NaN), NaN when a component is NaN otherwise. The pair is
// replaced by (Inf, 0) resp. left alone.
func hypotClass(v []float64) {
	for i := 0; i+1 < len(v); i += 2 {
		if math.IsInf(v[i], 0) || math.IsInf(v[i+1], 0) {
			v[i], v[i+1] = math.Inf(1), 0
		}
	}
}

// sum of elements (real or complex)
func checkSum[T num](u float64) func(n int, x, y []T, gr, gi float64, exact bool) (bool, float64, float64, string) {
	return func(n int, x, y []T, gr, gi float64, exact bool) (bool, float64, float64, string) {
		var ar, ai acc
		for _, v := range x {
			r, i := parts(v)
			ar.add(r)
			ai.add(i)
		}
		ok1, wr, c1 := ar.check(gr, u, 0, exact)
		ok2, wi, c2 := ai.check(gi, u, 0, exact)
		return ok1 && ok2, wr, wi, worse(c1, c2, ok1, ok2)
	}
}

func checkAbsSum[T num](u float64) func(n int, x, y []T, gr, gi float64, exact bool) (bool, float64, float64, string) {
	return func(n int, x, y []T, gr, gi float64, exact bool) (bool, float64, float64, string) {
		var ar acc
		for _, v := range x {
			r, _ := parts(v)
			ar.add(math.Abs(r))
		}
		ok, wr, cl := ar.check(gr, u, 0, exact)
		return ok && gi == 0, wr, 0, cl
	}
}

// real dot Σ x·y accumulated at roundoff u (products of float32 inputs are
// exact in float64; tiny is the absolute error of an underflowing product).
func checkDotR[T num](u, tiny float64) func(n int, x, y []T, gr, gi float64, exact bool) (bool, float64, float64, string) {
	return func(n int, x, y []T, gr, gi float64, exact bool) (bool, float64, float64, string) {
		var ar acc
		for i, v := range x {
			xr, _ := parts(v)
			yr, _ := parts(y[i])
			ar.addProd(xr, yr)
		}
		ok, wr, cl := ar.check(gr, u, tiny, exact)
		return ok && gi == 0, wr, 0, cl
	}
}

// complex dot Σ y·x (conj=false) or Σ y·conj(x) (conj=true)
func checkDotC[T num](conj bool) func(n int, x, y []T, gr, gi float64, exact bool) (bool, float64, float64, string) {
	u, tiny := unitRoundoff[T](), tinyOf[T]()
	return func(n int, x, y []T, gr, gi float64, exact bool) (bool, float64, float64, string) {
		var ar, ai acc
		for i, v := range x {
			xr, xi := parts(v)
			yr, yi := parts(y[i])
			if conj {
				xi = -xi
			}
			ar.addProd(yr, xr)
			ar.addProd(-yi, xi)
			ai.addProd(yr, xi)
			ai.addProd(yi, xr)
		}
		ok1, wr, c1 := ar.check(gr, u, tiny, exact)
		ok2, wi, c2 := ai.check(gi, u, tiny, exact)
		return ok1 && ok2, wr, wi, worse(c1, c2, ok1, ok2)
	}
}

func checkL2[T num]() func(n int, x, y []T, gr, gi float64, exact bool) (bool, float64, float64, string) {
	u, tiny := unitRoundoff[T](), tinyOf[T]()
	return func(n int, x, y []T, gr, gi float64, exact bool) (bool, float64, float64, string) {
		v := reals(x)
		if isComplex[T]() {
			hypotClass(v)
		}
		ok, want, clause, ratio := l2check(gr, v, len(v), u, tiny)
		noteRatio(ratio)
		return ok && gi == 0, want, 0, clause
	}
}

// L2 distance: the element differences are rounded once in the working
// precision (that is the documented scalar step v -= y[i]); the norm of the
// rounded differences is then held to the 2-norm band.
func checkL2Dist[T num]() func(n int, x, y []T, gr, gi float64, exact bool) (bool, float64, float64, string) {
	u, tiny := unitRoundoff[T](), tinyOf[T]()
	single := isSingle[T]()
	return func(n int, x, y []T, gr, gi float64, exact bool) (bool, float64, float64, string) {
		xs, ys := reals(x), reals(y)
		d := make([]float64, len(xs))
		for i := range xs {
			d[i] = xs[i] - ys[i]
			if single {
				d[i] = float64(float32(xs[i]) - float32(ys[i]))
			}
		}
		if isComplex[T]() {
			hypotClass(d)
		}
		ok, want, clause, ratio := l2check(gr, d, len(d), u, tiny)
		noteRatio(ratio)
		return ok && gi == 0, want, 0, clause
	}
}

func checkL1Dist(n int, x, y []float64, gr, gi float64, exact bool) (bool, float64, float64, string) {
	var ar acc
	for i := range x {
		ar.add(math.Abs(y[i] - x[i]))
	}
	ok, wr, cl := ar.check(gr, vrt.Eps64, 0, exact)
	return ok, wr, 0, cl
}

func checkLinfDist(n int, x, y []float64, gr, gi float64, exact bool) (bool, float64, float64, string) {
	want := 0.0
	for i := range x {
		if d := math.Abs(y[i] - x[i]); d > want {
			want = d
		}
	}
	return gr == want, want, 0, "not-the-maximum"
}
