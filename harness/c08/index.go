package main

import (
	"fmt"
	"math"
	"math/big"
	"math/cmplx"
	"sort"

	"gonum.org/v1/gonum/cmplxs"
	"gonum.org/v1/gonum/floats"
	"gonum.org/v1/gonum/verifx/vrt"
)

// Search / ordering helpers of floats and cmplxs against a direct
// transcription of their documented rules. All of them are plain Go in every
// build, so the point is the rule (ties, NaN, ±Inf, boundaries), swept over
// lengths 0..70, offsets into a tainted array and tie-rich value sets.

// tieVals draws n values from a small set so that ties are frequent; kind
// selects what special values are mixed in.
func tieVals(r *vrt.Rand, n, kind int) []float64 {
	pool := []float64{-2, -1, -0.5, 0, 0.5, 1, 2, 3}
	switch kind {
	case 1:
		pool = append(pool, math.Copysign(0, -1), 0x1p-1074, -0x1p-1074)
	case 2:
		pool = append(pool, math.Inf(1), math.Inf(-1))
	case 3:
		pool = append(pool, math.NaN(), math.NaN())
	case 4:
		pool = append(pool, math.NaN(), math.Inf(1), math.Inf(-1), math.Copysign(0, -1))
	case 5:
		pool = []float64{math.NaN()}
	case 6:
		pool = nil
	}
	s := make([]float64, n)
	for i := range s {
		if pool == nil {
			s[i] = r.Norm()
		} else {
			s[i] = pool[r.Intn(len(pool))]
		}
	}
	return s
}

var tieKindNames = []string{"ties", "ties+signed-zero", "ties+Inf", "ties+NaN", "ties+NaN+Inf", "all-NaN", "distinct"}

// inArray copies s to a start offset of a NaN-tainted array and returns the
// window plus a function that verifies the surrounding words.
func inArray(s []float64, off int) (win []float64, intact func() bool) {
	arr := make([]float64, off+len(s)+5)
	vrt.FillTaint(arr)
	copy(arr[off:], s)
	snap := vrt.Bits(arr)
	return arr[off : off+len(s) : off+len(s)], func() bool {
		return vrt.FirstBitDiff(arr, snap, func(i int) bool { return i >= off && i < off+len(s) }) < 0
	}
}

type idxCtx struct {
	c *vrt.Ctx
	t *tally
}

func (x *idxCtx) bad(routine, class, clause string, rp any, format string, args ...any) {
	x.c.Violationf(routine+"|"+class+"|"+clause, rp, "%s: %s", routine, fmt.Sprintf(format, args...))
}

func addIndex(c *vrt.Ctx, ts *[]task) {
	for n := 0; n <= 70; n++ {
		n := n
		*ts = append(*ts, task{"index", 2*n + 10, func() {
			x := &idxCtx{c, newTally(c)}
			defer x.t.flush()
			runIndexFloats(x, n)
			runIndexCmplxs(x, n)
			runSpan(x, n)
		}})
	}
	*ts = append(*ts, task{"index.span-large", 200, func() {
		x := &idxCtx{c, newTally(c)}
		defer x.t.flush()
		for _, n := range []int{100, 1000, 4097, 10000} {
			runSpan(x, n)
		}
	}})
}

// ---- reference rules -------------------------------------------------------

// first index of the maximum (minimum) among the non-NaN entries; -1 if all NaN.
func refExtIdx(s []float64, max bool) int {
	idx := -1
	for i, v := range s {
		if v != v {
			continue
		}
		if idx < 0 || (max && v > s[idx]) || (!max && v < s[idx]) {
			idx = i
		}
	}
	return idx
}

// NearestIdx: lowest index of the smallest float64 distance |v - s[i]|;
// NaN distances never win; v = ±Inf selects the maximum / minimum; v NaN -> 0.
func refNearest(s []float64, v float64) int {
	switch {
	case v != v:
		return 0
	case math.IsInf(v, 1):
		if i := refExtIdx(s, true); i >= 0 {
			return i
		}
		return 0
	case math.IsInf(v, -1):
		if i := refExtIdx(s, false); i >= 0 {
			return i
		}
		return 0
	}
	idx, best := 0, math.NaN()
	for i, e := range s {
		d := math.Abs(v - e)
		if d != d {
			continue
		}
		if best != best || d < best {
			best, idx = d, i
		}
	}
	return idx
}

func refWithin(s []float64, v float64) int {
	for i := 0; i+1 < len(s); i++ {
		if s[i] <= v && v < s[i+1] {
			return i
		}
	}
	return -1
}

func tryPanics(f func()) (msg string, panicked bool) {
	p := vrt.Try(f)
	if p == nil {
		return "", false
	}
	return p.Msg, true
}

func runIndexFloats(x *idxCtx, n int) {
	c := x.c
	r := c.RNG("index.floats", n)
	reps := c.Pick(3, 12)
	for kind := 0; kind < len(tieKindNames); kind++ {
		cls := tieKindNames[kind]
		for rep := 0; rep < reps; rep++ {
			off := r.Intn(8)
			vals := tieVals(r, n, kind)
			s, intact := inArray(vals, off)
			rp := map[string]any{"s": vals, "off": off}
			ev := func(name string) { x.t.eval(name+"|"+cls+"|"+nClass(n), n > 0) }

			// --- MaxIdx / MinIdx / Max / Min
			for _, mx := range []bool{true, false} {
				name := "floats.MinIdx"
				f, fv := floats.MinIdx, floats.Min
				if mx {
					name, f, fv = "floats.MaxIdx", floats.MaxIdx, floats.Max
				}
				var got int
				msg, pan := tryPanics(func() { got = f(s) })
				ev(name)
				if n == 0 {
					if !pan {
						x.bad(name, "empty", "no-panic-on-empty-slice", rp, "returned %d for an empty slice", got)
					}
					continue
				}
				if pan {
					x.bad(name, cls, "panic", rp, "panicked: %s", msg)
					continue
				}
				want := refExtIdx(s, mx)
				if want < 0 {
					if got < 0 || got >= n {
						x.bad(name, cls, "index-out-of-range", rp, "got %d", got)
					}
				} else if got != want {
					x.bad(name, cls, "not-first-extremum", rp, "got %d want %d in %v", got, want, vals)
				}
				var gv float64
				_, pan = tryPanics(func() { gv = fv(s) })
				ev(name[:10])
				if pan || (got >= 0 && got < n && !sameF(gv, s[got])) {
					x.bad(name[:10], cls, "value-is-not-element-at-idx", rp, "got %v", gv)
				}
			}

			// --- NearestIdx
			for q := 0; q < 6; q++ {
				var v float64
				switch q {
				case 0:
					v = math.NaN()
				case 1:
					v = math.Inf(1)
				case 2:
					v = math.Inf(-1)
				case 3:
					v = float64(r.Range(-5, 7)) / 2 // on elements and exactly half-way between them
				case 4:
					v = r.Norm() * 2
				case 5:
					v = float64(r.Range(-9, 11)) / 4
				}
				var got int
				msg, pan := tryPanics(func() { got = floats.NearestIdx(s, v) })
				ev("floats.NearestIdx")
				qcls := cls + [...]string{"|v=NaN", "|v=+Inf", "|v=-Inf", "|v=finite", "|v=finite", "|v=finite"}[q]
				if n == 0 {
					if !pan {
						x.bad("floats.NearestIdx", "empty", "no-panic-on-empty-slice", rp, "returned %d", got)
					}
					continue
				}
				if pan {
					x.bad("floats.NearestIdx", qcls, "panic", rp, "v=%v: %s", v, msg)
					continue
				}
				if want := refNearest(s, v); got != want {
					x.bad("floats.NearestIdx", qcls, "not-lowest-nearest-index", rp, "v=%v got %d want %d in %v", v, got, want, vals)
				}
			}

			// --- Within (sorted input, no NaN)
			if kind != 3 && kind != 4 && kind != 5 {
				sorted := append([]float64(nil), vals...)
				sort.Float64s(sorted)
				ss, _ := inArray(sorted, off)
				for q := 0; q < 5; q++ {
					var v float64
					switch q {
					case 0:
						v = math.NaN()
					case 1:
						if n > 0 {
							v = sorted[r.Intn(n)]
						}
					case 2:
						if n > 0 {
							v = sorted[n-1]
						}
					case 3:
						v = float64(r.Range(-10, 14)) / 4
					case 4:
						v = math.Inf(r.PickInt(-1, 1))
					}
					var got int
					_, pan := tryPanics(func() { got = floats.Within(ss, v) })
					ev("floats.Within")
					if n < 2 {
						if !pan {
							x.bad("floats.Within", "short", "no-panic-on-short-slice", rp, "n=%d returned %d", n, got)
						}
						continue
					}
					if pan {
						x.bad("floats.Within", cls, "panic-on-sorted-input", rp, "v=%v s=%v", v, sorted)
						continue
					}
					if want := refWithin(ss, v); got != want {
						x.bad("floats.Within", cls, "not-first-bracketing-index", rp, "v=%v got %d want %d in %v", v, got, want, sorted)
					}
				}
				if n >= 2 && sorted[0] != sorted[n-1] {
					// strictly unsorted input must panic
					rev := append([]float64(nil), sorted...)
					for i, j := 0, n-1; i < j; i, j = i+1, j-1 {
						rev[i], rev[j] = rev[j], rev[i]
					}
					_, pan := tryPanics(func() { floats.Within(rev, 0) })
					ev("floats.Within")
					if !pan {
						x.bad("floats.Within", "unsorted", "no-panic-on-unsorted-slice", rp, "s=%v", rev)
					}
				}
			}

			// --- Argsort / ArgsortStable (NaN-free: '<' is not an order otherwise)
			if kind != 3 && kind != 4 && kind != 5 {
				for _, stable := range []bool{false, true} {
					name := "floats.Argsort"
					f := floats.Argsort
					if stable {
						name, f = "floats.ArgsortStable", floats.ArgsortStable
					}
					d, dIntact := inArray(vals, off)
					inds := make([]int, n+2)
					for i := range inds[:n] {
						inds[i] = -5 - i // dirty: Argsort must overwrite, not rely on zeroed storage
					}
					inds[n], inds[n+1] = -77, -78
					msg, pan := tryPanics(func() { f(d, inds[:n]) })
					ev(name)
					if pan {
						x.bad(name, cls, "panic", rp, "%s", msg)
						continue
					}
					if !dIntact() || inds[n] != -77 || inds[n+1] != -78 {
						x.bad(name, cls, "wrote-outside-destination", rp, "storage outside dst/inds changed")
						continue
					}
					seen := make([]bool, n)
					ok := true
					why := ""
					for i := 0; i < n && ok; i++ {
						j := inds[i]
						switch {
						case j < 0 || j >= n || seen[j]:
							ok, why = false, "inds is not a permutation"
						case math.Float64bits(d[i]) != math.Float64bits(vals[j]):
							ok, why = false, "dst[i] != orig[inds[i]]"
						case i > 0 && d[i-1] > d[i]:
							ok, why = false, "dst not in increasing order"
						case stable && i > 0 && d[i-1] == d[i] && inds[i-1] > inds[i]:
							ok, why = false, "equal elements out of original order"
						}
						if ok {
							seen[j] = true
						}
					}
					if !ok {
						clause := "not-a-sorting-permutation"
						if why == "equal elements out of original order" {
							clause = "not-stable"
						}
						x.bad(name, cls, clause, rp, "%s: vals=%v dst=%v inds=%v", why, vals, d, inds[:n])
					}
				}
				// length mismatch must panic
				_, pan := tryPanics(func() { floats.Argsort(make([]float64, n), make([]int, n+1)) })
				ev("floats.Argsort")
				if !pan {
					x.bad("floats.Argsort", "length-mismatch", "no-panic", rp, "n=%d", n)
				}
			}

			// --- Reverse
			{
				d, dIntact := inArray(vals, off)
				floats.Reverse(d)
				ev("floats.Reverse")
				ok := dIntact()
				for i := 0; i < n && ok; i++ {
					ok = math.Float64bits(d[i]) == math.Float64bits(vals[n-1-i])
				}
				if !ok {
					x.bad("floats.Reverse", cls, "not-reversed", rp, "vals=%v got=%v", vals, d)
				}
			}

			// --- Find / Count
			{
				pred := func(v float64) bool { return v > 0.25 }
				var wantAll []int
				for i, v := range s {
					if pred(v) {
						wantAll = append(wantAll, i)
					}
				}
				if got := floats.Count(pred, s); got != len(wantAll) {
					x.bad("floats.Count", cls, "wrong-count", rp, "got %d want %d", got, len(wantAll))
				}
				ev("floats.Count")
				for _, k := range []int{-1, 0, 1, 2, len(wantAll), len(wantAll) + 1, n + 3} {
					var inds []int
					if r.Bool() {
						inds = make([]int, r.Intn(4), 8)
					}
					got, err := floats.Find(inds, pred, s, k)
					ev("floats.Find")
					want := wantAll
					wantErr := false
					switch {
					case k == 0:
						want = nil
					case k > 0 && k <= len(wantAll):
						want = wantAll[:k]
					case k > len(wantAll):
						wantErr = true
					}
					kc := "k<0"
					if k == 0 {
						kc = "k=0"
					} else if k > 0 {
						kc = "k>0"
						if wantErr {
							kc = "k>found"
						}
					}
					if (err != nil) != wantErr {
						x.bad("floats.Find", kc, "error-presence", rp, "k=%d found=%d err=%v", k, len(wantAll), err)
					}
					if fmt.Sprint(got) != fmt.Sprint(append([]int{}, want...)) {
						x.bad("floats.Find", kc, "wrong-indices", rp, "k=%d got %v want %v", k, got, want)
					}
				}
			}

			// --- Equal / Same / HasNaN / EqualFunc / EqualLengths / EqualApprox
			{
				other := append([]float64(nil), vals...)
				mode := r.Intn(4)
				switch {
				case mode == 1 && n > 0: // flip a zero sign or a NaN payload: still Equal-as-numbers / Same
					i := r.Intn(n)
					if other[i] == 0 {
						other[i] = -other[i]
					}
				case mode == 2 && n > 0:
					other[r.Intn(n)] = 17
				case mode == 3:
					other = append(other, 1)
				}
				o, _ := inArray(other, (off+3)&7)
				wantEq, wantSame, wantNaN := len(o) == n, len(o) == n, false
				for i := 0; i < n; i++ {
					if s[i] != s[i] {
						wantNaN = true
					}
					if i < len(o) {
						if s[i] != o[i] {
							wantEq = false
							if !(s[i] != s[i] && o[i] != o[i]) {
								wantSame = false
							}
						}
					}
				}
				if got := floats.Equal(s, o); got != wantEq {
					x.bad("floats.Equal", cls, "wrong-answer", rp, "got %v want %v other=%v", got, wantEq, other)
				}
				if got := floats.Same(s, o); got != wantSame {
					x.bad("floats.Same", cls, "wrong-answer", rp, "got %v want %v other=%v", got, wantSame, other)
				}
				if got := floats.HasNaN(s); got != wantNaN {
					x.bad("floats.HasNaN", cls, "wrong-answer", rp, "got %v want %v", got, wantNaN)
				}
				calls := 0
				gotF := floats.EqualFunc(s, o, func(a, b float64) bool { calls++; return a == b })
				if gotF != wantEq || (len(o) != n && calls != 0) {
					x.bad("floats.EqualFunc", cls, "wrong-answer", rp, "got %v want %v calls=%d", gotF, wantEq, calls)
				}
				if got := floats.EqualLengths(s, o, s); got != (len(o) == n) {
					x.bad("floats.EqualLengths", cls, "wrong-answer", rp, "got %v", got)
				}
				if !floats.EqualLengths() || !floats.EqualLengths(s) {
					x.bad("floats.EqualLengths", cls, "wrong-answer", rp, "no / one argument must be true")
				}
				// EqualApprox: tolerance far from every boundary of the rule
				appr := append([]float64(nil), vals...)
				wantAp := true
				for i := range appr {
					if appr[i] != appr[i] {
						wantAp = false // NaN is never within tolerance
						continue
					}
					if math.IsInf(appr[i], 0) {
						continue
					}
					switch r.Intn(6) {
					case 0:
						appr[i] += 1e-9 * (1 + math.Abs(appr[i]))
					case 1:
						if r.Intn(4) == 0 {
							appr[i] += 1e-3 * (1 + math.Abs(appr[i]))
							wantAp = false
						}
					}
				}
				if got := floats.EqualApprox(s, appr, 1e-6); got != wantAp {
					x.bad("floats.EqualApprox", cls, "wrong-answer", rp, "got %v want %v other=%v", got, wantAp, appr)
				}
				for _, nm := range []string{"floats.Equal", "floats.Same", "floats.HasNaN", "floats.EqualFunc", "floats.EqualLengths", "floats.EqualApprox"} {
					ev(nm)
				}
			}
			if !intact() {
				x.bad("floats.index-helpers", cls, "modified-input", rp, "a read-only helper changed its input array")
			}
		}
	}
}

// ---- Span / LogSpan / NearestIdxForSpan -----------------------------------

// spanSlack: each element is l + step·i with step = (u-l)/(n-1): three
// roundings relative to max(|l|,|u|); the band is spanSlack·u·(|l|+|u|).
const spanSlack = 4

func runSpan(x *idxCtx, n int) {
	c := x.c
	r := c.RNG("index.span", n)
	reps := c.Pick(40, 200)
	if n > 70 {
		reps = c.Pick(6, 20)
	}
	ev := func(name, cls string) { x.t.eval(name+"|"+cls+"|"+nClass(n), n >= 2) }
	special := []float64{math.NaN(), math.Inf(1), math.Inf(-1), 0, 1, -3}
	for rep := 0; rep < reps; rep++ {
		var l, u float64
		cls := "finite"
		switch {
		case rep%10 == 9:
			l, u = special[r.Intn(len(special))], special[r.Intn(len(special))]
			cls = "non-finite"
			if finiteF(l) && finiteF(u) {
				cls = "finite"
			}
		case rep%10 == 8:
			// 1e±280: (n-1)/(u-l) inside NearestIdxForSpan stays finite
			l = genReal(r, vcHugeTiny, 1, 280, false)[0]
			u = genReal(r, vcHugeTiny, 1, 280, false)[0]
		case rep%10 == 7:
			l = float64(r.Range(-20, 20))
			u = l + float64(r.Range(-3, 3))*float64(maxInt(n-1, 1))/float64(r.PickInt(1, 2, 4))
		default:
			l, u = float64(r.Range(-2000, 2000))/100, float64(r.Range(-2000, 2000))/100
			if r.Bool() {
				l, u = r.Norm()*10, r.Norm()*10
			}
		}
		off := r.Intn(8)
		rp := map[string]any{"n": n, "l": l, "u": u}
		dst, intact := inArray(make([]float64, n), off)
		for i := range dst {
			dst[i] = vrt.Taint(1000 + i)
		}
		var ret []float64
		_, pan := tryPanics(func() { ret = floats.Span(dst, l, u) })
		ev("floats.Span", cls)
		if n < 2 {
			if !pan {
				x.bad("floats.Span", "short", "no-panic-on-short-slice", rp, "n=%d", n)
			}
			_, pan2 := tryPanics(func() { floats.NearestIdxForSpan(n, l, u, 0) })
			ev("floats.NearestIdxForSpan", "short")
			if !pan2 {
				x.bad("floats.NearestIdxForSpan", "short", "no-panic-on-short-span", rp, "n=%d", n)
			}
			continue
		}
		if pan {
			x.bad("floats.Span", cls, "panic", rp, "l=%v u=%v", l, u)
			continue
		}
		if len(ret) != n || &ret[0] != &dst[0] || !intact() {
			x.bad("floats.Span", cls, "returned-slice-is-not-dst", rp, "or wrote outside it")
		}
		eqv := func(a, b float64) bool { return a == b || (a != a && b != b) }
		if !eqv(dst[0], l) {
			x.bad("floats.Span", cls+"-l-u", "first-element-not-l", rp, "n=%d l=%v u=%v: dst[0]=%v", n, l, u, dst[0])
		}
		if !eqv(dst[n-1], u) {
			x.bad("floats.Span", cls+"-l-u", "last-element-not-u", rp, "n=%d l=%v u=%v: dst[n-1]=%s, u=%s", n, l, u, fmtf(dst[n-1]), fmtf(u))
		}
		if cls == "finite" {
			tol := spanSlack * vrt.Eps64 * (math.Abs(l) + math.Abs(u))
			for i := 1; i < n-1; i++ {
				t := float64(i) / float64(n-1)
				want := l*(1-t) + u*t // the reference only has to be good to ~2 ulp of |l|+|u|
				if !(math.Abs(dst[i]-want) <= tol+2*vrt.Eps64*(math.Abs(l)+math.Abs(u))) {
					x.bad("floats.Span", "finite-l-u", "interior-point-off-the-line", rp, "n=%d l=%v u=%v: dst[%d]=%v want %v", n, l, u, i, dst[i], want)
					break
				}
			}
		}

		// ---- NearestIdxForSpan vs the span it describes
		span := append([]float64(nil), dst...)
		for q := 0; q < 6; q++ {
			var v float64
			switch q {
			case 0:
				v = span[r.Intn(n)]
			case 1:
				i := r.Intn(n - 1)
				v = (span[i] + span[i+1]) / 2 // half-way (either neighbour admissible)
			case 2:
				v = l + (u-l)*r.Uniform(-0.2, 1.2)
			case 3:
				v = special[r.Intn(3)]
			case 4:
				v = r.Norm() * 1e3
			case 5:
				v = l + (u-l)*r.Float64()
			}
			var got int
			_, pan := tryPanics(func() { got = floats.NearestIdxForSpan(n, l, u, v) })
			ncls := cls
			if !finiteF(v) {
				ncls = "non-finite"
			}
			ev("floats.NearestIdxForSpan", ncls)
			if pan {
				x.bad("floats.NearestIdxForSpan", ncls, "panic", rp, "v=%v", v)
				continue
			}
			if got < 0 || got >= n {
				x.bad("floats.NearestIdxForSpan", ncls, "index-out-of-range", rp, "v=%v got %d", v, got)
				continue
			}
			wantIdx := refNearest(span, v)
			if got == wantIdx {
				continue
			}
			if ncls == "non-finite" {
				// Spans with NaN / ±Inf: every element at the same float64
				// distance from v as NearestIdx(Span(...))'s choice is an
				// equally near element (all of them infinitely far, or equal
				// values); which of those ties is reported is not defined by
				// the documented equivalence "up to the tie rule".
				dg, dw := math.Abs(v-span[got]), math.Abs(v-span[wantIdx])
				if !eqv(span[got], span[wantIdx]) && !eqv(dg, dw) {
					x.bad("floats.NearestIdxForSpan", ncls, "differs-from-NearestIdx-of-Span", rp, "n=%d l=%v u=%v v=%v: got %d (%v) want %d (%v)", n, l, u, v, got, span[got], wantIdx, span[wantIdx])
				}
				continue
			}
			if l == u {
				// degenerate span: all elements are exactly l; the tie rule leaves index 0
				x.bad("floats.NearestIdxForSpan", "l==u", "not-lowest-index-on-degenerate-span", rp, "n=%d l=u=%v v=%v: got %d, NearestIdx(Span) = %d", n, l, v, got, wantIdx)
				continue
			}
			// finite: got must be (within rounding) as near to v as the nearest
			// ideal point l + i(u-l)/(n-1). Exact arithmetic on the ideal points.
			if !nearlyNearest(n, l, u, v, got) {
				x.bad("floats.NearestIdxForSpan", "finite", "not-a-nearest-span-point", rp, "n=%d l=%v u=%v v=%v: got %d, NearestIdx(Span) = %d", n, l, u, v, got, wantIdx)
			}
		}

		// ---- LogSpan (positive bounds only: the documentation of zero /
		// negative bounds contradicts itself)
		if cls == "finite" && l != 0 && u != 0 {
			ll, uu := math.Abs(l), math.Abs(u)
			ld, lintact := inArray(make([]float64, n), off)
			var lret []float64
			_, pan := tryPanics(func() { lret = floats.LogSpan(ld, ll, uu) })
			ev("floats.LogSpan", "positive")
			if pan || len(lret) != n || &lret[0] != &ld[0] || !lintact() {
				x.bad("floats.LogSpan", "positive", "returned-slice-is-not-dst", rp, "l=%v u=%v", ll, uu)
				continue
			}
			la, lb := math.Log(ll), math.Log(uu)
			for i := 0; i < n; i++ {
				t := float64(i) / float64(n-1)
				e := la*(1-t) + lb*t
				want := math.Exp(e)
				// exp amplifies the absolute error of the exponent: relative band (|e|+|la|+|lb|+4)·8u
				rel := (math.Abs(e) + math.Abs(la) + math.Abs(lb) + 4) * 8 * vrt.Eps64
				if !(math.Abs(ld[i]-want) <= rel*want+0x1p-1074) {
					clause := "interior-point-off-the-log-line"
					if i == 0 || i == n-1 {
						clause = "endpoint-not-within-rounding-of-bound"
					}
					x.bad("floats.LogSpan", "positive", clause, rp, "n=%d l=%v u=%v: dst[%d]=%v want %v", n, ll, uu, i, ld[i], want)
					break
				}
			}
		}
	}
}

func maxInt(a, b int) int {
	if a > b {
		return a
	}
	return b
}

// nearlyNearest reports whether ideal span point `got` is, up to the
// rounding of the index formula, as close to v as the closest ideal point.
// Tolerance: 8u·(|u-l|+|v|+|l|) in distance (three roundings in
// (n-1)/(u-l)·(v-l) scaled back by the step) — this also admits either
// neighbour at an exact half-way point.
func nearlyNearest(n int, l, u, v float64, got int) bool {
	prec := uint(2200)
	bf := func(f float64) *big.Float { return new(big.Float).SetPrec(prec).SetFloat64(f) }
	L, U, V := bf(l), bf(u), bf(v)
	den := bf(float64(n - 1))
	point := func(i int) *big.Float {
		// l + i(u-l)/(n-1)
		d := new(big.Float).SetPrec(prec).Sub(U, L)
		d.Mul(d, bf(float64(i)))
		d.Quo(d, den)
		return d.Add(d, L)
	}
	dist := func(i int) *big.Float {
		d := new(big.Float).SetPrec(prec).Sub(V, point(i))
		return d.Abs(d)
	}
	// the exact nearest index by the real-number formula
	t := new(big.Float).SetPrec(prec).Sub(V, L)
	span := new(big.Float).SetPrec(prec).Sub(U, L)
	best := 0
	if span.Sign() != 0 {
		t.Quo(t, span)
		t.Mul(t, den)
		tf, _ := t.Float64()
		best = int(math.Floor(tf + 0.5))
		if best < 0 {
			best = 0
		}
		if best > n-1 {
			best = n - 1
		}
	}
	dmin := dist(best)
	for _, j := range []int{best - 1, best + 1} {
		if j >= 0 && j < n {
			if d := dist(j); d.Cmp(dmin) < 0 {
				dmin = d
			}
		}
	}
	tol := bf(8 * vrt.Eps64 * (math.Abs(u-l) + math.Abs(v) + math.Abs(l)))
	lim := new(big.Float).SetPrec(prec).Add(dmin, tol)
	return dist(got).Cmp(lim) <= 0
}

// ---- cmplxs ----------------------------------------------------------------

func runIndexCmplxs(x *idxCtx, n int) {
	c := x.c
	r := c.RNG("index.cmplxs", n)
	reps := c.Pick(2, 8)
	for kind := 0; kind < 6; kind++ {
		cls := tieKindNames[kind]
		for rep := 0; rep < reps; rep++ {
			re, im := tieVals(r, n, kind), tieVals(r, n, kind%3)
			s := make([]complex128, n+4)
			for i := range s {
				s[i] = complex(vrt.Taint(i), vrt.Taint(i))
			}
			s = s[2 : 2+n : 2+n]
			for i := range s {
				s[i] = complex(re[i], im[i])
			}
			rp := map[string]any{"s": s}
			ev := func(name string) { x.t.eval(name+"|"+cls+"|"+nClass(n), n > 0) }
			// first index of the max / min modulus among non-NaN elements
			refAbsIdx := func(max bool) int {
				idx := -1
				var best float64
				for i, z := range s {
					if cmplx.IsNaN(z) {
						continue
					}
					a := math.Hypot(real(z), imag(z))
					if idx < 0 || (max && a > best) || (!max && a < best) {
						idx, best = i, a
					}
				}
				return idx
			}
			for _, mx := range []bool{true, false} {
				name, f, fv := "cmplxs.MinAbsIdx", cmplxs.MinAbsIdx, cmplxs.MinAbs
				if mx {
					name, f, fv = "cmplxs.MaxAbsIdx", cmplxs.MaxAbsIdx, cmplxs.MaxAbs
				}
				var got int
				_, pan := tryPanics(func() { got = f(s) })
				ev(name)
				if n == 0 {
					if !pan {
						x.bad(name, "empty", "no-panic-on-empty-slice", rp, "returned %d", got)
					}
					continue
				}
				if pan {
					x.bad(name, cls, "panic", rp, "")
					continue
				}
				if want := refAbsIdx(mx); (want >= 0 && got != want) || got < 0 || got >= n {
					x.bad(name, cls, "not-first-extremum", rp, "got %d want %d in %v", got, want, s)
				} else if gv := fv(s); !same(gv, s[got]) {
					x.bad(name[:13], cls, "value-is-not-element-at-idx", rp, "got %v", gv)
				}
			}
			// NearestIdx: NaN v -> 0; Inf v -> MaxAbsIdx; else lowest index of smallest |v - s[i]|
			for q := 0; q < 4; q++ {
				var v complex128
				switch q {
				case 0:
					v = cmplx.NaN()
				case 1:
					v = complex(math.Inf(1), 0)
				case 2:
					v = complex(float64(r.Range(-4, 6))/2, float64(r.Range(-4, 6))/2)
				case 3:
					v = complex(r.Norm(), r.Norm())
				}
				var got int
				_, pan := tryPanics(func() { got = cmplxs.NearestIdx(s, v) })
				ev("cmplxs.NearestIdx")
				if n == 0 {
					if !pan {
						x.bad("cmplxs.NearestIdx", "empty", "no-panic-on-empty-slice", rp, "returned %d", got)
					}
					continue
				}
				want := 0
				switch {
				case cmplx.IsNaN(v):
				case cmplx.IsInf(v):
					if want = refAbsIdx(true); want < 0 {
						want = 0
					}
				default:
					best := math.NaN()
					for i, z := range s {
						d := cmplx.Abs(v - z)
						if d != d {
							continue
						}
						if best != best || d < best {
							best, want = d, i
						}
					}
				}
				if pan || got != want {
					x.bad("cmplxs.NearestIdx", cls, "not-lowest-nearest-index", rp, "v=%v got %d want %d in %v", v, got, want, s)
				}
			}
			// Reverse, Count, Find, Equal, Same, HasNaN, EqualFunc, EqualLengths
			{
				d := append([]complex128(nil), s...)
				cmplxs.Reverse(d)
				ev("cmplxs.Reverse")
				for i := 0; i < n; i++ {
					if !same(d[i], s[n-1-i]) || math.Float64bits(real(d[i])) != math.Float64bits(real(s[n-1-i])) {
						x.bad("cmplxs.Reverse", cls, "not-reversed", rp, "")
						break
					}
				}
				pred := func(z complex128) bool { return real(z) > 0.25 }
				var wantAll []int
				wantNaN := false
				for i, z := range s {
					if pred(z) {
						wantAll = append(wantAll, i)
					}
					if cmplx.IsNaN(z) {
						wantNaN = true
					}
				}
				if got := cmplxs.Count(pred, s); got != len(wantAll) {
					x.bad("cmplxs.Count", cls, "wrong-count", rp, "got %d want %d", got, len(wantAll))
				}
				ev("cmplxs.Count")
				for _, k := range []int{-1, 0, 1, len(wantAll), len(wantAll) + 1} {
					got, err := cmplxs.Find(nil, pred, s, k)
					ev("cmplxs.Find")
					want, wantErr := wantAll, false
					switch {
					case k == 0:
						want = nil
					case k > 0 && k <= len(wantAll):
						want = wantAll[:k]
					case k > len(wantAll):
						wantErr = true
					}
					if (err != nil) != wantErr || fmt.Sprint(got) != fmt.Sprint(append([]int{}, want...)) {
						x.bad("cmplxs.Find", cls, "wrong-indices-or-error", rp, "k=%d got %v err=%v want %v", k, got, err, want)
					}
				}
				if got := cmplxs.HasNaN(s); got != wantNaN {
					x.bad("cmplxs.HasNaN", cls, "wrong-answer", rp, "got %v want %v", got, wantNaN)
				}
				o := append([]complex128(nil), s...)
				if n > 0 && r.Bool() {
					o[r.Intn(n)] = 17i
				}
				wantEq, wantSame := true, true
				for i := range s {
					if s[i] != o[i] {
						wantEq = false
						if !(cmplx.IsNaN(s[i]) && cmplx.IsNaN(o[i])) {
							wantSame = false
						}
					}
				}
				if cmplxs.Equal(s, o) != wantEq || cmplxs.Equal(s, append(o, 0)) {
					x.bad("cmplxs.Equal", cls, "wrong-answer", rp, "want %v", wantEq)
				}
				if cmplxs.Same(s, o) != wantSame || cmplxs.Same(s, append(o, 0)) {
					x.bad("cmplxs.Same", cls, "wrong-answer", rp, "want %v", wantSame)
				}
				if cmplxs.EqualFunc(s, o, func(a, b complex128) bool { return a == b }) != wantEq {
					x.bad("cmplxs.EqualFunc", cls, "wrong-answer", rp, "want %v", wantEq)
				}
				if !cmplxs.EqualLengths(s, o) || cmplxs.EqualLengths(s, append(o, 0)) || !cmplxs.EqualLengths() {
					x.bad("cmplxs.EqualLengths", cls, "wrong-answer", rp, "")
				}
				// EqualApprox, tolerance far from the boundary of the rule
				appr := append([]complex128(nil), s...)
				wantAp := true
				for i := range appr {
					if cmplx.IsNaN(appr[i]) || (real(appr[i]) != real(appr[i])) || (imag(appr[i]) != imag(appr[i])) {
						wantAp = false
						continue
					}
					if cmplx.IsInf(appr[i]) {
						continue
					}
					switch r.Intn(6) {
					case 0:
						appr[i] += complex(1e-9*(1+cmplx.Abs(appr[i])), 0)
					case 1:
						if r.Intn(4) == 0 {
							appr[i] += complex(0, 1e-3*(1+cmplx.Abs(appr[i])))
							wantAp = false
						}
					}
				}
				if got := cmplxs.EqualApprox(s, appr, 1e-6); got != wantAp {
					x.bad("cmplxs.EqualApprox", cls, "wrong-answer", rp, "got %v want %v other=%v", got, wantAp, appr)
				}
				ev("cmplxs.EqualApprox")
				for _, nm := range []string{"cmplxs.HasNaN", "cmplxs.Equal", "cmplxs.Same", "cmplxs.EqualFunc", "cmplxs.EqualLengths"} {
					ev(nm)
				}
			}
		}
	}
	// cmplxs.Span: first element l, last element u, interior on the segment
	for rep := 0; rep < c.Pick(6, 30); rep++ {
		l := complex(r.Norm()*5, r.Norm()*5)
		u := complex(r.Norm()*5, r.Norm()*5)
		if rep%3 == 0 {
			l, u = complex(float64(r.Range(-9, 9)), float64(r.Range(-9, 9))), complex(float64(r.Range(-9, 9)), float64(r.Range(-9, 9)))
		}
		rp := map[string]any{"n": n, "l": l, "u": u}
		dst := make([]complex128, n)
		for i := range dst {
			dst[i] = complex(vrt.Taint(i), -77) // dirty destination
		}
		_, pan := tryPanics(func() { cmplxs.Span(dst, l, u) })
		x.t.eval("cmplxs.Span|finite|"+nClass(n), n >= 2)
		if n < 2 {
			if !pan {
				x.bad("cmplxs.Span", "short", "no-panic-on-short-slice", rp, "n=%d", n)
			}
			continue
		}
		if pan {
			x.bad("cmplxs.Span", "finite-l-u", "panic", rp, "")
			continue
		}
		if dst[0] != l {
			x.bad("cmplxs.Span", "finite-l-u", "first-element-not-l", rp, "dst[0]=%v l=%v", dst[0], l)
		}
		if dst[n-1] != u {
			x.bad("cmplxs.Span", "finite-l-u", "last-element-not-u", rp, "n=%d l=%v u=%v: dst[n-1]=%v", n, l, u, dst[n-1])
		}
		tol := 4 * spanSlack * vrt.Eps64 * (cmplx.Abs(l) + cmplx.Abs(u))
		for i := 1; i < n-1; i++ {
			t := float64(i) / float64(n-1)
			want := l*complex(1-t, 0) + u*complex(t, 0)
			if !(cmplx.Abs(dst[i]-want) <= tol) {
				x.bad("cmplxs.Span", "finite-l-u", "interior-point-off-the-line", rp, "dst[%d]=%v want %v", i, dst[i], want)
				break
			}
		}
		// LogSpan: exp of equally spaced points between Log(l) and Log(u)
		if l != 0 && u != 0 {
			ld := make([]complex128, n)
			for i := range ld {
				ld[i] = complex(-33, vrt.Taint(i)) // dirty destination
			}
			cmplxs.LogSpan(ld, l, u)
			x.t.eval("cmplxs.LogSpan|finite|"+nClass(n), true)
			la, lb := cmplx.Log(l), cmplx.Log(u)
			for i := 0; i < n; i++ {
				t := float64(i) / float64(n-1)
				e := la*complex(1-t, 0) + lb*complex(t, 0)
				want := cmplx.Exp(e)
				rel := (cmplx.Abs(e) + cmplx.Abs(la) + cmplx.Abs(lb) + 4) * 16 * vrt.Eps64
				if !(cmplx.Abs(ld[i]-want) <= rel*cmplx.Abs(want)) {
					x.bad("cmplxs.LogSpan", "finite", "point-off-the-log-line", rp, "n=%d l=%v u=%v: dst[%d]=%v want %v", n, l, u, i, ld[i], want)
					break
				}
			}
		}
	}
}
