package main

import "gonum.org/v1/gonum/verifx/vrt"

func addMore(c *vrt.Ctx, ts *[]task) {
	if want("scan") {
		k64, k128, k64c := scanKernels()
		addScan(c, ts, k64)
		addScan(c, ts, k128)
		addScan(c, ts, k64c)
	}
	if want("floats") {
		addEW(c, ts, floatsEWKernels())
		addRed(c, ts, floatsRedKernels())
		addScan(c, ts, floatsScanKernels())
	}
	if want("cmplxs") {
		addEW(c, ts, cmplxsEWKernels())
		addRed(c, ts, cmplxsRedKernels())
		addScan(c, ts, cmplxsScanKernels())
		addCmplxsMixed(c, ts)
	}
	if want("index") {
		addIndex(c, ts)
		addPanics(c, ts)
		addGrid(c, ts)
	}
	if want("scalar") {
		addScalar(c, ts)
	}
	if want("spatial") {
		addSpatial(c, ts)
	}
	if want("ge") {
		addGe(c, ts)
	}
}
