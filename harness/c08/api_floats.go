package main

import (
	"math"

	"gonum.org/v1/gonum/floats"
	"gonum.org/v1/gonum/verifx/vrt"
)

// floats: element-wise API (unit stride; offsets 0..7 and guard pages as for the kernels).
func floatsEWKernels() []*ewKernel[float64] {
	type A = ewArgs[float64]
	one := func(v float64) cand[float64] { return c1(v) }
	return []*ewKernel[float64]{
		{name: "floats.Add", exact: true, nsrc: 1, readsDst: true, maxExp: 307,
			call: func(a *A) { floats.Add(a.dst.unit(), a.x.unit()) },
			ref:  func(al, d, x, y float64) cand[float64] { return one(d + x) }},
		{name: "floats.AddTo", exact: true, nsrc: 2, maxExp: 307, aliasX: true, aliasY: true, retDst: true,
			call: func(a *A) { a.ret = floats.AddTo(a.dst.unit(), a.x.unit(), a.y.unit()) },
			ref:  func(al, d, x, y float64) cand[float64] { return one(x + y) }},
		{name: "floats.AddConst", exact: true, readsDst: true, scalar: true, maxExp: 307,
			call: func(a *A) { floats.AddConst(a.alpha, a.dst.unit()) },
			ref:  func(al, d, x, y float64) cand[float64] { return one(d + al) }},
		{name: "floats.AddScaled", nsrc: 1, readsDst: true, scalar: true, maxExp: 140,
			call: func(a *A) { floats.AddScaled(a.dst.unit(), a.alpha, a.x.unit()) },
			ref:  func(al, d, x, y float64) cand[float64] { return refAxpyR(al, x, d) }},
		{name: "floats.AddScaledTo", nsrc: 2, scalar: true, maxExp: 140, aliasX: true, aliasY: true, retDst: true,
			call: func(a *A) { a.ret = floats.AddScaledTo(a.dst.unit(), a.y.unit(), a.alpha, a.x.unit()) },
			ref:  func(al, d, x, y float64) cand[float64] { return refAxpyR(al, x, y) }},
		{name: "floats.Div", exact: true, nsrc: 1, readsDst: true, maxExp: 307,
			call: func(a *A) { floats.Div(a.dst.unit(), a.x.unit()) },
			ref:  func(al, d, x, y float64) cand[float64] { return one(d / x) }},
		{name: "floats.DivTo", exact: true, nsrc: 2, maxExp: 307, aliasX: true, aliasY: true, retDst: true,
			call: func(a *A) { a.ret = floats.DivTo(a.dst.unit(), a.x.unit(), a.y.unit()) },
			ref:  func(al, d, x, y float64) cand[float64] { return one(x / y) }},
		{name: "floats.Mul", exact: true, nsrc: 1, readsDst: true, maxExp: 307,
			call: func(a *A) { floats.Mul(a.dst.unit(), a.x.unit()) },
			ref:  func(al, d, x, y float64) cand[float64] { return one(d * x) }},
		{name: "floats.MulTo", exact: true, nsrc: 2, maxExp: 307, aliasX: true, aliasY: true, retDst: true,
			call: func(a *A) { a.ret = floats.MulTo(a.dst.unit(), a.x.unit(), a.y.unit()) },
			ref:  func(al, d, x, y float64) cand[float64] { return one(x * y) }},
		{name: "floats.Scale", exact: true, readsDst: true, scalar: true, maxExp: 300,
			call: func(a *A) { floats.Scale(a.alpha, a.dst.unit()) },
			ref:  func(al, d, x, y float64) cand[float64] { return one(al * d) }},
		{name: "floats.ScaleTo", exact: true, nsrc: 1, scalar: true, maxExp: 300, aliasX: true, retDst: true,
			call: func(a *A) { a.ret = floats.ScaleTo(a.dst.unit(), a.alpha, a.x.unit()) },
			ref:  func(al, d, x, y float64) cand[float64] { return one(al * x) }},
		{name: "floats.Sub", exact: true, nsrc: 1, readsDst: true, maxExp: 307,
			call: func(a *A) { floats.Sub(a.dst.unit(), a.x.unit()) },
			ref:  func(al, d, x, y float64) cand[float64] { return one(d - x) }},
		{name: "floats.SubTo", exact: true, nsrc: 2, maxExp: 307, aliasX: true, aliasY: true, retDst: true,
			call: func(a *A) { a.ret = floats.SubTo(a.dst.unit(), a.x.unit(), a.y.unit()) },
			ref:  func(al, d, x, y float64) cand[float64] { return one(x - y) }},
	}
}

// pNormSlack: Σ|x|^p carries one pow and one addition per term, the final
// root one more pow; the root divides the relative error by p >= 1. The
// documented formula (Σ)^(1/L) is evaluated by math.Pow, whose relative
// error grows like |ln(result)|·u (the rounded exponent 1/L and the
// exp(y·log x) evaluation): pNormLog·|ln(result)| is added to the slack.
const (
	pNormSlack = 16
	pNormLog   = 4
)

func pNormTol(n int, want float64) float64 {
	l := 0.0
	if want > 0 {
		l = math.Abs(math.Log(want))
	}
	return (float64(n+pNormSlack) + pNormLog*l) * vrt.Eps64 * want
}

func checkPNorm(p float64, dist bool) func(n int, x, y []float64, gr, gi float64, exact bool) (bool, float64, float64, string) {
	return func(n int, x, y []float64, gr, gi float64, exact bool) (bool, float64, float64, string) {
		var a acc
		for i := range x {
			v := x[i]
			if dist {
				v = y[i] - x[i]
			}
			a.add(math.Pow(math.Abs(v), p))
		}
		s, fin := a.value()
		want := math.Pow(s, 1/p)
		if !fin || !finiteF(want) {
			return sameF(gr, want), want, 0, "non-finite-class"
		}
		return bandF(gr, want, pNormTol(n, want)), want, 0, "outside-rounding-band"
	}
}

// checkInfNorm: Norm(s, Inf) folds math.Max over |s[i]| (so +Inf wins over a
// NaN, whatever the order, and a NaN without any Inf gives NaN);
// Distance(s, t, Inf) keeps a difference only when it compares greater, so
// NaN differences are skipped.
func checkInfNorm(dist bool) func(n int, x, y []float64, gr, gi float64, exact bool) (bool, float64, float64, string) {
	return func(n int, x, y []float64, gr, gi float64, exact bool) (bool, float64, float64, string) {
		want := 0.0
		for i := range x {
			if dist {
				if av := math.Abs(y[i] - x[i]); av > want {
					want = av
				}
				continue
			}
			want = math.Max(want, math.Abs(x[i]))
		}
		clause := "not-the-maximum"
		if !finiteF(want) {
			clause = "non-finite-class"
		}
		return sameF(gr, want), want, 0, clause
	}
}

func checkL1DistSwapped(n int, x, y []float64, gr, gi float64, exact bool) (bool, float64, float64, string) {
	return checkL1Dist(n, x, y, gr, gi, exact)
}

func checkLogSumExp(n int, x, y []float64, gr, gi float64, exact bool) (bool, float64, float64, string) {
	m := math.Inf(-1)
	for _, v := range x {
		if v > m {
			m = v
		}
	}
	if math.IsInf(m, 0) {
		return sameF(gr, m), m, 0, "non-finite-class"
	}
	var a acc
	for _, v := range x {
		a.add(math.Exp(v - m))
	}
	s, _ := a.value()
	want := math.Log(s) + m
	tol := float64(n+8) * vrt.Eps64 * (1 + math.Abs(want) + math.Abs(m))
	return bandF(gr, want, tol), want, 0, "outside-rounding-band"
}

// SumCompensated (Neumaier): |err| <= 2u·|S| + O(n·u²)·Σ|x|, far inside the
// plain reduction band.
func checkSumCompensated(n int, x, y []float64, gr, gi float64, exact bool) (bool, float64, float64, string) {
	var a acc
	for _, v := range x {
		a.add(v)
	}
	want, fin := a.value()
	if !fin {
		return sameF(gr, want), want, 0, "non-finite-class"
	}
	if exact {
		return gr == want, want, 0, "inexact-on-small-integers"
	}
	u := vrt.Eps64
	tol := 2*u*math.Abs(want) + 4*float64(n+2)*float64(n+2)*u*u*a.abs
	return finiteF(gr) && math.Abs(gr-want) <= tol, want, 0, "outside-compensated-bound"
}

func checkProd(n int, x, y []float64, gr, gi float64, exact bool) (bool, float64, float64, string) {
	p := 1.0
	mn, mx := 1.0, 1.0
	for _, v := range x {
		p *= v
		if a := math.Abs(p); a < mn {
			mn = a
		} else if a > mx {
			mx = a
		}
	}
	if sameF(gr, p) {
		return true, p, 0, ""
	}
	if exact || !finiteF(p) || mn < 0x1p-900 || mx > 0x1p900 {
		return false, p, 0, "wrong-value"
	}
	return bandF(gr, p, 2*float64(n+4)*vrt.Eps64*math.Abs(p)), p, 0, "outside-rounding-band"
}

func floatsRedKernels() []*redKernel[float64] {
	type A = redArgs[float64]
	u := vrt.Eps64
	noNaN := map[vclass]bool{vcNaN: true}
	prodSkip := map[vclass]bool{vcHugeTiny: true, vcSubnormal: true}
	return []*redKernel[float64]{
		{name: "floats.Sum", nsrc: 1, maxExp: 300, intExact: true,
			call: func(a *A) (float64, float64) { return floats.Sum(a.x.unit()), 0 }, check: checkSum[float64](u)},
		{name: "floats.SumCompensated", nsrc: 1, maxExp: 300, intExact: true, cancel: true, skip: map[vclass]bool{vcInf: true},
			call: func(a *A) (float64, float64) { return floats.SumCompensated(a.x.unit()), 0 }, check: checkSumCompensated},
		{name: "floats.Dot", nsrc: 2, maxExp: 140, intExact: true,
			call: func(a *A) (float64, float64) { return floats.Dot(a.x.unit(), a.y.unit()), 0 }, check: checkDotR[float64](u, 0x1p-1074)},
		{name: "floats.Prod", nsrc: 1, maxExp: 4, intExact: true, skip: prodSkip,
			call: func(a *A) (float64, float64) { return floats.Prod(a.x.unit()), 0 }, check: checkProd},
		{name: "floats.Norm(1)", nsrc: 1, maxExp: 300, intExact: true,
			call: func(a *A) (float64, float64) { return floats.Norm(a.x.unit(), 1), 0 }, check: checkAbsSum[float64](u)},
		{name: "floats.Norm(2)", nsrc: 1, maxExp: 300, l2: true,
			call: func(a *A) (float64, float64) { return floats.Norm(a.x.unit(), 2), 0 }, check: checkL2[float64]()},
		{name: "floats.Norm(Inf)", nsrc: 1, maxExp: 307, intExact: true,
			call: func(a *A) (float64, float64) { return floats.Norm(a.x.unit(), math.Inf(1)), 0 }, check: checkInfNorm(false)},
		{name: "floats.Norm(3)", nsrc: 1, maxExp: 90,
			call: func(a *A) (float64, float64) { return floats.Norm(a.x.unit(), 3), 0 }, check: checkPNorm(3, false)},
		{name: "floats.Norm(1.5)", nsrc: 1, maxExp: 150,
			call: func(a *A) (float64, float64) { return floats.Norm(a.x.unit(), 1.5), 0 }, check: checkPNorm(1.5, false)},
		{name: "floats.Norm(4)", nsrc: 1, maxExp: 70,
			call: func(a *A) (float64, float64) { return floats.Norm(a.x.unit(), 4), 0 }, check: checkPNorm(4, false)},
		{name: "floats.Distance(1.5)", nsrc: 2, maxExp: 150,
			call: func(a *A) (float64, float64) { return floats.Distance(a.x.unit(), a.y.unit(), 1.5), 0 }, check: checkPNorm(1.5, true)},
		{name: "floats.Distance(1)", nsrc: 2, maxExp: 300, intExact: true,
			call: func(a *A) (float64, float64) { return floats.Distance(a.x.unit(), a.y.unit(), 1), 0 }, check: checkL1Dist},
		{name: "floats.Distance(2)", nsrc: 2, maxExp: 300, l2: true,
			call: func(a *A) (float64, float64) { return floats.Distance(a.x.unit(), a.y.unit(), 2), 0 }, check: checkL2Dist[float64]()},
		{name: "floats.Distance(Inf)", nsrc: 2, maxExp: 300, intExact: true,
			call: func(a *A) (float64, float64) { return floats.Distance(a.x.unit(), a.y.unit(), math.Inf(1)), 0 }, check: checkInfNorm(true)},
		{name: "floats.Distance(3)", nsrc: 2, maxExp: 90,
			call: func(a *A) (float64, float64) { return floats.Distance(a.x.unit(), a.y.unit(), 3), 0 }, check: checkPNorm(3, true)},
		// LogSumExp panics on an empty slice (documented); NaN inputs have no documented rule.
		{name: "floats.LogSumExp", nsrc: 1, maxExp: 300, skip: noNaN,
			call: func(a *A) (float64, float64) {
				if a.n == 0 {
					return math.Inf(-1), 0 // log of an empty sum; the call itself is covered by the panic table
				}
				return floats.LogSumExp(a.x.unit()), 0
			}, check: checkLogSumExp},
	}
}

func floatsScanKernels() []*scanKernel[float64] {
	return []*scanKernel[float64]{
		{name: "floats.CumSum", call: floats.CumSum},
		{name: "floats.CumProd", prod: true, call: floats.CumProd},
	}
}
