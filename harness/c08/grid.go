package main

import (
	"fmt"
	"math"
	"sort"
	"strconv"

	"gonum.org/v1/gonum/cmplxs"
	"gonum.org/v1/gonum/cmplxs/cscalar"
	"gonum.org/v1/gonum/floats"
	"gonum.org/v1/gonum/floats/scalar"
	"gonum.org/v1/gonum/spatial/r2"
	"gonum.org/v1/gonum/spatial/r3"
	"gonum.org/v1/gonum/verifx/vrt"
)

// Hostile scalar grid: every function of the property that takes scalar
// parameters gets them from this grid, crossed with each other (equal
// values, reversed order, ±0, ±Inf, NaN, subnormal, adjacent floats,
// huge/tiny) and with n ∈ {0,1,2,3,…} around the documented panic boundary.
// Deterministic, seed independent.

var hostile = []float64{
	0, math.Copysign(0, -1), 1, -1, math.Nextafter(1, 2), math.Nextafter(1, 0), 2.5, -2.5, 3, 0.5,
	1e300, -1e300, 1e-300, 5e-324, -5e-324, 0x1p-1022,
	math.Inf(1), math.Inf(-1), math.NaN(),
}

func addGrid(c *vrt.Ctx, ts *[]task) {
	for part := 0; part < len(hostile); part++ {
		part := part
		*ts = append(*ts, task{"grid", 40, func() {
			x := &idxCtx{c, newTally(c)}
			defer x.t.flush()
			gridSpan(x, hostile[part])
			gridScalarRules(x, hostile[part])
			gridAlpha(x, hostile[part])
		}})
	}
	*ts = append(*ts, task{"grid.within", 20, func() {
		x := &idxCtx{c, newTally(c)}
		defer x.t.flush()
		gridWithin(x)
		gridParse(x)
		gridSpatial(x)
	}})
}

func gcls(vs ...float64) string {
	s := ""
	for i, v := range vs {
		if i > 0 {
			s += ","
		}
		switch {
		case v != v:
			s += "NaN"
		case math.IsInf(v, 0):
			s += "Inf"
		case v == 0:
			s += "zero"
		case math.Abs(v) < 0x1p-1022:
			s += "subnormal"
		default:
			s += "finite"
		}
	}
	return s
}

// ---- Span / LogSpan / NearestIdxForSpan over l × u × v × n ----------------------

func gridSpan(x *idxCtx, l float64) {
	eqv := func(a, b float64) bool { return a == b || (a != a && b != b) }
	for _, u := range hostile {
		for _, n := range []int{0, 1, 2, 3, 4, 7} {
			rp := map[string]any{"n": n, "l": l, "u": u}
			dst := make([]float64, n+2)
			for i := range dst {
				dst[i] = vrt.Taint(i)
			}
			var ret []float64
			_, pan := tryPanics(func() { ret = floats.Span(dst[1:1+n], l, u) })
			x.t.eval("floats.Span|grid|"+gcls(l, u), n >= 2)
			if n < 2 {
				if !pan {
					x.bad("floats.Span", "short", "no-panic-on-short-slice", rp, "n=%d", n)
				}
				_, pan = tryPanics(func() { floats.NearestIdxForSpan(n, l, u, 1) })
				if !pan {
					x.bad("floats.NearestIdxForSpan", "short", "no-panic-on-short-span", rp, "n=%d", n)
				}
				_, pan = tryPanics(func() { floats.LogSpan(dst[1:1+n], 1, 2) })
				if !pan {
					x.bad("floats.LogSpan", "short", "no-panic-on-short-slice", rp, "n=%d", n)
				}
				continue
			}
			if pan {
				x.bad("floats.Span", "grid|"+gcls(l, u), "panic", rp, "l=%v u=%v", l, u)
				continue
			}
			span := dst[1 : 1+n]
			if len(ret) != n || &ret[0] != &span[0] || !vrt.IsTaint(dst[0]) || !vrt.IsTaint(dst[n+1]) {
				x.bad("floats.Span", "grid|"+gcls(l, u), "returned-slice-is-not-dst", rp, "or wrote outside it")
			}
			// a span whose width u-l is not representable (overflow) is outside
			// what the step formula can express; see assumptions
			widthOK := !math.IsInf(u-l, 0) || math.IsInf(l, 0) || math.IsInf(u, 0)
			if widthOK {
				if !eqv(span[0], l) {
					x.bad("floats.Span", gcls(l, u)+"-l-u", "first-element-not-l", rp, "n=%d l=%v u=%v: %v", n, l, u, span)
				}
				if !eqv(span[n-1], u) {
					x.bad("floats.Span", gcls(l, u)+"-l-u", "last-element-not-u", rp, "n=%d l=%v u=%v: %v", n, l, u, span)
				}
				if finiteF(l) && finiteF(u) {
					tol := (spanSlack + 2) * vrt.Eps64 * (math.Abs(l) + math.Abs(u))
					for i := 1; i < n-1; i++ {
						t := float64(i) / float64(n-1)
						// (subnormal steps are rounded to a multiple of 2^-1074 before being multiplied by i)
						if want := l*(1-t) + u*t; !(math.Abs(span[i]-want) <= tol+float64(n)*0x1p-1074) {
							x.bad("floats.Span", "finite-l-u", "interior-point-off-the-line", rp, "n=%d l=%v u=%v: dst[%d]=%v want %v", n, l, u, i, span[i], want)
							break
						}
					}
				}
			}
			// NearestIdxForSpan(n,l,u,v) ≡ NearestIdx(Span(dst,l,u), v)
			vs := append([]float64{}, hostile...)
			vs = append(vs, span...)
			for i := 0; i+1 < n; i++ {
				vs = append(vs, span[i]/2+span[i+1]/2, math.Nextafter(span[i], span[i+1]))
			}
			for _, v := range vs {
				var got int
				_, pan := tryPanics(func() { got = floats.NearestIdxForSpan(n, l, u, v) })
				cls := gcls(l, u, v)
				x.t.eval("floats.NearestIdxForSpan|grid|"+cls, true)
				rpv := map[string]any{"n": n, "l": l, "u": u, "v": v}
				if pan {
					x.bad("floats.NearestIdxForSpan", "grid|"+cls, "panic", rpv, "n=%d l=%v u=%v v=%v", n, l, u, v)
					continue
				}
				if got < 0 || got >= n {
					pc := "grid|" + cls
					if finiteF(l) && finiteF(u) && l != u && math.IsInf(float64(n-1)/(u-l), 0) {
						// (n-1)/(u-l) overflows: the index formula yields int(±Inf)
						pc = "span-narrower-than-(n-1)/MaxFloat64"
					}
					x.bad("floats.NearestIdxForSpan", pc, "index-out-of-range", rpv, "n=%d l=%v u=%v v=%v: got %d", n, l, u, v, got)
					continue
				}
				want := refNearest(span, v)
				if got == want {
					continue
				}
				if l == u && finiteF(l) {
					// degenerate span: every element is exactly l, the tie rule leaves index 0
					x.bad("floats.NearestIdxForSpan", "l==u", "not-lowest-index-on-degenerate-span", rpv, "n=%d l=u=%v v=%v: got %d, NearestIdx(Span) = %d", n, l, v, got, want)
					continue
				}
				dg, dw := math.Abs(v-span[got]), math.Abs(v-span[want])
				if eqv(span[got], span[want]) || eqv(dg, dw) {
					continue // equal values produced by rounding / infinities, or a float-distance tie
				}
				if finiteF(l) && finiteF(u) && finiteF(v) && widthOK && nearlyNearest(n, l, u, v, got) {
					continue
				}
				if math.Abs(dg-dw) <= float64(n)*0x1p-1074 {
					continue // span points rounded to the subnormal lattice
				}
				x.bad("floats.NearestIdxForSpan", "grid|"+cls, "differs-from-NearestIdx-of-Span", rpv, "n=%d l=%v u=%v v=%v: got %d (%v), NearestIdx(Span) = %d (%v)", n, l, u, v, got, span[got], want, span[want])
			}
			// LogSpan on positive finite bounds (equal and reversed included)
			if l > 0 && u > 0 && finiteF(l) && finiteF(u) {
				ld := make([]float64, n)
				floats.LogSpan(ld, l, u)
				x.t.eval("floats.LogSpan|grid|"+gcls(l, u), true)
				la, lb := math.Log(l), math.Log(u)
				for i := 0; i < n; i++ {
					t := float64(i) / float64(n-1)
					e := la*(1-t) + lb*t
					want := math.Exp(e)
					rel := (math.Abs(e) + math.Abs(la) + math.Abs(lb) + 4) * 8 * vrt.Eps64
					if !(math.Abs(ld[i]-want) <= rel*want+0x1p-1073) {
						x.bad("floats.LogSpan", "positive", "point-off-the-log-line", rp, "n=%d l=%v u=%v: dst[%d]=%v want %v", n, l, u, i, ld[i], want)
						break
					}
				}
			}
			// cmplxs.Span with real bounds from the grid: endpoints
			if finiteF(l) && finiteF(u) && widthOK {
				cd := make([]complex128, n)
				cmplxs.Span(cd, complex(l, u), complex(u, l))
				x.t.eval("cmplxs.Span|grid|"+gcls(l, u), true)
				if cd[0] != complex(l, u) || cd[n-1] != complex(u, l) {
					x.bad("cmplxs.Span", "finite-l-u", "endpoint-not-l-or-u", rp, "n=%d: %v", n, cd)
				}
			}
		}
	}
}

// ---- scalar predicates and rounding over a × b × tol ---------------------------

func gridScalarRules(x *idxCtx, a float64) {
	tols := []float64{0, 5e-324, 1e-300, 0x1p-52, 0.5, 1, 1e300, math.Inf(1), math.NaN()}
	for _, b := range hostile {
		rp := map[string]any{"a": a, "b": b}
		for _, tol := range tols {
			// EqualWithinAbs: a == b || |a-b| <= tol
			want := a == b || math.Abs(a-b) <= tol
			if got := scalar.EqualWithinAbs(a, b, tol); got != want {
				x.bad("scalar.EqualWithinAbs", "grid|"+gcls(a, b), "wrong-answer", rp, "a=%v b=%v tol=%v got %v", a, b, tol, got)
			}
			x.t.eval("scalar.EqualWithinAbs|grid|"+gcls(a, b), true)
			// EqualWithinRel: |a-b| <= tol·max(|a|,|b|), away from the documented carve-outs
			// (differences at or below the smallest normal, infinities, quotient underflow)
			if finiteF(a) && finiteF(b) && tol == tol {
				d, mx := math.Abs(a-b), math.Max(math.Abs(a), math.Abs(b))
				if a == b || (finiteF(d) && d > 0x1p-1000 && d/mx > 0x1p-1000 && (math.IsInf(tol*mx, 0) || math.Abs(d-tol*mx) > 1e-9*d)) {
					wr := a == b || d <= tol*mx
					if got := scalar.EqualWithinRel(a, b, tol); got != wr {
						x.bad("scalar.EqualWithinRel", "grid|"+gcls(a, b), "wrong-answer", rp, "a=%v b=%v tol=%v got %v", a, b, tol, got)
					}
					if got := scalar.EqualWithinAbsOrRel(a, b, tol, tol); got != (want || wr) {
						x.bad("scalar.EqualWithinAbsOrRel", "grid|"+gcls(a, b), "wrong-answer", rp, "a=%v b=%v tol=%v got %v", a, b, tol, got)
					}
					x.t.eval("scalar.EqualWithinRel|grid|"+gcls(a, b), true)
				}
			}
			// complex counterparts on (a+bi) vs (b+ai)
			z1, z2 := complex(a, b), complex(b, a)
			if finite(z1) && tol == tol {
				d := math.Hypot(a-b, b-a)
				if finiteF(d) && (z1 == z2 || math.Abs(d-tol) > 1e-9*d) {
					if got, w := cscalar.EqualWithinAbs(z1, z2, tol), z1 == z2 || d <= tol; got != w {
						x.bad("cscalar.EqualWithinAbs", "grid|"+gcls(a, b), "wrong-answer", rp, "%v %v tol=%v got %v", z1, z2, tol, got)
					}
					x.t.eval("cscalar.EqualWithinAbs|grid|"+gcls(a, b), true)
				}
			}
		}
		for _, ulp := range []uint{0, 1, 2, 1 << 52, math.MaxUint} {
			want := false
			if a == b {
				want = true
			} else if a == a && b == b {
				d := orderedKey(a)
				d.Sub(d, orderedKey(b)).Abs(d)
				want = d.IsUint64() && d.Uint64() <= uint64(ulp)
			}
			if got := scalar.EqualWithinULP(a, b, ulp); got != want {
				x.bad("scalar.EqualWithinULP", ulpClass(a, b), "wrong-answer", rp, "a=%s b=%s ulp=%d got %v want %v", fmtf(a), fmtf(b), ulp, got, want)
			}
			x.t.eval("scalar.EqualWithinULP|grid|"+ulpClass(a, b), true)
		}
		if got, w := scalar.Same(a, b), a == b || (a != a && b != b); got != w {
			x.bad("scalar.Same", "grid", "wrong-answer", rp, "a=%v b=%v", a, b)
		}
	}
	gridRound(x, a)
}

// roundXs: non-integers and integers on both sides of every guard of
// Round/RoundEven (x·10^prec overflowing while 10^prec is finite, 10^prec
// subnormal or zero, x·10^prec beyond 2^53 where rounding stops changing x).
var roundXs = []float64{
	2.5, -2.5, 1.5, 0.5, 0.1, 1.0 / 3, 4.35, 2.675, 1e10 + 0.5, -(1e10 + 0.5), 1e15 + 0.5, 1.5e300, -1.5e300, 123.456e200,
	123456789.123456789, 9.87654321e-5, 0.30000000000000004, 8.41e21 + 1e6, math.MaxFloat64, -math.MaxFloat64, 0x1.8p-1022, 1e-310, 7.5e-320, 2.5e-300,
}

// gridRound judges Round/RoundEven against the exact decimal rounding of the
// exact binary value (big.Rat), rounded to the nearest float64.
//
// Documented deviations of the unchanged implementation (it computes
// math.Round(x*pow)/pow in float64): pow = 10^prec is inexact for |prec| > 22
// (result within 2 ulp instead of 1), and subnormal for prec < -307 (relative
// error up to 2^-1074/pow); where the float product x*pow is inexact and the
// exact value lies within 1e-9 of a half-integer either neighbour is
// admissible. Never admissible: Inf, NaN or 0 where the exact answer is a
// finite non-zero float64.
func gridRound(x *idxCtx, a float64) {
	xs := []float64{a}
	for i, v := range roundXs {
		if i%len(hostile) == indexOfHostile(a) || len(hostile) == 0 {
			xs = append(xs, v)
		}
	}
	// every part also takes two of the directed values so that all are used
	k := indexOfHostile(a)
	xs = append(xs, roundXs[(2*k)%len(roundXs)], roundXs[(2*k+1)%len(roundXs)], roundXs[(k+7)%len(roundXs)])
	for _, v := range xs {
		precs := map[int]bool{}
		for p := -400; p <= 400; p += 50 {
			precs[p] = true
		}
		for _, p := range []int{-2, -1, 0, 1, 2, 21, 22, 23, 24} {
			precs[p] = true
		}
		around := func(c int) {
			for d := -3; d <= 3; d++ {
				precs[c+d] = true
			}
		}
		around(-323)
		around(-308)
		around(308)
		if finiteF(v) && v != 0 {
			lg := int(math.Floor(math.Log10(math.Abs(v))))
			around(308 - lg)
			around(15 - lg)
			around(-lg)
		}
		for prec := range precs {
			for _, even := range []bool{false, true} {
				name, f := "scalar.Round", scalar.Round
				if even {
					name, f = "scalar.RoundEven", scalar.RoundEven
				}
				got := f(v, prec)
				x.t.eval(name+"|grid|"+gcls(v), true)
				rp := map[string]any{"x": v, "prec": prec}
				switch {
				case v != v:
					if got == got {
						x.bad(name, "NaN", "special-case", rp, "got %v", got)
					}
					continue
				case math.IsInf(v, 0):
					if got != v {
						x.bad(name, "Inf", "special-case", rp, "got %v", got)
					}
					continue
				case v == 0:
					if got != 0 || math.Signbit(got) {
						x.bad(name, "zero", "special-case", rp, "got %s", fmtf(got))
					}
					continue
				}
				want, nearHalf := refRound(v, prec, even)
				if got == want {
					continue
				}
				pow := math.Pow10(prec)
				regime := "pow-exact"
				switch {
				case math.IsInf(v*pow, 0) && !math.IsInf(pow, 0):
					regime = "x*pow-overflows"
				case math.IsInf(pow, 0):
					regime = "pow-overflows"
				case pow == 0:
					regime = "pow-underflows"
				case pow < 0x1p-1022:
					regime = "pow-subnormal"
				case prec > 22 || prec < -22:
					regime = "pow-inexact"
				}
				if !finiteF(got) || (got == 0 && want != 0) {
					if !(math.IsInf(want, 0) && got == want) {
						x.bad(name, regime, "non-finite-or-zero-for-finite-answer", rp, "%s(%v, %d) = %v, exact decimal rounding gives %v", name, v, prec, got, want)
						continue
					}
				}
				if regime == "pow-overflows" && got == v {
					// prec > 308: 10^prec is not a float64 and the implementation
					// returns x unchanged; exact for every x >= 2^-1022·2^52 or so,
					// a limitation (not Inf/NaN/0) for tiny x that still has digits
					// beyond prec
					continue
				}
				ulps := int64(1)
				switch regime {
				case "pow-inexact":
					ulps = 2
				case "pow-subnormal":
					ulps = 1 << 62
					if rel := 0x1p-1074 / pow * 4; math.Abs(got-want) <= rel*math.Abs(want)+0x1p-1074 {
						continue
					}
				}
				if vrt.ULPDiff(got, want) <= ulps {
					continue
				}
				if nearHalf {
					step := math.Pow10(-prec)
					if math.Abs(math.Abs(got-want)-step) <= 8*vrt.Eps64*(math.Abs(want)+step) {
						continue
					}
				}
				x.bad(name, regime, "not-the-rounded-value", rp, "%s(%v, %d) = %v, exact decimal rounding gives %v", name, v, prec, got, want)
			}
			// cscalar delegates component-wise
			z := complex(v, -v)
			for _, even := range []bool{false, true} {
				name, f, fr := "cscalar.Round", cscalar.Round, scalar.Round
				if even {
					name, f, fr = "cscalar.RoundEven", cscalar.RoundEven, scalar.RoundEven
				}
				w := complex(fr(v, prec), fr(-v, prec))
				if z == 0 {
					w = 0
				}
				if g := f(z, prec); !same(g, w) {
					x.bad(name, "grid", "not-componentwise-Round", map[string]any{"x": v, "prec": prec}, "%v -> %v want %v", z, g, w)
				}
				x.t.eval(name+"|grid", true)
			}
		}
	}
}

func indexOfHostile(a float64) int {
	for i, h := range hostile {
		if math.Float64bits(h) == math.Float64bits(a) {
			return i
		}
	}
	return 0
}

// ---- scalar multipliers / addends of the slice API --------------------------------

func gridAlpha(x *idxCtx, alpha float64) {
	for _, n := range []int{0, 1, 2, 3, 5, 9} {
		xs := make([]float64, n)
		ys := make([]float64, n)
		for i := range xs {
			xs[i] = hostile[(i*7+n)%len(hostile)]
			ys[i] = hostile[(i*5+3*n+1)%len(hostile)]
		}
		cp := func(s []float64) []float64 { return append([]float64(nil), s...) }
		rp := map[string]any{"alpha": alpha, "x": xs, "y": ys}
		chk := func(name string, got []float64, want func(i int) []float64) {
			x.t.eval(name+"|grid-alpha|"+gcls(alpha), n > 0)
			for i := range got {
				ok := false
				for _, w := range want(i) {
					ok = ok || sameF(got[i], w)
				}
				if !ok {
					x.bad(name, "grid-alpha|"+gcls(alpha), "wrong-value", rp, "element %d = %s want %s (alpha=%s x=%s y=%s)", i, fmtf(got[i]), fmtf(want(i)[0]), fmtf(alpha), fmtf(xs[i]), fmtf(ys[i]))
					return
				}
			}
		}
		d := cp(xs)
		floats.Scale(alpha, d)
		chk("floats.Scale", d, func(i int) []float64 { return []float64{alpha * xs[i]} })
		d = make([]float64, n)
		floats.ScaleTo(d, alpha, xs)
		chk("floats.ScaleTo", d, func(i int) []float64 { return []float64{alpha * xs[i]} })
		d = cp(xs)
		floats.AddConst(alpha, d)
		chk("floats.AddConst", d, func(i int) []float64 { return []float64{xs[i] + alpha} })
		d = cp(ys)
		floats.AddScaled(d, alpha, xs)
		ax := func(i int) []float64 { p := alpha * xs[i]; return []float64{p + ys[i], math.FMA(alpha, xs[i], ys[i])} }
		chk("floats.AddScaled", d, ax)
		d = make([]float64, n)
		floats.AddScaledTo(d, ys, alpha, xs)
		chk("floats.AddScaledTo", d, ax)
		// cmplxs: real scale factor and complex addend
		zs := make([]complex128, n)
		for i := range zs {
			zs[i] = complex(xs[i], ys[i])
		}
		zd := append([]complex128(nil), zs...)
		cmplxs.ScaleReal(alpha, zd)
		x.t.eval("cmplxs.ScaleReal|grid-alpha|"+gcls(alpha), n > 0)
		for i := range zd {
			if !sameF(real(zd[i]), alpha*xs[i]) || !sameF(imag(zd[i]), alpha*ys[i]) {
				x.bad("cmplxs.ScaleReal", "grid-alpha|"+gcls(alpha), "wrong-value", rp, "element %d = %v", i, zd[i])
				break
			}
		}
		zd = append([]complex128(nil), zs...)
		cmplxs.AddConst(complex(alpha, -alpha), zd)
		x.t.eval("cmplxs.AddConst|grid-alpha|"+gcls(alpha), n > 0)
		for i := range zd {
			if !sameF(real(zd[i]), xs[i]+alpha) || !sameF(imag(zd[i]), ys[i]+(-alpha)) {
				x.bad("cmplxs.AddConst", "grid-alpha|"+gcls(alpha), "wrong-value", rp, "element %d = %v", i, zd[i])
				break
			}
		}
	}
	// r2 / r3 Scale by a hostile factor: one rounding per component
	for _, c1 := range hostile {
		p2 := r2.Vec{X: c1, Y: -c1}
		if g := r2.Scale(alpha, p2); !sameF(g.X, alpha*c1) || !sameF(g.Y, alpha*-c1) {
			x.bad("r2.Scale", "grid|"+gcls(alpha, c1), "not-the-component-formula", nil, "Scale(%v,%v) = %v", alpha, p2, g)
		}
		p3 := r3.Vec{X: c1, Y: -c1, Z: 1}
		if g := r3.Scale(alpha, p3); !sameF(g.X, alpha*c1) || !sameF(g.Y, alpha*-c1) || !sameF(g.Z, alpha*1) {
			x.bad("r3.Scale", "grid|"+gcls(alpha, c1), "not-the-component-formula", nil, "Scale(%v,%v) = %v", alpha, p3, g)
		}
		x.t.eval("r2.Scale|grid|"+gcls(alpha, c1), true)
		x.t.eval("r3.Scale|grid|"+gcls(alpha, c1), true)
	}
}

// ---- Within over sorted subsets of the grid ---------------------------------------

func gridWithin(x *idxCtx) {
	var pool []float64
	for _, v := range hostile {
		if v == v {
			pool = append(pool, v)
		}
	}
	sort.Float64s(pool)
	for i := 0; i < len(pool); i++ {
		for j := i; j < len(pool); j++ {
			for k := j; k < len(pool); k += 3 {
				for _, s := range [][]float64{{pool[i], pool[j]}, {pool[i], pool[j], pool[k]}, {pool[i], pool[i], pool[j], pool[k]}} {
					for _, v := range hostile {
						var got int
						_, pan := tryPanics(func() { got = floats.Within(s, v) })
						x.t.eval("floats.Within|grid|"+gcls(v), true)
						if pan {
							x.bad("floats.Within", "grid", "panic-on-sorted-input", map[string]any{"s": s, "v": v}, "s=%v v=%v", s, v)
						} else if want := refWithin(s, v); got != want {
							x.bad("floats.Within", "grid|"+gcls(v), "not-first-bracketing-index", map[string]any{"s": s, "v": v}, "s=%v v=%v got %d want %d", s, v, got, want)
						}
					}
				}
			}
		}
	}
	for _, s := range [][]float64{nil, {}, {1}} {
		if _, pan := tryPanics(func() { floats.Within(s, 1) }); !pan {
			x.bad("floats.Within", "short", "no-panic-on-short-slice", nil, "len %d", len(s))
		}
	}
}

// ---- ParseWithNA over hostile strings ------------------------------------------------

func gridParse(x *idxCtx) {
	strs := []string{"", "NA", "NaN", "nan", "Inf", "-Inf", "+inf", "infinity", "1e400", "-1e400", "1e-400", "0x1p-2", " 1", "1 ", "1_0", "-0", "+0", ".5", "5.", "1e", "4.9e-324", "1.7976931348623157e308", "1.7976931348623159e308"}
	for _, s := range strs {
		for _, missing := range []string{"", "NA", "NaN", "-0", s} {
			v, w, err := scalar.ParseWithNA(s, missing)
			x.t.eval("scalar.ParseWithNA|grid", true)
			if s == missing {
				if v != 0 || w != 0 || err != nil {
					x.bad("scalar.ParseWithNA", "missing", "wrong-value-or-weight", nil, "%q missing %q -> %v %v %v", s, missing, v, w, err)
				}
				continue
			}
			wv, werr := strconv.ParseFloat(s, 64)
			ww := 0.0
			if werr == nil {
				ww = 1
			}
			if !sameF(v, wv) || w != ww || (err == nil) != (werr == nil) {
				x.bad("scalar.ParseWithNA", "grid", "differs-from-ParseFloat", nil, "%q missing %q -> %v %v %v want %v %v %v", s, missing, v, w, err, wv, ww, werr)
			}
		}
	}
	for _, s := range []string{"", "NA", "1", "(1+2i)", "1+2i", "-0-0i", "(1e300-1e-300i)", "2i", "i", "(", "(1+2i", "1+2j", "NaN", "Inf"} {
		v, w, err := cscalar.ParseWithNA(s, "NA")
		x.t.eval("cscalar.ParseWithNA|grid", true)
		if s == "NA" {
			if v != 0 || w != 0 || err != nil {
				x.bad("cscalar.ParseWithNA", "missing", "wrong-value-or-weight", nil, "%q -> %v %v %v", s, v, w, err)
			}
			continue
		}
		if (err == nil) != (w == 1) || (err != nil && w != 0) {
			x.bad("cscalar.ParseWithNA", "grid", "weight-does-not-follow-error", nil, "%q -> %v %v %v", s, v, w, err)
		}
		// (the package's own grammar maps "inf"/"nan" to cmplx.Inf()/cmplx.NaN(); only numbers are compared)
		if wv, werr := strconv.ParseComplex(s, 128); werr == nil && err == nil && finite(wv) && v != wv {
			x.bad("cscalar.ParseWithNA", "grid", "differs-from-ParseComplex", nil, "%q -> %v want %v", s, v, wv)
		}
	}
}

// ---- r2 / r3: rotation angles, zero vectors ------------------------------------------

func gridSpatial(x *idxCtx) {
	zero2, zero3 := r2.Vec{}, r3.Vec{}
	nz2 := r2.Vec{X: math.Copysign(0, -1), Y: 0}
	p2, q2 := r2.Vec{X: 3, Y: -4}, r2.Vec{X: 1, Y: 2}
	p3, ax := r3.Vec{X: 3, Y: -4, Z: 12}, r3.Vec{X: 1, Y: 2, Z: -2}
	for _, v := range []r2.Vec{zero2, nz2} {
		if u := r2.Unit(v); u.X == u.X || u.Y == u.Y {
			x.bad("r2.Unit", "zero-vector", "zero-vector-not-NaN", nil, "Unit(%v) = %v", v, u)
		}
		if c := r2.Cos(v, p2); c == c {
			x.bad("r2.Cos", "zero-vector", "not-NaN", nil, "Cos(0,p) = %v (0/0 by the documented quotient)", c)
		}
	}
	if u := r3.Unit(zero3); u.X == u.X || u.Y == u.Y || u.Z == u.Z {
		x.bad("r3.Unit", "zero-vector", "zero-vector-not-NaN", nil, "Unit(0) = %v", u)
	}
	if c := r3.Cos(zero3, p3); c == c {
		x.bad("r3.Cos", "zero-vector", "not-NaN", nil, "Cos(0,p) = %v", c)
	}
	x.t.eval("r2.Unit|zero-vector", true)
	x.t.eval("r3.Unit|zero-vector", true)
	for _, al := range []float64{0, math.Copysign(0, -1), 5e-324, 1e-300, math.Pi, -math.Pi, 2 * math.Pi, 1e6, -1e6, 1e15} {
		g := r2.Rotate(p2, al, q2)
		x.t.eval("r2.Rotate|grid-angle", true)
		sn, cs := math.Sincos(al)
		ox, oy := p2.X-q2.X, p2.Y-q2.Y
		wx, wy := ox*cs-oy*sn+q2.X, ox*sn+oy*cs+q2.Y
		if al == 0 {
			wx, wy = p2.X, p2.Y
		}
		if math.Abs(g.X-wx) > 1e-14 || math.Abs(g.Y-wy) > 1e-14 {
			x.bad("r2.Rotate", "grid-angle", "outside-rounding-band", nil, "alpha=%v: got %v want (%v,%v)", al, g, wx, wy)
		}
		g3 := r3.Rotate(p3, al, ax)
		x.t.eval("r3.Rotate|grid-angle", true)
		k := r3.Scale(1.0/3, ax) // |ax| = 3
		kd := r3.Dot(k, p3)
		cr := r3.Cross(k, p3)
		w3 := r3.Add(r3.Add(r3.Scale(cs, p3), r3.Scale(sn, cr)), r3.Scale(kd*(1-cs), k))
		if al == 0 {
			w3 = p3
		}
		if d := r3.Norm(r3.Sub(g3, w3)); !(d <= 1e-13) {
			x.bad("r3.Rotate", "grid-angle", "outside-rounding-band", nil, "alpha=%v: got %v want %v", al, g3, w3)
		}
	}
	_ = fmt.Sprint
}
