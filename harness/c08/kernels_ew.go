package main

import (
	"gonum.org/v1/gonum/internal/asm/c128"
	"gonum.org/v1/gonum/internal/asm/c64"
	"gonum.org/v1/gonum/internal/asm/f32"
	"gonum.org/v1/gonum/internal/asm/f64"
)

// realEW lists the element-wise kernels shared by f64 and f32.
type realEW[F fnum] struct {
	pkg           string
	axpyUnitary   func(alpha F, x, y []F)
	axpyUnitaryTo func(dst []F, alpha F, x, y []F)
	axpyInc       func(alpha F, x, y []F, n, incX, incY, ix, iy uintptr)
	axpyIncTo     func(dst []F, incDst, idst uintptr, alpha F, x, y []F, n, incX, incY, ix, iy uintptr)
	scalUnitary   func(alpha F, x []F)
	scalUnitaryTo func(dst []F, alpha F, x []F)
	scalInc       func(alpha F, x []F, n, incX uintptr)
	scalIncTo     func(dst []F, incDst uintptr, alpha F, x []F, n, incX uintptr)
	add           func(dst, s []F)
	addConst      func(alpha F, x []F)
	div           func(dst, s []F)
	divTo         func(dst, s, t []F) []F
}

func realEWKernels[F fnum](f realEW[F]) []*ewKernel[F] {
	var l []*ewKernel[F]
	p := f.pkg + "."
	l = append(l,
		&ewKernel[F]{name: p + "AxpyUnitary", nsrc: 1, readsDst: true, scalar: true, maxExp: 140,
			call: func(a *ewArgs[F]) { f.axpyUnitary(a.alpha, a.x.unit(), a.dst.unit()) },
			ref:  func(alpha, d, x, y F) cand[F] { return refAxpyR(alpha, x, d) }},
		&ewKernel[F]{name: p + "AxpyUnitaryTo", nsrc: 2, scalar: true, maxExp: 140, aliasX: true, aliasY: true,
			call: func(a *ewArgs[F]) { f.axpyUnitaryTo(a.dst.unit(), a.alpha, a.x.unit(), a.y.unit()) },
			ref:  func(alpha, d, x, y F) cand[F] { return refAxpyR(alpha, x, y) }},
		&ewKernel[F]{name: p + "AxpyInc", nsrc: 1, readsDst: true, scalar: true, maxExp: 140, strided: true, negInc: true,
			call: func(a *ewArgs[F]) {
				xs, ix := a.x.view()
				ys, iy := a.dst.view()
				f.axpyInc(a.alpha, xs, ys, uintptr(a.n), a.x.uinc(), a.dst.uinc(), ix, iy)
			},
			ref: func(alpha, d, x, y F) cand[F] { return refAxpyR(alpha, x, d) }},
		&ewKernel[F]{name: p + "AxpyIncTo", nsrc: 2, scalar: true, maxExp: 140, strided: true, negInc: true,
			call: func(a *ewArgs[F]) {
				ds, id := a.dst.view()
				xs, ix := a.x.view()
				ys, iy := a.y.view()
				f.axpyIncTo(ds, a.dst.uinc(), id, a.alpha, xs, ys, uintptr(a.n), a.x.uinc(), a.y.uinc(), ix, iy)
			},
			ref: func(alpha, d, x, y F) cand[F] { return refAxpyR(alpha, x, y) }},
		&ewKernel[F]{name: p + "ScalUnitary", exact: true, readsDst: true, scalar: true, maxExp: 300,
			call: func(a *ewArgs[F]) { f.scalUnitary(a.alpha, a.dst.unit()) },
			ref:  func(alpha, d, x, y F) cand[F] { return c1(F(alpha * d)) }},
		&ewKernel[F]{name: p + "ScalUnitaryTo", exact: true, nsrc: 1, scalar: true, maxExp: 300, aliasX: true,
			call: func(a *ewArgs[F]) { f.scalUnitaryTo(a.dst.unit(), a.alpha, a.x.unit()) },
			ref:  func(alpha, d, x, y F) cand[F] { return c1(F(alpha * x)) }},
		&ewKernel[F]{name: p + "ScalInc", exact: true, readsDst: true, scalar: true, maxExp: 300, strided: true,
			call: func(a *ewArgs[F]) { f.scalInc(a.alpha, a.dst.from(), uintptr(a.n), a.dst.uinc()) },
			ref:  func(alpha, d, x, y F) cand[F] { return c1(F(alpha * d)) }},
		&ewKernel[F]{name: p + "ScalIncTo", exact: true, nsrc: 1, scalar: true, maxExp: 300, strided: true,
			call: func(a *ewArgs[F]) {
				f.scalIncTo(a.dst.from(), a.dst.uinc(), a.alpha, a.x.from(), uintptr(a.n), a.x.uinc())
			},
			ref: func(alpha, d, x, y F) cand[F] { return c1(F(alpha * x)) }},
	)
	if f.add != nil {
		l = append(l,
			&ewKernel[F]{name: p + "Add", exact: true, nsrc: 1, readsDst: true, maxExp: 307,
				call: func(a *ewArgs[F]) { f.add(a.dst.unit(), a.x.unit()) },
				ref:  func(alpha, d, x, y F) cand[F] { return c1(F(d + x)) }},
			&ewKernel[F]{name: p + "AddConst", exact: true, readsDst: true, scalar: true, maxExp: 307,
				call: func(a *ewArgs[F]) { f.addConst(a.alpha, a.dst.unit()) },
				ref:  func(alpha, d, x, y F) cand[F] { return c1(F(d + alpha)) }},
			&ewKernel[F]{name: p + "Div", exact: true, nsrc: 1, readsDst: true, maxExp: 307,
				call: func(a *ewArgs[F]) { f.div(a.dst.unit(), a.x.unit()) },
				ref:  func(alpha, d, x, y F) cand[F] { return c1(F(d / x)) }},
			&ewKernel[F]{name: p + "DivTo", exact: true, nsrc: 2, maxExp: 307, aliasX: true, aliasY: true,
				call: func(a *ewArgs[F]) { f.divTo(a.dst.unit(), a.x.unit(), a.y.unit()) },
				ref:  func(alpha, d, x, y F) cand[F] { return c1(F(x / y)) }},
		)
	}
	return l
}

func f64EWKernels() []*ewKernel[float64] {
	return realEWKernels(realEW[float64]{pkg: "f64",
		axpyUnitary: f64.AxpyUnitary, axpyUnitaryTo: f64.AxpyUnitaryTo, axpyInc: f64.AxpyInc, axpyIncTo: f64.AxpyIncTo,
		scalUnitary: f64.ScalUnitary, scalUnitaryTo: f64.ScalUnitaryTo, scalInc: f64.ScalInc, scalIncTo: f64.ScalIncTo,
		add: f64.Add, addConst: f64.AddConst, div: f64.Div, divTo: f64.DivTo})
}

func f32EWKernels() []*ewKernel[float32] {
	return realEWKernels(realEW[float32]{pkg: "f32",
		axpyUnitary: f32.AxpyUnitary, axpyUnitaryTo: f32.AxpyUnitaryTo, axpyInc: f32.AxpyInc, axpyIncTo: f32.AxpyIncTo,
		scalUnitary: f32.ScalUnitary, scalUnitaryTo: f32.ScalUnitaryTo, scalInc: f32.ScalInc, scalIncTo: f32.ScalIncTo})
}

// cmplxEW lists the element-wise kernels shared by c128 and c64. R is the
// component type.
type cmplxEW[C cnum, R fnum] struct {
	pkg           string
	rname         string // name prefix of the real-scalar scal kernels (Dscal / Sscal)
	re            func(C) R
	axpyUnitary   func(alpha C, x, y []C)
	axpyUnitaryTo func(dst []C, alpha C, x, y []C)
	axpyInc       func(alpha C, x, y []C, n, incX, incY, ix, iy uintptr)
	axpyIncTo     func(dst []C, incDst, idst uintptr, alpha C, x, y []C, n, incX, incY, ix, iy uintptr)
	scalUnitary   func(alpha C, x []C)
	scalUnitaryTo func(dst []C, alpha C, x []C)
	scalInc       func(alpha C, x []C, n, incX uintptr)
	scalIncTo     func(dst []C, incDst uintptr, alpha C, x []C, n, incX uintptr)
	rscalUnitary  func(alpha R, x []C)
	rscalInc      func(alpha R, x []C, n, inc uintptr)
	add           func(dst, s []C)
	addConst      func(alpha C, x []C)
	div           func(dst, s []C)
	divTo         func(dst, s, t []C) []C
}

// rscale is complex(real(v)*alpha, imag(v)*alpha): one rounding per component.
func rscale[C cnum](alpha, v C) C {
	ar, _ := parts(alpha)
	vr, vi := parts(v)
	if isSingle[C]() {
		return fromParts[C](float64(float32(vr)*float32(ar)), float64(float32(vi)*float32(ar)))
	}
	return fromParts[C](vr*ar, vi*ar)
}

func cmplxEWKernels[C cnum, R fnum](f cmplxEW[C, R]) []*ewKernel[C] {
	p := f.pkg + "."
	// complex products: the exact value must stay representable.
	// (single precision exponents are scaled down inside genReal)
	const me = 70
	const meS = me
	return []*ewKernel[C]{
		{name: p + "AxpyUnitary", nsrc: 1, readsDst: true, scalar: true, maxExp: meS,
			call: func(a *ewArgs[C]) { f.axpyUnitary(a.alpha, a.x.unit(), a.dst.unit()) },
			ref:  func(alpha, d, x, y C) cand[C] { return refAxpyC(alpha, x, d) }},
		{name: p + "AxpyUnitaryTo", nsrc: 2, scalar: true, maxExp: meS, aliasX: true, aliasY: true,
			call: func(a *ewArgs[C]) { f.axpyUnitaryTo(a.dst.unit(), a.alpha, a.x.unit(), a.y.unit()) },
			ref:  func(alpha, d, x, y C) cand[C] { return refAxpyC(alpha, x, y) }},
		{name: p + "AxpyInc", nsrc: 1, readsDst: true, scalar: true, maxExp: meS, strided: true, negInc: true,
			call: func(a *ewArgs[C]) {
				xs, ix := a.x.view()
				ys, iy := a.dst.view()
				f.axpyInc(a.alpha, xs, ys, uintptr(a.n), a.x.uinc(), a.dst.uinc(), ix, iy)
			},
			ref: func(alpha, d, x, y C) cand[C] { return refAxpyC(alpha, x, d) }},
		{name: p + "AxpyIncTo", nsrc: 2, scalar: true, maxExp: meS, strided: true, negInc: true,
			call: func(a *ewArgs[C]) {
				ds, id := a.dst.view()
				xs, ix := a.x.view()
				ys, iy := a.y.view()
				f.axpyIncTo(ds, a.dst.uinc(), id, a.alpha, xs, ys, uintptr(a.n), a.x.uinc(), a.y.uinc(), ix, iy)
			},
			ref: func(alpha, d, x, y C) cand[C] { return refAxpyC(alpha, x, y) }},
		{name: p + "ScalUnitary", readsDst: true, scalar: true, maxExp: meS,
			call: func(a *ewArgs[C]) { f.scalUnitary(a.alpha, a.dst.unit()) },
			ref:  func(alpha, d, x, y C) cand[C] { return refMulC(d, alpha) }},
		{name: p + "ScalUnitaryTo", nsrc: 1, scalar: true, maxExp: meS, aliasX: true,
			call: func(a *ewArgs[C]) { f.scalUnitaryTo(a.dst.unit(), a.alpha, a.x.unit()) },
			ref:  func(alpha, d, x, y C) cand[C] { return refMulC(alpha, x) }},
		{name: p + "ScalInc", readsDst: true, scalar: true, maxExp: meS, strided: true,
			call: func(a *ewArgs[C]) { f.scalInc(a.alpha, a.dst.from(), uintptr(a.n), a.dst.uinc()) },
			ref:  func(alpha, d, x, y C) cand[C] { return refMulC(d, alpha) }},
		{name: p + "ScalIncTo", nsrc: 1, scalar: true, maxExp: meS, strided: true,
			call: func(a *ewArgs[C]) {
				f.scalIncTo(a.dst.from(), a.dst.uinc(), a.alpha, a.x.from(), uintptr(a.n), a.x.uinc())
			},
			ref: func(alpha, d, x, y C) cand[C] { return refMulC(alpha, x) }},
		{name: p + f.rname + "Unitary", exact: true, readsDst: true, scalar: true, maxExp: 300 * meS / me,
			call: func(a *ewArgs[C]) { f.rscalUnitary(f.re(a.alpha), a.dst.unit()) },
			ref:  func(alpha, d, x, y C) cand[C] { return c1(rscale(alpha, d)) }},
		{name: p + f.rname + "Inc", exact: true, readsDst: true, scalar: true, maxExp: 300 * meS / me, strided: true,
			call: func(a *ewArgs[C]) { f.rscalInc(f.re(a.alpha), a.dst.from(), uintptr(a.n), a.dst.uinc()) },
			ref:  func(alpha, d, x, y C) cand[C] { return c1(rscale(alpha, d)) }},
		{name: p + "Add", exact: true, nsrc: 1, readsDst: true, maxExp: 300 * meS / me,
			call: func(a *ewArgs[C]) { f.add(a.dst.unit(), a.x.unit()) },
			ref:  func(alpha, d, x, y C) cand[C] { return c1(d + x) }},
		{name: p + "AddConst", exact: true, readsDst: true, scalar: true, maxExp: 300 * meS / me,
			call: func(a *ewArgs[C]) { f.addConst(a.alpha, a.dst.unit()) },
			ref:  func(alpha, d, x, y C) cand[C] { return c1(d + alpha) }},
		// Complex division: Go's operator is the scalar definition; the
		// kernels are plain Go in every build, so this checks lengths,
		// offsets and aliasing rather than arithmetic.
		{name: p + "Div", exact: true, nsrc: 1, readsDst: true, maxExp: meS,
			call: func(a *ewArgs[C]) { f.div(a.dst.unit(), a.x.unit()) },
			ref:  func(alpha, d, x, y C) cand[C] { return c1(d / x) }},
		{name: p + "DivTo", exact: true, nsrc: 2, maxExp: meS, aliasX: true, aliasY: true,
			call: func(a *ewArgs[C]) { f.divTo(a.dst.unit(), a.x.unit(), a.y.unit()) },
			ref:  func(alpha, d, x, y C) cand[C] { return c1(x / y) }},
	}
}

func c128EWKernels() []*ewKernel[complex128] {
	return cmplxEWKernels(cmplxEW[complex128, float64]{pkg: "c128", rname: "Dscal", re: func(c complex128) float64 { return real(c) },
		axpyUnitary: c128.AxpyUnitary, axpyUnitaryTo: c128.AxpyUnitaryTo, axpyInc: c128.AxpyInc, axpyIncTo: c128.AxpyIncTo,
		scalUnitary: c128.ScalUnitary, scalUnitaryTo: c128.ScalUnitaryTo, scalInc: c128.ScalInc, scalIncTo: c128.ScalIncTo,
		rscalUnitary: c128.DscalUnitary, rscalInc: c128.DscalInc,
		add: c128.Add, addConst: c128.AddConst, div: c128.Div, divTo: c128.DivTo})
}

func c64EWKernels() []*ewKernel[complex64] {
	return cmplxEWKernels(cmplxEW[complex64, float32]{pkg: "c64", rname: "Sscal", re: func(c complex64) float32 { return real(c) },
		axpyUnitary: c64.AxpyUnitary, axpyUnitaryTo: c64.AxpyUnitaryTo, axpyInc: c64.AxpyInc, axpyIncTo: c64.AxpyIncTo,
		scalUnitary: c64.ScalUnitary, scalUnitaryTo: c64.ScalUnitaryTo, scalInc: c64.ScalInc, scalIncTo: c64.ScalIncTo,
		rscalUnitary: c64.SscalUnitary, rscalInc: c64.SscalInc,
		add: c64.Add, addConst: c64.AddConst, div: c64.Div, divTo: c64.DivTo})
}
