package main

import (
	"fmt"
	"math"
	"sync"
	"unsafe"

	"gonum.org/v1/gonum/verifx/vrt"
)

// ---------------------------------------------------------------------------
// numeric type plumbing
// ---------------------------------------------------------------------------

type fnum interface{ ~float32 | ~float64 }
type cnum interface{ ~complex64 | ~complex128 }
type num interface {
	~float32 | ~float64 | ~complex64 | ~complex128
}

// parts returns the value widened to (re, im) float64 components. The
// widening conversions are injective on everything this monitor stores
// (all non-NaN values and quiet NaNs), so parts is a faithful key for
// "this word has not been modified".
func parts[T num](v T) (re, im float64) {
	switch unsafe.Sizeof(v) {
	case 4:
		return float64(*(*float32)(unsafe.Pointer(&v))), 0
	case 8:
		if isComplex[T]() {
			c := *(*complex64)(unsafe.Pointer(&v))
			return float64(real(c)), float64(imag(c))
		}
		return *(*float64)(unsafe.Pointer(&v)), 0
	default:
		c := *(*complex128)(unsafe.Pointer(&v))
		return real(c), imag(c)
	}
}

func isComplex[T num]() bool {
	var z T
	switch any(z).(type) {
	case complex64, complex128:
		return true
	}
	return false
}

// isSingle reports whether T has float32 components.
func isSingle[T num]() bool {
	var z T
	switch any(z).(type) {
	case float32, complex64:
		return true
	}
	return false
}

// fromParts builds a T from float64 components (rounding to float32
// components when T is single precision).
func fromParts[T num](re, im float64) T {
	var z T
	switch p := any(&z).(type) {
	case *float32:
		*p = float32(re)
	case *float64:
		*p = re
	case *complex64:
		*p = complex(float32(re), float32(im))
	case *complex128:
		*p = complex(re, im)
	}
	return z
}

// unit roundoff of the component type of T.
func unitRoundoff[T num]() float64 {
	if isSingle[T]() {
		return vrt.Eps32
	}
	return vrt.Eps64
}

// tiniest positive subnormal of the component type (absolute error of one
// underflowing operation).
func tinyOf[T num]() float64 {
	if isSingle[T]() {
		return 0x1p-149
	}
	return 0x1p-1074
}

// canonBits maps a float64 to its bit pattern with all NaNs collapsed to one
// pattern: NaN-ness is compared, NaN payload and NaN sign are not (IEEE 754
// leaves them to the implementation; SSE and the Go compiler pick different
// operands to propagate).
func canonBits(f float64) uint64 {
	if f != f {
		return 0x7ff8000000000001
	}
	return math.Float64bits(f)
}

// sameF reports bit-identity up to NaN payload: signed zeros are distinct.
func sameF(a, b float64) bool { return canonBits(a) == canonBits(b) }

// same is sameF on both components.
func same[T num](a, b T) bool {
	ar, ai := parts(a)
	br, bi := parts(b)
	return sameF(ar, br) && sameF(ai, bi)
}

func finiteF(f float64) bool { return !math.IsNaN(f) && !math.IsInf(f, 0) }

func finite[T num](a T) bool {
	r, i := parts(a)
	return finiteF(r) && finiteF(i)
}

// withinBand reports |got-want| <= tol componentwise; a non-finite want
// demands the same class (NaN / same signed infinity) from got.
func withinBand[T num](got, want T, tol float64) bool {
	gr, gi := parts(got)
	wr, wi := parts(want)
	return bandF(gr, wr, tol) && bandF(gi, wi, tol)
}

func bandF(got, want, tol float64) bool {
	if !finiteF(want) || !finiteF(got) {
		return sameF(got, want)
	}
	return math.Abs(got-want) <= tol
}

func fmtv[T num](v T) string {
	r, i := parts(v)
	if isComplex[T]() {
		return fmt.Sprintf("(%s,%s)", fmtf(r), fmtf(i))
	}
	return fmtf(r)
}

func fmtf(f float64) string {
	if f != f {
		return fmt.Sprintf("NaN[%#x]", math.Float64bits(f))
	}
	if f == 0 && math.Signbit(f) {
		return "-0"
	}
	return fmt.Sprintf("%v[%#x]", f, math.Float64bits(f))
}

// ---------------------------------------------------------------------------
// guard-page region pool (mmap is too slow to do per case)
// ---------------------------------------------------------------------------

const (
	smallRegion = 32 << 10
	largeRegion = 2 << 20
)

// A plain free list (not sync.Pool: a pool drops entries at GC, which would
// leak the mappings).
var (
	regionMu   sync.Mutex
	regionFree [2][]*vrt.GuardRegion
)

func getRegion(nbytes int) (*vrt.GuardRegion, int) {
	cls, size := 0, smallRegion
	if nbytes > smallRegion {
		cls, size = 1, largeRegion
	}
	if nbytes > largeRegion {
		g, err := vrt.NewGuardRegion(nbytes)
		if err != nil {
			panic(err)
		}
		return g, -1
	}
	regionMu.Lock()
	if l := regionFree[cls]; len(l) > 0 {
		g := l[len(l)-1]
		regionFree[cls] = l[:len(l)-1]
		regionMu.Unlock()
		return g, cls
	}
	regionMu.Unlock()
	g, err := vrt.NewGuardRegion(size)
	if err != nil {
		panic(err)
	}
	return g, cls
}

func putRegion(g *vrt.GuardRegion, cls int) {
	if cls < 0 {
		g.Free()
		return
	}
	regionMu.Lock()
	regionFree[cls] = append(regionFree[cls], g)
	regionMu.Unlock()
}

// guardedSlice returns n elements of T flush against the trailing guard page
// (tail) or right behind the leading guard page (!tail) of a pooled region.
func guardedSlice[T num](n int, tail bool) ([]T, func()) {
	var z T
	sz := int(unsafe.Sizeof(z))
	g, cls := getRegion(n*sz + 64)
	release := func() { putRegion(g, cls) }
	if n == 0 {
		return []T{}, release
	}
	// Carve through the widest accessor and reinterpret: all element sizes
	// divide the page size, so the tail stays flush.
	var base unsafe.Pointer
	if tail {
		b := g.Float32sTail(n * sz / 4)
		base = unsafe.Pointer(&b[0])
	} else {
		b := g.Float32sHead(n * sz / 4)
		base = unsafe.Pointer(&b[0])
	}
	return unsafe.Slice((*T)(base), n), release
}

// ---------------------------------------------------------------------------
// operand buffers
// ---------------------------------------------------------------------------

type placeMode int

const (
	// pmHeap: interior placement: taint words before (the start offset) and
	// heapPad taint words after the operand. The array lives at the head of
	// a guard region too (not on the Go heap): a kernel that runs away past
	// the pad tramples only the rest of the private mapping and then faults,
	// instead of corrupting the monitor's heap.
	pmHeap placeMode = iota
	pmTail           // last addressed element flush against a PROT_NONE page
	pmHead           // first addressed element right behind a PROT_NONE page
)

func (m placeMode) String() string { return [...]string{"interior", "guard-tail", "guard-head"}[m] }

const heapPad = 9

// buf is one vector operand: n logical elements living inside a NaN-tainted
// array at a start offset and increment. Logical element k is
// arr[start + k*inc]; for inc < 0 start is the highest addressed index.
type buf[T num] struct {
	arr   []T
	snap  []T
	n     int
	inc   int
	off   int // number of taint words before the lowest addressed element
	start int
	base  int // the callee is handed arr[base:]; its index of element 0 is start-base
	free  func()
}

func taintOf[T num](i int) T {
	t := vrt.Taint(i)
	if isSingle[T]() {
		t32 := float64(vrt.Taint32(i))
		return fromParts[T](t32, t32)
	}
	return fromParts[T](t, t)
}

func absInt(a int) int {
	if a < 0 {
		return -a
	}
	return a
}

// newBuf places data (logical order) according to (mode, off, inc).
func newBuf[T num](data []T, off, inc int, mode placeMode) *buf[T] {
	n := len(data)
	ai := absInt(inc)
	if ai == 0 {
		panic("inc 0")
	}
	span := 0
	if n > 0 {
		span = (n-1)*ai + 1
	}
	pad := heapPad
	switch mode {
	case pmTail:
		pad = 0
	case pmHead:
		off = 0
	}
	L := off + span + pad
	b := &buf[T]{n: n, inc: inc, off: off}
	switch mode {
	case pmHeap:
		b.arr, b.free = guardedSlice[T](L, false)
	case pmTail:
		b.arr, b.free = guardedSlice[T](L, true)
	case pmHead:
		b.arr, b.free = guardedSlice[T](L, false)
	}
	for i := range b.arr {
		b.arr[i] = taintOf[T](i)
	}
	if inc > 0 {
		b.start = off
	} else {
		b.start = off + span - 1
		if n == 0 {
			b.start = off
		}
	}
	for k, v := range data {
		b.arr[b.start+k*inc] = v
	}
	b.snap = make([]T, L)
	copy(b.snap, b.arr)
	return b
}

func (b *buf[T]) release() {
	if b.free != nil {
		b.free()
		b.free = nil
	}
}

// unit returns the unit-stride view holding exactly the logical elements.
func (b *buf[T]) unit() []T {
	if b.inc != 1 {
		panic("unit view of strided buffer")
	}
	return b.arr[b.off : b.off+b.n : b.off+b.n]
}

// from returns arr[off:], the view for kernels that take (x, n, incX)
// without a start index.
func (b *buf[T]) from() []T { return b.arr[b.off:] }

// view returns the slice and start index for kernels that take (x, ix).
func (b *buf[T]) view() ([]T, uintptr) { return b.arr[b.base:], uintptr(b.start - b.base) }

func (b *buf[T]) uinc() uintptr { return uintptr(b.inc) }

func (b *buf[T]) get(k int) T { return b.arr[b.start+k*b.inc] }
func (b *buf[T]) old(k int) T { return b.snap[b.start+k*b.inc] }

// logical reports whether array position p holds a logical element.
func (b *buf[T]) logical(p int) bool {
	if b.n == 0 {
		return false
	}
	ai := absInt(b.inc)
	lo := b.off
	hi := b.off + (b.n-1)*ai
	return p >= lo && p <= hi && (p-lo)%ai == 0
}

// firstTouched returns the first array position outside the permitted
// destination set whose content changed, or -1.
func (b *buf[T]) firstTouched(dstLogical bool) int {
	for p := range b.arr {
		if dstLogical && b.logical(p) {
			continue
		}
		if !same(b.arr[p], b.snap[p]) {
			return p
		}
		// same() collapses NaNs; taint words must keep their payload too.
		ar, ai := parts(b.arr[p])
		sr, si := parts(b.snap[p])
		if math.Float64bits(ar) != math.Float64bits(sr) || math.Float64bits(ai) != math.Float64bits(si) {
			return p
		}
	}
	return -1
}

// ---------------------------------------------------------------------------
// value classes
// ---------------------------------------------------------------------------

type vclass int

const (
	vcUniform vclass = iota
	vcInt
	vcZero
	vcSubnormal
	vcHugeTiny
	vcNaN
	vcInf
	numVClass
)

var vclassNames = [...]string{"uniform", "smallint", "signed-zero", "subnormal", "huge-tiny", "with-NaN", "with-Inf"}

func (v vclass) String() string {
	if int(v) < len(vclassNames) {
		return vclassNames[v]
	}
	return className(v) // engine-specific classes (red.go)
}

// genReal draws n float64 values of class vc. maxExp10 bounds the decimal
// exponent of the huge-tiny class (the family decides how far values can go
// without the *exact* result leaving the representable range); single
// selects float32-representable values (subnormal range of float32).
func genReal(r *vrt.Rand, vc vclass, n int, maxExp10 int, single bool) []float64 {
	s := make([]float64, n)
	if single {
		// exponent budgets are stated for float64 (1e307); scale to 1e37.
		maxExp10 = maxExp10 * 37 / 307
	}
	for i := range s {
		switch vc {
		case vcUniform:
			s[i] = r.SmallFinite()
		case vcInt:
			s[i] = float64(r.Range(-8, 8))
		case vcZero:
			switch r.Intn(5) {
			case 0, 1:
				s[i] = 0
			case 2, 3:
				s[i] = math.Copysign(0, -1)
			default:
				s[i] = r.Sym()
			}
		case vcSubnormal:
			if single {
				s[i] = math.Copysign(float64(r.Range(1, 1<<23-1))*0x1p-149, r.Sym())
			} else {
				s[i] = math.Copysign(float64(r.Uint64()>>12|1)*0x1p-1074, r.Sym())
			}
			if r.Intn(6) == 0 {
				s[i] = r.Sym()
			}
		case vcHugeTiny:
			// (1+U)·2^k, k uniform over the binary exponents of 10^±maxExp10
			kmax := maxExp10 * 3322 / 1000
			s[i] = math.Copysign(math.Ldexp(1+r.Float64(), r.Range(-kmax, kmax-1)), r.Sym())
		case vcNaN:
			s[i] = r.SmallFinite()
			if r.Intn(7) == 0 {
				s[i] = math.NaN()
			}
		case vcInf:
			s[i] = r.SmallFinite()
			if r.Intn(7) == 0 {
				s[i] = math.Inf(r.PickInt(-1, 1))
			}
		}
		if single {
			s[i] = float64(float32(s[i]))
		}
	}
	if n > 0 && vc == vcNaN {
		s[r.Intn(n)] = math.NaN()
	}
	if n > 0 && vc == vcInf {
		s[r.Intn(n)] = math.Inf(r.PickInt(-1, 1))
		if r.Bool() {
			// the first element takes the alignment-peeling path of the SIMD kernels
			s[0] = math.Inf(r.PickInt(-1, 1))
		}
	}
	return s
}

// gen draws n values of T (complex types get independent components).
func gen[T num](r *vrt.Rand, vc vclass, n int, maxExp10 int) []T {
	single := isSingle[T]()
	re := genReal(r, vc, n, maxExp10, single)
	out := make([]T, n)
	if isComplex[T]() {
		im := genReal(r, vc, n, maxExp10, single)
		for i := range out {
			out[i] = fromParts[T](re[i], im[i])
		}
		return out
	}
	for i := range out {
		out[i] = fromParts[T](re[i], 0)
	}
	return out
}

// genScalar draws the scalar argument (alpha) for class vc.
func genScalar[T num](r *vrt.Rand, vc vclass, maxExp10 int) T {
	one := func() float64 {
		switch vc {
		case vcInt:
			return float64(r.Range(-3, 3))
		case vcHugeTiny:
			return genReal(r, vc, 1, maxExp10, isSingle[T]())[0]
		case vcSubnormal:
			if r.Bool() {
				return genReal(r, vc, 1, maxExp10, isSingle[T]())[0]
			}
		case vcNaN:
			if r.Intn(8) == 0 {
				return math.NaN()
			}
		case vcInf:
			if r.Intn(8) == 0 {
				return math.Inf(r.PickInt(-1, 1))
			}
		}
		switch r.Intn(10) {
		case 0:
			return 0
		case 1:
			return 1
		case 2:
			return -1
		}
		return 2 * r.Sym()
	}
	re := one()
	im := 0.0
	if isComplex[T]() {
		im = one()
	}
	if isSingle[T]() {
		re, im = float64(float32(re)), float64(float32(im))
	}
	return fromParts[T](re, im)
}

// ---------------------------------------------------------------------------
// local evaluation tally (Ctx.Eval takes a mutex; tasks batch their counts)
// ---------------------------------------------------------------------------

type tally struct {
	c *vrt.Ctx
	m map[string]*[2]int // key -> {calls, nontrivial}
}

func newTally(c *vrt.Ctx) *tally { return &tally{c: c, m: map[string]*[2]int{}} }

func (t *tally) eval(key string, nontrivial bool) {
	e := t.m[key]
	if e == nil {
		e = new([2]int)
		t.m[key] = e
	}
	e[0]++
	if nontrivial {
		e[1]++
	}
}

func (t *tally) flush() {
	for k, e := range t.m {
		if e[1] > 0 {
			t.c.EvalN(k, e[1], true)
		}
		if e[0] > e[1] {
			t.c.EvalN(k, e[0]-e[1], false)
		}
	}
	t.m = map[string]*[2]int{}
}

func nClass(n int) string {
	switch {
	case n == 0:
		return "n0"
	case n == 1:
		return "n1"
	case n <= 3:
		return "n2-3"
	case n <= 8:
		return "n4-8"
	case n <= 16:
		return "n9-16"
	case n <= 32:
		return "n17-32"
	case n <= 70:
		return "n33-70"
	}
	return "n>70"
}

// replay is the witness object stored with a violation.
type replay struct {
	Routine string
	N       int
	Inc     []int
	Off     []int
	Place   string
	Class   string
	Alias   string
	Alpha   any
	X, Y, D any
	Got     any
	Want    any
	Index   int
	Note    string
}

// digester collects the cross-build join lines of one task, one line per
// (routine, path class, length). A line is only written when every case
// behind it passed its own oracle: the join compares builds that both
// behave, a failing case is reported by its own violation.
type digester struct {
	keys []string
	m    map[string]*digLine
}

type digLine struct {
	bits []uint64
	bad  bool
}

func newDigester() *digester { return &digester{m: map[string]*digLine{}} }

func (d *digester) add(key string, bits []uint64, ok bool) {
	l := d.m[key]
	if l == nil {
		l = &digLine{}
		d.m[key] = l
		d.keys = append(d.keys, key)
	}
	if !ok {
		l.bad = true
		return
	}
	l.bits = append(l.bits, bits...)
}

func (d *digester) flush(c *vrt.Ctx) {
	for _, k := range d.keys {
		if l := d.m[k]; !l.bad && len(l.bits) > 0 {
			c.Digest(k, "exact", l.bits...)
		}
	}
}
