package main

import (
	"fmt"
	"math"

	"gonum.org/v1/gonum/mat"
	"gonum.org/v1/gonum/spatial/r2"
	"gonum.org/v1/gonum/spatial/r3"
	"gonum.org/v1/gonum/verifx/vrt"
)

// spatial/r2 and spatial/r3 fixed-size helpers against their component
// formulas. Classes: single-rounding operations bit-identical; sums of
// products exact on small integers (also joined across the default / noasm /
// safe builds: r3.Mat has two representations) and inside
// (terms+2)·u·Σ|terms| otherwise; norms inside the 2-norm band at every
// scale.

func addSpatial(c *vrt.Ctx, ts *[]task) {
	parts := c.Pick(16, 64)
	for p := 0; p < parts; p++ {
		p := p
		*ts = append(*ts, task{"spatial", 50, func() {
			x := &idxCtx{c, newTally(c)}
			defer x.t.flush()
			runR2(x, p)
			runR3(x, p)
			runR3Mat(x, p)
			runR3MatStates(x, p)
		}})
	}
}

type valKind int

const (
	vkUniform valKind = iota
	vkInt
	vkHuge
	vkTiny
	vkZeroMix
	numValKind
)

var valKindNames = [...]string{"uniform", "smallint", "huge", "tiny", "signed-zero"}

func pickComp(r *vrt.Rand, k valKind) float64 {
	switch k {
	case vkInt:
		return float64(r.Range(-8, 8))
	case vkHuge:
		return r.Sym() * math.Pow(10, float64(r.PickInt(150, 200, 250, 300)))
	case vkTiny:
		return r.Sym() * math.Pow(10, -float64(r.PickInt(150, 200, 250, 300)))
	case vkZeroMix:
		switch r.Intn(4) {
		case 0:
			return 0
		case 1:
			return math.Copysign(0, -1)
		}
		return r.Sym()
	}
	return r.Sym() * 4
}

// sumBand checks got against Σ terms (given as exact products a_i·b_i).
func prodSum(pairs ...float64) (want float64, tol float64, a acc) {
	for i := 0; i+1 < len(pairs); i += 2 {
		a.addProd(pairs[i], pairs[i+1])
	}
	want, _ = a.value()
	tol = float64(len(pairs)/2+2)*vrt.Eps64*a.abs + 4*0x1p-1074
	return
}

func (x *idxCtx) num(routine, cls string, got, want, tol float64, exact bool, rp any) {
	if got != got && want == want && (routine == "r2.Triangle.Area" || routine == "r3.Triangle.Area") {
		x.bad(routine, "collinear", "NaN-for-degenerate-triangle", rp, "Area = NaN, want %v", want)
		return
	}
	ok := false
	switch {
	case !finiteF(want):
		ok = sameF(got, want) || !finiteF(got) // overflow in a term: representability is not promised
	case exact:
		ok = got == want
	default:
		ok = math.Abs(got-want) <= tol
	}
	if !ok {
		clause := "outside-rounding-band"
		if exact {
			clause = "inexact-on-small-integers"
		}
		x.bad(routine, cls, clause, rp, "got %s want %s (tol %g)", fmtf(got), fmtf(want), tol)
	}
}

func (x *idxCtx) bits(routine, cls string, got, want float64, rp any) {
	if !sameF(got, want) {
		x.bad(routine, cls, "not-the-component-formula", rp, "got %s want %s", fmtf(got), fmtf(want))
	}
}

func norm2Check(x *idxCtx, routine, cls string, got float64, comps []float64, rp any) {
	ok, want, clause, _ := l2check(got, comps, len(comps), vrt.Eps64, 0x1p-1074)
	if !ok {
		x.bad(routine, cls, clause, rp, "got %s want %s comps=%v", fmtf(got), fmtf(want), comps)
	}
}

// ---------------------------------------------------------------------------

func runR2(x *idxCtx, part int) {
	c := x.c
	r := c.RNG("r2", part)
	iters := c.Pick(150, 600)
	var dig []uint64
	for it := 0; it < iters; it++ {
		k := valKind(it % int(numValKind))
		cls := valKindNames[k]
		ex := k == vkInt
		v := func() r2.Vec { return r2.Vec{X: pickComp(r, k), Y: pickComp(r, k)} }
		p, q := v(), v()
		f := pickComp(r, k)
		rp := map[string]any{"p": p, "q": q, "f": f}
		ev := func(n string) { x.t.eval("r2."+n+"|"+cls, true) }

		s := r2.Add(p, q)
		x.bits("r2.Add", cls, s.X, p.X+q.X, rp)
		x.bits("r2.Add", cls, s.Y, p.Y+q.Y, rp)
		d := r2.Sub(p, q)
		x.bits("r2.Sub", cls, d.X, p.X-q.X, rp)
		x.bits("r2.Sub", cls, d.Y, p.Y-q.Y, rp)
		sc := r2.Scale(f, p)
		x.bits("r2.Scale", cls, sc.X, f*p.X, rp)
		x.bits("r2.Scale", cls, sc.Y, f*p.Y, rp)
		ev("Add")
		ev("Sub")
		ev("Scale")
		if k != vkHuge {
			w, tol, _ := prodSum(p.X, q.X, p.Y, q.Y)
			x.num("r2.Dot", cls, r2.Dot(p, q), w, tol, ex, rp)
			w, tol, _ = prodSum(p.X, q.Y, -p.Y, q.X)
			x.num("r2.Cross", cls, r2.Cross(p, q), w, tol, ex, rp)
			w, tol, _ = prodSum(p.X, p.X, p.Y, p.Y)
			x.num("r2.Norm2", cls, r2.Norm2(p), w, tol, ex, rp)
			ev("Dot")
			ev("Cross")
			ev("Norm2")
			if ex {
				dig = append(dig, canonBits(r2.Dot(p, q)+0), canonBits(r2.Cross(p, q)+0), canonBits(r2.Norm2(p)+0))
			}
		}
		norm2Check(x, "r2.Norm", cls, r2.Norm(p), []float64{p.X, p.Y}, rp)
		ev("Norm")
		// Unit: zero vector -> NaN,NaN; otherwise p/|p| (scales where 1/|p| is a normal number)
		un := r2.Unit(p)
		ev("Unit")
		if p.X == 0 && p.Y == 0 {
			if un.X == un.X || un.Y == un.Y {
				x.bad("r2.Unit", cls, "zero-vector-not-NaN", rp, "got %v", un)
			}
		} else {
			nr, _ := l2ref([]float64{p.X, p.Y})
			for i, g := range []float64{un.X, un.Y} {
				w := []float64{p.X, p.Y}[i] / nr
				if math.Abs(g-w) > 8*vrt.Eps64 {
					x.bad("r2.Unit", cls, "outside-rounding-band", rp, "comp %d got %v want %v", i, g, w)
				}
			}
		}
		if k == vkUniform || k == vkInt {
			if (p.X != 0 || p.Y != 0) && (q.X != 0 || q.Y != 0) {
				np, _ := l2ref([]float64{p.X, p.Y})
				nq, _ := l2ref([]float64{q.X, q.Y})
				w, _, _ := prodSum(p.X, q.X, p.Y, q.Y)
				x.num("r2.Cos", cls, r2.Cos(p, q), w/(np*nq), 16*vrt.Eps64, false, rp)
				ev("Cos")
			}
			// rotation about q by alpha
			alpha := r.PickFloat(0, math.Pi/2, -math.Pi/3, 1, -2.5, 3) * float64(r.PickInt(1, 1, 2))
			got := r2.Rotate(p, alpha, q)
			ev("Rotate")
			if alpha == 0 {
				x.bits("r2.Rotate", "alpha=0", got.X, p.X, rp)
				x.bits("r2.Rotate", "alpha=0", got.Y, p.Y, rp)
			} else {
				sn, cs := math.Sincos(alpha)
				ox, oy := p.X-q.X, p.Y-q.Y
				wx := ox*cs - oy*sn + q.X
				wy := ox*sn + oy*cs + q.Y
				tol := 8 * vrt.Eps64 * (math.Abs(ox) + math.Abs(oy) + math.Abs(q.X) + math.Abs(q.Y))
				if math.Abs(got.X-wx) > tol || math.Abs(got.Y-wy) > tol {
					x.bad("r2.Rotate", cls, "outside-rounding-band", rp, "alpha=%v got %v want (%v,%v)", alpha, got, wx, wy)
				}
				if g2 := r2.NewRotation(alpha, q).Rotate(p); g2 != got {
					x.bad("r2.Rotation.Rotate", cls, "differs-from-Rotate", rp, "%v vs %v", g2, got)
				}
			}
		}

		// ---- Box
		if k == vkUniform || k == vkInt || k == vkZeroMix {
			b := r2.NewBox(p.X, p.Y, q.X, q.Y)
			ev("NewBox")
			x.bits("r2.NewBox", cls, b.Min.X, math.Min(p.X, q.X), rp)
			x.bits("r2.NewBox", cls, b.Min.Y, math.Min(p.Y, q.Y), rp)
			x.bits("r2.NewBox", cls, b.Max.X, math.Max(p.X, q.X), rp)
			x.bits("r2.NewBox", cls, b.Max.Y, math.Max(p.Y, q.Y), rp)
			raw := r2.Box{Min: p, Max: q}
			cn := raw.Canon()
			if cn != b {
				x.bad("r2.Box.Canon", cls, "not-the-component-formula", rp, "got %v want %v", cn, b)
			}
			sz, ct := b.Size(), b.Center()
			x.bits("r2.Box.Size", cls, sz.X, b.Max.X-b.Min.X, rp)
			x.bits("r2.Box.Size", cls, sz.Y, b.Max.Y-b.Min.Y, rp)
			x.bits("r2.Box.Center", cls, ct.X, 0.5*(b.Min.X+b.Max.X), rp)
			x.bits("r2.Box.Center", cls, ct.Y, 0.5*(b.Min.Y+b.Max.Y), rp)
			wantEmpty := b.Min.X >= b.Max.X || b.Min.Y >= b.Max.Y
			if b.Empty() != wantEmpty {
				x.bad("r2.Box.Empty", cls, "wrong-answer", rp, "%v", b)
			}
			vs := b.Vertices()
			wantV := []r2.Vec{b.Min, {X: b.Max.X, Y: b.Min.Y}, b.Max, {X: b.Min.X, Y: b.Max.Y}}
			if len(vs) != 4 || vs[0] != wantV[0] || vs[1] != wantV[1] || vs[2] != wantV[2] || vs[3] != wantV[3] {
				x.bad("r2.Box.Vertices", cls, "wrong-order-or-values", rp, "%v", vs)
			}
			tv := v()
			ab := b.Add(tv)
			if ab.Min != r2.Add(b.Min, tv) || ab.Max != r2.Add(b.Max, tv) {
				x.bad("r2.Box.Add", cls, "not-the-component-formula", rp, "%v", ab)
			}
			b2 := r2.NewBox(pickComp(r, k), pickComp(r, k), pickComp(r, k), pickComp(r, k))
			un := b.Union(b2)
			var wantU r2.Box
			switch {
			case b.Empty():
				wantU = b2
			case b2.Empty():
				wantU = b
			default:
				wantU = r2.Box{Min: r2.Vec{X: math.Min(b.Min.X, b2.Min.X), Y: math.Min(b.Min.Y, b2.Min.Y)},
					Max: r2.Vec{X: math.Max(b.Max.X, b2.Max.X), Y: math.Max(b.Max.Y, b2.Max.Y)}}
			}
			if un != wantU {
				x.bad("r2.Box.Union", cls, "not-the-enclosing-box", rp, "%v ∪ %v = %v want %v", b, b2, un, wantU)
			}
			if !wantEmpty {
				// Contains: closed box
				for _, pt := range []r2.Vec{b.Min, b.Max, ct, {X: b.Max.X, Y: b.Min.Y}, r2.Add(b.Max, r2.Vec{X: 1}), r2.Sub(b.Min, r2.Vec{Y: 0.5}), tv} {
					want := b.Min.X <= pt.X && pt.X <= b.Max.X && b.Min.Y <= pt.Y && pt.Y <= b.Max.Y
					if b.Contains(pt) != want {
						x.bad("r2.Box.Contains", cls, "wrong-answer", rp, "%v in %v", pt, b)
					}
				}
				// Scale about the center; negative factors count as zero
				sv := r2.Vec{X: pickComp(r, vkInt) / 2, Y: pickComp(r, vkInt) / 2}
				sb := b.Scale(sv)
				hx := 0.5 * (math.Max(sv.X, 0) * sz.X)
				hy := 0.5 * (math.Max(sv.Y, 0) * sz.Y)
				wantS := r2.Box{Min: r2.Vec{X: ct.X - hx, Y: ct.Y - hy}, Max: r2.Vec{X: ct.X + hx, Y: ct.Y + hy}}
				if sb != wantS {
					x.bad("r2.Box.Scale", cls, "not-the-component-formula", rp, "%v scaled by %v = %v want %v", b, sv, sb, wantS)
				}
			}
			for _, n := range []string{"Box.Canon", "Box.Size", "Box.Center", "Box.Empty", "Box.Vertices", "Box.Add", "Box.Union", "Box.Contains", "Box.Scale"} {
				ev(n)
			}
		}

		// ---- Triangle
		if k == vkUniform || k == vkInt {
			t := r2.Triangle{p, q, v()}
			ce := t.Centroid()
			x.bits("r2.Triangle.Centroid", cls, ce.X, (1.0/3.0)*((t[0].X+t[1].X)+t[2].X), rp)
			x.bits("r2.Triangle.Centroid", cls, ce.Y, (1.0/3.0)*((t[0].Y+t[1].Y)+t[2].Y), rp)
			e1x, e1y := t[1].X-t[0].X, t[1].Y-t[0].Y
			e2x, e2y := t[2].X-t[0].X, t[2].Y-t[0].Y
			cr, _, _ := prodSum(e1x, e2y, -e1y, e2x)
			wantA := math.Abs(cr) / 2
			l := []float64{math.Hypot(e1x, e1y), math.Hypot(e2x, e2y), math.Hypot(t[2].X-t[1].X, t[2].Y-t[1].Y)}
			longest := math.Max(l[0], math.Max(l[1], l[2]))
			x.num("r2.Triangle.Area", cls, t.Area(), wantA, areaTol(wantA, longest), false, rp)
			if longest > 0 && wantA > 1e-3*longest*longest {
				h := 2 * wantA / longest
				if t.IsDegenerate(h*0.99) || !t.IsDegenerate(h*1.01) {
					x.bad("r2.Triangle.IsDegenerate", cls, "wrong-answer", rp, "height %v over the longest side: tol*0.99 -> %v, tol*1.01 -> %v", h, t.IsDegenerate(h*0.99), t.IsDegenerate(h*1.01))
				}
				ev("Triangle.IsDegenerate")
			}
			ev("Triangle.Centroid")
			ev("Triangle.Area")
			if ex {
				// directed: three distinct collinear lattice points (area exactly 0)
				dx, dy := float64(r.Range(1, 6)), float64(r.Range(-6, 6))
				k1, k2 := float64(r.Range(1, 4)), float64(r.Range(5, 9))
				ct := r2.Triangle{p, {X: p.X + k1*dx, Y: p.Y + k1*dy}, {X: p.X + k2*dx, Y: p.Y + k2*dy}}
				got := ct.Area()
				ll := k2 * math.Hypot(dx, dy)
				ev("Triangle.Area")
				switch {
				case got != got:
					x.bad("r2.Triangle.Area", "collinear", "NaN-for-degenerate-triangle", map[string]any{"t": ct}, "Area(%v) = NaN", ct)
				case got > areaTol(0, ll):
					x.bad("r2.Triangle.Area", "collinear", "outside-rounding-band", map[string]any{"t": ct}, "Area(%v) = %v", ct, got)
				}
			}
		}
	}
	c.Digest(fmt.Sprintf("r2.int|part=%d", part), "exact", dig...)
}

// ---------------------------------------------------------------------------

func v3(r *vrt.Rand, k valKind) r3.Vec {
	return r3.Vec{X: pickComp(r, k), Y: pickComp(r, k), Z: pickComp(r, k)}
}

func runR3(x *idxCtx, part int) {
	c := x.c
	r := c.RNG("r3", part)
	iters := c.Pick(150, 600)
	var dig []uint64
	for it := 0; it < iters; it++ {
		k := valKind(it % int(numValKind))
		cls := valKindNames[k]
		ex := k == vkInt
		p, q := v3(r, k), v3(r, k)
		f := pickComp(r, k)
		rp := map[string]any{"p": p, "q": q, "f": f}
		ev := func(n string) { x.t.eval("r3."+n+"|"+cls, true) }
		pc := []float64{p.X, p.Y, p.Z}
		qc := []float64{q.X, q.Y, q.Z}

		s, d, sc := r3.Add(p, q), r3.Sub(p, q), r3.Scale(f, p)
		for i, g := range [][3]float64{{s.X, d.X, sc.X}, {s.Y, d.Y, sc.Y}, {s.Z, d.Z, sc.Z}} {
			x.bits("r3.Add", cls, g[0], pc[i]+qc[i], rp)
			x.bits("r3.Sub", cls, g[1], pc[i]-qc[i], rp)
			x.bits("r3.Scale", cls, g[2], f*pc[i], rp)
		}
		ev("Add")
		ev("Sub")
		ev("Scale")
		if k != vkHuge {
			w, tol, _ := prodSum(p.X, q.X, p.Y, q.Y, p.Z, q.Z)
			x.num("r3.Dot", cls, r3.Dot(p, q), w, tol, ex, rp)
			w, tol, _ = prodSum(p.X, p.X, p.Y, p.Y, p.Z, p.Z)
			x.num("r3.Norm2", cls, r3.Norm2(p), w, tol, ex, rp)
			cr := r3.Cross(p, q)
			w, tol, _ = prodSum(p.Y, q.Z, -p.Z, q.Y)
			x.num("r3.Cross", cls, cr.X, w, tol, ex, rp)
			w, tol, _ = prodSum(p.Z, q.X, -p.X, q.Z)
			x.num("r3.Cross", cls, cr.Y, w, tol, ex, rp)
			w, tol, _ = prodSum(p.X, q.Y, -p.Y, q.X)
			x.num("r3.Cross", cls, cr.Z, w, tol, ex, rp)
			ev("Dot")
			ev("Norm2")
			ev("Cross")
			if ex {
				dig = append(dig, canonBits(r3.Dot(p, q)+0), canonBits(cr.X+0), canonBits(cr.Y+0), canonBits(cr.Z+0))
			}
		}
		norm2Check(x, "r3.Norm", cls, r3.Norm(p), pc, rp)
		ev("Norm")
		un := r3.Unit(p)
		ev("Unit")
		if p.X == 0 && p.Y == 0 && p.Z == 0 {
			if un.X == un.X || un.Y == un.Y || un.Z == un.Z {
				x.bad("r3.Unit", cls, "zero-vector-not-NaN", rp, "got %v", un)
			}
		} else {
			nr, _ := l2ref(pc)
			for i, g := range []float64{un.X, un.Y, un.Z} {
				if w := pc[i] / nr; math.Abs(g-w) > 8*vrt.Eps64 {
					x.bad("r3.Unit", cls, "outside-rounding-band", rp, "comp %d got %v want %v", i, g, w)
				}
			}
		}
		if k != vkUniform && k != vkInt {
			continue
		}
		nonzero := func(v r3.Vec) bool { return v.X != 0 || v.Y != 0 || v.Z != 0 }
		if nonzero(p) && nonzero(q) {
			np, _ := l2ref(pc)
			nq, _ := l2ref(qc)
			w, _, _ := prodSum(p.X, q.X, p.Y, q.Y, p.Z, q.Z)
			x.num("r3.Cos", cls, r3.Cos(p, q), w/(np*nq), 16*vrt.Eps64, false, rp)
			ev("Cos")
		}
		// ---- rotation by alpha about axis q (Rodrigues formula)
		if nonzero(q) {
			alpha := r.PickFloat(0, math.Pi/2, -math.Pi/3, 1, -2.5, 3, math.Pi)
			got := r3.Rotate(p, alpha, q)
			ev("Rotate")
			if alpha == 0 {
				if got != p {
					x.bad("r3.Rotate", "alpha=0", "not-identity", rp, "%v -> %v", p, got)
				}
			} else {
				nq, _ := l2ref(qc)
				kx, ky, kz := q.X/nq, q.Y/nq, q.Z/nq
				sn, cs := math.Sincos(alpha)
				kd := kx*p.X + ky*p.Y + kz*p.Z
				cx, cy, cz := ky*p.Z-kz*p.Y, kz*p.X-kx*p.Z, kx*p.Y-ky*p.X
				want := [3]float64{p.X*cs + cx*sn + kx*kd*(1-cs), p.Y*cs + cy*sn + ky*kd*(1-cs), p.Z*cs + cz*sn + kz*kd*(1-cs)}
				np, _ := l2ref(pc)
				tol := 64 * vrt.Eps64 * np
				gc := [3]float64{got.X, got.Y, got.Z}
				for i := range gc {
					if !(math.Abs(gc[i]-want[i]) <= tol) {
						x.bad("r3.Rotate", cls, "outside-rounding-band", rp, "alpha=%v axis=%v: got %v want %v", alpha, q, got, want)
						break
					}
				}
				rot := r3.NewRotation(alpha, q)
				if g2 := rot.Rotate(p); g2 != got {
					x.bad("r3.Rotation.Rotate", cls, "differs-from-Rotate", rp, "%v vs %v", g2, got)
				}
				m := rot.Mat()
				mv := m.MulVec(p)
				for i, g := range []float64{mv.X, mv.Y, mv.Z} {
					if !(math.Abs(g-want[i]) <= tol) {
						x.bad("r3.Rotation.Mat", cls, "matrix-does-not-rotate-like-Rotate", rp, "alpha=%v axis=%v: M·p=%v want %v", alpha, q, mv, want)
						break
					}
				}
				if dt := m.Det(); math.Abs(dt-1) > 64*vrt.Eps64 {
					x.bad("r3.Rotation.Mat", cls, "determinant-not-one", rp, "det=%v", dt)
				}
				ev("Rotation.Mat")
			}
		}
		// ---- Box
		b := r3.NewBox(p.X, p.Y, p.Z, q.X, q.Y, q.Z)
		wantB := r3.Box{Min: r3.Vec{X: math.Min(p.X, q.X), Y: math.Min(p.Y, q.Y), Z: math.Min(p.Z, q.Z)},
			Max: r3.Vec{X: math.Max(p.X, q.X), Y: math.Max(p.Y, q.Y), Z: math.Max(p.Z, q.Z)}}
		if b != wantB || (r3.Box{Min: p, Max: q}).Canon() != wantB {
			x.bad("r3.NewBox", cls, "not-the-component-formula", rp, "%v want %v", b, wantB)
		}
		sz, ct := b.Size(), b.Center()
		if sz != r3.Sub(b.Max, b.Min) || ct != r3.Scale(0.5, r3.Add(b.Min, b.Max)) {
			x.bad("r3.Box.Size", cls, "not-the-component-formula", rp, "size %v center %v", sz, ct)
		}
		wantEmpty := b.Min.X >= b.Max.X || b.Min.Y >= b.Max.Y || b.Min.Z >= b.Max.Z
		if b.Empty() != wantEmpty {
			x.bad("r3.Box.Empty", cls, "wrong-answer", rp, "%v", b)
		}
		vs := b.Vertices()
		mn, mx := b.Min, b.Max
		wantV := []r3.Vec{mn, {X: mx.X, Y: mn.Y, Z: mn.Z}, {X: mx.X, Y: mx.Y, Z: mn.Z}, {X: mn.X, Y: mx.Y, Z: mn.Z},
			{X: mn.X, Y: mn.Y, Z: mx.Z}, {X: mx.X, Y: mn.Y, Z: mx.Z}, mx, {X: mn.X, Y: mx.Y, Z: mx.Z}}
		okV := len(vs) == 8
		for i := 0; okV && i < 8; i++ {
			okV = vs[i] == wantV[i]
		}
		if !okV {
			x.bad("r3.Box.Vertices", cls, "wrong-order-or-values", rp, "%v", vs)
		}
		tv := v3(r, k)
		if ab := b.Add(tv); ab.Min != r3.Add(b.Min, tv) || ab.Max != r3.Add(b.Max, tv) {
			x.bad("r3.Box.Add", cls, "not-the-component-formula", rp, "%v", ab)
		}
		b2 := r3.NewBox(pickComp(r, k), pickComp(r, k), pickComp(r, k), pickComp(r, k), pickComp(r, k), pickComp(r, k))
		var wantU r3.Box
		switch {
		case b.Empty():
			wantU = b2
		case b2.Empty():
			wantU = b
		default:
			wantU = r3.Box{Min: r3.Vec{X: math.Min(mn.X, b2.Min.X), Y: math.Min(mn.Y, b2.Min.Y), Z: math.Min(mn.Z, b2.Min.Z)},
				Max: r3.Vec{X: math.Max(mx.X, b2.Max.X), Y: math.Max(mx.Y, b2.Max.Y), Z: math.Max(mx.Z, b2.Max.Z)}}
		}
		if un := b.Union(b2); un != wantU {
			x.bad("r3.Box.Union", cls, "not-the-enclosing-box", rp, "%v ∪ %v = %v", b, b2, un)
		}
		if !wantEmpty {
			for _, pt := range []r3.Vec{mn, mx, ct, r3.Add(mx, r3.Vec{Z: 1}), r3.Sub(mn, r3.Vec{X: 0.5}), tv} {
				want := mn.X <= pt.X && pt.X <= mx.X && mn.Y <= pt.Y && pt.Y <= mx.Y && mn.Z <= pt.Z && pt.Z <= mx.Z
				if b.Contains(pt) != want {
					x.bad("r3.Box.Contains", cls, "wrong-answer", rp, "%v in %v", pt, b)
				}
			}
			sv := r3.Vec{X: pickComp(r, vkInt) / 2, Y: pickComp(r, vkInt) / 2, Z: pickComp(r, vkInt) / 2}
			sb := b.Scale(sv)
			h := r3.Vec{X: 0.5 * (math.Max(sv.X, 0) * sz.X), Y: 0.5 * (math.Max(sv.Y, 0) * sz.Y), Z: 0.5 * (math.Max(sv.Z, 0) * sz.Z)}
			if sb.Min != r3.Sub(ct, h) || sb.Max != r3.Add(ct, h) {
				x.bad("r3.Box.Scale", cls, "not-the-component-formula", rp, "%v scaled by %v = %v", b, sv, sb)
			}
		}
		for _, n := range []string{"NewBox", "Box.Size", "Box.Empty", "Box.Vertices", "Box.Add", "Box.Union", "Box.Contains", "Box.Scale"} {
			ev(n)
		}
		// ---- Triangle
		t := r3.Triangle{p, q, tv}
		ce := t.Centroid()
		if ce != r3.Scale(1.0/3.0, r3.Add(r3.Add(p, q), tv)) {
			x.bad("r3.Triangle.Centroid", cls, "not-the-component-formula", rp, "%v", ce)
		}
		e1, e2 := r3.Sub(q, p), r3.Sub(tv, q)
		nrm := t.Normal()
		wn := [3]float64{}
		tn := [3]float64{}
		wn[0], tn[0], _ = prodSum(e1.Y, e2.Z, -e1.Z, e2.Y)
		wn[1], tn[1], _ = prodSum(e1.Z, e2.X, -e1.X, e2.Z)
		wn[2], tn[2], _ = prodSum(e1.X, e2.Y, -e1.Y, e2.X)
		for i, g := range []float64{nrm.X, nrm.Y, nrm.Z} {
			x.num("r3.Triangle.Normal", cls, g, wn[i], tn[i], false, rp)
		}
		nn, _ := l2ref(wn[:])
		wantA := nn / 2
		e3 := r3.Sub(p, tv)
		l1, _ := l2ref([]float64{e1.X, e1.Y, e1.Z})
		l2, _ := l2ref([]float64{e2.X, e2.Y, e2.Z})
		l3, _ := l2ref([]float64{e3.X, e3.Y, e3.Z})
		longest := math.Max(l1, math.Max(l2, l3))
		x.num("r3.Triangle.Area", cls, t.Area(), wantA, areaTol(wantA, longest), false, rp)
		if longest > 0 && wantA > 1e-3*longest*longest {
			h := 2 * wantA / longest
			if t.IsDegenerate(h*0.99) || !t.IsDegenerate(h*1.01) {
				x.bad("r3.Triangle.IsDegenerate", cls, "wrong-answer", rp, "height %v over the longest side", h)
			}
			ev("Triangle.IsDegenerate")
		}
		ev("Triangle.Centroid")
		ev("Triangle.Normal")
		ev("Triangle.Area")
		if ex {
			dvec := r3.Vec{X: float64(r.Range(1, 6)), Y: float64(r.Range(-6, 6)), Z: float64(r.Range(-6, 6))}
			k1, k2 := float64(r.Range(1, 4)), float64(r.Range(5, 9))
			ct := r3.Triangle{p, r3.Add(p, r3.Scale(k1, dvec)), r3.Add(p, r3.Scale(k2, dvec))}
			got := ct.Area()
			ll := k2 * r3.Norm(dvec)
			ev("Triangle.Area")
			switch {
			case got != got:
				x.bad("r3.Triangle.Area", "collinear", "NaN-for-degenerate-triangle", map[string]any{"t": ct}, "Area(%v) = NaN", ct)
			case got > areaTol(0, ll):
				x.bad("r3.Triangle.Area", "collinear", "outside-rounding-band", map[string]any{"t": ct}, "Area(%v) = %v", ct, got)
			}
		}

		// ---- Gradient / Divergence of affine fields (central differences are exact up to rounding)
		if ex {
			g0 := v3(r, vkInt)
			step := r3.Vec{X: 0.5, Y: 0.25, Z: 1}
			gr := r3.Gradient(p, step, func(v r3.Vec) float64 { return r3.Dot(g0, v) + 3 })
			if gr != g0 {
				x.bad("r3.Gradient", cls, "affine-field", rp, "got %v want %v", gr, g0)
			}
			a, b3, c3 := v3(r, vkInt), v3(r, vkInt), v3(r, vkInt)
			dv := r3.Divergence(p, step, func(v r3.Vec) r3.Vec { return r3.Vec{X: r3.Dot(a, v), Y: r3.Dot(b3, v), Z: r3.Dot(c3, v)} })
			if want := a.X + b3.Y + c3.Z; dv != want {
				x.bad("r3.Divergence", cls, "affine-field", rp, "got %v want %v", dv, want)
			}
			ev("Gradient")
			ev("Divergence")
		}
	}
	c.Digest(fmt.Sprintf("r3.int|part=%d", part), "exact", dig...)
}

// ---------------------------------------------------------------------------
// r3.Mat (two representations: [3][3]float64 behind unsafe, [9]float64 under -tags safe)
// ---------------------------------------------------------------------------

func matVals(r *vrt.Rand, k valKind) []float64 {
	v := make([]float64, 9)
	for i := range v {
		v[i] = pickComp(r, k)
	}
	return v
}

func matOf(m *r3.Mat) [9]float64 {
	var o [9]float64
	for i := 0; i < 3; i++ {
		for j := 0; j < 3; j++ {
			o[3*i+j] = m.At(i, j)
		}
	}
	return o
}

func runR3Mat(x *idxCtx, part int) {
	c := x.c
	r := c.RNG("r3mat", part)
	iters := c.Pick(80, 300)
	var dig []uint64
	push := func(ex bool, m [9]float64) {
		if ex {
			for _, v := range m {
				dig = append(dig, canonBits(v+0))
			}
		}
	}
	for it := 0; it < iters; it++ {
		k := []valKind{vkUniform, vkInt, vkZeroMix}[it%3]
		cls := valKindNames[k]
		ex := k == vkInt
		av, bv := matVals(r, k), matVals(r, k)
		rp := map[string]any{"a": av, "b": bv}
		ev := func(n string) { x.t.eval("r3.Mat."+n+"|"+cls, true) }
		a, b := r3.NewMat(append([]float64(nil), av...)), r3.NewMat(append([]float64(nil), bv...))
		if matOf(a) != [9]float64(av) {
			x.bad("r3.NewMat", cls, "row-major-order", rp, "got %v", matOf(a))
		}
		if rr, cc := a.Dims(); rr != 3 || cc != 3 {
			x.bad("r3.Mat.Dims", cls, "not-3x3", rp, "")
		}
		// NewMat keeps the caller's storage: a write through Set is seen by the slice
		back := append([]float64(nil), av...)
		sh := r3.NewMat(back)
		sh.Set(1, 2, 42)
		raw := sh.RawMatrix()
		if back[5] != 42 || raw.Data[5] != 42 || raw.Stride != 3 || raw.Rows != 3 || raw.Cols != 3 || len(raw.Data) != 9 {
			x.bad("r3.Mat.RawMatrix", cls, "not-a-view-of-the-elements", rp, "back=%v raw=%v", back, raw)
		}
		raw.Data[7] = -7
		if sh.At(2, 1) != -7 {
			x.bad("r3.Mat.RawMatrix", cls, "not-a-view-of-the-elements", rp, "write through RawMatrix not visible")
		}
		ev("NewMat")
		ev("RawMatrix")
		// element-wise: exact
		var m r3.Mat
		m.Add(a, b)
		g := matOf(&m)
		for i := range g {
			x.bits("r3.Mat.Add", cls, g[i], av[i]+bv[i], rp)
		}
		push(true, g)
		m.Sub(a, b)
		g = matOf(&m)
		for i := range g {
			x.bits("r3.Mat.Sub", cls, g[i], av[i]-bv[i], rp)
		}
		push(true, g)
		f := pickComp(r, k)
		m.Scale(f, a)
		g = matOf(&m)
		for i := range g {
			x.bits("r3.Mat.Scale", cls, g[i], f*av[i], rp)
		}
		push(true, g)
		// in place and through the transposed view
		m.CloneFrom(a)
		m.Scale(f, &m)
		if matOf(&m) != g {
			x.bad("r3.Mat.Scale", cls, "receiver-as-argument", rp, "got %v want %v", matOf(&m), g)
		}
		m.CloneFrom(a.T())
		g = matOf(&m)
		for i := 0; i < 3; i++ {
			for j := 0; j < 3; j++ {
				x.bits("r3.Mat.CloneFrom", cls, g[3*i+j], av[3*j+i], rp)
			}
		}
		push(true, g)
		m.Add(a.T(), b)
		for i := 0; i < 3; i++ {
			for j := 0; j < 3; j++ {
				x.bits("r3.Mat.Add", cls+"+T", m.At(i, j), av[3*j+i]+bv[3*i+j], rp)
			}
		}
		for _, n := range []string{"Add", "Sub", "Scale", "CloneFrom", "T"} {
			ev(n)
		}
		// Mul (also with the receiver as an operand)
		mulRef := func(p, q []float64, i, j int) (float64, float64) {
			w, tol, _ := prodSum(p[3*i], q[j], p[3*i+1], q[3+j], p[3*i+2], q[6+j])
			return w, tol
		}
		m.Mul(a, b)
		g = matOf(&m)
		for i := 0; i < 3; i++ {
			for j := 0; j < 3; j++ {
				w, tol := mulRef(av, bv, i, j)
				x.num("r3.Mat.Mul", cls, g[3*i+j], w, tol, ex, rp)
			}
		}
		push(ex, g)
		m.CloneFrom(a)
		m.Mul(&m, b)
		if matOf(&m) != g {
			x.bad("r3.Mat.Mul", cls, "receiver-as-left-operand", rp, "got %v want %v", matOf(&m), g)
		}
		m.CloneFrom(b)
		m.Mul(a, &m)
		if matOf(&m) != g {
			x.bad("r3.Mat.Mul", cls, "receiver-as-right-operand", rp, "got %v want %v", matOf(&m), g)
		}
		// inner dimension != 3 goes through mat.Dense
		kk := r.PickInt(1, 2, 4, 5)
		ld, rd := make([]float64, 3*kk), make([]float64, kk*3)
		for i := range ld {
			ld[i], rd[i] = pickComp(r, k), pickComp(r, k)
		}
		m.Mul(mat.NewDense(3, kk, ld), mat.NewDense(kk, 3, rd))
		g = matOf(&m)
		for i := 0; i < 3; i++ {
			for j := 0; j < 3; j++ {
				var pr []float64
				for l := 0; l < kk; l++ {
					pr = append(pr, ld[i*kk+l], rd[l*3+j])
				}
				w, tol, _ := prodSum(pr...)
				x.num("r3.Mat.Mul", cls+"|inner!=3", g[3*i+j], w, tol, ex, rp)
			}
		}
		push(ex, g)
		ev("Mul")
		// vectors
		v := v3(r, k)
		vc := []float64{v.X, v.Y, v.Z}
		mv, mt := a.MulVec(v), a.MulVecTrans(v)
		for i, gg := range []float64{mv.X, mv.Y, mv.Z} {
			w, tol, _ := prodSum(vc[0], av[3*i], vc[1], av[3*i+1], vc[2], av[3*i+2])
			x.num("r3.Mat.MulVec", cls, gg, w, tol, ex, rp)
		}
		for i, gg := range []float64{mt.X, mt.Y, mt.Z} {
			w, tol, _ := prodSum(vc[0], av[i], vc[1], av[3+i], vc[2], av[6+i])
			x.num("r3.Mat.MulVecTrans", cls, gg, w, tol, ex, rp)
		}
		if ex {
			dig = append(dig, canonBits(mv.X+0), canonBits(mv.Y+0), canonBits(mv.Z+0), canonBits(mt.X+0), canonBits(mt.Y+0), canonBits(mt.Z+0))
		}
		for i := 0; i < 3; i++ {
			rw, cl := a.VecRow(i), a.VecCol(i)
			if rw != (r3.Vec{X: av[3*i], Y: av[3*i+1], Z: av[3*i+2]}) || cl != (r3.Vec{X: av[i], Y: av[3+i], Z: av[6+i]}) {
				x.bad("r3.Mat.VecRow", cls, "wrong-elements", rp, "i=%d row %v col %v", i, rw, cl)
			}
		}
		ev("MulVec")
		ev("MulVecTrans")
		ev("VecRow")
		// Det
		{
			d1, _, _ := prodSum(av[4], av[8], -av[5], av[7])
			d2, _, _ := prodSum(av[3], av[8], -av[5], av[6])
			d3, _, _ := prodSum(av[3], av[7], -av[4], av[6])
			w, _, _ := prodSum(av[0], d1, -av[1], d2, av[2], d3)
			mag := 0.0
			for _, pm := range [][3]int{{0, 4, 8}, {0, 5, 7}, {1, 3, 8}, {1, 5, 6}, {2, 3, 7}, {2, 4, 6}} {
				mag += math.Abs(av[pm[0]] * av[pm[1]] * av[pm[2]])
			}
			x.num("r3.Mat.Det", cls, a.Det(), w, 16*vrt.Eps64*mag, ex, rp)
			if ex {
				dig = append(dig, canonBits(a.Det()+0))
			}
			ev("Det")
		}
		// Skew / Outer / Eye
		var sk r3.Mat
		sk.Skew(v)
		wantSk := [9]float64{0, -v.Z, v.Y, v.Z, 0, -v.X, -v.Y, v.X, 0}
		g = matOf(&sk)
		g2 := matOf(r3.Skew(v))
		for i := range g {
			x.bits("r3.Mat.Skew", cls, g[i], wantSk[i], rp)
			x.bits("r3.Skew", cls, g2[i], wantSk[i], rp)
		}
		push(true, g)
		w2 := v3(r, k)
		alpha := pickComp(r, k)
		var ou r3.Mat
		ou.Outer(alpha, v, w2)
		g = matOf(&ou)
		wc := []float64{w2.X, w2.Y, w2.Z}
		for i := 0; i < 3; i++ {
			for j := 0; j < 3; j++ {
				x.bits("r3.Mat.Outer", cls, g[3*i+j], (alpha*vc[i])*wc[j], rp)
			}
		}
		push(true, g)
		if matOf(r3.Eye()) != [9]float64{1, 0, 0, 0, 1, 0, 0, 0, 1} {
			x.bad("r3.Eye", cls, "not-identity", rp, "")
		}
		ev("Skew")
		ev("Outer")
		// zero value and argument checking
		if it < 3 {
			var z r3.Mat
			if z.At(1, 1) != 0 || z.MulVec(v) != (r3.Vec{}) || z.VecRow(0) != (r3.Vec{}) {
				x.bad("r3.Mat.zero-value", cls, "not-the-zero-matrix", rp, "")
			}
			if matOf(r3.NewMat(nil)) != [9]float64{} {
				x.bad("r3.NewMat", "nil", "not-the-zero-matrix", rp, "")
			}
			for name, f := range map[string]func(){
				"NewMat(len 8)":  func() { r3.NewMat(make([]float64, 8)) },
				"At(3,0)":        func() { a.At(3, 0) },
				"At(0,3)":        func() { a.At(0, 3) },
				"At(-1,0)":       func() { a.At(-1, 0) },
				"Set(0,3)":       func() { a.Set(0, 3, 1) },
				"VecRow(3)":      func() { a.VecRow(3) },
				"VecCol(3)":      func() { a.VecCol(3) },
				"Add(2x3)":       func() { m.Add(mat.NewDense(2, 3, nil), a) },
				"Mul(3x2,3x3)":   func() { m.Mul(mat.NewDense(3, 2, nil), a) },
				"Scale(4x4)":     func() { m.Scale(1, mat.NewDense(4, 4, nil)) },
				"CloneFrom(3x2)": func() { m.CloneFrom(mat.NewDense(3, 2, nil)) },
			} {
				if _, pan := tryPanics(f); !pan {
					x.bad("r3.Mat.argument-check", name, "no-panic", rp, "%s did not panic", name)
				}
				x.t.eval("r3.Mat.argument-check|"+name, true)
			}
		}
		// Hessian / Jacobian of quadratic / affine fields (finite differences exact up to rounding)
		if ex {
			hs := matVals(r, vkInt)
			for i := 0; i < 3; i++ {
				for j := 0; j < i; j++ {
					hs[3*i+j] = hs[3*j+i]
				}
			}
			H := r3.NewMat(hs)
			g0 := v3(r, vkInt)
			field := func(u r3.Vec) float64 { return 0.5*r3.Dot(u, H.MulVec(u)) + r3.Dot(g0, u) + 1 }
			var he r3.Mat
			he.Hessian(v, r3.Vec{X: 0.5, Y: 1, Z: 0.25}, field)
			if matOf(&he) != [9]float64(hs) {
				x.bad("r3.Mat.Hessian", cls, "quadratic-field", rp, "got %v want %v", matOf(&he), hs)
			}
			var ja r3.Mat
			ja.Jacobian(v, r3.Vec{X: 0.5, Y: 1, Z: 0.25}, func(u r3.Vec) r3.Vec { return r3.Add(a.MulVec(u), g0) })
			if matOf(&ja) != [9]float64(av) {
				x.bad("r3.Mat.Jacobian", cls, "affine-field", rp, "got %v want %v", matOf(&ja), av)
			}
			push(true, matOf(&he))
			push(true, matOf(&ja))
			ev("Hessian")
			ev("Jacobian")
		}
	}
	c.Digest(fmt.Sprintf("r3.Mat|part=%d", part), "exact", dig...)
}

// areaTol is the admissible error of Heron's formula evaluated from rounded
// side lengths. A relative perturbation u of the sides moves the height h
// over the longest side L by about u·L²/h, i.e. the area A = L·h/2 by
// u·L⁴/(4A): needle-like triangles are ill conditioned in their side
// lengths, and a degenerate one (A = 0) can come out as large as
// sqrt(u)·L². The band is the smaller of the two models plus the plain
// rounding term.
func areaTol(area, longest float64) float64 {
	l2 := longest * longest
	worst := 4 * math.Sqrt(vrt.Eps64) * l2
	if area <= 0 {
		return worst
	}
	return math.Min(16*vrt.Eps64*l2*l2/area+64*vrt.Eps64*l2, worst)
}

// ---------------------------------------------------------------------------
// r3.Mat object states: every method crossed with the ways a Mat can come into
// being and be reused. A Mat allocates its backing array lazily, so "the 3×3
// zero matrix" has two representations (data == nil until the first
// At/Set/RawMatrix) and a receiver may already hold unrelated data.
//
//	source states:   untouched zero value, zero value after At, NewMat(nil),
//	                 NewMat(data), zero value filled through RawMatrix().Data,
//	                 a mat.Dense over RawMatrix().Data, the T() view of a Mat
//	receiver states: untouched zero value, NewMat(nil), dirty (NewMat of
//	                 unrelated non-zero data), dirty after lazy allocation
//	                 (zero value + Set), the same object as an operand
//
// The expected elements come from the values the sources were built from
// (never read back through the source before the call: At would change its
// state) and the component formulas; sources must be unchanged afterwards.
// Small integers: every formula is exact, results are joined across builds.
// ---------------------------------------------------------------------------

type matOperand struct {
	state string
	m     mat.Matrix
	self  *r3.Mat // non-nil when the operand is itself a *r3.Mat (can double as receiver)
	vals  [9]float64
}

const numSrcStates = 7

func mkMatOperand(r *vrt.Rand, state int) matOperand {
	var v [9]float64
	for i := range v {
		v[i] = float64(r.Range(-8, 8))
	}
	if v[4] == 0 {
		v[4] = 3
	}
	switch state {
	case 0:
		z := &r3.Mat{}
		return matOperand{state: "zero-untouched", m: z, self: z}
	case 1:
		z := &r3.Mat{}
		z.At(1, 1)
		return matOperand{state: "zero-after-At", m: z, self: z}
	case 2:
		z := r3.NewMat(nil)
		return matOperand{state: "NewMat(nil)", m: z, self: z}
	case 3:
		z := r3.NewMat(append([]float64(nil), v[:]...))
		return matOperand{state: "NewMat(data)", m: z, self: z, vals: v}
	case 4:
		z := &r3.Mat{}
		copy(z.RawMatrix().Data, v[:])
		return matOperand{state: "filled-through-RawMatrix", m: z, self: z, vals: v}
	case 5:
		z := r3.NewMat(append([]float64(nil), v[:]...))
		return matOperand{state: "Dense-over-RawMatrix", m: mat.NewDense(3, 3, z.RawMatrix().Data), vals: v}
	default:
		z := r3.NewMat(append([]float64(nil), v[:]...))
		var t [9]float64
		for i := 0; i < 3; i++ {
			for j := 0; j < 3; j++ {
				t[3*i+j] = v[3*j+i]
			}
		}
		return matOperand{state: "T-view", m: z.T(), vals: t}
	}
}

const numRecvStates = 4

func mkReceiver(r *vrt.Rand, state int) (*r3.Mat, string) {
	switch state {
	case 0:
		return &r3.Mat{}, "zero-untouched"
	case 1:
		return r3.NewMat(nil), "NewMat(nil)"
	case 2:
		d := make([]float64, 9)
		for i := range d {
			d[i] = float64(50 + r.Intn(40))
		}
		return r3.NewMat(d), "dirty"
	default:
		z := &r3.Mat{}
		for i := 0; i < 3; i++ {
			for j := 0; j < 3; j++ {
				z.Set(i, j, float64(-50-r.Intn(40)))
			}
		}
		return z, "dirty-lazily-allocated"
	}
}

func readAny(m mat.Matrix) [9]float64 {
	var o [9]float64
	for i := 0; i < 3; i++ {
		for j := 0; j < 3; j++ {
			o[3*i+j] = m.At(i, j)
		}
	}
	return o
}

func runR3MatStates(x *idxCtx, part int) {
	c := x.c
	r := c.RNG("r3mat.states", part)
	var dig []uint64
	check := func(method, states string, got, want [9]float64, rp any) {
		x.t.eval("r3.Mat."+method+"|"+states, true)
		for i := range got {
			if !sameF(got[i]+0, want[i]+0) {
				x.bad("r3.Mat."+method, states, "not-the-component-formula", rp, "got %v want %v", got, want)
				break
			}
		}
		for _, v := range got {
			dig = append(dig, canonBits(v+0))
		}
	}
	unchanged := func(method, states string, op matOperand, rp any) {
		if readAny(op.m) != op.vals {
			x.bad("r3.Mat."+method, states, "modified-source", rp, "source now %v, was %v", readAny(op.m), op.vals)
		}
	}
	mul := func(a, b [9]float64) (o [9]float64) {
		for i := 0; i < 3; i++ {
			for j := 0; j < 3; j++ {
				o[3*i+j] = a[3*i]*b[j] + a[3*i+1]*b[3+j] + a[3*i+2]*b[6+j]
			}
		}
		return
	}
	// ---- unary: CloneFrom(a), Scale(f, a); receiver distinct or the operand itself
	for sa := 0; sa < numSrcStates; sa++ {
		for rs := 0; rs <= numRecvStates; rs++ {
			for op := 0; op < 2; op++ {
				a := mkMatOperand(r, sa)
				var m *r3.Mat
				var rname string
				if rs == numRecvStates {
					if a.self == nil {
						continue
					}
					m, rname = a.self, "same-as-a"
				} else {
					m, rname = mkReceiver(r, rs)
				}
				st := "src=" + a.state + ",recv=" + rname
				rp := map[string]any{"a": a.vals, "states": st}
				f := float64(r.Range(-3, 3))
				want := a.vals
				name := "CloneFrom"
				if op == 0 {
					m.CloneFrom(a.m)
				} else {
					name = "Scale"
					m.Scale(f, a.m)
					for i := range want {
						want[i] = f * a.vals[i]
					}
				}
				check(name, st, matOf(m), want, rp)
				if m != a.self {
					unchanged(name, st, a, rp)
				}
			}
		}
	}
	// ---- binary: Add, Sub, Mul; receiver distinct, == a, == b, a == b, all three the same
	for sa := 0; sa < numSrcStates; sa++ {
		for sb := 0; sb < numSrcStates; sb++ {
			for rs := 0; rs < numRecvStates+4; rs++ {
				// keep the cross product affordable: all receiver states for the
				// pairs that involve a zero-like source, a rotating one otherwise
				if sa > 2 && sb > 2 && rs < numRecvStates && rs != (sa+sb+part)%numRecvStates {
					continue
				}
				for op := 0; op < 3; op++ {
					a, b := mkMatOperand(r, sa), mkMatOperand(r, sb)
					var m *r3.Mat
					var rname string
					switch rs - numRecvStates {
					case 0:
						if a.self == nil {
							continue
						}
						m, rname = a.self, "same-as-a"
					case 1:
						if b.self == nil {
							continue
						}
						m, rname = b.self, "same-as-b"
					case 2:
						b = a
						m, rname = mkReceiver(r, (sa+part)%numRecvStates)
						rname += ",a-is-b"
					case 3:
						if a.self == nil {
							continue
						}
						b = a
						m, rname = a.self, "same-as-a-and-b"
					default:
						m, rname = mkReceiver(r, rs)
					}
					st := "a=" + a.state + ",b=" + b.state + ",recv=" + rname
					rp := map[string]any{"a": a.vals, "b": b.vals, "states": st}
					var want [9]float64
					name := [...]string{"Add", "Sub", "Mul"}[op]
					switch op {
					case 0:
						m.Add(a.m, b.m)
						for i := range want {
							want[i] = a.vals[i] + b.vals[i]
						}
					case 1:
						m.Sub(a.m, b.m)
						for i := range want {
							want[i] = a.vals[i] - b.vals[i]
						}
					case 2:
						m.Mul(a.m, b.m)
						want = mul(a.vals, b.vals)
					}
					check(name, st, matOf(m), want, rp)
					if m != a.self {
						unchanged(name, st, a, rp)
					}
					if m != b.self {
						unchanged(name, st, b, rp)
					}
				}
			}
		}
	}
	// ---- the receiver as the only matrix: readers on every source state, full
	// overwriters and Set on every receiver state
	for sa := 0; sa < 5; sa++ {
		v := r3.Vec{X: float64(r.Range(-8, 8)), Y: float64(r.Range(-8, 8)), Z: float64(r.Range(-8, 8))}
		for op := 0; op < 8; op++ {
			a := mkMatOperand(r, sa) // fresh object per reader: the first read is the one that meets the state
			m, av := a.self, a.vals
			st := "recv=" + a.state
			rp := map[string]any{"a": av, "v": v, "states": st}
			var got, want [9]float64
			name := ""
			switch op {
			case 0:
				name = "MulVec"
				g := m.MulVec(v)
				got = [9]float64{g.X, g.Y, g.Z}
				for i := 0; i < 3; i++ {
					want[i] = v.X*av[3*i] + v.Y*av[3*i+1] + v.Z*av[3*i+2]
				}
			case 1:
				name = "MulVecTrans"
				g := m.MulVecTrans(v)
				got = [9]float64{g.X, g.Y, g.Z}
				for i := 0; i < 3; i++ {
					want[i] = v.X*av[i] + v.Y*av[3+i] + v.Z*av[6+i]
				}
			case 2:
				name = "VecRow"
				for i := 0; i < 3; i++ {
					g := m.VecRow(i)
					got[3*i], got[3*i+1], got[3*i+2] = g.X, g.Y, g.Z
				}
				want = av
			case 3:
				name = "VecCol"
				for j := 0; j < 3; j++ {
					g := m.VecCol(j)
					got[j], got[3+j], got[6+j] = g.X, g.Y, g.Z
				}
				want = av
			case 4:
				name = "Det"
				got[0] = m.Det()
				want[0] = av[0]*(av[4]*av[8]-av[5]*av[7]) - av[1]*(av[3]*av[8]-av[5]*av[6]) + av[2]*(av[3]*av[7]-av[4]*av[6])
			case 5:
				name = "T"
				t := readAny(m.T())
				for i := 0; i < 3; i++ {
					for j := 0; j < 3; j++ {
						got[3*i+j] = t[3*j+i]
					}
				}
				want = av
			case 6:
				name = "RawMatrix"
				raw := m.RawMatrix()
				if len(raw.Data) == 9 && raw.Stride == 3 {
					copy(got[:], raw.Data)
				}
				want = av
			case 7:
				name = "At"
				got = matOf(m)
				want = av
			}
			check(name, st, got, want, rp)
			if matOf(m) != av {
				x.bad("r3.Mat."+name, st, "modified-receiver", rp, "receiver now %v, was %v", matOf(m), av)
			}
		}
	}
	for rs := 0; rs < numRecvStates; rs++ {
		v := r3.Vec{X: float64(r.Range(1, 8)), Y: float64(r.Range(-8, -1)), Z: float64(r.Range(1, 8))}
		w := r3.Vec{X: float64(r.Range(-8, 8)), Y: float64(r.Range(-8, 8)), Z: float64(r.Range(-8, 8))}
		al := float64(r.Range(-3, 3))
		for op := 0; op < 5; op++ {
			m, rname := mkReceiver(r, rs)
			before := [9]float64{}
			if rs >= 2 {
				before = matOf(m)
			}
			st := "recv=" + rname
			rp := map[string]any{"v": v, "w": w, "states": st}
			var want [9]float64
			name := ""
			switch op {
			case 0:
				name = "Skew"
				m.Skew(v)
				want = [9]float64{0, -v.Z, v.Y, v.Z, 0, -v.X, -v.Y, v.X, 0}
			case 1:
				name = "Outer"
				m.Outer(al, v, w)
				vc, wc := [3]float64{v.X, v.Y, v.Z}, [3]float64{w.X, w.Y, w.Z}
				for i := 0; i < 3; i++ {
					for j := 0; j < 3; j++ {
						want[3*i+j] = al * vc[i] * wc[j]
					}
				}
			case 2:
				name = "Jacobian"
				a := mkMatOperand(r, 3)
				m.Jacobian(v, r3.Vec{X: 0.5, Y: 1, Z: 0.25}, func(u r3.Vec) r3.Vec { return a.self.MulVec(u) })
				want = a.vals
			case 3:
				name = "Hessian"
				a := mkMatOperand(r, 3)
				hs := a.vals
				for i := 0; i < 3; i++ {
					for j := 0; j < i; j++ {
						hs[3*i+j] = hs[3*j+i]
					}
				}
				H := r3.NewMat(append([]float64(nil), hs[:]...))
				m.Hessian(v, r3.Vec{X: 0.5, Y: 1, Z: 0.25}, func(u r3.Vec) float64 { return 0.5*r3.Dot(u, H.MulVec(u)) + r3.Dot(w, u) })
				want = hs
			case 4:
				name = "Set"
				want = before
				m.Set(2, 1, al)
				want[7] = al
			}
			check(name, st, matOf(m), want, rp)
		}
	}
	c.Digest(fmt.Sprintf("r3.Mat.states|part=%d", part), "exact", dig...)
}
