package main

import (
	"math"

	"gonum.org/v1/gonum/verifx/ref"
	"gonum.org/v1/gonum/verifx/vrt"
)

// Matrix classes of the workload.
const (
	clsRand   = "rand"   // uniform [-1,1): well conditioned with overwhelming probability for the sizes used
	clsWell   = "well"   // prescribed singular values in [1,10]
	clsSpec   = "spec"   // prescribed singular values, geometric, kappa = 1e6
	clsGraded = "graded" // rows scaled geometrically over 8 decades
)

var generalClasses = []string{clsRand, clsWell, clsSpec, clsGraded}

// Extreme-magnitude classes (legal finite inputs that drive the scaling /
// underflow-protection branches: Dlarfg rescaling, Dlassq / Dnrm2 scaling,
// Dlascl users, tiny pivots). The subnormal values are rounded to the
// subnormal grid when generated: the rounded matrix IS the input.
const (
	clsSub   = "subnormal" // entries ~ 2^-1046 (3e-315): every column norm is subnormal
	clsHuge  = "huge"      // entries ~ 2^1000 (1e301)
	clsMixed = "mixed"     // columns cycle through subnormal, O(1) and huge scale
)

var extremeClasses = []string{clsSub, clsHuge, clsMixed}

func isExtreme(cls string) bool { return cls == clsSub || cls == clsHuge || cls == clsMixed }

const (
	subExp  = -1046
	hugeExp = 1000
)

// reflectLeft applies H = I - 2 v vᵀ/(vᵀv) to a from the left.
func reflectLeft(a *ref.M, v []float64) {
	var vv float64
	for _, x := range v {
		vv += x * x
	}
	if vv == 0 {
		return
	}
	for j := 0; j < a.C; j++ {
		var s float64
		for i := 0; i < a.R; i++ {
			s += v[i] * a.D[i*a.C+j]
		}
		s *= 2 / vv
		for i := 0; i < a.R; i++ {
			a.D[i*a.C+j] -= s * v[i]
		}
	}
}

// reflectRight applies H = I - 2 v vᵀ/(vᵀv) to a from the right.
func reflectRight(a *ref.M, v []float64) {
	var vv float64
	for _, x := range v {
		vv += x * x
	}
	if vv == 0 {
		return
	}
	for i := 0; i < a.R; i++ {
		var s float64
		for j := 0; j < a.C; j++ {
			s += a.D[i*a.C+j] * v[j]
		}
		s *= 2 / vv
		for j := 0; j < a.C; j++ {
			a.D[i*a.C+j] -= s * v[j]
		}
	}
}

func randVec(r *vrt.Rand, n int) []float64 {
	v := make([]float64, n)
	for i := range v {
		v[i] = r.Sym()
	}
	return v
}

// withSpectrum returns an m x n matrix U diag(sigma) Vᵀ where U and V are
// products of three random Householder reflectors each. Its singular values
// are sigma up to rounding (a few ulps of sigma_max).
func withSpectrum(r *vrt.Rand, m, n int, sigma []float64) *ref.M {
	a := ref.New(m, n)
	for i := 0; i < len(sigma) && i < m && i < n; i++ {
		a.D[i*n+i] = sigma[i]
	}
	for t := 0; t < 3; t++ {
		reflectLeft(a, randVec(r, m))
		reflectRight(a, randVec(r, n))
	}
	return a
}

func geomSpectrum(k int, kappa float64) []float64 {
	s := make([]float64, k)
	for i := range s {
		t := 0.0
		if k > 1 {
			t = float64(i) / float64(k-1)
		}
		s[i] = math.Pow(kappa, -t)
	}
	return s
}

// general returns an m x n matrix of the class together with an upper bound
// on its 2-norm condition number (Inf when unknown) and its 2-norm scale.
func general(r *vrt.Rand, cls string, m, n int) (a *ref.M, kappa float64) {
	k := min(m, n)
	switch cls {
	case clsSub, clsHuge, clsMixed:
		a = ref.FromFunc(m, n, func(i, j int) float64 { return r.Uniform(0.25, 1) * float64(1-2*r.Intn(2)) })
		for i := 0; i < m; i++ {
			for j := 0; j < n; j++ {
				e := subExp
				if cls == clsHuge || (cls == clsMixed && j%3 == 2) {
					e = hugeExp
				} else if cls == clsMixed && j%3 == 1 {
					e = 0
				}
				a.D[i*n+j] = math.Ldexp(a.D[i*n+j], e)
			}
		}
		return a, math.Inf(1)
	case clsRand:
		return ref.FromFunc(m, n, func(i, j int) float64 { return r.Sym() }), math.Inf(1)
	case clsWell:
		s := make([]float64, k)
		for i := range s {
			s[i] = r.Uniform(1, 10)
		}
		return withSpectrum(r, m, n, s), 10
	case clsSpec:
		return withSpectrum(r, m, n, geomSpectrum(k, 1e6)), 1e6
	case clsGraded:
		a = ref.FromFunc(m, n, func(i, j int) float64 { return r.Sym() })
		for i := 0; i < m; i++ {
			t := 0.0
			if m > 1 {
				t = float64(i) / float64(m-1)
			}
			sc := math.Pow(10, -8*t)
			for j := 0; j < n; j++ {
				a.D[i*n+j] *= sc
			}
		}
		return a, math.Inf(1)
	}
	panic("c02: unknown class " + cls)
}

// spd returns a symmetric positive definite n x n matrix Q diag(lambda) Qᵀ
// with eigenvalues spread geometrically over [1/kappa, 1], symmetrised
// exactly.
func spd(r *vrt.Rand, n int, kappa float64) *ref.M {
	a := ref.New(n, n)
	lam := geomSpectrum(n, kappa)
	r.Shuffle(n, func(i, j int) { lam[i], lam[j] = lam[j], lam[i] })
	for i := 0; i < n; i++ {
		a.D[i*n+i] = lam[i]
	}
	for t := 0; t < 3; t++ {
		v := randVec(r, n)
		reflectLeft(a, v)
		reflectRight(a, v)
	}
	symmetrise(a)
	return a
}

func symmetrise(a *ref.M) {
	n := a.R
	for i := 0; i < n; i++ {
		for j := i + 1; j < n; j++ {
			x := 0.5 * (a.D[i*n+j] + a.D[j*n+i])
			a.D[i*n+j], a.D[j*n+i] = x, x
		}
	}
}

// spdBand returns a symmetric positive definite band matrix with kd
// off-diagonals (strictly diagonally dominant with positive diagonal).
func spdBand(r *vrt.Rand, n, kd int) *ref.M {
	a := ref.New(n, n)
	for i := 0; i < n; i++ {
		for j := i + 1; j <= i+kd && j < n; j++ {
			x := r.Sym()
			a.D[i*n+j], a.D[j*n+i] = x, x
		}
	}
	for i := 0; i < n; i++ {
		var s float64
		for j := 0; j < n; j++ {
			if j != i {
				s += math.Abs(a.D[i*n+j])
			}
		}
		a.D[i*n+i] = s + r.Uniform(0.5, 1.5)
	}
	return a
}

// exactLU returns an m x n matrix with half-integer entries whose Gaussian
// elimination with partial pivoting is exact in floating point in any
// evaluation order: A = P (L U) with unit lower trapezoidal L, strictly
// sub-diagonal entries in {0, +-1/2}, U upper trapezoidal with diagonal
// entries +-4 or +-8 (powers of two, so reciprocals are exact and the
// pivot of every column is unique) and off-diagonal entries in -2..2, and
// P a random row permutation. All intermediate quantities of blocked or
// unblocked elimination are dyadic rationals of a few bits.
func exactLU(r *vrt.Rand, m, n int) *ref.M {
	a := exactLUUnpermuted(r, m, n)
	return permuteRows(r, a)
}

func permuteRows(r *vrt.Rand, a *ref.M) *ref.M {
	m, n := a.R, a.C
	perm := r.Perm(m)
	out := ref.New(m, n)
	for i := 0; i < m; i++ {
		copy(out.D[perm[i]*n:perm[i]*n+n], a.D[i*n:i*n+n])
	}
	return out
}

func exactLUUnpermuted(r *vrt.Rand, m, n int) *ref.M {
	k := min(m, n)
	l := ref.New(m, k)
	u := ref.New(k, n)
	for i := 0; i < m; i++ {
		for j := 0; j < k && j < i; j++ {
			l.D[i*k+j] = float64(r.Intn(3)-1) * 0.5
		}
		if i < k {
			l.D[i*k+i] = 1
		}
	}
	for i := 0; i < k; i++ {
		d := float64(int(4) << uint(r.Intn(2)))
		if r.Bool() {
			d = -d
		}
		u.D[i*n+i] = d
		for j := i + 1; j < n; j++ {
			u.D[i*n+j] = float64(r.Intn(5) - 2)
		}
	}
	return ref.Mul(l, u)
}

// Exactly singular inputs for LU (ok must be false). Each construction
// guarantees an exactly zero pivot irrespective of rounding and evaluation
// order:
//
//	zerocol: a column j < min(m,n) is zero, so pivot j is the maximum of zeros;
//	zerorow (m <= n): a zero row is never preferred as a pivot row and has
//	  zero multipliers, so it is the last remaining row;
//	duprow (m <= n, m >= 2): an exactLU matrix (doubled, so that the entries
//	  are small integers) in which the designed pivot row of step s is
//	  overwritten by a copy of the designed pivot row of an earlier step t < s
//	  (before the random row permutation). Steps before t run exactly as
//	  designed (the copy has multipliers of magnitude <= 1/2 and is never
//	  preferred); at step t the twins tie for the pivot, the one not chosen gets
//	  multiplier exactly 1 and becomes an exact zero row, all arithmetic up to
//	  that point being exact in any evaluation order.
func singularLU(r *vrt.Rand, kind string, m, n int) *ref.M {
	switch kind {
	case "zerocol":
		a := ref.FromFunc(m, n, func(i, j int) float64 { return float64(r.Intn(7) - 3) })
		j := r.Intn(min(m, n))
		for i := 0; i < m; i++ {
			a.D[i*n+j] = 0
		}
		return a
	case "zerorow":
		a := ref.FromFunc(m, n, func(i, j int) float64 { return float64(r.Intn(7) - 3) })
		i := r.Intn(m)
		for j := 0; j < n; j++ {
			a.D[i*n+j] = 0
		}
		return a
	case "duprow":
		a := ref.Scale(2, exactLUUnpermuted(r, m, n))
		t := r.Intn(m - 1)
		s := t + 1 + r.Intn(m-1-t)
		copy(a.D[s*n:s*n+n], a.D[t*n:t*n+n])
		return permuteRows(r, a)
	}
	panic("c02: unknown singular kind " + kind)
}

func maxAbsInt(a *ref.M) float64 { return a.MaxAbs() }

// psdZeroLast returns the exact integer matrix A = L Lᵀ where L is lower
// triangular with bandwidth kd, small-integer off-diagonal entries,
// power-of-two diagonal entries (so that the scaling by 1/l_jj is exact) and
// l_{n-1,n-1} = 0. Every quantity of its Cholesky factorization is a small
// integer, so all arithmetic is exact in any order and the last pivot is
// exactly zero: A is positive semidefinite and singular, and a Cholesky
// routine must report failure.
func psdZeroLast(r *vrt.Rand, n, kd int) *ref.M {
	l := ref.New(n, n)
	for i := 0; i < n; i++ {
		for j := max(0, i-kd); j < i; j++ {
			l.D[i*n+j] = float64(r.Intn(3) - 1)
		}
		l.D[i*n+i] = float64(int(1) << uint(r.Intn(3)))
	}
	l.D[(n-1)*n+n-1] = 0
	return ref.Mul(l, l.T())
}
