package main

import (
	"fmt"
	"math"

	"gonum.org/v1/gonum/blas"
	"gonum.org/v1/gonum/lapack"
	"gonum.org/v1/gonum/verifx/c02/lapackgen"
	"gonum.org/v1/gonum/verifx/ref"
	"gonum.org/v1/gonum/verifx/vrt"
)

var allNorms = []lapack.MatrixNorm{lapack.MaxAbs, lapack.MaxColumnSum, lapack.MaxRowSum, lapack.Frobenius}

func refNorm(a *ref.M, nk lapack.MatrixNorm) float64 {
	if a.R == 0 || a.C == 0 {
		return 0
	}
	switch nk {
	case lapack.MaxAbs:
		return a.MaxAbs()
	case lapack.MaxColumnSum:
		return a.Norm1()
	case lapack.MaxRowSum:
		return a.NormInf()
	}
	return a.NormFro()
}

// normCase calls one norm routine in three layouts and compares with the
// direct definition evaluated on the logical matrix full.
func (cs *Case) normCase(routine string, nk lapack.MatrixNorm, extraTag string, dims, flags D, full *ref.M, fill func(a *lapackgen.Args)) {
	tag := fmt.Sprintf("norm=%c", nk)
	if extraTag != "" {
		tag += " " + extraTag
	}
	fl := D{"norm": int(nk)}
	for k, v := range flags {
		fl[k] = v
	}
	want := refNorm(full, nk)
	for _, cf := range []cfg{{}, {pad: 7}, {pad: 7, guard: true}} {
		args, res := cs.call(routine, tag, dims, fl, cf, fill)
		if args == nil {
			continue
		}
		tol := float64(full.R+full.C+8) * 2 * eps
		if !vrt.RelClose(res.F, want, tol, float64(full.R+full.C+8)*subFloor) {
			cs.fail(routine, tag, "norm-wrong", "%v dims=%v: got %v, definition gives %v", cf, dims, res.F, want)
		}
	}
}

func (h *H) checkNorms(id string, seedIdx, m, n int) { h.checkNormsCls(id, seedIdx, m, n, "") }

// checkNormsCls runs the norm routines on a general (cls == "") or an
// extreme-magnitude matrix (Dlassq scaling, sums near overflow).
func (h *H) checkNormsCls(id string, seedIdx, m, n int, cls string) {
	rng := h.c.RNG("norms", seedIdx)
	cs := h.newCase(id, rng)
	defer cs.done()
	g := ref.FromFunc(m, n, func(i, j int) float64 { return rng.Sym() * float64(1+rng.Intn(3)) })
	vecExp := [3]int{}
	if isExtreme(cls) {
		g, _ = general(rng, cls, m, n)
		switch cls {
		case clsSub:
			vecExp = [3]int{subExp, subExp, subExp}
		case clsHuge:
			vecExp = [3]int{hugeExp, hugeExp, hugeExp}
		default:
			vecExp = [3]int{0, subExp, hugeExp}
		}
	}
	for _, nk := range allNorms {
		cs.normCase("Dlange", nk, "", D{"m": m, "n": n}, nil, g, func(a *lapackgen.Args) { setMat(a, "a", g) })
		// trapezoidal
		for _, ul := range []blas.Uplo{blas.Upper, blas.Lower} {
			for _, dg := range []blas.Diag{blas.NonUnit, blas.Unit} {
				full := ref.FromFunc(m, n, func(i, j int) float64 {
					switch {
					case i == j && dg == blas.Unit:
						return 1
					case (ul == blas.Upper && j >= i) || (ul == blas.Lower && j <= i):
						return g.D[i*n+j]
					}
					return 0
				})
				if min(m, n) == 0 {
					full = ref.New(m, n)
				}
				cs.normCase("Dlantr", nk, triTag(ul, dg), D{"m": m, "n": n}, D{"uplo": int(ul), "diag": int(dg)}, full, func(a *lapackgen.Args) { setMat(a, "a", g) })
			}
		}
	}
	if m != n {
		// general band for rectangular shapes
		for _, kk := range [][2]int{{0, 0}, {1, 0}, {0, 2}, {2, 1}, {m + 1, n + 1}} {
			kl, ku := kk[0], kk[1]
			h.bandNorm(cs, g, m, n, kl, ku)
		}
		return
	}
	for _, kk := range [][2]int{{0, 0}, {1, 2}, {3, 1}, {n, n}} {
		h.bandNorm(cs, g, m, n, kk[0], kk[1])
	}
	// square-only routines
	sym := g.Clone()
	symmetrise(sym)
	for _, nk := range allNorms {
		for _, ul := range []blas.Uplo{blas.Upper, blas.Lower} {
			cs.normCase("Dlansy", nk, uploTag(ul), D{"n": n}, D{"uplo": int(ul)}, sym, func(a *lapackgen.Args) { setMat(a, "a", sym) })
		}
		hess := ref.FromFunc(n, n, func(i, j int) float64 {
			if j >= i-1 {
				return g.D[i*n+j]
			}
			return 0
		})
		cs.normCase("Dlanhs", nk, "", D{"n": n}, nil, hess, func(a *lapackgen.Args) { setMat(a, "a", g) })
		// symmetric and triangular band
		for _, kd := range kdList(n) {
			for _, ul := range []blas.Uplo{blas.Upper, blas.Lower} {
				upper := ul == blas.Upper
				sb := ref.FromFunc(n, n, func(i, j int) float64 {
					if j-i > kd || i-j > kd {
						return 0
					}
					return sym.D[i*n+j]
				})
				var tri *ref.M
				if upper {
					tri = ref.Triu(sb)
				} else {
					tri = ref.Tril(sb)
				}
				ab := fullToBand(tri, kd, upper)
				cs.normCase("Dlansb", nk, uploTag(ul), D{"n": n, "kd": kd}, D{"uplo": int(ul)}, sb, func(a *lapackgen.Args) { setMat(a, "ab", ab) })
				for _, dg := range []blas.Diag{blas.NonUnit, blas.Unit} {
					tb := tri.Clone()
					if dg == blas.Unit {
						for i := 0; i < n; i++ {
							tb.D[i*n+i] = 1
						}
					}
					cs.normCase("Dlantb", nk, triTag(ul, dg), D{"n": n, "k": kd}, D{"uplo": int(ul), "diag": int(dg)}, tb, func(a *lapackgen.Args) { setMat(a, "a", ab) })
				}
			}
		}
		// tridiagonal
		nm1 := max(n-1, 0)
		dl, d, du := randVec(rng, nm1), randVec(rng, n), randVec(rng, nm1)
		for i := range dl {
			dl[i], du[i] = math.Ldexp(dl[i], vecExp[0]), math.Ldexp(du[i], vecExp[2])
		}
		for i := range d {
			d[i] = math.Ldexp(d[i], vecExp[1])
		}
		cs.normCase("Dlangt", nk, "", D{"n": n}, nil, tridiagFull(n, dl, d, du), func(a *lapackgen.Args) {
			setVec(a, "dl", dl)
			setVec(a, "d", d)
			setVec(a, "du", du)
		})
		cs.normCase("Dlanst", nk, "", D{"n": n}, nil, tridiagFull(n, dl, d, dl), func(a *lapackgen.Args) {
			setVec(a, "d", d)
			setVec(a, "e", dl)
		})
	}
}

func (h *H) bandNorm(cs *Case, g *ref.M, m, n, kl, ku int) {
	full := ref.FromFunc(m, n, func(i, j int) float64 {
		if j-i > ku || i-j > kl {
			return 0
		}
		return g.D[i*n+j]
	})
	rows := min(m, n+kl)
	if m == 0 || n == 0 {
		rows = 0
	}
	nc := kl + ku + 1
	ab := ref.New(rows, nc)
	for i := 0; i < rows; i++ {
		for c := 0; c < nc; c++ {
			j := i - kl + c
			if j >= 0 && j < n {
				ab.D[i*nc+c] = full.D[i*n+j]
			}
		}
	}
	for _, nk := range allNorms {
		cs.normCase("Dlangb", nk, "", D{"m": m, "n": n, "kl": kl, "ku": ku}, nil, full, func(a *lapackgen.Args) { setMat(a, "ab", ab) })
	}
}

func (h *H) planNorms(add addFn) {
	idx := 0
	shapes := [][2]int{{0, 0}, {0, 3}, {3, 0}, {1, 1}, {2, 2}, {3, 3}, {5, 5}, {4, 7}, {7, 4}, {9, 9}, {17, 17}, {1, 6}, {6, 1}, {33, 33}}
	if h.thorough() {
		shapes = append(shapes, [][2]int{{8, 8}, {16, 16}, {31, 31}, {20, 33}, {33, 20}, {64, 64}, {65, 65}, {100, 3}, {3, 100}, {130, 130}}...)
	}
	for rep := 0; rep < h.reps(); rep++ {
		for _, s := range shapes {
			idx++
			i := idx
			m, n := s[0], s[1]
			add("norms", m*n*30, func() { h.checkNorms(fmt.Sprintf("Norms m=%d n=%d #%d", m, n, i), i, m, n) })
		}
	}
}
