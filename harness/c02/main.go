// Command c02 is the monitor for property C02: LAPACK factorizations, solves
// and inverses are backward stable for all shapes.
//
// It calls the methods of lapack/gonum.Implementation with valid argument
// tuples produced by the lapackgen sub-package (operands inside NaN-tainted
// storage, optionally guard-page backed), and judges the results with
// identities evaluated by package ref (no gonum call inside an oracle).
package main

import (
	"flag"
	"fmt"
	"sort"
	"strings"

	"gonum.org/v1/gonum/lapack/gonum"
	"gonum.org/v1/gonum/verifx/vrt"
)

var onlyFamily = flag.String("family", "", "run only the families whose name contains this string (debugging)")

func main() { vrt.Main("C02", run) }

// job is one logical input pushed through a family of routines.
type job struct {
	family string
	cost   int // rough size, for scheduling big ones first
	run    func()
}

func run(c *vrt.Ctx) {
	h := &H{c: c, ratios: map[string]float64{}, counts: map[string]int64{}}
	h.impl = gonum.Implementation{}
	var jobs []job
	add := func(family string, cost int, f func()) {
		if *onlyFamily != "" && !strings.Contains(family, *onlyFamily) {
			return
		}
		jobs = append(jobs, job{family, cost, f})
	}
	h.planLU(add)
	h.planChol(add)
	h.planBand(add)
	h.planPstrf(add)
	h.planQR(add)
	h.planOrm(add)
	h.planReflectors(add)
	h.planQP3(add)
	h.planGels(add)
	h.planTri(add)
	h.planTridiag(add)
	h.planPerm(add)
	h.planNorms(add)
	h.planLacn2(add)
	h.planExtreme(add)
	h.planDefects(add)

	sort.SliceStable(jobs, func(i, j int) bool { return jobs[i].cost > jobs[j].cost })
	vrt.Parallel(len(jobs), func(i int) { jobs[i].run() })

	fam := map[string]int{}
	for _, j := range jobs {
		fam[j.family]++
	}
	fm := map[string]any{}
	for k, v := range fam {
		fm[k] = v
	}
	c.Note("logical_inputs_per_family", fm)
	h.reportReach()
	h.finish()
}

// Shapes. Dimensions straddle the block sizes nb = 32 (QR family, band
// Cholesky), nb = 64 (LU, Cholesky, triangular inverse, Dlauum, Dgetri) and
// the QR crossover nx = 128.
var (
	quickSquares    = []int{0, 1, 2, 3, 5, 8, 16, 17, 31, 32, 33, 63, 64, 65, 66, 100, 128, 129}
	thoroughSquares = []int{0, 1, 2, 3, 4, 5, 7, 8, 9, 15, 16, 17, 31, 32, 33, 47, 63, 64, 65, 66, 96, 127, 128, 129, 130, 131, 160, 193, 200}
	quickRects      = [][2]int{{5, 3}, {3, 5}, {1, 7}, {7, 1}, {0, 4}, {4, 0}, {33, 17}, {17, 33}, {65, 64}, {64, 65}, {70, 33}, {33, 70}, {130, 65}, {65, 130}, {140, 131}, {131, 140}}
	thoroughRects   = [][2]int{{5, 3}, {3, 5}, {1, 7}, {7, 1}, {0, 4}, {4, 0}, {2, 1}, {1, 2}, {8, 5}, {5, 8}, {33, 17}, {17, 33}, {32, 31}, {31, 32}, {65, 64}, {64, 65},
		{70, 33}, {33, 70}, {96, 47}, {47, 96}, {129, 64}, {64, 129}, {130, 65}, {65, 130}, {140, 131}, {131, 140}, {200, 129}, {129, 200}, {200, 33}, {33, 200}, {193, 130}, {130, 193}, {160, 161}, {161, 160}}
)

func (h *H) squares() []int {
	if h.thorough() {
		return thoroughSquares
	}
	return quickSquares
}

func (h *H) rects() [][2]int {
	if h.thorough() {
		return thoroughRects
	}
	return quickRects
}

// reps is the number of seeds per (shape, class) in the tier.
func (h *H) reps() int { return h.pick(2, 2) }

type addFn = func(family string, cost int, f func())

func (h *H) planLU(add addFn) {
	idx := 0
	for gi, n := range []int{0, 1, 2, 5, 17} {
		gi, n := gi, n
		add("lu", n*n, func() { h.checkGeconOptions(fmt.Sprintf("GeconOptions n=%d", n), gi, n) })
	}
	one := func(m, n int, cls string) {
		if (cls == "zerorow" || cls == "duprow") && (m > n || m < 2) {
			return
		}
		if cls == "zerocol" && min(m, n) == 0 {
			return
		}
		idx++
		i := idx
		id := fmt.Sprintf("LU m=%d n=%d class=%s #%d", m, n, cls, i)
		add("lu", m*n*max(m, n), func() { h.checkLU(id, i, m, n, cls, h.thorough()) })
	}
	sing := []string{"zerocol", "zerorow", "duprow"}
	for rep := 0; rep < h.reps(); rep++ {
		for si, n := range h.squares() {
			if h.thorough() {
				for _, cls := range generalClasses {
					one(n, n, cls)
				}
				one(n, n, "exact")
				for _, s := range sing {
					one(n, n, s)
				}
				continue
			}
			one(n, n, generalClasses[si%len(generalClasses)])
			one(n, n, generalClasses[(si+1)%len(generalClasses)])
			one(n, n, "exact")
			one(n, n, sing[si%len(sing)])
		}
		for si, mn := range h.rects() {
			m, n := mn[0], mn[1]
			if h.thorough() {
				for _, cls := range generalClasses {
					one(m, n, cls)
				}
				one(m, n, "exact")
				for _, s := range sing {
					one(m, n, s)
				}
				continue
			}
			one(m, n, generalClasses[si%len(generalClasses)])
			one(m, n, "exact")
			one(m, n, sing[(si/2)%len(sing)])
		}
	}
}
