package main

import (
	"flag"
	"fmt"
	"os"
	"os/exec"
	"path/filepath"
	"sort"
	"strings"
)

// workload lets a build variant run the quick workload inside the thorough
// tier (the -cover variant: reach evidence, not more inputs).
var workload = flag.String("workload", "", "quick: run the quick workload whatever the tier")

func (h *H) thorough() bool { return h.c.Thorough() && *workload != "quick" }

func (h *H) pick(q, t int) int {
	if h.thorough() {
		return t
	}
	return q
}

// reportReach runs only in a -cover build started by vctl (GOCOVERDIR set):
// it lists which functions of lapack/gonum the quick workload reaches
// (instrument I9 of the design). vctl builds with the default cover mode
// "set", whose counters can only be written at process exit, so the monitor
// re-executes itself as a child process with its own GOCOVERDIR, lets it run
// the quick workload to completion and reads the child's counter files.
func (h *H) reportReach() {
	if os.Getenv("GOCOVERDIR") == "" || os.Getenv("C02_COVER_CHILD") != "" {
		return
	}
	dir, err := os.MkdirTemp(os.Getenv("VERIF_SCRATCH"), "c02-reach-")
	if err != nil {
		h.c.Inconclusive("cover-reach", "cannot create scratch directory: "+err.Error())
		return
	}
	defer os.RemoveAll(dir)
	cmd := exec.Command(os.Args[0], "-tier", h.c.Tier, "-seed", fmt.Sprint(h.c.Seed), "-workload", "quick", "-variant", "reach", "-out", filepath.Join(dir, "result.json"))
	cmd.Env = append(os.Environ(), "GOCOVERDIR="+dir, "C02_COVER_CHILD=1")
	if err := cmd.Run(); err != nil {
		h.c.Inconclusive("cover-reach", "coverage child failed: "+err.Error())
		return
	}
	out, err := exec.Command("go", "tool", "covdata", "func", "-i="+dir).Output()
	if err != nil {
		h.c.Inconclusive("cover-reach", "go tool covdata failed: "+err.Error())
		return
	}
	reached, total := 0, 0
	var unreached, partial []string
	for _, line := range strings.Split(string(out), "\n") {
		if !strings.Contains(line, "gonum/lapack/gonum/") {
			continue
		}
		f := strings.Fields(line)
		if len(f) < 3 {
			continue
		}
		name, pct := f[len(f)-2], f[len(f)-1]
		total++
		if pct == "0.0%" {
			unreached = append(unreached, name)
			continue
		}
		reached++
		if len(pct) < 5 || (len(pct) == 5 && pct < "80.0%") { // below 80 %
			partial = append(partial, name+" "+pct)
		}
	}
	sort.Strings(unreached)
	sort.Strings(partial)
	h.c.Note("cover.lapack_gonum_functions_reached", reached)
	h.c.Note("cover.lapack_gonum_functions_total", total)
	h.c.Note("cover.unreached_functions", strings.Join(unreached, " "))
	h.c.Note("cover.reached_below_80_percent", strings.Join(partial, ", "))
}
