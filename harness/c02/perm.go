package main

import (
	"fmt"

	"gonum.org/v1/gonum/verifx/c02/lapackgen"
	"gonum.org/v1/gonum/verifx/ref"
)

// Permutation routines move data without arithmetic: results are compared
// exactly with index arithmetic.

func (h *H) checkLaswp(id string, seedIdx, rows, n, k1, k2, inc int) {
	rng := h.c.RNG("laswp", seedIdx)
	cs := h.newCase(id, rng)
	defer cs.done()
	a := ref.FromFunc(rows, n, func(i, j int) float64 { return float64(i*1000 + j) })
	ipiv := make([]int, k2+1)
	for i := range ipiv {
		ipiv[i] = i + rng.Intn(rows-i)
		if i < k1 {
			// entries below k1 are not used: poison them with an
			// out-of-range row index
			ipiv[i] = rows + 5
		}
	}
	tag := fmt.Sprintf("incX=%d", inc)
	for _, cf := range []cfg{{}, {pad: 7}, {pad: 7, guard: true}} {
		args, _ := cs.call("Dlaswp", tag, D{"n": n, "rows": rows, "k1": k1, "k2": k2}, D{"incX": inc}, cf, func(x *lapackgen.Args) {
			setMat(x, "a", a)
			copy(x.Ints("ipiv"), ipiv)
		})
		if args == nil {
			continue
		}
		want := a.Clone()
		swap := func(k int) {
			p := ipiv[k]
			for j := 0; j < n; j++ {
				want.D[k*n+j], want.D[p*n+j] = want.D[p*n+j], want.D[k*n+j]
			}
		}
		if inc == 1 {
			for k := k1; k <= k2; k++ {
				swap(k)
			}
		} else {
			for k := k2; k >= k1; k-- {
				swap(k)
			}
		}
		if n > 0 && ref.MaxDiff(getMat(args, "a"), want) != 0 {
			cs.fail("Dlaswp", tag, "wrong-rows", "%v rows=%d n=%d k1=%d k2=%d ipiv=%v", cf, rows, n, k1, k2, ipiv)
		}
	}
}

func (h *H) checkLapm(id string, seedIdx, m, n int, forward bool) {
	rng := h.c.RNG("lapm", seedIdx)
	cs := h.newCase(id, rng)
	defer cs.done()
	x := ref.FromFunc(m, n, func(i, j int) float64 { return float64(i*1000 + j) })
	tag := fmt.Sprintf("forward=%v", forward)
	for _, routine := range []string{"Dlapmt", "Dlapmr"} {
		cnt := n
		if routine == "Dlapmr" {
			cnt = m
		}
		k := rng.Perm(cnt)
		if seedIdx%5 == 0 {
			for i := range k {
				k[i] = i // identity
			}
		}
		want := ref.New(m, n)
		for i := 0; i < m; i++ {
			for j := 0; j < n; j++ {
				switch {
				case routine == "Dlapmt" && forward: // X[:, k[j]] moved to X[:, j]
					want.D[i*n+j] = x.D[i*n+k[j]]
				case routine == "Dlapmt": // X[:, j] moved to X[:, k[j]]
					want.D[i*n+k[j]] = x.D[i*n+j]
				case forward: // X[k[i], :] moved to X[i, :]
					want.D[i*n+j] = x.D[k[i]*n+j]
				default:
					want.D[k[i]*n+j] = x.D[i*n+j]
				}
			}
		}
		for _, cf := range []cfg{{}, {pad: 7, guard: true}} {
			args, _ := cs.call(routine, tag, D{"m": m, "n": n}, D{"forward": b2i(forward)}, cf, func(a *lapackgen.Args) {
				setMat(a, "x", x)
				copy(a.Ints("k"), k)
			})
			if args == nil || m == 0 || n == 0 {
				continue
			}
			if ref.MaxDiff(getMat(args, "x"), want) != 0 {
				cs.fail(routine, tag, "wrong-permutation", "%v m=%d n=%d k=%v", cf, m, n, k)
			}
		}
	}
}

func (h *H) planPerm(add addFn) {
	idx := 0
	for rep := 0; rep < h.reps()*2; rep++ {
		for _, rows := range []int{1, 2, 3, 5, 8, 17, 40} {
			for _, n := range []int{0, 1, 3, 9, 33} {
				for _, inc := range []int{1, -1} {
					r := h.c.RNG("laswp-plan", idx)
					k1 := r.Intn(rows)
					k2 := k1 + r.Intn(rows-k1)
					if idx%3 == 0 {
						k1, k2 = 0, rows-1
					}
					idx++
					i := idx
					rows, n, inc, k1, k2 := rows, n, inc, k1, k2
					add("laswp", rows*n, func() {
						h.checkLaswp(fmt.Sprintf("Laswp rows=%d n=%d k1=%d k2=%d inc=%d #%d", rows, n, k1, k2, inc, i), i, rows, n, k1, k2, inc)
					})
				}
			}
		}
		for _, m := range []int{0, 1, 2, 3, 6, 17} {
			for _, n := range []int{0, 1, 2, 4, 7, 33} {
				for _, fw := range []bool{true, false} {
					idx++
					i := idx
					m, n, fw := m, n, fw
					add("lapm", m*n, func() { h.checkLapm(fmt.Sprintf("Lapm m=%d n=%d forward=%v #%d", m, n, fw, i), i, m, n, fw) })
				}
			}
		}
	}
}
