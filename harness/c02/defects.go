package main

import (
	"fmt"
	"math"
	"os"
	"path/filepath"
	"regexp"
	"sort"

	"gonum.org/v1/gonum/blas"
	"gonum.org/v1/gonum/lapack"
	"gonum.org/v1/gonum/verifx/c02/lapackgen"
	"gonum.org/v1/gonum/verifx/ref"
	"gonum.org/v1/gonum/verifx/vrt"
)

// Targeted sub-checks for corners that the shape sweeps avoid on purpose
// (because a defect of the pinned tree lives there and would otherwise fire
// under many signatures). Each has one narrow, stable signature.

// subnormalPivot: LU of a matrix whose first column is scaled into the
// subnormal range (exact power-of-two scaling of small integers, so the
// multipliers 2/3, 1/3 ... are the same as for the unscaled column). The
// pivot is below the safe minimum, which selects the element-wise division
// branch of Dgetf2. The factors must still be finite with |l_ij| <= 1.
func (h *H) checkSubnormalPivot(id string, m, n int) {
	cs := h.newCase(id, h.c.RNG("subnormal", m, n))
	defer cs.done()
	tiny := math.Ldexp(1, -1040)
	a := ref.FromFunc(m, n, func(i, j int) float64 {
		if j == 0 {
			return float64(m-i) * tiny // strictly decreasing: no interchange, no tie
		}
		return float64((i*7+j*3)%5) - 2
	})
	for _, routine := range []string{"Dgetf2", "Dgetrf"} {
		args, _ := cs.call(routine, "subnormal-pivot", D{"m": m, "n": n}, nil, cfg{}, func(x *lapackgen.Args) { setMat(x, "a", a) })
		if args == nil {
			continue
		}
		f := getMat(args, "a")
		// Later steps interchange rows of L, so column 0 holds the values
		// (m-i)/m, i = 1..m-1, in some order.
		got := make([]float64, 0, m-1)
		for i := 1; i < m; i++ {
			got = append(got, f.D[i*n])
		}
		sort.Float64s(got)
		for i, l := range got {
			want := float64(i+1) / float64(m)
			if math.IsNaN(l) || math.Abs(l) > 1 || !vrt.RelClose(l, want, 4*eps, 0) {
				cs.fail(routine, "subnormal-pivot", "multiplier-wrong", "m=%d n=%d: column 0 is (%d..1)*2^-1040; sorted multipliers of column 0: entry %d is %v, expected %v", m, n, m, i, l, want)
				break
			}
		}
	}
}

// larftFull: Dlarft with k == n reflectors and a non-zero last tau, v of
// exactly the documented minimal length.
func (h *H) checkLarftFull(id string, n, pad int) {
	rng := h.c.RNG("larftfull", n, pad)
	cs := h.newCase(id, rng)
	defer cs.done()
	for _, direct := range []lapack.Direct{lapack.Forward, lapack.Backward} {
		for _, store := range []lapack.StoreV{lapack.ColumnWise, lapack.RowWise} {
			v, vs, tau := blockV(rng, direct, store, n, n)
			for i := range tau {
				if tau[i] == 0 {
					tau[i] = 1.5
				}
			}
			forward := direct == lapack.Forward
			tOwn := ownT(forward, vs, tau)
			tag := fmt.Sprintf("direct=%c store=%c k=n", direct, store)
			args, _ := cs.call("Dlarft", tag, D{"n": n, "k": n}, D{"direct": int(direct), "store": int(store)}, cfg{pad: pad}, func(x *lapackgen.Args) {
				setMat(x, "v", v)
				setVec(x, "tau", tau)
			})
			if args == nil {
				continue
			}
			tg := getMat(args, "t")
			for i := 0; i < n; i++ {
				for j := 0; j < n; j++ {
					if (forward && j < i) || (!forward && j > i) {
						tg.D[i*n+j] = 0
					}
				}
			}
			cs.band("Dlarft", tag, "larft-triangular-factor", ref.MaxDiff(tg, tOwn), float64(2*n)*eps*max(tOwn.MaxAbs(), 1), func() string {
				return fmt.Sprintf("n=k=%d pad=%d", n, pad)
			})
		}
	}
}

// docMinWork: the workspace length stated in the doc comment must be
// accepted. The tuples of lapackgen use the length the argument checks
// demand; here the documented figure is supplied instead.
func (h *H) checkDocMinWork(id string, m, n int) {
	rng := h.c.RNG("docmin", m, n)
	cs := h.newCase(id, rng)
	defer cs.done()
	for _, side := range []blas.Side{blas.Left, blas.Right} {
		tag := "" // the doc comments have the two sides swapped: one defect
		etag := fmt.Sprintf("side=%c", side)
		// Dlarf: "work must have length at least m if side == blas.Left and
		// at least n if side == blas.Right".
		// The documented figure is read from the doc comment of the tree
		// under test, so that a documentation repair is honoured.
		leftVar, ok := docLeftVar("lapack/gonum/dlarf.go", `work must have length at least (\w) if side == blas\.Left`)
		if !ok {
			h.c.Count("docmin.Dlarf.doc-wording-not-recognised", 1)
			continue
		}
		doc := pickDim(leftVar, side, m, n)
		a := lapackgen.Get("Dlarf").Build(lapackgen.Params{Dims: D{"m": m, "n": n}, Flags: D{"side": int(side)}})
		a.FillDefault(rng)
		w := a.Arg("work")
		if doc < len(w.S) {
			w.S = w.S[:doc]
			h.c.LastCase(id + " " + a.Describe())
			pn := vrt.Try(func() { a.Invoke(h.impl) })
			h.count("Dlarf")
			h.c.Eval("Dlarf|docmin|"+etag, true)
			if pn != nil {
				h.c.Violation(sig("Dlarf", tag, "documented-minimum-work-rejected"),
					fmt.Sprintf("%s: side=%c m=%d n=%d len(work)=%d as documented: %s", id, side, m, n, doc, pn.Msg), nil)
			}
		}
		// Dormlq: "At minimum, lwork >= m if side == blas.Left and lwork >= n
		// if side == blas.Right".
		k := 1
		leftVarQ, ok := docLeftVar("lapack/gonum/dormlq.go", `lwork >= (\w) if side == blas\.Left`)
		if !ok {
			h.c.Count("docmin.Dormlq.doc-wording-not-recognised", 1)
			continue
		}
		docL := max(1, pickDim(leftVarQ, side, m, n))
		p := lapackgen.Params{Dims: D{"m": m, "n": n, "k": k}, Flags: D{"side": int(side), "trans": int(blas.NoTrans)}}
		b := lapackgen.Get("Dormlq").Build(p)
		b.FillDefault(rng)
		if docL < b.Int("lwork") {
			b.Arg("lwork").I = docL
			b.Arg("work").S = b.Arg("work").S[:docL]
			h.c.LastCase(id + " " + b.Describe())
			pn := vrt.Try(func() { b.Invoke(h.impl) })
			h.count("Dormlq")
			h.c.Eval("Dormlq|docmin|"+etag, true)
			if pn != nil {
				h.c.Violation(sig("Dormlq", tag, "documented-minimum-lwork-rejected"),
					fmt.Sprintf("%s: side=%c m=%d n=%d lwork=%d as documented: %s", id, side, m, n, docL, pn.Msg), nil)
			}
		}
	}
}

// geqp3FixedMin: Dgeqp3 with more than a quarter of the columns marked as
// leading columns, more than 128 free columns (so that the blocked path is
// considered) and the documented minimal workspace lwork = 3n+1.
func (h *H) checkGeqp3FixedMin(id string, n int) {
	rng := h.c.RNG("geqp3fixed", n)
	cs := h.newCase(id, rng)
	defer cs.done()
	a, _ := general(rng, clsRand, n, n)
	jin := make([]int, n)
	for j := range jin {
		jin[j] = -1
		if j%18 < 5 { // 50 of 180: 130 free columns, above the crossover 128
			jin[j] = 0
		}
	}
	tag := "lwork=min leading-columns"
	args, _ := cs.call("Dgeqp3", tag, D{"m": n, "n": n}, nil, cfg{lw: lwMin}, func(x *lapackgen.Args) {
		setMat(x, "a", a)
		copy(x.Ints("jpvt"), jin)
	})
	if args != nil {
		cs.checkPartialQR("Dgeqp3", tag, id, a, getMat(args, "a"), cloneI(args.Ints("jpvt")), cloneF(args.F64s("tau")), 0, n)
	}
}

// geqp3FixedTight: the same workspace-layout slip seen from the other side.
// lwork equal to the amount Dgeqp3 itself computes as sufficient for the
// full block size, 2*sn + (sn+1)*nb with sn free columns, is legal
// (>= 3n+1) and keeps nb = 32, but the slices are cut at offsets based on
// n: with at least 160 free columns (a full first panel) F is 2*nfxd short.
func (h *H) checkGeqp3FixedTight(id string, n, nfxd int) {
	rng := h.c.RNG("geqp3tight", n)
	cs := h.newCase(id, rng)
	defer cs.done()
	a, _ := general(rng, clsRand, n, n)
	jin := make([]int, n)
	for j := range jin {
		jin[j] = -1
		if j < nfxd {
			jin[j] = 0
		}
	}
	sn := n - nfxd
	lw := 2*sn + (sn+1)*32
	tag := "lwork=2sn+(sn+1)nb leading-columns"
	args, _ := cs.callFixedLW("Dgeqp3", tag, D{"m": n, "n": n}, nil, cfg{}, lw, func(x *lapackgen.Args) {
		setMat(x, "a", a)
		copy(x.Ints("jpvt"), jin)
	})
	if args != nil {
		cs.checkPartialQR("Dgeqp3", tag, id, a, getMat(args, "a"), cloneI(args.Ints("jpvt")), cloneF(args.F64s("tau")), 0, n)
	}
}

// ormqrFull: Dormqr with k == nq reflectors, a non-zero last tau and an
// operand a of exactly the documented minimal length (nq-1)*lda+k; k > 32
// selects the blocked path, whose last Dlarft call has n == k.
func (h *H) checkOrmqrFull(id string, nq int) {
	rng := h.c.RNG("ormqrfull", nq)
	cs := h.newCase(id, rng)
	defer cs.done()
	f, tau := randomReflectors(rng, "QR", nq, nq) // every H_i orthogonal (tau_i = 2/vᵀv or 0)
	tau[nq-1] = 2                                 // v = e_last: H = I - 2 e eᵀ is orthogonal
	q := formQ("QR", f, tau, nq)
	c := ref.FromFunc(nq, 3, func(i, j int) float64 { return rng.Sym() })
	want := ref.Mul(q, c)
	tag := "k=nq last tau nonzero"
	args, _ := cs.call("Dormqr", tag, D{"m": nq, "n": 3, "k": nq}, D{"side": int(blas.Left), "trans": int(blas.NoTrans)}, cfg{lw: lwQuery}, func(x *lapackgen.Args) {
		setMat(x, "a", f)
		setVec(x, "tau", tau)
		setMat(x, "c", c)
	})
	if args == nil {
		return
	}
	cs.band("Dormqr", tag, "orm-matches-reflector-product", ref.MaxDiff(getMat(args, "c"), want), float64(nq+2)*eps*c.NormFro(), func() string { return id })
}

func (h *H) planDefects(add addFn) {
	add("defect-probes", 200*200*200, func() { h.checkGeqp3FixedMin("Geqp3FixedMin n=180", 180) })
	add("defect-probes", 200*200*200, func() { h.checkGeqp3FixedTight("Geqp3FixedTight n=200 nfxd=30", 200, 30) })
	add("defect-probes", 1, func() { h.checkOrmqrFull("OrmqrFull nq=k=40", 40) })
	for _, mn := range [][2]int{{3, 2}, {4, 4}, {5, 3}, {70, 70}} {
		m, n := mn[0], mn[1]
		add("defect-probes", 1, func() { h.checkSubnormalPivot(fmt.Sprintf("SubnormalPivot m=%d n=%d", m, n), m, n) })
	}
	for _, n := range []int{1, 2, 4, 9} {
		for _, pad := range []int{0, 7} {
			n, pad := n, pad
			add("defect-probes", 1, func() { h.checkLarftFull(fmt.Sprintf("LarftFull n=k=%d pad=%d", n, pad), n, pad) })
		}
	}
	for _, mn := range [][2]int{{3, 5}, {5, 3}, {2, 9}, {9, 2}} {
		m, n := mn[0], mn[1]
		add("defect-probes", 1, func() { h.checkDocMinWork(fmt.Sprintf("DocMinWork m=%d n=%d", m, n), m, n) })
	}
}

// docLeftVar returns the dimension name ("m" or "n") that the doc comment in
// file (relative to the gonum tree under test, $VERIF_REPO) states for
// side == blas.Left, using re whose first group captures it.
func docLeftVar(file, re string) (string, bool) {
	repo := os.Getenv("VERIF_REPO")
	if repo == "" {
		repo = "/repo"
	}
	b, err := os.ReadFile(filepath.Join(repo, file))
	if err != nil {
		return "", false
	}
	mm := regexp.MustCompile(re).FindSubmatch(b)
	if mm == nil || (string(mm[1]) != "m" && string(mm[1]) != "n") {
		return "", false
	}
	return string(mm[1]), true
}

// pickDim returns the documented length for side given the dimension the
// doc names for the Left side (the other one is named for the Right side).
func pickDim(leftVar string, side blas.Side, m, n int) int {
	if (side == blas.Left) == (leftVar == "m") {
		return m
	}
	return n
}
