package main

import (
	"fmt"

	"gonum.org/v1/gonum/blas"
)

// planExtreme gives every routine family that has a scaling / underflow
// protection branch at least one subnormal-magnitude input (entries ~3e-315:
// every column norm is subnormal), one near-overflow input (~1e301) and one
// mixed input in BOTH tiers. The identities are scale-aware: orthogonality of
// Q is judged to n*u whatever the scale, reconstructions relative to |A| plus
// the absolute floor subFloor for the spacing of subnormal numbers, solutions
// after undoing the exact power-of-two scaling.
//
//	Dlarfg (rescaling loop)        checkLarfg cases 6..8 (planReflectors)
//	QR/LQ/RQ/QL + Dorg*, Dgeqp3    checkQR, checkQP3
//	norms (Dlassq, sums)            checkNormsCls
//	LU (tiny pivots, Dgetf2)        checkLU, factorization identities
//	Cholesky, pivoted, tridiagonal  checkChol, checkPstrf, checkPtScaled
//	Dgels (Dlascl)                  classes ABsub, ABhuge ... (planGels)
func (h *H) planExtreme(add addFn) {
	idx := 0
	for rep := 0; rep < h.reps(); rep++ {
		for _, cls := range extremeClasses {
			for _, mn := range [][2]int{{9, 6}, {6, 9}, {7, 7}, {40, 35}, {35, 40}} {
				idx++
				i := idx
				m, n, cls := mn[0], mn[1], cls
				add("extreme", 6*m*n*max(m, n), func() {
					h.checkQR(fmt.Sprintf("QR m=%d n=%d class=%s #x%d", m, n, cls, i), 500000+i, m, n, cls, false)
				})
				add("extreme", m*n*max(m, n), func() {
					h.checkLU(fmt.Sprintf("LU m=%d n=%d class=%s #x%d", m, n, cls, i), 500000+i, m, n, cls, false)
				})
				if m <= 9 || cls != clsMixed {
					add("extreme", 5*m*n*max(m, n), func() {
						h.checkQP3(fmt.Sprintf("QP3 m=%d n=%d class=%s #x%d", m, n, cls, i), 500000+i, m, n, cls, false)
					})
				}
			}
			for _, mn := range [][2]int{{5, 5}, {4, 7}, {9, 9}} {
				idx++
				i := idx
				m, n, cls := mn[0], mn[1], cls
				add("extreme", m*n*30, func() {
					h.checkNormsCls(fmt.Sprintf("Norms m=%d n=%d class=%s #x%d", m, n, cls, i), 500000+i, m, n, cls)
				})
			}
			if cls == clsMixed {
				continue
			}
			for _, n := range []int{5, 33, 70} {
				for _, ul := range []blas.Uplo{blas.Upper, blas.Lower} {
					idx++
					i := idx
					n, ul, cls := n, ul, cls
					add("extreme", n*n*n, func() {
						h.checkChol(fmt.Sprintf("Chol n=%d uplo=%c class=%s #x%d", n, ul, cls, i), 500000+i, n, ul, cls, false)
					})
					add("extreme", n*n*n, func() {
						h.checkPstrf(fmt.Sprintf("Pstrf n=%d uplo=%c class=%s #x%d", n, ul, cls, i), 500000+i, n, ul, cls, false)
					})
				}
				idx++
				i := idx
				n, e := n, subExp+6
				if cls == clsHuge {
					e = hugeExp
				}
				add("extreme", n, func() {
					h.checkPtScaled(fmt.Sprintf("Pt n=%d class=%s #x%d", n, cls, i), 500000+i, n, 1, false, e)
				})
			}
		}
	}
}
