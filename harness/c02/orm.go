package main

import (
	"fmt"
	"math"

	"gonum.org/v1/gonum/blas"
	"gonum.org/v1/gonum/lapack"
	"gonum.org/v1/gonum/verifx/c02/lapackgen"
	"gonum.org/v1/gonum/verifx/ref"
	"gonum.org/v1/gonum/verifx/vrt"
)

// randomReflectors returns an array of the given factorisation kind holding
// k random Householder vectors of order nq (QR: nq x k column-wise; LQ, RQ:
// k x nq row-wise) and the scalars tau_i = 2 / (v_iᵀ v_i) that make every
// H_i exactly (up to rounding) orthogonal. A few tau are set to zero (H_i =
// I), which the routines treat specially.
func randomReflectors(r *vrt.Rand, kind string, nq, k int) (*ref.M, []float64) {
	var f *ref.M
	if kind == "QR" {
		f = ref.New(nq, k)
	} else {
		f = ref.New(k, nq)
	}
	refl := lapackgen.ReflectorRef(kind, f.R, f.C, k)
	for i := 0; i < f.R; i++ {
		for j := 0; j < f.C; j++ {
			if refl(i, j) {
				f.D[i*f.C+j] = r.Sym()
			}
		}
	}
	tau := make([]float64, k)
	for i := 0; i < k; i++ {
		v := reflector(kind, f, k, i)
		var vv float64
		for _, x := range v {
			vv += x * x
		}
		tau[i] = 2 / vv
		if r.Intn(12) == 0 {
			tau[i] = 0
		}
	}
	return f, tau
}

func sideTransTag(side blas.Side, trans blas.Transpose) string {
	return fmt.Sprintf("side=%c trans=%c", side, trans)
}

// applyQ returns op(Q)*C or C*op(Q).
func applyQ(q, c *ref.M, side blas.Side, trans blas.Transpose) *ref.M {
	op := q
	if trans == blas.Trans {
		op = q.T()
	}
	if side == blas.Left {
		return ref.Mul(op, c)
	}
	return ref.Mul(c, op)
}

// checkOrm applies Q from the left / right, plain / transposed, with the
// unblocked and blocked routines of one factorisation kind.
func (h *H) checkOrm(id string, seedIdx int, kind string, side blas.Side, trans blas.Transpose, m, n, k int, deep bool) {
	rng := h.c.RNG("orm", seedIdx)
	cs := h.newCase(id, rng)
	defer cs.done()
	nq := n
	if side == blas.Left {
		nq = m
	}
	f, tau := randomReflectors(rng, kind, nq, k)
	if kind == "QR" && k == nq && k > 0 {
		// H_{k-1} has order one; Dgeqrf gives it tau = 0. (With a non-zero
		// value Dormqr's blocked path runs into the Dlarft slicing defect
		// that planDefects reports under its own signature.)
		tau[k-1] = 0
	}
	q := formQ(kind, f, tau, k)
	c := ref.FromFunc(m, n, func(i, j int) float64 { return rng.Sym() })
	want := applyQ(q, c, side, trans)
	tag := sideTransTag(side, trans)
	dims := D{"m": m, "n": n, "k": k}
	flags := D{"side": int(side), "trans": int(trans)}
	type run struct {
		routine string
		cf      cfg
		mid     bool
	}
	var runs []run
	switch kind {
	case "QR":
		runs = []run{{"Dorm2r", cfg{}, false}, {"Dormqr", cfg{lw: lwMin}, false}, {"Dormqr", cfg{lw: lwQuery, pad: 7}, false}, {"Dormqr", cfg{lw: lwQuery13}, false}, {"Dormqr", cfg{}, true}, {"Dorm2r", cfg{pad: 7, guard: true}, false}}
	case "LQ":
		runs = []run{{"Dorml2", cfg{}, false}, {"Dormlq", cfg{lw: lwMin}, false}, {"Dormlq", cfg{lw: lwQuery, pad: 7}, false}, {"Dormlq", cfg{lw: lwQuery13}, false}, {"Dormlq", cfg{}, true}, {"Dorml2", cfg{pad: 7, guard: true}, false}}
	case "RQ":
		runs = []run{{"Dormr2", cfg{}, false}, {"Dormr2", cfg{pad: 7, guard: true}, false}}
	}
	for _, r := range runs {
		tg := tag
		if lapackgen.Get(r.routine).HasLWork {
			tg += " lwork=" + r.cf.lw.String()
			if r.mid {
				tg = tag + " lwork=mid"
			}
		}
		args, _ := cs.callLW(r.routine, tg, dims, flags, r.cf, r.mid, func(x *lapackgen.Args) {
			setMat(x, "a", f) // only the reflector positions; R's storage stays tainted
			setVec(x, "tau", tau)
			setMat(x, "c", c)
		})
		if args == nil || m == 0 || n == 0 {
			continue
		}
		got := getMat(args, "c")
		cs.band(r.routine, tg, "orm-matches-reflector-product", ref.MaxDiff(got, want), float64(nq+2)*eps*c.NormFro(), func() string {
			return fmt.Sprintf("%v m=%d n=%d k=%d", r.cf, m, n, k)
		})
	}
}

func (h *H) planOrm(add addFn) {
	idx := 0
	// (m, n) of C; k is chosen relative to nq around the block size 32 / nbmax 64.
	shapes := [][2]int{{0, 3}, {3, 0}, {1, 1}, {4, 7}, {7, 4}, {17, 9}, {33, 20}, {20, 33}, {40, 40}, {66, 35}, {35, 66}, {70, 70}}
	if h.thorough() {
		shapes = append(shapes, [][2]int{{2, 2}, {5, 5}, {31, 32}, {32, 31}, {64, 65}, {65, 64}, {96, 40}, {40, 96}, {129, 70}, {70, 129}, {130, 130}, {200, 33}, {33, 200}}...)
	}
	sides := []blas.Side{blas.Left, blas.Right}
	transes := []blas.Transpose{blas.NoTrans, blas.Trans}
	for rep := 0; rep < h.reps(); rep++ {
		for _, kind := range []string{"QR", "LQ", "RQ"} {
			for _, mn := range shapes {
				for _, side := range sides {
					for _, trans := range transes {
						m, n := mn[0], mn[1]
						nq := n
						if side == blas.Left {
							nq = m
						}
						ks := []int{nq}
						if nq > 2 {
							ks = append(ks, nq/2)
						}
						if nq > 34 {
							ks = append(ks, 33)
						}
						if h.thorough() {
							ks = append(ks, 0)
							if nq > 1 {
								ks = append(ks, 1)
							}
							if nq > 65 {
								ks = append(ks, 64, 65)
							}
						}
						for _, k := range ks {
							idx++
							i := idx
							kind, side, trans, k := kind, side, trans, k
							id := fmt.Sprintf("Orm %s side=%c trans=%c m=%d n=%d k=%d #%d", kind, side, trans, m, n, k, i)
							add("orm", 4*(m+1)*(n+1)*(k+1), func() { h.checkOrm(id, i, kind, side, trans, m, n, k, h.thorough()) })
						}
					}
				}
			}
		}
	}
}

// ---- elementary and block reflectors -----------------------------------------------

// ownT computes the triangular factor of the block reflector from its
// definition (see Dlarft): Forward H = H_0...H_{k-1} = I - V T Vᵀ with T
// upper triangular, Backward H = H_{k-1}...H_0 with T lower triangular.
// vs[i] is the i-th Householder vector (explicit unit entry, length n).
func ownT(forward bool, vs [][]float64, tau []float64) *ref.M {
	k := len(vs)
	t := ref.New(k, k)
	for j := 0; j < k; j++ {
		// w = Vᵀ v_j over the reflectors already absorbed.
		w := make([]float64, j)
		for i := 0; i < j; i++ {
			for p := range vs[j] {
				w[i] += vs[i][p] * vs[j][p]
			}
		}
		if forward {
			// H^(j+1) = H^(j) H_j: new column -tau_j T w.
			for i := 0; i < j; i++ {
				var s float64
				for p := i; p < j; p++ {
					s += t.D[i*k+p] * w[p]
				}
				t.D[i*k+j] = -tau[j] * s
			}
		} else {
			// H^(j+1) = H_j H^(j): new row -tau_j wᵀ T.
			for i := 0; i < j; i++ {
				var s float64
				for p := i; p < j; p++ {
					s += w[p] * t.D[p*k+i]
				}
				t.D[j*k+i] = -tau[j] * s
			}
		}
		t.D[j*k+j] = tau[j]
	}
	return t
}

// blockV builds the stored V array and the list of explicit Householder
// vectors for Dlarft / Dlarfb.
func blockV(r *vrt.Rand, direct lapack.Direct, store lapack.StoreV, nv, k int) (v *ref.M, vs [][]float64, tau []float64) {
	return blockVZ(r, direct, store, nv, k, 0)
}

// blockVZ is blockV with exact zeros at the far end of some reflectors
// (the end away from the unit entry: trailing for Forward, leading for
// Backward), which Dlarft detects to shorten its products. zeros: 0 none,
// 1 a random tail for each reflector with probability 1/2, 2 only the
// second reflector (index 1) is short while the others are full.
func blockVZ(r *vrt.Rand, direct lapack.Direct, store lapack.StoreV, nv, k, zeros int) (v *ref.M, vs [][]float64, tau []float64) {
	refp := lapackgen.BlockVRef(int(direct), int(store), nv, k)
	if store == lapack.ColumnWise {
		v = ref.New(nv, k)
	} else {
		v = ref.New(k, nv)
	}
	// keep[i] = number of entries of reflector i, counted from the unit
	// entry, that stay non-zero.
	keep := make([]int, k)
	for i := range keep {
		keep[i] = nv
		switch {
		case zeros == 1 && r.Bool():
			keep[i] = 1 + r.Intn(nv)
		case zeros == 2 && i == 1:
			keep[i] = 1 + r.Intn(max(1, nv/2))
		}
	}
	for i := 0; i < v.R; i++ {
		for j := 0; j < v.C; j++ {
			if !refp(i, j) {
				continue
			}
			refl, pos := j, i // reflector index, position within the vector
			if store == lapack.RowWise {
				refl, pos = i, j
			}
			unit := refl
			if direct == lapack.Backward {
				unit = nv - k + refl
			}
			dist := pos - unit
			if dist < 0 {
				dist = -dist
			}
			if dist < keep[refl] {
				v.D[i*v.C+j] = r.Sym()
			}
		}
	}
	vs = make([][]float64, k)
	tau = make([]float64, k)
	for i := 0; i < k; i++ {
		x := make([]float64, nv)
		unit := i
		if direct == lapack.Backward {
			unit = nv - k + i
		}
		for p := 0; p < nv; p++ {
			var stored bool
			var val float64
			if store == lapack.ColumnWise {
				stored, val = refp(p, i), v.D[p*k+i]
			} else {
				stored, val = refp(i, p), v.D[i*nv+p]
			}
			if stored {
				x[p] = val
			}
		}
		x[unit] = 1
		vs[i] = x
		var vv float64
		for _, y := range x {
			vv += y * y
		}
		tau[i] = 2 / vv
		if r.Intn(10) == 0 {
			tau[i] = 0
		}
	}
	return v, vs, tau
}

func productH(forward bool, vs [][]float64, tau []float64, order int) *ref.M {
	hh := ref.Eye(order)
	if forward {
		for i := range vs {
			rightMulReflector(hh, vs[i], tau[i])
		}
	} else {
		for i := len(vs) - 1; i >= 0; i-- {
			rightMulReflector(hh, vs[i], tau[i])
		}
	}
	return hh
}

func (h *H) checkBlockReflector(id string, seedIdx int, side blas.Side, trans blas.Transpose, direct lapack.Direct, store lapack.StoreV, m, n, k int) {
	rng := h.c.RNG("larfb", seedIdx)
	cs := h.newCase(id, rng)
	defer cs.done()
	nv := n
	if side == blas.Left {
		nv = m
	}
	forward := direct == lapack.Forward
	v, vs, tau := blockVZ(rng, direct, store, nv, k, seedIdx%3)
	// Dlarft (Forward, ColumnWise) slices v out of range when k == nv and
	// the last tau is non-zero: a known defect reported by planDefects; keep
	// this sweep inside the part of the domain that works by using the
	// value Dlarfg would produce for a reflector of order one.
	if k == nv {
		if forward {
			tau[k-1] = 0
		} else {
			tau[0] = 0
		}
	}
	hprod := productH(forward, vs, tau, nv)
	tagT := fmt.Sprintf("direct=%c store=%c", direct, store)
	flagsT := D{"direct": int(direct), "store": int(store)}

	// Dlarft: I - V T Vᵀ must be the product of the elementary reflectors
	// and T must match the triangular factor defined by the recurrence.
	tOwn := ownT(forward, vs, tau)
	for _, cf := range []cfg{{}, {pad: 7, guard: true}} {
		args, _ := cs.call("Dlarft", tagT, D{"n": nv, "k": k}, flagsT, cf, func(x *lapackgen.Args) {
			setMat(x, "v", v)
			setVec(x, "tau", tau)
		})
		if args == nil || nv == 0 {
			continue
		}
		tg := getMat(args, "t")
		// The other triangle of t is not referenced (still tainted).
		for i := 0; i < k; i++ {
			for j := 0; j < k; j++ {
				if (forward && j < i) || (!forward && j > i) {
					tg.D[i*k+j] = 0
				}
			}
		}
		cs.band("Dlarft", tagT, "larft-triangular-factor", ref.MaxDiff(tg, tOwn), float64(nv+k)*eps*max(tOwn.MaxAbs(), 1), func() string {
			return fmt.Sprintf("%v n=%d k=%d", cf, nv, k)
		})
	}

	// Dlarfb with the oracle's own T.
	c := ref.FromFunc(m, n, func(i, j int) float64 { return rng.Sym() })
	want := applyQ(hprod, c, side, trans)
	tagB := fmt.Sprintf("side=%c trans=%c direct=%c store=%c", side, trans, direct, store)
	flagsB := D{"side": int(side), "trans": int(trans), "direct": int(direct), "store": int(store)}
	for _, cf := range []cfg{{}, {pad: 7}, {pad: 7, guard: true}} {
		args, _ := cs.call("Dlarfb", tagB, D{"m": m, "n": n, "k": k}, flagsB, cf, func(x *lapackgen.Args) {
			setMat(x, "v", v)
			setMat(x, "t", tOwn)
			setMat(x, "c", c)
		})
		if args == nil || m == 0 || n == 0 {
			continue
		}
		got := getMat(args, "c")
		cs.band("Dlarfb", tagB, "larfb-matches-reflector-product", ref.MaxDiff(got, want), float64(nv+k)*eps*c.NormFro()*max(1, tOwn.MaxAbs()), func() string {
			return fmt.Sprintf("%v m=%d n=%d k=%d", cf, m, n, k)
		})
	}
}

func max64(a, b float64) float64 {
	if a > b {
		return a
	}
	return b
}

func (h *H) checkElementary(id string, seedIdx, m, n int, side blas.Side) {
	rng := h.c.RNG("larf", seedIdx)
	cs := h.newCase(id, rng)
	defer cs.done()
	lv := n
	if side == blas.Left {
		lv = m
	}
	tag := fmt.Sprintf("side=%c", side)
	v := randVec(rng, lv)
	// trailing zeros in v and zero tau exercise the lastv / quick paths
	switch seedIdx % 5 {
	case 1:
		for i := lv / 2; i < lv; i++ {
			v[i] = 0
		}
	case 2:
		for i := range v {
			v[i] = 0
		}
	}
	tau := rng.Uniform(0.1, 1.9)
	if seedIdx%7 == 3 {
		tau = 0
	}
	c := ref.FromFunc(m, n, func(i, j int) float64 { return rng.Sym() })
	if seedIdx%5 == 4 && n > 1 {
		// zero trailing columns / rows of C (Iladlc / Iladlr paths)
		for i := 0; i < m; i++ {
			c.D[i*n+n-1] = 0
		}
	}
	hh := ref.Eye(lv)
	rightMulReflector(hh, v, tau)
	want := applyQ(hh, c, side, blas.NoTrans)
	var vnorm float64
	for _, x := range v {
		vnorm += x * x
	}
	scale := c.NormFro() * (1 + tau*vnorm)
	for _, routine := range []string{"Dlarf", "Dlarfx"} {
		for _, cf := range []cfg{{}, {pad: 7}, {pad: 2, guard: true}} {
			args, _ := cs.call(routine, tag, D{"m": m, "n": n}, D{"side": int(side)}, cf, func(x *lapackgen.Args) {
				vv := x.F64s("v")
				inc := 1
				if x.Has("incv") {
					inc = x.Int("incv")
				}
				for i := 0; i < lv; i++ {
					vv[i*inc] = v[i]
				}
				x.Arg("tau").F = tau
				setMat(x, "c", c)
			})
			if args == nil || m == 0 || n == 0 {
				continue
			}
			got := getMat(args, "c")
			cs.band(routine, tag, "larf-matches-definition", ref.MaxDiff(got, want), float64(lv+2)*eps*scale, func() string {
				return fmt.Sprintf("%v m=%d n=%d tau=%g", cf, m, n, tau)
			})
		}
	}
}

func (h *H) checkLarfg(id string, seedIdx, n int) {
	rng := h.c.RNG("larfg", seedIdx)
	cs := h.newCase(id, rng)
	defer cs.done()
	alpha := rng.Sym()
	x := randVec(rng, max(n-1, 0))
	switch seedIdx % 9 {
	case 6: // subnormal: |beta| < safmin and the norm of x itself is inaccurate before rescaling
		alpha = math.Ldexp(alpha, subExp)
		for i := range x {
			x[i] = math.Ldexp(x[i], subExp)
		}
	case 7: // near overflow
		alpha = math.Ldexp(alpha, hugeExp)
		for i := range x {
			x[i] = math.Ldexp(x[i], hugeExp)
		}
	case 8: // mixed: subnormal x below a tiny normal alpha, or the other way round
		if seedIdx%2 == 0 {
			alpha = math.Ldexp(alpha, -1000)
			for i := range x {
				x[i] = math.Ldexp(x[i], subExp)
			}
		} else {
			alpha = math.Ldexp(alpha, subExp)
			for i := range x {
				x[i] = math.Ldexp(x[i], -1010)
			}
		}
	case 1: // x = 0: H = I
		for i := range x {
			x[i] = 0
		}
	case 2: // tiny: the rescaling loop
		alpha *= 1e-300
		for i := range x {
			x[i] *= 1e-300
		}
	case 3:
		alpha = 0
	case 4: // huge but finite
		alpha *= 1e150
		for i := range x {
			x[i] *= 1e150
		}
	}
	for _, cf := range []cfg{{}, {pad: 2}, {pad: 1, guard: true}} {
		args, res := cs.call("Dlarfg", "", D{"n": n}, nil, cf, func(a *lapackgen.Args) {
			a.Arg("alpha").F = alpha
			inc := a.Int("incX")
			for i := range x {
				a.F64s("x")[i*inc] = x[i]
			}
		})
		if args == nil || n == 0 {
			continue
		}
		beta, tau := res.F, res.F2
		inc := args.Int("incX")
		v := make([]float64, n)
		v[0] = 1
		for i := 1; i < n; i++ {
			v[i] = args.F64s("x")[(i-1)*inc]
		}
		what := fmt.Sprintf("%v n=%d alpha=%g", cf, n, alpha)
		if hasNaN(v) || beta != beta || tau != tau {
			cs.fail("Dlarfg", "", "nan-in-reflector", "%s: beta=%v tau=%v", what, beta, tau)
			continue
		}
		hh := ref.Eye(n)
		rightMulReflector(hh, v, tau)
		cs.band("Dlarfg", "", "larfg-orthogonal", ref.OrthoResid(hh), float64(n+4)*eps, func() string { return what })
		// H * (alpha; x) = (beta; 0)
		in := ref.New(n, 1)
		in.D[0] = alpha
		copy(in.D[1:], x)
		out := ref.Mul(hh, in)
		want := ref.New(n, 1)
		want.D[0] = beta
		sc := in.NormFro()
		cs.band("Dlarfg", "", "larfg-annihilates", ref.MaxDiff(out, want), float64(n+4)*(eps*sc+subFloor), func() string { return what })
		if !(tau == 0 || (tau >= 1-8*eps && tau <= 2+8*eps)) {
			cs.fail("Dlarfg", "", "tau-out-of-range", "%s: tau=%v not 0 or in [1,2]", what, tau)
		}
	}
}

func (h *H) planReflectors(add addFn) {
	idx := 0
	sides := []blas.Side{blas.Left, blas.Right}
	transes := []blas.Transpose{blas.NoTrans, blas.Trans}
	directs := []lapack.Direct{lapack.Forward, lapack.Backward}
	stores := []lapack.StoreV{lapack.ColumnWise, lapack.RowWise}
	shapes := [][3]int{{1, 1, 1}, {3, 2, 1}, {2, 3, 2}, {5, 4, 3}, {4, 9, 4}, {9, 9, 9}, {17, 6, 5}, {6, 17, 6}, {40, 33, 32}, {33, 40, 17}}
	if h.thorough() {
		shapes = append(shapes, [][3]int{{0, 3, 1}, {3, 0, 1}, {8, 8, 1}, {65, 20, 20}, {20, 65, 20}, {70, 70, 33}, {130, 40, 32}, {40, 130, 32}, {64, 64, 64}}...)
	}
	for rep := 0; rep < h.reps(); rep++ {
		for _, s := range shapes {
			for _, side := range sides {
				for _, trans := range transes {
					for _, direct := range directs {
						for _, store := range stores {
							m, n, k := s[0], s[1], s[2]
							nv := n
							if side == blas.Left {
								nv = m
							}
							if k > max(nv, 1) || k < 1 {
								continue
							}
							if nv == 0 {
								continue
							}
							idx++
							i := idx
							side, trans, direct, store := side, trans, direct, store
							id := fmt.Sprintf("BlockReflector side=%c trans=%c direct=%c store=%c m=%d n=%d k=%d #%d", side, trans, direct, store, m, n, k, i)
							add("larfb", (m+1)*(n+1)*(k+1), func() { h.checkBlockReflector(id, i, side, trans, direct, store, m, n, k) })
						}
					}
				}
			}
		}
		// Dlarf / Dlarfx: orders around the unrolled range 1..10 of Dlarfx.
		for m := 0; m <= 12; m++ {
			for _, n := range []int{0, 1, 2, 3, 5, 10, 11, 12, 20} {
				if !h.thorough() && (m+n)%2 == 1 && m > 3 {
					continue
				}
				for _, side := range sides {
					idx++
					i := idx
					m, n, side := m, n, side
					id := fmt.Sprintf("Larf side=%c m=%d n=%d #%d", side, m, n, i)
					add("larf", (m+1)*(n+1), func() { h.checkElementary(id, i, m, n, side) })
					idx++
					j := idx
					id2 := fmt.Sprintf("Larf side=%c m=%d n=%d #%d", side, n, m, j)
					add("larf", (m+1)*(n+1), func() { h.checkElementary(id2, j, n, m, side) })
				}
			}
		}
		for _, n := range []int{0, 1, 2, 3, 4, 5, 8, 17, 33, 64, 100} {
			for t := 0; t < 9; t++ {
				idx++
				i := idx
				n := n
				id := fmt.Sprintf("Larfg n=%d #%d", n, i)
				add("larfg", n, func() { h.checkLarfg(id, i, n) })
			}
		}
	}
}
