package main

import (
	"fmt"
	"math"
	"regexp"
	"sort"
	"strings"
	"sync"

	"gonum.org/v1/gonum/lapack/gonum"
	"gonum.org/v1/gonum/verifx/c02/lapackgen"
	"gonum.org/v1/gonum/verifx/ref"
	"gonum.org/v1/gonum/verifx/vrt"
)

const eps = vrt.Eps64

// subFloor is the absolute floor added (times the dimension) to the
// denominators of reconstruction identities: a result in the subnormal range
// is spaced 2^-1074 apart whatever its magnitude, so products and sums there
// carry an absolute rounding error of that size. Negligible for normal data.
const subFloor = 16 * 5e-324

// lwClass is the workspace-length class of a call with an lwork parameter.
type lwClass int

const (
	lwMin     lwClass = iota // documented minimum
	lwQuery                  // value reported by the workspace query
	lwQuery13                // query + 13
)

func (l lwClass) String() string { return [...]string{"min", "query", "query+13"}[l] }

// cfg is the configuration class of one call: leading-dimension padding,
// workspace class, guard-page backing.
type cfg struct {
	pad   int
	lw    lwClass
	guard bool
}

func (c cfg) String() string {
	s := fmt.Sprintf("ld=min+%d lwork=%s", c.pad, c.lw)
	if c.guard {
		s += " guard"
	}
	return s
}

// H is the monitor state shared by all cases.
type H struct {
	c    *vrt.Ctx
	impl gonum.Implementation

	mu     sync.Mutex
	ratios map[string]float64 // band name -> largest observed ratio
	counts map[string]int64   // routine -> calls
}

// Case is one logical input pushed through several routines / configurations.
type Case struct {
	h    *H
	id   string
	rng  *vrt.Rand
	args []*lapackgen.Args
	// sigTag / sigClause, when set, replace the tag and clause of band
	// violations (sub-checks that must report one root cause under one
	// signature whatever identity exposes it).
	sigTag, sigClause string
}

func (h *H) newCase(id string, rng *vrt.Rand) *Case { return &Case{h: h, id: id, rng: rng} }

// done releases guard-page mappings of the case.
func (cs *Case) done() {
	for _, a := range cs.args {
		a.Release()
	}
	cs.args = nil
}

var digits = regexp.MustCompile(`[0-9]+`)
var lworkTag = regexp.MustCompile(` ?lwork=\S+`)

// normMsg strips run-dependent numbers from a panic message.
func normMsg(m string) string {
	m = digits.ReplaceAllString(m, "N")
	if i := strings.IndexByte(m, '\n'); i >= 0 {
		m = m[:i]
	}
	if len(m) > 80 {
		m = m[:80]
	}
	return m
}

func sig(routine, tag, clause string) string {
	if tag == "" {
		tag = "-"
	}
	return routine + "|" + tag + "|" + clause
}

// params assembles lapackgen parameters.
func params(dims map[string]int, flags map[string]int, cf cfg) lapackgen.Params {
	return lapackgen.Params{Dims: dims, Flags: flags, LDPad: cf.pad, Guard: cf.guard}
}

type D = map[string]int

// call runs one routine: (workspace query if the class asks for it,) build,
// fill, snapshot, invoke, memory-discipline checks. tag is the flag part of
// the violation signature. fill writes the operand contents. It returns nil
// args if the call panicked (already reported).
func (cs *Case) call(routine, tag string, dims, flags D, cf cfg, fill func(a *lapackgen.Args)) (*lapackgen.Args, lapackgen.Result) {
	h := cs.h
	r := lapackgen.Get(routine)
	p := params(dims, flags, cf)
	if r.HasLWork && cf.lw != lwMin {
		lw, ok := cs.query(r, tag, p)
		if !ok {
			return nil, lapackgen.Result{}
		}
		if cf.lw == lwQuery13 {
			lw += 13
		}
		p.LWork = lw
	}
	a := r.Build(p)
	cs.args = append(cs.args, a)
	if fill != nil {
		fill(a)
	}
	a.Snapshot()
	desc := cs.id + " " + a.Describe() + " " + cf.String()
	h.c.LastCase(desc)
	var sample map[string]any
	if small(dims) && nontrivial(dims) && h.c.WantSample() {
		sample = replayOf(a).(map[string]any) // inputs, before the call
	}
	var res lapackgen.Result
	pn := vrt.Try(func() { res = a.Invoke(h.impl) })
	h.count(routine)
	h.c.Eval(evalKey(routine, tag, dims, cf), nontrivial(dims))
	if cf.guard {
		h.c.Count("calls_with_guard_page_backed_operands", 1)
	}
	if pn != nil {
		clause := "panic:" + normMsg(pn.Msg)
		if pn.Fault {
			clause = "guard-page-fault"
		}
		h.c.Violation(sig(routine, tag, clause), "valid arguments rejected or faulted: "+desc+": "+pn.Msg+"\n"+pn.Stack, replayOf(a))
		return nil, res
	}
	if tr := a.Trespasses(false); len(tr) > 0 {
		h.c.Violation(sig(routine, tag, "trespass:"+tr[0].Arg+":"+tr[0].Kind),
			fmt.Sprintf("%s: storage the routine must not touch changed: %v", desc, tr), replayOf(a))
	}
	if sample != nil {
		sample["result"] = res
		sample["config"] = cf.String()
		h.c.Sample(sample)
	}
	return a, res
}

// small reports whether all dimensions are between 2 and 6 (literal samples).
func small(dims D) bool {
	for _, v := range dims {
		if v < 2 || v > 6 {
			return false
		}
	}
	return len(dims) > 0
}

// query performs the workspace query for p with all operands NaN-tainted and
// bit-compares them: only work[0] may be written. It returns the reported
// length, which must be a finite integer >= the documented minimum.
func (cs *Case) query(r *lapackgen.Routine, tag string, p lapackgen.Params) (int, bool) {
	h := cs.h
	// The query is the same call whatever the workspace class that asked for
	// it, and its duties do not depend on the option flags: one signature
	// per routine and clause.
	ekey := strings.TrimSpace(lworkTag.ReplaceAllString(tag, ""))
	tag = ""
	q := p.Clone()
	q.LWork = -1
	a := r.Build(q)
	cs.args = append(cs.args, a)
	// Integer operands need legal values even for a query in some routines;
	// float operands stay tainted.
	fillInts(a, cs.rng)
	a.Snapshot()
	desc := cs.id + " " + a.Describe() + " (workspace query)"
	h.c.LastCase(desc)
	pn := vrt.Try(func() { a.Invoke(h.impl) })
	h.count(r.Name)
	h.c.Eval(r.Name+"|query|"+ekey, true)
	if pn != nil {
		h.c.Violation(sig(r.Name, tag, "query-panic:"+normMsg(pn.Msg)), "workspace query with valid arguments panicked: "+desc+": "+pn.Msg+"\n"+pn.Stack, replayOf(a))
		return 0, false
	}
	if tr := a.Trespasses(true); len(tr) > 0 {
		h.c.Violation(sig(r.Name, tag, "query-writes:"+tr[0].Arg),
			fmt.Sprintf("%s: a workspace query must write only work[0], but changed %v", desc, tr), replayOf(a))
	}
	w0 := a.F64s("work")[0]
	min := a.Arg("lwork").Min
	if math.IsNaN(w0) || math.IsInf(w0, 0) || w0 != math.Trunc(w0) || w0 > 1e9 {
		h.c.Violation(sig(r.Name, tag, "query-result-not-a-length"), fmt.Sprintf("%s: work[0]=%v", desc, w0), replayOf(a))
		return 0, false
	}
	lw := int(w0)
	if lw < min && lw == 1 && !nontrivialAll(p.Dims) {
		// Oracle exclusion: on their documented quick return for an empty
		// problem (some dimension is zero) the routines report work[0] = 1
		// like the reference implementation, even where the argument check
		// demands lwork >= max(1, n) with the other dimension n > 1. The
		// monitor then supplies the documented minimum.
		h.c.Count("query_reports_1_below_minimum_on_empty_problem", 1)
		return min, true
	}
	if lw < min {
		// Using it verbatim would be rejected with badLWork: the query
		// reports an insufficient length.
		h.c.Violation(sig(r.Name, tag, "query-result-below-minimum"), fmt.Sprintf("%s: work[0]=%v < documented minimum %d", desc, w0, min), replayOf(a))
		return 0, false
	}
	return lw, true
}

func fillInts(a *lapackgen.Args, rng *vrt.Rand) {
	for _, x := range a.List {
		if x.Role != lapackgen.RoleIPiv || x.Access == lapackgen.Out {
			continue
		}
		switch x.Fill {
		case lapackgen.IntRowSwaps:
			for i := range x.IS {
				lim := x.Limit
				if lim < i+1 {
					lim = i + 1
				}
				x.IS[i] = i + rng.Intn(lim-i)
			}
		case lapackgen.IntPerm:
			copy(x.IS, rng.Perm(len(x.IS)))
		case lapackgen.IntFree:
			for i := range x.IS {
				x.IS[i] = -1
			}
		}
	}
}

func (h *H) count(routine string) {
	h.mu.Lock()
	h.counts[routine]++
	h.mu.Unlock()
}

// replayOf renders the scalar arguments plus (small) operand contents.
func replayOf(a *lapackgen.Args) any {
	m := map[string]any{"routine": a.R.Name, "call": a.Describe()}
	for _, x := range a.List {
		switch {
		case x.S != nil && len(x.S) <= 64:
			m[x.Name] = append([]float64(nil), x.S...)
		case x.IS != nil && len(x.IS) <= 64:
			m[x.Name] = append([]int(nil), x.IS...)
		}
	}
	return m
}

// ---- bands ----------------------------------------------------------------

// band records value/denom under name and reports a violation if the ratio
// exceeds the calibrated limit (or is NaN). It returns whether the check
// passed.
func (cs *Case) band(routine, tag, name string, value, denom float64, detail func() string) bool {
	h := cs.h
	lim, ok := limits[name]
	if !ok {
		panic("c02: no limit for band " + name)
	}
	var ratio float64
	switch {
	case math.IsNaN(value) || math.IsInf(value, 0) || math.IsNaN(denom):
		ratio = math.Inf(1)
	case value == 0:
		ratio = 0
	case denom == 0:
		ratio = math.Inf(1)
	default:
		ratio = value / denom
	}
	h.mu.Lock()
	if old, seen := h.ratios[name]; ratio <= lim && (!seen || ratio > old) {
		h.ratios[name] = ratio // headroom statistic: passing checks only
	}
	h.mu.Unlock()
	if ratio <= lim {
		return true
	}
	d := ""
	if detail != nil {
		d = detail()
	}
	clause := name
	if cs.sigClause != "" {
		tag, clause = cs.sigTag, cs.sigClause
	}
	h.c.Violation(sig(routine, tag, clause), fmt.Sprintf("%s: %s: value %.3g exceeds %.3g x %.3g (ratio %.3g, limit %.3g) %s", cs.id, name, value, lim, denom, ratio, lim, d),
		map[string]any{"case": cs.id, "seed": h.c.Seed, "note": "inputs are regenerated from (VERIF_SEED, case id)"})
	return false
}

// fail reports a non-numeric clause violation.
func (cs *Case) fail(routine, tag, clause, format string, args ...any) {
	cs.h.c.Violation(sig(routine, tag, clause), cs.id+": "+fmt.Sprintf(format, args...),
		map[string]any{"case": cs.id, "seed": cs.h.c.Seed, "note": "inputs are regenerated from (VERIF_SEED, case id)"})
}

func (h *H) finish() {
	h.mu.Lock()
	defer h.mu.Unlock()
	names := make([]string, 0, len(h.ratios))
	for k := range h.ratios {
		names = append(names, k)
	}
	sort.Strings(names)
	obs := map[string]any{}
	for _, k := range names {
		obs[k] = fmt.Sprintf("%.3g (limit %.3g)", h.ratios[k], limits[k])
	}
	h.c.Note("band_max_ratio", obs)
	calls := map[string]any{}
	for k, v := range h.counts {
		calls[k] = v
	}
	h.c.Note("calls_per_routine", calls)
	h.c.Note("routines_exercised", len(h.counts))
}

// ---- operand helpers ---------------------------------------------------------

// setMat writes the logical matrix m into the referenced storage positions
// of the operand called name (general / triangular storage: position (i,j)
// holds m[i,j]). Unreferenced positions keep their taint.
func setMat(a *lapackgen.Args, name string, m *ref.M) {
	x := a.Arg(name)
	v := a.Mat(name)
	for i := 0; i < v.R; i++ {
		for j := 0; j < v.C; j++ {
			if x.Ref != nil && !x.Ref(i, j) {
				continue
			}
			v.Set(i, j, m.D[i*m.C+j])
		}
	}
}

// setAll writes m into all stored positions (ignoring Ref).
func setAll(a *lapackgen.Args, name string, m *ref.M) {
	v := a.Mat(name)
	for i := 0; i < v.R; i++ {
		for j := 0; j < v.C; j++ {
			v.Set(i, j, m.D[i*m.C+j])
		}
	}
}

// getMat copies the stored rows x cols array of an operand.
func getMat(a *lapackgen.Args, name string) *ref.M {
	v := a.Mat(name)
	m := ref.New(v.R, v.C)
	for i := 0; i < v.R; i++ {
		for j := 0; j < v.C; j++ {
			m.D[i*v.C+j] = v.At(i, j)
		}
	}
	return m
}

// getTri returns the uplo triangle (with the diagonal) of a square operand
// as a full matrix with zeros elsewhere.
func getTri(a *lapackgen.Args, name string, upper bool) *ref.M {
	v := a.Mat(name)
	m := ref.New(v.R, v.C)
	for i := 0; i < v.R; i++ {
		for j := 0; j < v.C; j++ {
			if (upper && j >= i) || (!upper && j <= i) {
				m.D[i*v.C+j] = v.At(i, j)
			}
		}
	}
	return m
}

func setVec(a *lapackgen.Args, name string, x []float64) { copy(a.F64s(name), x) }

func cloneF(x []float64) []float64 { return append([]float64(nil), x...) }
func cloneI(x []int) []int         { return append([]int(nil), x...) }

func hasNaN(x []float64) bool {
	for _, v := range x {
		if math.IsNaN(v) {
			return true
		}
	}
	return false
}

func maxAbsVec(x []float64) float64 {
	var m float64
	for _, v := range x {
		if math.IsNaN(v) {
			return v
		}
		m = math.Max(m, math.Abs(v))
	}
	return m
}

// bucket maps a dimension to its size class relative to the block sizes
// (nb = 32 / 64, crossover 128).
func bucket(v int) string {
	switch {
	case v <= 3:
		return fmt.Sprint(v)
	case v < 31:
		return "s"
	case v <= 33:
		return "b32"
	case v < 63:
		return "m"
	case v <= 65:
		return "b64"
	case v < 127:
		return "l"
	case v <= 130:
		return "x128"
	}
	return "xl"
}

func evalKey(routine, tag string, dims D, cf cfg) string {
	keys := make([]string, 0, len(dims))
	for k := range dims {
		keys = append(keys, k)
	}
	sort.Strings(keys)
	s := routine + "|" + tag
	for _, k := range keys {
		s += "|" + k + ":" + bucket(dims[k])
	}
	return s + "|" + cf.String()
}

func nontrivial(dims D) bool {
	for _, k := range []string{"m", "n", "nrhs"} {
		if v, ok := dims[k]; ok && v == 0 {
			return false
		}
	}
	return true
}

// nontrivialAll reports whether all dimensions are positive.
func nontrivialAll(dims D) bool {
	for _, v := range dims {
		if v == 0 {
			return false
		}
	}
	return true
}
