package main

import (
	"fmt"
	"math"

	"gonum.org/v1/gonum/blas"
	"gonum.org/v1/gonum/verifx/c02/lapackgen"
	"gonum.org/v1/gonum/verifx/ref"
)

func uploTag(ul blas.Uplo) string { return fmt.Sprintf("uplo=%c", ul) }

// cholProduct returns UᵀU (upper) or LLᵀ (lower) for the triangular factor t.
func cholProduct(t *ref.M, upper bool) *ref.M {
	if upper {
		return ref.Mul(t.T(), t)
	}
	return ref.Mul(t, t.T())
}

// checkChol runs Dpotrf/Dpotf2/Dpotrs/Dpotri/Dpocon/Dlauum/Dlauu2 on one
// symmetric input. cls: "well" (kappa 10), "spec" (kappa 1e6), "negdiag" /
// "zerodiag" (an SPD matrix one of whose diagonal entries is negated / set
// to zero: the factorization must fail whatever the rounding, because the
// pivot a_jj - sum of squares is <= 0), "psdzero" (exact integer PSD matrix
// whose last pivot is exactly zero).
func (h *H) checkChol(id string, seedIdx, n int, ul blas.Uplo, cls string, deep bool) {
	rng := h.c.RNG("chol", seedIdx)
	cs := h.newCase(id, rng)
	defer cs.done()
	upper := ul == blas.Upper
	tag := uploTag(ul)
	kappa := 10.0
	if cls == "spec" {
		kappa = 1e6
	}
	a := spd(rng, n, kappa)
	if isExtreme(cls) {
		if n == 0 {
			return
		}
		e := subExp + 6 // entries ~ 2^-1040: subnormal, eigenvalues far above the grid
		if cls == clsHuge {
			e = hugeExp
		}
		a = ldexpM(a, e)
	}
	indefinite := false
	if cls == "psdzero" {
		if n == 0 {
			return
		}
		// exact arithmetic, last pivot exactly zero
		a = psdZeroLast(rng, n, n)
		indefinite = true
	}
	if cls == "negdiag" || cls == "zerodiag" {
		if n == 0 {
			return
		}
		indefinite = true
		j := rng.Intn(n)
		if cls == "negdiag" {
			a.D[j*n+j] = -a.D[j*n+j]
		} else {
			a.D[j*n+j] = 0
		}
	}
	dims := D{"n": n}
	flags := D{"uplo": int(ul)}
	cfgs := []struct {
		routine string
		cf      cfg
	}{
		{"Dpotf2", cfg{pad: 0}},
		{"Dpotrf", cfg{pad: 0}},
		{"Dpotrf", cfg{pad: 7}},
		{"Dpotf2", cfg{pad: 7, guard: true}},
	}
	if deep {
		cfgs = append(cfgs, struct {
			routine string
			cf      cfg
		}{"Dpotrf", cfg{pad: 0, guard: true}})
	}
	var facts []*ref.M
	var fnames []string
	amax := a.MaxAbs()
	for _, c := range cfgs {
		args, res := cs.call(c.routine, tag, dims, flags, c.cf, func(x *lapackgen.Args) { setMat(x, "a", a) })
		if args == nil {
			continue
		}
		if n == 0 {
			if !res.OK {
				cs.fail(c.routine, tag, "ok-false-on-empty", "n=0")
			}
			continue
		}
		if indefinite {
			if res.OK {
				cs.fail(c.routine, tag, "ok-true-on-not-positive-definite", "%v n=%d class=%s: a diagonal entry is <= 0 but ok=true", c.cf, n, cls)
			}
			continue
		}
		if !res.OK {
			cs.fail(c.routine, tag, "ok-false-on-positive-definite", "%v n=%d class=%s (kappa=%g)", c.cf, n, cls, kappa)
			continue
		}
		t := getTri(args, "a", upper)
		for i := 0; i < n; i++ {
			if !(t.D[i*n+i] > 0) {
				cs.fail(c.routine, tag, "factor-diagonal-not-positive", "%v n=%d: diag[%d]=%v", c.cf, n, i, t.D[i*n+i])
				break
			}
		}
		resid := ref.MaxDiff(a, cholProduct(t, upper))
		cs.band(c.routine, tag, "chol-reconstruction", resid, float64(n)*(eps*amax+subFloor), func() string {
			return fmt.Sprintf("%v n=%d class=%s", c.cf, n, cls)
		})
		facts = append(facts, t)
		fnames = append(fnames, fmt.Sprintf("%s %v", c.routine, c.cf))
	}
	if n == 0 || indefinite || len(facts) < 2 {
		return
	}
	// Differential: the Cholesky factor is unique.
	for i := 1; i < len(facts); i++ {
		d := ref.MaxDiff(facts[i], facts[0])
		cs.band("Dpotrf~Dpotf2", tag, "chol-differential", d, float64(n)*eps*kappa*facts[0].MaxAbs(), func() string {
			return fmt.Sprintf("n=%d class=%s %s vs %s", n, cls, fnames[i], fnames[0])
		})
	}
	if isExtreme(cls) {
		return // the inverse and the solutions leave the finite range
	}
	fact := facts[1]
	ainv, okInv := ref.Inverse(a)
	if !okInv {
		return
	}
	anorm1 := a.Norm1()

	// Dpotrs.
	nrhsList := []int{1, 3}
	if deep {
		nrhsList = []int{0, 1, 3, 17}
	}
	for t := 0; t < 2; t++ {
		nrhs := nrhsList[(seedIdx+t)%len(nrhsList)]
		b := ref.FromFunc(n, nrhs, func(i, j int) float64 { return rng.Sym() })
		cf := cfg{pad: 7 * t, guard: (seedIdx+t)%4 == 0}
		args, _ := cs.call("Dpotrs", tag, D{"n": n, "nrhs": nrhs}, flags, cf, func(x *lapackgen.Args) {
			setMat(x, "a", fact)
			setMat(x, "b", b)
		})
		if args == nil || nrhs == 0 {
			continue
		}
		x := getMat(args, "b")
		r := ref.Sub(b, ref.Mul(a, x))
		cs.band("Dpotrs", tag, "solve-residual", r.MaxAbs(), float64(n)*eps*(a.NormInf()*x.MaxAbs()+b.MaxAbs()), func() string {
			return fmt.Sprintf("n=%d nrhs=%d class=%s %v", n, nrhs, cls, cf)
		})
	}

	// Dpotri.
	for t := 0; t < 2; t++ {
		cf := cfg{pad: 7 * t}
		args, res := cs.call("Dpotri", tag, dims, flags, cf, func(x *lapackgen.Args) { setMat(x, "a", fact) })
		if args == nil {
			continue
		}
		if !res.OK {
			cs.fail("Dpotri", tag, "ok-false-on-positive-definite", "n=%d class=%s", n, cls)
			continue
		}
		x := symFromTri(getTri(args, "a", upper), upper)
		r := ref.Sub(ref.Mul(a, x), ref.Eye(n)).MaxAbs()
		cs.band("Dpotri", tag, "inverse-residual", r, float64(n)*eps*anorm1*x.Norm1(), func() string {
			return fmt.Sprintf("n=%d class=%s %v", n, cls, cf)
		})
	}

	// Dpocon.
	{
		cf := cfg{pad: 7 * (seedIdx % 2)}
		args, res := cs.call("Dpocon", tag, dims, flags, cf, func(x *lapackgen.Args) {
			setMat(x, "a", fact)
			x.Arg("anorm").F = anorm1
		})
		if args != nil {
			cs.checkRcond("Dpocon", tag, res.F, 1/(anorm1*ainv.Norm1()), n, kappa*float64(n), fmt.Sprintf("n=%d class=%s", n, cls))
		}
	}

	// Dlauum / Dlauu2 on the factor: U*Uᵀ or Lᵀ*L.
	var want *ref.M
	if upper {
		want = ref.Mul(fact, fact.T())
	} else {
		want = ref.Mul(fact.T(), fact)
	}
	scale := ref.MulAbs(fact, fact.T()).MaxAbs()
	var prods []*ref.M
	for _, c := range []struct {
		routine string
		cf      cfg
	}{{"Dlauu2", cfg{}}, {"Dlauum", cfg{}}, {"Dlauum", cfg{pad: 7}}, {"Dlauu2", cfg{pad: 7, guard: true}}} {
		args, _ := cs.call(c.routine, tag, dims, flags, c.cf, func(x *lapackgen.Args) { setMat(x, "a", fact) })
		if args == nil {
			continue
		}
		got := getTri(args, "a", upper)
		var wtri *ref.M
		if upper {
			wtri = ref.Triu(want)
		} else {
			wtri = ref.Tril(want)
		}
		cs.band(c.routine, tag, "lauum-product", ref.MaxDiff(got, wtri), float64(n)*eps*scale, func() string {
			return fmt.Sprintf("n=%d %v", n, c.cf)
		})
		prods = append(prods, got)
	}
	for i := 1; i < len(prods); i++ {
		cs.band("Dlauum~Dlauu2", tag, "lauum-differential", ref.MaxDiff(prods[i], prods[0]), float64(n)*eps*scale, func() string {
			return fmt.Sprintf("n=%d variant %d vs 0", n, i)
		})
	}
}

func (h *H) planChol(add addFn) {
	idx := 0
	uplos := []blas.Uplo{blas.Upper, blas.Lower}
	for rep := 0; rep < h.reps(); rep++ {
		for si, n := range h.squares() {
			for ui, ul := range uplos {
				classes := []string{"well", "spec", "negdiag", "zerodiag", "psdzero"}
				if !h.thorough() {
					classes = []string{[]string{"well", "spec"}[(si+ui)%2], []string{"negdiag", "zerodiag"}[(si+ui)%2], "psdzero"}
				}
				for _, cls := range classes {
					idx++
					i := idx
					id := fmt.Sprintf("Chol n=%d uplo=%c class=%s #%d", n, ul, cls, i)
					n, ul, cls := n, ul, cls
					add("chol", n*n*n, func() { h.checkChol(id, i, n, ul, cls, h.thorough()) })
				}
			}
		}
	}
}

// ---- pivoted Cholesky ----------------------------------------------------------

// checkPstrf runs Dpstrf / Dpstf2. cls: "well"/"spec" (positive definite:
// rank n, ok true) or "rank" (A = BᵀB with an r x n small-integer B: exactly
// representable, rank r < n).
func (h *H) checkPstrf(id string, seedIdx, n int, ul blas.Uplo, cls string, deep bool) {
	rng := h.c.RNG("pstrf", seedIdx)
	cs := h.newCase(id, rng)
	defer cs.done()
	upper := ul == blas.Upper
	tag := uploTag(ul)
	var a *ref.M
	wantRank := n
	kappa := 10.0
	switch cls {
	case "well":
		a = spd(rng, n, 10)
	case "spec":
		a = spd(rng, n, 1e6)
		kappa = 1e6
	case clsSub:
		a = ldexpM(spd(rng, n, 10), subExp+6)
	case clsHuge:
		a = ldexpM(spd(rng, n, 10), hugeExp)
	case "rank":
		if n < 2 {
			return
		}
		wantRank = 1 + rng.Intn(n-1)
		// B = [4I | X] with X in {-1,0,1}: A = BᵀB is an exact integer
		// matrix of rank r whose r-th eigenvalue is lambda_min(BBᵀ) =
		// lambda_min(16 I + XXᵀ) >= 16, so every Schur complement before
		// step r has a diagonal entry >= 16/n, far above the stopping
		// value n*eps*max(diag).
		b := ref.FromFunc(wantRank, n, func(i, j int) float64 {
			switch {
			case j == i:
				return 4
			case j < wantRank:
				return 0
			}
			return float64(rng.Intn(3) - 1)
		})
		kappa = 1e4
		a = ref.Mul(b.T(), b)
		// Hide the structure by a symmetric permutation.
		p := rng.Perm(n)
		a = ref.FromFunc(n, n, func(i, j int) float64 { return a.D[p[i]*n+p[j]] })
	}
	dims := D{"n": n}
	flags := D{"uplo": int(ul)}
	amax := a.MaxAbs()
	type pres struct {
		t    *ref.M
		piv  []int
		rank int
	}
	var results []pres
	for _, c := range []struct {
		routine string
		cf      cfg
	}{{"Dpstf2", cfg{}}, {"Dpstrf", cfg{}}, {"Dpstrf", cfg{pad: 7}}, {"Dpstf2", cfg{pad: 7, guard: true}}} {
		args, res := cs.call(c.routine, tag, dims, flags, c.cf, func(x *lapackgen.Args) {
			setMat(x, "a", a)
			x.Arg("tol").F = -1
		})
		if args == nil {
			continue
		}
		if n == 0 {
			if !res.OK || res.Int != 0 {
				cs.fail(c.routine, tag, "empty", "n=0 returned rank=%d ok=%v", res.Int, res.OK)
			}
			continue
		}
		rank := res.Int
		piv := cloneI(args.Ints("piv"))
		what := fmt.Sprintf("%v n=%d class=%s", c.cf, n, cls)
		if !isPerm(piv) {
			cs.fail(c.routine, tag, "piv-not-a-permutation", "%s: piv=%v", what, piv)
			continue
		}
		if rank < 0 || rank > n {
			cs.fail(c.routine, tag, "rank-out-of-range", "%s: rank=%d", what, rank)
			continue
		}
		if res.OK != (rank == n) {
			cs.fail(c.routine, tag, "ok-inconsistent-with-rank", "%s: rank=%d ok=%v", what, rank, res.OK)
		}
		if cls != "rank" && rank != n {
			cs.fail(c.routine, tag, "rank-deficient-on-positive-definite", "%s: rank=%d", what, rank)
			continue
		}
		if cls == "rank" && rank < wantRank {
			cs.fail(c.routine, tag, "rank-too-small", "%s: A = BᵀB with B of full row rank %d (integer entries), reported rank %d", what, wantRank, rank)
			continue
		}
		t := getTri(args, "a", upper)
		// PᵀAP: P[piv[k],k] = 1, so (PᵀAP)[i,j] = A[piv[i],piv[j]].
		pap := ref.FromFunc(n, n, func(i, j int) float64 { return a.D[piv[i]*n+piv[j]] })
		// The leading rank rows (upper) / columns (lower) of the factor are
		// complete; they reproduce the leading rank rows of PᵀAP.
		var prod *ref.M
		if upper {
			u := subRows(t, 0, rank)
			prod = ref.Mul(subCols(u, 0, rank).T(), u) // rank x n
		} else {
			l := subCols(t, 0, rank)
			prod = ref.Mul(subRows(l, 0, rank), l.T()) // rank x n
		}
		resid := ref.MaxDiff(subRows(pap, 0, rank), prod)
		cs.band(c.routine, tag, "pstrf-reconstruction", resid, float64(n)*(eps*amax+subFloor), func() string { return what + fmt.Sprintf(" rank=%d", rank) })
		// Non-increasing diagonal of the factor.
		for i := 1; i < rank; i++ {
			if t.D[i*n+i] > t.D[(i-1)*n+(i-1)]*(1+16*float64(n)*eps*kappa) {
				cs.fail(c.routine, tag, "diagonal-increasing", "%s: diag[%d]=%g > diag[%d]=%g", what, i, t.D[i*n+i], i-1, t.D[(i-1)*n+(i-1)])
				break
			}
		}
		results = append(results, pres{t, piv, rank})
	}
	// Differential (full-rank only, identical pivot order).
	if cls == "rank" || len(results) < 2 {
		return
	}
	for i := 1; i < len(results); i++ {
		same := true
		for j := range results[i].piv {
			if results[i].piv[j] != results[0].piv[j] {
				same = false
			}
		}
		if !same {
			h.c.Count("pstrf.pivot_divergence", 1)
			continue
		}
		cs.band("Dpstrf~Dpstf2", tag, "chol-differential", ref.MaxDiff(results[i].t, results[0].t), float64(n)*eps*kappa*results[0].t.MaxAbs(), func() string {
			return fmt.Sprintf("n=%d class=%s variant %d", n, cls, i)
		})
	}
}

// checkPstrfTol exercises the documented option tol >= 0 of Dpstrf / Dpstf2
// ("the algorithm terminates if the pivot is less than or equal to tol"; a
// negative tol selects the default n*eps*max(diag)) with explicit user values,
// in the blocked and the unblocked routine and on both sides of the blocking
// threshold n = 64. The verdict comes from the reference pivot sequence
// p_0 >= p_1 >= ... of refPivotedCholesky:
//
//	rank must lie between the number of reference pivots above tol+slack and
//	above tol-slack (slack = 100 n u max|a_ii| for the rounding of the pivots;
//	the first pivot is accepted whenever it is positive, as in the code and the
//	reference LAPACK); every accepted pivot u_jj^2 (j >= 1) must exceed tol;
//	ok == (rank == n); Dpstrf and Dpstf2 must report the same rank when the
//	reference pivots are not within slack of tol; PᵀAP on the leading rank
//	rows must be reproduced.
//
// cls: "spec" (SPD, eigenvalues geometric 1 .. 1e-6: pivots decay steadily),
// "lowrank+noise" (BᵀB of rank r plus 1e-8 times an SPD matrix: r large
// pivots, then positive pivots at the 1e-8 level).
func (h *H) checkPstrfTol(id string, seedIdx, n int, ul blas.Uplo, cls string) {
	rng := h.c.RNG("pstrftol", seedIdx)
	cs := h.newCase(id, rng)
	defer cs.done()
	if n < 3 {
		return
	}
	upper := ul == blas.Upper
	var a *ref.M
	switch cls {
	case "spec":
		a = spd(rng, n, 1e6)
	default:
		r := 2 + rng.Intn(max(1, min(n-2, 12)))
		b := ref.FromFunc(r, n, func(i, j int) float64 { return rng.Sym() })
		a = ref.Add(ref.Mul(b.T(), b), ref.Scale(1e-8, spd(rng, n, 10)))
		symmetrise(a)
	}
	amax := a.MaxAbs()
	pv := refPivotedCholesky(a)
	if len(pv) < 3 {
		return
	}
	slack := 100 * float64(n) * eps * amax
	// User tolerances placed in the middle of a gap of the reference pivot
	// sequence (so that the expected rank is unambiguous), plus 0 and a value
	// above every pivot.
	gap := func(j int) float64 { return math.Sqrt(pv[j] * pv[j+1]) }
	tols := []float64{0, gap(0), gap(len(pv) / 3), gap(len(pv) - 2), 2 * pv[0]}
	if cls != "spec" {
		tols = append(tols, 1e-4*amax) // "numerical rank" use case: between the two pivot levels
	}
	countAbove := func(x float64) int {
		c := 1 // the first pivot is not compared with tol
		for _, p := range pv[1:] {
			if p > x {
				c++
			} else {
				break
			}
		}
		return c
	}
	flags := D{"uplo": int(ul)}
	for ti, tol := range tols {
		lo, hi := countAbove(tol+slack), countAbove(tol-slack)
		tag := uploTag(ul) + " tol>=0"
		ranks := map[string]int{}
		for ci, c := range []struct {
			routine string
			cf      cfg
		}{{"Dpstf2", cfg{}}, {"Dpstrf", cfg{}}, {"Dpstrf", cfg{pad: 7, guard: (seedIdx+ti)%2 == 0}}} {
			args, res := cs.call(c.routine, tag, D{"n": n}, flags, c.cf, func(x *lapackgen.Args) {
				setMat(x, "a", a)
				x.Arg("tol").F = tol
			})
			if args == nil {
				continue
			}
			rank := res.Int
			what := fmt.Sprintf("%v n=%d class=%s tol=%.3g (reference pivots above tol: %d..%d of %d)", c.cf, n, cls, tol, lo, hi, len(pv))
			if rank < lo || rank > hi {
				cs.fail(c.routine, tag, "rank-disagrees-with-reference-pivots", "%s: rank=%d ok=%v", what, rank, res.OK)
				continue
			}
			if res.OK != (rank == n) {
				cs.fail(c.routine, tag, "ok-inconsistent-with-rank", "%s: rank=%d ok=%v", what, rank, res.OK)
			}
			piv := cloneI(args.Ints("piv"))
			if !isPerm(piv) {
				cs.fail(c.routine, tag, "piv-not-a-permutation", "%s", what)
				continue
			}
			t := getTri(args, "a", upper)
			for j := 1; j < rank; j++ {
				d := t.D[j*n+j]
				if !(d*d > tol*(1-16*eps)-slack) {
					cs.fail(c.routine, tag, "accepted-pivot-not-above-tol", "%s: rank=%d, accepted pivot %d is %g", what, rank, j, d*d)
					break
				}
			}
			pap := ref.FromFunc(n, n, func(i, j int) float64 { return a.D[piv[i]*n+piv[j]] })
			var prod *ref.M
			if upper {
				u := subRows(t, 0, rank)
				prod = ref.Mul(subCols(u, 0, rank).T(), u)
			} else {
				l := subCols(t, 0, rank)
				prod = ref.Mul(subRows(l, 0, rank), l.T())
			}
			cs.band(c.routine, tag, "pstrf-reconstruction", ref.MaxDiff(subRows(pap, 0, rank), prod), float64(n)*eps*amax, func() string { return what + fmt.Sprintf(" rank=%d", rank) })
			ranks[fmt.Sprintf("%d:%s", ci, c.routine)] = rank
		}
		if lo == hi {
			for k, r := range ranks {
				if r != lo {
					cs.fail("Dpstrf~Dpstf2", tag, "rank-differs", "n=%d class=%s tol=%.3g: %s gave rank %d, expected %d", n, cls, tol, k, r, lo)
				}
			}
		}
	}
}

func (h *H) planPstrf(add addFn) {
	idx := 0
	uplos := []blas.Uplo{blas.Upper, blas.Lower}
	// explicit tolerances, sizes on both sides of the block size 64
	tolSizes := []int{5, 17, 33, 63, 64, 65, 66, 100, 129}
	if h.thorough() {
		tolSizes = []int{3, 5, 8, 17, 33, 47, 63, 64, 65, 66, 96, 100, 127, 128, 129, 130, 160, 200}
	}
	for rep := 0; rep < h.reps(); rep++ {
		for si, n := range tolSizes {
			for ui, ul := range uplos {
				for ci, cls := range []string{"spec", "lowrank+noise"} {
					if !h.thorough() && (si+ui+ci+rep)%2 == 1 {
						continue
					}
					idx++
					i := idx
					n, ul, cls := n, ul, cls
					id := fmt.Sprintf("PstrfTol n=%d uplo=%c class=%s #%d", n, ul, cls, i)
					add("pstrf", 6*n*n*n, func() { h.checkPstrfTol(id, 100000+i, n, ul, cls) })
				}
			}
		}
	}
	for rep := 0; rep < h.reps(); rep++ {
		for si, n := range h.squares() {
			for ui, ul := range uplos {
				classes := []string{"well", "spec", "rank"}
				if !h.thorough() {
					classes = []string{[]string{"well", "spec"}[(si+ui)%2], "rank"}
				}
				for _, cls := range classes {
					idx++
					i := idx
					id := fmt.Sprintf("Pstrf n=%d uplo=%c class=%s #%d", n, ul, cls, i)
					n, ul, cls := n, ul, cls
					add("pstrf", n*n*n, func() { h.checkPstrf(id, i, n, ul, cls, h.thorough()) })
				}
			}
		}
	}
}

var _ = math.Abs
