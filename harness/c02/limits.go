package main

// limits holds the calibrated tolerance constants: a check named X passes
// while value <= limits[X] * denominator, the denominator being the
// (dimension * u * scale) expression stated at the call site (u = 2^-53).
//
// Calibration: largest ratio observed on the pinned tree over VERIF_SEED in
// {1,2,3,7,42}, quick tier (default, noasm) and thorough tier (default,
// noasm, safe), about 2.8 million calls in total; each limit is >= 100 x that
// maximum (comment: observed maximum). The maxima of every run are written to
// the evidence (notes.band_max_ratio). Realistic breaks give ratios of 1e10
// and more (a wrong entry is O(1), the denominators are O(1e-14)).
var limits = map[string]float64{
	"lu-reconstruction":                 500,  // 1.43  max|PA-LU| / (k u max(|L||U|))
	"lu-differential":                   10,   // 0 (blocked and unblocked LU agree bitwise on the pinned tree); unit n u kappa_1 max|f|
	"solve-residual":                    500,  // 1.65  max|B-op(A)X| / (n u (|A|_inf max|X| + max|B|))
	"inverse-residual":                  500,  // 2     min(|XA-I|,|AX-I|) / (n u |A|_1 |X|_1)
	"inverse-differential":              10,   // 0.0018 unit n u kappa max|X|
	"rcond-overestimate":                100,  // 0.16  rcond_est / (rcond_true (n+9)); empirical side of the estimator check
	"chol-reconstruction":               500,  // 2     max|A-UᵀU| / (n u max|A|)
	"chol-differential":                 10,   // 0.018 unit n u kappa max|U|
	"pstrf-reconstruction":              500,  // 2
	"lauum-product":                     200,  // 1.03
	"lauum-differential":                20,   // 0.072
	"qr-orthogonality":                  1000, // 4     max|QᵀQ-I| / (order u)
	"qr-reconstruction":                 1000, // 3     max|A-QR| / (order u |A|_F)
	"qr-differential":                   10,   // 0.0093 unit order u kappa
	"org-matches-reflector-product":     300,  // 1
	"orm-matches-reflector-product":     200,  // 0.65
	"larft-triangular-factor":           200,  // 0.70
	"larfb-matches-reflector-product":   200,  // 0.57
	"larf-matches-definition":           200,  // 0.63
	"larfg-orthogonal":                  300,  // 1.14
	"larfg-annihilates":                 200,  // 0.85
	"gels-normal-equations":             500,  // 1.79  max|opᵀ(B-op X)| / (p u |op|_F (|op|_F max|X| + max|B|))
	"gels-minimum-norm":                 50,   // 0.073 unit q u kappa^2 max|X|
	"gels-differential":                 10,   // 0.0036 unit max(p,q) u kappa^2 max|X|
	"qp3-diagonal-blocked-vs-unblocked": 10,   // 0.018 max of abs(abs(r_ii) - abs(r_ii unblocked)) / (m u norm_F(A)), identical pivot sequences only
	"lacn2-underestimate":               100,  // 1     (||A||_1 / est) / n, empirical side of the Dlacn2 check
}
