package main

import (
	"fmt"
	"math"

	"gonum.org/v1/gonum/blas"
	"gonum.org/v1/gonum/lapack"
	"gonum.org/v1/gonum/verifx/c02/lapackgen"
	"gonum.org/v1/gonum/verifx/ref"
)

type luResult struct {
	routine string
	cf      cfg
	f       *ref.M // combined factors, m x n
	ipiv    []int
	ok      bool
}

// splitLU returns unit lower trapezoidal L (m x k) and upper trapezoidal U
// (k x n) from the combined factor array.
func splitLU(f *ref.M) (l, u *ref.M) {
	m, n := f.R, f.C
	k := min(m, n)
	l = ref.New(m, k)
	u = ref.New(k, n)
	for i := 0; i < m; i++ {
		for j := 0; j < n; j++ {
			v := f.D[i*n+j]
			if j < i && j < k {
				l.D[i*k+j] = v
			} else if i < k && j >= i {
				u.D[i*n+j] = v
			}
		}
		if i < k {
			l.D[i*k+i] = 1
		}
	}
	return l, u
}

// checkLU runs the LU family on one m x n input of class cls ("exact",
// "zerocol", "zerorow", "duprow" or a general class).
func (h *H) checkLU(id string, seedIdx int, m, n int, cls string, deep bool) {
	rng := h.c.RNG("lu", seedIdx)
	cs := h.newCase(id, rng)
	defer cs.done()

	var a *ref.M
	singular, exact := false, false
	switch cls {
	case "exact":
		a = exactLU(rng, m, n)
		exact = true
	case "zerocol", "zerorow", "duprow":
		a = singularLU(rng, cls, m, n)
		singular = true
		exact = cls == "duprow" // arithmetic is exact only up to the twin step; variants may still differ afterwards
		exact = false
	default:
		a, _ = general(rng, cls, m, n)
	}
	k := min(m, n)
	dims := D{"m": m, "n": n}

	cfgs := []struct {
		routine string
		cf      cfg
	}{
		{"Dgetf2", cfg{pad: 0}},
		{"Dgetrf", cfg{pad: 0}},
		{"Dgetrf", cfg{pad: 7}},
		{"Dgetf2", cfg{pad: 7, guard: true}},
	}
	if deep {
		cfgs = append(cfgs, struct {
			routine string
			cf      cfg
		}{"Dgetrf", cfg{pad: 0, guard: true}})
	}
	var results []luResult
	for _, c := range cfgs {
		args, res := cs.call(c.routine, "", dims, nil, c.cf, func(x *lapackgen.Args) { setMat(x, "a", a) })
		if args == nil {
			continue
		}
		r := luResult{routine: c.routine, cf: c.cf, f: getMat(args, "a"), ipiv: cloneI(args.Ints("ipiv")), ok: res.OK}
		results = append(results, r)
		if k == 0 {
			if !res.OK {
				cs.fail(c.routine, "", "ok-false-on-empty", "m=%d n=%d returned ok=false", m, n)
			}
			continue
		}
		// Structure: pivots in range, multipliers bounded by one.
		bad := false
		for i, p := range r.ipiv {
			if p < i || p >= m {
				cs.fail(c.routine, "", "pivot-out-of-range", "%v: ipiv[%d]=%d not in [%d,%d)", c.cf, i, p, i, m)
				bad = true
				break
			}
		}
		if bad {
			continue
		}
		l, u := splitLU(r.f)
		var lmax float64
		for i := 0; i < m; i++ {
			for j := 0; j < k && j < i; j++ {
				lmax = math.Max(lmax, math.Abs(l.D[i*k+j]))
				if math.IsNaN(l.D[i*k+j]) {
					lmax = math.NaN()
				}
			}
		}
		if !(lmax <= 1+4*eps) { // a/max computed as a*(1/max) stays <= 1; allow a few ulps for other schemes
			cs.fail(c.routine, "", "multiplier-above-one", "%v m=%d n=%d class=%s: max |l_ij| = %v", c.cf, m, n, cls, lmax)
		}
		// Reconstruction: (swaps applied to A) = L*U.
		pa := applyRowSwaps(a, r.ipiv, true)
		lu := ref.Mul(l, u)
		resid := ref.MaxDiff(pa, lu)
		if exact {
			if resid != 0 {
				cs.fail(c.routine, "", "reconstruction-exact", "%v m=%d n=%d: dyadic input whose elimination is exact in any order gives max|PA-LU| = %g", c.cf, m, n, resid)
			}
		} else {
			scale := ref.MulAbs(l, u).MaxAbs()
			cs.band(c.routine, "", "lu-reconstruction", resid, float64(k)*(eps*scale+subFloor), func() string {
				return fmt.Sprintf("%v m=%d n=%d class=%s", c.cf, m, n, cls)
			})
		}
		// ok flag.
		if singular && r.ok {
			cs.fail(c.routine, "", "ok-true-on-exactly-singular", "%v m=%d n=%d class=%s: an exactly zero pivot is unavoidable but ok=true", c.cf, m, n, cls)
		}
		if !singular && !r.ok {
			cs.fail(c.routine, "", "ok-false-on-nonsingular", "%v m=%d n=%d class=%s", c.cf, m, n, cls)
		}
		// ok must say whether U has an exactly zero diagonal entry.
		zero := false
		for i := 0; i < k; i++ {
			if u.D[i*n+i] == 0 {
				zero = true
			}
		}
		if zero == r.ok {
			cs.fail(c.routine, "", "ok-inconsistent-with-U", "%v m=%d n=%d class=%s: ok=%v but zero diagonal in U: %v", c.cf, m, n, cls, r.ok, zero)
		}
	}
	if k == 0 || len(results) < 2 || isExtreme(cls) {
		return // extreme magnitudes: factorization identities only (inverses overflow)
	}

	// Differential: blocked vs unblocked, lda classes.
	var kappa1 float64 = math.NaN()
	var ainv *ref.M
	if m == n && !singular {
		var ok bool
		ainv, ok = ref.Inverse(a)
		if ok {
			kappa1 = a.Norm1() * ainv.Norm1()
		}
	}
	base := results[0]
	for _, r := range results[1:] {
		same := true
		for i := range r.ipiv {
			if r.ipiv[i] != base.ipiv[i] {
				same = false
			}
		}
		tag := ""
		name := r.routine + "~" + base.routine
		if exact {
			if !same || ref.MaxDiff(r.f, base.f) != 0 {
				cs.fail(name, tag, "differential-exact", "m=%d n=%d: exact-arithmetic input factors differ between %s %v and %s %v (same pivots: %v, max diff %g)",
					m, n, base.routine, base.cf, r.routine, r.cf, same, ref.MaxDiff(r.f, base.f))
			}
			continue
		}
		if !same {
			h.c.Count("lu.pivot_divergence", 1)
			continue
		}
		if m == n && !singular && !math.IsNaN(kappa1) {
			d := ref.MaxDiff(r.f, base.f)
			cs.band(name, tag, "lu-differential", d, float64(n)*eps*kappa1*math.Max(base.f.MaxAbs(), 1), func() string {
				return fmt.Sprintf("m=n=%d class=%s %s %v vs %s %v", n, cls, base.routine, base.cf, r.routine, r.cf)
			})
		}
	}

	if m != n {
		return
	}
	// ---- square: solves, inverse, condition estimate, driver -----------------
	fact := results[1] // Dgetrf pad 0
	if fact.routine != "Dgetrf" {
		return
	}
	if singular {
		// Dgetri must refuse a factor with an exactly zero pivot.
		args, res := cs.call("Dgetri", "", D{"n": n}, nil, cfg{}, func(x *lapackgen.Args) {
			setMat(x, "a", fact.f)
			copy(x.Ints("ipiv"), fact.ipiv)
		})
		if args != nil && res.OK {
			cs.fail("Dgetri", "", "ok-true-on-exactly-singular", "n=%d class=%s", n, cls)
		}
		nrhs := 2
		b := ref.FromFunc(n, nrhs, func(i, j int) float64 { return rng.Sym() })
		args, res = cs.call("Dgesv", "", D{"n": n, "nrhs": nrhs}, nil, cfg{pad: 7}, func(x *lapackgen.Args) {
			setMat(x, "a", a)
			setMat(x, "b", b)
		})
		if args != nil && res.OK {
			cs.fail("Dgesv", "", "ok-true-on-exactly-singular", "n=%d class=%s", n, cls)
		}
		return
	}
	if ainv == nil {
		return
	}
	anorm1, anormI := a.Norm1(), a.NormInf()
	nrhsList := []int{1, 3}
	if deep {
		nrhsList = []int{0, 1, 3, 17}
	}
	for ti, trans := range []blas.Transpose{blas.NoTrans, blas.Trans, blas.ConjTrans} {
		nrhs := nrhsList[(seedIdx+ti)%len(nrhsList)]
		b := ref.FromFunc(n, nrhs, func(i, j int) float64 { return rng.Sym() })
		tag := fmt.Sprintf("trans=%c", trans)
		cf := cfg{pad: 7 * ((seedIdx + ti) % 2), guard: (seedIdx+ti)%4 == 0}
		args, _ := cs.call("Dgetrs", tag, D{"n": n, "nrhs": nrhs}, D{"trans": int(trans)}, cf, func(x *lapackgen.Args) {
			setMat(x, "a", fact.f)
			copy(x.Ints("ipiv"), fact.ipiv)
			setMat(x, "b", b)
		})
		if args == nil || nrhs == 0 {
			continue
		}
		x := getMat(args, "b")
		op := a
		if trans != blas.NoTrans {
			// The code comments and the reference say NoTrans solves
			// A*X = B (the doc comment has the two cases swapped).
			op = a.T()
		}
		r := ref.Sub(b, ref.Mul(op, x))
		cs.band("Dgetrs", tag, "solve-residual", r.MaxAbs(), float64(n)*eps*(op.NormInf()*x.MaxAbs()+b.MaxAbs()), func() string {
			return fmt.Sprintf("n=%d nrhs=%d class=%s %v", n, nrhs, cls, cf)
		})
	}

	// Dgetri over workspace classes and ld classes.
	var invs []*ref.M
	icfgs := []cfg{{pad: 0, lw: lwMin}, {pad: 0, lw: lwQuery}, {pad: 7, lw: lwQuery13}}
	if deep {
		icfgs = append(icfgs, cfg{pad: 7, lw: lwMin, guard: true})
	}
	for _, cf := range icfgs {
		tag := "lwork=" + cf.lw.String()
		args, res := cs.call("Dgetri", tag, D{"n": n}, nil, cf, func(x *lapackgen.Args) {
			setMat(x, "a", fact.f)
			copy(x.Ints("ipiv"), fact.ipiv)
		})
		if args == nil {
			continue
		}
		if !res.OK {
			cs.fail("Dgetri", tag, "ok-false-on-nonsingular", "n=%d class=%s %v", n, cls, cf)
			continue
		}
		x := getMat(args, "a")
		invs = append(invs, x)
		eye := ref.Eye(n)
		right := ref.Sub(ref.Mul(a, x), eye).MaxAbs()
		left := ref.Sub(ref.Mul(x, a), eye).MaxAbs()
		cs.band("Dgetri", tag, "inverse-residual", math.Min(left, right), float64(n)*eps*anorm1*x.Norm1(), func() string {
			return fmt.Sprintf("n=%d class=%s %v left=%g right=%g", n, cls, cf, left, right)
		})
		if len(invs) > 1 {
			d := ref.MaxDiff(x, invs[0])
			cs.band("Dgetri", tag, "inverse-differential", d, float64(n)*eps*kappa1*invs[0].MaxAbs(), func() string {
				return fmt.Sprintf("n=%d class=%s %v vs lwork=min", n, cls, cf)
			})
		}
	}

	// Dgecon, both norms.
	ainvI := ainv.NormInf()
	ainv1 := ainv.Norm1()
	for _, nk := range []lapack.MatrixNorm{lapack.MaxColumnSum, lapack.MaxRowSum} {
		anorm, trueInv := anorm1, ainv1
		if nk == lapack.MaxRowSum {
			anorm, trueInv = anormI, ainvI
		}
		tag := fmt.Sprintf("norm=%c", nk)
		cf := cfg{pad: 7 * (seedIdx % 2)}
		args, res := cs.call("Dgecon", tag, D{"n": n}, D{"norm": int(nk)}, cf, func(x *lapackgen.Args) {
			setMat(x, "a", fact.f)
			x.Arg("anorm").F = anorm
		})
		if args == nil {
			continue
		}
		cs.checkRcond("Dgecon", tag, res.F, 1/(anorm*trueInv), n, kappa1, fmt.Sprintf("n=%d class=%s", n, cls))
	}

	// Dgesv on fresh copies.
	{
		nrhs := nrhsList[seedIdx%len(nrhsList)]
		b := ref.FromFunc(n, nrhs, func(i, j int) float64 { return rng.Sym() })
		cf := cfg{pad: 7 * ((seedIdx + 1) % 2)}
		args, res := cs.call("Dgesv", "", D{"n": n, "nrhs": nrhs}, nil, cf, func(x *lapackgen.Args) {
			setMat(x, "a", a)
			setMat(x, "b", b)
		})
		if args != nil && nrhs > 0 {
			if !res.OK {
				cs.fail("Dgesv", "", "ok-false-on-nonsingular", "n=%d class=%s", n, cls)
			} else {
				x := getMat(args, "b")
				r := ref.Sub(b, ref.Mul(a, x))
				cs.band("Dgesv", "", "solve-residual", r.MaxAbs(), float64(n)*eps*(anormI*x.MaxAbs()+b.MaxAbs()), func() string {
					return fmt.Sprintf("n=%d nrhs=%d class=%s", n, nrhs, cls)
				})
			}
		}
	}
}

// checkRcond compares a reciprocal condition estimate with the value from
// the reference inverse. The estimator returns a lower bound of the norm of
// the inverse of the *computed* factors, so est >= truth up to the
// perturbation kappa*n*u of those factors (rigorous side, generous slack
// 1e-4 + 100 n u kappa); the other side (est <= limit (n+9) truth) is
// empirical and very generous.
func (cs *Case) checkRcond(routine, tag string, est, truth float64, n int, kappa float64, what string) {
	if math.IsNaN(est) || est < 0 || est > 1+1e-12 {
		cs.fail(routine, tag, "rcond-out-of-range", "%s: rcond=%v", what, est)
		return
	}
	slack := 1e-4 + 100*float64(n)*eps*kappa
	if slack > 0.5 {
		return // too ill conditioned for the reference to decide
	}
	if est < truth*(1-slack) {
		cs.fail(routine, tag, "rcond-below-true", "%s: estimate %g is below the true reciprocal condition number %g (norm of inverse overestimated)", what, est, truth)
	}
	cs.band(routine, tag, "rcond-overestimate", est, truth*float64(n+9), func() string { return what })
}

// checkGeconOptions exercises the documented special values of Dgecon's
// anorm argument (0 and +Inf give 0, NaN gives NaN) and the empty problem
// (n == 0 gives 1), with both norm kinds.
func (h *H) checkGeconOptions(id string, seedIdx, n int) {
	rng := h.c.RNG("geconopt", seedIdx)
	cs := h.newCase(id, rng)
	defer cs.done()
	a := ref.FromFunc(n, n, func(i, j int) float64 {
		if i == j {
			return 4 + rng.Sym()
		}
		return rng.Sym() / float64(n)
	})
	for _, nk := range []lapack.MatrixNorm{lapack.MaxColumnSum, lapack.MaxRowSum} {
		tag := fmt.Sprintf("norm=%c anorm-special", nk)
		for _, an := range []float64{0, math.Inf(1), math.NaN(), 1} {
			args, res := cs.call("Dgecon", tag, D{"n": n}, D{"norm": int(nk)}, cfg{pad: 7 * (seedIdx % 2)}, func(x *lapackgen.Args) {
				setMat(x, "a", a) // an upper/lower triangular pair with unit L: a valid LU operand
				x.Arg("anorm").F = an
			})
			if args == nil {
				continue
			}
			var bad bool
			switch {
			case n == 0:
				bad = res.F != 1
			case an == 0 || math.IsInf(an, 1):
				bad = res.F != 0
			case math.IsNaN(an):
				bad = !math.IsNaN(res.F)
			default:
				bad = !(res.F > 0) || math.IsInf(res.F, 0) // anorm = 1 is not the true norm: only positivity is required
			}
			if bad {
				cs.fail("Dgecon", tag, "documented-special-value", "n=%d anorm=%v: rcond=%v", n, an, res.F)
			}
		}
	}
}
