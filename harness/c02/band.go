package main

import (
	"fmt"

	"gonum.org/v1/gonum/blas"
	"gonum.org/v1/gonum/verifx/c02/lapackgen"
	"gonum.org/v1/gonum/verifx/ref"
)

// checkBand runs Dpbtrf/Dpbtf2/Dpbtrs/Dpbcon on one symmetric band input.
func (h *H) checkBand(id string, seedIdx, n, kd int, ul blas.Uplo, indefinite, deep bool) {
	rng := h.c.RNG("band", seedIdx)
	cs := h.newCase(id, rng)
	defer cs.done()
	upper := ul == blas.Upper
	tag := uploTag(ul)
	a := spdBand(rng, n, kd)
	if indefinite {
		if n == 0 {
			return
		}
		j := rng.Intn(n)
		if seedIdx%2 == 0 {
			// exact integer PSD band matrix, last pivot exactly zero
			a = psdZeroLast(rng, n, kd)
		} else if rng.Bool() {
			a.D[j*n+j] = -a.D[j*n+j]
		} else {
			a.D[j*n+j] = 0
		}
	}
	var tri *ref.M
	if upper {
		tri = ref.Triu(a)
	} else {
		tri = ref.Tril(a)
	}
	ab := fullToBand(tri, kd, upper)
	dims := D{"n": n, "kd": kd}
	flags := D{"uplo": int(ul)}
	amax := a.MaxAbs()
	var facts []*ref.M
	var factBands []*ref.M
	for _, c := range []struct {
		routine string
		cf      cfg
	}{{"Dpbtf2", cfg{}}, {"Dpbtrf", cfg{}}, {"Dpbtrf", cfg{pad: 7}}, {"Dpbtf2", cfg{pad: 7, guard: true}}, {"Dpbtrf", cfg{guard: true}}} {
		args, res := cs.call(c.routine, tag, dims, flags, c.cf, func(x *lapackgen.Args) { setMat(x, "ab", ab) })
		if args == nil {
			continue
		}
		what := fmt.Sprintf("%v n=%d kd=%d", c.cf, n, kd)
		if n == 0 {
			if !res.OK {
				cs.fail(c.routine, tag, "ok-false-on-empty", "n=0")
			}
			continue
		}
		if indefinite {
			if res.OK {
				cs.fail(c.routine, tag, "ok-true-on-not-positive-definite", "%s: a diagonal entry is <= 0 but ok=true", what)
			}
			continue
		}
		if !res.OK {
			cs.fail(c.routine, tag, "ok-false-on-positive-definite", "%s", what)
			continue
		}
		fb := getMat(args, "ab")
		// Unstored corners are still tainted: zero them for the expansion.
		ref0 := lapackgen.BandRef(int(ul), n, kd)
		for i := 0; i < n; i++ {
			for cc := 0; cc <= kd; cc++ {
				if !ref0(i, cc) {
					fb.D[i*(kd+1)+cc] = 0
				}
			}
		}
		t := bandToFull(fb, n, kd, upper)
		resid := ref.MaxDiff(a, cholProduct(t, upper))
		cs.band(c.routine, tag, "chol-reconstruction", resid, float64(kd+1)*eps*amax, func() string { return what })
		facts = append(facts, t)
		factBands = append(factBands, fb)
	}
	if n == 0 || indefinite || len(facts) < 2 {
		return
	}
	ainv, ok := ref.Inverse(a)
	if !ok {
		return
	}
	kappa := a.Norm1() * ainv.Norm1()
	for i := 1; i < len(facts); i++ {
		cs.band("Dpbtrf~Dpbtf2", tag, "chol-differential", ref.MaxDiff(facts[i], facts[0]), float64(kd+1)*eps*kappa*facts[0].MaxAbs(), func() string {
			return fmt.Sprintf("n=%d kd=%d variant %d", n, kd, i)
		})
	}
	fb := factBands[1]
	for t := 0; t < 2; t++ {
		nrhs := []int{1, 3, 17, 0}[(seedIdx+t)%4]
		b := ref.FromFunc(n, nrhs, func(i, j int) float64 { return rng.Sym() })
		cf := cfg{pad: 7 * t, guard: (seedIdx+t)%4 == 3}
		args, _ := cs.call("Dpbtrs", tag, D{"n": n, "kd": kd, "nrhs": nrhs}, flags, cf, func(x *lapackgen.Args) {
			setMat(x, "ab", fb)
			setMat(x, "b", b)
		})
		if args == nil || nrhs == 0 {
			continue
		}
		x := getMat(args, "b")
		r := ref.Sub(b, ref.Mul(a, x))
		cs.band("Dpbtrs", tag, "solve-residual", r.MaxAbs(), float64(kd+1)*eps*(a.NormInf()*x.MaxAbs()+b.MaxAbs()), func() string {
			return fmt.Sprintf("n=%d kd=%d nrhs=%d %v", n, kd, nrhs, cf)
		})
	}
	{
		an := a.Norm1()
		args, res := cs.call("Dpbcon", tag, dims, flags, cfg{pad: 7 * (seedIdx % 2)}, func(x *lapackgen.Args) {
			setMat(x, "ab", fb)
			x.Arg("anorm").F = an
		})
		if args != nil {
			cs.checkRcond("Dpbcon", tag, res.F, 1/(an*ainv.Norm1()), n, kappa, fmt.Sprintf("n=%d kd=%d", n, kd))
		}
	}
}

func (h *H) planBand(add addFn) {
	idx := 0
	uplos := []blas.Uplo{blas.Upper, blas.Lower}
	for rep := 0; rep < h.reps(); rep++ {
		for si, n := range h.squares() {
			kds := kdList(n)
			// Semi-bandwidths around the block size 32 of Dpbtrf, with
			// n - kd both below and above a block.
			for _, kd := range []int{31, 32, 33, 40, 47, 64, 65} {
				if kd < n-1 {
					kds = append(kds, kd)
				}
			}
			for ki, kd := range kds {
				for ui, ul := range uplos {
					if !h.thorough() && n > 70 && (ki+ui+si)%2 == 1 {
						continue
					}
					idx++
					i := idx
					indef := (si+ki+ui)%4 == 3
					n, kd, ul := n, kd, ul
					id := fmt.Sprintf("Band n=%d kd=%d uplo=%c indefinite=%v #%d", n, kd, ul, indef, i)
					add("band", n*n*n, func() { h.checkBand(id, i, n, kd, ul, indef, h.thorough()) })
				}
			}
		}
	}
}
