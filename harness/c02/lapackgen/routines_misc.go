package lapackgen

import (
	"gonum.org/v1/gonum/blas"
	"gonum.org/v1/gonum/lapack"
	"gonum.org/v1/gonum/lapack/gonum"
)

// GBRef returns the stored positions of an m x n general band matrix with kl
// sub- and ku super-diagonals in gonum's row-major band storage: row i,
// storage column c holds A[i, i-kl+c].
func GBRef(m, n, kl, ku int) func(i, c int) bool {
	return func(i, c int) bool {
		j := i - kl + c
		return c <= kl+ku && j >= 0 && j < n && i < m
	}
}

func init() {
	// ---- triangular --------------------------------------------------------
	register(
		&Routine{
			Name: "Dtrtri", Dims: []string{"n"}, Flags: []FlagSpec{fUplo(), fDiag()},
			Layout: func(b *Builder) {
				ul, dg := b.Flag("uplo"), b.Flag("diag")
				n := b.Dim("n")
				b.Mat("a", "lda", n, n, InOut, StrictTriRef(ul, dg))
			},
			Call: func(impl gonum.Implementation, a *Args) Result {
				return okRes(impl.Dtrtri(blas.Uplo(a.Int("uplo")), blas.Diag(a.Int("diag")), a.Int("n"), a.F64s("a"), a.Int("lda")))
			},
		},
		&Routine{
			Name: "Dtrti2", Dims: []string{"n"}, Flags: []FlagSpec{fUplo(), fDiag()},
			Layout: func(b *Builder) {
				ul, dg := b.Flag("uplo"), b.Flag("diag")
				n := b.Dim("n")
				b.Mat("a", "lda", n, n, InOut, StrictTriRef(ul, dg))
			},
			Call: func(impl gonum.Implementation, a *Args) Result {
				impl.Dtrti2(blas.Uplo(a.Int("uplo")), blas.Diag(a.Int("diag")), a.Int("n"), a.F64s("a"), a.Int("lda"))
				return Result{}
			},
		},
		&Routine{
			Name: "Dtrtrs", Dims: []string{"n", "nrhs"}, Flags: []FlagSpec{fUplo(), fTrans3(), fDiag()},
			Layout: func(b *Builder) {
				ul, _, dg := b.Flag("uplo"), b.Flag("trans"), b.Flag("diag")
				n, nrhs := b.Dim("n"), b.Dim("nrhs")
				b.Mat("a", "lda", n, n, In, StrictTriRef(ul, dg))
				b.Mat("b", "ldb", n, nrhs, InOut, nil)
			},
			Call: func(impl gonum.Implementation, a *Args) Result {
				return okRes(impl.Dtrtrs(blas.Uplo(a.Int("uplo")), blas.Transpose(a.Int("trans")), blas.Diag(a.Int("diag")), a.Int("n"), a.Int("nrhs"), a.F64s("a"), a.Int("lda"), a.F64s("b"), a.Int("ldb")))
			},
		},
		&Routine{
			Name: "Dtrcon", Dims: []string{"n"}, Flags: []FlagSpec{{"norm", Norms2}, fUplo(), fDiag()},
			Layout: func(b *Builder) {
				_, ul, dg := b.Flag("norm"), b.Flag("uplo"), b.Flag("diag")
				n := b.Dim("n")
				b.Mat("a", "lda", n, n, In, StrictTriRef(ul, dg))
				b.Work("work", 3*n)
				b.Ints("iwork", RoleIWork, n, Scratch, false, IntTaint, 0)
			},
			Call: func(impl gonum.Implementation, a *Args) Result {
				return Result{F: impl.Dtrcon(lapack.MatrixNorm(a.Int("norm")), blas.Uplo(a.Int("uplo")), blas.Diag(a.Int("diag")), a.Int("n"), a.F64s("a"), a.Int("lda"), a.F64s("work"), a.Ints("iwork"))}
			},
		},
		&Routine{
			Name: "Dtbtrs", Dims: []string{"n", "kd", "nrhs"}, Flags: []FlagSpec{fUplo(), fTrans3(), fDiag()},
			Layout: func(b *Builder) {
				ul, _, dg := b.Flag("uplo"), b.Flag("trans"), b.Flag("diag")
				n, kd, nrhs := b.Dim("n"), b.Dim("kd"), b.Dim("nrhs")
				b.MatLD("a", "lda", n, kd+1, kd+1, In, BandRefDiag(ul, dg, n, kd))
				b.Mat("b", "ldb", n, nrhs, InOut, nil)
			},
			Call: func(impl gonum.Implementation, a *Args) Result {
				return okRes(impl.Dtbtrs(blas.Uplo(a.Int("uplo")), blas.Transpose(a.Int("trans")), blas.Diag(a.Int("diag")), a.Int("n"), a.Int("kd"), a.Int("nrhs"), a.F64s("a"), a.Int("lda"), a.F64s("b"), a.Int("ldb")))
			},
		},
		&Routine{
			Name: "Dlatrs", Dims: []string{"n"}, Flags: []FlagSpec{fUplo(), fTrans3(), fDiag(), {"normin", Bools}},
			Layout: func(b *Builder) {
				ul, _, dg, normin := b.Flag("uplo"), b.Flag("trans"), b.Flag("diag"), b.Flag("normin")
				n := b.Dim("n")
				b.Mat("a", "lda", n, n, In, StrictTriRef(ul, dg))
				b.Vec("x", n, InOut, false)
				acc := Out
				if normin != 0 {
					acc = In
				}
				b.Vec("cnorm", n, acc, false)
			},
			Call: func(impl gonum.Implementation, a *Args) Result {
				return Result{F: impl.Dlatrs(blas.Uplo(a.Int("uplo")), blas.Transpose(a.Int("trans")), blas.Diag(a.Int("diag")), a.Bool("normin"), a.Int("n"), a.F64s("a"), a.Int("lda"), a.F64s("x"), a.F64s("cnorm"))}
			},
		},
		&Routine{
			Name: "Dlatbs", Dims: []string{"n", "kd"}, Flags: []FlagSpec{fUplo(), fTrans3(), fDiag(), {"normin", Bools}},
			Layout: func(b *Builder) {
				ul, _, dg, normin := b.Flag("uplo"), b.Flag("trans"), b.Flag("diag"), b.Flag("normin")
				n, kd := b.Dim("n"), b.Dim("kd")
				b.MatLD("ab", "ldab", n, kd+1, kd+1, In, BandRefDiag(ul, dg, n, kd))
				b.Vec("x", n, InOut, false)
				acc := Out
				if normin != 0 {
					acc = In
				}
				b.Vec("cnorm", n, acc, false)
			},
			Call: func(impl gonum.Implementation, a *Args) Result {
				return Result{F: impl.Dlatbs(blas.Uplo(a.Int("uplo")), blas.Transpose(a.Int("trans")), blas.Diag(a.Int("diag")), a.Bool("normin"), a.Int("n"), a.Int("kd"), a.F64s("ab"), a.Int("ldab"), a.F64s("x"), a.F64s("cnorm"))}
			},
		},
	)

	// ---- tridiagonal ----------------------------------------------------------
	register(
		&Routine{
			Name: "Dgtsv", Dims: []string{"n", "nrhs"},
			Layout: func(b *Builder) {
				n, nrhs := b.Dim("n"), b.Dim("nrhs")
				b.Vec("dl", n-1, InOut, false)
				b.Vec("d", n, InOut, false)
				b.Vec("du", n-1, InOut, false)
				b.Mat("b", "ldb", n, nrhs, InOut, nil)
			},
			Call: func(impl gonum.Implementation, a *Args) Result {
				return okRes(impl.Dgtsv(a.Int("n"), a.Int("nrhs"), a.F64s("dl"), a.F64s("d"), a.F64s("du"), a.F64s("b"), a.Int("ldb")))
			},
		},
		&Routine{
			Name: "Dptsv", Dims: []string{"n", "nrhs"},
			Layout: func(b *Builder) {
				n, nrhs := b.Dim("n"), b.Dim("nrhs")
				b.Vec("d", n, InOut, false)
				b.Vec("e", n-1, InOut, false)
				b.Mat("b", "ldb", n, nrhs, InOut, nil)
			},
			Call: func(impl gonum.Implementation, a *Args) Result {
				return okRes(impl.Dptsv(a.Int("n"), a.Int("nrhs"), a.F64s("d"), a.F64s("e"), a.F64s("b"), a.Int("ldb")))
			},
		},
		&Routine{
			Name: "Dpttrf", Dims: []string{"n"},
			Layout: func(b *Builder) {
				n := b.Dim("n")
				b.Vec("d", n, InOut, false)
				b.Vec("e", n-1, InOut, false)
			},
			Call: func(impl gonum.Implementation, a *Args) Result {
				return okRes(impl.Dpttrf(a.Int("n"), a.F64s("d"), a.F64s("e")))
			},
		},
		&Routine{
			Name: "Dpttrs", Dims: []string{"n", "nrhs"},
			Layout: func(b *Builder) {
				n, nrhs := b.Dim("n"), b.Dim("nrhs")
				b.Vec("d", n, In, false)
				b.Vec("e", n-1, In, false)
				b.Mat("b", "ldb", n, nrhs, InOut, nil)
			},
			Call: func(impl gonum.Implementation, a *Args) Result {
				impl.Dpttrs(a.Int("n"), a.Int("nrhs"), a.F64s("d"), a.F64s("e"), a.F64s("b"), a.Int("ldb"))
				return Result{}
			},
		},
		&Routine{
			Name: "Dptcon", Dims: []string{"n"},
			Layout: func(b *Builder) {
				n := b.Dim("n")
				b.Vec("d", n, In, false)
				b.Vec("e", n-1, In, false)
				b.Scalar("anorm", 1)
				b.Work("work", n)
			},
			Call: func(impl gonum.Implementation, a *Args) Result {
				return Result{F: impl.Dptcon(a.Int("n"), a.F64s("d"), a.F64s("e"), a.Flt("anorm"), a.F64s("work"))}
			},
		},
	)

	// ---- permutations -----------------------------------------------------------
	register(
		&Routine{
			// a has k2+1 rows at least; rows is the number of rows laid out.
			Name: "Dlaswp", Dims: []string{"n", "rows", "k1", "k2"}, Flags: []FlagSpec{{"incX", []int{1, -1}}},
			Valid: func(p *Params) bool {
				return p.Dims["k1"] <= p.Dims["k2"] && p.Dims["k2"] < p.Dims["rows"]
			},
			Layout: func(b *Builder) {
				n := b.Dim("n")
				rows := b.a.P.Dims["rows"]
				b.Mat("a", "lda", rows, n, InOut, nil)
				k2v := b.a.P.Dims["k2"]
				b.DimRange("k1", 0, k2v)
				k2 := b.DimRange("k2", b.a.P.Dims["k1"], rows-1)
				b.Ints("ipiv", RoleIPiv, k2+1, In, true, IntRowSwaps, rows)
				b.Flag("incX")
			},
			Call: func(impl gonum.Implementation, a *Args) Result {
				impl.Dlaswp(a.Int("n"), a.F64s("a"), a.Int("lda"), a.Int("k1"), a.Int("k2"), a.Ints("ipiv"), a.Int("incX"))
				return Result{}
			},
		},
		&Routine{
			Name: "Dlapmt", Dims: []string{"m", "n"}, Flags: []FlagSpec{{"forward", Bools}},
			Layout: func(b *Builder) {
				b.Flag("forward")
				m, n := b.Dim("m"), b.Dim("n")
				b.Mat("x", "ldx", m, n, InOut, nil)
				b.Ints("k", RoleIPiv, n, In, true, IntPerm, 0)
			},
			Call: func(impl gonum.Implementation, a *Args) Result {
				impl.Dlapmt(a.Bool("forward"), a.Int("m"), a.Int("n"), a.F64s("x"), a.Int("ldx"), a.Ints("k"))
				return Result{}
			},
		},
		&Routine{
			Name: "Dlapmr", Dims: []string{"m", "n"}, Flags: []FlagSpec{{"forward", Bools}},
			Layout: func(b *Builder) {
				b.Flag("forward")
				m, n := b.Dim("m"), b.Dim("n")
				b.Mat("x", "ldx", m, n, InOut, nil)
				b.Ints("k", RoleIPiv, m, In, true, IntPerm, 0)
			},
			Call: func(impl gonum.Implementation, a *Args) Result {
				impl.Dlapmr(a.Bool("forward"), a.Int("m"), a.Int("n"), a.F64s("x"), a.Int("ldx"), a.Ints("k"))
				return Result{}
			},
		},
	)

	// ---- norms ----------------------------------------------------------------------
	// work is only required for some norm kinds; it is always supplied with
	// the length documented for the kind that needs it.
	nrm := func(a *Args) lapack.MatrixNorm { return lapack.MatrixNorm(a.Int("norm")) }
	register(
		&Routine{
			Name: "Dlange", Dims: []string{"m", "n"}, Flags: []FlagSpec{{"norm", Norms4}},
			Layout: func(b *Builder) {
				norm := b.Flag("norm")
				m, n := b.Dim("m"), b.Dim("n")
				b.Mat("a", "lda", m, n, In, nil)
				w := 0
				if norm == int(lapack.MaxColumnSum) {
					w = n
				}
				b.Work("work", w)
			},
			Call: func(impl gonum.Implementation, a *Args) Result {
				return Result{F: impl.Dlange(nrm(a), a.Int("m"), a.Int("n"), a.F64s("a"), a.Int("lda"), a.F64s("work"))}
			},
		},
		&Routine{
			Name: "Dlansy", Dims: []string{"n"}, Flags: []FlagSpec{{"norm", Norms4}, fUplo()},
			Layout: func(b *Builder) {
				norm, ul := b.Flag("norm"), b.Flag("uplo")
				n := b.Dim("n")
				b.Mat("a", "lda", n, n, In, TriRef(ul))
				w := 0
				if norm == int(lapack.MaxColumnSum) || norm == int(lapack.MaxRowSum) {
					w = n
				}
				b.Work("work", w)
			},
			Call: func(impl gonum.Implementation, a *Args) Result {
				return Result{F: impl.Dlansy(nrm(a), blas.Uplo(a.Int("uplo")), a.Int("n"), a.F64s("a"), a.Int("lda"), a.F64s("work"))}
			},
		},
		&Routine{
			Name: "Dlantr", Dims: []string{"m", "n"}, Flags: []FlagSpec{{"norm", Norms4}, fUplo(), fDiag()},
			Layout: func(b *Builder) {
				norm, ul, dg := b.Flag("norm"), b.Flag("uplo"), b.Flag("diag")
				m, n := b.Dim("m"), b.Dim("n")
				b.Mat("a", "lda", m, n, In, StrictTriRef(ul, dg))
				w := 0
				if norm == int(lapack.MaxColumnSum) {
					w = n
				}
				b.Work("work", w)
			},
			Call: func(impl gonum.Implementation, a *Args) Result {
				return Result{F: impl.Dlantr(nrm(a), blas.Uplo(a.Int("uplo")), blas.Diag(a.Int("diag")), a.Int("m"), a.Int("n"), a.F64s("a"), a.Int("lda"), a.F64s("work"))}
			},
		},
		&Routine{
			Name: "Dlanhs", Dims: []string{"n"}, Flags: []FlagSpec{{"norm", Norms4}},
			Layout: func(b *Builder) {
				norm := b.Flag("norm")
				n := b.Dim("n")
				b.Mat("a", "lda", n, n, In, func(i, j int) bool { return j >= i-1 })
				w := 0
				if norm == int(lapack.MaxColumnSum) {
					w = n
				}
				b.Work("work", w)
			},
			Call: func(impl gonum.Implementation, a *Args) Result {
				return Result{F: impl.Dlanhs(nrm(a), a.Int("n"), a.F64s("a"), a.Int("lda"), a.F64s("work"))}
			},
		},
		&Routine{
			Name: "Dlangb", Dims: []string{"m", "n", "kl", "ku"}, Flags: []FlagSpec{{"norm", Norms4}},
			Layout: func(b *Builder) {
				b.Flag("norm")
				m, n, kl, ku := b.Dim("m"), b.Dim("n"), b.Dim("kl"), b.Dim("ku")
				rows := min(m, n+kl)
				if m == 0 || n == 0 {
					rows = 0
				}
				b.MatFullRows("ab", "ldab", rows, kl+ku+1, kl+ku+1, In, GBRef(m, n, kl, ku))
			},
			Call: func(impl gonum.Implementation, a *Args) Result {
				return Result{F: impl.Dlangb(nrm(a), a.Int("m"), a.Int("n"), a.Int("kl"), a.Int("ku"), a.F64s("ab"), a.Int("ldab"))}
			},
		},
		&Routine{
			Name: "Dlansb", Dims: []string{"n", "kd"}, Flags: []FlagSpec{{"norm", Norms4}, fUplo()},
			Layout: func(b *Builder) {
				norm, ul := b.Flag("norm"), b.Flag("uplo")
				n, kd := b.Dim("n"), b.Dim("kd")
				b.MatLD("ab", "ldab", n, kd+1, kd+1, In, BandRef(ul, n, kd))
				w := 0
				if norm == int(lapack.MaxColumnSum) || norm == int(lapack.MaxRowSum) {
					w = n
				}
				b.Work("work", w)
			},
			Call: func(impl gonum.Implementation, a *Args) Result {
				return Result{F: impl.Dlansb(nrm(a), blas.Uplo(a.Int("uplo")), a.Int("n"), a.Int("kd"), a.F64s("ab"), a.Int("ldab"), a.F64s("work"))}
			},
		},
		&Routine{
			Name: "Dlantb", Dims: []string{"n", "k"}, Flags: []FlagSpec{{"norm", Norms4}, fUplo(), fDiag()},
			Layout: func(b *Builder) {
				norm, ul, dg := b.Flag("norm"), b.Flag("uplo"), b.Flag("diag")
				n, k := b.Dim("n"), b.Dim("k")
				b.MatLD("a", "lda", n, k+1, k+1, In, BandRefDiag(ul, dg, n, k))
				w := 0
				if norm == int(lapack.MaxColumnSum) {
					w = n
				}
				b.Work("work", w)
			},
			Call: func(impl gonum.Implementation, a *Args) Result {
				return Result{F: impl.Dlantb(nrm(a), blas.Uplo(a.Int("uplo")), blas.Diag(a.Int("diag")), a.Int("n"), a.Int("k"), a.F64s("a"), a.Int("lda"), a.F64s("work"))}
			},
		},
		&Routine{
			Name: "Dlangt", Dims: []string{"n"}, Flags: []FlagSpec{{"norm", Norms4}},
			Layout: func(b *Builder) {
				b.Flag("norm")
				n := b.Dim("n")
				b.Vec("dl", n-1, In, false)
				b.Vec("d", n, In, false)
				b.Vec("du", n-1, In, false)
			},
			Call: func(impl gonum.Implementation, a *Args) Result {
				return Result{F: impl.Dlangt(nrm(a), a.Int("n"), a.F64s("dl"), a.F64s("d"), a.F64s("du"))}
			},
		},
		&Routine{
			Name: "Dlanst", Dims: []string{"n"}, Flags: []FlagSpec{{"norm", Norms4}},
			Layout: func(b *Builder) {
				b.Flag("norm")
				n := b.Dim("n")
				b.Vec("d", n, In, false)
				b.Vec("e", n-1, In, false)
			},
			Call: func(impl gonum.Implementation, a *Args) Result {
				return Result{F: impl.Dlanst(nrm(a), a.Int("n"), a.F64s("d"), a.F64s("e"))}
			},
		},
	)
}
