package lapackgen

import (
	"gonum.org/v1/gonum/blas"
	"gonum.org/v1/gonum/lapack"
	"gonum.org/v1/gonum/lapack/gonum"
)

// Legal flag values.
var (
	Uplos   = []int{int(blas.Upper), int(blas.Lower)}
	Transes = []int{int(blas.NoTrans), int(blas.Trans)}
	// Transes3 is for the real routines that also accept blas.ConjTrans
	// (as a synonym of blas.Trans): Dgetrs, Dgels, Dtrtrs, Dtbtrs, Dlatrs, Dlatbs.
	Transes3 = []int{int(blas.NoTrans), int(blas.Trans), int(blas.ConjTrans)}
	Diags    = []int{int(blas.NonUnit), int(blas.Unit)}
	Sides    = []int{int(blas.Left), int(blas.Right)}
	Norms4   = []int{int(lapack.MaxAbs), int(lapack.MaxColumnSum), int(lapack.MaxRowSum), int(lapack.Frobenius)}
	Norms2   = []int{int(lapack.MaxColumnSum), int(lapack.MaxRowSum)}
	Bools    = []int{0, 1}
	Directs  = []int{int(lapack.Forward), int(lapack.Backward)}
	Stores   = []int{int(lapack.ColumnWise), int(lapack.RowWise)}
)

func fUplo() FlagSpec   { return FlagSpec{"uplo", Uplos} }
func fTrans() FlagSpec  { return FlagSpec{"trans", Transes} }
func fTrans3() FlagSpec { return FlagSpec{"trans", Transes3} }
func fDiag() FlagSpec   { return FlagSpec{"diag", Diags} }
func fSide() FlagSpec   { return FlagSpec{"side", Sides} }

// TriRef returns the referenced-position predicate of a triangular operand.
func TriRef(uplo int) func(i, j int) bool {
	if uplo == int(blas.Upper) {
		return func(i, j int) bool { return j >= i }
	}
	return func(i, j int) bool { return j <= i }
}

// StrictTriRef is TriRef without the diagonal when diag == blas.Unit.
func StrictTriRef(uplo, diag int) func(i, j int) bool {
	if diag != int(blas.Unit) {
		return TriRef(uplo)
	}
	if uplo == int(blas.Upper) {
		return func(i, j int) bool { return j > i }
	}
	return func(i, j int) bool { return j < i }
}

// BandRef returns the predicate of the stored positions of an n x n
// symmetric / triangular band operand with kd off-diagonals in gonum's
// row-major band storage: row i, storage column c holds A[i, i+c] (upper)
// or A[i, i-kd+c] (lower).
func BandRef(uplo, n, kd int) func(i, c int) bool {
	if uplo == int(blas.Upper) {
		return func(i, c int) bool { return c <= kd && i+c < n }
	}
	return func(i, c int) bool { return c <= kd && i-kd+c >= 0 }
}

// BandRefDiag is BandRef without the diagonal when diag == blas.Unit.
func BandRefDiag(uplo, diag, n, kd int) func(i, c int) bool {
	f := BandRef(uplo, n, kd)
	if diag != int(blas.Unit) {
		return f
	}
	if uplo == int(blas.Upper) {
		return func(i, c int) bool { return c != 0 && f(i, c) }
	}
	return func(i, c int) bool { return c != kd && f(i, c) }
}

func okRes(ok bool) Result { return Result{HasOK: true, OK: ok} }

func init() {
	// ---- LU ---------------------------------------------------------------
	lu := func(name string, call func(gonum.Implementation, int, int, []float64, int, []int) bool) *Routine {
		return &Routine{
			Name: name, Dims: []string{"m", "n"},
			Layout: func(b *Builder) {
				m, n := b.Dim("m"), b.Dim("n")
				b.Mat("a", "lda", m, n, InOut, nil)
				b.Ints("ipiv", RoleIPiv, min(m, n), Out, true, IntTaint, 0)
			},
			Call: func(impl gonum.Implementation, a *Args) Result {
				return okRes(call(impl, a.Int("m"), a.Int("n"), a.F64s("a"), a.Int("lda"), a.Ints("ipiv")))
			},
		}
	}
	register(
		lu("Dgetrf", func(impl gonum.Implementation, m, n int, a []float64, lda int, ipiv []int) bool {
			return impl.Dgetrf(m, n, a, lda, ipiv)
		}),
		lu("Dgetf2", func(impl gonum.Implementation, m, n int, a []float64, lda int, ipiv []int) bool {
			return impl.Dgetf2(m, n, a, lda, ipiv)
		}),
		&Routine{
			Name: "Dgetrs", Dims: []string{"n", "nrhs"}, Flags: []FlagSpec{fTrans3()},
			Layout: func(b *Builder) {
				b.Flag("trans")
				n, nrhs := b.Dim("n"), b.Dim("nrhs")
				b.Mat("a", "lda", n, n, In, nil)
				b.Ints("ipiv", RoleIPiv, n, In, true, IntRowSwaps, n)
				b.Mat("b", "ldb", n, nrhs, InOut, nil)
			},
			Call: func(impl gonum.Implementation, a *Args) Result {
				impl.Dgetrs(blas.Transpose(a.Int("trans")), a.Int("n"), a.Int("nrhs"), a.F64s("a"), a.Int("lda"), a.Ints("ipiv"), a.F64s("b"), a.Int("ldb"))
				return Result{}
			},
		},
		&Routine{
			Name: "Dgetri", Dims: []string{"n"}, HasLWork: true,
			Layout: func(b *Builder) {
				n := b.Dim("n")
				b.Mat("a", "lda", n, n, InOut, nil)
				b.Ints("ipiv", RoleIPiv, n, In, true, IntRowSwaps, n)
				b.WorkL("work", "lwork", max(1, n))
			},
			Call: func(impl gonum.Implementation, a *Args) Result {
				return okRes(impl.Dgetri(a.Int("n"), a.F64s("a"), a.Int("lda"), a.Ints("ipiv"), a.F64s("work"), a.Int("lwork")))
			},
		},
		&Routine{
			Name: "Dgesv", Dims: []string{"n", "nrhs"},
			Layout: func(b *Builder) {
				n, nrhs := b.Dim("n"), b.Dim("nrhs")
				b.Mat("a", "lda", n, n, InOut, nil)
				b.Ints("ipiv", RoleIPiv, n, Out, true, IntTaint, 0)
				b.Mat("b", "ldb", n, nrhs, InOut, nil)
			},
			Call: func(impl gonum.Implementation, a *Args) Result {
				return okRes(impl.Dgesv(a.Int("n"), a.Int("nrhs"), a.F64s("a"), a.Int("lda"), a.Ints("ipiv"), a.F64s("b"), a.Int("ldb")))
			},
		},
		&Routine{
			Name: "Dgecon", Dims: []string{"n"}, Flags: []FlagSpec{{"norm", Norms2}},
			Layout: func(b *Builder) {
				b.Flag("norm")
				n := b.Dim("n")
				b.Mat("a", "lda", n, n, In, nil)
				b.Scalar("anorm", 1)
				b.Work("work", 4*n)
				b.Ints("iwork", RoleIWork, n, Scratch, false, IntTaint, 0)
			},
			Call: func(impl gonum.Implementation, a *Args) Result {
				return Result{F: impl.Dgecon(lapack.MatrixNorm(a.Int("norm")), a.Int("n"), a.F64s("a"), a.Int("lda"), a.Flt("anorm"), a.F64s("work"), a.Ints("iwork"))}
			},
		},
	)

	// ---- Cholesky -----------------------------------------------------------
	chol := func(name string, call func(gonum.Implementation, blas.Uplo, int, []float64, int) bool) *Routine {
		return &Routine{
			Name: name, Dims: []string{"n"}, Flags: []FlagSpec{fUplo()},
			Layout: func(b *Builder) {
				ul := b.Flag("uplo")
				n := b.Dim("n")
				b.Mat("a", "lda", n, n, InOut, TriRef(ul))
			},
			Call: func(impl gonum.Implementation, a *Args) Result {
				return okRes(call(impl, blas.Uplo(a.Int("uplo")), a.Int("n"), a.F64s("a"), a.Int("lda")))
			},
		}
	}
	register(
		chol("Dpotrf", func(impl gonum.Implementation, ul blas.Uplo, n int, a []float64, lda int) bool {
			return impl.Dpotrf(ul, n, a, lda)
		}),
		chol("Dpotf2", func(impl gonum.Implementation, ul blas.Uplo, n int, a []float64, lda int) bool {
			return impl.Dpotf2(ul, n, a, lda)
		}),
		chol("Dpotri", func(impl gonum.Implementation, ul blas.Uplo, n int, a []float64, lda int) bool {
			return impl.Dpotri(ul, n, a, lda)
		}),
		chol("Dlauum", func(impl gonum.Implementation, ul blas.Uplo, n int, a []float64, lda int) bool {
			impl.Dlauum(ul, n, a, lda)
			return true
		}),
		chol("Dlauu2", func(impl gonum.Implementation, ul blas.Uplo, n int, a []float64, lda int) bool {
			impl.Dlauu2(ul, n, a, lda)
			return true
		}),
		&Routine{
			Name: "Dpotrs", Dims: []string{"n", "nrhs"}, Flags: []FlagSpec{fUplo()},
			Layout: func(b *Builder) {
				ul := b.Flag("uplo")
				n, nrhs := b.Dim("n"), b.Dim("nrhs")
				b.Mat("a", "lda", n, n, In, TriRef(ul))
				b.Mat("b", "ldb", n, nrhs, InOut, nil)
			},
			Call: func(impl gonum.Implementation, a *Args) Result {
				impl.Dpotrs(blas.Uplo(a.Int("uplo")), a.Int("n"), a.Int("nrhs"), a.F64s("a"), a.Int("lda"), a.F64s("b"), a.Int("ldb"))
				return Result{}
			},
		},
		&Routine{
			Name: "Dpocon", Dims: []string{"n"}, Flags: []FlagSpec{fUplo()},
			Layout: func(b *Builder) {
				ul := b.Flag("uplo")
				n := b.Dim("n")
				b.Mat("a", "lda", n, n, In, TriRef(ul))
				b.Scalar("anorm", 1)
				b.Work("work", 3*n)
				b.Ints("iwork", RoleIWork, n, Scratch, false, IntTaint, 0)
			},
			Call: func(impl gonum.Implementation, a *Args) Result {
				return Result{F: impl.Dpocon(blas.Uplo(a.Int("uplo")), a.Int("n"), a.F64s("a"), a.Int("lda"), a.Flt("anorm"), a.F64s("work"), a.Ints("iwork"))}
			},
		},
	)

	// ---- band Cholesky ------------------------------------------------------
	pb := func(name string, call func(gonum.Implementation, blas.Uplo, int, int, []float64, int) bool) *Routine {
		return &Routine{
			Name: name, Dims: []string{"n", "kd"}, Flags: []FlagSpec{fUplo()},
			Layout: func(b *Builder) {
				ul := b.Flag("uplo")
				n, kd := b.Dim("n"), b.Dim("kd")
				b.MatLD("ab", "ldab", n, kd+1, kd+1, InOut, BandRef(ul, n, kd))
			},
			Call: func(impl gonum.Implementation, a *Args) Result {
				return okRes(call(impl, blas.Uplo(a.Int("uplo")), a.Int("n"), a.Int("kd"), a.F64s("ab"), a.Int("ldab")))
			},
		}
	}
	register(
		pb("Dpbtrf", func(impl gonum.Implementation, ul blas.Uplo, n, kd int, ab []float64, ldab int) bool {
			return impl.Dpbtrf(ul, n, kd, ab, ldab)
		}),
		pb("Dpbtf2", func(impl gonum.Implementation, ul blas.Uplo, n, kd int, ab []float64, ldab int) bool {
			return impl.Dpbtf2(ul, n, kd, ab, ldab)
		}),
		&Routine{
			Name: "Dpbtrs", Dims: []string{"n", "kd", "nrhs"}, Flags: []FlagSpec{fUplo()},
			Layout: func(b *Builder) {
				ul := b.Flag("uplo")
				n, kd, nrhs := b.Dim("n"), b.Dim("kd"), b.Dim("nrhs")
				b.MatLD("ab", "ldab", n, kd+1, kd+1, In, BandRef(ul, n, kd))
				b.Mat("b", "ldb", n, nrhs, InOut, nil)
			},
			Call: func(impl gonum.Implementation, a *Args) Result {
				impl.Dpbtrs(blas.Uplo(a.Int("uplo")), a.Int("n"), a.Int("kd"), a.Int("nrhs"), a.F64s("ab"), a.Int("ldab"), a.F64s("b"), a.Int("ldb"))
				return Result{}
			},
		},
		&Routine{
			Name: "Dpbcon", Dims: []string{"n", "kd"}, Flags: []FlagSpec{fUplo()},
			Layout: func(b *Builder) {
				ul := b.Flag("uplo")
				n, kd := b.Dim("n"), b.Dim("kd")
				b.MatLD("ab", "ldab", n, kd+1, kd+1, In, BandRef(ul, n, kd))
				b.Scalar("anorm", 1)
				b.Work("work", 3*n)
				b.Ints("iwork", RoleIWork, n, Scratch, false, IntTaint, 0)
			},
			Call: func(impl gonum.Implementation, a *Args) Result {
				return Result{F: impl.Dpbcon(blas.Uplo(a.Int("uplo")), a.Int("n"), a.Int("kd"), a.F64s("ab"), a.Int("ldab"), a.Flt("anorm"), a.F64s("work"), a.Ints("iwork"))}
			},
		},
	)

	// ---- pivoted Cholesky -----------------------------------------------------
	ps := func(name string, call func(gonum.Implementation, blas.Uplo, int, []float64, int, []int, float64, []float64) (int, bool)) *Routine {
		return &Routine{
			Name: name, Dims: []string{"n"}, Flags: []FlagSpec{fUplo()},
			Layout: func(b *Builder) {
				ul := b.Flag("uplo")
				n := b.Dim("n")
				b.Mat("a", "lda", n, n, InOut, TriRef(ul))
				b.Ints("piv", RoleIPiv, n, Out, true, IntTaint, 0)
				b.Scalar("tol", -1)
				b.Work("work", 2*n)
			},
			Call: func(impl gonum.Implementation, a *Args) Result {
				rank, ok := call(impl, blas.Uplo(a.Int("uplo")), a.Int("n"), a.F64s("a"), a.Int("lda"), a.Ints("piv"), a.Flt("tol"), a.F64s("work"))
				return Result{HasOK: true, OK: ok, Int: rank}
			},
		}
	}
	register(
		ps("Dpstrf", func(impl gonum.Implementation, ul blas.Uplo, n int, a []float64, lda int, piv []int, tol float64, work []float64) (int, bool) {
			return impl.Dpstrf(ul, n, a, lda, piv, tol, work)
		}),
		ps("Dpstf2", func(impl gonum.Implementation, ul blas.Uplo, n int, a []float64, lda int, piv []int, tol float64, work []float64) (int, bool) {
			return impl.Dpstf2(ul, n, a, lda, piv, tol, work)
		}),
	)

	// ---- QR / LQ / RQ / QL ------------------------------------------------------
	// unblocked: work of fixed length; exactTau per the argument checks.
	qr2 := func(name string, workDim string, exactTau bool, call func(gonum.Implementation, int, int, []float64, int, []float64, []float64)) *Routine {
		return &Routine{
			Name: name, Dims: []string{"m", "n"},
			Layout: func(b *Builder) {
				m, n := b.Dim("m"), b.Dim("n")
				b.Mat("a", "lda", m, n, InOut, nil)
				b.Tau("tau", min(m, n), Out, exactTau)
				w := n
				if workDim == "m" {
					w = m
				}
				b.Work("work", w)
			},
			Call: func(impl gonum.Implementation, a *Args) Result {
				call(impl, a.Int("m"), a.Int("n"), a.F64s("a"), a.Int("lda"), a.F64s("tau"), a.F64s("work"))
				return Result{}
			},
		}
	}
	qrf := func(name string, workDim string, exactTau bool, call func(gonum.Implementation, int, int, []float64, int, []float64, []float64, int)) *Routine {
		return &Routine{
			Name: name, Dims: []string{"m", "n"}, HasLWork: true,
			Layout: func(b *Builder) {
				m, n := b.Dim("m"), b.Dim("n")
				b.Mat("a", "lda", m, n, InOut, nil)
				b.Tau("tau", min(m, n), Out, exactTau)
				w := n
				if workDim == "m" {
					w = m
				}
				b.WorkL("work", "lwork", max(1, w))
			},
			Call: func(impl gonum.Implementation, a *Args) Result {
				call(impl, a.Int("m"), a.Int("n"), a.F64s("a"), a.Int("lda"), a.F64s("tau"), a.F64s("work"), a.Int("lwork"))
				return Result{}
			},
		}
	}
	register(
		qr2("Dgeqr2", "n", true, func(impl gonum.Implementation, m, n int, a []float64, lda int, tau, work []float64) {
			impl.Dgeqr2(m, n, a, lda, tau, work)
		}),
		qr2("Dgelq2", "m", false, func(impl gonum.Implementation, m, n int, a []float64, lda int, tau, work []float64) {
			impl.Dgelq2(m, n, a, lda, tau, work)
		}),
		qr2("Dgerq2", "m", false, func(impl gonum.Implementation, m, n int, a []float64, lda int, tau, work []float64) {
			impl.Dgerq2(m, n, a, lda, tau, work)
		}),
		qr2("Dgeql2", "n", false, func(impl gonum.Implementation, m, n int, a []float64, lda int, tau, work []float64) {
			impl.Dgeql2(m, n, a, lda, tau, work)
		}),
		qrf("Dgeqrf", "n", true, func(impl gonum.Implementation, m, n int, a []float64, lda int, tau, work []float64, lwork int) {
			impl.Dgeqrf(m, n, a, lda, tau, work, lwork)
		}),
		qrf("Dgelqf", "m", false, func(impl gonum.Implementation, m, n int, a []float64, lda int, tau, work []float64, lwork int) {
			impl.Dgelqf(m, n, a, lda, tau, work, lwork)
		}),
		qrf("Dgerqf", "m", true, func(impl gonum.Implementation, m, n int, a []float64, lda int, tau, work []float64, lwork int) {
			impl.Dgerqf(m, n, a, lda, tau, work, lwork)
		}),
		&Routine{
			Name: "Dgeqp3", Dims: []string{"m", "n"}, HasLWork: true,
			Layout: func(b *Builder) {
				m, n := b.Dim("m"), b.Dim("n")
				b.Mat("a", "lda", m, n, InOut, nil)
				b.Ints("jpvt", RoleIPiv, n, InOut, true, IntFree, 0)
				b.Tau("tau", min(m, n), Out, false)
				minL := 3*n + 1
				if min(m, n) == 0 {
					minL = 1
				}
				b.WorkL("work", "lwork", minL)
			},
			Call: func(impl gonum.Implementation, a *Args) Result {
				impl.Dgeqp3(a.Int("m"), a.Int("n"), a.F64s("a"), a.Int("lda"), a.Ints("jpvt"), a.F64s("tau"), a.F64s("work"), a.Int("lwork"))
				return Result{}
			},
		},
		&Routine{
			Name: "Dlaqp2", Dims: []string{"m", "n", "offset"},
			Valid: func(p *Params) bool { return p.Dims["offset"] <= p.Dims["m"] },
			Layout: func(b *Builder) {
				m, n := b.Dim("m"), b.Dim("n")
				off := b.DimRange("offset", 0, m)
				b.Mat("a", "lda", m, n, InOut, nil)
				b.Ints("jpvt", RoleIPiv, n, InOut, true, IntPerm, 0)
				b.Tau("tau", min(m-off, n), Out, false)
				b.Vec("vn1", n, InOut, false)
				b.Vec("vn2", n, InOut, false)
				b.Work("work", n)
			},
			Call: func(impl gonum.Implementation, a *Args) Result {
				impl.Dlaqp2(a.Int("m"), a.Int("n"), a.Int("offset"), a.F64s("a"), a.Int("lda"), a.Ints("jpvt"), a.F64s("tau"), a.F64s("vn1"), a.F64s("vn2"), a.F64s("work"))
				return Result{}
			},
		},
		&Routine{
			Name: "Dlaqps", Dims: []string{"m", "n", "offset", "nb"},
			// The doc comment only demands nb <= n; like the reference (and the
			// only caller, Dgeqp3) the routine additionally needs
			// offset+nb <= m, otherwise it indexes row m of a.
			Valid: func(p *Params) bool {
				return p.Dims["offset"] <= p.Dims["m"] && p.Dims["nb"] <= min(p.Dims["n"], p.Dims["m"]-p.Dims["offset"])
			},
			Layout: func(b *Builder) {
				m, n := b.Dim("m"), b.Dim("n")
				b.DimRange("offset", 0, m)
				nb := b.DimRange("nb", 0, min(n, m-b.a.P.Dims["offset"]))
				b.Mat("a", "lda", m, n, InOut, nil)
				b.Ints("jpvt", RoleIPiv, n, InOut, true, IntPerm, 0)
				b.Tau("tau", nb, Out, false)
				b.Vec("vn1", n, InOut, false)
				b.Vec("vn2", n, InOut, false)
				b.Vec("auxv", nb, Scratch, false)
				b.MatLD("f", "ldf", n, nb, max(1, nb), Scratch, nil)
			},
			Call: func(impl gonum.Implementation, a *Args) Result {
				kb := impl.Dlaqps(a.Int("m"), a.Int("n"), a.Int("offset"), a.Int("nb"), a.F64s("a"), a.Int("lda"), a.Ints("jpvt"), a.F64s("tau"), a.F64s("vn1"), a.F64s("vn2"), a.F64s("auxv"), a.F64s("f"), a.Int("ldf"))
				return Result{Int: kb}
			},
		},
	)
}
