package lapackgen

import (
	"testing"

	"gonum.org/v1/gonum/lapack/gonum"
	"gonum.org/v1/gonum/verifx/vrt"
)

// Every registered routine must accept its default-filled base tuple for
// random in-domain parameters, with and without ld padding / guard pages,
// and must leave the storage it has no business with untouched.
func TestBaseTuplesAreValid(t *testing.T) {
	impl := gonum.Implementation{}
	for _, name := range Names() {
		r := Get(name)
		for i := 0; i < 60; i++ {
			rng := vrt.NewRand(uint64(i)*7919 + 1)
			p := r.RandomParams(rng, 9)
			p.LDPad = []int{0, 7}[i%2]
			p.Guard = i%4 == 3
			if r.HasLWork && i%3 == 2 {
				p.LWork = -1
			}
			// Known defects of the pinned tree (reported by the C02 monitor):
			// a Dgels workspace query with min(m,n) == 0 zeroes b; Dlarft
			// (Forward, ColumnWise) slices v past an exact-length operand
			// when k == n and tau[k-1] != 0.
			if name == "Dgels" && p.LWork == -1 && min(p.Dims["m"], p.Dims["n"]) == 0 {
				continue
			}
			if name == "Dlarft" && p.Dims["k"] == p.Dims["n"] {
				continue
			}
			a := r.Build(p)
			a.FillDefault(rng)
			a.Snapshot()
			pn := vrt.Try(func() { a.Invoke(impl) })
			if pn != nil {
				t.Errorf("%s: valid tuple panicked: %s\n%s", a.Describe(), pn.Msg, pn.Stack)
				a.Release()
				break
			}
			if tr := a.Trespasses(p.LWork == -1); len(tr) > 0 {
				t.Errorf("%s: trespass %v", a.Describe(), tr)
			}
			a.Release()
		}
	}
}
