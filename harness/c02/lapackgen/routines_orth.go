package lapackgen

import (
	"gonum.org/v1/gonum/blas"
	"gonum.org/v1/gonum/lapack"
	"gonum.org/v1/gonum/lapack/gonum"
)

// ReflectorRef returns the storage positions of an m x n factored matrix
// that hold the k Householder vectors (excluding the implicit unit entry)
// for the given factorisation kind: "QR" (below the diagonal of the first k
// columns), "LQ" (right of the diagonal of the first k rows), "QL" (column
// n-k+i above row m-k+i), "RQ" (row m-k+i left of column n-k+i).
func ReflectorRef(kind string, m, n, k int) func(i, j int) bool {
	switch kind {
	case "QR":
		return func(i, j int) bool { return j < k && i > j }
	case "LQ":
		return func(i, j int) bool { return i < k && j > i }
	case "QL":
		return func(i, j int) bool { return j >= n-k && i < m-n+j }
	case "RQ":
		return func(i, j int) bool { return i >= m-k && j < n-m+i }
	}
	panic("lapackgen: bad reflector kind")
}

func init() {
	// ---- generate Q ------------------------------------------------------------
	// colQ: m >= n >= k (Dorg2r, Dorgqr, Dorg2l, Dorgql); rowQ: n >= m >= k.
	colQ := func(p *Params) bool { return p.Dims["k"] <= p.Dims["n"] && p.Dims["n"] <= p.Dims["m"] }
	rowQ := func(p *Params) bool { return p.Dims["k"] <= p.Dims["m"] && p.Dims["m"] <= p.Dims["n"] }
	org2 := func(name string, col bool, exactTau bool, call func(gonum.Implementation, int, int, int, []float64, int, []float64, []float64)) *Routine {
		r := &Routine{
			Name: name, Dims: []string{"m", "n", "k"}, Valid: colQ,
			Call: func(impl gonum.Implementation, a *Args) Result {
				call(impl, a.Int("m"), a.Int("n"), a.Int("k"), a.F64s("a"), a.Int("lda"), a.F64s("tau"), a.F64s("work"))
				return Result{}
			},
		}
		if !col {
			r.Valid = rowQ
		}
		r.Layout = func(b *Builder) {
			var m, n, k, w int
			if col {
				m = b.Dim("m")
				n = b.DimRange("n", 0, m)
				k = b.DimRange("k", 0, n)
				w = n
			} else {
				m = b.Dim("m")
				n = b.DimRange("n", m, -1)
				k = b.DimRange("k", 0, m)
				w = m
			}
			b.Mat("a", "lda", m, n, InOut, nil)
			b.Tau("tau", k, In, exactTau)
			b.Work("work", w)
		}
		return r
	}
	orgb := func(name string, col bool, exactTau bool, call func(gonum.Implementation, int, int, int, []float64, int, []float64, []float64, int)) *Routine {
		r := &Routine{
			Name: name, Dims: []string{"m", "n", "k"}, Valid: colQ, HasLWork: true,
			Call: func(impl gonum.Implementation, a *Args) Result {
				call(impl, a.Int("m"), a.Int("n"), a.Int("k"), a.F64s("a"), a.Int("lda"), a.F64s("tau"), a.F64s("work"), a.Int("lwork"))
				return Result{}
			},
		}
		if !col {
			r.Valid = rowQ
		}
		r.Layout = func(b *Builder) {
			var m, n, k, w int
			if col {
				m = b.Dim("m")
				n = b.DimRange("n", 0, m)
				k = b.DimRange("k", 0, n)
				w = n
			} else {
				m = b.Dim("m")
				n = b.DimRange("n", m, -1)
				k = b.DimRange("k", 0, m)
				w = m
			}
			b.Mat("a", "lda", m, n, InOut, nil)
			b.Tau("tau", k, In, exactTau)
			b.WorkL("work", "lwork", max(1, w))
		}
		return r
	}
	register(
		org2("Dorg2r", true, true, func(impl gonum.Implementation, m, n, k int, a []float64, lda int, tau, work []float64) {
			impl.Dorg2r(m, n, k, a, lda, tau, work)
		}),
		org2("Dorg2l", true, false, func(impl gonum.Implementation, m, n, k int, a []float64, lda int, tau, work []float64) {
			impl.Dorg2l(m, n, k, a, lda, tau, work)
		}),
		org2("Dorgl2", false, false, func(impl gonum.Implementation, m, n, k int, a []float64, lda int, tau, work []float64) {
			impl.Dorgl2(m, n, k, a, lda, tau, work)
		}),
		org2("Dorgr2", false, true, func(impl gonum.Implementation, m, n, k int, a []float64, lda int, tau, work []float64) {
			impl.Dorgr2(m, n, k, a, lda, tau, work)
		}),
		orgb("Dorgqr", true, true, func(impl gonum.Implementation, m, n, k int, a []float64, lda int, tau, work []float64, lwork int) {
			impl.Dorgqr(m, n, k, a, lda, tau, work, lwork)
		}),
		orgb("Dorgql", true, false, func(impl gonum.Implementation, m, n, k int, a []float64, lda int, tau, work []float64, lwork int) {
			impl.Dorgql(m, n, k, a, lda, tau, work, lwork)
		}),
		orgb("Dorglq", false, false, func(impl gonum.Implementation, m, n, k int, a []float64, lda int, tau, work []float64, lwork int) {
			impl.Dorglq(m, n, k, a, lda, tau, work, lwork)
		}),
	)

	// ---- apply Q -----------------------------------------------------------------
	// a holds the reflectors: column-wise (QR: nq x k) or row-wise (LQ, RQ:
	// k x nq), nq = m for Left and n for Right. k <= nq.
	ormValid := func(p *Params) bool {
		nq := p.Dims["n"]
		if p.Flags["side"] == int(blas.Left) {
			nq = p.Dims["m"]
		}
		return p.Dims["k"] <= nq
	}
	type ormCall func(impl gonum.Implementation, side blas.Side, trans blas.Transpose, m, n, k int, a []float64, lda int, tau, c []float64, ldc int, work []float64, lwork int)
	orm := func(name, kind string, blocked, exactTau bool, call ormCall) *Routine {
		return &Routine{
			Name: name, Dims: []string{"m", "n", "k"}, Flags: []FlagSpec{fSide(), fTrans()}, Valid: ormValid, HasLWork: blocked,
			Layout: func(b *Builder) {
				side := b.Flag("side")
				b.Flag("trans")
				m, n := b.Dim("m"), b.Dim("n")
				nq, nw := n, m
				if side == int(blas.Left) {
					nq, nw = m, n
				}
				k := b.DimRange("k", 0, nq)
				switch kind {
				case "QR":
					b.Mat("a", "lda", nq, k, In, ReflectorRef("QR", nq, k, k))
				case "LQ":
					b.Mat("a", "lda", k, nq, In, ReflectorRef("LQ", k, nq, k))
				case "RQ":
					b.Mat("a", "lda", k, nq, In, ReflectorRef("RQ", k, nq, k))
				}
				b.Tau("tau", k, In, exactTau)
				b.Mat("c", "ldc", m, n, InOut, nil)
				if blocked {
					b.WorkL("work", "lwork", max(1, nw))
				} else {
					b.Work("work", nw)
				}
			},
			Call: func(impl gonum.Implementation, a *Args) Result {
				lw := 0
				if blocked {
					lw = a.Int("lwork")
				}
				call(impl, blas.Side(a.Int("side")), blas.Transpose(a.Int("trans")), a.Int("m"), a.Int("n"), a.Int("k"),
					a.F64s("a"), a.Int("lda"), a.F64s("tau"), a.F64s("c"), a.Int("ldc"), a.F64s("work"), lw)
				return Result{}
			},
		}
	}
	register(
		orm("Dorm2r", "QR", false, true, func(impl gonum.Implementation, side blas.Side, trans blas.Transpose, m, n, k int, a []float64, lda int, tau, c []float64, ldc int, work []float64, _ int) {
			impl.Dorm2r(side, trans, m, n, k, a, lda, tau, c, ldc, work)
		}),
		orm("Dorml2", "LQ", false, false, func(impl gonum.Implementation, side blas.Side, trans blas.Transpose, m, n, k int, a []float64, lda int, tau, c []float64, ldc int, work []float64, _ int) {
			impl.Dorml2(side, trans, m, n, k, a, lda, tau, c, ldc, work)
		}),
		orm("Dormr2", "RQ", false, false, func(impl gonum.Implementation, side blas.Side, trans blas.Transpose, m, n, k int, a []float64, lda int, tau, c []float64, ldc int, work []float64, _ int) {
			impl.Dormr2(side, trans, m, n, k, a, lda, tau, c, ldc, work)
		}),
		orm("Dormqr", "QR", true, true, func(impl gonum.Implementation, side blas.Side, trans blas.Transpose, m, n, k int, a []float64, lda int, tau, c []float64, ldc int, work []float64, lwork int) {
			impl.Dormqr(side, trans, m, n, k, a, lda, tau, c, ldc, work, lwork)
		}),
		orm("Dormlq", "LQ", true, false, func(impl gonum.Implementation, side blas.Side, trans blas.Transpose, m, n, k int, a []float64, lda int, tau, c []float64, ldc int, work []float64, lwork int) {
			impl.Dormlq(side, trans, m, n, k, a, lda, tau, c, ldc, work, lwork)
		}),
	)

	// ---- elementary and block reflectors ---------------------------------------
	register(
		&Routine{
			Name: "Dlarfg", Dims: []string{"n"},
			Layout: func(b *Builder) {
				n := b.Dim("n")
				b.Scalar("alpha", 0.5)
				inc := 1 + b.p.LDPad
				b.VecInc("x", "incX", n-1, inc, InOut)
			},
			Call: func(impl gonum.Implementation, a *Args) Result {
				beta, tau := impl.Dlarfg(a.Int("n"), a.Flt("alpha"), a.F64s("x"), a.Int("incX"))
				return Result{F: beta, F2: tau}
			},
		},
		&Routine{
			Name: "Dlarf", Dims: []string{"m", "n"}, Flags: []FlagSpec{fSide()},
			Layout: func(b *Builder) {
				side := b.Flag("side")
				m, n := b.Dim("m"), b.Dim("n")
				lv, lw := n, m
				if side == int(blas.Left) {
					lv, lw = m, n
				}
				inc := 1 + b.p.LDPad
				b.VecInc("v", "incv", lv, inc, In)
				b.Scalar("tau", 0.7)
				b.Mat("c", "ldc", m, n, InOut, nil)
				// The argument check requires n (Left) / m (Right); the doc
				// comment states the opposite.
				b.Work("work", lw)
			},
			Call: func(impl gonum.Implementation, a *Args) Result {
				impl.Dlarf(blas.Side(a.Int("side")), a.Int("m"), a.Int("n"), a.F64s("v"), a.Int("incv"), a.Flt("tau"), a.F64s("c"), a.Int("ldc"), a.F64s("work"))
				return Result{}
			},
		},
		&Routine{
			Name: "Dlarfx", Dims: []string{"m", "n"}, Flags: []FlagSpec{fSide()},
			Layout: func(b *Builder) {
				side := b.Flag("side")
				m, n := b.Dim("m"), b.Dim("n")
				lv, lw := n, m
				if side == int(blas.Left) {
					lv, lw = m, n
				}
				b.Vec("v", lv, In, false)
				b.Scalar("tau", 0.7)
				b.Mat("c", "ldc", m, n, InOut, nil)
				b.Work("work", lw)
			},
			Call: func(impl gonum.Implementation, a *Args) Result {
				impl.Dlarfx(blas.Side(a.Int("side")), a.Int("m"), a.Int("n"), a.F64s("v"), a.Flt("tau"), a.F64s("c"), a.Int("ldc"), a.F64s("work"))
				return Result{}
			},
		},
		&Routine{
			// n is the order of the block reflector, k >= 1 the number of
			// elementary reflectors.
			Name: "Dlarft", Dims: []string{"n", "k"}, Flags: []FlagSpec{{"direct", Directs}, {"store", Stores}},
			Valid: func(p *Params) bool { return p.Dims["k"] >= 1 && p.Dims["k"] <= max(1, p.Dims["n"]) },
			Layout: func(b *Builder) {
				direct := b.Flag("direct")
				store := b.Flag("store")
				n := b.Dim("n")
				k := b.DimRange("k", 1, -1)
				if store == int(lapack.ColumnWise) {
					b.Mat("v", "ldv", n, k, In, BlockVRef(direct, store, n, k))
				} else {
					b.Mat("v", "ldv", k, n, In, BlockVRef(direct, store, n, k))
				}
				b.Tau("tau", k, In, false)
				tref := func(i, j int) bool { return j >= i }
				if direct == int(lapack.Backward) {
					tref = func(i, j int) bool { return j <= i }
				}
				b.Mat("t", "ldt", k, k, Out, tref)
			},
			Call: func(impl gonum.Implementation, a *Args) Result {
				impl.Dlarft(lapack.Direct(a.Int("direct")), lapack.StoreV(a.Int("store")), a.Int("n"), a.Int("k"), a.F64s("v"), a.Int("ldv"), a.F64s("tau"), a.F64s("t"), a.Int("ldt"))
				return Result{}
			},
		},
		&Routine{
			Name: "Dlarfb", Dims: []string{"m", "n", "k"},
			Flags: []FlagSpec{fSide(), fTrans(), {"direct", Directs}, {"store", Stores}},
			Valid: func(p *Params) bool {
				nv := p.Dims["n"]
				if p.Flags["side"] == int(blas.Left) {
					nv = p.Dims["m"]
				}
				return p.Dims["k"] >= 1 && p.Dims["k"] <= max(1, nv)
			},
			Layout: func(b *Builder) {
				side := b.Flag("side")
				b.Flag("trans")
				direct := b.Flag("direct")
				store := b.Flag("store")
				m, n := b.Dim("m"), b.Dim("n")
				k := b.DimRange("k", 1, -1)
				nv, nw := n, m
				if side == int(blas.Left) {
					nv, nw = m, n
				}
				if store == int(lapack.ColumnWise) {
					b.Mat("v", "ldv", nv, k, In, BlockVRef(direct, store, nv, k))
				} else {
					b.Mat("v", "ldv", k, nv, In, BlockVRef(direct, store, nv, k))
				}
				tref := func(i, j int) bool { return j >= i }
				if direct == int(lapack.Backward) {
					tref = func(i, j int) bool { return j <= i }
				}
				b.Mat("t", "ldt", k, k, In, tref)
				b.Mat("c", "ldc", m, n, InOut, nil)
				b.MatLD("work", "ldwork", nw, k, max(1, k), Scratch, nil)
			},
			Call: func(impl gonum.Implementation, a *Args) Result {
				impl.Dlarfb(blas.Side(a.Int("side")), blas.Transpose(a.Int("trans")), lapack.Direct(a.Int("direct")), lapack.StoreV(a.Int("store")),
					a.Int("m"), a.Int("n"), a.Int("k"), a.F64s("v"), a.Int("ldv"), a.F64s("t"), a.Int("ldt"), a.F64s("c"), a.Int("ldc"), a.F64s("work"), a.Int("ldwork"))
				return Result{}
			},
		},
	)

	// ---- least squares ---------------------------------------------------------------
	register(&Routine{
		Name: "Dgels", Dims: []string{"m", "n", "nrhs"}, Flags: []FlagSpec{fTrans3()}, HasLWork: true,
		Layout: func(b *Builder) {
			b.Flag("trans")
			m, n, nrhs := b.Dim("m"), b.Dim("n"), b.Dim("nrhs")
			b.Mat("a", "lda", m, n, InOut, nil)
			b.Mat("b", "ldb", max(m, n), nrhs, InOut, nil)
			// Documented: max(m,n) + max(m,n,nrhs); the check accepts
			// min(m,n) + max(min(m,n), nrhs), which is never larger.
			b.WorkL("work", "lwork", max(1, max(m, n)+max(m, n, nrhs)))
		},
		Call: func(impl gonum.Implementation, a *Args) Result {
			return okRes(impl.Dgels(blas.Transpose(a.Int("trans")), a.Int("m"), a.Int("n"), a.Int("nrhs"), a.F64s("a"), a.Int("lda"), a.F64s("b"), a.Int("ldb"), a.F64s("work"), a.Int("lwork")))
		},
	})
}

// BlockVRef returns the stored positions of the reflector block V used by
// Dlarft / Dlarfb (order nv, k reflectors): everything except the implicit
// unit diagonal and the implicit zero triangle.
func BlockVRef(direct, store, nv, k int) func(i, j int) bool {
	fwd := direct == int(lapack.Forward)
	col := store == int(lapack.ColumnWise)
	switch {
	case fwd && col: // V is nv x k, unit lower trapezoidal
		return func(i, j int) bool { return i > j }
	case fwd && !col: // V is k x nv, unit upper trapezoidal
		return func(i, j int) bool { return j > i }
	case !fwd && col: // V is nv x k; column j has its unit at row nv-k+j
		return func(i, j int) bool { return i < nv-k+j }
	default: // V is k x nv; row i has its unit at column nv-k+i
		return func(i, j int) bool { return j < nv-k+i }
	}
}
