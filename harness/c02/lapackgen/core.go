// Package lapackgen generates valid argument tuples for the routines of
// gonum.org/v1/gonum/lapack/gonum.Implementation and calls the routines with
// them.
//
// It is shared by two monitors:
//
//   - C02 (numerical identities) builds a tuple for a (shape, flags, ld class,
//     lwork class), overwrites the operand contents with the matrices it wants
//     to factor, invokes the routine and inspects the operands afterwards.
//   - C07 (argument validation) takes the same valid base tuple, perturbs ONE
//     argument (a dimension, a leading dimension, the length of a slice, a
//     flag, lwork) through the exported fields of Arg and calls Invoke again.
//
// Every argument has a name (the parameter name of the gonum signature), a
// Role, and the minimal value / minimal length that the doc comment of the
// routine (cross-checked against its argument checks) admits. Slices have
// exactly their minimal length and capacity. Unless Params.Guard is set they
// live inside a larger NaN-tainted backing array (canaries before and after);
// with Params.Guard they end flush against an inaccessible page, so that an
// access one element past a valid minimal slice faults.
//
// Typical use by a single-fault perturbation monitor:
//
//	r := lapackgen.Get("Dgeqrf")                  // or range over lapackgen.Names()
//	p := r.RandomParams(rng, 12)                  // in-domain dims and flags
//	a := r.Build(p); a.FillDefault(rng)           // valid base tuple
//	a.Invoke(impl)                                // must not panic
//	b := r.Build(p); b.FillDefault(rng)
//	x := b.Arg("lda"); x.I = x.Min - 1            // one fault (Role, Min, Max, Exact, Values say which are possible)
//	pn := vrt.Try(func() { b.Invoke(impl) })      // must panic with the documented message
//	y := b.Arg("tau"); y.S = y.S[:y.Min-1]        // another one: a slice one element short
//
// Storage that a routine has no business touching (row padding for
// ld > columns, the other triangle of a triangular / symmetric operand, the
// unused corners of band storage, whole workspaces on entry) is filled with
// payload NaNs (vrt.Taint). Snapshot / Trespasses bit-compare it.
package lapackgen

import (
	"fmt"
	"math"
	"sort"

	"gonum.org/v1/gonum/lapack/gonum"
	"gonum.org/v1/gonum/verifx/vrt"
)

// Role classifies an argument of a LAPACK routine.
type Role int

const (
	RoleFlag   Role = iota // uplo, trans, diag, side, norm, direct, store, bool switches
	RoleDim                // m, n, k, nrhs, kd, offset, nb, k1, k2 ...
	RoleLD                 // leading dimension of a matrix operand
	RoleInc                // vector increment
	RoleScalar             // float64 scalar (anorm, tol, tau, alpha)
	RoleData               // float64 matrix / vector operand
	RoleTau                // float64 reflector scalar factors
	RoleWork               // float64 workspace
	RoleLWork              // usable workspace length
	RoleIPiv               // []int pivot / permutation operand
	RoleIWork              // []int workspace
)

func (r Role) String() string {
	return [...]string{"flag", "dim", "ld", "inc", "scalar", "data", "tau", "work", "lwork", "ipiv", "iwork"}[r]
}

// Access says what the routine may do with a slice operand.
type Access int

const (
	In      Access = iota // read only: must be bit-identical afterwards
	InOut                 // read and overwritten (referenced part only)
	Out                   // written; tainted on entry
	Scratch               // workspace: tainted on entry, arbitrary afterwards
)

// IntFill describes valid default contents of an []int operand.
type IntFill int

const (
	IntTaint    IntFill = iota // output / workspace: filled with a sentinel
	IntRowSwaps                // ipiv[i] in [i, Limit): a valid Dgetrf pivot sequence
	IntPerm                    // a permutation of 0..len-1
	IntFree                    // all -1 (Dgeqp3 "free column")
)

// IntSentinel fills integer outputs / workspaces on entry.
const IntSentinel = -0x5eadbeef

const canary = 8 // tainted words before and after each operand

// Arg is one argument of a routine call. The exported value fields (I, F,
// S, IS) are what Invoke passes; they may be modified between Build and
// Invoke (C07 does).
type Arg struct {
	Name   string
	Role   Role
	Access Access

	I  int       // Flag, Dim, LD, Inc, LWork
	F  float64   // Scalar
	S  []float64 // Data, Tau, Work
	IS []int     // IPiv, IWork

	// Min is the minimal legal value (Dim: 0 unless stated, LD, LWork) or
	// the minimal legal length (slices). For Inc it is 1.
	Min int
	// Max is the maximal legal value of a Dim that is bounded by another
	// dimension (k <= n ...); -1 if unbounded.
	Max int
	// Exact is set when the slice length must equal Min (the routine panics
	// with a badLen* message otherwise) rather than be at least Min.
	Exact bool
	// Values lists the legal values of a Flag.
	Values []int

	// Matrix layout of a Data operand: Rows x Cols stored elements with
	// leading dimension given by the argument named LDName. Vectors have
	// Rows = length, Cols = 1 and LDName == "" (IncName may be set).
	Rows, Cols int
	LDName     string
	IncName    string
	// LWorkName names the lwork argument governing a Work slice.
	LWorkName string
	// Ref reports whether the routine may reference storage position (i,j)
	// (row i, column j of the stored Rows x Cols array). nil means all.
	Ref func(i, j int) bool
	// Fill describes valid default contents of an []int operand; Limit is
	// the exclusive upper bound of IntRowSwaps entries.
	Fill  IntFill
	Limit int

	backing  []float64
	ibacking []int
	snap     []uint64
	isnap    []int
}

// Params selects one valid configuration of a routine.
type Params struct {
	Dims  map[string]int
	Flags map[string]int
	// LDPad is added to the minimal value of every leading dimension.
	LDPad int
	// LWork: 0 = the documented minimum, -1 = workspace query (work has
	// length 1), > 0 = this value (the caller guarantees it is legal).
	LWork int
	// Guard backs every float64 slice by a guard page directly behind its
	// last element instead of a canary zone.
	Guard bool
}

// Clone returns a deep copy of p.
func (p Params) Clone() Params {
	q := p
	q.Dims = make(map[string]int, len(p.Dims))
	for k, v := range p.Dims {
		q.Dims[k] = v
	}
	q.Flags = make(map[string]int, len(p.Flags))
	for k, v := range p.Flags {
		q.Flags[k] = v
	}
	return q
}

func (p Params) String() string {
	s := ""
	keys := make([]string, 0, len(p.Flags)+len(p.Dims))
	for k := range p.Flags {
		keys = append(keys, k)
	}
	sort.Strings(keys)
	for _, k := range keys {
		v := p.Flags[k]
		if v >= 32 && v < 127 {
			s += fmt.Sprintf("%s=%c ", k, v)
		} else {
			s += fmt.Sprintf("%s=%d ", k, v)
		}
	}
	keys = keys[:0]
	for k := range p.Dims {
		keys = append(keys, k)
	}
	sort.Strings(keys)
	for _, k := range keys {
		s += fmt.Sprintf("%s=%d ", k, p.Dims[k])
	}
	s += fmt.Sprintf("ldpad=%d lwork=%d guard=%v", p.LDPad, p.LWork, p.Guard)
	return s
}

// Result is what a routine returned.
type Result struct {
	HasOK bool
	OK    bool
	// Int is an integer result (rank of Dpstrf, kb of Dlaqps).
	Int int
	// F, F2 are float results (norms, rcond, beta and tau of Dlarfg).
	F, F2 float64
}

// FlagSpec names a flag and its legal values.
type FlagSpec struct {
	Name   string
	Values []int
}

// Routine describes one method of gonum.Implementation.
type Routine struct {
	Name string
	// Dims are the dimension parameters, in signature order.
	Dims []string
	// Flags are the option parameters and their legal values.
	Flags []FlagSpec
	// HasLWork is set for routines with an lwork parameter (and therefore a
	// workspace query).
	HasLWork bool
	// Valid reports whether the dimensions in p are in the documented domain
	// (e.g. 0 <= k <= n <= m for Dorgqr). nil means any non-negative values.
	Valid func(p *Params) bool
	// Layout declares the arguments for the builder's parameters.
	Layout func(b *Builder)
	// Call invokes the routine with the current values of a.
	Call func(impl gonum.Implementation, a *Args) Result
}

// Args is a complete argument tuple.
type Args struct {
	R    *Routine
	P    Params
	List []*Arg
	by   map[string]*Arg
	free []func()
}

// Arg returns the argument called name; it panics if there is none.
func (a *Args) Arg(name string) *Arg {
	x := a.by[name]
	if x == nil {
		panic("lapackgen: " + a.R.Name + " has no argument " + name)
	}
	return x
}

// Has reports whether the tuple has an argument called name.
func (a *Args) Has(name string) bool { return a.by[name] != nil }

// Int returns the integer value of a Flag/Dim/LD/Inc/LWork argument.
func (a *Args) Int(name string) int { return a.Arg(name).I }

// Bool returns a boolean flag.
func (a *Args) Bool(name string) bool { return a.Arg(name).I != 0 }

// Flt returns a scalar argument.
func (a *Args) Flt(name string) float64 { return a.Arg(name).F }

// F64s returns a float64 slice argument.
func (a *Args) F64s(name string) []float64 { return a.Arg(name).S }

// Ints returns an int slice argument.
func (a *Args) Ints(name string) []int { return a.Arg(name).IS }

// View is a row-major window on a matrix operand.
type View struct {
	Data []float64
	R, C int
	LD   int
}

// At returns element (i,j) of the stored array.
func (v View) At(i, j int) float64 { return v.Data[i*v.LD+j] }

// Set assigns element (i,j) of the stored array.
func (v View) Set(i, j int, x float64) { v.Data[i*v.LD+j] = x }

// Mat returns the view of a matrix operand with its current leading dimension.
func (a *Args) Mat(name string) View {
	x := a.Arg(name)
	ld := 1
	if x.LDName != "" {
		ld = a.Arg(x.LDName).I
	} else if x.IncName != "" {
		ld = abs(a.Arg(x.IncName).I)
	}
	return View{Data: x.S, R: x.Rows, C: x.Cols, LD: ld}
}

// Invoke calls the routine with the current argument values.
func (a *Args) Invoke(impl gonum.Implementation) Result { return a.R.Call(impl, a) }

// Release returns guard-page mappings. The slices must not be used afterwards.
func (a *Args) Release() {
	for _, f := range a.free {
		f()
	}
	a.free = nil
}

// Build lays out a valid argument tuple of r for p. All float operands are
// NaN-tainted; call FillDefault (or write the contents you need) before
// Invoke. It panics if p is outside the routine's domain.
func (r *Routine) Build(p Params) *Args {
	if r.Valid != nil && !r.Valid(&p) {
		panic(fmt.Sprintf("lapackgen: %s: parameters outside the domain: %v", r.Name, p))
	}
	a := &Args{R: r, P: p, by: make(map[string]*Arg)}
	b := &Builder{a: a, p: p}
	r.Layout(b)
	return a
}

// Builder is handed to Routine.Layout.
type Builder struct {
	a *Args
	p Params
}

func (b *Builder) add(x *Arg) *Arg {
	if b.a.by[x.Name] != nil {
		panic("lapackgen: duplicate argument " + x.Name)
	}
	b.a.List = append(b.a.List, x)
	b.a.by[x.Name] = x
	return x
}

// Flag declares the flag called name and returns its value.
func (b *Builder) Flag(name string) int {
	v, ok := b.p.Flags[name]
	var vals []int
	for _, f := range b.a.R.Flags {
		if f.Name == name {
			vals = f.Values
		}
	}
	if vals == nil {
		panic("lapackgen: " + b.a.R.Name + ": undeclared flag " + name)
	}
	if !ok {
		v = vals[0]
	}
	b.add(&Arg{Name: name, Role: RoleFlag, I: v, Values: vals})
	return v
}

// Dim declares the dimension called name and returns its value.
func (b *Builder) Dim(name string) int {
	v := b.p.Dims[name]
	b.add(&Arg{Name: name, Role: RoleDim, I: v, Max: -1})
	return v
}

// DimRange declares a dimension with a legal range [lo, hi].
func (b *Builder) DimRange(name string, lo, hi int) int {
	v := b.p.Dims[name]
	b.add(&Arg{Name: name, Role: RoleDim, I: v, Min: lo, Max: hi})
	return v
}

// Scalar declares a float64 scalar.
func (b *Builder) Scalar(name string, v float64) {
	b.add(&Arg{Name: name, Role: RoleScalar, F: v})
}

// Inc declares an increment.
func (b *Builder) Inc(name string, v int) {
	b.add(&Arg{Name: name, Role: RoleInc, I: v, Min: 1})
}

func (b *Builder) alloc(n int) (s, backing []float64) {
	if b.p.Guard {
		g, free := vrt.GuardedFloat64s(n, true)
		b.a.free = append(b.a.free, free)
		vrt.FillTaint(g)
		return g[:n:n], nil
	}
	backing = make([]float64, n+2*canary)
	vrt.FillTaint(backing)
	return backing[canary : canary+n : canary+n], backing
}

func matLen(rows, cols, ld int) int {
	if rows <= 0 {
		return 0
	}
	return max(0, (rows-1)*ld+cols)
}

// Mat declares a rows x cols row-major matrix operand followed by its
// leading dimension ldName (minimal value max(1, cols)). ref restricts the
// referenced storage positions (nil: all).
func (b *Builder) Mat(name, ldName string, rows, cols int, acc Access, ref func(i, j int) bool) {
	b.MatLD(name, ldName, rows, cols, max(1, cols), acc, ref)
}

// MatLD is Mat with an explicit minimal leading dimension.
func (b *Builder) MatLD(name, ldName string, rows, cols, ldMin int, acc Access, ref func(i, j int) bool) {
	ld := ldMin + b.p.LDPad
	n := matLen(rows, cols, ld)
	s, back := b.alloc(n)
	b.add(&Arg{Name: name, Role: RoleData, Access: acc, S: s, Min: n, Rows: rows, Cols: cols, LDName: ldName, Ref: ref, backing: back})
	b.add(&Arg{Name: ldName, Role: RoleLD, I: ld, Min: ldMin})
}

// MatFullRows declares a band-like operand whose minimal length is
// rows*ld (Dlangb's convention) instead of (rows-1)*ld+cols.
func (b *Builder) MatFullRows(name, ldName string, rows, cols, ldMin int, acc Access, ref func(i, j int) bool) {
	ld := ldMin + b.p.LDPad
	n := rows * ld
	s, back := b.alloc(n)
	b.add(&Arg{Name: name, Role: RoleData, Access: acc, S: s, Min: n, Rows: rows, Cols: cols, LDName: ldName, Ref: ref, backing: back})
	b.add(&Arg{Name: ldName, Role: RoleLD, I: ld, Min: ldMin})
}

// Vec declares a contiguous vector operand of minimal length n.
func (b *Builder) Vec(name string, n int, acc Access, exact bool) {
	n = max(0, n)
	s, back := b.alloc(n)
	role := RoleData
	b.add(&Arg{Name: name, Role: role, Access: acc, S: s, Min: n, Exact: exact, Rows: n, Cols: 1, backing: back})
}

// VecInc declares a strided vector of n elements followed by its increment.
func (b *Builder) VecInc(name, incName string, n, inc int, acc Access) {
	l := 0
	if n > 0 {
		l = 1 + (n-1)*abs(inc)
	}
	s, back := b.alloc(l)
	b.add(&Arg{Name: name, Role: RoleData, Access: acc, S: s, Min: l, Rows: n, Cols: 1, IncName: incName, backing: back,
		Ref: func(i, j int) bool { return j == 0 }})
	b.add(&Arg{Name: incName, Role: RoleInc, I: inc, Min: 1})
}

// Tau declares a reflector-scalar slice of (minimal / exact) length k.
func (b *Builder) Tau(name string, k int, acc Access, exact bool) {
	k = max(0, k)
	s, back := b.alloc(k)
	b.add(&Arg{Name: name, Role: RoleTau, Access: acc, S: s, Min: k, Exact: exact, Rows: k, Cols: 1, backing: back})
}

// Work declares a workspace of fixed minimal length n (no lwork parameter).
func (b *Builder) Work(name string, n int) {
	n = max(0, n)
	s, back := b.alloc(n)
	b.add(&Arg{Name: name, Role: RoleWork, Access: Scratch, S: s, Min: n, Rows: n, Cols: 1, backing: back})
}

// WorkL declares work followed by lwork with documented minimum minL; the
// value of lwork follows Params.LWork.
func (b *Builder) WorkL(name, lworkName string, minL int) {
	lw := minL
	switch {
	case b.p.LWork == -1:
		lw = -1
	case b.p.LWork > 0:
		lw = b.p.LWork
	}
	n := max(1, lw)
	s, back := b.alloc(n)
	b.add(&Arg{Name: name, Role: RoleWork, Access: Scratch, S: s, Min: n, Rows: n, Cols: 1, LWorkName: lworkName, backing: back})
	b.add(&Arg{Name: lworkName, Role: RoleLWork, I: lw, Min: minL})
}

// Ints declares an []int operand.
func (b *Builder) Ints(name string, role Role, n int, acc Access, exact bool, fill IntFill, limit int) {
	n = max(0, n)
	back := make([]int, n+2*canary)
	for i := range back {
		back[i] = IntSentinel
	}
	b.add(&Arg{Name: name, Role: role, Access: acc, IS: back[canary : canary+n : canary+n], Min: n, Exact: exact, Fill: fill, Limit: limit, ibacking: back})
}

// FillDefault writes valid default contents: uniform [-1,1) values into the
// referenced positions of In/InOut float operands (diagonals of square
// operands are pushed away from zero so that triangular solves stay finite)
// and Fill-conforming values into []int operands.
func (a *Args) FillDefault(r *vrt.Rand) {
	for _, x := range a.List {
		switch x.Role {
		case RoleData, RoleTau:
			if x.Access != In && x.Access != InOut {
				continue
			}
			if x.Role == RoleTau || x.LDName == "" {
				step := 1
				if x.IncName != "" {
					step = abs(a.Arg(x.IncName).I)
				}
				for i := 0; i < x.Rows; i++ {
					x.S[i*step] = r.Sym()
				}
				continue
			}
			v := a.Mat(x.Name)
			for i := 0; i < v.R; i++ {
				for j := 0; j < v.C; j++ {
					if i*v.LD+j >= len(v.Data) {
						continue
					}
					if x.Ref != nil && !x.Ref(i, j) {
						continue
					}
					t := r.Sym()
					v.Set(i, j, t)
				}
			}
		case RoleIPiv, RoleIWork:
			switch x.Fill {
			case IntRowSwaps:
				for i := range x.IS {
					lim := max(x.Limit, i+1)
					x.IS[i] = i + r.Intn(lim-i)
				}
			case IntPerm:
				copy(x.IS, r.Perm(len(x.IS)))
			case IntFree:
				for i := range x.IS {
					x.IS[i] = -1
				}
			}
		}
	}
}

// Snapshot records the bit patterns of all slice operands (including the
// canary zones). Call it after the operands have their final contents,
// directly before Invoke.
func (a *Args) Snapshot() {
	for _, x := range a.List {
		switch {
		case x.backing != nil:
			x.snap = vrt.Bits(x.backing)
		case x.S != nil:
			x.snap = vrt.Bits(x.S)
		case x.ibacking != nil:
			x.isnap = append(x.isnap[:0], x.ibacking...)
		}
	}
}

// Trespass is one word that changed although the routine must not touch it.
type Trespass struct {
	Arg   string
	Kind  string // "canary", "padding", "unreferenced", "input", "query"
	Index int    // index into the operand slice (negative / >= len for canaries)
}

func (t Trespass) String() string { return fmt.Sprintf("%s[%d]:%s", t.Arg, t.Index, t.Kind) }

// Trespasses compares the operands with the last Snapshot and returns the
// words that changed although they are (a) canaries around an operand, (b)
// row padding beyond the stored columns, (c) storage positions excluded by
// Ref, (d) any word of an In operand. When query is true (the call was a
// workspace query) every word except work[0] counts. At most 8 are returned.
func (a *Args) Trespasses(query bool) []Trespass {
	var out []Trespass
	add := func(t Trespass) bool {
		out = append(out, t)
		return len(out) >= 8
	}
	for _, x := range a.List {
		if x.ibacking != nil {
			for i, v := range x.ibacking {
				if v == x.isnap[i] {
					continue
				}
				idx := i - canary
				kind := ""
				switch {
				case idx < 0 || idx >= len(x.IS):
					kind = "canary"
				case query:
					kind = "query"
				case x.Access == In:
					kind = "input"
				}
				if kind != "" && add(Trespass{x.Name, kind, idx}) {
					return out
				}
			}
			continue
		}
		if x.snap == nil {
			continue
		}
		arr := x.backing
		off := canary
		if arr == nil {
			arr, off = x.S, 0
		}
		ld := 0
		if x.LDName != "" {
			ld = a.Arg(x.LDName).I
		} else if x.IncName != "" {
			ld = abs(a.Arg(x.IncName).I)
		}
		for i, v := range arr {
			if math.Float64bits(v) == x.snap[i] {
				continue
			}
			idx := i - off
			kind := ""
			switch {
			case idx < 0 || idx >= len(x.S):
				kind = "canary"
			case query:
				if !(x.Role == RoleWork && x.LWorkName != "" && idx == 0) {
					kind = "query"
				}
			case x.Access == In:
				kind = "input"
			case x.Access == Scratch:
			case ld > 0:
				r, c := idx/ld, idx%ld
				if c >= x.Cols {
					kind = "padding"
				} else if x.Ref != nil && !x.Ref(r, c) {
					kind = "unreferenced"
				}
			}
			if kind != "" && add(Trespass{x.Name, kind, idx}) {
				return out
			}
		}
	}
	return out
}

// Describe renders the scalar part of the tuple (for LastCase / details).
func (a *Args) Describe() string {
	s := a.R.Name + "("
	for i, x := range a.List {
		if i > 0 {
			s += " "
		}
		switch x.Role {
		case RoleFlag:
			if x.I >= 32 && x.I < 127 {
				s += fmt.Sprintf("%s=%c", x.Name, x.I)
			} else {
				s += fmt.Sprintf("%s=%d", x.Name, x.I)
			}
		case RoleDim, RoleLD, RoleInc, RoleLWork:
			s += fmt.Sprintf("%s=%d", x.Name, x.I)
		case RoleScalar:
			s += fmt.Sprintf("%s=%g", x.Name, x.F)
		case RoleIPiv, RoleIWork:
			s += fmt.Sprintf("len(%s)=%d", x.Name, len(x.IS))
		default:
			s += fmt.Sprintf("len(%s)=%d", x.Name, len(x.S))
		}
	}
	if a.P.Guard {
		s += " guard"
	}
	return s + ")"
}

func abs(x int) int {
	if x < 0 {
		return -x
	}
	return x
}

// Registry maps routine names to their descriptors.
var Registry = map[string]*Routine{}

// Names returns the registered routine names, sorted.
func Names() []string {
	n := make([]string, 0, len(Registry))
	for k := range Registry {
		n = append(n, k)
	}
	sort.Strings(n)
	return n
}

// Get returns the descriptor of the routine called name; it panics if the
// routine is not registered.
func Get(name string) *Routine {
	r := Registry[name]
	if r == nil {
		panic("lapackgen: unknown routine " + name)
	}
	return r
}

func register(rs ...*Routine) {
	for _, r := range rs {
		if Registry[r.Name] != nil {
			panic("lapackgen: duplicate routine " + r.Name)
		}
		Registry[r.Name] = r
	}
}

// RandomParams returns parameters inside the routine's domain with every
// dimension in [0, maxDim] and uniformly chosen flags (LDPad, LWork and Guard
// are left at their zero values). Bounded dimensions (k <= n <= m ...) are
// found by rejection, then by ordering the values.
func (r *Routine) RandomParams(rng *vrt.Rand, maxDim int) Params {
	p := Params{Dims: map[string]int{}, Flags: map[string]int{}}
	for _, f := range r.Flags {
		p.Flags[f.Name] = f.Values[rng.Intn(len(f.Values))]
	}
	extra := []string{}
	if r.Name == "Dlaswp" {
		extra = []string{"rows"}
	}
	for try := 0; try < 400; try++ {
		for _, d := range append(append([]string{}, r.Dims...), extra...) {
			p.Dims[d] = rng.Intn(maxDim + 1)
		}
		if r.Valid == nil || r.Valid(&p) {
			return p
		}
	}
	// Fall back to the smallest everywhere-valid shape.
	for _, d := range append(append([]string{}, r.Dims...), extra...) {
		p.Dims[d] = 1
	}
	if r.Name == "Dlaswp" {
		p.Dims["k1"], p.Dims["k2"] = 0, 0
	}
	return p
}
