package main

import (
	"fmt"
	"math"

	"gonum.org/v1/gonum/blas"
	"gonum.org/v1/gonum/lapack"
	"gonum.org/v1/gonum/verifx/c02/lapackgen"
	"gonum.org/v1/gonum/verifx/ref"
	"gonum.org/v1/gonum/verifx/vrt"
)

// triangular returns a well-conditioned n x n triangular matrix: diagonal
// in +-[1,2), off-diagonal entries uniform with row sums below one. With
// unit == true the diagonal of the logical matrix is one.
func triangular(r *vrt.Rand, n int, upper, unit bool) *ref.M {
	s := 1.0
	if n > 2 {
		s = 2 / float64(n)
	}
	t := ref.New(n, n)
	for i := 0; i < n; i++ {
		for j := 0; j < n; j++ {
			switch {
			case i == j:
				if unit {
					t.D[i*n+j] = 1
				} else {
					t.D[i*n+j] = r.Uniform(1, 2) * float64(1-2*r.Intn(2))
				}
			case (upper && j > i) || (!upper && j < i):
				t.D[i*n+j] = s * r.Sym()
			}
		}
	}
	return t
}

func triTag(ul blas.Uplo, dg blas.Diag) string { return fmt.Sprintf("uplo=%c diag=%c", ul, dg) }

func opOf(a *ref.M, trans blas.Transpose) *ref.M {
	if trans == blas.NoTrans {
		return a
	}
	return a.T()
}

// checkTri runs Dtrtri/Dtrti2/Dtrtrs/Dtrcon/Dlatrs on one triangular input.
func (h *H) checkTri(id string, seedIdx, n int, ul blas.Uplo, dg blas.Diag, singular, deep bool) {
	rng := h.c.RNG("tri", seedIdx)
	cs := h.newCase(id, rng)
	defer cs.done()
	upper, unit := ul == blas.Upper, dg == blas.Unit
	tag := triTag(ul, dg)
	t := triangular(rng, n, upper, unit)
	if singular {
		if unit || n == 0 {
			return
		}
		j := rng.Intn(n)
		t.D[j*n+j] = 0
	}
	dims := D{"n": n}
	flags := D{"uplo": int(ul), "diag": int(dg)}
	// With diag == Unit the stored diagonal is not referenced: it holds
	// taint NaNs in half of the cases and exact zeros in the other half (a
	// routine that tests it for singularity, reads it or writes it is caught
	// either way, the storage being bit-compared).
	zeroDiag := unit && seedIdx%2 == 0
	setTri := func(x *lapackgen.Args, name string) {
		setMat(x, name, t)
		if zeroDiag {
			v := x.Mat(name)
			for i := 0; i < n; i++ {
				v.Set(i, i, 0)
			}
		}
	}

	var tinv *ref.M
	if !singular && n > 0 {
		tinv, _ = ref.Inverse(t)
	}

	// ---- inverse: blocked vs unblocked ---------------------------------------
	var invs []*ref.M
	for _, c := range []struct {
		routine string
		cf      cfg
	}{{"Dtrti2", cfg{}}, {"Dtrtri", cfg{}}, {"Dtrtri", cfg{pad: 7}}, {"Dtrti2", cfg{pad: 7, guard: true}}} {
		if singular && c.routine == "Dtrti2" {
			continue // no singularity contract for the unblocked routine
		}
		args, res := cs.call(c.routine, tag, dims, flags, c.cf, func(x *lapackgen.Args) { setTri(x, "a") })
		if args == nil || n == 0 {
			continue
		}
		if singular {
			if res.OK {
				cs.fail(c.routine, tag, "ok-true-on-exactly-singular", "n=%d: zero diagonal entry", n)
			}
			// "will not perform the inversion if the matrix is singular"
			got := getTri(args, "a", upper)
			if ref.MaxDiff(got, t) != 0 {
				cs.fail(c.routine, tag, "singular-input-modified", "n=%d %v: returned ok=false but changed a", n, c.cf)
			}
			continue
		}
		if c.routine == "Dtrtri" && !res.OK {
			cs.fail(c.routine, tag, "ok-false-on-nonsingular", "n=%d", n)
			continue
		}
		x := getTri(args, "a", upper)
		if unit {
			for i := 0; i < n; i++ {
				x.D[i*n+i] = 1
			}
		}
		r := ref.Sub(ref.Mul(t, x), ref.Eye(n)).MaxAbs()
		cs.band(c.routine, tag, "inverse-residual", r, float64(n)*eps*ref.MulAbs(t, x).MaxAbs(), func() string {
			return fmt.Sprintf("n=%d %v", n, c.cf)
		})
		invs = append(invs, x)
	}
	for i := 1; i < len(invs); i++ {
		kappa := t.Norm1() * invs[0].Norm1()
		cs.band("Dtrtri~Dtrti2", tag, "inverse-differential", ref.MaxDiff(invs[i], invs[0]), float64(n)*eps*kappa*invs[0].MaxAbs(), func() string {
			return fmt.Sprintf("n=%d variant %d", n, i)
		})
	}

	// ---- solves -------------------------------------------------------------------
	nrhsList := []int{1, 3}
	if deep {
		nrhsList = []int{0, 1, 3, 17}
	}
	for ti, trans := range []blas.Transpose{blas.NoTrans, blas.Trans, blas.ConjTrans} {
		nrhs := nrhsList[(seedIdx+ti)%len(nrhsList)]
		b := ref.FromFunc(n, nrhs, func(i, j int) float64 { return rng.Sym() })
		cf := cfg{pad: 7 * ((seedIdx + ti) % 2), guard: (seedIdx+ti)%4 == 1}
		tg := tag + fmt.Sprintf(" trans=%c", trans)
		fl := D{"uplo": int(ul), "diag": int(dg), "trans": int(trans)}
		args, res := cs.call("Dtrtrs", tg, D{"n": n, "nrhs": nrhs}, fl, cf, func(x *lapackgen.Args) {
			setTri(x, "a")
			setMat(x, "b", b)
		})
		if args == nil || n == 0 {
			continue
		}
		x := getMat(args, "b")
		if singular {
			if res.OK {
				cs.fail("Dtrtrs", tg, "ok-true-on-exactly-singular", "n=%d", n)
			}
			if ref.MaxDiff(x, b) != 0 {
				cs.fail("Dtrtrs", tg, "singular-rhs-modified", "n=%d: \"if A is singular, no solve is performed\" but b changed", n)
			}
			continue
		}
		if !res.OK {
			cs.fail("Dtrtrs", tg, "ok-false-on-nonsingular", "n=%d", n)
			continue
		}
		if nrhs == 0 {
			continue
		}
		op := opOf(t, trans)
		r := ref.Sub(b, ref.Mul(op, x))
		cs.band("Dtrtrs", tg, "solve-residual", r.MaxAbs(), float64(n)*eps*(op.NormInf()*x.MaxAbs()+b.MaxAbs()), func() string {
			return fmt.Sprintf("n=%d nrhs=%d %v", n, nrhs, cf)
		})
	}
	if singular || n == 0 || tinv == nil {
		return
	}

	// ---- condition estimate ---------------------------------------------------------
	for _, nk := range []lapack.MatrixNorm{lapack.MaxColumnSum, lapack.MaxRowSum} {
		an, inv := t.Norm1(), tinv.Norm1()
		if nk == lapack.MaxRowSum {
			an, inv = t.NormInf(), tinv.NormInf()
		}
		tg := tag + fmt.Sprintf(" norm=%c", nk)
		fl := D{"uplo": int(ul), "diag": int(dg), "norm": int(nk)}
		args, res := cs.call("Dtrcon", tg, dims, fl, cfg{pad: 7 * (seedIdx % 2)}, func(x *lapackgen.Args) { setTri(x, "a") })
		if args != nil {
			cs.checkRcond("Dtrcon", tg, res.F, 1/(an*inv), n, an*inv, fmt.Sprintf("n=%d", n))
		}
	}

	// ---- Dlatrs (the scaled solve used by the estimators) ---------------------------------
	for ti, trans := range []blas.Transpose{blas.NoTrans, blas.Trans, blas.ConjTrans} {
		normin := (seedIdx+ti)%2 == 1
		tg := tag + fmt.Sprintf(" trans=%c normin=%v", trans, normin)
		fl := D{"uplo": int(ul), "diag": int(dg), "trans": int(trans), "normin": b2i(normin)}
		b := randVec(rng, n)
		// 1-norms of the strictly off-diagonal parts of the columns.
		cn := make([]float64, n)
		for i := 0; i < n; i++ {
			for j := 0; j < n; j++ {
				if i != j {
					cn[j] += math.Abs(t.D[i*n+j])
				}
			}
		}
		args, res := cs.call("Dlatrs", tg, dims, fl, cfg{pad: 7 * (ti % 2)}, func(x *lapackgen.Args) {
			setTri(x, "a")
			setVec(x, "x", b)
			if normin {
				setVec(x, "cnorm", cn)
			}
		})
		if args == nil {
			continue
		}
		scale := res.F
		if !(scale > 0 && scale <= 1) {
			cs.fail("Dlatrs", tg, "scale-out-of-range", "n=%d: scale=%v on a well scaled system", n, scale)
			continue
		}
		x := ref.FromFunc(n, 1, func(i, j int) float64 { return args.F64s("x")[i] })
		bb := ref.FromFunc(n, 1, func(i, j int) float64 { return scale * b[i] })
		op := opOf(t, trans)
		r := ref.Sub(bb, ref.Mul(op, x))
		cs.band("Dlatrs", tg, "solve-residual", r.MaxAbs(), float64(n)*eps*(op.NormInf()*x.MaxAbs()+bb.MaxAbs()), func() string {
			return fmt.Sprintf("n=%d", n)
		})
		if !normin {
			got := args.F64s("cnorm")
			for j := 0; j < n; j++ {
				if !vrt.RelClose(got[j], cn[j], float64(n+2)*2*eps, 0) {
					cs.fail("Dlatrs", tg, "cnorm-wrong", "n=%d: cnorm[%d]=%g, off-diagonal column 1-norm is %g", n, j, got[j], cn[j])
					break
				}
			}
		}
	}
}

func b2i(b bool) int {
	if b {
		return 1
	}
	return 0
}

// checkTriBand runs Dtbtrs and Dlatbs on a triangular band input.
func (h *H) checkTriBand(id string, seedIdx, n, kd int, ul blas.Uplo, dg blas.Diag, singular bool) {
	rng := h.c.RNG("tband", seedIdx)
	cs := h.newCase(id, rng)
	defer cs.done()
	upper, unit := ul == blas.Upper, dg == blas.Unit
	t := triangular(rng, n, upper, unit)
	for i := 0; i < n; i++ {
		for j := 0; j < n; j++ {
			if j-i > kd || i-j > kd {
				t.D[i*n+j] = 0
			}
		}
	}
	if singular {
		if unit || n == 0 {
			return
		}
		j := rng.Intn(n)
		t.D[j*n+j] = 0
	}
	ab := fullToBand(t, kd, upper)
	tag := triTag(ul, dg)
	for ti, trans := range []blas.Transpose{blas.NoTrans, blas.Trans, blas.ConjTrans} {
		nrhs := []int{1, 3, 0, 17}[(seedIdx+ti)%4]
		b := ref.FromFunc(n, nrhs, func(i, j int) float64 { return rng.Sym() })
		cf := cfg{pad: 7 * ((seedIdx + ti) % 2), guard: (seedIdx+ti)%4 == 2}
		tg := tag + fmt.Sprintf(" trans=%c", trans)
		fl := D{"uplo": int(ul), "diag": int(dg), "trans": int(trans)}
		args, res := cs.call("Dtbtrs", tg, D{"n": n, "kd": kd, "nrhs": nrhs}, fl, cf, func(x *lapackgen.Args) {
			setMat(x, "a", ab)
			setMat(x, "b", b)
		})
		if args == nil || n == 0 {
			continue
		}
		x := getMat(args, "b")
		if singular {
			if res.OK {
				cs.fail("Dtbtrs", tg, "ok-true-on-exactly-singular", "n=%d kd=%d", n, kd)
			}
			if ref.MaxDiff(x, b) != 0 {
				cs.fail("Dtbtrs", tg, "singular-rhs-modified", "n=%d kd=%d: \"if A is singular, no solution X is computed\" but b changed", n, kd)
			}
			continue
		}
		if !res.OK {
			cs.fail("Dtbtrs", tg, "ok-false-on-nonsingular", "n=%d kd=%d", n, kd)
			continue
		}
		if nrhs == 0 {
			continue
		}
		op := opOf(t, trans)
		r := ref.Sub(b, ref.Mul(op, x))
		cs.band("Dtbtrs", tg, "solve-residual", r.MaxAbs(), float64(kd+1)*eps*(op.NormInf()*x.MaxAbs()+b.MaxAbs()), func() string {
			return fmt.Sprintf("n=%d kd=%d nrhs=%d %v", n, kd, nrhs, cf)
		})
	}
	if singular || n == 0 {
		return
	}
	for ti, trans := range []blas.Transpose{blas.NoTrans, blas.Trans, blas.ConjTrans} {
		normin := (seedIdx+ti)%2 == 0
		tg := tag + fmt.Sprintf(" trans=%c normin=%v", trans, normin)
		fl := D{"uplo": int(ul), "diag": int(dg), "trans": int(trans), "normin": b2i(normin)}
		b := randVec(rng, n)
		cn := make([]float64, n)
		for i := 0; i < n; i++ {
			for j := 0; j < n; j++ {
				if i != j {
					cn[j] += math.Abs(t.D[i*n+j])
				}
			}
		}
		args, res := cs.call("Dlatbs", tg, D{"n": n, "kd": kd}, fl, cfg{pad: 7 * (ti % 2)}, func(x *lapackgen.Args) {
			setMat(x, "ab", ab)
			setVec(x, "x", b)
			if normin {
				setVec(x, "cnorm", cn)
			}
		})
		if args == nil {
			continue
		}
		scale := res.F
		if !(scale > 0 && scale <= 1) {
			cs.fail("Dlatbs", tg, "scale-out-of-range", "n=%d kd=%d: scale=%v on a well scaled system", n, kd, scale)
			continue
		}
		x := ref.FromFunc(n, 1, func(i, j int) float64 { return args.F64s("x")[i] })
		bb := ref.FromFunc(n, 1, func(i, j int) float64 { return scale * b[i] })
		op := opOf(t, trans)
		r := ref.Sub(bb, ref.Mul(op, x))
		cs.band("Dlatbs", tg, "solve-residual", r.MaxAbs(), float64(kd+1)*eps*(op.NormInf()*x.MaxAbs()+bb.MaxAbs()), func() string {
			return fmt.Sprintf("n=%d kd=%d", n, kd)
		})
		if !normin {
			got := args.F64s("cnorm")
			for j := 0; j < n; j++ {
				if !vrt.RelClose(got[j], cn[j], float64(kd+2)*2*eps, 0) {
					cs.fail("Dlatbs", tg, "cnorm-wrong", "n=%d kd=%d: cnorm[%d]=%g, off-diagonal column 1-norm is %g", n, kd, j, got[j], cn[j])
					break
				}
			}
		}
	}
}

func kdList(n int) []int {
	l := []int{0, 1, 2}
	if n-1 > 2 {
		l = append(l, n-1)
	}
	return l
}

func (h *H) planTri(add addFn) {
	idx := 0
	uplos := []blas.Uplo{blas.Upper, blas.Lower}
	diags := []blas.Diag{blas.NonUnit, blas.Unit}
	for rep := 0; rep < h.reps(); rep++ {
		for _, n := range h.squares() {
			for _, ul := range uplos {
				for _, dg := range diags {
					for _, sing := range []bool{false, true} {
						if sing && (dg == blas.Unit || n == 0) {
							continue
						}
						idx++
						i := idx
						n, ul, dg, sing := n, ul, dg, sing
						id := fmt.Sprintf("Tri n=%d uplo=%c diag=%c singular=%v #%d", n, ul, dg, sing, i)
						add("tri", n*n*n, func() { h.checkTri(id, i, n, ul, dg, sing, h.thorough()) })
					}
				}
			}
		}
		// band
		for si, n := range h.squares() {
			if n > 70 && !h.thorough() {
				continue
			}
			for ki, kd := range kdList(n) {
				for ui, ul := range uplos {
					for di, dg := range diags {
						if !h.thorough() && (si+ki+ui+di)%2 == 1 {
							continue
						}
						sing := (si+ki)%3 == 0 && dg == blas.NonUnit && n > 0
						idx++
						i := idx
						n, kd, ul, dg := n, kd, ul, dg
						id := fmt.Sprintf("TriBand n=%d kd=%d uplo=%c diag=%c singular=%v #%d", n, kd, ul, dg, sing, i)
						add("triband", n*n*n, func() { h.checkTriBand(id, i, n, kd, ul, dg, sing) })
					}
				}
			}
		}
	}
}
