package main

import (
	"fmt"
	"math"

	"gonum.org/v1/gonum/verifx/c02/lapackgen"
	"gonum.org/v1/gonum/verifx/ref"
	"gonum.org/v1/gonum/verifx/vrt"
)

type qrKind struct {
	kind      string // QR, LQ, RQ, QL
	unblocked string
	blocked   string // "" if gonum has none
}

var qrKinds = []qrKind{
	{"QR", "Dgeqr2", "Dgeqrf"},
	{"LQ", "Dgelq2", "Dgelqf"},
	{"RQ", "Dgerq2", "Dgerqf"},
	{"QL", "Dgeql2", ""},
}

type qrResult struct {
	name string
	f    *ref.M
	tau  []float64
}

// reconstructQR multiplies the factors back: QR: Q*R, QL: Q*L, LQ: L*Q, RQ: R*Q.
func reconstructQR(kind string, q, t *ref.M) *ref.M {
	if kind == "QR" || kind == "QL" {
		return ref.Mul(q, t)
	}
	return ref.Mul(t, q)
}

// lwMid is an extra workspace class: halfway between the minimum and the
// queried optimum, which makes the blocked routines fall back to a smaller
// block size nb = lwork / n.
const lwMid lwClass = 3

func (cs *Case) callLW(routine, tag string, dims, flags D, cf cfg, mid bool, fill func(a *lapackgen.Args)) (*lapackgen.Args, lapackgen.Result) {
	if !mid {
		return cs.call(routine, tag, dims, flags, cf, fill)
	}
	r := lapackgen.Get(routine)
	p := params(dims, flags, cf)
	lw, ok := cs.query(r, tag, p)
	if !ok {
		return nil, lapackgen.Result{}
	}
	probe := r.Build(p)
	minL := probe.Arg("lwork").Min
	probe.Release()
	return cs.callFixedLW(routine, tag, dims, flags, cf, (minL+lw)/2, fill)
}

// callFixedLW is call with an explicit lwork value.
func (cs *Case) callFixedLW(routine, tag string, dims, flags D, cf cfg, lwork int, fill func(a *lapackgen.Args)) (*lapackgen.Args, lapackgen.Result) {
	h := cs.h
	r := lapackgen.Get(routine)
	p := params(dims, flags, cf)
	p.LWork = lwork
	a := r.Build(p)
	cs.args = append(cs.args, a)
	if fill != nil {
		fill(a)
	}
	a.Snapshot()
	desc := cs.id + " " + a.Describe() + " " + fmt.Sprintf("ld=min+%d lwork=mid", cf.pad)
	h.c.LastCase(desc)
	var res lapackgen.Result
	pn := vrt.Try(func() { res = a.Invoke(h.impl) })
	h.count(routine)
	h.c.Eval(evalKey(routine, tag, dims, cf)+"|mid", nontrivial(dims))
	if pn != nil {
		h.c.Violation(sig(routine, tag, "panic:"+normMsg(pn.Msg)), "valid arguments rejected or faulted: "+desc+": "+pn.Msg+"\n"+pn.Stack, replayOf(a))
		return nil, res
	}
	if tr := a.Trespasses(false); len(tr) > 0 {
		h.c.Violation(sig(routine, tag, "trespass:"+tr[0].Arg+":"+tr[0].Kind),
			fmt.Sprintf("%s: storage the routine must not touch changed: %v", desc, tr), replayOf(a))
	}
	return a, res
}

// checkQR runs the four orthogonal factorizations (unblocked and blocked,
// all workspace classes) and the Dorg* generators on one m x n input.
func (h *H) checkQR(id string, seedIdx, m, n int, cls string, deep bool) {
	rng := h.c.RNG("qr", seedIdx)
	cs := h.newCase(id, rng)
	defer cs.done()
	a, kappa := general(rng, cls, m, n)
	k := min(m, n)
	dims := D{"m": m, "n": n}
	anorm := a.NormFro()

	for _, qk := range qrKinds {
		type run struct {
			routine string
			cf      cfg
			mid     bool
		}
		runs := []run{{qk.unblocked, cfg{}, false}, {qk.unblocked, cfg{pad: 7, guard: true}, false}}
		if qk.blocked != "" {
			runs = append(runs,
				run{qk.blocked, cfg{lw: lwMin}, false},
				run{qk.blocked, cfg{lw: lwQuery}, false},
				run{qk.blocked, cfg{pad: 7, lw: lwQuery13}, false},
				run{qk.blocked, cfg{pad: 7}, true},
			)
			if deep {
				runs = append(runs, run{qk.blocked, cfg{lw: lwQuery, guard: true}, false})
			}
		}
		order := m
		if qk.kind == "LQ" || qk.kind == "RQ" {
			order = n
		}
		var results []qrResult
		for _, r := range runs {
			tag := ""
			if r.routine == qk.blocked {
				tag = "lwork=" + r.cf.lw.String()
				if r.mid {
					tag = "lwork=mid"
				}
			}
			args, _ := cs.callLW(r.routine, tag, dims, nil, r.cf, r.mid, func(x *lapackgen.Args) { setMat(x, "a", a) })
			if args == nil || k == 0 {
				continue
			}
			f := getMat(args, "a")
			tau := cloneF(args.F64s("tau")[:k])
			what := fmt.Sprintf("%s %v m=%d n=%d class=%s", tag, r.cf, m, n, cls)
			if f.HasNaN() || hasNaN(tau) {
				cs.fail(r.routine, tag, "nan-in-factors", "%s", what)
				continue
			}
			q := formQ(qk.kind, f, tau, k)
			cs.band(r.routine, tag, "qr-orthogonality", ref.OrthoResid(q), float64(order)*eps, func() string { return what })
			t := triFactor(qk.kind, f)
			resid := ref.MaxDiff(a, reconstructQR(qk.kind, q, t))
			cs.band(r.routine, tag, "qr-reconstruction", resid, float64(order)*(eps*anorm+subFloor), func() string { return what })
			results = append(results, qrResult{r.routine + " " + tag + " " + r.cf.String(), f, tau})
		}
		// Differential: Householder QR with the LAPACK sign convention is
		// unique for full-rank input; forward error ~ kappa * u.
		// That needs the "natural" shape (QR, QL: m >= n; LQ, RQ: m <= n):
		// otherwise the factors are determined by a k x k sub-block of A whose
		// conditioning is not controlled by kappa(A).
		natural := m >= n
		if qk.kind == "LQ" || qk.kind == "RQ" {
			natural = m <= n
		}
		if natural && !math.IsInf(kappa, 0) && len(results) > 1 {
			base := results[0]
			for _, r := range results[1:] {
				d := math.Max(ref.MaxDiff(r.f, base.f)/math.Max(base.f.MaxAbs(), 1e-300), maxDiffVec(r.tau, base.tau))
				cs.band(qk.unblocked+"~"+qk.blocked, "", "qr-differential", d, float64(order)*eps*kappa, func() string {
					return fmt.Sprintf("%s m=%d n=%d class=%s: %s vs %s", qk.kind, m, n, cls, r.name, base.name)
				})
			}
		}
		if len(results) == 0 {
			continue
		}
		cs.checkOrg(qk.kind, results[0].f, results[0].tau, seedIdx, deep)
	}
}

func maxDiffVec(a, b []float64) float64 {
	var d float64
	for i := range a {
		x := math.Abs(a[i] - b[i])
		if math.IsNaN(x) {
			return math.Inf(1)
		}
		d = math.Max(d, x)
	}
	return d
}

// checkOrg generates Q explicitly with the Dorg* routines from the
// reflectors (f, tau) of an m x n factorisation and compares with the
// product of elementary reflectors formed by the oracle.
func (cs *Case) checkOrg(kind string, f *ref.M, tau []float64, seedIdx int, deep bool) {
	m, n := f.R, f.C
	k := min(m, n)
	type gen struct {
		routine string
		cf      cfg
		mid     bool
	}
	var gens []gen
	switch kind {
	case "QR":
		gens = []gen{{"Dorg2r", cfg{}, false}, {"Dorgqr", cfg{lw: lwMin}, false}, {"Dorgqr", cfg{lw: lwQuery, pad: 7}, false}, {"Dorgqr", cfg{lw: lwQuery13}, false}, {"Dorgqr", cfg{}, true}, {"Dorg2r", cfg{pad: 7, guard: true}, false}}
	case "LQ":
		gens = []gen{{"Dorgl2", cfg{}, false}, {"Dorglq", cfg{lw: lwMin}, false}, {"Dorglq", cfg{lw: lwQuery, pad: 7}, false}, {"Dorglq", cfg{lw: lwQuery13}, false}, {"Dorglq", cfg{}, true}, {"Dorgl2", cfg{pad: 7, guard: true}, false}}
	case "QL":
		gens = []gen{{"Dorg2l", cfg{}, false}, {"Dorgql", cfg{lw: lwMin}, false}, {"Dorgql", cfg{lw: lwQuery, pad: 7}, false}, {"Dorgql", cfg{lw: lwQuery13}, false}, {"Dorgql", cfg{}, true}, {"Dorg2l", cfg{pad: 7, guard: true}, false}}
	case "RQ":
		gens = []gen{{"Dorgr2", cfg{}, false}, {"Dorgr2", cfg{pad: 7, guard: true}, false}}
	}
	// Shapes of the generated Q: (rows/cols kept, reflectors used).
	// column kinds (QR, QL): Q is m x nq, k <= nq <= m.
	// row kinds (LQ, RQ):    Q is mq x n, k <= mq <= n.
	outer := m
	if kind == "LQ" || kind == "RQ" {
		outer = n
	}
	type shape struct{ nq, kk int }
	shapes := []shape{{k, k}}
	if outer > k {
		shapes = append(shapes, shape{outer, k})
	}
	if k > 1 {
		shapes = append(shapes, shape{k, k / 2})
	}
	if deep {
		shapes = append(shapes, shape{k, 0})
		if outer > k+1 {
			shapes = append(shapes, shape{(outer + k) / 2, k})
		}
	}
	for si, sh := range shapes {
		nq, kk := sh.nq, sh.kk
		// Build the input array and the expected Q.
		var ain *ref.M
		var tsub []float64
		var dims D
		switch kind {
		case "QR": // first kk reflectors in the first kk columns of an m x nq array
			ain = ref.FromFunc(m, nq, func(i, j int) float64 {
				if j < kk {
					return f.D[i*n+j]
				}
				return 0
			})
			tsub = tau[:kk]
			dims = D{"m": m, "n": nq, "k": kk}
		case "LQ":
			ain = ref.FromFunc(nq, n, func(i, j int) float64 {
				if i < kk {
					return f.D[i*n+j]
				}
				return 0
			})
			tsub = tau[:kk]
			dims = D{"m": nq, "n": n, "k": kk}
		case "QL": // last kk reflectors: original column n-kk+i -> column nq-kk+i
			ain = ref.FromFunc(m, nq, func(i, j int) float64 {
				if j >= nq-kk {
					return f.D[i*n+(n-kk+(j-(nq-kk)))]
				}
				return 0
			})
			tsub = tau[k-kk:]
			dims = D{"m": m, "n": nq, "k": kk}
		case "RQ": // last kk reflectors: original row m-kk+i -> row nq-kk+i
			ain = ref.FromFunc(nq, n, func(i, j int) float64 {
				if i >= nq-kk {
					return f.D[(m-kk+(i-(nq-kk)))*n+j]
				}
				return 0
			})
			tsub = tau[k-kk:]
			dims = D{"m": nq, "n": n, "k": kk}
		}
		full := formQ(kind, ain, tsub, kk)
		var want *ref.M
		switch kind {
		case "QR":
			want = subCols(full, 0, nq)
		case "QL":
			want = subCols(full, m-nq, m)
		case "LQ":
			want = subRows(full, 0, nq)
		case "RQ":
			want = subRows(full, n-nq, n)
		}
		refl := lapackgen.ReflectorRef(kind, ain.R, ain.C, kk)
		var outs []*ref.M
		for gi, g := range gens {
			if !deep && (gi+si+seedIdx)%2 == 1 && gi > 1 {
				continue
			}
			tag := ""
			if lapackgen.Get(g.routine).HasLWork {
				tag = "lwork=" + g.cf.lw.String()
				if g.mid {
					tag = "lwork=mid"
				}
			}
			args, _ := cs.callLW(g.routine, tag, dims, nil, g.cf, g.mid, func(x *lapackgen.Args) {
				// Only the reflector vectors are input; everything else
				// stays tainted and must be overwritten, not read.
				v := x.Mat("a")
				for i := 0; i < v.R; i++ {
					for j := 0; j < v.C; j++ {
						if refl(i, j) {
							v.Set(i, j, ain.D[i*ain.C+j])
						}
					}
				}
				setVec(x, "tau", tsub)
			})
			if args == nil || ain.R == 0 || ain.C == 0 {
				continue
			}
			got := getMat(args, "a")
			what := fmt.Sprintf("%s %v from %s of %dx%d: Q is %dx%d with k=%d", tag, g.cf, kind, m, n, ain.R, ain.C, kk)
			cs.band(g.routine, tag, "org-matches-reflector-product", ref.MaxDiff(got, want), float64(outer)*eps, func() string { return what })
			outs = append(outs, got)
		}
		_ = outs
	}
}

func (h *H) planQR(add addFn) {
	idx := 0
	one := func(m, n int, cls string) {
		idx++
		i := idx
		id := fmt.Sprintf("QR m=%d n=%d class=%s #%d", m, n, cls, i)
		add("qr", 6*m*n*max(m, n), func() { h.checkQR(id, i, m, n, cls, h.thorough()) })
	}
	for rep := 0; rep < h.reps(); rep++ {
		for si, n := range h.squares() {
			if h.thorough() {
				for _, cls := range generalClasses {
					one(n, n, cls)
				}
				continue
			}
			one(n, n, generalClasses[si%len(generalClasses)])
		}
		for si, mn := range h.rects() {
			if h.thorough() {
				for _, cls := range generalClasses {
					one(mn[0], mn[1], cls)
				}
				continue
			}
			one(mn[0], mn[1], generalClasses[(si+1)%len(generalClasses)])
		}
	}
}
