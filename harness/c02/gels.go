package main

import (
	"fmt"
	"math"

	"gonum.org/v1/gonum/blas"
	"gonum.org/v1/gonum/verifx/c02/lapackgen"
	"gonum.org/v1/gonum/verifx/ref"
)

// checkGels runs Dgels on one (A, B) in all workspace classes.
//
// With op(A) = A (NoTrans) or Aᵀ (Trans) of shape p x q, B is p x nrhs and X
// is q x nrhs, both held in the max(m,n) x nrhs array b. (Case 4 of the doc
// comment writes ||A*X - B|| for trans == Trans and m < n; the operand
// shapes it states, and the reference, mean Aᵀ*X - B.)
//
//	p >= q: least squares; oracle: normal-equation residual
//	        ||opᵀ (B - op X)|| <= c p u ||op|| (||op|| ||X|| + ||B||)
//	p <  q: minimum norm; oracle: consistency ||B - op X|| <= c q u (||op|| ||X|| + ||B||)
//	        and, for the well-conditioned class, X = opᵀ (op opᵀ)⁻¹ B.
//
// cls "zero" makes A exactly rank deficient by a zero column (m >= n) or a
// zero row (m < n): Householder QR / LQ leaves it exactly zero, the
// triangular factor has an exactly zero diagonal entry and Dgels must
// return false.
func (h *H) checkGels(id string, seedIdx, m, n, nrhs int, trans blas.Transpose, cls string, deep bool) {
	rng := h.c.RNG("gels", seedIdx)
	cs := h.newCase(id, rng)
	defer cs.done()
	tag := fmt.Sprintf("trans=%c", trans)
	var a *ref.M
	kappa := 0.0
	singular := false
	scaleA, scaleB := 0, 0 // binary exponents applied to A and B on the way in
	if cls == "zero" {
		if min(m, n) == 0 {
			return
		}
		singular = true
		a = ref.FromFunc(m, n, func(i, j int) float64 { return float64(rng.Intn(7) - 3) })
		if m >= n {
			j := rng.Intn(n)
			for i := 0; i < m; i++ {
				a.D[i*n+j] = 0
			}
		} else {
			i := rng.Intn(m)
			for j := 0; j < n; j++ {
				a.D[i*n+j] = 0
			}
		}
		if a.MaxAbs() == 0 {
			// an all-zero matrix takes the documented "anrm == 0" early return
			// (ok = true, B zeroed); keep this class about the singular R.
			return
		}
	} else if ea, eb, ok := gelsScaling(cls); ok {
		a, kappa = general(rng, clsWell, m, n)
		scaleA, scaleB = ea, eb
		// A scaled into the subnormal range is rounded to the subnormal grid:
		// the rounded matrix is the input, so the oracle uses it too.
		a = ldexpM(ldexpM(a, ea), -ea)
	} else {
		a, kappa = general(rng, cls, m, n)
	}
	op := opOf(a, trans)
	p, q := op.R, op.C
	b := ref.FromFunc(p, nrhs, func(i, j int) float64 { return rng.Sym() })
	b = ldexpM(ldexpM(b, scaleB), -scaleB)
	dims := D{"m": m, "n": n, "nrhs": nrhs}
	flags := D{"trans": int(trans)}
	var xs []*ref.M
	cfgs := []cfg{{lw: lwMin}, {lw: lwQuery}, {lw: lwQuery13, pad: 7}}
	if deep {
		cfgs = append(cfgs, cfg{lw: lwMin, pad: 7, guard: true})
	}
	if scaleA != 0 || scaleB != 0 {
		// One signature per rescaling path of Dgels, whatever identity and
		// workspace class exposes a wrong scale of the solution.
		cfgs = []cfg{{lw: lwMin}, {lw: lwQuery, pad: 7}}
		cs.sigClause = "extreme-scale-solution-wrong"
		switch {
		case scaleA > 0:
			cs.sigTag = "max|a_ij| > bignum"
		case m < n && trans != blas.NoTrans:
			cs.sigTag = "m<n trans=T rescaling"
		case scaleA < 0:
			cs.sigTag = "max|a_ij| < smlnum"
		case scaleB > 0:
			cs.sigTag = "max|b_ij| > bignum"
		default:
			cs.sigTag = "max|b_ij| < smlnum"
		}
	}
	for _, cf := range cfgs {
		tg := tag + " lwork=" + cf.lw.String()
		args, res := cs.call("Dgels", tg, dims, flags, cf, func(x *lapackgen.Args) {
			setMat(x, "a", ldexpM(a, scaleA))
			// rows p..max(m,n) of b are not input: they stay tainted when
			// they are not overwritten by the solution.
			v := x.Mat("b")
			for i := 0; i < p; i++ {
				for j := 0; j < nrhs; j++ {
					v.Set(i, j, math.Ldexp(b.D[i*nrhs+j], scaleB))
				}
			}
		})
		if args == nil {
			continue
		}
		what := fmt.Sprintf("%v m=%d n=%d nrhs=%d class=%s", cf, m, n, nrhs, cls)
		if min(m, n) == 0 || nrhs == 0 {
			// Quick return: ok, and the q x nrhs solution of an empty
			// problem is zero.
			if !res.OK {
				cs.fail("Dgels", tg, "ok-false-on-empty", "%s", what)
			}
			if nrhs > 0 && q > 0 {
				if x := subRows(getMat(args, "b"), 0, q); x.MaxAbs() != 0 {
					cs.fail("Dgels", tg, "empty-problem-solution-not-zero", "%s", what)
				}
			}
			continue
		}
		if singular {
			if res.OK {
				cs.fail("Dgels", tg, "ok-true-on-exactly-singular", "%s: A has a zero column/row, R has an exactly zero diagonal entry", what)
			}
			continue
		}
		if !res.OK {
			cs.fail("Dgels", tg, "ok-false-on-full-rank", "%s", what)
			continue
		}
		// Undo the exact power-of-two scaling: the solution of the scaled
		// problem is 2^(scaleB-scaleA) times that of the unscaled one.
		x := ldexpM(subRows(getMat(args, "b"), 0, q), scaleA-scaleB)
		if x.HasNaN() {
			cs.fail("Dgels", tg, "nan-in-solution", "%s", what)
			continue
		}
		xs = append(xs, x)
		r := ref.Sub(b, ref.Mul(op, x))
		opn := op.NormFro()
		if p >= q {
			ne := ref.Mul(op.T(), r)
			cs.band("Dgels", tg, "gels-normal-equations", ne.MaxAbs(), float64(p)*eps*opn*(opn*x.MaxAbs()+b.MaxAbs()), func() string { return what })
		} else {
			cs.band("Dgels", tg, "solve-residual", r.MaxAbs(), float64(q)*eps*(opn*x.MaxAbs()+b.MaxAbs()), func() string { return what })
			if cls == clsWell {
				y, ok := ref.Solve(ref.Mul(op, op.T()), b)
				if ok {
					xr := ref.Mul(op.T(), y)
					cs.band("Dgels", tg, "gels-minimum-norm", ref.MaxDiff(x, xr), float64(q)*eps*kappa*kappa*xr.MaxAbs(), func() string { return what })
				}
			}
		}
	}
	if cls == clsWell || cls == clsSpec {
		for i := 1; i < len(xs); i++ {
			cs.band("Dgels", tag, "gels-differential", ref.MaxDiff(xs[i], xs[0]), float64(max(p, q))*eps*kappa*kappa*max(xs[0].MaxAbs(), 1e-300), func() string {
				return fmt.Sprintf("m=%d n=%d nrhs=%d class=%s workspace class %d vs min", m, n, nrhs, cls, i)
			})
		}
	}
}

// gelsScaling maps the extreme-scale classes to the binary exponents applied
// to A and B. Dgels rescales operands whose largest entry is below
// smlnum = 2^-970 or above bignum = 2^970 and must undo that on the solution.
func gelsScaling(cls string) (ea, eb int, ok bool) {
	switch cls {
	case "Btiny":
		return 0, -985, true
	case "Bhuge":
		return 0, hugeExp, true
	case "ABtiny":
		return -985, -985, true
	case "ABhuge":
		return hugeExp, hugeExp, true
	case "ABsub": // both in the subnormal range (Dlascl scales them up)
		return subExp, subExp, true
	case "Atiny":
		return -985, -400, true
	case "Ahuge":
		return hugeExp, 400, true
	}
	return 0, 0, false
}

func ldexpM(a *ref.M, e int) *ref.M {
	if e == 0 {
		return a
	}
	b := a.Clone()
	for i, v := range b.D {
		b.D[i] = math.Ldexp(v, e)
	}
	return b
}

func (h *H) planGels(add addFn) {
	idx := 0
	classes := []string{clsRand, clsWell, clsSpec, clsGraded, "zero"}
	shapes := [][2]int{{0, 3}, {3, 0}, {1, 1}, {5, 3}, {3, 5}, {17, 17}, {33, 20}, {20, 33}, {70, 40}, {40, 70}, {140, 131}, {131, 140}, {130, 130}}
	if h.thorough() {
		shapes = append(shapes, [][2]int{{2, 2}, {8, 8}, {64, 33}, {33, 64}, {65, 65}, {129, 64}, {64, 129}, {200, 129}, {129, 200}, {200, 200}}...)
	}
	// Extreme scales: all four (shape, trans) arms.
	for rep := 0; rep < h.reps(); rep++ {
		for _, mn := range [][2]int{{9, 5}, {5, 9}, {6, 6}, {40, 20}, {20, 40}} {
			for _, trans := range []blas.Transpose{blas.NoTrans, blas.Trans, blas.ConjTrans} {
				for _, cls := range []string{"Btiny", "Bhuge", "ABtiny", "ABhuge", "Atiny", "Ahuge", "ABsub"} {
					idx++
					i := idx
					m, n, trans, cls := mn[0], mn[1], trans, cls
					id := fmt.Sprintf("Gels m=%d n=%d nrhs=2 trans=%c class=%s #%d", m, n, trans, cls, i)
					add("gels", 4*m*n*max(m, n), func() { h.checkGels(id, i, m, n, 2, trans, cls, h.thorough()) })
				}
			}
		}
	}
	for rep := 0; rep < h.reps(); rep++ {
		for si, mn := range shapes {
			for ti, trans := range []blas.Transpose{blas.NoTrans, blas.Trans, blas.ConjTrans} {
				nrhsL := []int{1, 3}
				if h.thorough() {
					nrhsL = []int{0, 1, 3, 17}
				}
				for ni, nrhs := range nrhsL {
					cl := classes
					if !h.thorough() {
						cl = []string{classes[(si+ti+ni)%len(classes)], classes[(si+ti+ni+2)%len(classes)]}
					}
					for _, cls := range cl {
						idx++
						i := idx
						m, n, trans, nrhs, cls := mn[0], mn[1], trans, nrhs, cls
						id := fmt.Sprintf("Gels m=%d n=%d nrhs=%d trans=%c class=%s #%d", m, n, nrhs, trans, cls, i)
						add("gels", 4*m*n*max(m, n), func() { h.checkGels(id, i, m, n, nrhs, trans, cls, h.thorough()) })
					}
				}
			}
		}
	}
}
