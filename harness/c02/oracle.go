package main

import (
	"math"

	"gonum.org/v1/gonum/verifx/ref"
)

// All arithmetic in this file is done by package ref or by plain loops; no
// gonum routine is called from an oracle.

// rightMulReflector computes q := q * (I - tau v vᵀ) for a square q.
func rightMulReflector(q *ref.M, v []float64, tau float64) {
	if tau == 0 {
		return
	}
	n := q.C
	for i := 0; i < q.R; i++ {
		var s float64
		row := q.D[i*n : i*n+n]
		for j, vj := range v {
			if vj != 0 {
				s += row[j] * vj
			}
		}
		s *= tau
		if s == 0 {
			continue
		}
		for j, vj := range v {
			if vj != 0 {
				row[j] -= s * vj
			}
		}
	}
}

// reflector returns the i-th Householder vector (with its explicit unit
// entry) of a factorisation of kind QR/LQ/QL/RQ stored in the m x n array f
// with k reflectors, following the doc comments of Dgeqr2, Dgelq2, Dgeql2
// and Dgerq2. The vector has length m (QR, QL) or n (LQ, RQ).
func reflector(kind string, f *ref.M, k, i int) []float64 {
	m, n := f.R, f.C
	switch kind {
	case "QR":
		v := make([]float64, m)
		v[i] = 1
		for r := i + 1; r < m; r++ {
			v[r] = f.D[r*n+i]
		}
		return v
	case "LQ":
		v := make([]float64, n)
		v[i] = 1
		for c := i + 1; c < n; c++ {
			v[c] = f.D[i*n+c]
		}
		return v
	case "QL":
		v := make([]float64, m)
		p := m - k + i
		v[p] = 1
		for r := 0; r < p; r++ {
			v[r] = f.D[r*n+(n-k+i)]
		}
		return v
	case "RQ":
		v := make([]float64, n)
		p := n - k + i
		v[p] = 1
		for c := 0; c < p; c++ {
			v[c] = f.D[(m-k+i)*n+c]
		}
		return v
	}
	panic("c02: bad kind")
}

// formQ returns the full square orthogonal matrix defined by k reflectors:
//
//	QR, RQ: Q = H_0 H_1 ... H_{k-1}
//	LQ, QL: Q = H_{k-1} ... H_1 H_0
func formQ(kind string, f *ref.M, tau []float64, k int) *ref.M {
	order := f.R
	if kind == "LQ" || kind == "RQ" {
		order = f.C
	}
	q := ref.Eye(order)
	if kind == "QR" || kind == "RQ" {
		for i := 0; i < k; i++ {
			rightMulReflector(q, reflector(kind, f, k, i), tau[i])
		}
	} else {
		for i := k - 1; i >= 0; i-- {
			rightMulReflector(q, reflector(kind, f, k, i), tau[i])
		}
	}
	return q
}

// triFactor extracts the triangular / trapezoidal factor of the
// factorisation kind from the m x n array f (the rest is zero).
//
//	QR: R upper trapezoidal (j >= i)
//	LQ: L lower trapezoidal (j <= i)
//	QL: L with l_ij stored for j - (n-m) <= i, i.e. i - j >= m - n  (m >= n: lower trapezoid at the bottom; m < n: right part)
//	RQ: R with r_ij stored for j - i >= n - m
func triFactor(kind string, f *ref.M) *ref.M {
	m, n := f.R, f.C
	t := ref.New(m, n)
	for i := 0; i < m; i++ {
		for j := 0; j < n; j++ {
			keep := false
			switch kind {
			case "QR":
				keep = j >= i
			case "LQ":
				keep = j <= i
			case "QL":
				keep = i-j >= m-n
			case "RQ":
				keep = j-i >= n-m
			}
			if keep {
				t.D[i*n+j] = f.D[i*n+j]
			}
		}
	}
	return t
}

func maxAbsSlice(x []float64) float64 {
	var m float64
	for _, v := range x {
		if math.IsNaN(v) {
			return math.NaN()
		}
		if a := math.Abs(v); a > m {
			m = a
		}
	}
	return m
}

// colAbsSums returns the vector of absolute column sums.
func colAbsSums(a *ref.M) []float64 {
	s := make([]float64, a.C)
	for i := 0; i < a.R; i++ {
		for j := 0; j < a.C; j++ {
			s[j] += math.Abs(a.D[i*a.C+j])
		}
	}
	return s
}

// subCols returns columns [c0,c1) of a.
func subCols(a *ref.M, c0, c1 int) *ref.M {
	return ref.FromFunc(a.R, c1-c0, func(i, j int) float64 { return a.D[i*a.C+c0+j] })
}

// subRows returns rows [r0,r1) of a.
func subRows(a *ref.M, r0, r1 int) *ref.M {
	return ref.FromFunc(r1-r0, a.C, func(i, j int) float64 { return a.D[(r0+i)*a.C+j] })
}

// applyRowSwaps applies the LAPACK row interchange sequence ipiv to a copy
// of a, forwards (i = 0..len-1) or backwards.
func applyRowSwaps(a *ref.M, ipiv []int, forward bool) *ref.M {
	b := a.Clone()
	n := b.C
	swap := func(i int) {
		p := ipiv[i]
		if p == i {
			return
		}
		for j := 0; j < n; j++ {
			b.D[i*n+j], b.D[p*n+j] = b.D[p*n+j], b.D[i*n+j]
		}
	}
	if forward {
		for i := 0; i < len(ipiv); i++ {
			swap(i)
		}
	} else {
		for i := len(ipiv) - 1; i >= 0; i-- {
			swap(i)
		}
	}
	return b
}

// symFromTri builds the full symmetric matrix from the stored triangle t
// (zeros elsewhere).
func symFromTri(t *ref.M, upper bool) *ref.M {
	n := t.R
	s := ref.New(n, n)
	for i := 0; i < n; i++ {
		for j := 0; j < n; j++ {
			if (upper && j >= i) || (!upper && j <= i) {
				s.D[i*n+j] = t.D[i*n+j]
				s.D[j*n+i] = t.D[i*n+j]
			}
		}
	}
	return s
}

// isPerm reports whether p is a permutation of 0..len(p)-1.
func isPerm(p []int) bool {
	seen := make([]bool, len(p))
	for _, v := range p {
		if v < 0 || v >= len(p) || seen[v] {
			return false
		}
		seen[v] = true
	}
	return true
}

// norm1Inv returns the 1-norm of a⁻¹ computed by the reference LU solve
// (with iterative refinement); ok is false for an exactly singular a.
func norm1Inv(a *ref.M) (float64, bool) {
	inv, ok := ref.Inverse(a)
	if !ok {
		return 0, false
	}
	return inv.Norm1(), true
}

// bandToFull expands gonum's row-major symmetric / triangular band storage
// (n rows, kd+1 stored columns, see lapackgen.BandRef) into a full matrix
// holding only the stored triangle.
func bandToFull(ab *ref.M, n, kd int, upper bool) *ref.M {
	a := ref.New(n, n)
	for i := 0; i < n; i++ {
		for c := 0; c <= kd; c++ {
			var j int
			if upper {
				j = i + c
			} else {
				j = i - kd + c
			}
			if j < 0 || j >= n {
				continue
			}
			a.D[i*n+j] = ab.D[i*(kd+1)+c]
		}
	}
	return a
}

// fullToBand is the inverse of bandToFull for the stored triangle of a.
func fullToBand(a *ref.M, kd int, upper bool) *ref.M {
	n := a.R
	ab := ref.New(n, kd+1)
	for i := 0; i < n; i++ {
		for c := 0; c <= kd; c++ {
			var j int
			if upper {
				j = i + c
			} else {
				j = i - kd + c
			}
			if j < 0 || j >= n {
				continue
			}
			ab.D[i*(kd+1)+c] = a.D[i*n+j]
		}
	}
	return ab
}

// refPivotedCholesky runs the outer-product Cholesky algorithm with complete
// (diagonal) pivoting on a copy of the symmetric matrix a, by plain loops, and
// returns the sequence of pivots (the largest remaining diagonal entry of the
// Schur complement at each step) until a pivot is <= 0 or all n steps are
// done. It applies no tolerance: the caller compares the pivots with tol.
func refPivotedCholesky(a *ref.M) []float64 {
	n := a.R
	s := a.Clone()
	alive := make([]bool, n)
	for i := range alive {
		alive[i] = true
	}
	var piv []float64
	for step := 0; step < n; step++ {
		p, best := -1, 0.0
		for i := 0; i < n; i++ {
			if alive[i] && (p < 0 || s.D[i*n+i] > best) {
				p, best = i, s.D[i*n+i]
			}
		}
		if !(best > 0) {
			break
		}
		piv = append(piv, best)
		alive[p] = false
		for i := 0; i < n; i++ {
			if !alive[i] {
				continue
			}
			li := s.D[i*n+p] / best
			if li == 0 {
				continue
			}
			for j := 0; j < n; j++ {
				if alive[j] {
					s.D[i*n+j] -= li * s.D[p*n+j]
				}
			}
		}
	}
	return piv
}
