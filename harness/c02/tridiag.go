package main

import (
	"fmt"
	"math"

	"gonum.org/v1/gonum/verifx/c02/lapackgen"
	"gonum.org/v1/gonum/verifx/ref"
	"gonum.org/v1/gonum/verifx/vrt"
)

func tridiagFull(n int, dl, d, du []float64) *ref.M {
	a := ref.New(n, n)
	for i := 0; i < n; i++ {
		a.D[i*n+i] = d[i]
		if i+1 < n {
			a.D[(i+1)*n+i] = dl[i]
			a.D[i*n+i+1] = du[i]
		}
	}
	return a
}

// checkGtsv: general tridiagonal solve with partial pivoting.
func (h *H) checkGtsv(id string, seedIdx, n, nrhs int, cls string) {
	rng := h.c.RNG("gtsv", seedIdx)
	cs := h.newCase(id, rng)
	defer cs.done()
	nm1 := max(n-1, 0)
	dl, d, du := randVec(rng, nm1), randVec(rng, n), randVec(rng, nm1)
	singular := false
	switch cls {
	case "dominant":
		for i := range d {
			d[i] = (2 + rng.Float64()) * float64(1-2*rng.Intn(2))
		}
	case "pivoting": // small diagonal: interchanges in most steps
		for i := range d {
			d[i] *= 0.05
		}
	case "zerocol": // exactly singular: column j is zero, small integers elsewhere
		if n == 0 {
			return
		}
		singular = true
		for i := range d {
			d[i] = float64(1 + rng.Intn(3))
		}
		for i := range dl {
			dl[i] = float64(rng.Intn(5) - 2)
			du[i] = float64(rng.Intn(5) - 2)
		}
		j := rng.Intn(n)
		d[j] = 0
		if j < nm1 {
			dl[j] = 0
		}
		if j > 0 {
			du[j-1] = 0
		}
	}
	a := tridiagFull(n, dl, d, du)
	b := ref.FromFunc(n, nrhs, func(i, j int) float64 { return rng.Sym() })
	for _, cf := range []cfg{{}, {pad: 7}, {pad: 7, guard: true}} {
		args, res := cs.call("Dgtsv", "", D{"n": n, "nrhs": nrhs}, nil, cf, func(x *lapackgen.Args) {
			setVec(x, "dl", dl)
			setVec(x, "d", d)
			setVec(x, "du", du)
			setMat(x, "b", b)
		})
		if args == nil || n == 0 || nrhs == 0 {
			if args != nil && !res.OK {
				cs.fail("Dgtsv", "", "ok-false-on-empty", "n=%d nrhs=%d", n, nrhs)
			}
			continue
		}
		what := fmt.Sprintf("%v n=%d nrhs=%d class=%s", cf, n, nrhs, cls)
		if singular {
			if res.OK {
				cs.fail("Dgtsv", "", "ok-true-on-exactly-singular", "%s", what)
			}
			continue
		}
		if !res.OK {
			cs.fail("Dgtsv", "", "ok-false-on-nonsingular", "%s", what)
			continue
		}
		x := getMat(args, "b")
		r := ref.Sub(b, ref.Mul(a, x))
		cs.band("Dgtsv", "", "solve-residual", r.MaxAbs(), 8*eps*(a.NormInf()*x.MaxAbs()+b.MaxAbs()), func() string { return what })
	}
}

// checkPt: symmetric positive definite tridiagonal: Dpttrf, Dpttrs, Dptsv, Dptcon.
func (h *H) checkPt(id string, seedIdx, n, nrhs int, indefinite bool) {
	h.checkPtScaled(id, seedIdx, n, nrhs, indefinite, 0)
}

// checkPtScaled is checkPt with d and e scaled by 2^scaleExp (extreme
// magnitudes: only the factorization identity is judged then).
func (h *H) checkPtScaled(id string, seedIdx, n, nrhs int, indefinite bool, scaleExp int) {
	rng := h.c.RNG("pt", seedIdx)
	cs := h.newCase(id, rng)
	defer cs.done()
	nm1 := max(n-1, 0)
	e := randVec(rng, nm1)
	d := make([]float64, n)
	for i := range d {
		d[i] = 2.2 + rng.Float64()
	}
	if indefinite {
		if n == 0 {
			return
		}
		j := rng.Intn(n)
		if rng.Bool() {
			d[j] = -d[j]
		} else {
			d[j] = 0
		}
	}
	if indefinite && seedIdx%2 == 0 && n > 1 {
		// Exact case: A = L D Lᵀ with integer l_i, power-of-two d_i and
		// d_{n-1} = 0: every step of Dpttrf is exact and the last pivot is
		// exactly zero.
		dd := make([]float64, n)
		ll := make([]float64, nm1)
		for i := range dd {
			dd[i] = float64(int(1) << uint(rng.Intn(3)))
		}
		dd[n-1] = 0
		for i := range ll {
			ll[i] = float64(rng.Intn(5) - 2)
		}
		for i := 0; i < n; i++ {
			d[i] = dd[i]
			if i > 0 {
				d[i] += ll[i-1] * ll[i-1] * dd[i-1]
			}
			if i < nm1 {
				e[i] = ll[i] * dd[i]
			}
		}
	}
	if scaleExp != 0 {
		for i := range d {
			d[i] = math.Ldexp(d[i], scaleExp)
		}
		for i := range e {
			e[i] = math.Ldexp(e[i], scaleExp)
		}
	}
	a := tridiagFull(n, e, d, e)
	var fd, fe []float64
	for _, cf := range []cfg{{}, {guard: true}} {
		args, res := cs.call("Dpttrf", "", D{"n": n}, nil, cf, func(x *lapackgen.Args) {
			setVec(x, "d", d)
			setVec(x, "e", e)
		})
		if args == nil {
			continue
		}
		if n == 0 {
			if !res.OK {
				cs.fail("Dpttrf", "", "ok-false-on-empty", "n=0")
			}
			continue
		}
		what := fmt.Sprintf("%v n=%d", cf, n)
		if indefinite {
			if res.OK {
				cs.fail("Dpttrf", "", "ok-true-on-not-positive-definite", "%s: a diagonal entry is <= 0", what)
			}
			continue
		}
		if !res.OK {
			cs.fail("Dpttrf", "", "ok-false-on-positive-definite", "%s", what)
			continue
		}
		fd, fe = cloneF(args.F64s("d")), cloneF(args.F64s("e"))
		// A = L D Lᵀ, L unit lower bidiagonal with subdiagonal fe.
		l := ref.Eye(n)
		dm := ref.New(n, n)
		for i := 0; i < n; i++ {
			dm.D[i*n+i] = fd[i]
			if i+1 < n {
				l.D[(i+1)*n+i] = fe[i]
			}
		}
		rec := ref.Mul(ref.Mul(l, dm), l.T())
		cs.band("Dpttrf", "", "chol-reconstruction", ref.MaxDiff(a, rec), 4*(eps*a.MaxAbs()+subFloor), func() string { return what })
	}
	if scaleExp != 0 {
		return
	}
	b := ref.FromFunc(n, nrhs, func(i, j int) float64 { return rng.Sym() })
	// Dptsv on fresh data.
	for _, cf := range []cfg{{}, {pad: 7, guard: true}} {
		args, res := cs.call("Dptsv", "", D{"n": n, "nrhs": nrhs}, nil, cf, func(x *lapackgen.Args) {
			setVec(x, "d", d)
			setVec(x, "e", e)
			setMat(x, "b", b)
		})
		if args == nil || n == 0 || nrhs == 0 {
			continue
		}
		what := fmt.Sprintf("%v n=%d nrhs=%d", cf, n, nrhs)
		if indefinite {
			if res.OK {
				cs.fail("Dptsv", "", "ok-true-on-not-positive-definite", "%s", what)
			}
			continue
		}
		if !res.OK {
			cs.fail("Dptsv", "", "ok-false-on-positive-definite", "%s", what)
			continue
		}
		x := getMat(args, "b")
		r := ref.Sub(b, ref.Mul(a, x))
		cs.band("Dptsv", "", "solve-residual", r.MaxAbs(), 8*eps*(a.NormInf()*x.MaxAbs()+b.MaxAbs()), func() string { return what })
	}
	if indefinite || n == 0 || fd == nil {
		return
	}
	for _, cf := range []cfg{{}, {pad: 7}} {
		args, _ := cs.call("Dpttrs", "", D{"n": n, "nrhs": nrhs}, nil, cf, func(x *lapackgen.Args) {
			setVec(x, "d", fd)
			setVec(x, "e", fe)
			setMat(x, "b", b)
		})
		if args == nil || nrhs == 0 {
			continue
		}
		x := getMat(args, "b")
		r := ref.Sub(b, ref.Mul(a, x))
		cs.band("Dpttrs", "", "solve-residual", r.MaxAbs(), 8*eps*(a.NormInf()*x.MaxAbs()+b.MaxAbs()), func() string {
			return fmt.Sprintf("%v n=%d nrhs=%d", cf, n, nrhs)
		})
	}
	// Dptcon computes ||A⁻¹||₁ directly (no estimator): the result must
	// agree with the reference to rounding amplified by the condition number.
	ainv, ok := ref.Inverse(a)
	if !ok {
		return
	}
	an := a.Norm1()
	args, res := cs.call("Dptcon", "", D{"n": n}, nil, cfg{}, func(x *lapackgen.Args) {
		setVec(x, "d", fd)
		setVec(x, "e", fe)
		x.Arg("anorm").F = an
	})
	if args != nil {
		truth := 1 / (an * ainv.Norm1())
		kappa := an * ainv.Norm1()
		if !vrt.RelClose(res.F, truth, 64*float64(n)*eps*kappa, 0) {
			cs.fail("Dptcon", "", "rcond-wrong", "n=%d: rcond=%g, reference 1/(||A||₁||A⁻¹||₁)=%g", n, res.F, truth)
		}
	}
}

func (h *H) planTridiag(add addFn) {
	idx := 0
	ns := []int{0, 1, 2, 3, 4, 5, 6, 7, 8, 9, 16, 17, 33, 64, 100}
	if h.thorough() {
		ns = append(ns, 10, 11, 12, 13, 31, 32, 65, 129, 200)
	}
	for rep := 0; rep < h.reps(); rep++ {
		for si, n := range ns {
			for ni, nrhs := range []int{0, 1, 3, 17} {
				for ci, cls := range []string{"dominant", "pivoting", "zerocol"} {
					if !h.thorough() && (si+ni+ci)%2 == 1 {
						continue
					}
					idx++
					i := idx
					n, nrhs, cls := n, nrhs, cls
					add("gtsv", n, func() { h.checkGtsv(fmt.Sprintf("Gtsv n=%d nrhs=%d class=%s #%d", n, nrhs, cls, i), i, n, nrhs, cls) })
				}
				for _, indef := range []bool{false, true} {
					idx++
					i := idx
					n, nrhs, indef := n, nrhs, indef
					add("pt", n*n, func() {
						h.checkPt(fmt.Sprintf("Pt n=%d nrhs=%d indefinite=%v #%d", n, nrhs, indef, i), i, n, nrhs, indef)
					})
				}
			}
		}
	}
}

var _ = math.Abs
