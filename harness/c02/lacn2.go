package main

import (
	"fmt"

	"gonum.org/v1/gonum/verifx/ref"
	"gonum.org/v1/gonum/verifx/vrt"
)

// checkLacn2 drives the reverse-communication 1-norm estimator Dlacn2 with
// matrix-vector products computed by the oracle. The estimate is the 1-norm
// of A*w for some w with ||w||_1 = 1, hence a lower bound of ||A||_1
// (rigorous, up to the rounding of the products); the lower tolerance
// (est >= ||A||_1 / (limit n), band lacn2-underestimate) is empirical. The protocol must terminate
// (kase == 0) within the documented iteration limit (itmax = 5, i.e. at
// most 2*5+1+2 products).
func (h *H) checkLacn2(id string, seedIdx, n int) {
	rng := h.c.RNG("lacn2", seedIdx)
	cs := h.newCase(id, rng)
	defer cs.done()
	a := ref.FromFunc(n, n, func(i, j int) float64 { return rng.Sym() })
	switch seedIdx % 4 {
	case 1: // one dominant column
		j := rng.Intn(n)
		for i := 0; i < n; i++ {
			a.D[i*n+j] *= 50
		}
	case 2: // non-negative (first iterate is already optimal)
		for i := range a.D {
			if a.D[i] < 0 {
				a.D[i] = -a.D[i]
			}
		}
	case 3: // diagonal
		for i := 0; i < n; i++ {
			for j := 0; j < n; j++ {
				if i != j {
					a.D[i*n+j] = 0
				}
			}
		}
	}
	at := a.T()
	v := make([]float64, n)
	x := make([]float64, n)
	vrt.FillTaint(v)
	vrt.FillTaint(x)
	isgn := make([]int, n)
	var isave [3]int
	var est float64
	kase := 0
	steps := 0
	h.c.LastCase(id)
	pn := vrt.Try(func() {
		for {
			est, kase = h.impl.Dlacn2(n, v, x, isgn, est, kase, &isave)
			if kase == 0 {
				return
			}
			steps++
			if steps > 40 {
				return
			}
			op := a
			if kase == 2 {
				op = at
			}
			y := ref.Mul(op, ref.FromFunc(n, 1, func(i, j int) float64 { return x[i] }))
			copy(x, y.D)
		}
	})
	h.count("Dlacn2")
	h.c.Eval("Dlacn2|n:"+bucket(n), true)
	if pn != nil {
		h.c.Violation(sig("Dlacn2", "", "panic:"+normMsg(pn.Msg)), id+": "+pn.Msg+"\n"+pn.Stack, nil)
		return
	}
	if kase != 0 {
		cs.fail("Dlacn2", "", "no-termination", "n=%d: kase still %d after %d products", n, kase, steps)
		return
	}
	truth := a.Norm1()
	if !(est <= truth*(1+float64(4*n)*eps)) {
		cs.fail("Dlacn2", "", "estimate-above-norm", "n=%d: est=%g > ||A||_1=%g", n, est, truth)
	}
	if truth > 0 {
		cs.band("Dlacn2", "", "lacn2-underestimate", truth/est, float64(n), func() string {
			return fmt.Sprintf("n=%d: est=%g, ||A||_1=%g", n, est, truth)
		})
	}
}

func (h *H) planLacn2(add addFn) {
	idx := 0
	for rep := 0; rep < h.reps()*4; rep++ {
		for _, n := range []int{1, 2, 3, 4, 5, 8, 17, 33, 64} {
			idx++
			i := idx
			n := n
			add("lacn2", n*n, func() { h.checkLacn2(fmt.Sprintf("Lacn2 n=%d #%d", n, i), i, n) })
		}
	}
}
