package main

import (
	"fmt"
	"math"

	"gonum.org/v1/gonum/verifx/c02/lapackgen"
	"gonum.org/v1/gonum/verifx/ref"
	"gonum.org/v1/gonum/verifx/vrt"
)

// colNormsBelow returns the 2-norms of the columns of a restricted to rows
// >= offset.
func colNormsBelow(a *ref.M, offset int) []float64 {
	v := make([]float64, a.C)
	for j := 0; j < a.C; j++ {
		var mx float64
		for i := offset; i < a.R; i++ {
			mx = math.Max(mx, math.Abs(a.D[i*a.C+j]))
		}
		if mx == 0 {
			continue
		}
		var s float64
		for i := offset; i < a.R; i++ {
			t := a.D[i*a.C+j] / mx
			s += t * t
		}
		v[j] = mx * math.Sqrt(s)
	}
	return v
}

// checkPartialQR verifies the outcome of a (possibly partial) pivoted QR of
// rows offset..m: with AP = A[:, jpvt], rows < offset of the output equal
// those of AP exactly, and AP[offset:, :] = Q * T where Q is the product of
// the kb reflectors stored below the diagonal of the first kb columns of
// out[offset:, :] and T is out[offset:, :] with those reflector entries
// zeroed (for a complete factorisation T is the upper trapezoidal R).
func (cs *Case) checkPartialQR(routine, tag, what string, a, out *ref.M, jpvt []int, tau []float64, offset, kb int) {
	m, n := a.R, a.C
	if !isPerm(jpvt) {
		cs.fail(routine, tag, "jpvt-not-a-permutation", "%s: jpvt=%v", what, jpvt)
		return
	}
	ap := ref.FromFunc(m, n, func(i, j int) float64 { return a.D[i*n+jpvt[j]] })
	for i := 0; i < offset; i++ {
		for j := 0; j < n; j++ {
			if out.D[i*n+j] != ap.D[i*n+j] {
				cs.fail(routine, tag, "rows-above-offset-not-just-permuted", "%s: out[%d,%d]=%g, A[%d,jpvt[%d]]=%g", what, i, j, out.D[i*n+j], i, j, ap.D[i*n+j])
				return
			}
		}
	}
	fs := subRows(out, offset, m)
	if fs.HasNaN() {
		cs.fail(routine, tag, "nan-in-factors", "%s", what)
		return
	}
	if hasNaN(tau[:kb]) {
		// tau is tainted on entry: an entry that is still NaN was never
		// written. Report it, then judge the factorization with H_i = I for
		// those reflectors (what a caller with a zeroed tau would get), so
		// that the normwise verdict does not depend on the taint.
		cs.fail(routine, tag, "tau-entry-not-written", "%s: first unwritten entry is tau[%d]", what, firstNaN(tau[:kb]))
		tau = cloneF(tau)
		for i := range tau {
			if math.IsNaN(tau[i]) {
				tau[i] = 0
			}
		}
	}
	q := formQ("QR", fs, tau, kb)
	t := fs.Clone()
	for i := 0; i < t.R; i++ {
		for j := 0; j < kb && j < i; j++ {
			t.D[i*n+j] = 0
		}
	}
	mm := m - offset
	cs.band(routine, tag, "qr-orthogonality", ref.OrthoResid(q), float64(mm)*eps, func() string { return what })
	cs.band(routine, tag, "qr-reconstruction", ref.MaxDiff(subRows(ap, offset, m), ref.Mul(q, t)), float64(mm)*(eps*a.NormFro()+subFloor), func() string { return what })
}

// qp3Classes are the input classes of the pivoted-QR checks. Beyond the
// general ones they are chosen so that partial column norms collapse while
// the blocked part of Dgeqp3 (columns 0 .. min(m,n)-128) is still running:
// Dlaqps then stops a panel early (returns kb < nb) and the driver has to
// continue from column j+kb.
//
//	rankdef        exact product of rank min(m,n)/2
//	lowrank        exact product of rank 2..6
//	lowrank+1e-3, +1e-6, +1e-10   the same plus dense noise of that size
//	rowgraded2     row i scaled by 2^-i
//	colgraded2     column j scaled by 2^-j (in shuffled column order)
//	dupcol         every column is one of ~6 distinct columns or a sum of two, duplicated exactly
//	zerocol        a third of the columns exactly zero
var qp3Classes = []string{clsRand, clsWell, clsSpec, clsGraded, "rankdef", "lowrank", "lowrank+1e-3", "lowrank+1e-6", "lowrank+1e-10", "rowgraded2", "colgraded2", "dupcol", "zerocol"}

// qp3Collapsing are the classes on which an early panel stop is expected.
var qp3Collapsing = []string{"lowrank", "lowrank+1e-3", "lowrank+1e-6", "lowrank+1e-10", "rowgraded2", "dupcol"}

func qp3Matrix(rng *vrt.Rand, cls string, m, n int) *ref.M {
	k := min(m, n)
	rnd := func(r, c int) *ref.M { return ref.FromFunc(r, c, func(i, j int) float64 { return rng.Sym() }) }
	switch cls {
	case "rankdef":
		r := max(1, k/2)
		return ref.Mul(rnd(m, r), rnd(r, n))
	case "lowrank", "lowrank+1e-3", "lowrank+1e-6", "lowrank+1e-10":
		r := min(max(k, 1), 2+rng.Intn(5))
		a := ref.Mul(rnd(m, r), rnd(r, n))
		noise := map[string]float64{"lowrank": 0, "lowrank+1e-3": 1e-3, "lowrank+1e-6": 1e-6, "lowrank+1e-10": 1e-10}[cls]
		if noise != 0 {
			for i := range a.D {
				a.D[i] += noise * rng.Sym()
			}
		}
		return a
	case "rowgraded2":
		a := rnd(m, n)
		for i := 0; i < m; i++ {
			for j := 0; j < n; j++ {
				a.D[i*n+j] = math.Ldexp(a.D[i*n+j], -i)
			}
		}
		return a
	case "colgraded2":
		a := rnd(m, n)
		p := rng.Perm(n)
		for i := 0; i < m; i++ {
			for j := 0; j < n; j++ {
				a.D[i*n+j] = math.Ldexp(a.D[i*n+j], -p[j])
			}
		}
		return a
	case "dupcol":
		base := rnd(m, 6)
		a := ref.New(m, n)
		for j := 0; j < n; j++ {
			c1, c2 := rng.Intn(6), rng.Intn(6)
			two := rng.Intn(3) == 0
			for i := 0; i < m; i++ {
				v := base.D[i*6+c1]
				if two {
					v += base.D[i*6+c2]
				}
				a.D[i*n+j] = v
			}
		}
		return a
	case "zerocol":
		a := rnd(m, n)
		for j := 0; j < n; j++ {
			if rng.Intn(3) == 0 {
				for i := 0; i < m; i++ {
					a.D[i*n+j] = 0
				}
			}
		}
		return a
	}
	a, _ := general(rng, cls, m, n)
	return a
}

func (h *H) checkQP3(id string, seedIdx, m, n int, cls string, deep bool) {
	rng := h.c.RNG("qp3", seedIdx)
	cs := h.newCase(id, rng)
	defer cs.done()
	k := min(m, n)
	a := qp3Matrix(rng, cls, m, n)
	dims := D{"m": m, "n": n}
	anorm := a.NormFro()

	// ---- Dgeqp3 ---------------------------------------------------------------
	type run struct {
		cf    cfg
		mid   bool
		fixed bool
	}
	// Leading ("fixed") columns are only combined with generous workspace
	// here: with the documented minimum lwork = 3n+1 and many leading columns
	// Dgeqp3 of the pinned tree sizes its block from the free columns but
	// lays the workspace out for all n, and panics (reported by planDefects
	// under one signature).
	runs := []run{{cfg{lw: lwMin}, false, false}, {cfg{lw: lwQuery}, false, false}, {cfg{lw: lwQuery13, pad: 7}, false, true}, {cfg{pad: 7}, true, false}, {cfg{lw: lwMin, pad: 7, guard: true}, false, false}, {cfg{lw: lwQuery, guard: true}, false, true}}
	var diag0 []float64
	var jp0 []int
	for ri, r := range runs {
		tag := "lwork=" + r.cf.lw.String()
		if r.mid {
			tag = "lwork=mid"
		}
		// fixed: mark about a third of the columns as leading columns.
		jin := make([]int, n)
		nfixed := 0
		for j := range jin {
			jin[j] = -1
			// Leading columns are taken among the first min(m,n) ones: in
			// the prescribed-spectrum classes the columns beyond have low
			// rank, their unpivoted elimination yields reflectors with exact
			// trailing zeros, and the sweep would then report the Dlarft
			// short-reflector defect (see checkBlockReflector) under Dgeqp3
			// signatures on some seeds only.
			if r.fixed && (j+seedIdx)%3 == 0 && j < k {
				jin[j] = (j*7 + ri) % n // any value in [0,n) marks a leading column
				nfixed++
			}
		}
		args, _ := cs.callLW("Dgeqp3", tag, dims, nil, r.cf, r.mid, func(x *lapackgen.Args) {
			setMat(x, "a", a)
			copy(x.Ints("jpvt"), jin)
		})
		if args == nil || k == 0 {
			continue
		}
		out := getMat(args, "a")
		jp := cloneI(args.Ints("jpvt"))
		tau := cloneF(args.F64s("tau")[:k])
		what := fmt.Sprintf("%s %v m=%d n=%d class=%s fixed=%d", tag, r.cf, m, n, cls, nfixed)
		cs.checkPartialQR("Dgeqp3", tag, what, a, out, jp, tau, 0, k)
		if !isPerm(jp) {
			continue
		}
		// Leading columns come first.
		for j := 0; j < nfixed; j++ {
			if jin[jp[j]] < 0 {
				cs.fail("Dgeqp3", tag, "leading-column-not-in-front", "%s: position %d holds free column %d", what, j, jp[j])
				break
			}
		}
		// |r_ii| non-increasing over the free part (at most min(m,n) rows).
		lo := min(nfixed, k)
		for i := lo + 1; i < k; i++ {
			p, c := math.Abs(out.D[(i-1)*n+(i-1)]), math.Abs(out.D[i*n+i])
			if c > p*(1+1e-6)+16*float64(m)*eps*anorm {
				cs.fail("Dgeqp3", tag, "diagonal-of-R-increasing", "%s: |r[%d,%d]|=%g > |r[%d,%d]|=%g", what, i, i, c, i-1, i-1, p)
				break
			}
		}
		if !r.fixed {
			d := make([]float64, k)
			for i := range d {
				d[i] = math.Abs(out.D[i*n+i])
			}
			if diag0 == nil {
				diag0, jp0 = d, jp
			} else {
				same := true
				for j := range jp {
					if jp[j] != jp0[j] {
						same = false
					}
				}
				// Run 0 is lwork = min, i.e. the unblocked path (Dlaqp2 only).
				// With identical pivot sequences the rank-revealing diagonals
				// of the blocked runs must agree with it to rounding.
				if !same {
					h.c.Count("qp3.pivot_divergence", 1)
				} else {
					cs.band("Dgeqp3", tag, "qp3-diagonal-blocked-vs-unblocked", maxDiffVec(d, diag0), float64(m)*eps*anorm, func() string {
						return what + fmt.Sprintf(" (|diag R| vs lwork=min run, run %d)", ri)
					})
				}
			}
		}
	}

	if k > 128 {
		cs.geqp3Driver(a, cls)
	}

	// ---- Dlaqp2 / Dlaqps -------------------------------------------------------
	if m == 0 || n == 0 {
		return
	}
	offsets := []int{0}
	if m > 1 {
		offsets = append(offsets, 1+rng.Intn(m-1))
	}
	if deep {
		offsets = append(offsets, m)
	}
	for oi, offset := range offsets {
		vn := colNormsBelow(a, offset)
		ident := make([]int, n)
		for j := range ident {
			ident[j] = j
		}
		mn := min(m-offset, n)
		cf := cfg{pad: 7 * (oi % 2), guard: (seedIdx+oi)%3 == 0}
		args, _ := cs.call("Dlaqp2", "", D{"m": m, "n": n, "offset": offset}, nil, cf, func(x *lapackgen.Args) {
			setMat(x, "a", a)
			copy(x.Ints("jpvt"), ident)
			setVec(x, "vn1", vn)
			setVec(x, "vn2", vn)
		})
		if args != nil {
			what := fmt.Sprintf("%v m=%d n=%d offset=%d class=%s", cf, m, n, offset, cls)
			cs.checkPartialQR("Dlaqp2", "", what, a, getMat(args, "a"), cloneI(args.Ints("jpvt")), cloneF(args.F64s("tau")), offset, mn)
		}
		if mn == 0 {
			continue
		}
		for _, nb := range []int{mn, max(1, mn/2), 1} {
			cf := cfg{pad: 7 * ((oi + nb) % 2), guard: (seedIdx+nb)%4 == 0}
			args, res := cs.call("Dlaqps", "", D{"m": m, "n": n, "offset": offset, "nb": nb}, nil, cf, func(x *lapackgen.Args) {
				setMat(x, "a", a)
				copy(x.Ints("jpvt"), ident)
				setVec(x, "vn1", vn)
				setVec(x, "vn2", vn)
			})
			if args == nil {
				continue
			}
			kb := res.Int
			what := fmt.Sprintf("%v m=%d n=%d offset=%d nb=%d kb=%d class=%s", cf, m, n, offset, nb, kb, cls)
			if kb < nb {
				// stopped early: the norm-recomputation (lsticc) path
				h.c.Count("laqps.stopped_early_for_norm_recomputation", 1)
			}
			if kb < 1 || kb > nb {
				cs.fail("Dlaqps", "", "kb-out-of-range", "%s", what)
				continue
			}
			tau := make([]float64, kb)
			copy(tau, args.F64s("tau")[:kb])
			cs.checkPartialQR("Dlaqps", "", what, a, getMat(args, "a"), cloneI(args.Ints("jpvt")), tau, offset, kb)
		}
	}
}

// geqp3Driver composes a blocked pivoted QR out of Dlaqps and Dlaqp2 calls
// exactly as documented for those routines (and as Dgeqp3 does for free
// columns with ample workspace): panels of nb = 32 columns while
// j < min(m,n) - 128, each continuing at column j + kb where kb is the number
// of columns Dlaqps reports as factorized, then Dlaqp2 for the rest. The
// composition must satisfy A*P = Q*R. It also tells how often a panel stops
// early on this input (counters geqp3_driver.*): the same input goes through
// Dgeqp3 itself in the runs above, so the evidence shows that the
// continue-after-early-stop path of Dgeqp3 was reached.
func (cs *Case) geqp3Driver(a *ref.M, cls string) {
	h := cs.h
	m, n := a.R, a.C
	k := min(m, n)
	const nb, nx = 32, 128
	cur := a.Clone()
	perm := make([]int, n)
	for j := range perm {
		perm[j] = j
	}
	tau := make([]float64, k)
	vn1 := colNormsBelow(a, 0)
	vn2 := cloneF(vn1)
	apply := func(j int, args *lapackgen.Args, kb int) {
		out := getMat(args, "a")
		w := n - j
		for i := 0; i < m; i++ {
			copy(cur.D[i*n+j:i*n+n], out.D[i*w:i*w+w])
		}
		lp := args.Ints("jpvt")
		old := cloneI(perm[j:])
		for t := 0; t < w; t++ {
			perm[j+t] = old[lp[t]]
		}
		copy(tau[j:j+kb], args.F64s("tau")[:kb])
		copy(vn1[j:], args.F64s("vn1")[:w])
		copy(vn2[j:], args.F64s("vn2")[:w])
	}
	fill := func(j int) func(x *lapackgen.Args) {
		return func(x *lapackgen.Args) {
			setMat(x, "a", subCols(cur, j, n))
			for t := range x.Ints("jpvt") {
				x.Ints("jpvt")[t] = t
			}
			setVec(x, "vn1", vn1[j:])
			setVec(x, "vn2", vn2[j:])
		}
	}
	j, panels, stops := 0, 0, 0
	for topbmn := k - nx; j < topbmn; {
		jb := min(nb, topbmn-j)
		args, res := cs.call("Dlaqps", "driver", D{"m": m, "n": n - j, "offset": j, "nb": jb}, nil, cfg{pad: 7 * (panels % 2)}, fill(j))
		if args == nil {
			return
		}
		kb := res.Int
		if kb < 1 || kb > jb {
			cs.fail("Dlaqps", "driver", "kb-out-of-range", "m=%d n=%d offset=%d nb=%d class=%s: kb=%d", m, n-j, j, jb, cls, kb)
			return
		}
		panels++
		if kb < jb {
			stops++
		}
		apply(j, args, kb)
		j += kb
	}
	h.c.Count("geqp3_driver.panels", int64(panels))
	h.c.Count("geqp3_driver.panels_stopped_early(kb<nb)", int64(stops))
	if stops > 0 {
		h.c.Count("geqp3_driver.inputs_with_early_stop", 1)
		h.c.Count("geqp3_driver.inputs_with_early_stop|"+cls, 1)
	}
	if j < k {
		args, _ := cs.call("Dlaqp2", "driver", D{"m": m, "n": n - j, "offset": j}, nil, cfg{}, fill(j))
		if args == nil {
			return
		}
		apply(j, args, k-j)
	}
	what := fmt.Sprintf("driver composition m=%d n=%d class=%s panels=%d early stops=%d", m, n, cls, panels, stops)
	cs.checkPartialQR("Dlaqps+Dlaqp2", "driver", what, a, cur, perm, tau, 0, k)
}

func (h *H) planQP3(add addFn) {
	idx := 0
	classes := qp3Classes
	one := func(m, n int, cls string) {
		idx++
		i := idx
		id := fmt.Sprintf("QP3 m=%d n=%d class=%s #%d", m, n, cls, i)
		add("qp3", 5*m*n*max(m, n), func() { h.checkQP3(id, i, m, n, cls, h.thorough()) })
	}
	// Blocked sizes: min(m,n) >= 130 gives a first panel of >= 2 columns,
	// > 160 a second panel. Every class in thorough; in quick one collapsing
	// class per shape (rotating with the repetition) so that the path where
	// Dlaqps stops a panel early inside Dgeqp3 is always exercised.
	big := [][2]int{{170, 165}, {131, 140}}
	if h.thorough() {
		big = [][2]int{{130, 130}, {140, 131}, {131, 140}, {170, 165}, {165, 170}, {190, 170}, {170, 190}, {200, 200}}
	}
	for rep := 0; rep < h.reps(); rep++ {
		for bi, mn := range big {
			if h.thorough() {
				for _, cls := range classes {
					one(mn[0], mn[1], cls)
				}
				continue
			}
			one(mn[0], mn[1], qp3Collapsing[(2+bi*3+rep)%len(qp3Collapsing)])
			if bi == 0 {
				one(mn[0], mn[1], []string{"rankdef", clsRand}[rep%2])
			}
		}
		// Other shapes (including further blocked sizes 129..200): the five
		// general classes plus three rotating special ones.
		thoroughClasses := func(m, n, si int) []string {
			c := append([]string{}, classes[:5]...)
			for t := 0; t < 3; t++ {
				c = append(c, classes[5+(si+rep+3*t)%(len(classes)-5)])
			}
			return c
		}
		for si, n := range h.squares() {
			if h.thorough() {
				for _, cls := range thoroughClasses(n, n, si) {
					one(n, n, cls)
				}
				continue
			}
			one(n, n, classes[(si+rep*5)%len(classes)])
		}
		for si, mn := range h.rects() {
			if h.thorough() {
				for _, cls := range thoroughClasses(mn[0], mn[1], si) {
					one(mn[0], mn[1], cls)
				}
				continue
			}
			one(mn[0], mn[1], classes[(si+2+rep*5)%len(classes)])
		}
	}
}

// firstNaN returns the index of the first NaN entry (-1 if none).
func firstNaN(x []float64) int {
	for i, v := range x {
		if math.IsNaN(v) {
			return i
		}
	}
	return -1
}
