package main

import (
	"fmt"
	"math"

	"gonum.org/v1/gonum/verifx/c02/lapackgen"
	"gonum.org/v1/gonum/verifx/ref"
)

// colNormsBelow returns the 2-norms of the columns of a restricted to rows
// >= offset.
func colNormsBelow(a *ref.M, offset int) []float64 {
	v := make([]float64, a.C)
	for j := 0; j < a.C; j++ {
		var s float64
		for i := offset; i < a.R; i++ {
			s += a.D[i*a.C+j] * a.D[i*a.C+j]
		}
		v[j] = math.Sqrt(s)
	}
	return v
}

// checkPartialQR verifies the outcome of a (possibly partial) pivoted QR of
// rows offset..m: with AP = A[:, jpvt], rows < offset of the output equal
// those of AP exactly, and AP[offset:, :] = Q * T where Q is the product of
// the kb reflectors stored below the diagonal of the first kb columns of
// out[offset:, :] and T is out[offset:, :] with those reflector entries
// zeroed (for a complete factorisation T is the upper trapezoidal R).
func (cs *Case) checkPartialQR(routine, tag, what string, a, out *ref.M, jpvt []int, tau []float64, offset, kb int) {
	m, n := a.R, a.C
	if !isPerm(jpvt) {
		cs.fail(routine, tag, "jpvt-not-a-permutation", "%s: jpvt=%v", what, jpvt)
		return
	}
	ap := ref.FromFunc(m, n, func(i, j int) float64 { return a.D[i*n+jpvt[j]] })
	for i := 0; i < offset; i++ {
		for j := 0; j < n; j++ {
			if out.D[i*n+j] != ap.D[i*n+j] {
				cs.fail(routine, tag, "rows-above-offset-not-just-permuted", "%s: out[%d,%d]=%g, A[%d,jpvt[%d]]=%g", what, i, j, out.D[i*n+j], i, j, ap.D[i*n+j])
				return
			}
		}
	}
	fs := subRows(out, offset, m)
	if fs.HasNaN() || hasNaN(tau[:kb]) {
		cs.fail(routine, tag, "nan-in-factors", "%s", what)
		return
	}
	q := formQ("QR", fs, tau, kb)
	t := fs.Clone()
	for i := 0; i < t.R; i++ {
		for j := 0; j < kb && j < i; j++ {
			t.D[i*n+j] = 0
		}
	}
	mm := m - offset
	cs.band(routine, tag, "qr-orthogonality", ref.OrthoResid(q), float64(mm)*eps, func() string { return what })
	cs.band(routine, tag, "qr-reconstruction", ref.MaxDiff(subRows(ap, offset, m), ref.Mul(q, t)), float64(mm)*eps*a.NormFro(), func() string { return what })
}

// rankDeficient returns an m x n matrix of rank r = B*C with well
// conditioned m x r and r x n factors.
func (h *H) checkQP3(id string, seedIdx, m, n int, cls string, deep bool) {
	rng := h.c.RNG("qp3", seedIdx)
	cs := h.newCase(id, rng)
	defer cs.done()
	var a *ref.M
	k := min(m, n)
	if cls == "rankdef" {
		r := max(1, k/2)
		a = ref.Mul(ref.FromFunc(m, r, func(i, j int) float64 { return rng.Sym() }), ref.FromFunc(r, n, func(i, j int) float64 { return rng.Sym() }))
	} else {
		a, _ = general(rng, cls, m, n)
	}
	dims := D{"m": m, "n": n}
	anorm := a.NormFro()

	// ---- Dgeqp3 ---------------------------------------------------------------
	type run struct {
		cf    cfg
		mid   bool
		fixed bool
	}
	// Leading ("fixed") columns are only combined with generous workspace
	// here: with the documented minimum lwork = 3n+1 and many leading columns
	// Dgeqp3 of the pinned tree sizes its block from the free columns but
	// lays the workspace out for all n, and panics (reported by planDefects
	// under one signature).
	runs := []run{{cfg{lw: lwMin}, false, false}, {cfg{lw: lwQuery}, false, false}, {cfg{lw: lwQuery13, pad: 7}, false, true}, {cfg{pad: 7}, true, false}, {cfg{lw: lwMin, pad: 7, guard: true}, false, false}, {cfg{lw: lwQuery, guard: true}, false, true}}
	var diag0 []float64
	var jp0 []int
	for ri, r := range runs {
		tag := "lwork=" + r.cf.lw.String()
		if r.mid {
			tag = "lwork=mid"
		}
		// fixed: mark about a third of the columns as leading columns.
		jin := make([]int, n)
		nfixed := 0
		for j := range jin {
			jin[j] = -1
			// Leading columns are taken among the first min(m,n) ones: in
			// the prescribed-spectrum classes the columns beyond have low
			// rank, their unpivoted elimination yields reflectors with exact
			// trailing zeros, and the sweep would then report the Dlarft
			// short-reflector defect (see checkBlockReflector) under Dgeqp3
			// signatures on some seeds only.
			if r.fixed && (j+seedIdx)%3 == 0 && j < k {
				jin[j] = 0 // any value >= 0 marks a leading column
				nfixed++
			}
		}
		args, _ := cs.callLW("Dgeqp3", tag, dims, nil, r.cf, r.mid, func(x *lapackgen.Args) {
			setMat(x, "a", a)
			copy(x.Ints("jpvt"), jin)
		})
		if args == nil || k == 0 {
			continue
		}
		out := getMat(args, "a")
		jp := cloneI(args.Ints("jpvt"))
		tau := cloneF(args.F64s("tau")[:k])
		what := fmt.Sprintf("%s %v m=%d n=%d class=%s fixed=%d", tag, r.cf, m, n, cls, nfixed)
		cs.checkPartialQR("Dgeqp3", tag, what, a, out, jp, tau, 0, k)
		if !isPerm(jp) {
			continue
		}
		// Leading columns come first.
		for j := 0; j < nfixed; j++ {
			if jin[jp[j]] < 0 {
				cs.fail("Dgeqp3", tag, "leading-column-not-in-front", "%s: position %d holds free column %d", what, j, jp[j])
				break
			}
		}
		// |r_ii| non-increasing over the free part (at most min(m,n) rows).
		lo := min(nfixed, k)
		for i := lo + 1; i < k; i++ {
			p, c := math.Abs(out.D[(i-1)*n+(i-1)]), math.Abs(out.D[i*n+i])
			if c > p*(1+1e-6)+16*float64(m)*eps*anorm {
				cs.fail("Dgeqp3", tag, "diagonal-of-R-increasing", "%s: |r[%d,%d]|=%g > |r[%d,%d]|=%g", what, i, i, c, i-1, i-1, p)
				break
			}
		}
		if !r.fixed {
			d := make([]float64, k)
			for i := range d {
				d[i] = math.Abs(out.D[i*n+i])
			}
			if diag0 == nil {
				diag0, jp0 = d, jp
			} else {
				same := true
				for j := range jp {
					if jp[j] != jp0[j] {
						same = false
					}
				}
				if !same {
					h.c.Count("qp3.pivot_divergence", 1)
				} else if cls == clsWell {
					cs.band("Dgeqp3", tag, "qr-differential", maxDiffVec(d, diag0)/math.Max(anorm, 1e-300), float64(m)*eps*10, func() string {
						return what + fmt.Sprintf(" (|diag R| vs run 0, run %d)", ri)
					})
				}
			}
		}
	}

	// ---- Dlaqp2 / Dlaqps -------------------------------------------------------
	if m == 0 || n == 0 {
		return
	}
	offsets := []int{0}
	if m > 1 {
		offsets = append(offsets, 1+rng.Intn(m-1))
	}
	if deep {
		offsets = append(offsets, m)
	}
	for oi, offset := range offsets {
		vn := colNormsBelow(a, offset)
		ident := make([]int, n)
		for j := range ident {
			ident[j] = j
		}
		mn := min(m-offset, n)
		cf := cfg{pad: 7 * (oi % 2), guard: (seedIdx+oi)%3 == 0}
		args, _ := cs.call("Dlaqp2", "", D{"m": m, "n": n, "offset": offset}, nil, cf, func(x *lapackgen.Args) {
			setMat(x, "a", a)
			copy(x.Ints("jpvt"), ident)
			setVec(x, "vn1", vn)
			setVec(x, "vn2", vn)
		})
		if args != nil {
			what := fmt.Sprintf("%v m=%d n=%d offset=%d class=%s", cf, m, n, offset, cls)
			cs.checkPartialQR("Dlaqp2", "", what, a, getMat(args, "a"), cloneI(args.Ints("jpvt")), cloneF(args.F64s("tau")), offset, mn)
		}
		if mn == 0 {
			continue
		}
		for _, nb := range []int{mn, max(1, mn/2), 1} {
			cf := cfg{pad: 7 * ((oi + nb) % 2), guard: (seedIdx+nb)%4 == 0}
			args, res := cs.call("Dlaqps", "", D{"m": m, "n": n, "offset": offset, "nb": nb}, nil, cf, func(x *lapackgen.Args) {
				setMat(x, "a", a)
				copy(x.Ints("jpvt"), ident)
				setVec(x, "vn1", vn)
				setVec(x, "vn2", vn)
			})
			if args == nil {
				continue
			}
			kb := res.Int
			what := fmt.Sprintf("%v m=%d n=%d offset=%d nb=%d kb=%d class=%s", cf, m, n, offset, nb, kb, cls)
			if kb < nb {
				// stopped early: the norm-recomputation (lsticc) path
				h.c.Count("laqps.stopped_early_for_norm_recomputation", 1)
			}
			if kb < 1 || kb > nb {
				cs.fail("Dlaqps", "", "kb-out-of-range", "%s", what)
				continue
			}
			tau := make([]float64, kb)
			copy(tau, args.F64s("tau")[:kb])
			cs.checkPartialQR("Dlaqps", "", what, a, getMat(args, "a"), cloneI(args.Ints("jpvt")), tau, offset, kb)
		}
	}
}

func (h *H) planQP3(add addFn) {
	idx := 0
	classes := []string{clsRand, clsWell, clsSpec, clsGraded, "rankdef"}
	one := func(m, n int, cls string) {
		idx++
		i := idx
		id := fmt.Sprintf("QP3 m=%d n=%d class=%s #%d", m, n, cls, i)
		add("qp3", 5*m*n*max(m, n), func() { h.checkQP3(id, i, m, n, cls, h.thorough()) })
	}
	// min(m,n) > 160 = nx + nb: a second blocked panel in Dgeqp3 (with the
	// queried workspace), also on rank-deficient input (cancellation in the
	// partial column norms: Dlaqps stops a panel early and recomputes).
	big := [][2]int{{170, 165}}
	if h.thorough() {
		big = [][2]int{{170, 165}, {165, 170}, {190, 170}, {170, 190}}
	}
	for rep := 0; rep < h.reps(); rep++ {
		for bi, mn := range big {
			if h.thorough() {
				for _, cls := range classes {
					one(mn[0], mn[1], cls)
				}
				continue
			}
			one(mn[0], mn[1], []string{"rankdef", clsRand}[(bi+rep)%2])
		}
		for si, n := range h.squares() {
			if h.thorough() {
				for _, cls := range classes {
					one(n, n, cls)
				}
				continue
			}
			one(n, n, classes[si%len(classes)])
		}
		for si, mn := range h.rects() {
			if h.thorough() {
				for _, cls := range classes {
					one(mn[0], mn[1], cls)
				}
				continue
			}
			one(mn[0], mn[1], classes[(si+2)%len(classes)])
		}
	}
}
