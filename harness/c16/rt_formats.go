package main

import (
	"encoding/xml"
	"fmt"
	"reflect"
	"time"

	"gonum.org/v1/gonum/graph/formats/cytoscapejs"
	"gonum.org/v1/gonum/graph/formats/gexf12"
	"gonum.org/v1/gonum/graph/formats/sigmajs"
	"gonum.org/v1/gonum/verifx/c16/chk"
	"gonum.org/v1/gonum/verifx/vrt"
)

// textAlphabet is hostile for JSON and XML writers but stays inside what
// both formats can represent (valid UTF-8, XML 1.0 characters).
var textAlphabet = []string{"a", "B", "0", " ", "\t", "\n", "\r", "\"", "'", "\\", "<", ">", "&", "/", "]]>", "{", "}", ":", ",", "é", "日本", "\u2028", "😀", "&amp;", "\\u0041", "null", "-1", "e5"}

func hostileText(r *vrt.Rand, maxTokens int) string {
	s := ""
	for k := r.Intn(maxTokens + 1); k > 0; k-- {
		s += textAlphabet[r.Intn(len(textAlphabet))]
	}
	return s
}

func nonEmptyText(r *vrt.Rand, maxTokens int) string {
	return "x" + hostileText(r, maxTokens)
}

// jsonValue returns a value of the JSON data model as encoding/json decodes
// it (float64, string, bool, nil, []interface{}, map[string]interface{}).
func jsonValue(r *vrt.Rand, depth int) interface{} {
	switch k := r.Intn(8); {
	case k == 0:
		return nil
	case k == 1:
		return r.Bool()
	case k == 2:
		return float64(r.Intn(2000) - 1000)
	case k == 3:
		return r.Norm() * 1e3
	case k == 4 && depth > 0:
		n := r.Intn(3)
		l := make([]interface{}, n)
		for i := range l {
			l[i] = jsonValue(r, depth-1)
		}
		return l
	case k == 5 && depth > 0:
		m := map[string]interface{}{}
		for n := r.Intn(3); n > 0; n-- {
			m[hostileText(r, 2)] = jsonValue(r, depth-1)
		}
		return m
	}
	return hostileText(r, 4)
}

func jsonAttrs(r *vrt.Rand, reserved ...string) map[string]interface{} {
	if r.Intn(3) == 0 {
		return nil
	}
	m := map[string]interface{}{}
	for n := 1 + r.Intn(4); n > 0; n-- {
		k := nonEmptyText(r, 2)
		ok := true
		for _, rs := range reserved {
			if k == rs {
				ok = false
			}
		}
		if ok {
			m[k] = jsonValue(r, 2)
		}
	}
	return m
}

func position(r *vrt.Rand) *cytoscapejs.Position {
	if r.Bool() {
		return nil
	}
	return &cytoscapejs.Position{X: r.Norm() * 100, Y: float64(r.Intn(100))}
}

func genCytoElem(r *vrt.Rand) *cytoscapejs.GraphElem {
	g := &cytoscapejs.GraphElem{}
	for n := r.Intn(6); n > 0; n-- {
		e := cytoscapejs.Element{
			Group:    []string{"", "nodes", "edges", "node", "edge"}[r.Intn(5)],
			Data:     cytoscapejs.ElemData{ID: nonEmptyText(r, 3), Attributes: jsonAttrs(r, "id", "source", "target", "parent")},
			Position: position(r), RenderedPosition: position(r),
			Selected: r.Bool(), Selectable: r.Bool(), Locked: r.Bool(), Grabbable: r.Bool(),
			Classes: hostileText(r, 2),
		}
		switch r.Intn(3) {
		case 0:
			e.Data.Source, e.Data.Target = nonEmptyText(r, 2), nonEmptyText(r, 2)
		case 1:
			e.Data.Parent = nonEmptyText(r, 2)
		}
		if r.Intn(4) == 0 {
			e.Scratch = jsonValue(r, 2)
		}
		g.Elements = append(g.Elements, e)
	}
	if r.Bool() {
		g.Layout = jsonValue(r, 2)
	}
	for n := r.Intn(3); n > 0; n-- {
		g.Style = append(g.Style, jsonValue(r, 1))
	}
	return g
}

func genCytoNodeEdge(r *vrt.Rand) *cytoscapejs.GraphNodeEdge {
	g := &cytoscapejs.GraphNodeEdge{}
	for n := r.Intn(5); n > 0; n-- {
		g.Elements.Nodes = append(g.Elements.Nodes, cytoscapejs.Node{
			Data:     cytoscapejs.NodeData{ID: nonEmptyText(r, 3), Parent: hostileText(r, 2), Attributes: jsonAttrs(r, "id", "parent")},
			Position: position(r), RenderedPosition: position(r), Selected: r.Bool(), Selectable: r.Bool(), Locked: r.Bool(), Grabbable: r.Bool(),
			Classes: hostileText(r, 2),
		})
	}
	for n := r.Intn(5); n > 0; n-- {
		g.Elements.Edges = append(g.Elements.Edges, cytoscapejs.Edge{
			Data:     cytoscapejs.EdgeData{ID: nonEmptyText(r, 3), Source: hostileText(r, 2), Target: hostileText(r, 2), Attributes: jsonAttrs(r, "id", "source", "target")},
			Selected: r.Bool(), Selectable: r.Bool(), Classes: hostileText(r, 2),
		})
	}
	if r.Bool() {
		g.Layout = jsonValue(r, 2)
	}
	return g
}

func genSigma(r *vrt.Rand) *sigmajs.Graph {
	g := &sigmajs.Graph{}
	for n := r.Intn(6); n > 0; n-- {
		g.Nodes = append(g.Nodes, sigmajs.Node{ID: hostileText(r, 3), Attributes: jsonAttrs(r, "id")})
	}
	for n := r.Intn(6); n > 0; n-- {
		g.Edges = append(g.Edges, sigmajs.Edge{ID: hostileText(r, 3), Source: hostileText(r, 2), Target: hostileText(r, 2), Attributes: jsonAttrs(r, "id", "source", "target")})
	}
	return g
}

func spells(r *vrt.Rand) *gexf12.Spells {
	if r.Intn(3) != 0 {
		return nil
	}
	s := &gexf12.Spells{}
	for n := 1 + r.Intn(2); n > 0; n-- {
		s.Spells = append(s.Spells, gexf12.Spell{Start: hostileText(r, 2), End: hostileText(r, 2), StartOpen: hostileText(r, 1), EndOpen: hostileText(r, 1)})
	}
	return s
}

func color(r *vrt.Rand) *gexf12.Color {
	if r.Bool() {
		return nil
	}
	return &gexf12.Color{R: byte(r.Intn(256)), G: byte(r.Intn(256)), B: byte(r.Intn(256)), A: float64(r.Intn(5)) / 4, Spells: spells(r), Start: hostileText(r, 1)}
}

func attValues(r *vrt.Rand) *gexf12.AttValues {
	if r.Bool() {
		return nil
	}
	a := &gexf12.AttValues{}
	for n := 1 + r.Intn(3); n > 0; n-- {
		a.AttValues = append(a.AttValues, gexf12.AttValue{For: hostileText(r, 2), Value: hostileText(r, 4), Start: hostileText(r, 1), EndOpen: hostileText(r, 1)})
	}
	return a
}

func gexfNode(r *vrt.Rand, depth int) gexf12.Node {
	n := gexf12.Node{ID: hostileText(r, 3), Label: hostileText(r, 4), AttValues: attValues(r), Spells: spells(r), ParentID: hostileText(r, 1), Color: color(r),
		Start: hostileText(r, 1), StartOpen: hostileText(r, 1), End: hostileText(r, 1), EndOpen: hostileText(r, 1)}
	if r.Intn(3) == 0 {
		n.Position = &gexf12.Position{X: r.Norm(), Y: float64(r.Intn(10)), Z: -r.Float64(), Spells: spells(r)}
	}
	if r.Intn(3) == 0 {
		n.Size = &gexf12.Size{Value: r.Float64() * 10, Start: hostileText(r, 1)}
	}
	if r.Intn(3) == 0 {
		n.Shape = &gexf12.NodeShape{Shape: hostileText(r, 1), URI: hostileText(r, 2), Spells: spells(r)}
	}
	if r.Intn(3) == 0 {
		n.Parents = &gexf12.Parents{Parents: []gexf12.Parent{{For: hostileText(r, 2)}}}
	}
	if depth > 0 && r.Intn(3) == 0 {
		n.Nodes = &gexf12.Nodes{Count: r.Intn(3), Nodes: []gexf12.Node{gexfNode(r, depth-1)}}
		n.Edges = &gexf12.Edges{Edges: []gexf12.Edge{gexfEdge(r)}}
	}
	return n
}

func gexfEdge(r *vrt.Rand) gexf12.Edge {
	e := gexf12.Edge{ID: hostileText(r, 2), AttValues: attValues(r), Spells: spells(r), Color: color(r), Type: hostileText(r, 1), Label: hostileText(r, 3),
		Source: hostileText(r, 2), Target: hostileText(r, 2), Weight: float64(r.Intn(9)) / 2, Start: hostileText(r, 1), EndOpen: hostileText(r, 1)}
	if r.Intn(3) == 0 {
		e.Thickness = &gexf12.Thickness{Value: r.Float64(), End: hostileText(r, 1)}
	}
	if r.Intn(3) == 0 {
		e.Shape = &gexf12.Edgeshape{Shape: hostileText(r, 1), Spells: spells(r), StartOpen: hostileText(r, 1)}
	}
	return e
}

func genGexf(r *vrt.Rand) *gexf12.Content {
	g := &gexf12.Content{
		XMLName: xml.Name{Space: "http://www.gexf.net/1.2draft", Local: "gexf"},
		Version: hostileText(r, 2), Variant: hostileText(r, 1),
	}
	if r.Bool() {
		g.Meta = &gexf12.Meta{Creator: hostileText(r, 3), Keywords: hostileText(r, 3), Description: hostileText(r, 5)}
		if r.Bool() {
			g.Meta.LastModified = time.Date(1970+r.Intn(80), time.Month(1+r.Intn(12)), 1+r.Intn(28), 0, 0, 0, 0, time.UTC)
		}
	}
	gr := &g.Graph
	gr.TimeFormat, gr.Start, gr.StartOpen, gr.End, gr.EndOpen = hostileText(r, 1), hostileText(r, 1), hostileText(r, 1), hostileText(r, 1), hostileText(r, 1)
	gr.DefaultEdgeType, gr.IDType, gr.Mode = hostileText(r, 1), hostileText(r, 1), hostileText(r, 1)
	for n := r.Intn(3); n > 0; n-- {
		a := gexf12.Attributes{Class: hostileText(r, 1), Mode: hostileText(r, 1), Start: hostileText(r, 1)}
		for k := r.Intn(3); k > 0; k-- {
			a.Attributes = append(a.Attributes, gexf12.Attribute{ID: hostileText(r, 2), Title: hostileText(r, 3), Type: hostileText(r, 1), Default: hostileText(r, 3), Options: hostileText(r, 3)})
		}
		gr.Attributes = append(gr.Attributes, a)
	}
	gr.Nodes.Count = r.Intn(4)
	for n := r.Intn(4); n > 0; n-- {
		gr.Nodes.Nodes = append(gr.Nodes.Nodes, gexfNode(r, 2))
	}
	gr.Edges.Count = r.Intn(4)
	for n := r.Intn(4); n > 0; n-- {
		gr.Edges.Edges = append(gr.Edges.Edges, gexfEdge(r))
	}
	return g
}

// normalize replaces empty slices and maps by nil, recursively, so that
// values can be compared up to the nil/empty distinction the text formats
// cannot carry.
func normalize(v reflect.Value) {
	switch v.Kind() {
	case reflect.Ptr, reflect.Interface:
		if !v.IsNil() {
			if v.Kind() == reflect.Interface {
				e := v.Elem()
				switch e.Kind() {
				case reflect.Map, reflect.Slice:
					if e.Len() == 0 {
						// keep: an explicit empty JSON array/object is a value
						return
					}
					cp := reflect.New(e.Type()).Elem()
					cp.Set(e)
					normalize(cp)
					return
				}
				return
			}
			normalize(v.Elem())
		}
	case reflect.Struct:
		if v.Type() == reflect.TypeOf(time.Time{}) {
			return
		}
		for i := 0; i < v.NumField(); i++ {
			if v.Field(i).CanSet() {
				normalize(v.Field(i))
			}
		}
	case reflect.Slice:
		if v.Len() == 0 {
			if !v.IsNil() && v.CanSet() {
				v.Set(reflect.Zero(v.Type()))
			}
			return
		}
		for i := 0; i < v.Len(); i++ {
			normalize(v.Index(i))
		}
	case reflect.Map:
		if v.Len() == 0 && !v.IsNil() && v.CanSet() {
			v.Set(reflect.Zero(v.Type()))
		}
	}
}

func runFormats(c *vrt.Ctx) {
	total := newTally()
	n := c.Pick(1500, 15000)
	gens := []func(*vrt.Rand) any{
		func(r *vrt.Rand) any { return genCytoElem(r) },
		func(r *vrt.Rand) any { return genCytoNodeEdge(r) },
		func(r *vrt.Rand) any { return genSigma(r) },
		func(r *vrt.Rand) any { return genGexf(r) },
	}
	vrt.Parallel(n, func(i int) {
		t := newTally()
		defer total.merge(t)
		r := c.RNG("formats/rt", i)
		k := chk.FormatKinds[i%len(chk.FormatKinds)]
		c.LastCase(fmt.Sprintf("formats roundtrip %s case %d", k.Name, i))
		v := gens[i%len(gens)](r)
		key := k.Name + "|roundtrip"
		rp := replay{Case: fmt.Sprintf("%s case %d", k.Name, i)}
		var enc []byte
		var err error
		t.add(key, 2, true)
		if p := vrt.Try(func() { enc, err = k.Marshal(v) }); p != nil || err != nil {
			c.Violationf(k.Name+".Marshal|generated|fails", rp, "marshal of a generated %s: panic=%v err=%v", k.Name, p != nil, err)
			return
		}
		rp.Input = clipS(string(enc), 2000)
		back := k.New()
		if p := vrt.Try(func() { err = k.Unmarshal(enc, back) }); p != nil || err != nil {
			c.Violationf(k.Name+".Unmarshal|own-encoding|fails", rp, "unmarshal of the encoding of a generated %s: panic=%v err=%v\n%s", k.Name, p != nil, err, clipS(string(enc), 600))
			return
		}
		normalize(reflect.ValueOf(v))
		normalize(reflect.ValueOf(back))
		if !reflect.DeepEqual(v, back) {
			enc2, _ := k.Marshal(back)
			c.Violationf(k.Name+"|roundtrip|value-differs", rp, "decode(encode(v)) != v for a generated %s\nencoded:    %s\nre-encoded: %s", k.Name, clipS(string(enc), 700), clipS(string(enc2), 700))
		}
		// the marshalling must leave its operand intact (the JSON marshalers
		// temporarily add keys to the attribute maps)
		enc3, err := k.Marshal(v)
		t.add(key+"|remarshal", 1, true)
		if err != nil || string(enc3) != string(enc) {
			c.Violationf(k.Name+".Marshal|generated|not-repeatable", rp, "marshalling the same value twice gives different documents (err=%v)", err)
		}
		report(c, t, k.Name, enc, 0, chk.Format(k, enc))
		if c.WantSample() && i == 9 {
			c.Sample(map[string]any{"codec": k.Name, "document": clipS(string(enc), 300)})
		}
	})
	total.flush(c)
}
