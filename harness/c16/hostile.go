package main

import (
	"bytes"
	"encoding/binary"
	"fmt"
	"runtime"
	"runtime/debug"
	"strings"

	"gonum.org/v1/gonum/verifx/c16/chk"
	"gonum.org/v1/gonum/verifx/vrt"
)

// ---- structured mutators -------------------------------------------------------

var hostileBytes = []byte{0x00, 0xff, 0x80, 0x7f, '"', '\\', '<', '>', '{', '}', '[', ']', '\n', '\r', '\t', ' ', '~', '&', '?', '@', '_', ':', '.', '#', '^', '-', '=', ';', ',', '/', '*', '+', 'u', 'U', '0', 'n'}

var int64Specials = []int64{0, -1, 1, 2, -1 << 63, 1<<63 - 1, 1 << 31, 1<<31 - 1, 1 << 32, 1 << 61, 1 << 60, 1 << 62, 1<<61 + 1, 3, 6148914691236517206, -2, 1 << 24, 1 << 44, 1<<63 - 2, 1 << 33}

func isTextDecoder(name string) bool {
	switch {
	case strings.HasPrefix(name, "dot."), strings.HasPrefix(name, "rdf."), strings.HasPrefix(name, "cytoscapejs."), strings.HasPrefix(name, "sigmajs."), strings.HasPrefix(name, "gexf12."):
		return true
	}
	return false
}

// tokenBoundaries returns offsets at which a text can be cut between tokens.
func tokenBoundaries(b []byte) []int {
	var out []int
	const punct = " \t\n\r{}[]<>\";,=:.#^@-/()"
	for i := 1; i < len(b); i++ {
		if strings.IndexByte(punct, b[i]) >= 0 || strings.IndexByte(punct, b[i-1]) >= 0 {
			out = append(out, i)
		}
	}
	if len(out) == 0 {
		out = append(out, len(b)/2)
	}
	return out
}

// mutate returns one mutant of base (other is a second valid document used
// for splicing). The result is a fresh slice.
func mutate(r *vrt.Rand, name string, base, other []byte) (out []byte, kind string) {
	text := isTextDecoder(name)
	b := append([]byte(nil), base...)
	pick := r.Intn(100)
	switch {
	case pick < 18 && len(b) > 0: // bit flips
		for k := 1 + r.Intn(3); k > 0; k-- {
			i := r.Intn(len(b))
			b[i] ^= 1 << uint(r.Intn(8))
		}
		return b, "bitflip"
	case pick < 30 && len(b) > 0: // hostile byte substitution
		for k := 1 + r.Intn(2); k > 0; k-- {
			b[r.Intn(len(b))] = hostileBytes[r.Intn(len(hostileBytes))]
		}
		return b, "subst"
	case pick < 40: // insertion
		i := r.Intn(len(b) + 1)
		ins := []byte{hostileBytes[r.Intn(len(hostileBytes))]}
		if r.Bool() && len(other) > 0 {
			s := r.Intn(len(other))
			e := s + 1 + r.Intn(min(8, len(other)-s))
			ins = other[s:e]
		}
		return append(b[:i:i], append(append([]byte(nil), ins...), b[i:]...)...), "insert"
	case pick < 50 && len(b) > 0: // deletion of a run
		i := r.Intn(len(b))
		e := i + 1 + r.Intn(min(6, len(b)-i))
		return append(b[:i:i], b[e:]...), "delete"
	case pick < 60 && len(b) > 1: // truncation
		return b[:r.Intn(len(b))], "truncate"
	case pick < 72 && text: // splice at token boundaries
		ba, bb := tokenBoundaries(b), tokenBoundaries(other)
		i, j := ba[r.Intn(len(ba))], 0
		if len(other) > 0 {
			j = bb[r.Intn(len(bb))]
		}
		if j > len(other) {
			j = len(other)
		}
		return append(b[:i:i], other[j:]...), "splice"
	case pick < 72: // splice at arbitrary offsets
		i := r.Intn(len(b) + 1)
		j := 0
		if len(other) > 0 {
			j = r.Intn(len(other))
		}
		return append(b[:i:i], other[j:]...), "splice"
	case pick < 82 && text: // whitespace deletion
		var ws []int
		for i, ch := range b {
			if ch == ' ' || ch == '\t' || ch == '\n' || ch == '\r' {
				ws = append(ws, i)
			}
		}
		if len(ws) == 0 {
			return b, "identity"
		}
		if r.Intn(4) == 0 {
			return bytes.Map(func(r rune) rune {
				if r == ' ' || r == '\t' || r == '\n' || r == '\r' {
					return -1
				}
				return r
			}, b), "ws-delete-all"
		}
		i := ws[r.Intn(len(ws))]
		e := i
		for e < len(b) && (b[e] == ' ' || b[e] == '\t' || b[e] == '\n' || b[e] == '\r') {
			e++
		}
		return append(b[:i:i], b[e:]...), "ws-delete"
	case pick < 90 && len(b) > 1: // duplicate / swap a chunk
		i := r.Intn(len(b))
		e := i + 1 + r.Intn(min(12, len(b)-i))
		if r.Bool() {
			return append(b[:e:e], append(append([]byte(nil), b[i:e]...), b[e:]...)...), "dup"
		}
		j := r.Intn(len(b))
		c := append([]byte(nil), b...)
		for k := i; k < e && j+(k-i) < len(c); k++ {
			c[k], c[j+(k-i)] = c[j+(k-i)], c[k]
		}
		return c, "swap"
	default: // numeric field corruption: any aligned 8/4-byte field
		if len(b) >= 8 {
			off := r.Intn(len(b)/8) * 8
			v := int64Specials[r.Intn(len(int64Specials))]
			if strings.HasPrefix(name, "prng.") {
				binary.BigEndian.PutUint64(b[off:], uint64(v))
			} else {
				binary.LittleEndian.PutUint64(b[off:], uint64(v))
			}
			return b, "field"
		}
		return append(b, hostileBytes[r.Intn(len(hostileBytes))]), "append"
	}
}

// headerCorruptions returns the mat messages obtained by setting each header
// field of base to each special value, and pairs of dimension fields.
func headerCorruptions(base []byte) [][]byte {
	var out [][]byte
	if len(base) < 40 {
		return nil
	}
	for _, off := range []int{8, 16, 24, 32} {
		for _, v := range int64Specials {
			b := append([]byte(nil), base...)
			binary.LittleEndian.PutUint64(b[off:], uint64(v))
			out = append(out, b)
		}
	}
	for _, r := range int64Specials {
		for _, c := range int64Specials {
			b := append([]byte(nil), base...)
			binary.LittleEndian.PutUint64(b[8:], uint64(r))
			binary.LittleEndian.PutUint64(b[16:], uint64(c))
			out = append(out, b)
			// with exactly the data the wrapped product asks for
			n := uint64(r) * uint64(c)
			if n > 0 && n <= 64 {
				out = append(out, append(append([]byte(nil), b[:40]...), make([]byte, 8*n)...))
			}
		}
	}
	for _, v := range []uint32{0, 2, 1 << 31, 1<<32 - 1} {
		b := append([]byte(nil), base...)
		binary.LittleEndian.PutUint32(b[0:], v)
		out = append(out, b)
	}
	for off := 4; off < 8; off++ {
		for _, v := range []byte{0, 1, 'G', 'S', 'T', 'F', 'B', 'P', 'A', 'U', 'L', 0xff} {
			b := append([]byte(nil), base...)
			b[off] = v
			out = append(out, b)
		}
	}
	return out
}

// runHostile feeds every decoder with mutants of its valid corpus.
func runHostile(c *vrt.Ctx) {
	type job struct {
		decoder string
		batch   int
	}
	perDecoder := pick(c, 6000, 120000)
	const batchSize = 500
	var jobs []job
	for _, d := range chk.Decoders {
		n := perDecoder
		switch {
		case strings.HasPrefix(d, "prng.MT"):
			n /= 6 // 2.5 kB states, 4000 draws per accepted state
		case d == "graph6" || d == "digraph6":
			n /= 2
		}
		for b := 0; b*batchSize < n; b++ {
			jobs = append(jobs, job{d, b})
		}
	}
	total := newTally()
	kinds := map[string]bool{}
	var kindsMu = make(chan struct{}, 1)
	vrt.Parallel(len(jobs), func(ji int) {
		j := jobs[ji]
		t := newTally()
		r := c.RNG("hostile/"+j.decoder, j.batch)
		corpus := chk.Corpus(j.decoder, c.Seed)
		for _, rg := range chk.Regressions {
			if rg.Decoder == j.decoder {
				corpus = append(corpus, rg.Input)
			}
		}
		c.LastCase(fmt.Sprintf("hostile %s batch %d", j.decoder, j.batch))
		seen := map[string]bool{}
		for i := 0; i < batchSize; i++ {
			base := corpus[r.Intn(len(corpus))]
			other := corpus[r.Intn(len(corpus))]
			in, kind := mutate(r, j.decoder, base, other)
			for extra := r.Intn(3); extra > 0 && r.Intn(3) == 0; extra-- {
				in, _ = mutate(r, j.decoder, in, other)
				kind = "stacked"
			}
			seen[kind] = true
			arg := r.Intn(chk.NumReaderKinds)
			report(c, t, j.decoder, in, arg, chk.RunDecoder(j.decoder, in, arg))
		}
		total.merge(t)
		kindsMu <- struct{}{}
		for k := range seen {
			kinds[k] = true
		}
		<-kindsMu
	})
	// truncation at every prefix length and header-field corruption are
	// exhaustive, not sampled.
	var ex []job
	for _, d := range chk.Decoders {
		ex = append(ex, job{d, 0})
	}
	vrt.Parallel(len(ex), func(ji int) {
		d := ex[ji].decoder
		t := newTally()
		c.LastCase("hostile prefixes/header fields " + d)
		for ci, base := range chk.Corpus(d, c.Seed) {
			step := 1
			if len(base) > 600 && !c.Thorough() {
				step = 7
			}
			for n := 0; n < len(base); n += step {
				report(c, t, d, base[:n], ci, chk.RunDecoder(d, base[:n], ci))
			}
			if strings.HasPrefix(d, "mat.") {
				for hi, hb := range headerCorruptions(base) {
					report(c, t, d, hb, hi, chk.RunDecoder(d, hb, hi))
				}
			}
		}
		total.merge(t)
	})
	total.flush(c)
	c.NoteSet("hostile.mutator_kinds_used", kinds)
}

// runAllocGuard checks "reject before allocating": a decoder that answers a
// 40-byte header (or a short gob message) with an error must not have
// allocated the claimed object first. It runs on the main goroutine before
// any parallel section, so the process-wide allocation counter is
// attributable (background allocation is far below the threshold).
func runAllocGuard(c *vrt.Ctx) {
	const threshold = 4 << 20 // bytes
	t := newTally()
	old := debug.SetGCPercent(-1)
	defer debug.SetGCPercent(old)
	base := chk.Corpus("mat.Dense.UnmarshalBinary", c.Seed)[0][:40]
	var ms runtime.MemStats
	for _, k := range chk.MatKinds {
		for hi, hb := range headerCorruptions(base) {
			if len(hb) != 40 {
				continue
			}
			h := chk.ParseMatHeader(hb)
			cls := h.DimClass(k.Vec)
			c.LastCase(fmt.Sprintf("allocguard %s header #%d", k.Routine, hi))
			runtime.ReadMemStats(&ms)
			before := ms.TotalAlloc
			res := chk.Mat(k, hb, 0)
			runtime.ReadMemStats(&ms)
			delta := ms.TotalAlloc - before
			if strings.HasSuffix(res.Class, "|skipped") {
				continue // documented: the size is not limited
			}
			t.add("allocguard|"+k.Routine+"|"+cls, 1, true)
			// A stream decoder may allocate what a well-formed header asks
			// for before it finds the stream short (documented: the size is
			// not limited); every other rejection must come first.
			if !res.Accepted && delta > threshold && !(k.Stream && cls == "dims-ok" && h.TypeOK()) {
				c.Violationf(k.Routine+"|"+cls+"|allocates-before-rejecting", replay{Decoder: k.Routine, Input: fmt.Sprintf("%q", hb)},
					"%s rejected a 40-byte message with header %+v but allocated %d bytes first", k.Routine, h, delta)
			}
			for _, f := range res.Findings {
				c.Violation(f.Sig, f.Detail, replay{Decoder: k.Routine, Input: fmt.Sprintf("%q", hb)})
			}
		}
	}
	t.flush(c)
}
