// Command c16 is the runtime monitor for property C16: codecs round-trip
// losslessly, decoders are total, RDF canonicalization is label-invariant.
//
// It drives the real gonum encoders and decoders (graph6, digraph6, DOT,
// N-Quads, mat binary, PRNG state, HyperLogLog sketches, cytoscapejs /
// sigmajs / gexf structs) with exhaustive small scopes and seeded hostile
// generators, compares every decoded value with an independent model, and
// checks the RDF canonicalization / isomorphism routines for invariance under
// blank-node relabelling and statement permutation against a brute-force
// isomorphism search.
package main

import (
	"flag"
	"fmt"
	"sort"
	"strconv"
	"sync"
	"time"

	"gonum.org/v1/gonum/verifx/c16/chk"
	"gonum.org/v1/gonum/verifx/vrt"
)

var (
	mode = flag.String("mode", "all", "all | race (decoders and canonicalization run concurrently under -race) | bounds (mat codecs under -tags bounds)")
	only = flag.String("sections", "", "comma separated section names (debugging)")
)

func main() { vrt.Main("C16", run) }

type section struct {
	name string
	f    func(*vrt.Ctx)
}

func run(c *vrt.Ctx) {
	var secs []section
	switch *mode {
	case "calibrate":
		secs = []section{{"calibrate", runCalibrate}}
	case "bounds":
		secs = []section{{"regress", runRegress}, {"mat", runMat}, {"hostile", runHostile}}
	case "race":
		secs = []section{{"regress", runRegress}, {"hostile", runHostile}, {"rdfc14n", runC14n}, {"reuse", runReuse}, {"dot", runDot}, {"hll", runHLL}}
	default:
		secs = []section{
			{"regress", runRegress},
			{"allocguard", runAllocGuard},
			{"g6", runG6},
			{"mat", runMat},
			{"prng", runPRNG},
			{"hll", runHLL},
			{"formats", runFormats},
			{"nquads", runNQuads},
			{"dot", runDot},
			{"rdfc14n", runC14n},
			{"reuse", runReuse},
			{"hostile", runHostile},
			{"lean", runLean}, // last: see leanGuard
		}
	}
	want := map[string]bool{}
	if *only != "" {
		for _, s := range splitComma(*only) {
			want[s] = true
		}
	}
	for _, s := range secs {
		if len(want) != 0 && !want[s.name] {
			continue
		}
		t0 := time.Now()
		s.f(c)
		// Wall time is reported for budgeting only; no oracle depends on it.
		c.Note("section_wall_s."+s.name, fmt.Sprintf("%.2f", time.Since(t0).Seconds()))
	}
}

// pick is c.Pick, except that the race build always runs the quick-size
// workload (the race detector costs a factor of ten to twenty).
func pick(c *vrt.Ctx, q, t int) int {
	if *mode == "race" {
		return q
	}
	return c.Pick(q, t)
}

func splitComma(s string) []string {
	var out []string
	cur := ""
	for _, r := range s {
		if r == ',' {
			if cur != "" {
				out = append(out, cur)
			}
			cur = ""
			continue
		}
		cur += string(r)
	}
	if cur != "" {
		out = append(out, cur)
	}
	return out
}

// ---- evaluation bookkeeping (sharded; vrt.Eval takes a global lock) -----------

type tally struct {
	mu    sync.Mutex
	calls map[string]int
	nontr map[string]bool
}

func newTally() *tally { return &tally{calls: map[string]int{}, nontr: map[string]bool{}} }

func (t *tally) add(class string, calls int, nontrivial bool) {
	t.mu.Lock()
	t.calls[class] += calls
	if nontrivial {
		t.nontr[class] = true
	}
	t.mu.Unlock()
}

func (t *tally) merge(o *tally) {
	t.mu.Lock()
	for k, v := range o.calls {
		t.calls[k] += v
	}
	for k := range o.nontr {
		t.nontr[k] = true
	}
	t.mu.Unlock()
}

func (t *tally) flush(c *vrt.Ctx) {
	t.mu.Lock()
	defer t.mu.Unlock()
	keys := make([]string, 0, len(t.calls))
	for k := range t.calls {
		keys = append(keys, k)
	}
	sort.Strings(keys)
	for _, k := range keys {
		if t.calls[k] > 0 {
			c.EvalN(k, t.calls[k], t.nontr[k])
		}
	}
	t.calls = map[string]int{}
	t.nontr = map[string]bool{}
}

// replay is the witness stored with a violation.
type replay struct {
	Decoder string `json:"decoder,omitempty"`
	Input   string `json:"input_go_quoted,omitempty"`
	Arg     int    `json:"arg,omitempty"`
	Case    string `json:"case,omitempty"`
	Extra   any    `json:"extra,omitempty"`
}

// report records the findings of a validator result.
func report(c *vrt.Ctx, t *tally, decoder string, input []byte, arg int, res chk.Result) {
	t.add(res.Class, res.Calls, res.Accepted || len(res.Findings) > 0)
	for _, f := range res.Findings {
		in := input
		if len(in) > 4096 {
			in = in[:4096]
		}
		c.Violation(f.Sig, f.Detail, replay{Decoder: decoder, Input: strconv.Quote(string(in)), Arg: arg})
	}
}

// runRegress runs the fixed regression inputs (see chk.Regressions): every
// signature of a known defect is observed in every run.
func runRegress(c *vrt.Ctx) {
	t := newTally()
	for i, r := range chk.Regressions {
		c.LastCase(fmt.Sprintf("regress #%d %s", i, r.Decoder))
		for arg := 0; arg < chk.NumReaderKinds; arg++ {
			report(c, t, r.Decoder, r.Input, r.Arg+arg, chk.RunDecoder(r.Decoder, r.Input, r.Arg+arg))
		}
	}
	t.flush(c)
}
