package main

import (
	"bytes"
	"fmt"

	"gonum.org/v1/gonum/verifx/c16/chk"
	"gonum.org/v1/gonum/verifx/vrt"
)

// runPRNG: after UnmarshalBinary(MarshalBinary()) the next 1000 outputs are
// identical, for every generator type, seeded and unseeded, at positions
// around the block-regeneration boundaries of the Mersenne twisters.
func runPRNG(c *vrt.Ctx) {
	total := newTally()
	steps := []int{0, 1, 2, 3, 310, 311, 312, 313, 622, 623, 624, 625, 626, 1247, 1248, 1249, 5000}
	reps := c.Pick(3, 30)
	type job struct {
		k     chk.PRNGKind
		step  int
		rep   int
		state string
	}
	var jobs []job
	for _, k := range chk.PRNGKinds {
		for rep := 0; rep < reps; rep++ {
			for _, s := range steps {
				jobs = append(jobs, job{k, s, rep, "seeded"})
			}
			jobs = append(jobs, job{k, -1, rep, "random-step"})
		}
		for _, s := range steps {
			jobs = append(jobs, job{k, s, 0, "unseeded"})
		}
	}
	vrt.Parallel(len(jobs), func(ji int) {
		j := jobs[ji]
		t := newTally()
		defer total.merge(t)
		r := c.RNG("prng/rt", ji)
		name := "prng." + j.k.Name
		c.LastCase(fmt.Sprintf("prng roundtrip %s %s step %d rep %d", j.k.Name, j.state, j.step, j.rep))
		src := j.k.New()
		seed := r.Uint64()
		if r.Intn(4) == 0 {
			seed = uint64(r.Intn(3)) // 0, 1, 2: degenerate seeds
		}
		if j.state != "unseeded" {
			src.Seed(seed)
		}
		step := j.step
		if step < 0 {
			step = r.Intn(3000)
		}
		chk.Draw(src, step)
		key := fmt.Sprintf("%s|roundtrip|%s", name, j.state)
		rp := replay{Case: fmt.Sprintf("%s %s seed=%d outputs-drawn-before=%d", j.k.Name, j.state, seed, step)}
		var state []byte
		var err error
		t.add(key, 1, true)
		if p := vrt.Try(func() { state, err = src.MarshalBinary() }); p != nil || err != nil {
			c.Violationf(name+".MarshalBinary|"+j.state+"|fails", rp, "MarshalBinary: panic=%v err=%v", p != nil, err)
			return
		}
		if len(state) != j.k.Size {
			c.Violationf(name+".MarshalBinary|"+j.state+"|wrong-size", rp, "MarshalBinary returned %d bytes, want %d", len(state), j.k.Size)
		}
		// marshalling must not disturb the generator
		again, _ := src.MarshalBinary()
		if !bytes.Equal(again, state) {
			c.Violationf(name+".MarshalBinary|"+j.state+"|not-repeatable", rp, "two consecutive MarshalBinary calls differ")
		}
		// restore into a fresh generator and into one with a different history
		fresh, used := j.k.New(), j.k.New()
		used.Seed(seed + 1)
		chk.Draw(used, 17+r.Intn(700))
		want := chk.Draw(src, chk.PRNGDraws)
		for which, dst := range []chk.Source{fresh, used} {
			t.add(key+"|restore", 2, true)
			if p := vrt.Try(func() { err = dst.UnmarshalBinary(state) }); p != nil || err != nil {
				c.Violationf(name+".UnmarshalBinary|own-state|rejected", rp, "UnmarshalBinary(MarshalBinary()): panic=%v err=%v", p != nil, err)
				continue
			}
			var got []uint64
			if p := vrt.Try(func() { got = chk.Draw(dst, chk.PRNGDraws) }); p != nil {
				c.Violationf(name+".UnmarshalBinary|own-state|restored-state-panics", rp, "drawing from the restored generator panicked: %s", p.Msg)
				continue
			}
			for i := range want {
				if got[i] != want[i] {
					c.Violationf(name+".UnmarshalBinary|"+j.state+"|outputs-differ", rp,
						"after UnmarshalBinary(MarshalBinary()) into a %s generator output %d is %#x, the original gives %#x",
						[]string{"fresh", "previously used"}[which], i, got[i], want[i])
					break
				}
			}
		}
		// the hostile-input validator on the valid state (re-marshal equality etc.)
		report(c, t, name, state, 0, chk.PRNG(j.k, state))
		if c.WantSample() && ji == 7 {
			c.Sample(map[string]any{"codec": name, "state": j.state, "seed": seed, "outputs_before_marshal": step, "first_output_after": fmt.Sprintf("%#x", want[0])})
		}
	})
	total.flush(c)
}
