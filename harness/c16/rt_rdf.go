package main

import (
	"fmt"
	"strings"

	"gonum.org/v1/gonum/graph/formats/rdf"
	"gonum.org/v1/gonum/verifx/c16/chk"
	"gonum.org/v1/gonum/verifx/vrt"
)

var labelStart = []string{"a", "Z", "0", "9", "_", ":", "é", "日", "Ω", "\U00010000"}
var labelMid = []string{"a", "b", "0", "_", ":", "-", ".", "·", "̀", "‿", "é", "日", "c14n0", "b0", "z", "g"}

func blankLabel(r *vrt.Rand) string {
	s := labelStart[r.Intn(len(labelStart))]
	for k := r.Intn(5); k > 0; k-- {
		s += labelMid[r.Intn(len(labelMid))]
	}
	if strings.HasSuffix(s, ".") {
		s += "x"
	}
	return s
}

var iriSchemes = []string{"http", "https", "urn", "a", "mailto", "x-y.z+1", "tag"}
var iriChars = []string{"a", "Z", "0", "/", ".", "_", "~", "-", "#", "?", "=", "&", ":", "@", "!", "$", "'", "(", ")", "*", "+", ",", ";", "%41", "%e9", "é", "日本", "\U0001F600"}

func iriText(r *vrt.Rand) string {
	s := iriSchemes[r.Intn(len(iriSchemes))] + ":"
	if r.Intn(3) == 0 {
		s += "//example.org/"
	}
	for k := r.Intn(8); k > 0; k-- {
		s += iriChars[r.Intn(len(iriChars))]
	}
	return s
}

// literalAlphabet: everything an escaper can get wrong.
var literalAlphabet = []string{"a", " ", "\"", "\\", "\n", "\r", "\t", "\b", "\f", "'", "\x00", "\x1f", "\x7f", "\u0085", "\u00a0", "\u200b", "\u2028", "\ue000", "\ufffd", "\ufffe", "\U000e0001", "\U0010ffff", "é", "日本", "😀", "\\u0041", "\\n", "^^", "@en", "<", ">", ".", "#", "_:b"}

func literalText(r *vrt.Rand) string {
	s := ""
	for k := r.Intn(7); k > 0; k-- {
		s += literalAlphabet[r.Intn(len(literalAlphabet))]
	}
	return s
}

func langTag(r *vrt.Rand) string {
	s := "@" + []string{"en", "FR", "x", "zh"}[r.Intn(4)]
	for k := r.Intn(3); k > 0; k-- {
		s += "-" + []string{"US", "x1", "9", "Latn"}[r.Intn(4)]
	}
	return s
}

// genTerm builds a term through the package constructors and checks that
// Parts gives back what went in.
func genTerm(c *vrt.Ctx, t *tally, r *vrt.Rand, kinds string) (rdf.Term, bool) {
	kind := kinds[r.Intn(len(kinds))]
	var (
		term             rdf.Term
		err              error
		wantText, wantQ  string
		wantKind         rdf.Kind
		routine, inputDs string
	)
	p := vrt.Try(func() {
		switch kind {
		case 'b':
			wantText, wantKind, routine = blankLabel(r), rdf.Blank, "rdf.NewBlankTerm"
			inputDs = fmt.Sprintf("%q", wantText)
			term, err = rdf.NewBlankTerm(wantText)
		case 'i':
			wantText, wantKind, routine = iriText(r), rdf.IRI, "rdf.NewIRITerm"
			inputDs = fmt.Sprintf("%q", wantText)
			term, err = rdf.NewIRITerm(wantText)
		default:
			wantText, wantKind, routine = literalText(r), rdf.Literal, "rdf.NewLiteralTerm"
			switch r.Intn(3) {
			case 1:
				wantQ = langTag(r)
			case 2:
				wantQ = iriText(r)
			}
			inputDs = fmt.Sprintf("%q, %q", wantText, wantQ)
			term, err = rdf.NewLiteralTerm(wantText, wantQ)
		}
	})
	t.add(routine+"|generated", 1, true)
	rp := replay{Case: routine + "(" + inputDs + ")"}
	if p != nil {
		c.Violationf(routine+"|generated|panic", rp, "%s(%s) panicked: %s", routine, inputDs, p.Msg)
		return term, false
	}
	if err != nil {
		if kind == 'b' || kind == 'l' && !strings.Contains(wantQ, ":") {
			c.Violationf(routine+"|well-formed|rejected", rp, "%s(%s): %v", routine, inputDs, err)
		}
		// IRIs are vetted by net/url, which is stricter than the IRI grammar in
		// places; a rejection there is not judged.
		t.add(routine+"|rejected-by-net-url", 1, false)
		return term, false
	}
	var (
		text, qual string
		k          rdf.Kind
	)
	t.add("rdf.Term.Parts|constructed", 1, true)
	if p := vrt.Try(func() { text, qual, k, err = term.Parts() }); p != nil {
		c.Violationf("rdf.Term.Parts|constructed-term|panic", rp, "%s(%s) = %q; Parts panicked: %s", routine, inputDs, term.Value, p.Msg)
		return term, false
	}
	if err != nil || k != wantKind || text != wantText || qual != wantQ {
		c.Violationf("rdf.Term.Parts|constructed-"+string(kind)+"|differs-from-constructor-input", rp,
			"%s(%s) = %q; Parts() = (%q, %q, %v, %v)", routine, inputDs, term.Value, text, qual, k, err)
		return term, false
	}
	return term, true
}

var ws = []string{"", " ", "\t", "  ", " \t "}

// rawTerm writes a term directly from the grammar (escapes in every form).
func rawTerm(r *vrt.Rand, kinds string) string {
	switch kinds[r.Intn(len(kinds))] {
	case 'b':
		return "_:" + blankLabel(r)
	case 'i':
		s := "<" + iriText(r)
		if r.Intn(4) == 0 {
			s += []string{`\u0041`, `\U0001f600`, `\u00e9`}[r.Intn(3)]
		}
		return s + ">"
	}
	s := `"`
	for k := r.Intn(6); k > 0; k-- {
		s += []string{"a", " ", `\t`, `\b`, `\n`, `\r`, `\f`, `\"`, `\'`, `\\`, `\u0041`, `\u00e9`, `\uFFFF`, `\U0001F600`, `\U0010FFFF`, "é", "日", "😀", "'", "#", ".", "<", ">", "@", "^", "\t", "\x00", "\x7f"}[r.Intn(28)]
	}
	s += `"`
	switch r.Intn(3) {
	case 1:
		s += langTag(r)
	case 2:
		s += "^^<" + iriText(r) + ">"
	}
	return s
}

func runNQuads(c *vrt.Ctx) {
	total := newTally()
	n := c.Pick(6000, 80000)
	vrt.Parallel(n, func(i int) {
		t := newTally()
		defer total.merge(t)
		r := c.RNG("nquads/rt", i)
		c.LastCase(fmt.Sprintf("nquads roundtrip case %d", i))
		if i%2 == 0 {
			// statement built from constructed terms -> String -> ParseNQuad
			s, ok1 := genTerm(c, t, r, "ib")
			p, ok2 := genTerm(c, t, r, "i")
			o, ok3 := genTerm(c, t, r, "ibl")
			st := rdf.Statement{Subject: s, Predicate: p, Object: o}
			ok4 := true
			if r.Bool() {
				st.Label, ok4 = genTerm(c, t, r, "ib")
			}
			if !(ok1 && ok2 && ok3 && ok4) {
				return
			}
			line := st.String()
			rp := replay{Decoder: "rdf.ParseNQuad", Input: fmt.Sprintf("%q", line)}
			var back *rdf.Statement
			var err error
			t.add("rdf.ParseNQuad|roundtrip|constructed", 1, true)
			if pn := vrt.Try(func() { back, err = rdf.ParseNQuad(line) }); pn != nil {
				c.Violationf("rdf.ParseNQuad|own-string|panic", rp, "ParseNQuad(Statement.String()) panicked: %s", pn.Msg)
				return
			}
			if err != nil {
				c.Violationf("rdf.ParseNQuad|own-string|rejected", rp, "ParseNQuad(%q): %v (the line is the String() of a statement built with the term constructors)", line, err)
				return
			}
			res := chk.NQuad(line)
			if *back != st && !res.Has("rdf.ParseNQuad|accepted|terms-differ-from-tokens") {
				// (when the parser's terms differ from the tokens of the line the
				// validator reports it under its own signature)
				c.Violationf("rdf.ParseNQuad|own-string|statement-differs", rp, "ParseNQuad(%q) = %+v, want %+v", line, *back, st)
			}
			report(c, t, "rdf.ParseNQuad", []byte(line), 0, res)
			if c.WantSample() && i == 0 {
				c.Sample(map[string]any{"codec": "rdf.ParseNQuad", "line": clipS(line, 200)})
			}
			return
		}
		// statement written from the grammar with hostile spacing and escapes
		line := ws[r.Intn(len(ws))] + rawTerm(r, "ib") + ws[r.Intn(len(ws))] + rawTerm(r, "i") + ws[r.Intn(len(ws))] + rawTerm(r, "ibl")
		if r.Bool() {
			line += ws[r.Intn(len(ws))] + rawTerm(r, "ib")
		}
		line += ws[r.Intn(len(ws))] + "." + ws[r.Intn(len(ws))]
		if r.Intn(4) == 0 {
			line += "# comment " + literalText(r)
			line = strings.NewReplacer("\n", " ", "\r", " ").Replace(line)
		}
		ref := chk.TokenizeNQuad(line)
		rp := replay{Decoder: "rdf.ParseNQuad", Input: fmt.Sprintf("%q", line)}
		res := chk.NQuad(line)
		if ref.OK && !res.Accepted && len(res.Findings) == 0 {
			_, err := rdf.ParseNQuad(line)
			// net/url may refuse an IRI the grammar admits; only lines whose
			// IRIs are plain are judged.
			if !strings.Contains(fmt.Sprint(err), "parse ") {
				c.Violationf("rdf.ParseNQuad|well-formed|rejected", rp, "ParseNQuad(%q): %v; the line is a well-formed N-Quads statement with absolute IRIs", line, err)
			}
		}
		report(c, t, "rdf.ParseNQuad", []byte(line), 0, res)
	})
	// documents through the Decoder
	docs := c.Pick(150, 1500)
	vrt.Parallel(docs, func(i int) {
		t := newTally()
		defer total.merge(t)
		r := c.RNG("nquads/doc", i)
		c.LastCase(fmt.Sprintf("nquads decoder document %d", i))
		var sb strings.Builder
		var lines []string
		pool := make([]string, 1+r.Intn(6))
		for k := range pool {
			pool[k] = rawTerm(r, "ib")
		}
		for k := r.Intn(40); k > 0; k-- {
			switch r.Intn(8) {
			case 0:
				sb.WriteString("# " + strings.NewReplacer("\n", " ", "\r", " ").Replace(literalText(r)))
			case 1:
				sb.WriteString(ws[r.Intn(len(ws))])
			default:
				line := pool[r.Intn(len(pool))] + " " + rawTerm(r, "i") + " "
				if r.Bool() {
					line += pool[r.Intn(len(pool))]
				} else {
					line += rawTerm(r, "ibl")
				}
				if r.Intn(3) == 0 {
					line += " " + pool[r.Intn(len(pool))]
				}
				line += " ."
				lines = append(lines, line)
				sb.WriteString(ws[r.Intn(len(ws))] + line + ws[r.Intn(len(ws))])
			}
			sb.WriteString([]string{"\n", "\r\n", "\n\n"}[r.Intn(3)])
		}
		doc := []byte(sb.String())
		for rk := 0; rk < chk.NumReaderKinds; rk++ {
			res := chk.RDFDecoder(doc, rk)
			report(c, t, "rdf.Decoder", doc, rk, res)
		}
		// and the statements come out in order with the texts written
		dec := rdf.NewDecoder(strings.NewReader(string(doc)))
		for li, want := range lines {
			ref := chk.TokenizeNQuad(want)
			st, err := dec.Unmarshal()
			t.add("rdf.Decoder|roundtrip|document", 1, true)
			if err != nil {
				if ref.OK && !strings.Contains(err.Error(), "parse ") {
					c.Violationf("rdf.Decoder|well-formed-document|rejected", replay{Decoder: "rdf.Decoder", Input: fmt.Sprintf("%q", clipS(string(doc), 2000))}, "statement %d (%q): %v", li, want, err)
				}
				break
			}
			if vr := chk.NQuad(want); vr.Has("rdf.ParseNQuad|accepted|terms-differ-from-tokens") {
				continue // reported by the validator under its own signature
			}
			if ref.OK && (st.Subject.Value != ref.Subject || st.Predicate.Value != ref.Predicate || st.Object.Value != ref.Object || st.Label.Value != ref.Label) {
				c.Violationf("rdf.Decoder|well-formed-document|statement-differs", replay{Decoder: "rdf.Decoder", Input: fmt.Sprintf("%q", clipS(string(doc), 2000))}, "statement %d: got %q, written %q", li, st.String(), want)
				break
			}
		}
	})
	total.flush(c)
}
