// Package fuzz holds the coverage-guided targets of C16 (run by vctl with
// go test -fuzz=^Target$ -fuzztime=Nx). Each target feeds the fuzzer's bytes
// to the same validator the monitor uses. Signatures that the fixed
// regression inputs already produce on the tree under test are reported by
// the monitor under stable names and are not failures here.
package fuzz

import (
	"os"
	"strconv"
	"sync"
	"testing"

	"gonum.org/v1/gonum/verifx/c16/chk"
)

var (
	knownOnce sync.Once
	known     map[string]bool
)

func run(f *testing.F, decoder string) {
	seed := uint64(1)
	if s, err := strconv.ParseUint(os.Getenv("VERIF_SEED"), 10, 64); err == nil {
		seed = s
	}
	for _, b := range chk.Corpus(decoder, seed) {
		f.Add(b, 0)
	}
	for _, r := range chk.Regressions {
		if r.Decoder == decoder {
			f.Add(r.Input, r.Arg)
		}
	}
	f.Fuzz(func(t *testing.T, data []byte, arg int) {
		knownOnce.Do(func() { known = chk.ActiveKnown() })
		if len(data) > 1<<16 {
			return
		}
		res := chk.RunDecoder(decoder, data, arg)
		for _, fd := range res.Findings {
			if known[fd.Sig] {
				continue
			}
			t.Fatalf("%s\n%s", fd.Sig, fd.Detail)
		}
	})
}

func FuzzGraph6(f *testing.F)          { run(f, "graph6") }
func FuzzDigraph6(f *testing.F)        { run(f, "digraph6") }
func FuzzDotParse(f *testing.F)        { run(f, "dot.Parse") }
func FuzzDotUnmarshal(f *testing.F)    { run(f, "dot.Unmarshal") }
func FuzzNQuad(f *testing.F)           { run(f, "rdf.ParseNQuad") }
func FuzzRDFDecoder(f *testing.F)      { run(f, "rdf.Decoder") }
func FuzzDense(f *testing.F)           { run(f, "mat.Dense.UnmarshalBinary") }
func FuzzDenseFrom(f *testing.F)       { run(f, "mat.Dense.UnmarshalBinaryFrom") }
func FuzzVecDense(f *testing.F)        { run(f, "mat.VecDense.UnmarshalBinary") }
func FuzzVecDenseFrom(f *testing.F)    { run(f, "mat.VecDense.UnmarshalBinaryFrom") }
func FuzzHLL32(f *testing.F)           { run(f, "card.HyperLogLog32") }
func FuzzHLL64(f *testing.F)           { run(f, "card.HyperLogLog64") }
func FuzzMT19937(f *testing.F)         { run(f, "prng.MT19937") }
func FuzzMT19937_64(f *testing.F)      { run(f, "prng.MT19937_64") }
func FuzzSplitMix64(f *testing.F)      { run(f, "prng.SplitMix64") }
func FuzzXoshiroPlus(f *testing.F)     { run(f, "prng.Xoshiro256plus") }
func FuzzXoshiroPlusPlus(f *testing.F) { run(f, "prng.Xoshiro256plusplus") }
func FuzzXoshiroStarStar(f *testing.F) { run(f, "prng.Xoshiro256starstar") }
func FuzzCytoElem(f *testing.F)        { run(f, "cytoscapejs.GraphElem") }
func FuzzCytoNodeEdge(f *testing.F)    { run(f, "cytoscapejs.GraphNodeEdge") }
func FuzzSigma(f *testing.F)           { run(f, "sigmajs.Graph") }
func FuzzGexf(f *testing.F)            { run(f, "gexf12.Content") }
