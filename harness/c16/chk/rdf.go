package chk

import (
	"bytes"
	"errors"
	"fmt"
	"io"
	"strings"
	"testing/iotest"

	"gonum.org/v1/gonum/graph/formats/rdf"
)

// ---- reference N-Quads tokenizer (W3C RDF 1.1 N-Quads grammar) ---------------

func isHex(r rune) bool {
	return '0' <= r && r <= '9' || 'a' <= r && r <= 'f' || 'A' <= r && r <= 'F'
}

func pnCharsBase(r rune) bool {
	switch {
	case 'A' <= r && r <= 'Z', 'a' <= r && r <= 'z',
		0xc0 <= r && r <= 0xd6, 0xd8 <= r && r <= 0xf6, 0xf8 <= r && r <= 0x2ff,
		0x370 <= r && r <= 0x37d, 0x37f <= r && r <= 0x1fff, 0x200c <= r && r <= 0x200d,
		0x2070 <= r && r <= 0x218f, 0x2c00 <= r && r <= 0x2fef, 0x3001 <= r && r <= 0xd7ff,
		0xf900 <= r && r <= 0xfdcf, 0xfdf0 <= r && r <= 0xfffd, 0x10000 <= r && r <= 0xeffff:
		return true
	}
	return false
}

func pnCharsU(r rune) bool { return pnCharsBase(r) || r == '_' || r == ':' }

func pnChars(r rune) bool {
	return pnCharsU(r) || r == '-' || '0' <= r && r <= '9' || r == 0xb7 ||
		0x300 <= r && r <= 0x36f || 0x203f <= r && r <= 0x2040
}

// uchar returns the length of a UCHAR at d[i:] (0 if none).
func uchar(d []rune, i int) int {
	if i+1 >= len(d) || d[i] != '\\' {
		return 0
	}
	n := 0
	switch d[i+1] {
	case 'u':
		n = 4
	case 'U':
		n = 8
	default:
		return 0
	}
	if i+2+n > len(d) {
		return 0
	}
	for _, r := range d[i+2 : i+2+n] {
		if !isHex(r) {
			return 0
		}
	}
	return 2 + n
}

// scanIRIREF returns the end of the IRIREF starting at d[i] ('<'), or -1.
func scanIRIREF(d []rune, i int) int {
	if i >= len(d) || d[i] != '<' {
		return -1
	}
	for j := i + 1; j < len(d); {
		r := d[j]
		switch {
		case r == '>':
			return j + 1
		case r == '\\':
			n := uchar(d, j)
			if n == 0 {
				return -1
			}
			j += n
		case r <= 0x20, r == '<', r == '"', r == '{', r == '}', r == '|', r == '^', r == '`':
			return -1
		default:
			j++
		}
	}
	return -1
}

// scanBlank returns the end of the BLANK_NODE_LABEL token starting at d[i]
// ("_:"), longest match, or -1.
func scanBlank(d []rune, i int) int {
	if i+2 >= len(d) || d[i] != '_' || d[i+1] != ':' {
		return -1
	}
	j := i + 2
	if !(pnCharsU(d[j]) || '0' <= d[j] && d[j] <= '9') {
		return -1
	}
	j++
	end := j
	for j < len(d) && (pnChars(d[j]) || d[j] == '.') {
		j++
		if d[j-1] != '.' {
			end = j
		}
	}
	return end
}

// scanLiteral returns the end of the literal token (with optional datatype or
// language tag) starting at d[i] ('"'), or -1.
func scanLiteral(d []rune, i int) int {
	if i >= len(d) || d[i] != '"' {
		return -1
	}
	j := i + 1
	for {
		if j >= len(d) {
			return -1
		}
		r := d[j]
		if r == '"' {
			j++
			break
		}
		switch {
		case r == '\\':
			if n := uchar(d, j); n != 0 {
				j += n
				continue
			}
			if j+1 < len(d) && strings.ContainsRune(`tbnrf"'\`, d[j+1]) {
				j += 2
				continue
			}
			return -1
		case r == '\n', r == '\r':
			return -1
		default:
			j++
		}
	}
	switch {
	case j+1 < len(d) && d[j] == '^' && d[j+1] == '^':
		e := scanIRIREF(d, j+2)
		if e < 0 {
			return -1
		}
		return e
	case j < len(d) && d[j] == '@':
		k := j + 1
		for k < len(d) && ('a' <= d[k] && d[k] <= 'z' || 'A' <= d[k] && d[k] <= 'Z') {
			k++
		}
		if k == j+1 {
			return -1
		}
		for k < len(d) && d[k] == '-' {
			m := k + 1
			for m < len(d) && ('a' <= d[m] && d[m] <= 'z' || 'A' <= d[m] && d[m] <= 'Z' || '0' <= d[m] && d[m] <= '9') {
				m++
			}
			if m == k+1 {
				break // '-' not part of the tag
			}
			k = m
		}
		return k
	}
	return j
}

// RefQuad is the token-level reading of one N-Quads statement.
type RefQuad struct {
	OK                                bool
	Subject, Predicate, Object, Label string
}

// TokenizeNQuad reads one statement (no EOL) by longest-match tokenization.
// It is deliberately not a validator of IRIs (absolute or not).
func TokenizeNQuad(line string) RefQuad {
	d := []rune(line)
	i := 0
	ws := func() {
		for i < len(d) && (d[i] == ' ' || d[i] == '\t') {
			i++
		}
	}
	var q RefQuad
	term := func(kinds string) (string, bool) {
		ws()
		if i >= len(d) {
			return "", false
		}
		e := -1
		switch {
		case d[i] == '<' && strings.Contains(kinds, "i"):
			e = scanIRIREF(d, i)
		case d[i] == '_' && strings.Contains(kinds, "b"):
			e = scanBlank(d, i)
		case d[i] == '"' && strings.Contains(kinds, "l"):
			e = scanLiteral(d, i)
		}
		if e < 0 {
			return "", false
		}
		s := string(d[i:e])
		i = e
		return s, true
	}
	var ok bool
	if q.Subject, ok = term("ib"); !ok {
		return q
	}
	if q.Predicate, ok = term("i"); !ok {
		return q
	}
	if q.Object, ok = term("ibl"); !ok {
		return q
	}
	ws()
	if i < len(d) && d[i] != '.' {
		if q.Label, ok = term("ib"); !ok {
			return q
		}
		ws()
	}
	if i >= len(d) || d[i] != '.' {
		return q
	}
	i++
	ws()
	if i < len(d) && d[i] != '#' {
		return q
	}
	q.OK = true
	return q
}

// RefUnescape interprets ECHAR and UCHAR sequences (numeric escapes that
// are not Unicode scalar values give U+FFFD, as utf8 encoding does).
func RefUnescape(d []rune) string {
	var sb strings.Builder
	for i := 0; i < len(d); i++ {
		if d[i] != '\\' || i+1 >= len(d) {
			sb.WriteRune(d[i])
			continue
		}
		if n := uchar(d, i); n != 0 {
			var v rune
			for _, h := range d[i+2 : i+n] {
				v <<= 4
				switch {
				case '0' <= h && h <= '9':
					v |= h - '0'
				case 'a' <= h && h <= 'f':
					v |= h - 'a' + 10
				default:
					v |= h - 'A' + 10
				}
				if v > 0x10ffff {
					v = 0x110000 // saturate: not a scalar value
				}
			}
			if v > 0x10ffff || 0xd800 <= v && v <= 0xdfff {
				v = 0xfffd
			}
			sb.WriteRune(v)
			i += n - 1
			continue
		}
		i++
		switch d[i] {
		case 't':
			sb.WriteByte('\t')
		case 'b':
			sb.WriteByte('\b')
		case 'n':
			sb.WriteByte('\n')
		case 'r':
			sb.WriteByte('\r')
		case 'f':
			sb.WriteByte('\f')
		default:
			sb.WriteRune(d[i])
		}
	}
	return sb.String()
}

// refParts splits a well-formed term token into the parts Term.Parts
// documents.
func refParts(tok string) (text, qual string, kind rdf.Kind, ok bool) {
	d := []rune(tok)
	switch {
	case len(d) >= 2 && d[0] == '<' && scanIRIREF(d, 0) == len(d):
		return RefUnescape(d[1 : len(d)-1]), "", rdf.IRI, true
	case strings.HasPrefix(tok, "_:") && scanBlank(d, 0) == len(d):
		return tok[2:], "", rdf.Blank, true
	case len(d) >= 2 && d[0] == '"' && scanLiteral(d, 0) == len(d):
		// closing quote: the first unescaped one
		j := 1
		for d[j] != '"' {
			if d[j] == '\\' {
				if n := uchar(d, j); n != 0 {
					j += n
					continue
				}
				j++
			}
			j++
		}
		text = RefUnescape(d[1:j])
		rest := d[j+1:]
		switch {
		case len(rest) > 2 && rest[0] == '^':
			qual = RefUnescape(rest[3 : len(rest)-1])
		case len(rest) > 0:
			qual = string(rest)
		}
		return text, qual, rdf.Literal, true
	}
	return "", "", rdf.Invalid, false
}

// ---- ParseNQuad on hostile text --------------------------------------------------

func termKinds(pos int) string {
	switch pos {
	case 0, 3:
		return "IRI or blank node"
	case 1:
		return "IRI"
	}
	return "IRI, blank node or literal"
}

// NQuad validates rdf.ParseNQuad on one hostile line.
func NQuad(line string) (res Result) {
	var (
		st  *rdf.Statement
		err error
	)
	res.Calls++
	if p := try(func() { st, err = rdf.ParseNQuad(line) }); p != "" {
		res.Class = "rdf.ParseNQuad|panic"
		res.add("rdf.ParseNQuad|hostile|panic", "ParseNQuad(%q) panicked: %s", clip(line, 200), p)
		return res
	}
	if err != nil {
		res.Class = "rdf.ParseNQuad|rejected"
		if st != nil {
			res.add("rdf.ParseNQuad|rejected|non-nil-statement", "ParseNQuad(%q) returned an error and a statement", clip(line, 200))
		}
		return res
	}
	res.Accepted = true
	res.Class = "rdf.ParseNQuad|accepted"
	if st == nil {
		res.add("rdf.ParseNQuad|accepted|nil-statement", "ParseNQuad(%q) = nil, nil", clip(line, 200))
		return res
	}
	terms := []rdf.Term{st.Subject, st.Predicate, st.Object, st.Label}
	names := []string{"Subject", "Predicate", "Object", "Label"}
	bad := false
	for pos, t := range terms {
		if pos == 3 && t.Value == "" {
			continue
		}
		if t.UID != 0 {
			res.add("rdf.ParseNQuad|accepted|uid-not-zero", "ParseNQuad(%q): %s UID = %d (documented: zero)", clip(line, 200), names[pos], t.UID)
		}
		var (
			kind rdf.Kind
			perr error
		)
		res.Calls++
		if p := try(func() { _, _, kind, perr = t.Parts() }); p != "" {
			res.add("rdf.Term.Parts|parsed-term|panic", "ParseNQuad(%q) accepted; %s term %q panics in Parts: %s", clip(line, 200), names[pos], clip(t.Value, 80), p)
			bad = true
			continue
		}
		okKind := false
		switch pos {
		case 0, 3:
			okKind = kind == rdf.IRI || kind == rdf.Blank
		case 1:
			okKind = kind == rdf.IRI
		case 2:
			okKind = kind == rdf.IRI || kind == rdf.Blank || kind == rdf.Literal
		}
		if perr == nil && okKind {
			var text, qual string
			try(func() { text, qual, _, _ = t.Parts() })
			if wt, wq, wk, ok := refParts(t.Value); ok && (wt != text || wq != qual || wk != kind) {
				res.add("rdf.Term.Parts|parsed-term|differs-from-escape-rules", "term %q: Parts() = (%q, %q, %v), the N-Quads escape rules give (%q, %q, %v)", clip(t.Value, 80), clip(text, 80), clip(qual, 80), kind, clip(wt, 80), clip(wq, 80), wk)
			}
		}
		if perr != nil || !okKind {
			bad = true
			res.add("rdf.ParseNQuad|accepted|term-invalid", "ParseNQuad(%q) = %q: %s term %q is not a well-formed %s (Parts: kind=%v err=%v)", clip(line, 200), st.String(), names[pos], clip(t.Value, 80), termKinds(pos), kind, perr)
		}
	}
	// token boundaries against the reference tokenizer
	if ref := TokenizeNQuad(line); ref.OK {
		if ref.Subject != st.Subject.Value || ref.Predicate != st.Predicate.Value || ref.Object != st.Object.Value || ref.Label != st.Label.Value {
			bad = true
			res.add("rdf.ParseNQuad|accepted|terms-differ-from-tokens", "ParseNQuad(%q) = {%q %q %q %q}; longest-match tokens are {%q %q %q %q}", clip(line, 200),
				st.Subject.Value, st.Predicate.Value, st.Object.Value, st.Label.Value, ref.Subject, ref.Predicate, ref.Object, ref.Label)
		}
	}
	// print / parse round trip
	var (
		printed string
		st2     *rdf.Statement
	)
	res.Calls++
	if p := try(func() { printed = st.String(); st2, err = rdf.ParseNQuad(printed) }); p != "" {
		res.add("rdf.ParseNQuad|reprint|panic", "ParseNQuad(%q) accepted; String/ParseNQuad of the result panicked: %s", clip(line, 200), p)
		return res
	}
	if err != nil {
		res.add("rdf.ParseNQuad|accepted|string-not-reparsable", "ParseNQuad(%q) accepted; its String() %q does not parse: %v", clip(line, 200), clip(printed, 200), err)
	} else if *st2 != *st {
		res.add("rdf.ParseNQuad|accepted|reparse-differs", "ParseNQuad(%q) = %+v; ParseNQuad(String()) = %+v", clip(line, 200), *st, *st2)
	}
	_ = bad
	return res
}

// ---- Decoder on hostile streams -----------------------------------------------

// errInjected is returned by the failing reader.
var errInjected = errors.New("c16: injected read error")

type failAfter struct {
	r io.Reader
	n int
}

func (f *failAfter) Read(p []byte) (int, error) {
	if f.n <= 0 {
		return 0, errInjected
	}
	if len(p) > f.n {
		p = p[:f.n]
	}
	n, err := f.r.Read(p)
	f.n -= n
	return n, err
}

// Reader kinds for the stream decoders.
const (
	ReaderPlain = iota
	ReaderOneByte
	ReaderDataErr
	ReaderHalf
	NumReaderKinds
)

// MakeReader wraps b in the reader kind.
func MakeReader(b []byte, kind int) io.Reader {
	r := bytes.NewReader(b)
	switch kind {
	case ReaderOneByte:
		return iotest.OneByteReader(r)
	case ReaderDataErr:
		return iotest.DataErrReader(r)
	case ReaderHalf:
		return iotest.HalfReader(r)
	}
	return r
}

// RDFDecoder validates rdf.Decoder on a hostile multi-line document: it
// must agree with line-wise ParseNQuad and assign consistent UIDs.
func RDFDecoder(doc []byte, readerKind int) (res Result) {
	res.Class = fmt.Sprintf("rdf.Decoder|reader%d", readerKind)
	msg := try(func() {
		dec := rdf.NewDecoder(MakeReader(doc, readerKind))
		lines := strings.Split(string(doc), "\n")
		li := 0
		uid := map[string]int64{}
		rev := map[int64]string{}
		for {
			st, err := dec.Unmarshal()
			res.Calls++
			// next non-empty, non-comment line
			var want string
			found := false
			for li < len(lines) {
				l := strings.TrimSpace(lines[li])
				li++
				if len(lines[li-1]) > 60000 {
					// bufio.Scanner token limit: not judged
					return
				}
				if l == "" || l[0] == '#' {
					continue
				}
				want, found = l, true
				break
			}
			if err == io.EOF {
				if found {
					res.add("rdf.Decoder|stream|stops-early", "Decoder returned io.EOF before line %q", clip(want, 120))
				}
				if st != nil {
					res.add("rdf.Decoder|stream|statement-with-error", "Decoder returned a statement together with io.EOF")
				}
				return
			}
			if !found {
				res.add("rdf.Decoder|stream|extra-statement", "Decoder returned (%v, %v) after the last line", st, err)
				return
			}
			ref, rerr := rdf.ParseNQuad(want)
			if (err != nil) != (rerr != nil) {
				res.add("rdf.Decoder|stream|differs-from-ParseNQuad", "line %q: Decoder err=%v, ParseNQuad err=%v", clip(want, 120), err, rerr)
				return
			}
			if err != nil {
				if st != nil {
					res.add("rdf.Decoder|stream|statement-with-error", "Decoder returned a statement together with %v", err)
				}
				return // the decoder is not required to resynchronise
			}
			res.Accepted = true
			if st.Subject.Value != ref.Subject.Value || st.Predicate.Value != ref.Predicate.Value || st.Object.Value != ref.Object.Value || st.Label.Value != ref.Label.Value {
				res.add("rdf.Decoder|stream|differs-from-ParseNQuad", "line %q: Decoder %q, ParseNQuad %q", clip(want, 120), st.String(), ref.String())
			}
			for pos, t := range []rdf.Term{st.Subject, st.Predicate, st.Object, st.Label} {
				if pos == 3 && t.Value == "" {
					if t.UID != 0 {
						res.add("rdf.Decoder|stream|uid-inconsistent", "empty label has UID %d", t.UID)
					}
					continue
				}
				if t.UID < 1 {
					res.add("rdf.Decoder|stream|uid-inconsistent", "term %q has UID %d (documented: based from 1)", clip(t.Value, 60), t.UID)
				}
				if id, ok := uid[t.Value]; ok && id != t.UID {
					res.add("rdf.Decoder|stream|uid-inconsistent", "term %q has UIDs %d and %d", clip(t.Value, 60), id, t.UID)
				}
				if v, ok := rev[t.UID]; ok && v != t.Value {
					res.add("rdf.Decoder|stream|uid-inconsistent", "UID %d names %q and %q", t.UID, clip(v, 60), clip(t.Value, 60))
				}
				uid[t.Value] = t.UID
				rev[t.UID] = t.Value
			}
			if tm := dec.Terms(); len(tm) != len(uid) {
				res.add("rdf.Decoder|stream|uid-inconsistent", "Terms() has %d entries after %d distinct terms", len(tm), len(uid))
			}
		}
	})
	if msg != "" {
		res.add("rdf.Decoder|hostile|panic", "Decoder on %q panicked: %s", clip(string(doc), 200), msg)
	}
	return res
}
