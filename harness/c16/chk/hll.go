package chk

import (
	"bytes"
	"encoding/gob"
	"fmt"
	"hash"
	"hash/fnv"
	"math"

	"gonum.org/v1/gonum/stat/card"
)

func init() {
	card.RegisterHash(fnv.New32a)
	card.RegisterHash(fnv.New64a)
	card.RegisterHash(fnv.New32)
	card.RegisterHash(fnv.New64)
}

// Hash type names as MarshalBinary writes them.
const (
	NameFNV32a = "*hash/fnv.sum32a"
	NameFNV64a = "*hash/fnv.sum64a"
	NameFNV32  = "*hash/fnv.sum32"
	NameFNV64  = "*hash/fnv.sum64"
)

// HLLMessage is the content of a marshalled sketch: four gob values.
type HLLMessage struct {
	Size     uint8
	Hash     string
	P        uint8
	Register []uint8
}

// EncodeHLL writes the message the way MarshalBinary documents it (name of
// the hash function, precision, sketch data, preceded by the hash size).
func EncodeHLL(m HLLMessage) []byte {
	var buf bytes.Buffer
	enc := gob.NewEncoder(&buf)
	enc.Encode(m.Size)
	enc.Encode(m.Hash)
	enc.Encode(m.P)
	enc.Encode(m.Register)
	return buf.Bytes()
}

// DecodeHLL reads a message back; ok is false when it is not four gob values
// of the right types.
func DecodeHLL(b []byte) (m HLLMessage, ok bool) {
	p := try(func() {
		dec := gob.NewDecoder(bytes.NewReader(b))
		if dec.Decode(&m.Size) != nil || dec.Decode(&m.Hash) != nil || dec.Decode(&m.P) != nil || dec.Decode(&m.Register) != nil {
			return
		}
		ok = true
	})
	return m, ok && p == ""
}

// hllAPI abstracts the two sketch types.
type hllAPI interface {
	Write([]byte) (int, error)
	Count() float64
	MarshalBinary() ([]byte, error)
	UnmarshalBinary([]byte) error
}

// HLLKind describes HyperLogLog32 or HyperLogLog64.
type HLLKind struct {
	Bits    int
	Routine string
	Zero    func() hllAPI
	New     func(p int, alt bool) hllAPI
	Name    string // registered name of the default hash
	AltName string
}

func new32(alt bool) hash.Hash32 {
	if alt {
		return fnv.New32()
	}
	return fnv.New32a()
}

func new64(alt bool) hash.Hash64 {
	if alt {
		return fnv.New64()
	}
	return fnv.New64a()
}

var (
	HLL32 = HLLKind{32, "card.HyperLogLog32", func() hllAPI { return &card.HyperLogLog32{} },
		func(p int, alt bool) hllAPI { h, _ := card.NewHyperLogLog32(p, new32(alt)); return h }, NameFNV32a, NameFNV32}
	HLL64 = HLLKind{64, "card.HyperLogLog64", func() hllAPI { return &card.HyperLogLog64{} },
		func(p int, alt bool) hllAPI { h, _ := card.NewHyperLogLog64(p, new64(alt)); return h }, NameFNV64a, NameFNV64}
	HLLKinds = []HLLKind{HLL32, HLL64}
)

// hllClass classifies a message for a kind.
func hllClass(k HLLKind, m HLLMessage, ok bool) string {
	switch {
	case !ok:
		return "undecodable"
	case int(m.Size) != k.Bits:
		return "other-hash-size"
	case m.Hash != k.Name && m.Hash != k.AltName:
		return "unknown-hash"
	case m.P < 4 || int(m.P) >= k.Bits:
		// (precision == hash size would mean 2^bits registers; the constructors
		// accept it and build a sketch without registers, which is unusable)
		return "precision-out-of-range"
	case len(m.Register) != 1<<m.P:
		return "register-length-mismatch"
	}
	for _, r := range m.Register {
		if int(r) > k.Bits-int(m.P)+1 {
			return "register-value-impossible"
		}
	}
	return "well-formed"
}

// HLL validates UnmarshalBinary of one sketch type on hostile bytes with a
// zero-value receiver (hash taken from the registry) and with a receiver
// holding the default hash.
func HLL(k HLLKind, b []byte) (res Result) {
	routine := k.Routine + ".UnmarshalBinary"
	msg, ok := DecodeHLL(b)
	cls := hllClass(k, msg, ok)
	res.Class = routine + "|" + cls
	var freshEnc []byte // re-encoding of the value decoded into the zero receiver
	for recv := 0; recv < 3; recv++ {
		var h hllAPI
		var before []byte
		switch recv {
		case 0:
			h = k.Zero()
		case 1:
			h = k.New(5, false)
		default:
			// a receiver that already holds a different valid sketch
			h = k.New(6, false)
			for i := 0; i < 40; i++ {
				h.Write([]byte{byte(i), 'h', byte(i * 7)})
			}
			before, _ = h.MarshalBinary()
		}
		var err error
		res.Calls++
		if p := try(func() { err = h.UnmarshalBinary(b) }); p != "" {
			res.add(routine+"|"+cls+"|panic", "%s on %d hostile bytes panicked: %s", routine, len(b), p)
			continue
		}
		if err != nil {
			if cls == "well-formed" && (recv == 0 || msg.Hash == k.Name) {
				res.add(routine+"|well-formed|rejected", "%s rejects a well-formed sketch (p=%d, hash %s): %v", routine, msg.P, msg.Hash, err)
			}
			if recv == 2 {
				// After a rejected decode the receiver must be unchanged or at
				// least a self-consistent sketch (nothing more is documented).
				res.Calls += 3
				if p := try(func() {
					after, merr := h.MarshalBinary()
					if merr != nil {
						res.add(routine+"|rejected-input|receiver-inconsistent", "after %s returned %v the receiver (a valid sketch before the call) cannot be marshalled: %v", routine, err, merr)
						return
					}
					if !bytes.Equal(after, before) {
						am, ok := DecodeHLL(after)
						if c := hllClass(k, am, ok); c != "well-formed" && c != "register-value-impossible" {
							res.add(routine+"|rejected-input|receiver-inconsistent", "after %s returned %v the receiver (precision 6, 64 registers before the call) holds %s (%s)", routine, err, clipMsg(am), c)
						}
					}
					for i := 0; i < 64; i++ {
						h.Write([]byte{byte(i), byte(i >> 2), 'y'})
					}
					_ = h.Count()
				}); p != "" {
					res.add(routine+"|rejected-input|receiver-inconsistent", "after %s returned %v, using the receiver (a valid sketch before the call) panicked: %s", routine, err, p)
				}
			}
			continue
		}
		res.Accepted = true
		switch cls {
		case "undecodable", "other-hash-size", "unknown-hash":
			res.add(routine+"|"+cls+"|accepted", "%s returned nil for a message that is not a %d-bit sketch with a registered hash (%+v decodable=%v)", routine, k.Bits, clipMsg(msg), ok)
			continue
		case "precision-out-of-range", "register-length-mismatch":
			res.add(routine+"|"+cls+"|accepted", "%s returned nil for a sketch with precision %d and %d registers", routine, msg.P, len(msg.Register))
			// show what the inconsistent sketch does
			res.Calls++
			if p := try(func() {
				for i := 0; i < 64; i++ {
					h.Write([]byte{byte(i), byte(i >> 3), 'x'})
				}
				_ = h.Count()
			}); p != "" {
				res.add(k.Routine+".Write|"+cls+"|panic", "sketch restored from a message with precision %d and %d registers: Write/Count panicked: %s", msg.P, len(msg.Register), p)
			}
			continue
		}
		if recv >= 1 && msg.Hash != k.Name {
			res.add(routine+"|mismatched-hash|accepted", "%s into a receiver with hash %s accepts a sketch made with %s (documented: must be the same type)", routine, k.Name, msg.Hash)
			continue
		}
		// well-formed (or impossible register values, which are not judged):
		// the restored sketch must re-marshal to the same message and work.
		res.Calls += 3
		if p := try(func() {
			re, err := h.MarshalBinary()
			if err != nil {
				res.add(routine+"|"+cls+"|remarshal-fails", "MarshalBinary of the restored sketch: %v", err)
				return
			}
			m2, ok2 := DecodeHLL(re)
			if !ok2 || m2.Size != msg.Size || m2.Hash != msg.Hash || m2.P != msg.P || !bytes.Equal(m2.Register, msg.Register) {
				res.add(routine+"|"+cls+"|remarshal-differs", "restored sketch marshals to %+v, the message was %+v", clipMsg(m2), clipMsg(msg))
			}
			// nothing of the previous content of the receiver may survive
			if recv == 0 {
				freshEnc = re
			} else if freshEnc != nil && !bytes.Equal(re, freshEnc) {
				res.add(routine+"|used-receiver|differs-from-fresh-receiver", "decoding the same message into a receiver that held another sketch gives %s, into a zero value %d bytes of another encoding", clipMsg(m2), len(freshEnc))
			}
			if cls == "well-formed" {
				c := h.Count()
				if math.IsNaN(c) || c < 0 {
					res.add(k.Routine+".Count|restored|not-a-count", "Count of a restored well-formed sketch = %v", c)
				}
				h.Write([]byte("c16"))
			}
		}); p != "" {
			res.add(k.Routine+"|restored-"+cls+"|panic", "using a sketch restored from a %s message panicked: %s", cls, p)
		}
	}
	return res
}

func clipMsg(m HLLMessage) string {
	return fmt.Sprintf("{size=%d hash=%q p=%d registers=%d}", m.Size, clip(m.Hash, 40), m.P, len(m.Register))
}
