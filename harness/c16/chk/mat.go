package chk

import (
	"bytes"
	"encoding/binary"
	"fmt"
	"io"
	"math"
	"math/big"

	"gonum.org/v1/gonum/mat"
)

// MatHeader is the independent reading of the documented 40-byte header.
type MatHeader struct {
	Short      bool // fewer than 40 bytes
	Version    uint32
	Form       byte
	Packing    byte
	Uplo       byte
	Unit       byte
	Rows, Cols int64
	KU, KL     int64
}

// ParseMatHeader reads the header fields (little endian) from b.
func ParseMatHeader(b []byte) MatHeader {
	if len(b) < 40 {
		return MatHeader{Short: true}
	}
	return MatHeader{
		Version: binary.LittleEndian.Uint32(b[0:]),
		Form:    b[4], Packing: b[5], Uplo: b[6], Unit: b[7],
		Rows: int64(binary.LittleEndian.Uint64(b[8:])),
		Cols: int64(binary.LittleEndian.Uint64(b[16:])),
		KU:   int64(binary.LittleEndian.Uint64(b[24:])),
		KL:   int64(binary.LittleEndian.Uint64(b[32:])),
	}
}

// TypeOK reports whether the header is the documented General/Full/All one.
func (h MatHeader) TypeOK() bool {
	return !h.Short && h.Version == 1 && h.Form == 'G' && h.Packing == 'F' && h.Uplo == 'A' && h.Unit == 0 && h.KU == 0 && h.KL == 0
}

// Elems returns rows*cols exactly.
func (h MatHeader) Elems() *big.Int {
	return new(big.Int).Mul(big.NewInt(h.Rows), big.NewInt(h.Cols))
}

// WouldAllocateLarge reports whether a decoder that multiplies the
// dimension fields in int64 (wrapping) would be led to allocate more than
// MaxDecodeElems elements but few enough for the runtime to try.
func (h MatHeader) WouldAllocateLarge() bool {
	if h.Short {
		return false
	}
	w := h.Rows * h.Cols // wraps
	return w > MaxDecodeElems && w <= 1<<46
}

// MaxDecodeElems bounds the matrices the monitor lets a decoder allocate
// (128 MiB of float64).
const MaxDecodeElems = 1 << 24

// DimClass classifies the dimension fields of a header.
func (h MatHeader) DimClass(vec bool) string {
	switch {
	case h.Short:
		return "short-header"
	case h.Rows < 0 || h.Cols < 0:
		return "dims-negative"
	case vec && h.Cols != 1:
		return "vec-cols-not-1"
	}
	e := h.Elems()
	switch {
	case e.Sign() == 0:
		return "dims-zero"
	case !e.IsInt64():
		return "dims-product-overflow"
	case e.Cmp(big.NewInt(1<<46)) > 0:
		// 8*elems exceeds the largest allocation the Go runtime attempts on
		// 64-bit platforms (2^48 bytes): make panics instead of trying.
		return "dims-unallocatable"
	case e.Cmp(big.NewInt(MaxDecodeElems)) > 0:
		return "dims-large"
	}
	return "dims-ok"
}

// wellFormedLen returns the exact length of a well-formed message with this
// header, or -1 when the header is not well formed.
func (h MatHeader) wellFormedLen(vec bool) int {
	if !h.TypeOK() || h.DimClass(vec) != "dims-ok" {
		return -1
	}
	return 40 + 8*int(h.Rows*h.Cols)
}

func denseConsistent(m *mat.Dense) string {
	r, c := m.Dims()
	raw := m.RawMatrix()
	switch {
	case r < 0 || c < 0:
		return fmt.Sprintf("negative dims %dx%d", r, c)
	case raw.Rows != r || raw.Cols != c:
		return fmt.Sprintf("Dims %dx%d but raw %dx%d", r, c, raw.Rows, raw.Cols)
	case r == 0 || c == 0:
		if r != 0 || c != 0 {
			return fmt.Sprintf("dims %dx%d with err == nil", r, c)
		}
		return ""
	case raw.Stride < c:
		return fmt.Sprintf("stride %d < cols %d", raw.Stride, c)
	}
	need := new(big.Int).Mul(big.NewInt(int64(r-1)), big.NewInt(int64(raw.Stride)))
	need.Add(need, big.NewInt(int64(c)))
	if need.Cmp(big.NewInt(int64(len(raw.Data)))) > 0 {
		return fmt.Sprintf("dims %dx%d stride %d need %s elements, backing slice has %d", r, c, raw.Stride, need, len(raw.Data))
	}
	return ""
}

func vecConsistent(v *mat.VecDense) string {
	n := v.Len()
	raw := v.RawVector()
	switch {
	case n < 0:
		return fmt.Sprintf("negative length %d", n)
	case raw.N != n:
		return fmt.Sprintf("Len %d but raw.N %d", n, raw.N)
	case n == 0:
		return ""
	case raw.Inc < 1:
		return fmt.Sprintf("inc %d", raw.Inc)
	}
	need := new(big.Int).Mul(big.NewInt(int64(n-1)), big.NewInt(int64(raw.Inc)))
	need.Add(need, big.NewInt(1))
	if need.Cmp(big.NewInt(int64(len(raw.Data)))) > 0 {
		return fmt.Sprintf("len %d inc %d need %s elements, backing slice has %d", n, raw.Inc, need, len(raw.Data))
	}
	return ""
}

// MatKind selects the decoder under test.
type MatKind struct {
	Routine string
	Vec     bool
	Stream  bool
}

var (
	KDense     = MatKind{"mat.Dense.UnmarshalBinary", false, false}
	KDenseFrom = MatKind{"mat.Dense.UnmarshalBinaryFrom", false, true}
	KVec       = MatKind{"mat.VecDense.UnmarshalBinary", true, false}
	KVecFrom   = MatKind{"mat.VecDense.UnmarshalBinaryFrom", true, true}
	MatKinds   = []MatKind{KDense, KDenseFrom, KVec, KVecFrom}
)

// Mat validates one of the four mat decoders on hostile bytes. readerKind
// selects the reader for the stream decoders.
//
// Allocation guard: the documentation states that the decoders do not limit
// the size of the unmarshalled matrix, so a header with a representable
// element count above MaxDecodeElems is not fed to a stream decoder (class
// dims-large, counted as skipped); every other header — negative, zero,
// overflowing or unallocatable — must be answered with an error.
func Mat(k MatKind, b []byte, readerKind int) (res Result) {
	h := ParseMatHeader(b)
	dc := h.DimClass(k.Vec)
	tc := "type-ok"
	if !h.Short && !h.TypeOK() {
		tc = "type-bad"
	}
	res.Class = fmt.Sprintf("%s|%s|%s", k.Routine, tc, dc)
	if k.Stream && tc == "type-ok" && h.Rows >= 0 && h.Cols >= 0 && (dc == "dims-large" || h.WouldAllocateLarge()) {
		res.Class += "|skipped"
		return res
	}
	var (
		d    mat.Dense
		v    mat.VecDense
		err  error
		n    int
		rd   io.Reader
		left *bytes.Reader
	)
	if k.Stream {
		left = bytes.NewReader(b)
		rd = wrapReader(left, readerKind)
	}
	res.Calls++
	p := try(func() {
		switch {
		case !k.Vec && !k.Stream:
			err = d.UnmarshalBinary(b)
		case !k.Vec:
			n, err = d.UnmarshalBinaryFrom(rd)
		case !k.Stream:
			err = v.UnmarshalBinary(b)
		default:
			n, err = v.UnmarshalBinaryFrom(rd)
		}
	})
	if p != "" {
		res.add(k.Routine+"|"+dc+"|panic", "%s on a %d-byte input with header %+v panicked: %s", k.Routine, len(b), h, p)
		return res
	}
	want := h.wellFormedLen(k.Vec)
	if err != nil {
		wellFormed := want >= 0 && (len(b) == want || k.Stream && len(b) >= want)
		if wellFormed {
			res.add(k.Routine+"|well-formed|rejected", "%s rejects a well-formed %d-byte message (header %+v): %v", k.Routine, len(b), h, err)
		}
		if k.Stream && n > len(b) {
			res.add(k.Routine+"|error|byte-count", "%s reports %d bytes read from a %d-byte stream", k.Routine, n, len(b))
		}
		// The receiver after a rejected decode: self-consistent (a stream
		// decoder may have sized it already), and usable again after Reset.
		var incons string
		if k.Vec {
			incons = vecConsistent(&v)
		} else {
			incons = denseConsistent(&d)
		}
		if incons != "" {
			res.add(k.Routine+"|rejected-input|receiver-inconsistent", "after %s returned %v the receiver is inconsistent: %s", k.Routine, err, incons)
			return res
		}
		good := matMsg(2, 1, 1.5, -2.5)
		res.Calls++
		if p := try(func() {
			var e2 error
			if k.Vec {
				v.Reset()
				e2 = v.UnmarshalBinary(good)
				if e2 == nil && (v.Len() != 2 || v.AtVec(0) != 1.5 || v.AtVec(1) != -2.5) {
					e2 = fmt.Errorf("wrong content %v", mat.Formatted(&v))
				}
			} else {
				d.Reset()
				e2 = d.UnmarshalBinary(good)
				if r, c := d.Dims(); e2 == nil && (r != 2 || c != 1 || d.At(0, 0) != 1.5 || d.At(1, 0) != -2.5) {
					e2 = fmt.Errorf("wrong content %v", mat.Formatted(&d))
				}
			}
			if e2 != nil {
				res.add(k.Routine+"|rejected-input|receiver-unusable-after-reset", "after %s returned %v and Reset, decoding a valid 2x1 message into the receiver: %v", k.Routine, err, e2)
			}
		}); p != "" {
			res.add(k.Routine+"|rejected-input|receiver-unusable-after-reset", "after %s returned %v, Reset and decoding a valid message panicked: %s", k.Routine, err, p)
		}
		return res
	}
	res.Accepted = true
	// accepted: the value must be consistent and the input well formed
	var incons string
	if k.Vec {
		incons = vecConsistent(&v)
	} else {
		incons = denseConsistent(&d)
	}
	if incons != "" {
		res.add(k.Routine+"|"+dc+"|inconsistent-value", "%s returned nil error for header %+v (%d bytes) and an inconsistent value: %s", k.Routine, h, len(b), incons)
		return res
	}
	if want < 0 || (!k.Stream && len(b) != want) || (k.Stream && len(b) < want) {
		res.add(k.Routine+"|"+tc+"-"+dc+"|accepted-malformed", "%s returned nil error for a malformed %d-byte input (header %+v)", k.Routine, len(b), h)
		return res
	}
	// bit-for-bit content
	for i := 0; i < int(h.Rows*h.Cols); i++ {
		wantBits := binary.LittleEndian.Uint64(b[40+8*i:])
		var got float64
		if k.Vec {
			got = v.AtVec(i)
		} else {
			got = d.At(i/int(h.Cols), i%int(h.Cols))
		}
		if math.Float64bits(got) != wantBits {
			res.add(k.Routine+"|well-formed|wrong-bits", "%s: element %d has bits %#x, the message says %#x", k.Routine, i, math.Float64bits(got), wantBits)
			break
		}
	}
	if k.Vec {
		if v.Len() != int(h.Rows) {
			res.add(k.Routine+"|well-formed|wrong-dims", "%s: Len %d, header says %d", k.Routine, v.Len(), h.Rows)
		}
	} else if r, c := d.Dims(); int64(r) != h.Rows || int64(c) != h.Cols {
		res.add(k.Routine+"|well-formed|wrong-dims", "%s: dims %dx%d, header says %dx%d", k.Routine, r, c, h.Rows, h.Cols)
	}
	if k.Stream {
		if n != want {
			res.add(k.Routine+"|well-formed|byte-count", "%s reports %d bytes read, the message has %d", k.Routine, n, want)
		}
		// (the DataErr reader reads ahead by design)
		if consumed := len(b) - left.Len(); consumed != want && readerKind != ReaderDataErr {
			res.add(k.Routine+"|well-formed|over-read", "%s consumed %d bytes of the stream, the message has %d", k.Routine, consumed, want)
		}
	}
	// canonical re-encoding
	var re []byte
	res.Calls++
	if p := try(func() {
		if k.Vec {
			re, err = v.MarshalBinary()
		} else {
			re, err = d.MarshalBinary()
		}
	}); p != "" || err != nil {
		res.add(k.Routine+"|well-formed|remarshal-fails", "MarshalBinary of the decoded value: panic=%q err=%v", p, err)
	} else if !bytes.Equal(re, b[:want]) {
		res.add(k.Routine+"|well-formed|remarshal-differs", "MarshalBinary of the decoded value differs from the %d-byte message", want)
	}
	return res
}

func wrapReader(r io.Reader, kind int) io.Reader {
	switch kind {
	case ReaderOneByte:
		return oneByte{r}
	case ReaderDataErr:
		return &dataErr{r: r}
	case ReaderHalf:
		return half{r}
	}
	return r
}

type oneByte struct{ r io.Reader }

func (o oneByte) Read(p []byte) (int, error) {
	if len(p) == 0 {
		return 0, nil
	}
	return o.r.Read(p[:1])
}

type half struct{ r io.Reader }

func (h half) Read(p []byte) (int, error) { return h.r.Read(p[:(len(p)+1)/2]) }

// dataErr returns io.EOF together with the last data.
type dataErr struct {
	r    io.Reader
	next []byte
	err  error
	init bool
}

func (d *dataErr) fill() {
	buf := make([]byte, 64)
	n, err := d.r.Read(buf)
	d.next, d.err = buf[:n], err
}

func (d *dataErr) Read(p []byte) (int, error) {
	if !d.init {
		d.init = true
		d.fill()
	}
	if len(d.next) == 0 {
		return 0, d.err
	}
	n := copy(p, d.next)
	d.next = d.next[n:]
	if len(d.next) == 0 && d.err == nil {
		d.fill()
		if len(d.next) == 0 {
			return n, d.err
		}
	}
	return n, nil
}

// EncodeMatRef is the reference encoder of the documented layout.
func EncodeMatRef(rows, cols int, at func(i, j int) float64) []byte {
	b := make([]byte, 40, 40+8*rows*cols)
	binary.LittleEndian.PutUint32(b[0:], 1)
	b[4], b[5], b[6], b[7] = 'G', 'F', 'A', 0
	binary.LittleEndian.PutUint64(b[8:], uint64(rows))
	binary.LittleEndian.PutUint64(b[16:], uint64(cols))
	for i := 0; i < rows; i++ {
		for j := 0; j < cols; j++ {
			b = binary.LittleEndian.AppendUint64(b, math.Float64bits(at(i, j)))
		}
	}
	return b
}
