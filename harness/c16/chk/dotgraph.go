package chk

import (
	"gonum.org/v1/gonum/graph"
	"gonum.org/v1/gonum/graph/encoding"
	"gonum.org/v1/gonum/graph/encoding/dot"
	"gonum.org/v1/gonum/graph/multi"
	"gonum.org/v1/gonum/graph/simple"
)

// Attr is an ordered key/value pair.
type Attr = encoding.Attribute

// AttrList is an append-only attribute list (unlike encoding.Attributes it
// keeps empty keys, empty values and repeated keys, so that the round trip
// of the textual attribute list can be judged exactly).
type AttrList []Attr

func (a *AttrList) Attributes() []Attr { return *a }
func (a *AttrList) SetAttribute(at Attr) error {
	*a = append(*a, at)
	return nil
}

// DNode is a graph node with a DOT ID and attributes. When Sub / MSub is
// set the node stands for a subgraph (dot.Subgrapher / dot.MultiSubgrapher).
type DNode struct {
	NID   int64
	Name  string
	Attrs AttrList
}

func (n *DNode) ID() int64                 { return n.NID }
func (n *DNode) DOTID() string             { return n.Name }
func (n *DNode) SetDOTID(id string)        { n.Name = id }
func (n *DNode) Attributes() []Attr        { return n.Attrs }
func (n *DNode) SetAttribute(a Attr) error { return n.Attrs.SetAttribute(a) }

// SubNode is a node of a simple graph that stands for a subgraph.
type SubNode struct {
	NID int64
	G   dot.Graph
}

func (n *SubNode) ID() int64             { return n.NID }
func (n *SubNode) Subgraph() graph.Graph { return n.G }
func (n *SubNode) DOTID() string         { return n.G.DOTID() }

// MSubNode is a node of a multigraph that stands for a subgraph.
type MSubNode struct {
	NID int64
	G   dot.Multigraph
}

func (n *MSubNode) ID() int64                  { return n.NID }
func (n *MSubNode) Subgraph() graph.Multigraph { return n.G }
func (n *MSubNode) DOTID() string              { return n.G.DOTID() }

// Ports holds the port/compass pairs of an edge.
type Ports struct {
	FromPort, FromCompass string
	ToPort, ToCompass     string
}

// DEdge is an edge with attributes and ports.
type DEdge struct {
	F, T  graph.Node
	Attrs AttrList
	P     Ports
}

func (e *DEdge) From() graph.Node { return e.F }
func (e *DEdge) To() graph.Node   { return e.T }
func (e *DEdge) ReversedEdge() graph.Edge {
	return &DEdge{F: e.T, T: e.F, Attrs: e.Attrs, P: Ports{e.P.ToPort, e.P.ToCompass, e.P.FromPort, e.P.FromCompass}}
}
func (e *DEdge) Attributes() []Attr         { return e.Attrs }
func (e *DEdge) SetAttribute(a Attr) error  { return e.Attrs.SetAttribute(a) }
func (e *DEdge) FromPort() (string, string) { return e.P.FromPort, e.P.FromCompass }
func (e *DEdge) ToPort() (string, string)   { return e.P.ToPort, e.P.ToCompass }
func (e *DEdge) SetFromPort(port, compass string) error {
	e.P.FromPort, e.P.FromCompass = port, compass
	return nil
}
func (e *DEdge) SetToPort(port, compass string) error {
	e.P.ToPort, e.P.ToCompass = port, compass
	return nil
}

// DLine is a multigraph line with attributes and ports.
type DLine struct {
	DEdge
	LID int64
}

func (l *DLine) ID() int64 { return l.LID }
func (l *DLine) ReversedLine() graph.Line {
	return &DLine{DEdge: *(l.DEdge.ReversedEdge().(*DEdge)), LID: l.LID}
}

// meta is the part shared by the four graph types.
type meta struct {
	Name                             string
	GraphAttrs, NodeAttrs, EdgeAttrs AttrList
	// SetterCalls counts DOTAttributeSetters use.
}

func (m *meta) DOTID() string      { return m.Name }
func (m *meta) SetDOTID(id string) { m.Name = id }
func (m *meta) DOTAttributers() (graph, node, edge encoding.Attributer) {
	return &m.GraphAttrs, &m.NodeAttrs, &m.EdgeAttrs
}
func (m *meta) DOTAttributeSetters() (graph, node, edge encoding.AttributeSetter) {
	return &m.GraphAttrs, &m.NodeAttrs, &m.EdgeAttrs
}

// DDirected is a simple directed graph for DOT.
type DDirected struct {
	*simple.DirectedGraph
	meta
	Subs []dot.Graph
}

func NewDDirected() *DDirected { return &DDirected{DirectedGraph: simple.NewDirectedGraph()} }
func (g *DDirected) NewNode() graph.Node {
	return &DNode{NID: g.DirectedGraph.NewNode().ID()}
}
func (g *DDirected) NewEdge(from, to graph.Node) graph.Edge { return &DEdge{F: from, T: to} }
func (g *DDirected) Structure() []dot.Graph                 { return g.Subs }

// DUndirected is a simple undirected graph for DOT.
type DUndirected struct {
	*simple.UndirectedGraph
	meta
	Subs []dot.Graph
}

func NewDUndirected() *DUndirected { return &DUndirected{UndirectedGraph: simple.NewUndirectedGraph()} }
func (g *DUndirected) NewNode() graph.Node {
	return &DNode{NID: g.UndirectedGraph.NewNode().ID()}
}
func (g *DUndirected) NewEdge(from, to graph.Node) graph.Edge { return &DEdge{F: from, T: to} }
func (g *DUndirected) Structure() []dot.Graph                 { return g.Subs }

// MDirected is a directed multigraph for DOT.
type MDirected struct {
	*multi.DirectedGraph
	meta
	Subs []dot.Multigraph
}

func NewMDirected() *MDirected { return &MDirected{DirectedGraph: multi.NewDirectedGraph()} }
func (g *MDirected) NewNode() graph.Node {
	return &DNode{NID: g.DirectedGraph.NewNode().ID()}
}
func (g *MDirected) NewLine(from, to graph.Node) graph.Line {
	return &DLine{DEdge: DEdge{F: from, T: to}, LID: g.DirectedGraph.NewLine(from, to).ID()}
}
func (g *MDirected) Structure() []dot.Multigraph { return g.Subs }

// MUndirected is an undirected multigraph for DOT.
type MUndirected struct {
	*multi.UndirectedGraph
	meta
	Subs []dot.Multigraph
}

func NewMUndirected() *MUndirected { return &MUndirected{UndirectedGraph: multi.NewUndirectedGraph()} }
func (g *MUndirected) NewNode() graph.Node {
	return &DNode{NID: g.UndirectedGraph.NewNode().ID()}
}
func (g *MUndirected) NewLine(from, to graph.Node) graph.Line {
	return &DLine{DEdge: DEdge{F: from, T: to}, LID: g.UndirectedGraph.NewLine(from, to).ID()}
}
func (g *MUndirected) Structure() []dot.Multigraph { return g.Subs }

var (
	_ dot.Graph             = (*DDirected)(nil)
	_ dot.Attributers       = (*DDirected)(nil)
	_ dot.AttributeSetters  = (*DDirected)(nil)
	_ dot.DOTIDSetter       = (*DDirected)(nil)
	_ dot.Structurer        = (*DDirected)(nil)
	_ encoding.Builder      = (*DDirected)(nil)
	_ encoding.Builder      = (*DUndirected)(nil)
	_ dot.MultiStructurer   = (*MDirected)(nil)
	_ encoding.MultiBuilder = (*MDirected)(nil)
	_ encoding.MultiBuilder = (*MUndirected)(nil)
	_ dot.Porter            = (*DEdge)(nil)
	_ dot.PortSetter        = (*DEdge)(nil)
	_ dot.Porter            = (*DLine)(nil)
	_ dot.Subgrapher        = (*SubNode)(nil)
	_ dot.MultiSubgrapher   = (*MSubNode)(nil)
	_ dot.Node              = (*DNode)(nil)
)

// ---- the value model ------------------------------------------------------

// MEdge is one edge of the value model.
type MEdge struct {
	From, To string // node DOT IDs
	Attrs    []Attr
	P        Ports
	// Ambiguous: several textual edges collapsed on this one in a simple
	// graph with different attributes/ports; attributes and ports are then
	// not compared.
	Ambiguous bool
}

// Model is the value of a DOT graph: what must survive a round trip.
type Model struct {
	Directed bool
	Multi    bool
	Name     string
	// Nodes maps DOT ID -> ordered attribute list.
	Nodes map[string][]Attr
	// NodeOrder is the order of first appearance.
	NodeOrder                        []string
	Edges                            []MEdge
	GraphAttrs, NodeAttrs, EdgeAttrs []Attr
	// DupIDs is set when two distinct nodes of a decoded graph carry the
	// same DOT ID (the model cannot represent that).
	DupIDs bool
}

// orient puts an undirected edge in canonical orientation.
func (e MEdge) orient(directed bool) MEdge {
	if directed || e.From < e.To || (e.From == e.To && portLess(e.P)) {
		return e
	}
	e.From, e.To = e.To, e.From
	e.P = Ports{e.P.ToPort, e.P.ToCompass, e.P.FromPort, e.P.FromCompass}
	return e
}

func portLess(p Ports) bool {
	if p.FromPort != p.ToPort {
		return p.FromPort < p.ToPort
	}
	return p.FromCompass <= p.ToCompass
}

// ExtractModel reads the value model out of a decoded graph of one of the
// four types above.
func ExtractModel(g any) *Model {
	m := &Model{Nodes: make(map[string][]Attr)}
	var gg graph.Graph
	var mt *meta
	switch g := g.(type) {
	case *DDirected:
		gg, mt, m.Directed = g, &g.meta, true
	case *DUndirected:
		gg, mt = g, &g.meta
	case *MDirected:
		gg, mt, m.Directed, m.Multi = g, &g.meta, true, true
	case *MUndirected:
		gg, mt, m.Multi = g, &g.meta, true
	default:
		panic("chk: ExtractModel: unknown graph type")
	}
	m.Name = mt.Name
	m.GraphAttrs, m.NodeAttrs, m.EdgeAttrs = mt.GraphAttrs, mt.NodeAttrs, mt.EdgeAttrs
	nodes := graph.NodesOf(gg.Nodes())
	sortNodes(nodes)
	for _, n := range nodes {
		dn := n.(*DNode)
		if _, dup := m.Nodes[dn.Name]; dup {
			m.DupIDs = true
		}
		m.Nodes[dn.Name] = dn.Attrs
		m.NodeOrder = append(m.NodeOrder, dn.Name)
	}
	name := func(n graph.Node) string { return n.(*DNode).Name }
	switch g := g.(type) {
	case *DDirected:
		for _, e := range graph.EdgesOf(g.Edges()) {
			de := e.(*DEdge)
			m.Edges = append(m.Edges, MEdge{From: name(de.F), To: name(de.T), Attrs: de.Attrs, P: de.P})
		}
	case *DUndirected:
		for _, e := range graph.EdgesOf(g.Edges()) {
			de := e.(*DEdge)
			m.Edges = append(m.Edges, MEdge{From: name(de.F), To: name(de.T), Attrs: de.Attrs, P: de.P}.orient(false))
		}
	case *MDirected:
		collectLines(m, nodes, true, g.From, g.Lines)
	case *MUndirected:
		collectLines(m, nodes, false, g.From, g.Lines)
	}
	return m
}

func collectLines(m *Model, nodes []graph.Node, directed bool, from func(int64) graph.Nodes, lines func(u, v int64) graph.Lines) {
	name := func(n graph.Node) string { return n.(*DNode).Name }
	for _, u := range nodes {
		for _, v := range graph.NodesOf(from(u.ID())) {
			if !directed && v.ID() < u.ID() {
				continue
			}
			for _, l := range graph.LinesOf(lines(u.ID(), v.ID())) {
				dl := l.(*DLine)
				m.Edges = append(m.Edges, MEdge{From: name(dl.F), To: name(dl.T), Attrs: dl.Attrs, P: dl.P}.orient(directed))
			}
		}
	}
}

func sortNodes(n []graph.Node) {
	for i := 1; i < len(n); i++ {
		for j := i; j > 0 && n[j].ID() < n[j-1].ID(); j-- {
			n[j], n[j-1] = n[j-1], n[j]
		}
	}
}

// Orient returns e in the canonical orientation used by the value model.
func Orient(e MEdge, directed bool) MEdge { return e.orient(directed) }
