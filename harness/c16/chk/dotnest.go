package chk

import (
	"fmt"
	"strings"

	"gonum.org/v1/gonum/verifx/vrt"
)

// NestedDotOptions steers GenNestedDot.
type NestedDotOptions struct {
	// MaxDepth is the deepest nesting of subgraphs (as edge end points or
	// as plain statements).
	MaxDepth int
	// Pool is the number of distinct node names drawn from; a small pool
	// makes statements refer to nodes that already exist.
	Pool int
	// NoSelf keeps the node sets of the two sides of every edge disjoint, so
	// that a simple graph can hold the result.
	NoSelf bool
}

type nestGen struct {
	r    *vrt.Rand
	o    NestedDotOptions
	dir  bool
	next int // fresh node counter
}

var nestNames = []string{"a", "b", "c", "d", "e", "f", "g", "h", "i", "j", "k", "l", "m", "n0", "o", "p"}

func (g *nestGen) name(avoid map[string]bool) string {
	for try := 0; try < 8; try++ {
		var s string
		if g.r.Intn(4) == 0 {
			g.next++
			s = fmt.Sprintf("x%d", g.next)
		} else {
			s = nestNames[g.r.Intn(min(g.o.Pool, len(nestNames)))]
		}
		if !avoid[s] {
			return s
		}
	}
	g.next++
	return fmt.Sprintf("x%d", g.next)
}

func (g *nestGen) op() string {
	if g.dir {
		return " -> "
	}
	return " -- "
}

// vertex writes an edge end point: a node (sometimes with a port) or a
// subgraph, nested up to depth. It returns the text and the set of node
// names it stands for (transitively).
func (g *nestGen) vertex(depth int, avoid map[string]bool) (string, map[string]bool) {
	if depth <= 0 || g.r.Intn(3) == 0 {
		n := g.name(avoid)
		txt := n
		if g.r.Intn(8) == 0 {
			txt += []string{":p1", ":n", ":p2:se", ":\"q\""}[g.r.Intn(4)]
		}
		return txt, map[string]bool{n: true}
	}
	return g.subgraph(depth, avoid)
}

func (g *nestGen) subgraph(depth int, avoid map[string]bool) (string, map[string]bool) {
	var sb strings.Builder
	switch g.r.Intn(4) {
	case 0:
		fmt.Fprintf(&sb, "subgraph s%d ", g.r.Intn(5))
	case 1:
		sb.WriteString("subgraph ")
	}
	sb.WriteString("{ ")
	set := map[string]bool{}
	body, bs := g.stmts(1+g.r.Intn(3), depth-1, avoid)
	sb.WriteString(body)
	for k := range bs {
		set[k] = true
	}
	sb.WriteString(" }")
	return sb.String(), set
}

// stmts writes n statements and returns the nodes they reference.
func (g *nestGen) stmts(n, depth int, avoid map[string]bool) (string, map[string]bool) {
	var parts []string
	set := map[string]bool{}
	add := func(m map[string]bool) {
		for k := range m {
			set[k] = true
		}
	}
	for i := 0; i < n; i++ {
		switch k := g.r.Intn(10); {
		case k < 3: // node statement
			nm := g.name(avoid)
			txt := nm
			if g.r.Intn(4) == 0 {
				txt += fmt.Sprintf(" [k%d=v%d]", g.r.Intn(3), g.r.Intn(3))
			}
			parts = append(parts, txt)
			set[nm] = true
		case k < 8: // edge statement, chain of 2..4 end points
			links := 1 + g.r.Intn(3)
			av := map[string]bool{}
			for k := range avoid {
				av[k] = true
			}
			txt, vs := g.vertex(depth, av)
			add(vs)
			for l := 0; l < links; l++ {
				if g.o.NoSelf {
					// keep every end point of the chain disjoint from all others
					for k := range vs {
						av[k] = true
					}
				}
				var t string
				t, vs = g.vertex(depth, av)
				add(vs)
				txt += g.op() + t
			}
			if g.r.Intn(4) == 0 {
				txt += fmt.Sprintf(" [w=%d]", g.r.Intn(4))
			}
			parts = append(parts, txt)
		case k < 9 && depth > 0: // plain nested subgraph statement
			txt, vs := g.subgraph(depth, avoid)
			add(vs)
			parts = append(parts, txt)
		default:
			parts = append(parts, []string{"node [shape=box]", "edge [color=red]", "graph [rank=same]", "rankdir=LR"}[g.r.Intn(4)])
		}
	}
	sep := []string{"; ", " ", ";\n\t"}[g.r.Intn(3)]
	return strings.Join(parts, sep), set
}

// GenNestedDot writes a DOT text whose edge statements use subgraphs as end
// points, nested, in chains, over nodes that exist already and new ones, mixed
// with plain nested subgraph statements.
func GenNestedDot(r *vrt.Rand, o NestedDotOptions) string {
	g := &nestGen{r: r, o: o, dir: r.Bool()}
	var sb strings.Builder
	if r.Intn(4) == 0 {
		sb.WriteString("strict ")
	}
	if g.dir {
		sb.WriteString("digraph ")
	} else {
		sb.WriteString("graph ")
	}
	if r.Bool() {
		sb.WriteString("G ")
	}
	sb.WriteString("{\n\t")
	body, _ := g.stmts(1+r.Intn(4), o.MaxDepth, map[string]bool{})
	sb.WriteString(body)
	sb.WriteString("\n}\n")
	return sb.String()
}
